/-
C02 layer (f2): `readDistance` and the first entry of `copyStaticDict`, down to the end of the command.
-/
import Compress.Proofs.BrImplCmdCopy
namespace Compress.Proofs.BrImpl
open Compress Compress.Brotli Compress.Brotli.Impl Compress.Window Compress.Proofs.Window
open Compress.Proofs.BrCut (cmdStep DistInv readCommandsAuto cmdContAuto)

section
variable {sd : ByteArray} {ws : Nat} {h : Header} {lst : Bool} {B0 : Nat} {c0 : Cmd} {st0 : St}

/-- `copyStaticDict`, first entry: the word is looked up and transformed. -/
theorem phase_stat (hsd : sd.size = 122784) (cx : Cx sd ws h lst B0 c0 st0) {s : State} {st : St} {c : Cmd}
    {del : List UInt8} {M : Int} {f B : Nat}
    (m : Mid ws h lst s st c del) (hb : s.blkLen = M) (hw : s.word = []) (tr : Track c0 st0 c st M)
    (chain : cmdStep sd ws h c0 st0 =
      match dictionaryWord sd s.cpyLen (s.dist - min st.out.size ws - 1) with
      | none => (.error .corrupt, st)
      | some w => KEnd c (M - w.length) (stOut st (st.out.toList ++ w)))
    (hq : s.dict.rdPos < s.dict.wrPos ∨ 1 ≤ M)
    (hf : 1 + 5 * min (c0.mlen + st0.bits.length) (st.bits.length + M.toNat + 1) ≤ f) (hB : st.bits.length ≤ B) :
    After sd ws (readCommandsAuto sd ws h c0 st0) lst B0 B del (cont sd (doLabel sd .copyStaticDict s) f) := by
  rw [doLabel_static, if_pos (by rw [hw]; rfl)]
  have hidx : s.dist - (s.dict.histSize + 1) = s.dist - min st.out.size ws - 1 := by
    rw [histSize_inv m.win, Array.length_toList, Nat.min_comm]; omega
  rw [hidx]
  have hsw := staticWord_eq sd hsd s.cpyLen (s.dist - min st.out.size ws - 1)
  rcases hr : staticWord sd s.cpyLen (s.dist - min st.out.size ws - 1) with e | w
  · rw [hr] at hsw
    dsimp only at hsw ⊢
    rw [hsw.2] at chain
    exact After.fail (res_err cx.nd cx.inv0 chain) (by rw [hsw.1]; decide) m.win
  · rw [hr] at hsw
    dsimp only at hsw ⊢
    rw [hsw] at chain
    dsimp only at chain
    exact phase_word cx (2 * w.length + 1) (s := { s with word := w })
      (by show 2 * w.length + (if s.dict.wrPos = s.dict.hist.size then 1 else 0) ≤ _; split <;> omega)
      ⟨m.toRead, m.err, m.rd, m.win, m.zeros, m.avail,
        m.cr.transfer rfl rfl rfl rfl rfl rfl rfl rfl rfl rfl rfl rfl rfl rfl rfl, m.dpos, m.aligned, m.mtf, m.last⟩
      hb tr chain (Or.inl hq) hf hB

/-- `readDistance` once the distance is known: the ring of last distances, then the copy. -/
theorem dist_tail (hsd : sd.size = 122784) (cx : Cx sd ws h lst B0 c0 st0) {s : State} {st : St} {c : Cmd}
    {del : List UInt8} {f B : Nat} {dsym : Nat}
    (m : Mid ws h lst s st c del) (hb : s.blkLen = (c.mlen : Int)) (hw : s.word = [])
    (hz : s.distZero = decide (dsym = 0)) (hd0 : 0 < s.dist) (tr : Track c0 st0 c st c.mlen)
    (chain : cmdStep sd ws h c0 st0 = KCopy sd ws c dsym (some s.dist) s.cpyLen st)
    (hq : s.dict.rdPos < s.dict.wrPos ∨ 1 ≤ (c.mlen : Int))
    (hf : 2 + 5 * min (c0.mlen + st0.bits.length) (st.bits.length + c.mlen + 1) ≤ f) (hB : st.bits.length ≤ B) :
    After sd ws (readCommandsAuto sd ws h c0 st0) lst B0 B del (cont sd (distTail s) f) := by
  rw [KCopy_some] at chain
  obtain ⟨f', rfl⟩ : ∃ f', f = f' + 1 := ⟨f - 1, by omega⟩
  have hhs : s.dict.histSize = min st.out.size ws := by
    rw [histSize_inv m.win, Array.length_toList, Nat.min_comm]
  have hf' : 1 + 5 * min (c0.mlen + st0.bits.length) (st.bits.length + ((c.mlen : Nat) : Int).toNat + 1) ≤ f' := by
    rw [Int.toNat_natCast]; omega
  unfold distTail
  by_cases hle : s.dist ≤ s.dict.histSize
  · rw [if_pos hle]
    rw [hhs] at hle
    rw [if_pos hle] at chain
    show After sd ws _ lst B0 B del (cmdLoop sd (f' + 1) .copyDynamicDict _)
    rw [cmdLoop_cont]
    by_cases hz0 : dsym = 0
    · have hzt : s.distZero = true := by rw [hz]; exact decide_eq_true hz0
      rw [if_neg (by rw [hzt]; decide)]
      rw [if_pos (Or.inl hz0)] at chain
      exact phase_dyn cx (2 * s.cpyLen + 1) (by split <;> omega) m hb hw tr hd0 (by rw [Nat.min_comm]; exact hle)
        chain (Or.inl hq) hf' hB
    · have hzf : s.distZero = false := by rw [hz]; exact decide_eq_false hz0
      rw [if_pos (by rw [hzf]; rfl)]
      rw [if_neg (by omega)] at chain
      refine phase_dyn cx (2 * s.cpyLen + 1) (s := ringUpd s)
        (c := { c with d1 := s.dist, d2 := c.d1, d3 := c.d2, d4 := c.d3 }) (by
          show 2 * s.cpyLen + (if s.dict.wrPos = s.dict.hist.size then 1 else 0) ≤ _
          split <;> omega)
        ⟨m.toRead, m.err, m.rd, m.win, m.zeros, m.avail,
          ⟨m.cr.hdr.transfer rfl rfl rfl rfl rfl rfl rfl rfl, m.cr.lit, m.cr.iac, m.cr.dist, m.cr.litMapOff,
            m.cr.cmode, m.cr.distMapOff, ⟨rfl, m.cr.dists.1, m.cr.dists.2.1, m.cr.dists.2.2.1⟩⟩,
          ⟨hd0, m.dpos.1, m.dpos.2.1, m.dpos.2.2.1⟩, m.aligned, m.mtf, m.last⟩
        hb hw ⟨tr.len_le, tr.size_le, tr.kI, tr.kD, tr.kL, tr.kM⟩ hd0 (by rw [Nat.min_comm]; exact hle)
        chain (Or.inl hq) hf' hB
  · rw [if_neg hle]
    rw [hhs] at hle
    rw [if_neg hle, if_pos (Or.inr (by omega))] at chain
    show After sd ws _ lst B0 B del (cmdLoop sd (f' + 1) .copyStaticDict s)
    rw [cmdLoop_cont]
    exact phase_stat hsd cx m hb hw tr chain hq hf' hB

/-- the state after the distance has been read. -/
def distUpd (s : State) (r : BR) (bd : BlockDec) (sym : Nat) (d : Int) : State :=
  { s with rd := r, distBlk := bd, distMapOff := 4 * bd.type0, distZero := decide (sym = 0), dist := d.toNat }

/-- `readDistance`. -/
theorem phase_dist (hsd : sd.size = 122784) (cx : Cx sd ws h lst B0 c0 st0) {s : State} {st : St} {c : Cmd}
    {del : List UInt8} {f B : Nat} {cl : Nat} {iz : Bool}
    (m : Mid ws h lst s st c del) (hb : s.blkLen = (c.mlen : Int)) (hw : s.word = [])
    (hcl : s.cpyLen = cl) (h2 : 2 ≤ cl) (hiz : s.distZero = iz)
    (tr : Track c0 st0 c st c.mlen) (hD : c.distB = c0.distB)
    (chain : cmdStep sd ws h c0 st0 = KDist sd ws h c cl iz st)
    (hq : s.dict.rdPos < s.dict.wrPos ∨ 1 ≤ (c.mlen : Int))
    (hf : 2 + 5 * min (c0.mlen + st0.bits.length) (st.bits.length + c.mlen + 1) ≤ f) (hB : st.bits.length ≤ B) :
    After sd ws (readCommandsAuto sd ws h c0 st0) lst B0 B del (cont sd (doLabel sd .readDistance s) f) := by
  rw [KDist_eq] at chain
  have hdl := doLabel_dist sd s (by rw [m.cr.distMapOff, m.cr.dist.2.2.2.1])
  cases iz with
  | true =>
    rw [if_pos hiz] at hdl
    rw [hdl]
    have chain' : cmdStep sd ws h c0 st0 = KCopy sd ws c 0 (some c.d1) cl st := chain
    refine dist_tail hsd cx (s := { s with dist := s.dists0 }) (dsym := 0)
      ⟨m.toRead, m.err, m.rd, m.win, m.zeros, m.avail,
        m.cr.transfer rfl rfl rfl rfl rfl rfl rfl rfl rfl rfl rfl rfl rfl rfl rfl, m.dpos, m.aligned, m.mtf, m.last⟩
      hb hw hiz (by show 0 < s.dists0; rw [m.cr.dists.1]; exact m.dpos.1) tr ?_ hq hf hB
    show _ = KCopy sd ws c 0 (some s.dists0) s.cpyLen st
    rw [m.cr.dists.1, hcl]
    exact chain'
  | false =>
    rw [if_neg (by rw [hiz]; decide)] at hdl
    ·
      rcases (dist_sim m.cr m.dpos hcl h2).cases st with ⟨a, b, k, hk, hxm, hym, hR⟩ | ⟨e, r, e', st', hxm, hym, he, ho⟩
      · obtain ⟨bd, sym, d⟩ := a
        obtain ⟨c3, dsym, dq⟩ := b
        obtain ⟨hnext, hc3, hsym, hdq⟩ := hR
        dsimp only at hnext hc3 hsym hdq
        obtain ⟨dB, rfl⟩ : ∃ dB, c3 = { c with distB := dB } := ⟨_, hc3⟩
        dsimp only at hnext
        obtain ⟨hrel, hpref, hnt, hcnt⟩ := hnext
        subst hsym
        rw [BrCut.bind_ok_eq hym] at chain
        dsimp only at chain
        rw [m.rd, hxm] at hdl
        dsimp only at hdl
        rcases hdq with ⟨hd, rfl⟩ | ⟨hd, rfl⟩
        · rw [if_pos hd] at hdl
          obtain ⟨s1, hs1, hd1⟩ := hdl
          rw [hs1]
          exact After.fail (res_err cx.nd cx.inv0 chain) (by decide) (by rw [hd1]; exact m.win)
        · rw [if_neg (by omega)] at hdl
          rw [hdl]
          have hal : ((stAt st k).used + (stAt st k).bits.length) % 8 = 0 := by
            rw [stAt_used, stAt_bits, List.length_drop]
            have := m.aligned
            have : st.used + k + (st.bits.length - k) = st.used + st.bits.length := by omega
            rw [this]; exact m.aligned
          have hbl : (stAt st k).bits.length ≤ st.bits.length := by
            rw [stAt_bits, List.length_drop]; omega
          refine dist_tail hsd cx
            (s := distUpd s (brOf (stAt st k)) bd sym d)
            (st := stAt st k) (c := { c with distB := dB }) (dsym := sym)
            ⟨m.toRead, m.err, rfl, m.win, m.zeros, m.avail,
              ⟨by
                  have := m.cr.hdr.transfer (s' := distUpd s (brOf (stAt st k)) bd sym d)
                    rfl rfl rfl rfl rfl rfl rfl hpref
                  rw [← hnt] at this
                  exact this,
                m.cr.lit, m.cr.iac, hrel, m.cr.litMapOff, m.cr.cmode,
                by show 4 * bd.type0 = 4 * dB.cur; rw [hrel.2.2.2.1], m.cr.dists⟩,
              m.dpos, hal, m.mtf, m.last⟩
            hb hw rfl (by show 0 < d.toNat; omega)
            ⟨Nat.le_trans hbl tr.len_le, tr.size_le, tr.kI, ⟨by rw [← hD]; exact hnt, fun hlt => by
                have := (hcnt (by rw [hD]; exact hlt)).1
                rw [← hD]
                show c.distB.count ≤ dB.count + 1
                omega⟩, tr.kL, tr.kM⟩
            (by show _ = KCopy sd ws _ sym (some d.toNat) s.cpyLen (stAt st k); rw [hcl]; exact chain) hq
            (by show 2 + 5 * min _ ((stAt st k).bits.length + c.mlen + 1) ≤ f; omega) (Nat.le_trans hbl hB)
      · rw [m.rd, hxm] at hdl
        obtain ⟨s1, hs1, hd1⟩ := hdl
        rw [hs1]
        rw [BrCut.bind_err_eq hym] at chain
        exact After.fail (res_err cx.nd cx.inv0 chain) he (by rw [hd1, ho]; exact m.win)
end
end Compress.Proofs.BrImpl
