/-
S5: the bit writer hands the sink the packed bit list.
-/
import Compress.Proofs.BitIOPack

namespace Compress.Proofs.BitIO
open Compress Compress.Prefix

theorem two64_eq : two64 = 2 ^ 64 := by decide

theorem le64_bytesOf64 (big : Bool) : ∀ (k u : Nat),
    le64 big (bytesOf64 big u k) = u % 2 ^ (8 * k) ∧ (bytesOf64 big u k).length = k
  | 0, u => by simp [bytesOf64, le64, Nat.mod_one]
  | k+1, u => by
    obtain ⟨ih1, ih2⟩ := le64_bytesOf64 big k (u / 256)
    have e : bytesOf64 big u (k+1) = ordByte big (UInt8.ofNat (u % 256)) :: bytesOf64 big (u / 256) k := rfl
    rw [e, le64_ordByte_cons, ih1, List.length_cons, ih2, UInt8.toNat_ofNat']
    refine ⟨?_, rfl⟩
    have e2 : 2 ^ (8 * (k + 1)) = 256 * 2 ^ (8 * k) := by
      rw [Nat.mul_succ, Nat.pow_add, Nat.mul_comm]
    rw [e2, Nat.mod_mul, Nat.mod_mod]

def wBytes (w : BW) : List UInt8 := w.sink.got ++ w.buf
def wVal (w : BW) : Nat := le64 w.bigEndian (wBytes w) + 2 ^ (8 * (wBytes w).length) * w.bufBits
def wLen (w : BW) : Nat := 8 * (wBytes w).length + w.numBits

theorem emitStage_spec (w : BW) (hb : w.sink.budget = none) :
    ∃ w', w.emitStage = (w', none) ∧ w'.sink.budget = none ∧ w'.sink.got = w.sink.got ++ w.buf ∧
      w'.buf = [] ∧ w'.bufBits = w.bufBits ∧ w'.numBits = w.numBits ∧ w'.bigEndian = w.bigEndian := by
  rcases w with ⟨off, bb, nb, big, buf, sink⟩
  rcases sink with ⟨got, bud, mode, fe, tag⟩
  simp only at hb
  subst hb
  refine ⟨_, rfl, rfl, rfl, ?_, rfl, rfl, rfl⟩
  simp

theorem val_push (B u k X : Nat) :
    (B + 2 ^ X * (u % 2 ^ (8 * k))) + 2 ^ (8 * (X' + k)) * (u / 2 ^ (8 * k)) =
      B + 2 ^ X * (u % 2 ^ (8 * k)) + 2 ^ (8 * X') * (2 ^ (8 * k) * (u / 2 ^ (8 * k))) := by
  rw [Nat.mul_add, Nat.pow_add, Nat.mul_assoc]

theorem pushBits_spec (w : BW) (hb : w.sink.budget = none) :
    ∃ w', w.pushBits = (w', none) ∧ w'.sink.budget = none ∧ wVal w' = wVal w ∧ wLen w' = wLen w ∧
      w'.bigEndian = w.bigEndian ∧ w'.numBits = w.numBits % 8 ∧
      w'.bufBits = w.bufBits / 2 ^ (8 * (w.numBits / 8)) := by
  -- after the optional stage emission
  have h1 : ∃ w1, (if w.buf.length ≥ stageSize - 8 then w.emitStage else (w, none)) = (w1, none) ∧
      w1.sink.budget = none ∧ wBytes w1 = wBytes w ∧ w1.bufBits = w.bufBits ∧ w1.numBits = w.numBits ∧
      w1.bigEndian = w.bigEndian := by
    by_cases hs : w.buf.length ≥ stageSize - 8
    · rw [if_pos hs]
      obtain ⟨w', e, h1, h2, h3, h4, h5, h6⟩ := emitStage_spec w hb
      exact ⟨w', e, h1, by simp [wBytes, h2, h3], h4, h5, h6⟩
    · rw [if_neg hs]
      exact ⟨w, rfl, hb, rfl, rfl, rfl, rfl⟩
  obtain ⟨w1, e1, hb1, hB, hbb, hnb, hbig⟩ := h1
  unfold BW.pushBits
  rw [e1]
  simp only []
  refine ⟨_, rfl, hb1, ?_, ?_, hbig, ?_, ?_⟩
  · obtain ⟨l1, l2⟩ := le64_bytesOf64 w1.bigEndian (w1.numBits / 8) w1.bufBits
    simp only [wVal, wBytes] at hB ⊢
    rw [← List.append_assoc, hB]
    rw [hbig, hbb, hnb] at l1 l2 ⊢
    generalize w.sink.got ++ w.buf = B
    rw [le64_append, l1, List.length_append, l2]
    rw [Nat.mul_add, Nat.pow_add, Nat.add_assoc, Nat.mul_assoc, ← Nat.mul_add, Nat.mod_add_div]
  · simp only [wLen, wBytes] at hB ⊢
    obtain ⟨_, l2⟩ := le64_bytesOf64 w1.bigEndian (w1.numBits / 8) w1.bufBits
    rw [← List.append_assoc, hB, List.length_append, l2, hnb]
    omega
  · simp only [hnb]; omega
  · simp only [hbb, hnb]

structure WInv (w : BW) : Prop where
  nobudget : w.sink.budget = none
  nb : w.numBits ≤ 63
  lt : w.bufBits < 2 ^ w.numBits

theorem pow_split (a b : Nat) (h : b ≤ a) : 2 ^ a = 2 ^ b * 2 ^ (a - b) := by
  rw [← Nat.pow_add]; congr 1; omega

theorem writeBits_spec (w : BW) (hI : WInv w) (v n : Nat) (hn : n ≤ 56) (hv : v < 2 ^ n) :
    ∃ w', w.writeBits v n = (w', none) ∧ WInv w' ∧ wVal w' = wVal w + 2 ^ (wLen w) * v ∧
      wLen w' = wLen w + n ∧ w'.bigEndian = w.bigEndian := by
  obtain ⟨w1, e1, hb1, hV, hL, hbig, hnb, hbb⟩ := pushBits_spec w hI.nobudget
  have hnb8 : w1.numBits < 8 := by omega
  have hlt1 : w1.bufBits < 2 ^ w1.numBits := by
    rw [hbb, hnb, Nat.div_lt_iff_lt_mul (Nat.two_pow_pos _), ← Nat.pow_add]
    have : w.numBits % 8 + 8 * (w.numBits / 8) = w.numBits := by omega
    rw [this]; exact hI.lt
  have hsum : w1.bufBits + v * 2 ^ w1.numBits < 2 ^ (w1.numBits + n) := by
    rw [Nat.pow_add, Nat.mul_comm v]
    have : 2 ^ w1.numBits * (v + 1) ≤ 2 ^ w1.numBits * 2 ^ n := Nat.mul_le_mul_left _ hv
    rw [Nat.mul_add] at this
    omega
  have h64 : 2 ^ (w1.numBits + n) ≤ 2 ^ 64 := Nat.pow_le_pow_right (by omega) (by omega)
  have hval : (w1.bufBits ||| (v * 2 ^ w1.numBits)) % two64 = w1.bufBits + v * 2 ^ w1.numBits := by
    rw [or_shift_eq_add' _ _ _ hlt1, two64_eq, Nat.mod_eq_of_lt (by omega)]
  unfold BW.writeBits
  rw [e1]
  simp only [hval]
  refine ⟨_, rfl, ⟨hb1, by simp only; omega, hsum⟩, ?_, ?_, hbig⟩
  · rw [← hV, ← hL]
    simp only [wVal, wLen, wBytes]
    rw [Nat.mul_add, Nat.pow_add, Nat.mul_comm v, Nat.mul_assoc, Nat.add_assoc]
  · rw [← hL]; simp only [wLen, wBytes]; omega
where
  or_shift_eq_add' (a c k : Nat) (h : a < 2 ^ k) : a ||| (c * 2 ^ k) = a + c * 2 ^ k := by
    rw [Nat.mul_comm, Nat.or_comm, ← Nat.two_pow_add_eq_or_of_lt h, Nat.add_comm]

/-- `Flush` on a byte-aligned state. -/
theorem flush_spec (w : BW) (hb : w.sink.budget = none) (h8 : w.numBits % 8 = 0)
    (hlt : w.bufBits < 2 ^ w.numBits) :
    ∃ w', w.flush = (w', none) ∧ w'.buf = [] ∧ w'.numBits = 0 ∧
      le64 w.bigEndian w'.sink.got = wVal w ∧ 8 * w'.sink.got.length = wLen w := by
  unfold BW.flush
  by_cases hc : w.numBits < 8 ∧ w.buf.isEmpty
  · rw [if_pos hc]
    obtain ⟨h1, h2⟩ := hc
    have hn0 : w.numBits = 0 := by omega
    have hbuf : w.buf = [] := List.isEmpty_iff.mp h2
    rw [hn0] at hlt
    refine ⟨w, rfl, hbuf, hn0, ?_, ?_⟩
    · simp only [wVal, wBytes, hbuf, List.append_nil]
      have : w.bufBits = 0 := by omega
      rw [this]; simp
    · simp only [wLen, wBytes, hbuf, List.append_nil, hn0]; omega
  · rw [if_neg hc]
    obtain ⟨w1, e1, hb1, hV, hL, hbig, hnb, hbb⟩ := pushBits_spec w hb
    rw [e1]
    simp only []
    obtain ⟨w2, e2, _, hgot, hbuf, hbb2, hnb2, _⟩ := emitStage_spec w1 hb1
    have hn0 : w1.numBits = 0 := by omega
    have hb0 : w1.bufBits = 0 := by
      have : w1.bufBits < 1 := by
        rw [hbb, Nat.div_lt_iff_lt_mul (Nat.two_pow_pos _), Nat.one_mul]
        have : 8 * (w.numBits / 8) = w.numBits := by omega
        rw [this]; exact hlt
      omega
    refine ⟨w2, e2, hbuf, by omega, ?_, ?_⟩
    · rw [← hV, hgot]
      simp only [wVal, wBytes, hb0, hbig]
      simp
    · rw [← hL, hgot]
      simp only [wLen, wBytes, hn0]; omega

theorem writePads_zero_spec (w : BW) (hI : WInv w) :
    (w.writePads 0).sink.budget = none ∧ (w.writePads 0).numBits % 8 = 0 ∧
    (w.writePads 0).bufBits < 2 ^ (w.writePads 0).numBits ∧
    wVal (w.writePads 0) = wVal w ∧ wLen (w.writePads 0) = (wLen w + 7) / 8 * 8 ∧
    (w.writePads 0).bigEndian = w.bigEndian := by
  have hlt := hI.lt
  have hnb := hI.nb
  have h64 : 2 ^ w.numBits ≤ 2 ^ 64 := Nat.pow_le_pow_right (by omega) (by omega)
  have hval : (w.bufBits ||| (0 * 2 ^ w.numBits)) % two64 = w.bufBits := by
    rw [Nat.zero_mul, Nat.or_zero, two64_eq, Nat.mod_eq_of_lt (by omega)]
  refine ⟨hI.nobudget, ?_, ?_, ?_, ?_, rfl⟩
  · simp only [BW.writePads]; omega
  · simp only [BW.writePads, hval]
    exact Nat.lt_of_lt_of_le hlt (Nat.pow_le_pow_right (by omega) (by omega))
  · simp only [wVal, wBytes, BW.writePads, hval]
  · simp only [wLen, wBytes, BW.writePads]; omega

theorem toNat_fieldBits_cons (v n : Nat) (fs : List (Nat × Nat)) (hv : v < 2 ^ n) :
    Bits.toNat (fieldBits ((v, n) :: fs)) = v + 2 ^ n * Bits.toNat (fieldBits fs) ∧
    (fieldBits ((v, n) :: fs)).length = n + (fieldBits fs).length := by
  rw [fieldBits, toNat_append, toNat_ofNat, length_ofNat, List.length_append, length_ofNat,
    Nat.mod_eq_of_lt hv]
  exact ⟨rfl, rfl⟩

theorem writeScript_spec : ∀ (fs : List (Nat × Nat)) (w : BW), WInv w →
    (∀ f ∈ fs, f.2 ≤ 56 ∧ f.1 < 2 ^ f.2) →
    ∃ w', writeScript w fs = (w', none) ∧ w'.buf = [] ∧ w'.numBits = 0 ∧
      le64 w.bigEndian w'.sink.got = wVal w + 2 ^ (wLen w) * Bits.toNat (fieldBits fs) ∧
      w'.sink.got.length = (wLen w + (fieldBits fs).length + 7) / 8
  | [], w, hI, _ => by
    obtain ⟨p1, p2, p3, p4, p5, p6⟩ := writePads_zero_spec w hI
    obtain ⟨w', e, h1, h2, h3, h4⟩ := flush_spec (w.writePads 0) p1 p2 p3
    refine ⟨w', e, h1, h2, ?_, ?_⟩
    · rw [← p6, h3, p4]; simp [fieldBits, Bits.toNat]
    · simp only [fieldBits, List.length_nil]; omega
  | (v, n) :: fs, w, hI, hf => by
    obtain ⟨hn, hv⟩ := hf (v, n) (by simp)
    simp only at hn hv
    obtain ⟨w1, e1, hI1, hV, hL, hbig⟩ := writeBits_spec w hI v n hn hv
    obtain ⟨w', e, h1, h2, h3, h4⟩ := writeScript_spec fs w1 hI1 (fun f hm => hf f (by simp [hm]))
    obtain ⟨t1, t2⟩ := toNat_fieldBits_cons v n fs hv
    rw [writeScript, e1]
    simp only []
    refine ⟨w', e, h1, h2, ?_, ?_⟩
    · rw [← hbig, h3, hV, hL, t1, Nat.pow_add, Nat.mul_add, Nat.mul_assoc, Nat.add_assoc]
    · rw [h4, hL, t2]; congr 1; omega

theorem writer_refines' (big : Bool) (fs : List (Nat × Nat))
    (hf : ∀ f ∈ fs, f.2 ≤ 56 ∧ f.1 < 2 ^ f.2) :
    (writeScript { bigEndian := big } fs).2 = none ∧
    (writeScript { bigEndian := big } fs).1.sink.got = packBits big (fieldBits fs) ∧
    (writeScript { bigEndian := big } fs).1.buf = [] ∧ (writeScript { bigEndian := big } fs).1.numBits = 0 := by
  obtain ⟨w', e, h1, h2, h3, h4⟩ := writeScript_spec fs { bigEndian := big } ⟨rfl, by simp, by simp⟩ hf
  rw [e]
  refine ⟨rfl, ?_, h1, h2⟩
  obtain ⟨q1, q2⟩ := le64_packBits' big (fieldBits fs)
  apply le64_inj big
  · rw [q2, h4]; simp [wLen, wBytes]
  · rw [q1, h3]; simp [wVal, wLen, wBytes, le64]

end Compress.Proofs.BitIO
