/-
flate.Reader, API-level model: Reset against a newly constructed reader for ARBITRARY call
sequences (Reads and Closes interleaved).

`Reset` keeps the window's backing array (`dict: zr.dict`, `dictDecoder.Init` re-slices it), so two
things of the earlier stream survive: the stale contents and the CAPACITY.  The stale contents
never show (this file: two readers whose windows satisfy the window invariant for the same output
and have the same capacity answer every call sequence identically).  The capacity does show: the
window is flushed to `toRead` when it is full, so a grown buffer changes how the output is cut into
Read results, and - because `Close` drops `toRead` - even which bytes a sequence with a `Close`
in it delivers (the `#guard`s at the end: a counterexample to the unrestricted statement).
-/
import Compress.Proofs.FlateApi
import Compress.Proofs.WindowCopy
import Compress.Proofs.FlateBlock

namespace Compress.Proofs.FlateApiReset
open Compress Compress.Flate Compress.Flate.Impl Compress.Flate.Api Compress.Window
open Compress.Proofs.Window Compress.Proofs.FlateRefine

/-! ### two windows holding the same output -/

/-- same geometry, and both represent the output `out` of which `acc` has been flushed: the cells
    may differ only where the invariant says nothing (at or above the write cursor of a buffer that
    is not full). -/
structure D (d d' : Dict) (out acc : List UInt8) : Prop where
  size : d'.size = d.size
  cap : d'.cap = d.cap
  rd : d'.rdPos = d.rdPos
  full : d'.full = d.full
  I : Inv 32768 d out acc
  I' : Inv 32768 d' out acc

theorem inv_wr {d : Dict} {out acc : List UInt8} (I : Inv 32768 d out acc) :
    d.wrPos = d.rdPos + (out.length - acc.length) := by
  have h1 := I.rd_le
  have h2 := I.wr_out
  have h3 := congrArg List.length I.acc_eq
  rw [List.length_take] at h3
  omega

theorem D.wr {d d' : Dict} {out acc : List UInt8} (h : D d d' out acc) : d'.wrPos = d.wrPos := by
  rw [inv_wr h.I, inv_wr h.I', h.rd]

theorem D.hsize {d d' : Dict} {out acc : List UInt8} (h : D d d' out acc) : d'.hist.size = d.hist.size := by
  rw [h.I.hsz, h.I'.hsz, h.cap]

theorem D.avail {d d' : Dict} {out acc : List UInt8} (h : D d d' out acc) : d'.availSize = d.availSize := by
  unfold Dict.availSize; rw [h.wr, h.hsize]

theorem D.histSize {d d' : Dict} {out acc : List UInt8} (h : D d d' out acc) : d'.histSize = d.histSize := by
  rw [inv_histSize h.I, inv_histSize h.I']

theorem readFlush_snd (d : Dict) : d.readFlush.2 = (d.hist.extract d.rdPos d.wrPos).toList := by
  unfold Dict.readFlush
  simp only
  split
  · split <;> rfl
  · rfl

theorem D.flush_out {d d' : Dict} {out acc : List UInt8} (h : D d d' out acc) :
    d'.readFlush.2 = d.readFlush.2 := by
  rw [readFlush_snd, readFlush_snd, h.I.extract_eq, h.I'.extract_eq, h.wr, h.rd]

theorem readFlush_scalars (d d' : Dict) (h1 : d'.size = d.size) (h2 : d'.cap = d.cap) (h3 : d'.wrPos = d.wrPos)
    (h4 : d'.full = d.full) (h5 : d'.hist.size = d.hist.size) :
    d'.readFlush.1.size = d.readFlush.1.size ∧ d'.readFlush.1.cap = d.readFlush.1.cap ∧
    d'.readFlush.1.rdPos = d.readFlush.1.rdPos ∧ d'.readFlush.1.full = d.readFlush.1.full := by
  unfold Dict.readFlush
  simp only [h1, h2, h3, h4, h5]
  split
  · split
    · exact ⟨rfl, rfl, rfl, rfl⟩
    · exact ⟨rfl, rfl, rfl, rfl⟩
  · exact ⟨rfl, rfl, rfl, rfl⟩

theorem D.flush {d d' : Dict} {out acc : List UInt8} (h : D d d' out acc) :
    D d.readFlush.1 d'.readFlush.1 out (acc ++ d.readFlush.2) := by
  obtain ⟨s1, s2, s3, s4⟩ := readFlush_scalars d d' h.size h.cap h.wr h.full h.hsize
  refine ⟨s1, s2, s3, s4, h.I.readFlush.1, ?_⟩
  rw [← h.flush_out]
  exact h.I'.readFlush.1

theorem D.writeByte {d d' : Dict} {out acc : List UInt8} (h : D d d' out acc) (c : UInt8)
    (hav : d.availSize ≠ 0) : D (d.writeByte c) (d'.writeByte c) (out ++ [c]) acc := by
  have a1 : d.wrPos < d.hist.size := by unfold Dict.availSize at hav; omega
  have a2 : d'.wrPos < d'.hist.size := by rw [h.wr, h.hsize]; exact a1
  exact ⟨h.size, h.cap, h.rd, h.full, h.I.writeByte c a1, h.I'.writeByte c a2⟩

theorem D.writeBytes {d d' : Dict} {out acc : List UInt8} (h : D d d' out acc) (bs : List UInt8) :
    D (d.writeBytes bs).1 (d'.writeBytes bs).1 (out ++ bs.take (min bs.length d.availSize)) acc := by
  refine ⟨h.size, h.cap, h.rd, h.full, (h.I.writeBytes bs).2, ?_⟩
  rw [← h.avail]
  exact (h.I'.writeBytes bs).2

theorem writeCopy_scalars (d : Dict) (dist len : Nat) :
    (d.writeCopy dist len).1.size = d.size ∧ (d.writeCopy dist len).1.cap = d.cap ∧
    (d.writeCopy dist len).1.rdPos = d.rdPos ∧ (d.writeCopy dist len).1.full = d.full := by
  unfold Dict.writeCopy
  simp only
  split <;> exact ⟨rfl, rfl, rfl, rfl⟩

theorem D.writeCopy {d d' : Dict} {out acc : List UInt8} (h : D d d' out acc) (dist len : Nat)
    (hd : 0 < dist) (hdl : dist ≤ min 32768 out.length) :
    (d'.writeCopy dist len).2 = (d.writeCopy dist len).2 ∧
    D (d.writeCopy dist len).1 (d'.writeCopy dist len).1 (specCopy out dist (min len d.availSize)) acc := by
  obtain ⟨a1, a2⟩ := h.I.writeCopy dist len hd hdl
  obtain ⟨b1, b2⟩ := h.I'.writeCopy dist len hd hdl
  rw [h.avail] at b1 b2
  obtain ⟨p1, p2, p3, p4⟩ := writeCopy_scalars d dist len
  obtain ⟨q1, q2, q3, q4⟩ := writeCopy_scalars d' dist len
  refine ⟨b1.trans a1.symm, ?_, ?_, ?_, ?_, a2, b2⟩
  · rw [q1, p1, h.size]
  · rw [q2, p2, h.cap]
  · rw [q3, p3, h.rd]
  · rw [q4, p4, h.full]

/-! ### the decoder steps -/

/-- the window `d'` can stand in for the window of `s`; a copy in progress is a legal one. -/
def DR (s : FState) (d' : Dict) : Prop :=
  ∃ out acc, D s.dict d' out acc ∧ (s.inCopy = true → 0 < s.dist ∧ s.dist ≤ min 32768 out.length)

theorem finishBlock_swap (s : FState) (d : Dict) :
    finishBlock { s with dict := d } = { finishBlock s with dict := d } := by
  unfold finishBlock
  simp only
  split <;> rfl

theorem finishBlock_inCopy (s : FState) : (finishBlock s).inCopy = s.inCopy := by
  unfold finishBlock; split <;> rfl

theorem finishBlock_dist (s : FState) : (finishBlock s).dist = s.dist := by
  unfold finishBlock; split <;> rfl

theorem nextOpI_copy (lt dt : Prefix.Decoder) (hist : Nat) (bits : Bits) (len d : Nat) (r : Bits)
    (h : nextOpI lt dt hist bits = .copy len d r) : 0 < d ∧ d ≤ hist := by
  unfold nextOpI at h
  repeat' split at h
  all_goals first
    | (cases h; done)
    | (cases h
       exact ⟨Nat.lt_of_lt_of_le (distBase_pos _ (by omega)) (Nat.le_add_right _ _), by omega⟩)

theorem readBlock_sim2 : ∀ (fuel : Nat) (s : FState) (d' : Dict), DR s d' →
    ∃ d2, readBlock fuel { s with dict := d' } =
        ({ (readBlock fuel s).1 with dict := d2 }, (readBlock fuel s).2) ∧
      DR (readBlock fuel s).1 d2 := by
  intro fuel
  induction fuel with
  | zero => intro s d' h; exact ⟨d', rfl, h⟩
  | succ fuel ih =>
    intro s d' h
    obtain ⟨out, acc, hD, hC⟩ := h
    rcases Bool.eq_false_or_eq_true s.inCopy with hc | hc
    · obtain ⟨hd, hdl⟩ := hC hc
      obtain ⟨wn, wD⟩ := hD.writeCopy s.dist s.cpyLen hd hdl
      rw [readBlock_copy fuel s hc, readBlock_copy fuel { s with dict := d' } hc]
      simp only
      rw [wn]
      by_cases hk : s.cpyLen - (s.dict.writeCopy s.dist s.cpyLen).2 > 0
      · rw [if_pos hk, if_pos hk]
        refine ⟨(d'.writeCopy s.dist s.cpyLen).1.readFlush.1, ?_, ?_⟩
        · rw [wD.flush_out]
        · have hh : 0 < s.dist ∧ s.dist ≤ min 32768 (specCopy out s.dist (min s.cpyLen s.dict.availSize)).length :=
            ⟨hd, by rw [specCopy_length]; omega⟩
          exact ⟨_, _, wD.flush, fun _ => hh⟩
      · rw [if_neg hk, if_neg hk]
        exact ih { s with dict := (s.dict.writeCopy s.dist s.cpyLen).1,
                          cpyLen := s.cpyLen - (s.dict.writeCopy s.dist s.cpyLen).2, inCopy := false }
          (d'.writeCopy s.dist s.cpyLen).1 ⟨_, _, wD, fun h => Bool.noConfusion h⟩
    · have hC' : ∀ {P : Prop}, s.inCopy = true → P := by
        intro P hb; rw [hc] at hb; cases hb
      by_cases ha : s.dict.availSize = 0
      · rw [readBlock_full fuel s hc ha,
          readBlock_full fuel { s with dict := d' } hc (by show d'.availSize = 0; rw [hD.avail]; exact ha)]
        simp only
        refine ⟨d'.readFlush.1, ?_, ⟨_, _, hD.flush, fun h => by cases h⟩⟩
        rw [hD.flush_out]
      · rw [readBlock_lit fuel s hc ha,
          readBlock_lit fuel { s with dict := d' } hc (by show d'.availSize ≠ 0; rw [hD.avail]; exact ha)]
        simp only
        rw [hD.histSize]
        cases hop : nextOpI s.litTree s.distTree s.dict.histSize s.bits with
        | lit b r =>
          simp only
          exact ih { s with bits := r, dict := s.dict.writeByte (UInt8.ofNat b) } (d'.writeByte (UInt8.ofNat b))
            ⟨_, _, hD.writeByte _ ha, hC'⟩
        | eob r =>
          simp only
          refine ⟨d', ?_, ?_⟩
          · rw [← finishBlock_swap]
          · refine ⟨out, acc, ?_, ?_⟩
            · rw [finishBlock_dict]; exact hD
            · rw [finishBlock_inCopy]; intro h; cases h
        | copy len d r =>
          simp only
          obtain ⟨c1, c2⟩ := nextOpI_copy _ _ _ _ _ _ _ hop
          rw [inv_histSize hD.I] at c2
          have c3 : d ≤ min 32768 out.length := by omega
          exact ih { s with bits := r, cpyLen := len, dist := d, inCopy := true } d'
            ⟨out, acc, hD, fun _ => ⟨c1, c3⟩⟩
        | err e r =>
          simp only
          exact ⟨d', rfl, out, acc, hD, hC'⟩

end Compress.Proofs.FlateApiReset
