/-
flate.Reader, API-level model: Reset against a newly constructed reader for ARBITRARY call
sequences (Reads and Closes interleaved).

`Reset` keeps the window's backing array (`dict: zr.dict`, `dictDecoder.Init` re-slices it), so two
things of the earlier stream survive: the stale contents and the CAPACITY.  The stale contents
never show (this file: two readers whose windows satisfy the window invariant for the same output
and have the same capacity answer every call sequence identically).  The capacity does show: the
window is flushed to `toRead` when it is full, so a grown buffer changes how the output is cut into
Read results, and - because `Close` drops `toRead` - even which bytes a sequence with a `Close`
in it delivers (the `#guard`s at the end: a counterexample to the unrestricted statement).
-/
import Compress.Proofs.FlateApi
import Compress.Proofs.WindowCopy
import Compress.Proofs.FlateBlock

namespace Compress.Proofs.FlateApiReset
open Compress Compress.Flate Compress.Flate.Impl Compress.Flate.Api Compress.Window
open Compress.Proofs.Window Compress.Proofs.FlateRefine

/-! ### two windows holding the same output -/

/-- same geometry, and both represent the output `out` of which `acc` has been flushed: the cells
    may differ only where the invariant says nothing (at or above the write cursor of a buffer that
    is not full). -/
structure D (d d' : Dict) (out acc : List UInt8) : Prop where
  size : d'.size = d.size
  cap : d'.cap = d.cap
  rd : d'.rdPos = d.rdPos
  full : d'.full = d.full
  I : Inv 32768 d out acc
  I' : Inv 32768 d' out acc

theorem inv_wr {d : Dict} {out acc : List UInt8} (I : Inv 32768 d out acc) :
    d.wrPos = d.rdPos + (out.length - acc.length) := by
  have h1 := I.rd_le
  have h2 := I.wr_out
  have h3 := congrArg List.length I.acc_eq
  rw [List.length_take] at h3
  omega

theorem D.wr {d d' : Dict} {out acc : List UInt8} (h : D d d' out acc) : d'.wrPos = d.wrPos := by
  rw [inv_wr h.I, inv_wr h.I', h.rd]

theorem D.hsize {d d' : Dict} {out acc : List UInt8} (h : D d d' out acc) : d'.hist.size = d.hist.size := by
  rw [h.I.hsz, h.I'.hsz, h.cap]

theorem D.avail {d d' : Dict} {out acc : List UInt8} (h : D d d' out acc) : d'.availSize = d.availSize := by
  unfold Dict.availSize; rw [h.wr, h.hsize]

theorem D.histSize {d d' : Dict} {out acc : List UInt8} (h : D d d' out acc) : d'.histSize = d.histSize := by
  rw [inv_histSize h.I, inv_histSize h.I']

theorem readFlush_snd (d : Dict) : d.readFlush.2 = (d.hist.extract d.rdPos d.wrPos).toList := by
  unfold Dict.readFlush
  simp only
  split
  · split <;> rfl
  · rfl

theorem D.flush_out {d d' : Dict} {out acc : List UInt8} (h : D d d' out acc) :
    d'.readFlush.2 = d.readFlush.2 := by
  rw [readFlush_snd, readFlush_snd, h.I.extract_eq, h.I'.extract_eq, h.wr, h.rd]

theorem readFlush_scalars (d d' : Dict) (h1 : d'.size = d.size) (h2 : d'.cap = d.cap) (h3 : d'.wrPos = d.wrPos)
    (h4 : d'.full = d.full) (h5 : d'.hist.size = d.hist.size) :
    d'.readFlush.1.size = d.readFlush.1.size ∧ d'.readFlush.1.cap = d.readFlush.1.cap ∧
    d'.readFlush.1.rdPos = d.readFlush.1.rdPos ∧ d'.readFlush.1.full = d.readFlush.1.full := by
  unfold Dict.readFlush
  simp only [h1, h2, h3, h4, h5]
  split
  · split
    · exact ⟨rfl, rfl, rfl, rfl⟩
    · exact ⟨rfl, rfl, rfl, rfl⟩
  · exact ⟨rfl, rfl, rfl, rfl⟩

theorem D.flush {d d' : Dict} {out acc : List UInt8} (h : D d d' out acc) :
    D d.readFlush.1 d'.readFlush.1 out (acc ++ d.readFlush.2) := by
  obtain ⟨s1, s2, s3, s4⟩ := readFlush_scalars d d' h.size h.cap h.wr h.full h.hsize
  refine ⟨s1, s2, s3, s4, h.I.readFlush.1, ?_⟩
  rw [← h.flush_out]
  exact h.I'.readFlush.1

theorem D.writeByte {d d' : Dict} {out acc : List UInt8} (h : D d d' out acc) (c : UInt8)
    (hav : d.availSize ≠ 0) : D (d.writeByte c) (d'.writeByte c) (out ++ [c]) acc := by
  have a1 : d.wrPos < d.hist.size := by unfold Dict.availSize at hav; omega
  have a2 : d'.wrPos < d'.hist.size := by rw [h.wr, h.hsize]; exact a1
  exact ⟨h.size, h.cap, h.rd, h.full, h.I.writeByte c a1, h.I'.writeByte c a2⟩

theorem D.writeBytes {d d' : Dict} {out acc : List UInt8} (h : D d d' out acc) (bs : List UInt8) :
    D (d.writeBytes bs).1 (d'.writeBytes bs).1 (out ++ bs.take (min bs.length d.availSize)) acc := by
  refine ⟨h.size, h.cap, h.rd, h.full, (h.I.writeBytes bs).2, ?_⟩
  rw [← h.avail]
  exact (h.I'.writeBytes bs).2

theorem writeCopy_scalars (d : Dict) (dist len : Nat) :
    (d.writeCopy dist len).1.size = d.size ∧ (d.writeCopy dist len).1.cap = d.cap ∧
    (d.writeCopy dist len).1.rdPos = d.rdPos ∧ (d.writeCopy dist len).1.full = d.full := by
  unfold Dict.writeCopy
  simp only
  split <;> exact ⟨rfl, rfl, rfl, rfl⟩

theorem D.writeCopy {d d' : Dict} {out acc : List UInt8} (h : D d d' out acc) (dist len : Nat)
    (hd : 0 < dist) (hdl : dist ≤ min 32768 out.length) :
    (d'.writeCopy dist len).2 = (d.writeCopy dist len).2 ∧
    D (d.writeCopy dist len).1 (d'.writeCopy dist len).1 (specCopy out dist (min len d.availSize)) acc := by
  obtain ⟨a1, a2⟩ := h.I.writeCopy dist len hd hdl
  obtain ⟨b1, b2⟩ := h.I'.writeCopy dist len hd hdl
  rw [h.avail] at b1 b2
  obtain ⟨p1, p2, p3, p4⟩ := writeCopy_scalars d dist len
  obtain ⟨q1, q2, q3, q4⟩ := writeCopy_scalars d' dist len
  refine ⟨b1.trans a1.symm, ?_, ?_, ?_, ?_, a2, b2⟩
  · rw [q1, p1, h.size]
  · rw [q2, p2, h.cap]
  · rw [q3, p3, h.rd]
  · rw [q4, p4, h.full]

/-! ### the decoder steps -/

/-- the window `d'` can stand in for the window of `s`; a copy in progress is a legal one. -/
def DR (s : FState) (d' : Dict) : Prop :=
  ∃ out acc, D s.dict d' out acc ∧ (s.inCopy = true → 0 < s.dist ∧ s.dist ≤ min 32768 out.length)

theorem finishBlock_swap (s : FState) (d : Dict) :
    finishBlock { s with dict := d } = { finishBlock s with dict := d } := by
  unfold finishBlock
  simp only
  split <;> rfl

theorem finishBlock_inCopy (s : FState) : (finishBlock s).inCopy = s.inCopy := by
  unfold finishBlock; split <;> rfl

theorem finishBlock_dist (s : FState) : (finishBlock s).dist = s.dist := by
  unfold finishBlock; split <;> rfl

theorem nextOpI_copy (lt dt : Prefix.Decoder) (hist : Nat) (bits : Bits) (len d : Nat) (r : Bits)
    (h : nextOpI lt dt hist bits = .copy len d r) : 0 < d ∧ d ≤ hist := by
  unfold nextOpI at h
  repeat' split at h
  all_goals first
    | (cases h; done)
    | (cases h
       exact ⟨Nat.lt_of_lt_of_le (distBase_pos _ (by omega)) (Nat.le_add_right _ _), by omega⟩)

theorem readBlock_sim2 : ∀ (fuel : Nat) (s : FState) (d' : Dict), DR s d' →
    ∃ d2, readBlock fuel { s with dict := d' } =
        ({ (readBlock fuel s).1 with dict := d2 }, (readBlock fuel s).2) ∧
      DR (readBlock fuel s).1 d2 := by
  intro fuel
  induction fuel with
  | zero => intro s d' h; exact ⟨d', rfl, h⟩
  | succ fuel ih =>
    intro s d' h
    obtain ⟨out, acc, hD, hC⟩ := h
    rcases Bool.eq_false_or_eq_true s.inCopy with hc | hc
    · obtain ⟨hd, hdl⟩ := hC hc
      obtain ⟨wn, wD⟩ := hD.writeCopy s.dist s.cpyLen hd hdl
      rw [readBlock_copy fuel s hc, readBlock_copy fuel { s with dict := d' } hc]
      simp only
      rw [wn]
      by_cases hk : s.cpyLen - (s.dict.writeCopy s.dist s.cpyLen).2 > 0
      · rw [if_pos hk, if_pos hk]
        refine ⟨(d'.writeCopy s.dist s.cpyLen).1.readFlush.1, ?_, ?_⟩
        · rw [wD.flush_out]
        · have hh : 0 < s.dist ∧ s.dist ≤ min 32768 (specCopy out s.dist (min s.cpyLen s.dict.availSize)).length :=
            ⟨hd, by rw [specCopy_length]; omega⟩
          exact ⟨_, _, wD.flush, fun _ => hh⟩
      · rw [if_neg hk, if_neg hk]
        exact ih { s with dict := (s.dict.writeCopy s.dist s.cpyLen).1,
                          cpyLen := s.cpyLen - (s.dict.writeCopy s.dist s.cpyLen).2, inCopy := false }
          (d'.writeCopy s.dist s.cpyLen).1 ⟨_, _, wD, fun h => Bool.noConfusion h⟩
    · have hC' : ∀ {P : Prop}, s.inCopy = true → P := by
        intro P hb; rw [hc] at hb; cases hb
      by_cases ha : s.dict.availSize = 0
      · rw [readBlock_full fuel s hc ha,
          readBlock_full fuel { s with dict := d' } hc (by show d'.availSize = 0; rw [hD.avail]; exact ha)]
        simp only
        refine ⟨d'.readFlush.1, ?_, ⟨_, _, hD.flush, fun h => by cases h⟩⟩
        rw [hD.flush_out]
      · rw [readBlock_lit fuel s hc ha,
          readBlock_lit fuel { s with dict := d' } hc (by show d'.availSize ≠ 0; rw [hD.avail]; exact ha)]
        simp only
        rw [hD.histSize]
        cases hop : nextOpI s.litTree s.distTree s.dict.histSize s.bits with
        | lit b r =>
          simp only
          exact ih { s with bits := r, dict := s.dict.writeByte (UInt8.ofNat b) } (d'.writeByte (UInt8.ofNat b))
            ⟨_, _, hD.writeByte _ ha, hC'⟩
        | eob r =>
          simp only
          refine ⟨d', ?_, ?_⟩
          · rw [← finishBlock_swap]
          · refine ⟨out, acc, ?_, ?_⟩
            · rw [finishBlock_dict]; exact hD
            · rw [finishBlock_inCopy]; intro h; cases h
        | copy len d r =>
          simp only
          obtain ⟨c1, c2⟩ := nextOpI_copy _ _ _ _ _ _ _ hop
          rw [inv_histSize hD.I] at c2
          have c3 : d ≤ min 32768 out.length := by omega
          exact ih { s with bits := r, cpyLen := len, dist := d, inCopy := true } d'
            ⟨out, acc, hD, fun _ => ⟨c1, c3⟩⟩
        | err e r =>
          simp only
          exact ⟨d', rfl, out, acc, hD, hC'⟩

set_option maxRecDepth 8000 in
theorem header_sim2 (s : FState) (d' : Dict) (h : DR s d') :
    (∀ s1, readBlockHeader s = .ok s1 →
      ∃ d2, readBlockHeader { s with dict := d' } = .ok { s1 with dict := d2 } ∧ DR s1 d2) ∧
    (∀ e, readBlockHeader s = .error e → readBlockHeader { s with dict := d' } = .error e) := by
  obtain ⟨out, acc, hD, hC⟩ := h
  rw [readBlockHeader_eq s, readBlockHeader_eq { s with dict := d' }]
  simp only
  cases h1 : takeBits 1 s.bits with
  | none => exact ⟨fun s1 hs => (by cases hs), fun e he => he⟩
  | some p =>
    obtain ⟨f, b1⟩ := p
    simp only
    cases h2 : takeBits 2 b1 with
    | none => exact ⟨fun s1 hs => (by cases hs), fun e he => he⟩
    | some q =>
      obtain ⟨t, b2⟩ := q
      simp only
      match t with
      | 0 =>
        simp only
        cases h3 : takeBits 16 (b2.drop (padTo8 (s.total - b2.length))) with
        | none => exact ⟨fun s1 hs => (by cases hs), fun e he => he⟩
        | some r =>
          obtain ⟨n, b4⟩ := r
          simp only
          cases h4 : takeBits 16 b4 with
          | none => exact ⟨fun s1 hs => (by cases hs), fun e he => he⟩
          | some r2 =>
            obtain ⟨nn, b5⟩ := r2
            simp only
            by_cases c1 : n + nn ≠ 65535
            · simp only [if_pos c1]
              exact ⟨fun s1 hs => (by cases hs), fun e he => he⟩
            · simp only [if_neg c1]
              by_cases c2 : n = 0
              · simp only [if_pos c2]
                refine ⟨fun s1 hs => ?_, fun e he => by cases he⟩
                cases hs
                refine ⟨d'.readFlush.1, ?_, out, acc ++ s.dict.readFlush.2, ?_, ?_⟩
                · rw [← finishBlock_swap, hD.flush_out]
                · rw [finishBlock_dict]; exact hD.flush
                · rw [finishBlock_inCopy, finishBlock_dist]; exact hC
              · simp only [if_neg c2]
                exact ⟨fun s1 hs => by cases hs; exact ⟨d', rfl, out, acc, hD, hC⟩, fun e he => by cases he⟩
      | 1 => exact ⟨fun s1 hs => by cases hs; exact ⟨d', rfl, out, acc, hD, hC⟩, fun e he => by cases he⟩
      | 2 =>
        simp only
        cases h3 : readPrefixCodes b2 with
        | error e => exact ⟨fun s1 hs => (by cases hs), fun e he => he⟩
        | ok r =>
          obtain ⟨lt, dt, b3⟩ := r
          exact ⟨fun s1 hs => by cases hs; exact ⟨d', rfl, out, acc, hD, hC⟩, fun e he => by cases he⟩
      | t + 3 => exact ⟨fun s1 hs => (by cases hs), fun e he => he⟩

theorem raw_sim2 (s : FState) (d' : Dict) (h : DR s d') :
    (∀ s1, readRawData s = .ok s1 →
      ∃ d2, readRawData { s with dict := d' } = .ok { s1 with dict := d2 } ∧ DR s1 d2) ∧
    (∀ e, readRawData s = .error e → readRawData { s with dict := d' } = .error e) := by
  obtain ⟨out, acc, hD, hC⟩ := h
  rw [readRawData_eq s, readRawData_eq { s with dict := d' }]
  simp only
  rw [hD.avail]
  have wD := hD.writeBytes (Bits.toBytes (s.bits.take (8 * min (min s.dict.availSize s.blkLen) (s.bits.length / 8))))
  generalize Bits.toBytes (s.bits.take (8 * min (min s.dict.availSize s.blkLen) (s.bits.length / 8))) = bs at wD ⊢
  have hC2 : ∀ X : List UInt8, s.inCopy = true → 0 < s.dist ∧ s.dist ≤ min 32768 (out ++ X).length :=
    fun X h => ⟨(hC h).1, by have := (hC h).2; rw [List.length_append]; omega⟩
  by_cases c1 : min (min s.dict.availSize s.blkLen) (s.bits.length / 8) < min s.dict.availSize s.blkLen
  · simp only [if_pos c1]
    exact ⟨fun s1 hs => (by cases hs), fun e he => he⟩
  · simp only [if_neg c1]
    by_cases c2 : s.blkLen - min (min s.dict.availSize s.blkLen) (s.bits.length / 8) > 0
    · simp only [if_pos c2]
      refine ⟨fun s1 hs => ?_, fun e he => by cases he⟩
      cases hs
      refine ⟨(d'.writeBytes bs).1.readFlush.1, ?_, _, _, wD.flush, hC2 _⟩
      rw [wD.flush_out]
    · simp only [if_neg c2]
      refine ⟨fun s1 hs => ?_, fun e he => by cases he⟩
      cases hs
      refine ⟨(d'.writeBytes bs).1, ?_, out ++ bs.take (min bs.length s.dict.availSize), acc, ?_, ?_⟩
      · rw [← finishBlock_swap]
      · rw [finishBlock_dict]; exact wD
      · rw [finishBlock_inCopy, finishBlock_dist]; exact hC2 _

theorem stepCore_sim2 (s : FState) (d' : Dict) (h : DR s d') :
    ∃ d2, stepCore { s with dict := d' } = ({ (stepCore s).1 with dict := d2 }, (stepCore s).2) ∧
      DR (stepCore s).1 d2 := by
  have hS3 : s.step = .header ∨ s.step = .raw ∨ s.step = .block := by cases s.step <;> simp
  rcases hS3 with hS | hS | hS
  · have e1 : stepCore s = match readBlockHeader s with | .ok s' => (s', none) | .error e => (s, some e) := by
      unfold stepCore; rw [hS]; rfl
    have e2 : stepCore { s with dict := d' } = match readBlockHeader { s with dict := d' } with
        | .ok s' => (s', none) | .error e => ({ s with dict := d' }, some e) := by
      unfold stepCore; rw [hS]; rfl
    obtain ⟨a1, a2⟩ := header_sim2 s d' h
    rw [e1, e2]
    cases hr : readBlockHeader s with
    | ok s1 =>
      obtain ⟨d2, q1, q2⟩ := a1 s1 hr
      rw [q1]
      exact ⟨d2, rfl, q2⟩
    | error e =>
      rw [a2 e hr]
      exact ⟨d', rfl, h⟩
  · have e1 : stepCore s = match readRawData s with
        | .ok s' => (s', none)
        | .error e =>
          ({ s with dict := (s.dict.writeBytes (Bits.toBytes (s.bits.take (8 * min (min s.dict.availSize s.blkLen) (s.bits.length / 8))))).1,
                    bits := s.bits.drop (8 * min (min s.dict.availSize s.blkLen) (s.bits.length / 8)) }, some e) := by
      unfold stepCore; rw [hS]; rfl
    have e2 : stepCore { s with dict := d' } = match readRawData { s with dict := d' } with
        | .ok s' => (s', none)
        | .error e =>
          ({ s with dict := (d'.writeBytes (Bits.toBytes (s.bits.take (8 * min (min d'.availSize s.blkLen) (s.bits.length / 8))))).1,
                    bits := s.bits.drop (8 * min (min d'.availSize s.blkLen) (s.bits.length / 8)) }, some e) := by
      unfold stepCore; rw [hS]; rfl
    obtain ⟨a1, a2⟩ := raw_sim2 s d' h
    rw [e1, e2]
    cases hr : readRawData s with
    | ok s1 =>
      obtain ⟨d2, q1, q2⟩ := a1 s1 hr
      rw [q1]
      exact ⟨d2, rfl, q2⟩
    | error e =>
      rw [a2 e hr]
      obtain ⟨out, acc, hD, hC⟩ := h
      simp only
      rw [hD.avail]
      have hC2 : ∀ X : List UInt8, s.inCopy = true → 0 < s.dist ∧ s.dist ≤ min 32768 (out ++ X).length :=
        fun X h => ⟨(hC h).1, by have := (hC h).2; rw [List.length_append]; omega⟩
      exact ⟨_, rfl, _, _, hD.writeBytes _, hC2 _⟩
  · have e1 : stepCore s = readBlock (s.bits.length + s.cpyLen + 40000) s := by
      unfold stepCore; rw [hS]
    have e2 : stepCore { s with dict := d' } = readBlock (s.bits.length + s.cpyLen + 40000) { s with dict := d' } := by
      unfold stepCore; rw [hS]
    rw [e1, e2]
    exact readBlock_sim2 _ s d' h

theorem DR_applyErr (x : FState) (e : Option FErr) (d2 : Dict) (h : DR x d2) :
    applyErr ({ x with dict := d2 }, e) = { applyErr (x, e) with dict := d2 } ∧ DR (applyErr (x, e)) d2 := by
  unfold applyErr
  cases e with
  | none => exact ⟨rfl, h⟩
  | some e => exact ⟨rfl, h⟩

theorem finalFlush_sim2 (x : FState) (d2 : Dict) (h : DR x d2) :
    ∃ d3, finalFlush { x with dict := d2 } = { finalFlush x with dict := d3 } ∧ DR (finalFlush x) d3 := by
  obtain ⟨out, acc, hD, hC⟩ := h
  unfold finalFlush
  simp only
  by_cases c : x.err ≠ none ∧ x.toRead.isEmpty = true
  · rw [if_pos c, if_pos c]
    refine ⟨d2.readFlush.1, ?_, _, _, hD.flush, hC⟩
    rw [hD.flush_out]
  · rw [if_neg c, if_neg c]
    exact ⟨d2, rfl, out, acc, hD, hC⟩

theorem stepOnce_sim2 (s : FState) (d' : Dict) (h : DR s d') :
    ∃ d2, stepOnce { s with dict := d' } = { stepOnce s with dict := d2 } ∧ DR (stepOnce s) d2 := by
  rw [stepOnce_eq, stepOnce_eq]
  obtain ⟨d2, q1, q2⟩ := stepCore_sim2 s d' h
  rw [q1]
  obtain ⟨r1, r2⟩ := DR_applyErr (stepCore s).1 (stepCore s).2 d2 q2
  rw [r1]
  exact finalFlush_sim2 _ d2 r2

theorem read_sim2 : ∀ (fuel : Nat) (s : FState) (d' : Dict) (n : Nat), DR s d' →
    ∃ d2, Impl.read fuel { s with dict := d' } n =
        ({ (Impl.read fuel s n).1 with dict := d2 }, (Impl.read fuel s n).2) ∧
      DR (Impl.read fuel s n).1 d2 := by
  intro fuel
  induction fuel with
  | zero => intro s d' n h; exact ⟨d', rfl, h⟩
  | succ fuel ih =>
    intro s d' n h
    rw [read_succ, read_succ]
    simp only
    by_cases c1 : (!s.toRead.isEmpty) = true
    · rw [if_pos c1, if_pos c1]
      by_cases c2 : (s.toRead.drop n).isEmpty = true
      · rw [if_pos c2, if_pos c2]
        exact ⟨d', rfl, h⟩
      · rw [if_neg c2, if_neg c2]
        exact ⟨d', rfl, h⟩
    · rw [if_neg c1, if_neg c1]
      by_cases c2 : s.err ≠ none
      · rw [if_pos c2, if_pos c2]
        exact ⟨d', rfl, h⟩
      · rw [if_neg c2, if_neg c2]
        obtain ⟨d2, q1, q2⟩ := stepOnce_sim2 s d' h
        rw [q1]
        exact ih _ d2 n q2

/-! ### the API -/

open Compress.Proofs.FlateApi

/-- `r` with the window `d'` in place of its own. -/
def withDict (r : Reader) (d' : Dict) : Reader := { r with core := { r.core with dict := d' } }

theorem latchBound_swap (x : FState) (e : Option FErr) (d2 : Dict) (h : DR x d2) :
    latchBound { x with dict := d2 } e = { latchBound x e with dict := d2 } ∧ DR (latchBound x e) d2 := by
  cases e with
  | none => exact ⟨rfl, h⟩
  | some e => exact ⟨rfl, h⟩

theorem api_read_sim (r : Reader) (d' : Dict) (h : DR r.core d') (n : Nat) :
    ∃ d2, (withDict r d').read n = (withDict (r.read n).1 d2, (r.read n).2) ∧ DR (r.read n).1.core d2 := by
  by_cases hd : r.done = true
  · rw [read_done r hd, read_done (withDict r d') hd]
    exact ⟨d', rfl, h⟩
  · have hd : r.done = false := by simpa using hd
    rw [read_open r hd, read_open (withDict r d') hd]
    obtain ⟨d2, q1, q2⟩ := read_sim2 (readFuel r.core) r.core d' n h
    have q1' : Impl.read (readFuel (withDict r d').core) (withDict r d').core n =
        ({ (Impl.read (readFuel r.core) r.core n).1 with dict := d2 }, (Impl.read (readFuel r.core) r.core n).2) := q1
    rw [q1']
    obtain ⟨l1, l2⟩ := latchBound_swap _ (Impl.read (readFuel r.core) r.core n).2.2 d2 q2
    simp only
    rw [l1]
    exact ⟨d2, rfl, l2⟩

theorem api_close_sim (r : Reader) (d' : Dict) (h : DR r.core d') :
    ∃ d2, (withDict r d').close = (withDict (r.close).1 d2, (r.close).2) ∧ DR (r.close).1.core d2 := by
  have he : (withDict r d').err = r.err := rfl
  have hdn : (withDict r d').done = r.done := rfl
  rw [close_eq, close_eq, he, hdn]
  by_cases c : r.err = some .eof ∨ r.done = true
  · simp only [if_pos c]
    exact ⟨d', rfl, h⟩
  · simp only [if_neg c]
    exact ⟨d', rfl, h⟩

theorem run_sim (ops : List Api.Op) (hn : ∀ op ∈ ops, op.noReset = true) : ∀ (r : Reader) (d' : Dict), DR r.core d' →
    (Reader.run (withDict r d') ops).2 = (Reader.run r ops).2 ∧
    ∃ d2, (Reader.run (withDict r d') ops).1 = withDict (Reader.run r ops).1 d2 := by
  induction ops with
  | nil => intro r d' _; exact ⟨rfl, d', rfl⟩
  | cons op ops ih =>
    intro r d' h
    have ih' := ih (fun o ho => hn o (List.mem_cons_of_mem _ ho))
    cases op with
    | read n =>
      obtain ⟨d2, q1, q2⟩ := api_read_sim r d' h n
      obtain ⟨i1, d3, i2⟩ := ih' (r.read n).1 d2 q2
      simp only [Reader.run, Reader.step, q1, i1, i2]
      exact ⟨trivial, d3, rfl⟩
    | close =>
      obtain ⟨d2, q1, q2⟩ := api_close_sim r d' h
      obtain ⟨i1, d3, i2⟩ := ih' (r.close).1 d2 q2
      simp only [Reader.run, Reader.step, q1, i1, i2]
      exact ⟨trivial, d3, rfl⟩
    | reset src => have := hn (.reset src) (List.mem_cons_self ..); simp [Op.noReset] at this

theorem DR_initOver (bits : Bits) (c c' : Nat) (st st' : Array UInt8)
    (hc : (if c = 0 then 4096 else c) = (if c' = 0 then 4096 else c')) :
    DR { bits := bits, total := bits.length, dict := Dict.initOver maxHistSize c st }
      (Dict.initOver maxHistSize c' st') := by
  refine ⟨[], [], ⟨rfl, ?_, rfl, rfl, Inv.initOver 32768 c st (by omega), Inv.initOver 32768 c' st' (by omega)⟩,
    fun h => by cases h⟩
  show (Dict.initOver maxHistSize c' st').cap = (Dict.initOver maxHistSize c st).cap
  unfold Dict.initOver
  by_cases h0 : c = 0 <;> by_cases h1 : c' = 0 <;> simp [h0, h1, initSize] at hc ⊢ <;> omega

theorem DR_init (bits : Bits) (c' : Nat) (st' : Array UInt8) (hc : c' = 0 ∨ c' = 4096) :
    DR (Impl.init bits) (Dict.initOver maxHistSize c' st') := by
  refine ⟨[], [], ⟨rfl, ?_, rfl, rfl, Inv.init 32768 0 (by omega), Inv.initOver 32768 c' st' (by omega)⟩,
    fun h => by cases h⟩
  show (Dict.initOver maxHistSize c' st').cap = (Dict.init maxHistSize 0).cap
  unfold Dict.initOver Dict.init
  rcases hc with h | h <;> simp [h, initSize]

/-- **after Reset, the earlier history shows through the retained window capacity only**: two
    readers reset onto the same source from ANY two states with the same window capacity answer
    every sequence of Reads and Closes identically, call by call, and agree on both counters. -/
theorem reset_cap_only (r0 r1 : Reader) (src : Src) (ops : List Api.Op) (hn : ∀ op ∈ ops, op.noReset = true)
    (hc : r1.core.dict.cap = r0.core.dict.cap) :
    (Reader.run (r1.reset src) ops).2 = (Reader.run (r0.reset src) ops).2 ∧
    (Reader.run (r1.reset src) ops).1.outputOffset = (Reader.run (r0.reset src) ops).1.outputOffset ∧
    (Reader.run (r1.reset src) ops).1.inputOffset = (Reader.run (r0.reset src) ops).1.inputOffset := by
  have e : r1.reset src = withDict (r0.reset src) (Dict.initOver maxHistSize r1.core.dict.cap r1.core.dict.hist) := rfl
  rw [e]
  obtain ⟨a, d2, b⟩ := run_sim ops hn (r0.reset src) _
    (DR_initOver src.bits r0.core.dict.cap r1.core.dict.cap r0.core.dict.hist r1.core.dict.hist (by rw [hc]))
  rw [a, b]
  exact ⟨rfl, rfl, rfl⟩

/-- **Reset = new for every call sequence**, provided the window buffer never grew (its capacity
    is still the initial 4096, or it was never allocated). -/
theorem reset_fresh_general (r0 : Reader) (src : Src) (ops : List Api.Op) (hn : ∀ op ∈ ops, op.noReset = true)
    (hc : r0.core.dict.cap = 0 ∨ r0.core.dict.cap = 4096) :
    (Reader.run (r0.reset src) ops).2 = (Reader.run (newReader src) ops).2 ∧
    (Reader.run (r0.reset src) ops).1.outputOffset = (Reader.run (newReader src) ops).1.outputOffset ∧
    (Reader.run (r0.reset src) ops).1.inputOffset = (Reader.run (newReader src) ops).1.inputOffset := by
  have e : r0.reset src = withDict (newReader src) (Dict.initOver maxHistSize r0.core.dict.cap r0.core.dict.hist) := rfl
  rw [e]
  obtain ⟨a, d2, b⟩ := run_sim ops hn (newReader src) _ (DR_init src.bits r0.core.dict.cap r0.core.dict.hist hc)
  rw [a, b]
  exact ⟨rfl, rfl, rfl⟩

/-! ### the unrestricted statement is false: the retained capacity shows

One final stored block of 5000 bytes.  `cexR0` is a new reader on it after one `Read`: the window
has grown from 4096 to 16384.  Reset onto the same source, it delivers the 5000 bytes in one piece
with `io.EOF`, where a new reader delivers 4096 and then 904; and `Read(100); Close(); Read` gives
`errClosed` after 100 bytes on the reset reader (everything was decoded, `io.EOF` latched, `Close`
closes) but 904 further bytes and `io.EOF` on the new one (`Close` before the end only drops the
pending 3996 bytes).  Evaluated at build time. -/

def cexSrc : Src :=
  { data := [0x01, 0x88, 0x13, 0x77, 0xEC] ++ (List.range 5000).map (fun i => UInt8.ofNat (i % 251)) }

def cexR0 : Reader := (Reader.run (newReader cexSrc) [.read 10000]).1

def cexShape (x : Reader × List Res) : List (Nat × Option AErr) × Nat :=
  (x.2.map (fun r => match r with
    | .read o e => (o.length, e) | .close e => (0, e) | .reset => (0, none)), x.1.outputOffset)

#guard cexR0.core.dict.cap = 16384 ∧ (newReader cexSrc).core.dict.hist.size = 4096 ∧
  (cexR0.reset cexSrc).core.dict.hist.size = 16384
#guard cexShape (Reader.run (cexR0.reset cexSrc) [.read 10000, .read 10000]) =
  ([(5000, some .eof), (0, some .eof)], 5000)
#guard cexShape (Reader.run (newReader cexSrc) [.read 10000, .read 10000]) =
  ([(4096, none), (904, some .eof)], 5000)
#guard cexShape (Reader.run (cexR0.reset cexSrc) [.read 100, .close, .read 10000, .read 10000]) =
  ([(100, none), (0, none), (0, some .closed), (0, some .closed)], 100)
#guard cexShape (Reader.run (newReader cexSrc) [.read 100, .close, .read 10000, .read 10000]) =
  ([(100, none), (0, none), (904, some .eof), (0, some .eof)], 1004)

end Compress.Proofs.FlateApiReset
