/-
`decodeIndex` (the reader) on one index stream written by xflate.Writer.
-/
import Compress.Proofs.XWRecords
import Compress.Proofs.Uvarint
import Compress.Proofs.Meta

namespace Compress.Proofs.XWShape
open Compress Compress.XFlate Compress.Proofs.XWLog Compress.Proofs.Uvarint

def crc4 (c : Nat) : List UInt8 :=
  [UInt8.ofNat (c % 256), UInt8.ofNat (c / 256 % 256), UInt8.ofNat (c / 65536 % 256), UInt8.ofNat (c / 16777216 % 256)]

theorem le32_crc4 (c : Nat) (h : c < 2 ^ 32) : le32 (crc4 c) = c := by
  simp only [crc4, le32, UInt8.toNat_ofNat']
  omega

def sizes (g : Grp) : Int × Int := ((g.1.length : Int), (g.2.length : Int))

def ipBody (recs : List Record) (back : Int) : List UInt8 :=
  putUvarint64 back.toNat ++ (putUvarint64 recs.length ++ (putUvarint64 (lastRecord recs).comp.toNat ++
    (putUvarint64 (lastRecord recs).raw.toNat ++ indexPayload.deltas recs Record.zero)))

theorem indexPayload_eq (crc : List UInt8 → Nat) (recs : List Record) (back : Int) :
    indexPayload crc recs back = ipBody recs back ++ crc4 (crc (ipBody recs back)) := by
  simp only [indexPayload, ipBody, crc4, List.append_assoc]

theorem cum_length : ∀ (gs : List Grp) (c0 r0 : Int), (cum c0 r0 gs).length = gs.length
  | [], _, _ => rfl
  | g :: gs, c0, r0 => by simp [cum, cum_length gs]

theorem readChunks_deltas : ∀ (gs : List Grp) (c0 r0 : Int) (t : Nat) (rest : List UInt8)
    (acc : List (Int × Int)) (alloc : Nat),
    (∀ g ∈ gs, g.1.length < 2 ^ 63 ∧ g.2.length < 2 ^ 63) →
    readChunks .fixed gs.length { buf := indexPayload.deltas (cum c0 r0 gs) ⟨c0, r0, t⟩ ++ rest, err := false } acc alloc =
      (acc.reverse ++ gs.map sizes, { buf := rest, err := false }, alloc + gs.length)
  | [], c0, r0, t, rest, acc, alloc, _ => by
    simp [readChunks, cum, indexPayload.deltas]
  | g :: gs, c0, r0, t, rest, acc, alloc, h => by
    obtain ⟨h1, h2⟩ := h g (List.mem_cons_self ..)
    have e1 : (c0 + (g.1.length : Int) - c0).toNat = g.1.length := by omega
    have e2 : (r0 + (g.2.length : Int) - r0).toNat = g.2.length := by omega
    simp only [cum, indexPayload.deltas, List.length_cons, readChunks, e1, e2, List.append_assoc]
    rw [readVLI_put _ _ h1]
    simp only
    rw [readVLI_put _ _ h2]
    simp only
    rw [readChunks_deltas gs _ _ _ rest _ _ (fun q hq => h q (List.mem_cons_of_mem _ hq))]
    simp [sizes]
    omega

theorem build_ok : ∀ (gs : List Grp) (acc : List Record), (∀ g ∈ gs, 4 < g.1.length) →
    lastC acc + (cbytes gs).length ≤ maxI64 → lastR acc + (cdata gs).length ≤ maxI64 →
    decodeIndex.build (gs.map sizes) acc = .ok (gs.foldl chunkStep acc)
  | [], acc, _, _, _ => by simp [decodeIndex.build]
  | g :: gs, acc, h, h1, h2 => by
    rw [cbytes_cons, List.length_append] at h1
    rw [cdata_cons, List.length_append] at h2
    have h4 := h g (List.mem_cons_self ..)
    have hs := chunkStep_ok acc g (by omega) (by omega)
    have hl : lastRecord (chunkStep acc g) = ⟨lastC acc + g.1.length, lastR acc + g.2.length, deflateType⟩ := by
      rw [hs, lastRecord_snoc]
    have hlc : lastC (chunkStep acc g) = lastC acc + g.1.length := by
      show (lastRecord (chunkStep acc g)).comp = _; rw [hl]
    have hlr : lastR (chunkStep acc g) = lastR acc + g.2.length := by
      show (lastRecord (chunkStep acc g)).raw = _; rw [hl]
    simp only [List.map_cons, sizes, decodeIndex.build]
    rw [if_neg (by omega), appendRecord_ok acc _ _ _ (by omega) (by omega) (by omega) (by omega)]
    simp only [List.foldl_cons]
    rw [← hs]
    exact build_ok gs (chunkStep acc g) (fun q hq => h q (List.mem_cons_of_mem _ hq))
      (by rw [hlc]; omega) (by rw [hlr]; omega)

theorem mem_cbytes_le {g : Grp} : ∀ {gs : List Grp}, g ∈ gs → g.1.length ≤ (cbytes gs).length
  | [], h => by cases h
  | a :: gs, h => by
    rw [cbytes_cons, List.length_append]
    rcases List.mem_cons.1 h with h | h
    · subst h; omega
    · have := mem_cbytes_le h; omega

theorem mem_cdata_le {g : Grp} : ∀ {gs : List Grp}, g ∈ gs → g.2.length ≤ (cdata gs).length
  | [], h => by cases h
  | a :: gs, h => by
    rw [cdata_cons, List.length_append]
    rcases List.mem_cons.1 h with h | h
    · subst h; omega
    · have := mem_cdata_le h; omega

/-- the part of `decodeIndex` after the meta decoder. -/
def idxTail (v : Variant) (crc : List UInt8 → Nat) (bw : List UInt8) (final : Meta.FinalMode)
    (consumed : Nat) (size : Int) : Except Err IndexResult :=
    let c := if bw.length > 4 then crc (bw.take (bw.length - 4)) else 0
    let st0 : VLIState := { buf := bw }
    let (backSize, st1) := readVLI st0
    let (numRecs, st2) := readVLI st1
    let (totalComp, st3) := readVLI st2
    let (totalRaw, st4) := readVLI st3
    if st4.err then .error .corrupted
    else
      let (chunks, st5, alloc) := readChunks v numRecs.toNat st4 [] 0
      if st5.err ∧ v = .fixed then .error .corrupted
      else if st5.buf.length ≠ 4 ∨ le32 st5.buf ≠ c then .error .corrupted
      else if final ≠ .fmeta then .error .corrupted
      else if (consumed : Int) ≠ size then .error .corrupted
      else
        match decodeIndex.build chunks [] with
        | .error e => .error e
        | .ok recs =>
          let last := lastRecord recs
          if last.comp ≠ totalComp ∨ last.raw ≠ totalRaw then .error .corrupted
          else .ok { recs := recs, backSize := backSize, alloc := alloc }

theorem decodeIndex_eq (v : Variant) (crc : List UInt8 → Nat) (stream : List UInt8) (pos size : Int) :
    decodeIndex v crc stream pos size =
      match Meta.decode ((stream.drop pos.toNat).take size.toNat) with
      | .error e => .error (metaErr e)
      | .ok d => idxTail v crc d.payload d.final d.consumed size := rfl

theorem idxTail_ok (crc : List UInt8 → Nat) (x1 x2 x3 x4 cc consumed : Nat) (gs : List Grp) (bw : List UInt8)
    (h1 : x1 < 2 ^ 63) (h2 : x2 < 2 ^ 63) (h3 : x3 < 2 ^ 63) (h4 : x4 < 2 ^ 63)
    (hbw : bw = putUvarint64 x1 ++ (putUvarint64 x2 ++ (putUvarint64 x3 ++ (putUvarint64 x4 ++
      (indexPayload.deltas (cum 0 0 gs) Record.zero ++ crc4 cc)))))
    (hc : (if bw.length > 4 then crc (bw.take (bw.length - 4)) else 0) = cc) (hcc : cc < 2 ^ 32)
    (hx2 : x2 = gs.length) (hx3 : (x3 : Int) = (cbytes gs).length) (hx4 : (x4 : Int) = (cdata gs).length)
    (hsz : ∀ g ∈ gs, 4 < g.1.length) :
    idxTail .fixed crc bw .fmeta consumed (consumed : Int) =
      .ok { recs := recsOf gs, backSize := x1, alloc := gs.length } := by
  have hc' : ((cbytes gs).length : Int) ≤ maxI64 := by simp only [maxI64]; omega
  have hd' : ((cdata gs).length : Int) ≤ maxI64 := by simp only [maxI64]; omega
  obtain ⟨r1, r2, r3⟩ := recsOf_ok gs hc' hd'
  unfold idxTail
  simp only [hc]
  subst hbw
  rw [readVLI_put _ _ h1]
  simp only
  rw [readVLI_put _ _ h2]
  simp only
  rw [readVLI_put _ _ h3]
  simp only
  rw [readVLI_put _ _ h4]
  simp only
  clear hc
  have hx2' : ((x2 : Int)).toNat = gs.length := by omega
  have hrc := readChunks_deltas gs 0 0 0 (crc4 cc) [] 0 (fun g hg => by
    have a1 := mem_cbytes_le hg
    have a2 := mem_cdata_le hg
    omega)
  rw [hx2']
  simp only [Record.zero]
  simp only [hrc]
  have hb := build_ok gs [] hsz (by simpa [lastC, lastRecord, Record.zero] using hc')
    (by simpa [lastR, lastRecord, Record.zero] using hd')
  simp only [List.reverse_nil, List.nil_append, hb, le32_crc4 cc hcc]
  have e3 : (lastRecord (List.foldl chunkStep [] gs)).comp = x3 := by rw [hx3]; exact r2
  have e4 : (lastRecord (List.foldl chunkStep [] gs)).raw = x4 := by rw [hx4]; exact r3
  simp [crc4, e3, e4, recsOf]

theorem ipBody_pos (recs : List Record) (back : Int) : 1 ≤ (ipBody recs back).length := by
  have := putUvarint64_pos back.toNat
  simp only [ipBody, List.length_append]; omega

theorem take_body (body tail : List UInt8) (h : tail.length = 4) :
    List.take ((body ++ tail).length - 4) (body ++ tail) = body := by
  have : (body ++ tail).length - 4 = body.length := by simp only [List.length_append]; omega
  rw [this]; simp

/-- **decodeIndex on one index stream** of the writer, wherever it stands. -/
theorem decodeIndex_group (crc : List UInt8 → Nat) (hcrc : ∀ l, crc l < 2 ^ 32)
    (A B : List UInt8) (gs : List Grp) (back : Int) (blocks : List (List UInt8))
    (henc : Meta.encode (indexPayload crc (recsOf gs) back) .fmeta = some blocks)
    (hb0 : 0 ≤ back) (hb1 : back < 2 ^ 63)
    (hsz : ∀ g ∈ gs, 4 < g.1.length)
    (hc : (cbytes gs).length < 2 ^ 63) (hd : (cdata gs).length < 2 ^ 63) :
    decodeIndex .fixed crc (A ++ (blocks.flatten ++ B)) A.length blocks.flatten.length =
      .ok { recs := recsOf gs, backSize := back, alloc := gs.length } := by
  obtain ⟨blocks', henc', hdec⟩ := Proofs.Meta.decode_encode (indexPayload crc (recsOf gs) back) .fmeta
  rw [henc] at henc'
  cases henc'
  obtain ⟨r1, r2, r3⟩ := recsOf_ok gs (by simp only [maxI64]; omega) (by simp only [maxI64]; omega)
  have hbr : ((A ++ (blocks.flatten ++ B)).drop (A.length : Int).toNat).take (blocks.flatten.length : Int).toNat
      = blocks.flatten := by simp
  rw [decodeIndex_eq]
  simp only [hbr, hdec]
  have hlen : (recsOf gs).length = gs.length := by rw [r1, cum_length]
  have hgl : gs.length ≤ (cbytes gs).length := by
    clear r1 r2 r3 hlen hc hd henc hdec hbr
    induction gs with
    | nil => simp
    | cons g gs ih =>
      have := hsz g (List.mem_cons_self ..)
      have := ih (fun q hq => hsz q (List.mem_cons_of_mem _ hq))
      rw [cbytes_cons, List.length_append, List.length_cons]; omega
  have key := idxTail_ok crc back.toNat (recsOf gs).length (lastRecord (recsOf gs)).comp.toNat
    (lastRecord (recsOf gs)).raw.toNat (crc (ipBody (recsOf gs) back)) blocks.flatten.length gs
    (indexPayload crc (recsOf gs) back) (by omega) (by omega)
    (by have : (lastRecord (recsOf gs)).comp = (cbytes gs).length := r2
        omega)
    (by have : (lastRecord (recsOf gs)).raw = (cdata gs).length := r3
        omega)
    (by rw [indexPayload_eq]; simp only [ipBody, List.append_assoc, ← r1])
    (by rw [indexPayload_eq]
        have hp := ipBody_pos (recsOf gs) back
        rw [if_pos (by simp only [List.length_append, crc4, List.length_cons, List.length_nil]; omega)]
        rw [take_body _ _ rfl])
    (hcrc _) hlen
    (by have : (lastRecord (recsOf gs)).comp = (cbytes gs).length := r2
        omega)
    (by have : (lastRecord (recsOf gs)).raw = (cdata gs).length := r3
        omega)
    hsz
  rw [key]
  have : ((back.toNat : Nat) : Int) = back := by omega
  rw [this]

end Compress.Proofs.XWShape
