/-
C01 (flate refinement), component 2: the dynamic block header.
`Impl.readPrefixCodes` (model of `ReadPrefixCodes`) against `Flate.readDynamic`
(RFC 1951 §3.2.7), given the equivalence of the Huffman tree builders.
-/
import Compress.Proofs.FlateDefs

namespace Compress.Proofs.FlateRefine
open Compress Compress.Flate Compress.Prefix

/-! The auxiliary lemmas live in the namespace `Header` (sibling files of the flate
    refinement use the same parent namespace). -/
namespace Header

/-! ### 1. bit reads -/

theorem readBits_eq (n : Nat) (b : Bits) :
    Impl.readBits n b =
      match takeBits n b with
      | none => .error .unexpectedEOF
      | some r => .ok r := by
  unfold Impl.readBits takeBits
  by_cases h : (List.take n b).length < n
  · simp only [h, if_true]
  · simp only [h, if_false]

theorem readBits_none {n : Nat} {b : Bits} (h : takeBits n b = none) :
    Impl.readBits n b = .error .unexpectedEOF := by
  rw [readBits_eq, h]

theorem readBits_some {n : Nat} {b : Bits} {r : Nat × Bits} (h : takeBits n b = some r) :
    Impl.readBits n b = .ok r := by
  rw [readBits_eq, h]

theorem takeBits_some {n : Nat} {b : Bits} {v : Nat} {r : Bits} (h : takeBits n b = some (v, r)) :
    r = b.drop n ∧ v < 2 ^ n := by
  unfold takeBits at h
  by_cases c : (List.take n b).length < n
  · simp only [c, if_true] at h; cases h
  · simp only [c, if_false, Option.some.injEq, Prod.mk.injEq] at h
    refine ⟨h.2.symm, ?_⟩
    rw [← h.1]
    have h1 := Compress.Proofs.PrefixCodes.toNat_lt (List.take n b)
    have h2 : (List.take n b).length = n := by
      have := List.length_take_le n b
      omega
    rw [h2] at h1
    exact h1

theorem takeBits_length {n : Nat} {b : Bits} {v : Nat} {r : Bits} (h : takeBits n b = some (v, r)) :
    r.length ≤ b.length := by
  rw [(takeBits_some h).1, List.length_drop]; omega

/-! ### 2. `codesFrom` -/

theorem filterMap_congr' {α β : Type} {f g : α → Option β} :
    ∀ {l : List α}, (∀ x ∈ l, f x = g x) → l.filterMap f = l.filterMap g
  | [], _ => rfl
  | x :: xs, h => by
    have hx : f x = g x := h x (List.mem_cons_self ..)
    have ih : xs.filterMap f = xs.filterMap g :=
      filterMap_congr' (fun y hy => h y (List.mem_cons_of_mem _ hy))
    rw [List.filterMap_cons, List.filterMap_cons, hx, ih]

theorem codesFrom_append : ∀ (a b : List Nat) (off : Nat),
    codesFrom off (a ++ b) = codesFrom off a ++ codesFrom (off + a.length) b
  | [], b, off => by simp only [List.nil_append, codesFrom, List.length_nil, Nat.add_zero]
  | x :: xs, b, off => by
    have ih := codesFrom_append xs b (off + 1)
    have e : off + 1 + xs.length = off + (x :: xs).length := by
      simp only [List.length_cons]; omega
    rw [e] at ih
    simp only [List.cons_append, codesFrom]
    by_cases hx : x = 0
    · simp only [hx, if_true]; exact ih
    · simp only [hx, if_false, List.cons_append, ih]

theorem codesFrom_singleton (off l : Nat) :
    codesFrom off [l] = if l = 0 then [] else [{ sym := off, len := l }] := by
  simp only [codesFrom]

theorem codesFrom_replicate_zero : ∀ (k off : Nat), codesFrom off (List.replicate k 0) = []
  | 0, _ => rfl
  | k+1, off => by
    rw [List.replicate_succ]
    simp only [codesFrom, if_true]
    exact codesFrom_replicate_zero k (off + 1)

theorem codesFrom_eq_filterMap : ∀ (l : List Nat) (off : Nat),
    codesFrom off l = (List.range l.length).filterMap
      (fun i => if l.getD i 0 = 0 then none else some { sym := off + i, len := l.getD i 0 })
  | [], off => rfl
  | x :: xs, off => by
    have ih := codesFrom_eq_filterMap xs (off + 1)
    rw [List.length_cons, List.range_succ_eq_map, List.filterMap_cons, List.filterMap_map]
    have e : (List.range xs.length).filterMap
        ((fun i => if (x :: xs).getD i 0 = 0 then none
          else some ({ sym := off + i, len := (x :: xs).getD i 0 } : Code)) ∘ Nat.succ) =
        (List.range xs.length).filterMap
          (fun i => if xs.getD i 0 = 0 then none else some { sym := off + 1 + i, len := xs.getD i 0 }) := by
      apply filterMap_congr'
      intro i _
      simp only [Function.comp, Nat.succ_eq_add_one, List.getD_cons_succ]
      have : off + (i + 1) = off + 1 + i := by omega
      rw [this]
    rw [e, ← ih]
    simp only [codesFrom, List.getD_cons_zero, Nat.add_zero]
    by_cases hx : x = 0
    · simp only [hx, if_true]
    · simp only [hx, if_false]

theorem mem_codesFrom_le {b : Nat} : ∀ (l : List Nat) (off : Nat), (∀ x ∈ l, x ≤ b) →
    ∀ c ∈ codesFrom off l, c.len ≤ b
  | [], _, _, c, hc => by simp only [codesFrom, List.not_mem_nil] at hc
  | x :: xs, off, h, c, hc => by
    have ih := mem_codesFrom_le xs (off + 1) (fun y hy => h y (List.mem_cons_of_mem _ hy))
    simp only [codesFrom] at hc
    by_cases hx : x = 0
    · simp only [hx, if_true] at hc; exact ih c hc
    · simp only [hx, if_false, List.mem_cons] at hc
      rcases hc with rfl | hc
      · exact h x (List.mem_cons_self ..)
      · exact ih c hc

/-! ### 3. the HCLEN code lengths -/

/-- the list of (symbol, length) pairs read so far (newest first) against the
    length array of the specification. -/
def ClInv (acc : List Code) (arr : Array Nat) : Prop :=
  arr.size = 19 ∧ (∀ s, arr.getD s 0 < 8) ∧
    ∀ s, s < 19 → acc.find? (fun c => c.sym == s) =
      if arr.getD s 0 = 0 then none else some { sym := s, len := arr.getD s 0 }

theorem getD_setIfInBounds (arr : Array Nat) (p v s : Nat) (hp : p < arr.size) :
    (arr.setIfInBounds p v).getD s 0 = if p = s then v else arr.getD s 0 := by
  rw [Array.getD_eq_getD_getElem?, Array.getD_eq_getD_getElem?, Array.getElem?_setIfInBounds]
  by_cases h : p = s
  · simp only [h, if_true]
    rw [if_pos (h ▸ hp)]; rfl
  · simp only [h, if_false]

theorem clInv_step {acc : List Code} {arr : Array Nat} {p v : Nat} (hI : ClInv acc arr)
    (hp : p < 19) (h0 : arr.getD p 0 = 0) (hv : v < 8) :
    ClInv (if v > 0 then { sym := p, len := v } :: acc else acc) (arr.setIfInBounds p v) := by
  obtain ⟨hs, hb, hf⟩ := hI
  have hp' : p < arr.size := by omega
  refine ⟨by rw [Array.size_setIfInBounds]; exact hs, ?_, ?_⟩
  · intro s
    rw [getD_setIfInBounds _ _ _ _ hp']
    by_cases h : p = s
    · simp only [h, if_true]; exact hv
    · simp only [h, if_false]; exact hb s
  · intro s hs19
    rw [getD_setIfInBounds _ _ _ _ hp']
    by_cases h : p = s
    · subst h
      simp only [if_true]
      by_cases hv0 : v = 0
      · subst hv0
        rw [if_neg (Nat.lt_irrefl 0), if_pos rfl, hf p hp, if_pos h0]
      · have : v > 0 := by omega
        simp only [this, if_true, hv0, if_false, List.find?_cons, beq_self_eq_true]
    · simp only [h, if_false]
      by_cases hv0 : v > 0
      · simp only [hv0, if_true, List.find?_cons]
        have : (p == s) = false := by simp only [beq_eq_false_iff_ne, ne_eq, h, not_false_eq_true]
        simp only [this]
        exact hf s hs19
      · simp only [hv0, if_false]
        exact hf s hs19

theorem rdCl_equiv : ∀ (order : List Nat) (acc : List Code) (arr : Array Nat) (bits : Bits),
    order.Nodup → (∀ p ∈ order, p < 19 ∧ arr.getD p 0 = 0) → ClInv acc arr →
    (readCLens order arr bits = none →
      Impl.readPrefixCodes.rdCl order acc bits = .error .unexpectedEOF) ∧
    (∀ arr' rest, readCLens order arr bits = some (arr', rest) →
      rest.length ≤ bits.length ∧
      ∃ acc', Impl.readPrefixCodes.rdCl order acc bits = .ok (acc', rest) ∧ ClInv acc' arr')
  | [], acc, arr, bits, _, _, hI => by
    constructor
    · intro h; simp only [readCLens] at h; cases h
    · intro arr' rest h
      simp only [readCLens, Option.some.injEq, Prod.mk.injEq] at h
      obtain ⟨rfl, rfl⟩ := h
      exact ⟨Nat.le_refl _, acc, rfl, hI⟩
  | p :: ps, acc, arr, bits, hnd, hord, hI => by
    rw [Impl.readPrefixCodes.rdCl.eq_2]
    simp only [readCLens]
    cases ht : takeBits 3 bits with
    | none =>
      rw [readBits_none ht]
      exact ⟨fun _ => rfl, fun _ _ h => by cases h⟩
    | some r =>
      obtain ⟨v, b⟩ := r
      rw [readBits_some ht]
      simp only [bind, Except.bind]
      have hv := (takeBits_some ht).2
      have hlen := takeBits_length ht
      obtain ⟨hp19, hp0⟩ := hord p (List.mem_cons_self ..)
      have hnd' := List.nodup_cons.mp hnd
      have hI' := clInv_step hI hp19 hp0 (by omega : v < 8)
      have hord' : ∀ q ∈ ps, q < 19 ∧ (arr.setIfInBounds p v).getD q 0 = 0 := by
        intro q hq
        obtain ⟨hq19, hq0⟩ := hord q (List.mem_cons_of_mem _ hq)
        refine ⟨hq19, ?_⟩
        rw [getD_setIfInBounds _ _ _ _ (by rw [hI.1]; exact hp19)]
        have : p ≠ q := fun e => hnd'.1 (e ▸ hq)
        simp only [this, if_false]; exact hq0
      have ih := rdCl_equiv ps _ _ b hnd'.2 hord' hI'
      refine ⟨ih.1, ?_⟩
      intro arr' rest h
      obtain ⟨h1, h2⟩ := ih.2 arr' rest h
      exact ⟨by omega, h2⟩

theorem clSorted_eq {acc : List Code} {arr : Array Nat} (hI : ClInv acc arr) :
    (List.range 19).filterMap (fun s => acc.find? (fun c => c.sym == s)) = codesOf arr.toList := by
  unfold codesOf
  rw [codesFrom_eq_filterMap, Array.length_toList, hI.1]
  apply filterMap_congr'
  intro s hs
  rw [hI.2.2 s (List.mem_range.mp hs)]
  have : arr.toList.getD s 0 = arr.getD s 0 := by
    rw [List.getD_eq_getElem?_getD, Array.getElem?_toList, Array.getD_eq_getD_getElem?]
  rw [this, Nat.zero_add]

theorem clInv_init : ClInv [] (Array.replicate 19 0) := by
  refine ⟨Array.size_replicate, ?_, ?_⟩
  · intro s
    rw [Array.getD_eq_getD_getElem?, Array.getElem?_replicate]
    by_cases h : s < 19
    · simp only [h, if_true, Option.getD_some]; omega
    · simp only [h, if_false, Option.getD_none]; omega
  · intro s hs
    rw [Array.getD_eq_getD_getElem?, Array.getElem?_replicate]
    simp only [hs, if_true, Option.getD_some, List.find?_nil]

theorem clenOrder_take_ok (k : Nat) :
    (Flate.clenOrder.take k).Nodup ∧
      ∀ p ∈ Flate.clenOrder.take k, p < 19 ∧ (Array.replicate 19 0).getD p 0 = 0 := by
  have hnd : Flate.clenOrder.Nodup := by decide
  have hlt : ∀ p ∈ Flate.clenOrder, p < 19 := by decide
  refine ⟨(List.take_sublist k _).nodup hnd, ?_⟩
  intro p hp
  have := hlt p (List.mem_of_mem_take hp)
  refine ⟨this, ?_⟩
  rw [Array.getD_eq_getD_getElem?, Array.getElem?_replicate]
  simp only [this, if_true, Option.getD_some]

/-! ### 4. the code length loop: one step of the model -/

/-- `append` of `readCodeLens`. -/
def app (numLit s l : Nat) (st : List Code × List Code) : List Code × List Code :=
  if s < numLit then ({ sym := s, len := l } :: st.1, st.2)
  else (st.1, { sym := s - numLit, len := l } :: st.2)

/-- the repeat codes 16, 17, 18 of `readCodeLens`: (length, count, rest). -/
def repOf (clen sym clenLast : Nat) (b1 : Bits) : Impl.M (Nat × Nat × Bits) :=
  if clen = 16 then
    if sym = 0 then .error .corrupted
    else do let (v, b2) ← Impl.readBits 2 b1; pure (clenLast, 3 + v, b2)
  else if clen = 17 then do let (v, b2) ← Impl.readBits 3 b1; pure (0, 3 + v, b2)
  else if clen = 18 then do let (v, b2) ← Impl.readBits 7 b1; pure (0, 11 + v, b2)
  else .error .corrupted

/-- the lists after a run of `cnt` lengths `l` starting at symbol `sym`. -/
def runSt (numLit sym l cnt : Nat) (st : List Code × List Code) : List Code × List Code :=
  if l > 0 then (List.range cnt).foldl (fun st k => app numLit (sym + k) l st) st else st

theorem readCodeLens_succ (clTree : Decoder) (numLit n fuel sym clenLast : Nat)
    (lits dists : List Code) (bits : Bits) :
    Impl.readCodeLens clTree numLit n (fuel + 1) sym clenLast lits dists bits =
      if sym ≥ n then .ok (lits.reverse, dists.reverse, bits)
      else (Impl.readSymbol clTree bits).bind fun r =>
        if r.1 < 16 then
          Impl.readCodeLens clTree numLit n fuel (sym + 1) r.1
            (if r.1 > 0 then app numLit sym r.1 (lits, dists) else (lits, dists)).1
            (if r.1 > 0 then app numLit sym r.1 (lits, dists) else (lits, dists)).2 r.2
        else (repOf r.1 sym clenLast r.2).bind fun q =>
          if sym + q.2.1 > n then .error .corrupted
          else Impl.readCodeLens clTree numLit n fuel (sym + q.2.1) q.1
            (runSt numLit sym q.1 q.2.1 (lits, dists)).1 (runSt numLit sym q.1 q.2.1 (lits, dists)).2 q.2.2 := by
  rw [Impl.readCodeLens.eq_2]
  rfl

theorem readCodeLens_done {clTree : Decoder} {numLit n fuel sym clenLast : Nat}
    {lits dists : List Code} {bits : Bits} (h : sym ≥ n) :
    Impl.readCodeLens clTree numLit n (fuel + 1) sym clenLast lits dists bits =
      .ok (lits.reverse, dists.reverse, bits) := by
  rw [readCodeLens_succ, if_pos h]

theorem readCodeLens_err {clTree : Decoder} {numLit n fuel sym clenLast : Nat}
    {lits dists : List Code} {bits : Bits} {e : Impl.FErr} (h : ¬ sym ≥ n)
    (hs : Impl.readSymbol clTree bits = .error e) :
    Impl.readCodeLens clTree numLit n (fuel + 1) sym clenLast lits dists bits = .error e := by
  rw [readCodeLens_succ, if_neg h, hs]; rfl

theorem readCodeLens_lit {clTree : Decoder} {numLit n fuel sym clenLast : Nat}
    {lits dists : List Code} {bits : Bits} {clen : Nat} {b1 : Bits} (h : ¬ sym ≥ n)
    (hs : Impl.readSymbol clTree bits = .ok (clen, b1)) (hc : clen < 16) :
    Impl.readCodeLens clTree numLit n (fuel + 1) sym clenLast lits dists bits =
      Impl.readCodeLens clTree numLit n fuel (sym + 1) clen
        (if clen > 0 then app numLit sym clen (lits, dists) else (lits, dists)).1
        (if clen > 0 then app numLit sym clen (lits, dists) else (lits, dists)).2 b1 := by
  rw [readCodeLens_succ, if_neg h, hs]
  simp only [Except.bind]
  rw [if_pos hc]

theorem readCodeLens_rep_err {clTree : Decoder} {numLit n fuel sym clenLast : Nat}
    {lits dists : List Code} {bits : Bits} {clen : Nat} {b1 : Bits} {e : Impl.FErr} (h : ¬ sym ≥ n)
    (hs : Impl.readSymbol clTree bits = .ok (clen, b1)) (hc : ¬ clen < 16)
    (hr : repOf clen sym clenLast b1 = .error e) :
    Impl.readCodeLens clTree numLit n (fuel + 1) sym clenLast lits dists bits = .error e := by
  rw [readCodeLens_succ, if_neg h, hs]
  simp only [Except.bind]
  rw [if_neg hc, hr]

theorem readCodeLens_rep_ok {clTree : Decoder} {numLit n fuel sym clenLast : Nat}
    {lits dists : List Code} {bits : Bits} {clen : Nat} {b1 : Bits} {l cnt : Nat} {b2 : Bits}
    (h : ¬ sym ≥ n)
    (hs : Impl.readSymbol clTree bits = .ok (clen, b1)) (hc : ¬ clen < 16)
    (hr : repOf clen sym clenLast b1 = .ok (l, cnt, b2)) :
    Impl.readCodeLens clTree numLit n (fuel + 1) sym clenLast lits dists bits =
      if sym + cnt > n then .error .corrupted
      else Impl.readCodeLens clTree numLit n fuel (sym + cnt) l
        (runSt numLit sym l cnt (lits, dists)).1 (runSt numLit sym l cnt (lits, dists)).2 b2 := by
  rw [readCodeLens_succ, if_neg h, hs]
  simp only [Except.bind]
  rw [if_neg hc, hr]

/-! the repeat codes -/

theorem bind_readBits_none {n : Nat} {b : Bits} {β : Type} (f : Nat × Bits → Impl.M β)
    (h : takeBits n b = none) : (Impl.readBits n b >>= f) = .error .unexpectedEOF := by
  rw [readBits_none h]; rfl

theorem bind_readBits_some {n : Nat} {b : Bits} {β : Type} (f : Nat × Bits → Impl.M β)
    {r : Nat × Bits} (h : takeBits n b = some r) : (Impl.readBits n b >>= f) = f r := by
  rw [readBits_some h]; rfl

theorem repOf_16_zero (clenLast : Nat) (b1 : Bits) : repOf 16 0 clenLast b1 = .error .corrupted := rfl

theorem repOf_16_none {sym clenLast : Nat} {b1 : Bits} (hs : sym ≠ 0) (h : takeBits 2 b1 = none) :
    repOf 16 sym clenLast b1 = .error .unexpectedEOF := by
  unfold repOf
  rw [if_pos rfl, if_neg hs, bind_readBits_none _ h]

theorem repOf_16_some {sym clenLast : Nat} {b1 : Bits} {v : Nat} {b2 : Bits} (hs : sym ≠ 0)
    (h : takeBits 2 b1 = some (v, b2)) :
    repOf 16 sym clenLast b1 = .ok (clenLast, 3 + v, b2) := by
  unfold repOf
  rw [if_pos rfl, if_neg hs, bind_readBits_some _ h]; rfl

theorem repOf_17_none {sym clenLast : Nat} {b1 : Bits} (h : takeBits 3 b1 = none) :
    repOf 17 sym clenLast b1 = .error .unexpectedEOF := by
  unfold repOf
  rw [if_neg (by decide), if_pos rfl, bind_readBits_none _ h]

theorem repOf_17_some {sym clenLast : Nat} {b1 : Bits} {v : Nat} {b2 : Bits}
    (h : takeBits 3 b1 = some (v, b2)) :
    repOf 17 sym clenLast b1 = .ok (0, 3 + v, b2) := by
  unfold repOf
  rw [if_neg (by decide), if_pos rfl, bind_readBits_some _ h]; rfl

theorem repOf_18_none {sym clenLast : Nat} {b1 : Bits} (h : takeBits 7 b1 = none) :
    repOf 18 sym clenLast b1 = .error .unexpectedEOF := by
  unfold repOf
  rw [if_neg (by decide), if_neg (by decide), if_pos rfl, bind_readBits_none _ h]

theorem repOf_18_some {sym clenLast : Nat} {b1 : Bits} {v : Nat} {b2 : Bits}
    (h : takeBits 7 b1 = some (v, b2)) :
    repOf 18 sym clenLast b1 = .ok (0, 11 + v, b2) := by
  unfold repOf
  rw [if_neg (by decide), if_neg (by decide), if_pos rfl, bind_readBits_some _ h]; rfl

theorem repOf_big {clen sym clenLast : Nat} {b1 : Bits} (h : 19 ≤ clen) :
    repOf clen sym clenLast b1 = .error .corrupted := by
  unfold repOf
  rw [if_neg (by omega), if_neg (by omega), if_neg (by omega)]

/-! ### 5. the lists of the model as a function of the lengths read so far -/

/-- the two (reversed) code lists of `readCodeLens` after the lengths `xs`. -/
def St (numLit : Nat) (xs : List Nat) : List Code × List Code :=
  ((codesFrom 0 (xs.take numLit)).reverse, (codesFrom 0 (xs.drop numLit)).reverse)

theorem St_snoc (numLit : Nat) (xs : List Nat) (l : Nat) :
    St numLit (xs ++ [l]) = if l = 0 then St numLit xs else app numLit xs.length l (St numLit xs) := by
  unfold St app
  rw [List.take_append, List.drop_append, codesFrom_append, codesFrom_append]
  by_cases h : xs.length < numLit
  · have h1 : List.take (numLit - xs.length) [l] = [l] :=
      List.take_of_length_le (by simp only [List.length_cons, List.length_nil]; omega)
    have h2 : List.drop (numLit - xs.length) [l] = [] :=
      List.drop_of_length_le (by simp only [List.length_cons, List.length_nil]; omega)
    rw [h1, h2, codesFrom_singleton]
    simp only [codesFrom, List.append_nil, if_pos h]
    have h3 : (List.take numLit xs).length = xs.length := by
      rw [List.length_take]; omega
    rw [h3, Nat.zero_add]
    by_cases hl : l = 0
    · simp only [hl, if_true, List.append_nil]
    · simp only [hl, if_false, List.reverse_append, List.reverse_cons, List.reverse_nil,
        List.nil_append, List.cons_append]
  · have h1 : List.take (numLit - xs.length) [l] = [] := by
      have : numLit - xs.length = 0 := by omega
      rw [this]; rfl
    have h2 : List.drop (numLit - xs.length) [l] = [l] := by
      have : numLit - xs.length = 0 := by omega
      rw [this]; rfl
    rw [h1, h2, codesFrom_singleton]
    simp only [codesFrom, List.append_nil, if_neg h]
    have h3 : (List.drop numLit xs).length = xs.length - numLit := List.length_drop
    rw [h3, Nat.zero_add]
    by_cases hl : l = 0
    · simp only [hl, if_true, List.append_nil]
    · simp only [hl, if_false, List.reverse_append, List.reverse_cons, List.reverse_nil,
        List.nil_append, List.cons_append]

theorem St_replicate (numLit : Nat) (xs : List Nat) (l : Nat) : ∀ cnt : Nat,
    St numLit (xs ++ List.replicate cnt l) = runSt numLit xs.length l cnt (St numLit xs)
  | 0 => by
    unfold runSt
    simp only [List.replicate_zero, List.append_nil, List.range_zero, List.foldl_nil, ite_self]
  | cnt+1 => by
    have ih := St_replicate numLit xs l cnt
    rw [List.replicate_succ', ← List.append_assoc, St_snoc, ih]
    unfold runSt
    by_cases hl : l = 0
    · simp only [hl, if_true, if_false, Nat.lt_irrefl]
    · have : l > 0 := by omega
      simp only [hl, if_false, this, if_true, List.range_succ, List.foldl_append, List.foldl_cons,
        List.foldl_nil, List.length_append, List.length_replicate]

/-! ### 6. the code length loop: model against specification -/

/-- agreement of the results of `readLengths` and `readCodeLens`. -/
def LensAgree (numLit n : Nat) (bits : Bits) (r : Except Verdict (List Nat × Bits))
    (i : Impl.M (List Code × List Code × Bits)) : Prop :=
  match r with
  | .error v => i = .error (verr v)
  | .ok (lens, rest) =>
    rest.length ≤ bits.length ∧ lens.length = n ∧ (∀ l ∈ lens, l ≤ 15) ∧
      i = .ok (codesFrom 0 (lens.take numLit), codesFrom 0 (lens.drop numLit), rest)

theorem LensAgree.mono {numLit n : Nat} {bits bits' : Bits} {r : Except Verdict (List Nat × Bits)}
    {i : Impl.M (List Code × List Code × Bits)} (hl : bits'.length ≤ bits.length)
    (h : LensAgree numLit n bits' r i) : LensAgree numLit n bits r i := by
  unfold LensAgree at *
  cases r with
  | error v => exact h
  | ok p =>
    obtain ⟨lens, rest⟩ := p
    exact ⟨Nat.le_trans h.1 hl, h.2⟩

theorem readLens_equiv {clTree : Decoder} {cl : HuffTab} (H : TreeRel 19 clTree cl) (numLit n : Nat) :
    ∀ (fuel : Nat) (acc : List Nat) (bits : Bits), acc.length ≤ n → n + 1 ≤ fuel + acc.length →
      (∀ l ∈ acc, l ≤ 15) →
      LensAgree numLit n bits (readLengths cl fuel n acc bits)
        (Impl.readCodeLens clTree numLit n fuel acc.length (acc.headD 0)
          (St numLit acc.reverse).1 (St numLit acc.reverse).2 bits) := by
  intro fuel
  induction fuel with
  | zero => intro acc bits h1 h2 _; omega
  | succ fuel ih =>
    intro acc bits hle hfuel hb
    rw [readLengths.eq_2]
    by_cases hge : acc.length ≥ n
    · have hn : acc.length = n := by omega
      rw [if_pos hge, if_pos hn, readCodeLens_done hge]
      refine ⟨Nat.le_refl _, by rw [List.length_reverse]; exact hn,
        fun l hl => hb l (List.mem_reverse.mp hl), ?_⟩
      simp only [St, List.reverse_reverse]
    · rw [if_neg hge]
      have hH := H bits
      cases hd : cl.decode bits with
      | eof =>
        rw [hd] at hH
        rw [readCodeLens_err hge hH]; rfl
      | invalid =>
        rw [hd] at hH
        rcases hH with hH | ⟨s', rest', hH, hs'⟩
        · rw [readCodeLens_err hge hH]; rfl
        · rw [readCodeLens_rep_err hge hH (by omega) (repOf_big hs')]; rfl
      | sym s rest =>
        rw [hd] at hH
        obtain ⟨hH, hs19⟩ := hH
        have hrest : rest.length ≤ bits.length := Nat.le_of_lt (decode_length_lt _ _ _ _ hd)
        simp only []
        have key : ∀ (k prev : Nat) (rest' : Bits), 1 ≤ k → prev ≤ 15 → acc.length + k ≤ n →
            LensAgree numLit n rest' (readLengths cl fuel n (List.replicate k prev ++ acc) rest')
              (Impl.readCodeLens clTree numLit n fuel (acc.length + k) prev
                (runSt numLit acc.length prev k (St numLit acc.reverse)).1
                (runSt numLit acc.length prev k (St numLit acc.reverse)).2 rest') := by
          intro k prev rest' hk hp hlen
          have hl : (List.replicate k prev ++ acc).length = acc.length + k := by
            rw [List.length_append, List.length_replicate]; omega
          have h := ih (List.replicate k prev ++ acc) rest' (by omega) (by omega)
            (by
              intro l hl
              rcases List.mem_append.mp hl with hl | hl
              · rw [(List.mem_replicate.mp hl).2]; exact hp
              · exact hb l hl)
          have hh : (List.replicate k prev ++ acc).headD 0 = prev := by
            cases k with
            | zero => omega
            | succ k => rfl
          rw [hl, hh, List.reverse_append, List.reverse_replicate, St_replicate,
            List.length_reverse] at h
          exact h
        by_cases h16 : s < 16
        · rw [if_pos h16, readCodeLens_lit hge hH h16]
          have h := ih (s :: acc) rest (by simp only [List.length_cons]; omega)
            (by simp only [List.length_cons]; omega)
            (by
              intro l hl
              rcases List.mem_cons.mp hl with hl | hl
              · omega
              · exact hb l hl)
          rw [List.reverse_cons, St_snoc, List.length_reverse, List.length_cons, List.headD_cons] at h
          apply LensAgree.mono hrest
          by_cases hs0 : s = 0
          · rw [if_pos hs0] at h
            rw [if_neg (by omega)]
            exact h
          · rw [if_neg hs0] at h
            rw [if_pos (by omega)]
            exact h
        · rw [if_neg h16]
          by_cases e16 : s = 16
          · subst e16
            rw [if_pos rfl]
            cases acc with
            | nil =>
              simp only []
              rw [readCodeLens_rep_err hge hH h16 (repOf_16_zero _ _)]; rfl
            | cons prev tl =>
              simp only []
              have hne : (prev :: tl).length ≠ 0 := by simp only [List.length_cons]; omega
              cases ht : takeBits 2 rest with
              | none =>
                simp only []
                rw [readCodeLens_rep_err hge hH h16 (repOf_16_none hne ht)]; rfl
              | some r =>
                obtain ⟨v, rest'⟩ := r
                simp only []
                rw [readCodeLens_rep_ok hge hH h16 (repOf_16_some hne ht)]
                by_cases hov : (prev :: tl).length + (3 + v) > n
                · rw [if_pos hov, if_pos hov]; rfl
                · rw [if_neg hov, if_neg hov]
                  exact LensAgree.mono (Nat.le_trans (takeBits_length ht) hrest)
                    (key (3 + v) prev rest' (by omega) (hb prev (List.mem_cons_self ..)) (by omega))
          · rw [if_neg e16]
            by_cases e17 : s = 17
            · subst e17
              rw [if_pos rfl]
              cases ht : takeBits 3 rest with
              | none =>
                simp only []
                rw [readCodeLens_rep_err hge hH h16 (repOf_17_none ht)]; rfl
              | some r =>
                obtain ⟨v, rest'⟩ := r
                simp only []
                rw [readCodeLens_rep_ok hge hH h16 (repOf_17_some ht)]
                by_cases hov : acc.length + (3 + v) > n
                · rw [if_pos hov, if_pos hov]; rfl
                · rw [if_neg hov, if_neg hov]
                  exact LensAgree.mono (Nat.le_trans (takeBits_length ht) hrest)
                    (key (3 + v) 0 rest' (by omega) (by omega) (by omega))
            · rw [if_neg e17]
              have e18 : s = 18 := by omega
              subst e18
              cases ht : takeBits 7 rest with
              | none =>
                simp only []
                rw [readCodeLens_rep_err hge hH h16 (repOf_18_none ht)]; rfl
              | some r =>
                obtain ⟨v, rest'⟩ := r
                simp only []
                rw [readCodeLens_rep_ok hge hH h16 (repOf_18_some ht)]
                by_cases hov : acc.length + (11 + v) > n
                · rw [if_pos hov, if_pos hov]; rfl
                · rw [if_neg hov, if_neg hov]
                  exact LensAgree.mono (Nat.le_trans (takeBits_length ht) hrest)
                    (key (11 + v) 0 rest' (by omega) (by omega) (by omega))

/-! ### 7. the header -/

theorem readPrefixCodes_eq (bits : Bits) :
    Impl.readPrefixCodes bits =
      (Impl.readBits 5 bits).bind fun r1 =>
      (Impl.readBits 5 r1.2).bind fun r2 =>
      (Impl.readBits 4 r2.2).bind fun r3 =>
        if r1.1 + 257 > 286 ∨ r2.1 + 1 > 30 then .error .corrupted
        else
          (Impl.readPrefixCodes.rdCl (Flate.clenOrder.take (r3.1 + 4)) [] r3.2).bind fun r4 =>
          (Impl.mkTree ((List.range 19).filterMap (fun s => r4.1.find? (fun c => c.sym == s))) 19).bind
            fun clTree =>
          (Impl.readCodeLens clTree (r1.1 + 257) (r1.1 + 257 + (r2.1 + 1))
              (r1.1 + 257 + (r2.1 + 1) + 1) 0 0 [] [] r4.2).bind fun r5 =>
          (Impl.mkTree r5.1 286).bind fun lt =>
          (Impl.mkTree r5.2.1 30).bind fun dt => .ok (lt, dt, r5.2.2) := by
  rfl

theorem St_nil (numLit : Nat) : St numLit ([] : List Nat).reverse = ([], []) := by
  simp only [St, List.reverse_nil, List.take_nil, List.drop_nil, codesFrom]

theorem toList_le_of_getD {arr : Array Nat} {b : Nat} (h : ∀ s, arr.getD s 0 < b) :
    ∀ l ∈ arr.toList, l < b := by
  intro l hl
  obtain ⟨i, hi, rfl⟩ := List.getElem_of_mem hl
  have := h i
  rw [Array.getD_eq_getD_getElem?, ← Array.getElem?_toList, List.getElem?_eq_getElem hi,
    Option.getD_some] at this
  exact this

theorem bind_ok {ε α β : Type} (a : α) (f : α → Except ε β) : (Except.ok a).bind f = f a := rfl
theorem bind_error {ε α β : Type} (e : ε) (f : α → Except ε β) :
    (Except.error e : Except ε α).bind f = .error e := rfl

/-- agreement of the results of `readDynamic` and `readPrefixCodes`. -/
def HdrAgree (bits : Bits) (r : Except Verdict (Huff × Huff × Bits))
    (i : Impl.M (Decoder × Decoder × Bits)) : Prop :=
  match r with
  | .error v => i = .error (verr v)
  | .ok (lit, dist, rest) =>
    rest.length ≤ bits.length ∧
      ∃ lt dt, i = .ok (lt, dt, rest) ∧ TreeRel 286 lt lit.tab ∧ TreeRel 30 dt dist.tab

end Header

open Header in
/-- **Component 2 (dynamic block header)**, from the equivalence of the tree builders. -/
theorem headerEquiv (HT : TreeEquiv) : HeaderEquiv := by
  intro bits
  show HdrAgree bits (readDynamic bits) (Impl.readPrefixCodes bits)
  rw [readPrefixCodes_eq]
  unfold readDynamic
  cases h1 : takeBits 5 bits with
  | none => rw [readBits_none h1]; rfl
  | some r1 =>
    obtain ⟨hlit, b1⟩ := r1
    rw [readBits_some h1, bind_ok]
    simp only []
    cases h2 : takeBits 5 b1 with
    | none => rw [readBits_none h2]; rfl
    | some r2 =>
      obtain ⟨hdist, b2⟩ := r2
      rw [readBits_some h2, bind_ok]
      simp only []
      cases h3 : takeBits 4 b2 with
      | none => rw [readBits_none h3]; rfl
      | some r3 =>
        obtain ⟨hclen, b3⟩ := r3
        rw [readBits_some h3, bind_ok]
        simp only []
        have hb1 := takeBits_length h1
        have hb2 := takeBits_length h2
        have hb3 := takeBits_length h3
        by_cases hbig : hlit + 257 > 286 ∨ hdist + 1 > 30
        · rw [if_pos hbig, if_pos hbig]; rfl
        · rw [if_neg hbig, if_neg hbig]
          obtain ⟨hnd, hord⟩ := clenOrder_take_ok (hclen + 4)
          have hcl := rdCl_equiv _ [] _ b3 hnd hord clInv_init
          cases hc : readCLens (List.take (hclen + 4) clenOrder) (Array.replicate 19 0) b3 with
          | none => rw [hcl.1 hc]; rfl
          | some r4 =>
            obtain ⟨cl, b4⟩ := r4
            obtain ⟨hb4, acc', hrd, hI⟩ := hcl.2 cl b4 hc
            rw [hrd, bind_ok]
            simp only []
            rw [clSorted_eq hI]
            have hT := HT cl.toList 19 (by rw [Array.length_toList, hI.1]; exact Nat.le_refl _)
              (fun l hl => by have := toList_le_of_getD hI.2.1 l hl; omega)
            have hcle : (⟨cl.toList.toArray⟩ : Huff) = ⟨cl⟩ := rfl
            rw [hcle] at hT
            cases hv : (⟨cl⟩ : Huff).valid with
            | false =>
              rw [hT.1 hv]; rfl
            | true =>
              obtain ⟨clTree, hmk, hR⟩ := hT.2 hv
              rw [hmk, bind_ok]
              simp only [Bool.not_true, Bool.false_eq_true, if_false]
              have hL := readLens_equiv hR (hlit + 257) (hlit + 257 + (hdist + 1))
                (hlit + 257 + (hdist + 1) + 1) [] b4 (Nat.zero_le _)
                (by simp only [List.length_nil]; omega)
                (fun l hl => by cases hl)
              rw [St_nil] at hL
              simp only [List.length_nil, List.headD_nil] at hL
              unfold LensAgree at hL
              cases hr : readLengths (⟨cl⟩ : Huff).tab (hlit + 257 + (hdist + 1) + 1)
                  (hlit + 257 + (hdist + 1)) [] b4 with
              | error e =>
                rw [hr] at hL
                simp only [] at hL
                rw [hL]; rfl
              | ok r5 =>
                obtain ⟨lens, b5⟩ := r5
                rw [hr] at hL
                simp only [] at hL
                obtain ⟨hb5, hlenN, hb15, hi⟩ := hL
                rw [hi, bind_ok]
                simp only []
                have hTl := HT (lens.take (hlit + 257)) 286
                  (by rw [List.length_take]; omega)
                  (fun l hl => hb15 l (List.mem_of_mem_take hl))
                have hTd := HT (lens.drop (hlit + 257)) 30
                  (by rw [List.length_drop]; omega)
                  (fun l hl => hb15 l (List.mem_of_mem_drop hl))
                unfold codesOf at hTl hTd
                cases hvl : (⟨(lens.take (hlit + 257)).toArray⟩ : Huff).valid with
                | false =>
                  rw [hTl.1 hvl]
                  simp only [Bool.not_false, true_or, if_true]
                  rfl
                | true =>
                  obtain ⟨lt, hmkl, hRl⟩ := hTl.2 hvl
                  rw [hmkl, bind_ok]
                  cases hvd : (⟨(lens.drop (hlit + 257)).toArray⟩ : Huff).valid with
                  | false =>
                    rw [hTd.1 hvd]
                    simp only [Bool.not_false, or_true, if_true]
                    rfl
                  | true =>
                    obtain ⟨dt, hmkd, hRd⟩ := hTd.2 hvd
                    rw [hmkd, bind_ok]
                    simp only [Bool.not_true, Bool.false_eq_true, or_self, if_false]
                    exact ⟨by omega, lt, dt, rfl, hRl, hRd⟩

end Compress.Proofs.FlateRefine

#print axioms Compress.Proofs.FlateRefine.headerEquiv
