/-
Where the bits of an encoded block come from (C16 / M4).
-/
import Compress.Proofs.MetaLocBridge
import Compress.Proofs.MetaLocSize

namespace Compress.Proofs.MetaLoc
open Compress Compress.Meta Compress.Proofs.Meta

theorem getD_app_l (a b : Bits) (n : Nat) (h : n < a.length) : (a ++ b).getD n false = a.getD n false :=
  getD_append_left' a b n h

theorem getD_app_r (a b : Bits) (n : Nat) (h : a.length ≤ n) :
    (a ++ b).getD n false = b.getD (n - a.length) false := by
  have e : n = a.length + (n - a.length) := by omega
  conv => lhs; rw [e]
  exact getD_append_right' a b _

theorem getD_past (a : Bits) (n : Nat) (h : a.length ≤ n) : a.getD n false = false := by
  simp [List.getD_eq_getElem?_getD, List.getElem?_eq_none h]

theorem getD_replicate' (m n : Nat) (b : Bool) (h : n < m) : (List.replicate m b).getD n false = b := by
  simp [List.getD_eq_getElem?_getD, h]

theorem zeroFields_eq : ∀ (k : Nat), (List.replicate k (Bits.ofNat 0 3)).flatten = List.replicate (3 * k) false
  | 0 => rfl
  | k+1 => by
    rw [List.replicate_succ, List.flatten_cons, zeroFields_eq k]
    have : 3 * (k + 1) = 3 + 3 * k := by omega
    rw [this, ← List.replicate_append_replicate]
    rfl

theorem hclens_getD (h j : Nat) :
    (hclensBits h).getD j false = decide (j = 3 * (4 + (8 - h) * 2 - 1 - 5) + 1) := by
  unfold hclensBits
  rw [zeroFields_eq, List.append_assoc]
  generalize 4 + (8 - h) * 2 - 1 - 5 = k
  by_cases hj : j < 3 * k
  · rw [getD_app_l _ _ _ (by rw [List.length_replicate]; exact hj), getD_replicate' _ _ _ hj]
    simp; omega
  · rw [getD_app_r _ _ _ (by rw [List.length_replicate]; omega), List.length_replicate]
    obtain ⟨d, rfl⟩ : ∃ d, j = 3 * k + d := ⟨j - 3 * k, by omega⟩
    have e : 3 * k + d - 3 * k = d := by omega
    rw [e]
    have e2 : Bits.ofNat 2 3 ++ [false] = [false, true, false, false] := rfl
    rw [e2]
    rcases d with _ | _ | _ | _ | _ | d <;> simp

section regions
variable (buf : List UInt8) (final : FinalMode) (h : Nat) (inv : Bool)

theorem blockBits_assoc :
    blockBits buf final h inv =
      Bits.ofNat (magicOf final h (padsOf buf final h inv)) 32 ++ (hclensBits h ++ (bodyBits buf final h inv ++
        (List.replicate (padsOf buf final h inv) false ++ ([false] ++ Bits.ofNat (2 ^ h - 1) h)))) := by
  simp only [blockBits, List.append_assoc]

theorem block_magic (n : Nat) (hn : n < 32) :
    (blockBits buf final h inv).getD n false = (magicOf final h (padsOf buf final h inv)).testBit n := by
  rw [blockBits_assoc, getD_app_l _ _ _ (by rw [length_ofNat]; exact hn), getD_ofNat]
  simp [hn]

theorem block_hclens (j : Nat) (hj : j < 3 * (4 + (8 - h) * 2 - 1 - 5) + 4) :
    (blockBits buf final h inv).getD (32 + j) false = decide (j = 3 * (4 + (8 - h) * 2 - 1 - 5) + 1) := by
  rw [blockBits_assoc, getD_app_r _ _ _ (by rw [length_ofNat]; omega), length_ofNat,
    getD_app_l _ _ _ (by rw [hclensBits_length]; omega)]
  have e : 32 + j - 32 = j := by omega
  rw [e, hclens_getD]

theorem block_body (j : Nat) (hj : j < (bodyBits buf final h inv).length) :
    (blockBits buf final h inv).getD (32 + (3 * (4 + (8 - h) * 2 - 1 - 5) + 4) + j) false =
      (bodyBits buf final h inv).getD j false := by
  rw [blockBits_assoc, getD_app_r _ _ _ (by rw [length_ofNat]; omega), length_ofNat,
    getD_app_r _ _ _ (by rw [hclensBits_length]; omega), hclensBits_length,
    getD_app_l _ _ _ (by omega)]
  congr 1; omega

theorem block_fzero (j : Nat) (hj : j < padsOf buf final h inv + 1) :
    (blockBits buf final h inv).getD
      (32 + (3 * (4 + (8 - h) * 2 - 1 - 5) + 4) + (bodyBits buf final h inv).length + j) false = false := by
  rw [blockBits_assoc, getD_app_r _ _ _ (by rw [length_ofNat]; omega), length_ofNat,
    getD_app_r _ _ _ (by rw [hclensBits_length]; omega), hclensBits_length,
    getD_app_r _ _ _ (by omega)]
  by_cases hp : j < padsOf buf final h inv
  · rw [getD_app_l _ _ _ (by rw [List.length_replicate]; omega)]
    exact getD_replicate' _ _ _ (by omega)
  · rw [getD_app_r _ _ _ (by rw [List.length_replicate]; omega), List.length_replicate,
      getD_app_l _ _ _ (by simp only [List.length_cons, List.length_nil]; omega)]
    have e : 32 + (3 * (4 + (8 - h) * 2 - 1 - 5) + 4) + (bodyBits buf final h inv).length + j - 32 -
        (3 * (4 + (8 - h) * 2 - 1 - 5) + 4) - (bodyBits buf final h inv).length - padsOf buf final h inv = 0 := by
      omega
    rw [e]; rfl

theorem block_fone (j : Nat) (hj : j < h) :
    (blockBits buf final h inv).getD
      (32 + (3 * (4 + (8 - h) * 2 - 1 - 5) + 4) + (bodyBits buf final h inv).length +
        padsOf buf final h inv + 1 + j) false = true := by
  rw [blockBits_assoc, getD_app_r _ _ _ (by rw [length_ofNat]; omega), length_ofNat,
    getD_app_r _ _ _ (by rw [hclensBits_length]; omega), hclensBits_length,
    getD_app_r _ _ _ (by omega),
    getD_app_r _ _ _ (by rw [List.length_replicate]; omega), List.length_replicate,
    getD_app_r _ _ _ (by simp only [List.length_cons, List.length_nil]; omega), getD_ofNat]
  simp only [List.length_cons, List.length_nil, Nat.testBit_two_pow_sub_one]
  simp; omega

theorem block_past (n : Nat)
    (hn : 32 + (3 * (4 + (8 - h) * 2 - 1 - 5) + 4) + (bodyBits buf final h inv).length +
        padsOf buf final h inv + 1 + h ≤ n) :
    (blockBits buf final h inv).getD n false = false := by
  apply getD_past
  rw [blockBits_length, hclensBits_length]
  omega

end regions
end Compress.Proofs.MetaLoc
