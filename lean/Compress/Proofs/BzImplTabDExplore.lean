/-
Layer C of `tables_agree_degenerate`: the invariant of `exploreCode`: the codes it inserts are
first accepted words or roots of subtrees without accepted words, pairwise incomparable, and
every long bit string starts with one of them.
-/
import Compress.Proofs.BzImplTabDBits
import Compress.Proofs.BzImplTabDExploreC

namespace Compress.Proofs.BzImpl.TabD
open Compress Compress.Bzip2 Compress.Prefix
open Compress.Bzip2.Impl (GStatus Explored)

theorem explore_inv {t : CTab} {n : Nat} (h : StOK t n) :
    ∀ (fuel : Nat) (c : Code) (ex : Explored), c.val < 2 ^ c.len →
      t.maxLen + 2 ≤ fuel + c.len →
      (∀ q x, c.word = q ++ x → x ≠ [] → St t q = .needBits) →
      ExOK t ex →
      (∀ a, Mem ex a → ¬ a.word <+: c.word ∧ ¬ c.word <+: a.word) →
      Post t c.word ex (Impl.exploreCode t fuel c ex) := by
  intro fuel
  induction fuel with
  | zero =>
    intro c ex hv hf hpar hex hinc
    exfalso
    have h1 := hpar (c.word.take (c.len - 1)) (c.word.drop (c.len - 1))
      (List.take_append_drop _ _).symm (by
        intro h3
        have := congrArg List.length h3
        simp only [List.length_drop, word_len, List.length_nil] at this
        omega)
    have h2 := h.need_len _ h1
    simp only [List.length_take, word_len] at h2
    omega
  | succ fuel ih =>
    intro c ex hv hf hpar hex hinc
    rw [Impl.exploreCode, getSymbol_eq_St]
    cases hs : St t c.word with
    | okay s => exact explore_okay h c ex s hv hpar hex hinc hs
    | invalid => exact absurd hs (h.no_invalid _)
    | maxBits =>
      refine ⟨hex, fun a ha => ha, fun a ha => Or.inl ha, fun _ => ⟨rfl, fun x => Or.inr ?_⟩, ?_⟩
      · rw [h.stable _ x (by rw [hs]; intro h1; cases h1)]; exact hs
      · intro h1; cases h1
    | needBits =>
      have hlen : c.word.length ≤ t.maxLen := h.need_len _ hs
      rw [word_len] at hlen
      have hw0 := word_child0 c hv
      obtain ⟨hw1, hv1⟩ := word_child1 c hv
      have hv0 : c.val < 2 ^ (c.len + 1) := by
        rw [Nat.pow_succ]; omega
      have P0 : Post t (c.word ++ [false]) ex
          (Impl.exploreCode t fuel { c with len := c.len + 1 } ex) := by
        rw [← hw0]
        refine ih _ ex hv0 (by show t.maxLen + 2 ≤ fuel + (c.len + 1); omega) ?_ hex ?_
        · rw [hw0]; exact par_child false hs hpar
        · rw [hw0]; exact fun a ha => inc_child false (hinc a ha)
      simp only []
      generalize hr0 : Impl.exploreCode t fuel { c with len := c.len + 1 } ex = r0 at P0 ⊢
      obtain ⟨b0, ex0⟩ := r0
      have P1 : Post t (c.word ++ [true]) ex0
          (Impl.exploreCode t fuel { c with len := c.len + 1, val := c.val ||| (1 <<< c.len) }
            ex0) := by
        rw [← hw1]
        refine ih _ ex0 hv1 (by show t.maxLen + 2 ≤ fuel + (c.len + 1); omega) ?_ P0.ok ?_
        · rw [hw1]; exact par_child true hs hpar
        · rw [hw1]
          intro a ha
          rcases P0.new a ha with h1 | h1
          · exact inc_child true (hinc a h1)
          · exact inc_sib (by decide) h1
      generalize hr1 : Impl.exploreCode t fuel
        { c with len := c.len + 1, val := c.val ||| (1 <<< c.len) } ex0 = r1 at P1 ⊢
      obtain ⟨b1, ex1⟩ := r1
      exact explore_need h c ex ex0 ex1 b0 b1 hv hpar hinc hs P0 P1

theorem explore_root (t : CTab) (n : Nat) (h : StOK t n) :
    let ex := (Impl.exploreCode t 23 { sym := 0 } { valid := Array.replicate 258 { sym := 0 } }).2
    (∀ c, Mem ex c → LeafOK t c) ∧
    (∀ a b, Mem ex a → Mem ex b → a ≠ b → ¬ a.word <+: b.word) ∧
    (∀ x : Bits, 21 ≤ x.length → ∃ a, Mem ex a ∧ a.word <+: x) := by
  have hempty : ∀ a, ¬ Mem { valid := Array.replicate 258 { sym := 0 } } a := by
    rintro a ⟨h0, h1 | h1⟩
    · simp only [Array.toList_replicate, List.mem_replicate] at h1
      rw [h1.2] at h0
      exact Nat.lt_irrefl _ h0
    · simp at h1
  have hex0 : ExOK t { valid := Array.replicate 258 { sym := 0 } } := by
    refine ⟨Array.size_replicate, ?_, fun a ha => absurd ha (hempty a),
      fun a _ ha => absurd ha (hempty a)⟩
    intro i a hi hpos
    have : a ∈ (Array.replicate 258 ({ sym := 0 } : Code)) := Array.mem_of_getElem? hi
    rw [Array.mem_replicate] at this
    rw [this.2] at hpos
    exact absurd hpos (Nat.lt_irrefl _)
  have hmax := h.max_le
  have P := explore_inv h 23 { sym := 0 } _ (by decide) (by show t.maxLen + 2 ≤ 23 + 0; omega)
    (by
      intro q x hq hx
      have hq' : ([] : Bits) = q ++ x := hq
      have := List.append_eq_nil_iff.1 hq'.symm
      exact absurd this.2 hx)
    hex0 (fun a ha => absurd ha (hempty a))
  have hw : ({ sym := 0 } : Code).word = [] := rfl
  rw [hw] at P
  intro ex
  refine ⟨P.ok.leaf, P.ok.inc, ?_⟩
  cases hb : (Impl.exploreCode t 23 { sym := 0 }
      { valid := Array.replicate 258 { sym := 0 } }).1 with
  | false =>
    exfalso
    obtain ⟨w, s, hws⟩ := h.root
    rcases (P.no hb).2 w with h1 | h1 <;>
    · rw [List.nil_append, hws] at h1; cases h1
  | true =>
    intro x hx
    exact (P.yes hb).2 x (by rw [List.nil_append]; omega)

end Compress.Proofs.BzImpl.TabD
