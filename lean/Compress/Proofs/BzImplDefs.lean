/-
Vocabulary of the refinement proof "Go-shaped model of bzip2.Reader (Bzip2/Impl.lean)
refines the format specification (Bzip2/Spec.lean)": the relation between the
model's error classes and the specification's verdicts, simulation of one parser
by another, the relation between a two-level decode table and libbzip2's
limit/base/perm tables, and the schedule-free big-step run (`drain`) that sits
between `Impl.read` under a schedule and `Bzip2.decode`.
-/
import Compress.Bzip2.Impl

namespace Compress.Proofs.BzImpl
open Compress Compress.Bzip2 Compress.Prefix
open Compress.Bzip2.Impl (Err M State)

/-- how an error of the model may relate to the verdict of the specification at the same
    point.  `early` is the one permitted disagreement (DESIGN.md, "a false alarm of the
    correspondence"): the completed decode table of the Go code rejects an unassigned code
    word as soon as it is determined, the specification only after the longest code length,
    so an input that ends inside such a code word is "corrupted" to one and "unexpected EOF"
    to the other. -/
inductive ErrRel : Err → Verdict → Prop
  | ueof : ErrRel .unexpectedEOF .unexpectedEOF
  | corrupt : ErrRel .corrupted .corrupt
  | early : ErrRel .corrupted .unexpectedEOF
  | deprecated : ErrRel .deprecated .deprecated

/-- exact agreement of classes. -/
inductive ErrEq : Err → Verdict → Prop
  | ueof : ErrEq .unexpectedEOF .unexpectedEOF
  | corrupt : ErrEq .corrupted .corrupt
  | deprecated : ErrEq .deprecated .deprecated

theorem ErrEq.rel {e : Err} {v : Verdict} (h : ErrEq e v) : ErrRel e v := by
  cases h <;> constructor

/-- simulation up to `ErrRel`: same value and same remaining input on success. -/
def Sim {α : Type} (x : M α) (y : Except Verdict α) : Prop :=
  match x, y with
  | .ok a, .ok b => a = b
  | .error (e, _), .error v => ErrRel e v
  | _, _ => False

/-- simulation with exactly matching classes. -/
def SimX {α : Type} (x : M α) (y : Except Verdict α) : Prop :=
  match x, y with
  | .ok a, .ok b => a = b
  | .error (e, _), .error v => ErrEq e v
  | _, _ => False

theorem SimX.sim {α : Type} {x : M α} {y : Except Verdict α} (h : SimX x y) : Sim x y := by
  unfold SimX at h; unfold Sim
  cases x with
  | ok a => cases y with
    | ok b => exact h
    | error v => exact h
  | error e => cases y with
    | ok b => exact h
    | error v => obtain ⟨e, r⟩ := e; exact ErrEq.rel h

/-- the way `Spec.readBlock` turns a missing field into a verdict. -/
def optE {α : Type} (o : Option α) : Except Verdict α := o.elim (.error .unexpectedEOF) .ok

/-- one symbol as `decodePrefix` reads it: `ReadSymbol`, then the guard `sym >= numSyms`. -/
def goSym (d : Decoder) (numSyms : Nat) (bits : Bits) : M (Nat × Bits) :=
  match Impl.readSymbol d bits with
  | .error e => .error e
  | .ok (s, rest) => if s ≥ numSyms then .error (.corrupted, rest) else .ok (s, rest)

/-- one symbol as the specification reads it. -/
def specSym (t : CTab) (numSyms : Nat) (bits : Bits) : Except Verdict (Nat × Bits) :=
  match t.decode numSyms bits with
  | .sym s rest => .ok (s, rest)
  | .eof => .error .unexpectedEOF
  | .bad => .error .corrupt

/-- the decode table `d` and libbzip2's tables `t` decode every bit string alike. -/
def TabRel (d : Decoder) (t : CTab) (numSyms : Nat) : Prop :=
  ∀ bits, Sim (goSym d numSyms bits) (specSym t numSyms bits)

/-- lists of tables that decode alike position by position (out-of-range positions compare the
    empty table with the default one). -/
def TabsRel (ds : List Decoder) (ts : List CTab) (numSyms : Nat) : Prop :=
  ds.length = ts.length ∧ ∀ i, TabRel (ds.getD i {}) (ts.getD i default) numSyms

/-- a length vector as `ReadPrefixCodes` can produce it for an alphabet of `numSyms`. -/
def LensOK (lens : List Nat) (numSyms : Nat) : Prop :=
  lens.length = numSyms ∧ 3 ≤ numSyms ∧ numSyms ≤ 258 ∧ ∀ l ∈ lens, 1 ≤ l ∧ l ≤ maxPrefixBits

/-- **named hypothesis / stage lemma (d)**: for the length vectors in `P`, the table
    `ReadPrefixCodes` builds (fast path or `handleDegenerateCodes`, then `Decoder.Init`)
    exists and decodes every bit string as libbzip2's tables for the same vector do. -/
def TablesAgreeOn (P : List Nat → Prop) : Prop :=
  ∀ lens numSyms, LensOK lens numSyms → P lens →
    ∃ d, Impl.treeOfLens lens = some d ∧ TabRel d (mkCTab lens) numSyms

def TablesAgree : Prop := TablesAgreeOn (fun _ => True)

/-- complete (Kraft-equal) vectors: the fast path. -/
def Complete (lens : List Nat) : Prop := Impl.kraftSum lens = 2 ^ maxPrefixBits

/-! ### the schedule-free run -/

/-- read the RLE1 stage to its end. -/
def rleAll (r : RleR) : RleR × List UInt8 × RleStatus :=
  RleR.read (256 * r.buf.size + r.lastCnt.toNat + 8) r []

/-- what `Read` does to the state around the bytes `out` that `rle.Read` returned with status `st`
    (the first lines of the loop body of `Impl.read`). -/
def afterRle (s : State) (rle' : RleR) (st : RleStatus) : State :=
  { s with rle := rle', err := if st = .corrupted ∧ s.err = none then some .corrupted else s.err }

/-- the whole remaining behaviour of a reader state: every byte it will still deliver and the
    error that ends it, obtained by always emptying the RLE1 stage before the next chunk. -/
def drain : Nat → State → List UInt8 × Err
  | 0, _ => ([], .corrupted)
  | fuel+1, s =>
    let (rle', out, st) := rleAll s.rle
    let s1 := afterRle s rle' st
    let s2 : State :=
      if out.length > 0 then { s1 with crc := crcUpdateGo s1.crc out, outOff := s1.outOff + out.length } else s1
    match s2.err with
    | some e => (out, e)
    | none =>
      match Impl.chunk s2 with
      | .error (e, _) => (out, e)
      | .ok s3 =>
        let r := drain fuel { s3 with inOff := Impl.offsetOf s3.total s3.bits }
        (out ++ r.1, r.2)

/-- the behaviour with the fuel `Impl.read` itself uses. -/
def beh (s : State) : List UInt8 × Err := drain (s.bits.length + 2) s

/-- invariant of reachable states that the CRC bookkeeping needs. -/
def CrcOK (s : State) : Prop := s.crc < 2 ^ 32

end Compress.Proofs.BzImpl
