/-
Lemmas behind C20 (H2): `GenerateLengths` returns a complete, length-limited
assignment.
-/
import Compress.Prefix.Spec

namespace Compress.Proofs.PrefixLengths
open Compress Compress.Prefix

/-- H2 (shape): one length per symbol. -/
theorem generateLengths_length (counts : List Nat) (maxBits : Nat) (lens : List Nat)
    (h : generateLengths counts maxBits = some lens) : lens.length = counts.length := by
  sorry

/-- H2 (soundness): whatever `GenerateLengths` returns for two or more symbols is
    a complete code within the limit. -/
theorem generateLengths_sound (counts : List Nat) (maxBits : Nat) (lens : List Nat)
    (hn : 2 ≤ counts.length) (h : generateLengths counts maxBits = some lens) :
    KraftComplete lens ∧ ∀ l ∈ lens, 1 ≤ l ∧ l ≤ maxBits := by
  sorry

/-- H2 (monotone): more frequent symbols never get longer codes. `lens[k]` is
    the length of the k-th symbol in ascending count order. -/
theorem generateLengths_monotone (counts : List Nat) (maxBits : Nat) (lens : List Nat)
    (h : generateLengths counts maxBits = some lens) :
    ∀ i j, i < j → j < lens.length → counts.getD i 0 < counts.getD j 0 → lens.getD j 0 ≤ lens.getD i 0 := by
  sorry

/-- H2 (totality): for ascending counts and a limit that can hold the alphabet,
    `GenerateLengths` returns (the Go code neither panics nor underflows). -/
theorem generateLengths_total (counts : List Nat) (maxBits : Nat)
    (hs : (counts.zip counts.tail).all (fun (a, b) => a ≤ b) = true)
    (hfit : counts.length ≤ 2 ^ maxBits) (hm : maxBits ≤ valueBits) (h1 : 1 ≤ maxBits) :
    ∃ lens, generateLengths counts maxBits = some lens := by
  sorry

end Compress.Proofs.PrefixLengths
