/-
Lemmas behind C20 (H2): `GenerateLengths` returns a complete, length-limited
assignment.

The tree part (two-queue construction) is analysed in `PLTree`, the histogram
fix-up (`treeRotate`/`fixLevel`/`reassign`) in `PLHist`.
-/
import Compress.Prefix.Spec
import Compress.Proofs.PLTree
import Compress.Proofs.PLHist

set_option linter.unusedSimpArgs false

namespace Compress.Proofs.PrefixLengths
open Compress Compress.Prefix
open Compress.Proofs.PLTree Compress.Proofs.PLHist

/-! ### unfolding `generateLengths` -/

/-- the initial histogram built from the tree depths. -/
def mkHist (lens : List Nat) : List Int :=
  (List.range (max (valueBits + 1) (lens.foldl max 0 + 1))).map
    fun l => ((lens.filter (· == l)).length : Int)

/-- the body of `generateLengths` for two or more symbols. -/
def glBody (counts : List Nat) (maxBits : Nat) : Option (List Nat) :=
  if !(counts.zip counts.tail).all (fun (a, b) => a ≤ b) then none
  else
    match buildTree (counts.length + 1) ((List.range counts.length).zip counts) [] with
    | none => none
    | some t =>
      let lens := treeLens t counts.length
      if lens.all (· ≤ maxBits) then some lens
      else
        let hist := mkHist lens
        match fixLevel maxBits (hist.length + counts.length * (lens.foldl max 0 + 2) + 8) hist
            (hist.length - 1) with
        | none => none
        | some h => if h.any (· < 0) then none else reassign counts.length h

theorem gl_unfold (counts : List Nat) (maxBits : Nat) (hn : 2 ≤ counts.length) :
    generateLengths counts maxBits = glBody counts maxBits := by
  match counts, hn with
  | a :: b :: rest, _ => rfl

/-- the two ways `generateLengths` can return. -/
theorem gl_cases (counts : List Nat) (maxBits : Nat) (lens : List Nat) (hn : 2 ≤ counts.length)
    (h : generateLengths counts maxBits = some lens) :
    ∃ t, Good counts.length t ∧
      ((lens = treeLens t counts.length ∧ ∀ l ∈ lens, l ≤ maxBits) ∨
       (∃ fuel hh, fixLevel maxBits fuel (mkHist (treeLens t counts.length))
            ((mkHist (treeLens t counts.length)).length - 1) = some hh ∧
          hh.any (· < 0) = false ∧ reassign counts.length hh = some lens)) := by
  rw [gl_unfold _ _ hn, glBody] at h
  split at h
  · cases h
  · split at h
    · cases h
    · rename_i t ht
      have hg : Good counts.length t :=
        buildTree_good counts.length _ _ [] t (inv_init counts) (Or.inr (by simp; omega)) ht
      refine ⟨t, hg, ?_⟩
      simp only at h
      split at h
      · rename_i hall
        cases h
        exact Or.inl ⟨rfl, by simpa using hall⟩
      · split at h
        · cases h
        · rename_i hh hfix
          split at h
          · cases h
          · rename_i hneg
            exact Or.inr ⟨_, hh, hfix, by simpa using hneg, h⟩

/-! ### small arithmetic facts -/

theorem kraftScaled_eq_sum (lens : List Nat) (m : Nat) :
    kraftScaled lens m = (lens.map (fun l => 2 ^ (m - l))).sum := by
  simp [kraftScaled, List.sum_eq_foldl]

theorem foldl_max_ge (lens : List Nat) (a : Nat) :
    a ≤ lens.foldl max a ∧ ∀ x ∈ lens, x ≤ lens.foldl max a := by
  induction lens generalizing a with
  | nil => simp
  | cons y ys ih =>
    simp only [List.foldl_cons, List.mem_cons]
    have := ih (max a y)
    refine ⟨by omega, ?_⟩
    rintro x (rfl | hx)
    · omega
    · exact this.2 x hx

theorem sum_cross (lens : List Nat) (m M : Nat) (h1 : ∀ l ∈ lens, l ≤ m) (h2 : ∀ l ∈ lens, l ≤ M) :
    (lens.map (fun l => 2 ^ (m - l))).sum * 2 ^ M = (lens.map (fun l => 2 ^ (M - l))).sum * 2 ^ m := by
  induction lens with
  | nil => simp
  | cons x xs ih =>
    have := ih (fun l hl => h1 l (by simp [hl])) (fun l hl => h2 l (by simp [hl]))
    have hx1 := h1 x (by simp)
    have hx2 := h2 x (by simp)
    simp only [List.map_cons, List.sum_cons, Nat.add_mul, this]
    congr 1
    rw [← Nat.pow_add, ← Nat.pow_add]
    congr 1; omega

/-- Kraft equality at one scale gives it at every scale. -/
theorem kraftComplete_of_one (lens : List Nat) (M : Nat) (hM : ∀ l ∈ lens, l ≤ M)
    (h : (lens.map (fun l => 2 ^ (M - l))).sum = 2 ^ M) : KraftComplete lens := by
  intro m hm
  rw [kraftScaled_eq_sum]
  have := sum_cross lens m M hm hM
  rw [h, Nat.mul_comm (2 ^ M) (2 ^ m)] at this
  exact Nat.eq_of_mul_eq_mul_right (Nat.pow_pos (by omega)) this

theorem sum_ge_length (lens : List Nat) (M : Nat) :
    lens.length ≤ (lens.map (fun l => 2 ^ (M - l))).sum := by
  induction lens with
  | nil => simp
  | cons x xs ih =>
    have : 0 < 2 ^ (M - x) := Nat.pow_pos (by omega)
    simp only [List.map_cons, List.sum_cons, List.length_cons]; omega

theorem sum_ge_of_mem (lens : List Nat) (M x : Nat) (hx : x ∈ lens) :
    2 ^ (M - x) + (lens.length - 1) ≤ (lens.map (fun l => 2 ^ (M - l))).sum := by
  induction lens with
  | nil => cases hx
  | cons y ys ih =>
    simp only [List.map_cons, List.sum_cons, List.length_cons]
    rcases List.mem_cons.1 hx with rfl | hx'
    · have := sum_ge_length ys M; omega
    · have := ih hx'
      have : 0 < 2 ^ (M - y) := Nat.pow_pos (by omega)
      have : 0 < ys.length := List.length_pos_of_mem hx'
      omega

theorem sum_le_mul (lens : List Nat) (b : Nat) (h : ∀ l ∈ lens, l ≤ b) : lens.sum ≤ lens.length * b := by
  induction lens with
  | nil => simp
  | cons x xs ih =>
    have := ih (fun l hl => h l (by simp [hl]))
    have := h x (by simp)
    simp only [List.sum_cons, List.length_cons, Nat.add_mul]; omega

/-! ### the initial histogram -/

theorem mkHist_length (lens : List Nat) :
    (mkHist lens).length = max (valueBits + 1) (lens.foldl max 0 + 1) := by
  simp [mkHist]

theorem histGet_mkHist (lens : List Nat) : histGet (mkHist lens) = cnt lens := by
  funext l
  by_cases hl : l < (mkHist lens).length
  · have hl' := hl
    rw [mkHist_length] at hl'
    simp only [histGet, mkHist, List.getD_eq_getElem?_getD]
    rw [List.getElem?_map, List.getElem?_range hl']
    rfl
  · rw [histGet_of_le _ _ (by omega)]
    rw [mkHist_length] at hl
    have : ¬ (0 < cnt lens l) := by
      rw [cnt_pos_iff]
      intro hmem
      have := (foldl_max_ge lens 0).2 l hmem
      omega
    have := cnt_nonneg lens l
    omega

theorem le_top (lens : List Nat) : ∀ l ∈ lens, l ≤ (mkHist lens).length - 1 := by
  intro l hl
  have := (foldl_max_ge lens 0).2 l hl
  rw [mkHist_length]; omega

theorem nonneg_of_any (h : List Int) (hneg : h.any (· < 0) = false) : ∀ j, 0 ≤ histGet h j := by
  intro j
  by_cases hj : j < h.length
  · have hmem : h[j] ∈ h := List.getElem_mem hj
    have : ¬ (h[j] < 0) := by
      intro hlt
      have : h.any (· < 0) = true := List.any_eq_true.2 ⟨_, hmem, by simpa using hlt⟩
      rw [hneg] at this; cases this
    simp only [histGet, List.getD_eq_getElem?_getD, List.getElem?_eq_getElem hj, Option.getD_some]
    omega
  · rw [histGet_of_le _ _ (by omega)]; omega

theorem any_of_nonneg (h : List Int) (hnn : ∀ j, 0 ≤ histGet h j) : h.any (· < 0) = false := by
  rw [Bool.eq_false_iff]
  intro hany
  obtain ⟨x, hx, hlt⟩ := List.any_eq_true.1 hany
  obtain ⟨j, hj, rfl⟩ := List.getElem_of_mem hx
  have := hnn j
  simp only [histGet, List.getD_eq_getElem?_getD, List.getElem?_eq_getElem hj, Option.getD_some] at this
  simp at hlt; omega

/-! ### the limited branch -/

/-- everything we know when the fix-up branch returns `lens`. -/
theorem limited_facts (n maxBits : Nat) (t : HTree) (hg : Good n t) (fuel : Nat) (hh : List Int)
    (lens : List Nat)
    (hfix : fixLevel maxBits fuel (mkHist (treeLens t n)) ((mkHist (treeLens t n)).length - 1) = some hh)
    (hneg : hh.any (· < 0) = false) (hre : reassign n hh = some lens) :
    lens.length = n ∧ lens.Pairwise (· ≥ ·) ∧ (∀ l ∈ lens, l ≤ maxBits) ∧
      ∀ M, M = (mkHist (treeLens t n)).length - 1 →
        (∀ l ∈ lens, l ≤ M) ∧ (lens.map (fun l => 2 ^ (M - l))).sum = 2 ^ M := by
  have hLpos : 0 < (mkHist (treeLens t n)).length := by rw [mkHist_length]; omega
  obtain ⟨hlen, hS, habove⟩ := fixLevel_sound maxBits fuel _ _ hh hfix (by omega) (fun j hj => by
    rw [histGet_of_le _ _ (by omega)]; omega)
  have hnn := nonneg_of_any hh hneg
  obtain ⟨r1, r2, r3⟩ := go_spec hh 0 n [] lens hre
  have hcnt : ∀ l, cnt lens l = histGet hh l := by
    intro l
    have := r2 l
    have := hnn l
    simp only [cnt_nil, Nat.zero_le, if_true, Nat.sub_zero] at *
    omega
  have hmem : ∀ l ∈ lens, l ≤ maxBits ∧ l ≤ (mkHist (treeLens t n)).length - 1 := by
    intro l hl
    have hpos := (cnt_pos_iff lens l).2 hl
    rw [hcnt] at hpos
    constructor
    · apply Classical.byContradiction
      intro hgt
      have := habove l (by omega)
      omega
    · apply Classical.byContradiction
      intro hgt
      rw [histGet_of_le _ _ (by omega)] at hpos
      omega
  refine ⟨by simpa using r1, r3 (by simp) (by simp), fun l hl => (hmem l hl).1, ?_⟩
  intro M hM
  subst hM
  refine ⟨fun l hl => (hmem l hl).2, ?_⟩
  have e1 : S (cnt lens) ((mkHist (treeLens t n)).length - 1)
      = S (histGet hh) ((mkHist (treeLens t n)).length - 1) := S_congr _ (fun j _ => hcnt j)
  rw [S_cnt _ _ (fun l hl => (hmem l hl).2), hS, histGet_mkHist,
    S_cnt _ _ (le_top _), hg.kraft _ (le_top _)] at e1
  exact_mod_cast e1

/-! ### the theorems -/

/-- H2 (shape): one length per symbol. -/
theorem generateLengths_length (counts : List Nat) (maxBits : Nat) (lens : List Nat)
    (h : generateLengths counts maxBits = some lens) : lens.length = counts.length := by
  match counts, h with
  | [], h => simp [generateLengths] at h; subst h; rfl
  | [_], h => simp [generateLengths] at h; subst h; rfl
  | a :: b :: rest, h =>
    obtain ⟨t, hg, hc⟩ := gl_cases _ _ _ (by simp) h
    rcases hc with ⟨rfl, _⟩ | ⟨fuel, hh, hfix, hneg, hre⟩
    · simp [treeLens]
    · exact (limited_facts _ _ t hg fuel hh lens hfix hneg hre).1

/-- H2 (soundness): whatever `GenerateLengths` returns for two or more symbols is
    a complete code within the limit. -/
theorem generateLengths_sound (counts : List Nat) (maxBits : Nat) (lens : List Nat)
    (hn : 2 ≤ counts.length) (h : generateLengths counts maxBits = some lens) :
    KraftComplete lens ∧ ∀ l ∈ lens, 1 ≤ l ∧ l ≤ maxBits := by
  obtain ⟨t, hg, hc⟩ := gl_cases _ _ _ hn h
  rcases hc with ⟨rfl, hle⟩ | ⟨fuel, hh, hfix, hneg, hre⟩
  · refine ⟨?_, fun l hl => ⟨hg.lens_pos l hl, hle l hl⟩⟩
    intro m hm
    rw [kraftScaled_eq_sum]
    exact hg.kraft m hm
  · obtain ⟨hlen, _, hle, hK⟩ := limited_facts _ _ t hg fuel hh lens hfix hneg hre
    obtain ⟨hM, hsum⟩ := hK _ rfl
    refine ⟨kraftComplete_of_one lens _ hM hsum, fun l hl => ⟨?_, hle l hl⟩⟩
    -- a symbol of length 0 would already exhaust the Kraft budget
    apply Classical.byContradiction
    intro hl0
    have hl0 : l = 0 := by omega
    subst hl0
    have := sum_ge_of_mem lens ((mkHist (treeLens t counts.length)).length - 1) 0 hl
    rw [hsum] at this
    simp only [Nat.sub_zero] at this
    omega

/-- H2 (monotone, strong form): the returned lengths are non-increasing along
    the (count-sorted) positions, whatever the counts are.  In the unlimited
    branch this is a structural property of the two-queue construction (leaves
    and inner nodes are dequeued FIFO, so depth is non-increasing in dequeue
    order); in the limited branch it holds by construction of `reassign`. -/
theorem generateLengths_antitone (counts : List Nat) (maxBits : Nat) (lens : List Nat)
    (h : generateLengths counts maxBits = some lens) :
    ∀ i j, i < j → j < lens.length → lens.getD j 0 ≤ lens.getD i 0 := by
  match counts, h with
  | [], h => simp [generateLengths] at h; subst h; intro i j _ hj; simp at hj
  | [_], h =>
    simp [generateLengths] at h; subst h; intro i j hij hj
    simp at hj; omega
  | a :: b :: rest, h =>
    obtain ⟨t, hg, hc⟩ := gl_cases _ _ _ (by simp) h
    rcases hc with ⟨rfl, _⟩ | ⟨fuel, hh, hfix, hneg, hre⟩
    · intro i j hij hj
      simp only [treeLens, List.length_map, List.length_range] at hj
      have hi : i < (a :: b :: rest).length := by omega
      simp only [treeLens, List.getD_eq_getElem?_getD, List.getElem?_map,
        List.getElem?_range hj, List.getElem?_range hi, Option.map_some, Option.getD_some]
      exact hg.lens_anti hij hj
    · have hp := (limited_facts _ _ t hg fuel hh lens hfix hneg hre).2.1
      intro i j hij hj
      have hi : i < lens.length := by omega
      simp only [List.getD_eq_getElem?_getD, List.getElem?_eq_getElem hj,
        List.getElem?_eq_getElem hi, Option.getD_some]
      exact List.pairwise_iff_getElem.1 hp i j hi hj hij

/-- H2 (monotone): more frequent symbols never get longer codes. `lens[k]` is
    the length of the k-th symbol in ascending count order. -/
theorem generateLengths_monotone (counts : List Nat) (maxBits : Nat) (lens : List Nat)
    (h : generateLengths counts maxBits = some lens) :
    ∀ i j, i < j → j < lens.length → counts.getD i 0 < counts.getD j 0 → lens.getD j 0 ≤ lens.getD i 0 :=
  fun i j hij hj _ => generateLengths_antitone counts maxBits lens h i j hij hj

/-- H2 (totality): for ascending counts and a limit that can hold the alphabet,
    `GenerateLengths` returns (the Go code neither panics nor underflows).
    (`hm` is not needed by the proof; it is kept because it is part of the C20
    statement.) -/
theorem generateLengths_total (counts : List Nat) (maxBits : Nat)
    (hs : (counts.zip counts.tail).all (fun (a, b) => a ≤ b) = true)
    (hfit : counts.length ≤ 2 ^ maxBits) (hm : maxBits ≤ valueBits) (h1 : 1 ≤ maxBits) :
    ∃ lens, generateLengths counts maxBits = some lens := by
  have _ := hm
  match counts, hs, hfit with
  | [], _, _ => exact ⟨[], rfl⟩
  | [_], _, _ => exact ⟨[0], rfl⟩
  | a :: b :: rest, hs, hfit =>
    rw [gl_unfold _ _ (by simp), glBody]
    simp only [hs, Bool.not_true, Bool.false_eq_true, if_false]
    obtain ⟨t, ht⟩ := buildTree_isSome ((a :: b :: rest).length + 1)
      ((List.range (a :: b :: rest).length).zip (a :: b :: rest)) [] (by simp) (by simp)
    have hg : Good (a :: b :: rest).length t :=
      buildTree_good _ _ _ [] t (inv_init _) (Or.inr (by simp)) ht
    generalize (a :: b :: rest) = counts at *
    simp only [ht]
    split
    · exact ⟨_, rfl⟩
    · -- the fix-up branch
      have hLpos : 0 < (mkHist (treeLens t counts.length)).length := by rw [mkHist_length]; omega
      have hlenT : (treeLens t counts.length).length = counts.length := by simp [treeLens]
      have fi : FI (counts.length : Int) (histGet (mkHist (treeLens t counts.length)))
          ((mkHist (treeLens t counts.length)).length - 1) := by
        rw [histGet_mkHist]
        constructor
        · exact cnt_nonneg _
        · intro j hj
          have : ¬ (0 < cnt (treeLens t counts.length) j) := by
            rw [cnt_pos_iff]
            intro hmem
            have := le_top _ j hmem
            omega
          have := cnt_nonneg (treeLens t counts.length) j
          omega
        · rw [S_cnt _ _ (le_top _), hg.kraft _ (le_top _)]
          exact_mod_cast rfl
        · rw [C_cnt _ _ (le_top _), hlenT]
      have hfuel : W (histGet (mkHist (treeLens t counts.length)))
            ((mkHist (treeLens t counts.length)).length - 1) +
            (((mkHist (treeLens t counts.length)).length - 1 : Nat) : Int) + 1 ≤
          (((mkHist (treeLens t counts.length)).length +
            counts.length * ((treeLens t counts.length).foldl max 0 + 2) + 8 : Nat) : Int) := by
        rw [histGet_mkHist, W_cnt _ _ (le_top _)]
        have h1 := sum_le_mul (treeLens t counts.length) ((treeLens t counts.length).foldl max 0)
          (foldl_max_ge _ 0).2
        rw [hlenT] at h1
        have h2 : counts.length * ((treeLens t counts.length).foldl max 0 + 2) =
            counts.length * (treeLens t counts.length).foldl max 0 + counts.length * 2 := Nat.mul_add _ _ _
        omega
      obtain ⟨h', e, hlen', hnn, hC⟩ := fixLevel_total maxBits (counts.length : Int)
        (by exact_mod_cast hfit) h1 _ _ _ fi (by omega) hfuel
      simp only [e, any_of_nonneg h' hnn, Bool.false_eq_true, if_false]
      have hne : h' ≠ [] := by
        intro e0; rw [e0] at hlen'; simp at hlen'; omega
      have hsum := C_histGet h' hne hnn
      rw [hlen'] at hsum
      rw [hsum] at hC
      exact go_isSome h' 0 counts.length [] (by exact_mod_cast hC)

end Compress.Proofs.PrefixLengths
