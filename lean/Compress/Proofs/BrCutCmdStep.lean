/-
Prefix-monotonicity of the Brotli specification decoder: one command of a compressed
meta-block as a step function, so that `readCommands` is "step, then continue".
-/
import Compress.Proofs.BrCutHeader

namespace Compress.Proofs.BrCut
open Compress Compress.Brotli

/-! ### "`x` is `y` followed by `K`", proved by walking two copies of a `do` block -/

theorem dec_bind_assoc {α β γ : Type} (x : Dec α) (f : α → Dec β) (g : β → Dec γ) :
    (x >>= f) >>= g = x >>= fun a => f a >>= g := by
  funext s
  simp only [bind_apply]
  cases h : x s with
  | mk r s1 => cases r <;> rfl

def Decomp {β γ : Type} (x : Dec β) (y : Dec γ) (K : γ → Dec β) : Prop := x = y >>= K

theorem Decomp.bind {α β γ : Type} {x : Dec α} {f : α → Dec β} {g : α → Dec γ} {K : γ → Dec β}
    (h : ∀ a, Decomp (f a) (g a) K) : Decomp (x >>= f) (x >>= g) K := by
  unfold Decomp at *
  rw [dec_bind_assoc]
  congr 1
  funext a
  exact h a

theorem Decomp.rfl' {β γ : Type} {y : Dec γ} {K : γ → Dec β} : Decomp (y >>= K) y K := rfl

theorem Decomp.ite {β γ : Type} {c : Prop} [Decidable c] {x1 x2 : Dec β} {y1 y2 : Dec γ} {K : γ → Dec β}
    (h1 : Decomp x1 y1 K) (h2 : Decomp x2 y2 K) :
    Decomp (if c then x1 else x2) (if c then y1 else y2) K := by
  split
  · exact h1
  · exact h2

theorem dec_bind_pure {α : Type} (x : Dec α) : (x >>= pure) = x := by
  funext s
  simp only [bind_apply]
  cases h : x s with
  | mk r s1 => cases r <;> rfl

/-- a final action of the loop body, which the step function follows by its verdict. -/
theorem Decomp.tail {α γ : Type} {x : Dec α} {g : α → γ} {K : γ → Dec α}
    (h : ∀ a, K (g a) = pure a) : Decomp x (x >>= fun a => pure (g a)) K := by
  unfold Decomp
  rw [dec_bind_assoc]
  have : (fun a => (pure (g a) : Dec γ) >>= K) = pure := by
    funext a
    exact h a
  rw [this, dec_bind_pure]

section Tactic
open Lean Elab Tactic Meta

def dcHeadKind : TacticM String := withMainContext do
  let g ← instantiateMVars (← getMainTarget)
  let g := g.consumeMData
  if !g.isAppOf ``Decomp then return "none"
  let args := g.getAppArgs
  if args.size < 5 then return "none"
  let x := args[2]!.consumeMData
  if x.isLet then return "let"
  if x.isHeadBetaTarget then return "beta"
  match x.getAppFn.consumeMData with
  | .const n _ =>
    if n == ``ite then return "ite"
    else if n == ``Bind.bind then return "bind"
    else if Lean.Meta.isMatcherCore (← getEnv) n then return "match"
    else return "leaf"
  | _ => return "leaf"

/-- generalize the discriminants of the `match` at the head of the left computation, so that
    `split` treats the copy on the right in the same way. -/
def dcGeneralizeDiscrs : TacticM Unit := withMainContext do
  let g ← instantiateMVars (← getMainTarget)
  let x := g.consumeMData.getAppArgs[2]!.consumeMData
  let some app ← matchMatcherApp? x | return
  let mut mv ← getMainGoal
  for d in app.discrs do
    unless d.isFVar do
      let (_, mv') ← mv.generalize #[{ expr := d }]
      mv := mv'
  replaceMainGoal [mv]

/-- both computations start with a `let`: if the values agree, continue with an arbitrary value;
    otherwise (join points) substitute the values. -/
def dcLet : TacticM Unit := withMainContext do
  let mv ← getMainGoal
  let g := (← instantiateMVars (← mv.getType)).consumeMData
  let fn := g.getAppFn
  let args := g.getAppArgs
  let x := args[2]!.consumeMData
  let y := args[3]!.consumeMData
  match x, y with
  | .letE n t v b _, .letE _ t' v' b' _ =>
    if (← isDefEq t t') && (← isDefEq v v') then
      let newTarget := Expr.forallE n t (mkAppN fn ((args.set! 2 b).set! 3 b')) .default
      let newMV ← mkFreshExprSyntheticOpaqueMVar newTarget
      mv.assign (mkApp newMV v)
      let (_, mv') ← newMV.mvarId!.intro n
      replaceMainGoal [mv']
    else
      let newTarget := mkAppN fn ((args.set! 2 (b.instantiate1 v)).set! 3 (b'.instantiate1 v'))
      let mv' ← mv.replaceTargetDefEq newTarget
      replaceMainGoal [mv']
  | _, _ => throwError "dcLet: the two sides are out of step"

def dcBeta : TacticM Unit := withMainContext do
  let mv ← getMainGoal
  let g := (← instantiateMVars (← mv.getType)).consumeMData
  let fn := g.getAppFn
  let args := g.getAppArgs
  let newTarget := mkAppN fn ((args.set! 2 args[2]!.consumeMData.headBeta).set! 3 args[3]!.consumeMData.headBeta)
  let mv' ← mv.replaceTargetDefEq newTarget
  replaceMainGoal [mv']

elab "dc_step" : tactic => do
  match ← dcHeadKind with
  | "let" => dcLet
  | "beta" => dcBeta
  | "ite" => evalTactic (← `(tactic| refine Decomp.ite ?_ ?_))
  | "match" => do
    dcGeneralizeDiscrs
    evalTactic (← `(tactic| split <;> try (simp only []; done)))
  | "bind" => evalTactic (← `(tactic| refine Decomp.bind (fun _ => ?_)))
  | "leaf" => evalTactic (← `(tactic| first | exact rfl | exact Decomp.tail (fun _ => rfl)))
  | _ => throwError "dc_step: not a Decomp goal"

end Tactic

/-- one command: `inl` — the meta-block is complete; `inr` — more commands follow. -/
def cmdStep (dict : ByteArray) (windowSize : Nat) (h : Header) (c : Cmd) : Dec (Cmd ⊕ Cmd) := do
    let cmdB ← nextInBlock c.cmdB
    let sym ← readSymbol (h.treesI.getD cmdB.cur default)
    let (insBase, copyBase, implicitZero) := commandCells.getD (sym / 64) default
    let insertLen ← readRange insertRanges (insBase + sym % 64 / 8)
    let copyLen ← readRange copyRanges (copyBase + sym % 8)
    if insertLen > c.mlen then do
      let _ ← knownCorrupt (readLiterals h insertLen c.litB)
      corrupt
    else do
    let litB ← readLiterals h insertLen c.litB
    let c := { c with cmdB, litB }
    if insertLen = c.mlen then pure (.inl { c with mlen := 0 })
    else do
      let c := { c with mlen := c.mlen - insertLen }
      let (c, dsym, dist?) ←
        if implicitZero then pure (c, 0, some c.d1)
        else do
          let distB ← nextInBlock c.distB
          let c := { c with distB }
          let tree := h.treesD.getD (h.cmapD.getD (4 * distB.cur + distanceContext copyLen) 0) default
          let dsym ← readSymbol tree
          let d ← readDistance h c dsym
          pure (c, dsym, d)
      match dist? with
      | none => corrupt
      | some dist =>
        let maxDist := min (← outputSize) windowSize
        let produced ←
          if dist ≤ maxDist then do
            copyBack dist copyLen
            pure copyLen
          else
            match dictionaryWord dict copyLen (dist - maxDist - 1) with
            | none => corrupt
            | some w => do
              emitAll w
              pure w.length
        let c := if dsym = 0 ∨ dist > maxDist then c else { c with d1 := dist, d2 := c.d1, d3 := c.d2, d4 := c.d3 }
        if produced ≥ c.mlen then
          if produced > c.mlen then corrupt else pure (.inl { c with mlen := 0 })
        else
          pure (.inr { c with mlen := c.mlen - produced })

def cmdCont (k : Cmd → Dec Cmd) : Cmd ⊕ Cmd → Dec Cmd
  | .inl c => pure c
  | .inr c => k c

theorem readCommands_succ (dict : ByteArray) (windowSize : Nat) (h : Header) (fuel : Nat) (c : Cmd) :
    readCommands dict windowSize h (fuel + 1) c =
      cmdStep dict windowSize h c >>= cmdCont (readCommands dict windowSize h fuel) := by
  show Decomp _ _ _
  rw [readCommands]
  unfold cmdStep
  repeat' dc_step

end Compress.Proofs.BrCut
