/-
C02 layer (f2): the bit-reading heads of `startCommand` and `readDistance`
against the corresponding pieces of the specification's command.
-/
import Compress.Proofs.BrImplCmdLabels

namespace Compress.Proofs.BrImpl
open Compress Compress.Brotli Compress.Brotli.Impl Compress.Window Compress.Proofs.Window

theorem readRange_eq (tbl : Array Range) (code : Nat) (h : code < tbl.size) :
    readRange tbl code =
      Brotli.readBits (tbl.getD code default).extra >>= fun e => pure ((tbl.getD code default).base + e) := by
  unfold readRange
  have : tbl.getD code default = tbl[code] := by simp [Array.getD_eq_getD_getElem?, h]
  rw [Array.getElem?_eq_getElem h, this]

theorem readRange_sim (tbl : Array Range) (code : Nat) (h : code < tbl.size) :
    SimRel (fun a b => b = (tbl.getD code default).base + a) (Impl.readBits (tbl.getD code default).extra)
      (readRange tbl code) := by
  rw [readRange_eq tbl code h]
  exact SimRel.map_right (readBits_sim _) (fun a b hab => by rw [hab])

theorem commandCells_le : ∀ q, q < 11 →
    (commandCells.getD q default).1 ≤ 16 ∧ (commandCells.getD q default).2.1 ≤ 16 := by decide

theorem copyRanges_base : ∀ i, i < 24 → 2 ≤ (copyRanges.getD i default).base := by decide

theorem insertRanges_size : insertRanges.size = 24 := by decide
theorem copyRanges_size : copyRanges.size = 24 := by decide

/-- what `iac_sim` relates. -/
def IacRel (s : State) (c : Cmd) (a : BlockDec × Nat × Nat × Nat) (b : Blocks × Nat × Nat × Bool) : Prop :=
  NextRel s.iacBlk c.cmdB a.1 b.1 ∧
    b.2.1 = (iacLUT.getD a.2.1 default).1.base + a.2.2.1 ∧
    b.2.2.1 = (iacLUT.getD a.2.1 default).2.base + a.2.2.2 ∧
    b.2.2.2 = decide (a.2.1 < 128) ∧ 2 ≤ b.2.2.1

theorem iac_sim {s : State} {h : Header} {c : Cmd} (hr : CmdRel s h c) :
    SimRel (IacRel s c) (iacM s) (headIAC h c) := by
  unfold iacM headIAC
  refine SimRel.bind (nextM_sim _ _ hr.iac) fun bd b hb => ?_
  obtain ⟨hrel, hpref, hnt, hcnt⟩ := hb
  have hcur : bd.type0 = b.cur := hrel.2.2.2.1
  have hlt : b.cur < h.treesI.size := by rw [hr.hdr.iacTrees.2.1, ← hnt]; exact hrel.2.2.2.2.2.1
  have htree := hr.hdr.iacTrees.2.2 _ hlt
  rw [← hpref, ← hcur] at htree
  rw [← hcur]
  refine SimRel.bind (Blk.codeRel_sim htree) fun sym sym' hs => ?_
  obtain ⟨rfl, hs704⟩ := hs
  have hlut := iacLUT_eq sym hs704
  have hz := iacZero_eq sym hs704
  have hcl := commandCells_le (sym / 64) (by omega)
  rcases hcc : commandCells.getD (sym / 64) default with ⟨insBase, copyBase, izz⟩
  rw [hcc] at hlut hz hcl
  dsimp only at hlut hz hcl ⊢
  have hb2 := copyRanges_base (copyBase + sym % 8) (by omega)
  rw [hlut]
  dsimp only
  refine SimRel.bind (readRange_sim _ _ (by rw [insertRanges_size]; omega)) fun ie a hie => ?_
  subst hie
  refine SimRel.bind (readRange_sim _ _ (by rw [copyRanges_size]; omega)) fun ce cl hce => ?_
  subst hce
  refine SimRel.pure ?_
  unfold IacRel
  dsimp only
  rw [hlut]
  exact ⟨⟨hrel, hpref, hnt, hcnt⟩, rfl, rfl, hz, by omega⟩

theorem distanceContext_lt (cl : Nat) : distanceContext cl < 4 := by
  unfold distanceContext
  split <;> omega

/-- what `dist_sim` relates. -/
def DistRel (s : State) (c : Cmd) (a : BlockDec × Nat × Int) (b : Cmd × Nat × Option Nat) : Prop :=
  NextRel s.distBlk c.distB a.1 b.1.distB ∧ b.1 = { c with distB := b.1.distB } ∧ a.2.1 = b.2.1 ∧
    ((a.2.2 ≤ 0 ∧ b.2.2 = none) ∨ (0 < a.2.2 ∧ b.2.2 = some a.2.2.toNat))

theorem dist_sim {s : State} {h : Header} {c : Cmd} {cl : Nat} (hr : CmdRel s h c)
    (dpos : 0 < c.d1 ∧ 0 < c.d2 ∧ 0 < c.d3 ∧ 0 < c.d4) (hcl : s.cpyLen = cl) (h2 : 2 ≤ cl) :
    SimRel (DistRel s c) (distM s) (distHead h c cl false) := by
  unfold distM distHead
  simp only [Bool.false_eq_true, if_false]
  refine SimRel.bind (nextM_sim _ _ hr.dist) fun bd b hb => ?_
  obtain ⟨hrel, hpref, hnt, hcnt⟩ := hb
  have hcur : bd.type0 = b.cur := hrel.2.2.2.1
  have hlt : b.cur < c.distB.ntypes := by rw [← hnt]; exact hrel.2.2.2.2.2.1
  have hctx := distanceContext_lt cl
  have hv : h.cmapD.getD (4 * b.cur + distanceContext cl) 0 < h.treesD.size :=
    getD_mem_lt (· < h.treesD.size) (by rw [hr.hdr.distMap.2.1]; omega) hr.hdr.distMap.2.2
  have htree := hr.hdr.distTrees.2 _ hv
  rw [← hpref] at htree
  rw [hcl, distContextID_eq cl h2, hr.hdr.distMap.1, hcur]
  refine SimRel.bind (Blk.codeRel_sim htree) fun sym sym' hs => ?_
  obtain ⟨rfl, hsym⟩ := hs
  have hdd := decodeDistance_sim s h { c with distB := b } sym hr.hdr.npostfix.1 hr.hdr.ndirect.1 hr.hdr.npostfix.2
    hr.dists.1 hr.dists.2.1 hr.dists.2.2.1 hr.dists.2.2.2 dpos.1 dpos.2.1 dpos.2.2.1 dpos.2.2.2 hsym
  rw [decodeDistance_eq] at hdd
  refine SimRel.bind hdd fun d d' hd => ?_
  exact SimRel.pure ⟨⟨hrel, hpref, hnt, hcnt⟩, rfl, rfl, hd⟩

end Compress.Proofs.BrImpl
