/-
Public counters of the bzip2.Reader model (C11): OutputOffset is exactly the number of bytes
delivered, after every Read; InputOffset after io.EOF is the length of the input.
-/
import Compress.Proofs.BzImplRead
import Compress.Proofs.BzRTBits

namespace Compress.Proofs.BzImpl
open Compress Compress.Bzip2 Compress.Prefix
open Compress.Bzip2.Impl (Err M State ReadRes)

/-! ### OutputOffset -/

theorem decodeBlock_outOff (s s' : State) (bits : Bits) (h : Impl.decodeBlock s bits = .ok s') :
    s'.outOff = s.outOff := by
  unfold Impl.decodeBlock at h
  repeat' split at h
  all_goals first | (cases h; done) | (cases h; rfl)

theorem chunk_outOff (s s' : State) (h : Impl.chunk s = .ok s') : s'.outOff = s.outOff := by
  unfold Impl.chunk at h
  split at h
  · split at h
    · cases h
    · split at h
      · cases h
      · have := decodeBlock_outOff _ _ _ h; exact this
  · split at h
    · cases h
    · have := decodeBlock_outOff _ _ _ h; exact this

/-- one Read adds the bytes it returned to OutputOffset. -/
theorem read_outOff (fuel n : Nat) (s : State) :
    (Impl.read fuel n s).1.outOff = s.outOff + (Impl.read fuel n s).2.1.length := by
  induction fuel generalizing s with
  | zero => simp [Impl.read]
  | succ fuel ih =>
    rw [RdAux.read_succ']
    simp only []
    split
    · simp [afterRle]
    · split
      · simp [afterRle]
      · split
        · rename_i s' hs'
          rw [ih]
          have := chunk_outOff _ _ hs'
          simp only [afterRle] at this
          simp only [this]
        · simp [afterRle]

/-- the values of OutputOffset recorded by consecutive Reads, starting from `base`. -/
def OutChain : Nat → List ReadRes → Prop
  | _, [] => True
  | base, r :: rs => r.outOff = base + r.out.length ∧ OutChain r.outOff rs

theorem outChain_getD : ∀ (rs : List ReadRes) (base i : Nat), OutChain base rs → i < rs.length →
    (rs.getD i default).outOff = base + ((rs.take (i + 1)).flatMap (·.out)).length := by
  intro rs
  induction rs with
  | nil => intro base i _ hi; simp at hi
  | cons r rs ih =>
    intro base i hc hi
    obtain ⟨h1, h2⟩ := hc
    cases i with
    | zero => simp [h1]
    | succ i =>
      have := ih r.outOff i h2 (by simpa using hi)
      simp only [List.getD_cons_succ, List.take_succ_cons, List.flatMap_cons, List.length_append]
      rw [this, h1]
      omega

theorem runFrom_outOff : ∀ (sched : List Nat) (s : State),
    (Impl.runFrom s sched []).2.outOff = s.outOff + ((Impl.runFrom s sched []).1.flatMap (·.out)).length ∧
    OutChain s.outOff (Impl.runFrom s sched []).1 := by
  intro sched
  induction sched with
  | nil => intro s; simp [Impl.runFrom, OutChain]
  | cons n rest ih =>
    intro s
    have hr := read_outOff (Impl.readFuel s) n s
    rw [RdAux.runFrom_cons]
    generalize Impl.read (Impl.readFuel s) n s = r at hr ⊢
    obtain ⟨s', out, e⟩ := r
    simp only [] at hr ⊢
    cases e with
    | some e0 => simp [OutChain, hr]
    | none =>
      simp only []
      rw [RdAux.runFrom_acc]
      obtain ⟨i1, i2⟩ := ih s'
      simp only [List.reverse_cons, List.reverse_nil, List.nil_append, List.singleton_append,
        List.flatMap_cons, List.length_append, OutChain]
      refine ⟨by rw [i1, hr]; omega, hr, i2⟩

/-- **OutputOffset is exact**: after the run it equals the number of bytes delivered, and the value
    recorded after each Read is the number of bytes delivered up to and including that Read. -/
theorem run_outOff (bytes : List UInt8) (sched : List Nat) :
    (Impl.run bytes sched).final.outOff = (Impl.run bytes sched).delivered.length ∧
    ∀ i, i < (Impl.run bytes sched).reads.length →
      ((Impl.run bytes sched).reads.getD i default).outOff =
        (((Impl.run bytes sched).reads.take (i + 1)).flatMap (·.out)).length := by
  obtain ⟨h1, h2⟩ := runFrom_outOff sched (Impl.init (Bits.ofBytesMSB bytes))
  refine ⟨?_, ?_⟩
  · simpa [Impl.run, Impl.Run.delivered, Impl.init] using h1
  · intro i hi
    have := outChain_getD _ _ i h2 hi
    simpa [Impl.run, Impl.init] using this

/-! ### no parser raises io.EOF -/

theorem readBits_ne (n : Nat) (bits rest : Bits) : Impl.readBits n bits ≠ .error (.eof, rest) := by
  intro h; simp only [Impl.readBits] at h
  split at h <;> cases h

theorem readBitsBE_ne (n : Nat) (bits rest : Bits) : Impl.readBitsBE n bits ≠ .error (.eof, rest) := by
  intro h; simp only [Impl.readBitsBE] at h
  split at h <;> cases h

theorem readBitsBE64_ne (n : Nat) (bits rest : Bits) : Impl.readBitsBE64 n bits ≠ .error (.eof, rest) := by
  intro h; unfold Impl.readBitsBE64 at h
  simp only [bind, Except.bind, pure, Except.pure] at h
  repeat' split at h
  all_goals first | (cases h; done) | (cases h; simp_all [readBitsBE_ne]) | simp_all [readBitsBE_ne]

theorem readSymbol_ne (d : Decoder) (bits rest : Bits) : Impl.readSymbol d bits ≠ .error (.eof, rest) := by
  intro h; unfold Impl.readSymbol at h
  repeat' split at h
  all_goals cases h

theorem readLens_ne : ∀ (fuel n clen : Nat) (acc : List Nat) (bits rest : Bits),
    Impl.readLens fuel n clen acc bits ≠ .error (.eof, rest) := by
  intro fuel
  induction fuel with
  | zero => intro n clen acc bits rest h; simp [Impl.readLens] at h
  | succ fuel ih =>
    intro n clen acc bits rest h
    cases n with
    | zero => simp [Impl.readLens] at h
    | succ n =>
      rw [Impl.readLens] at h
      repeat' split at h
      all_goals first | (cases h; done) | exact ih _ _ _ _ _ h | (cases h; simp_all [readBits_ne])

theorem readTree_ne (numSyms : Nat) (bits rest : Bits) : Impl.readTree numSyms bits ≠ .error (.eof, rest) := by
  intro h; unfold Impl.readTree at h
  repeat' split at h
  all_goals first | (cases h; done) | (cases h; simp_all [readBitsBE64_ne, readLens_ne])

theorem readTrees_ne : ∀ (k numSyms : Nat) (acc : List Decoder) (bits rest : Bits),
    Impl.readTrees k numSyms acc bits ≠ .error (.eof, rest) := by
  intro k
  induction k with
  | zero => intro numSyms acc bits rest h; simp [Impl.readTrees] at h
  | succ k ih =>
    intro numSyms acc bits rest h
    rw [Impl.readTrees] at h
    split at h
    · cases h; simp_all [readTree_ne]
    · exact ih _ _ _ _ h

theorem readSels_ne (numTrees : Nat) : ∀ (k : Nat) (acc : List Nat) (bits rest : Bits),
    Impl.readSels numTrees k acc bits ≠ .error (.eof, rest) := by
  intro k
  induction k with
  | zero => intro acc bits rest h; simp [Impl.readSels] at h
  | succ k ih =>
    intro acc bits rest h
    rw [Impl.readSels] at h
    split at h
    · cases h; simp_all [readSymbol_ne]
    · split at h
      · cases h
      · exact ih _ _ _ h

theorem readSyms_ne (trees : Array Decoder) (sels : Array Nat) (numSyms limit : Nat) :
    ∀ (fuel blkLen selIdx cnt : Nat) (acc : List Nat) (bits rest : Bits),
    Impl.readSyms trees sels numSyms limit fuel blkLen selIdx cnt acc bits ≠ .error (.eof, rest) := by
  intro fuel
  induction fuel with
  | zero => intro blkLen selIdx cnt acc bits rest h; simp [Impl.readSyms] at h
  | succ fuel ih =>
    intro blkLen selIdx cnt acc bits rest h
    rw [Impl.readSyms] at h
    simp only [] at h
    split at h
    · rename_i e hsw
      cases h
      repeat' split at hsw
      all_goals cases hsw
    · rename_i bl si hsw
      cases hrs : Impl.readSymbol (trees.getD (sels.getD (si - 1) 0) {}) bits with
      | error e =>
        rw [hrs] at h; cases h; exact readSymbol_ne _ _ _ hrs
      | ok x =>
        obtain ⟨sy, r1⟩ := x
        rw [hrs] at h
        simp only [] at h
        repeat' split at h
        all_goals first | (cases h; done) | exact ih _ _ _ _ _ _ h

theorem symMapLoop_ne (hi : Nat) : ∀ (is : List Nat) (dict : List UInt8) (bits rest : Bits),
    Impl.symMapLoop hi is dict bits ≠ .error (.eof, rest) := by
  intro is
  induction is with
  | nil => intro dict bits rest h; simp [Impl.symMapLoop] at h
  | cons i is ih =>
    intro dict bits rest h
    rw [Impl.symMapLoop] at h
    repeat' split at h
    all_goals first | (cases h; done) | exact ih _ _ _ h | (cases h; simp_all [readBits_ne])

theorem readSymMap_ne (bits rest : Bits) : Impl.readSymMap bits ≠ .error (.eof, rest) := by
  intro h; unfold Impl.readSymMap at h
  split at h
  · cases h; simp_all [readBits_ne]
  · exact symMapLoop_ne _ _ _ _ _ h

theorem decodePrefix_ne (level dictLen : Nat) (bits rest : Bits) :
    Impl.decodePrefix level dictLen bits ≠ .error (.eof, rest) := by
  intro h; unfold Impl.decodePrefix at h
  simp only [bind, Except.bind, throw, throwThe, MonadExceptOf.throw] at h
  repeat' split at h
  all_goals first | (cases h; done) | (cases h; simp_all [readBitsBE64_ne, readSels_ne, readTrees_ne]) | exact readSyms_ne _ _ _ _ _ _ _ _ _ _ _ h

theorem blockBody_ne (level : Nat) (bits rest : Bits) : Impl.blockBody level bits ≠ .error (.eof, rest) := by
  intro h; unfold Impl.blockBody at h
  simp only [bind, Except.bind, throw, throwThe, MonadExceptOf.throw, pure, Except.pure] at h
  repeat' split at h
  all_goals first | (cases h; done) | (cases h; simp_all [readBitsBE64_ne, readSymMap_ne, decodePrefix_ne])

theorem streamHeader_ne (bits rest : Bits) : Impl.streamHeader bits ≠ .error (.eof, rest) := by
  intro h; unfold Impl.streamHeader at h
  simp only [bind, Except.bind, throw, throwThe, MonadExceptOf.throw, pure, Except.pure] at h
  repeat' split at h
  all_goals first | (cases h; done) | (cases h; simp_all [readBitsBE64_ne])

theorem decodeBlock_ne (s : State) (bits rest : Bits) : Impl.decodeBlock s bits ≠ .error (.eof, rest) := by
  intro h; unfold Impl.decodeBlock at h
  repeat' split at h
  all_goals first | (cases h; done) | (cases h; simp_all [readBitsBE64_ne, blockBody_ne])

/-- the closure raises io.EOF only at the probe for a following stream, on an empty input. -/
theorem chunk_eof (s : State) (rest : Bits) (h : Impl.chunk s = .error (.eof, rest)) :
    s.bits = [] ∧ rest = [] := by
  unfold Impl.chunk at h
  split at h
  · split at h
    · rename_i he
      have hb : s.bits = [] := by simpa using he
      injection h with h
      have hr : s.bits = rest := (Prod.mk.inj h).2
      exact ⟨hb, hr ▸ hb⟩
    · split at h
      · cases h; simp_all [streamHeader_ne]
      · exact absurd h (decodeBlock_ne _ _ _)
  · split at h
    · cases h
    · exact absurd h (decodeBlock_ne _ _ _)

/-! ### InputOffset -/

theorem afterRle_err_ne (s : State) (rle' : RleR) (st : RleStatus) (h : s.err ≠ some .eof) :
    (afterRle s rle' st).err ≠ some .eof := by
  simp only [afterRle]
  split
  · intro h'; cases h'
  · exact h

theorem read_inOff : ∀ (fuel n : Nat) (s : State), s.err ≠ some .eof →
    ((Impl.read fuel n s).2.2 = some .eof →
      (Impl.read fuel n s).1.bits = [] ∧ (Impl.read fuel n s).1.inOff = (s.total + 7) / 8) ∧
    (Impl.read fuel n s).1.total = s.total ∧
    ((Impl.read fuel n s).2.2 = none → (Impl.read fuel n s).1.err ≠ some .eof) := by
  intro fuel
  induction fuel with
  | zero => intro n s hs; simp [Impl.read, hs]
  | succ fuel ih =>
    intro n s hs
    rw [RdAux.read_succ']
    simp only []
    have h1 := afterRle_err_ne s (RleR.read n s.rle []).1 (RleR.read n s.rle []).2.2 hs
    have ht : (afterRle s (RleR.read n s.rle []).1 (RleR.read n s.rle []).2.2).total = s.total := rfl
    generalize afterRle s (RleR.read n s.rle []).1 (RleR.read n s.rle []).2.2 = s1 at h1 ht
    split
    · refine ⟨(by intro h; cases h), ht, fun _ => h1⟩
    · split
      · refine ⟨fun h => absurd h h1, ht, fun _ => h1⟩
      · split
        · rename_i s' hs'
          obtain ⟨_, c2, c3, _⟩ := chunk_consumes _ _ hs'
          generalize hq : ({ s' with inOff := Impl.offsetOf s'.total s'.bits } : State) = q
          have q1 : q.total = s.total := by subst hq; exact c2.trans ht
          have q2 : q.err ≠ some .eof := by subst hq; show s'.err ≠ _; rw [c3]; exact h1
          have := ih n q q2
          rw [q1] at this
          exact this
        · rename_i e rest hc
          refine ⟨?_, ht, (by intro h; cases h)⟩
          intro he
          cases he
          obtain ⟨hb, hr⟩ := chunk_eof _ _ hc
          subst hr
          refine ⟨rfl, ?_⟩
          simp [Impl.offsetOf, ht]

theorem runFrom_inOff : ∀ (sched : List Nat) (s : State), s.err ≠ some .eof →
    (Impl.runFrom s sched []).1.getLast?.bind (·.err) = some .eof →
    (Impl.runFrom s sched []).2.bits = [] ∧ (Impl.runFrom s sched []).2.inOff = (s.total + 7) / 8 := by
  intro sched
  induction sched with
  | nil => intro s _ h; simp [Impl.runFrom] at h
  | cons n rest ih =>
    intro s hs
    have hr := read_inOff (Impl.readFuel s) n s hs
    rw [RdAux.runFrom_cons]
    generalize Impl.read (Impl.readFuel s) n s = r at hr ⊢
    obtain ⟨s', out, e⟩ := r
    simp only [] at hr ⊢
    obtain ⟨r1, r2, r3⟩ := hr
    cases e with
    | some e0 =>
      simp only [List.reverse_cons, List.reverse_nil, List.nil_append, List.getLast?_singleton, Option.bind_some]
      exact r1
    | none =>
      simp only []
      rw [RdAux.runFrom_acc]
      simp only [List.reverse_cons, List.reverse_nil, List.nil_append, List.singleton_append]
      rw [RdAux.lastErr_cons _ _ rfl]
      intro h
      have := ih s' (r3 rfl) h
      rw [r2] at this
      exact this

/-- **InputOffset at io.EOF**: a run that ended with io.EOF has consumed the whole input. -/
theorem run_inOff_eof (bytes : List UInt8) (sched : List Nat)
    (h : (Impl.run bytes sched).err = some .eof) :
    (Impl.run bytes sched).final.inOff = bytes.length ∧ (Impl.run bytes sched).final.bits = [] := by
  have := runFrom_inOff sched (Impl.init (Bits.ofBytesMSB bytes)) (by simp [Impl.init]) h
  obtain ⟨h1, h2⟩ := this
  refine ⟨?_, h1⟩
  show (Impl.runFrom (Impl.init (Bits.ofBytesMSB bytes)) sched []).2.inOff = bytes.length
  rw [h2]
  show ((Bits.ofBytesMSB bytes).length + 7) / 8 = bytes.length
  rw [BzRT.ofBytesMSB_length]
  omega

end Compress.Proofs.BzImpl
