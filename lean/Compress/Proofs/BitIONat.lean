/-
Numeric view of bit streams for S4/S5/H4: a bit list is the natural number it
spells (first bit least significant); byte strings are read through `le64`.
-/
import Compress.Prefix.BitSpec

namespace Compress.Proofs.BitIO
open Compress Compress.Prefix

/-! ### bit lists as numbers -/

theorem length_ofNat : ∀ (n v : Nat), (Bits.ofNat v n).length = n
  | 0, _ => rfl
  | n+1, v => by simp [Bits.ofNat, length_ofNat n]

theorem toNat_ofNat : ∀ (n v : Nat), Bits.toNat (Bits.ofNat v n) = v % 2 ^ n
  | 0, v => by simp [Bits.ofNat, Bits.toNat, Nat.mod_one]
  | n+1, v => by
    simp only [Bits.ofNat, Bits.toNat, toNat_ofNat n]
    have h2 : 2 ^ (n+1) = 2 * 2 ^ n := by rw [Nat.pow_succ, Nat.mul_comm]
    rw [h2, Nat.mod_mul]
    by_cases h : v % 2 = 1 <;> simp [h] <;> omega

theorem toNat_lt : ∀ (l : Bits), Bits.toNat l < 2 ^ l.length
  | [] => by simp [Bits.toNat]
  | b :: bs => by
    have := toNat_lt bs
    simp only [Bits.toNat, List.length_cons, Nat.pow_succ]
    cases b <;> simp <;> omega

theorem ofNat_toNat : ∀ (l : Bits), Bits.ofNat (Bits.toNat l) l.length = l
  | [] => rfl
  | b :: bs => by
    have ih := ofNat_toNat bs
    simp only [Bits.toNat, List.length_cons, Bits.ofNat]
    cases b
    · simp [ih]
    · have h1 : (1 + 2 * Bits.toNat bs) % 2 = 1 := by omega
      have h2 : (1 + 2 * Bits.toNat bs) / 2 = Bits.toNat bs := by omega
      simp [h1, h2, ih]

theorem toNat_append : ∀ (a b : Bits),
    Bits.toNat (a ++ b) = Bits.toNat a + 2 ^ a.length * Bits.toNat b
  | [], b => by simp [Bits.toNat]
  | x :: a, b => by
    simp only [List.cons_append, Bits.toNat, toNat_append a b, List.length_cons, Nat.pow_succ]
    rw [Nat.mul_add, Nat.mul_assoc, Nat.mul_left_comm (2 ^ a.length) 2]
    omega

theorem toNat_take_drop (bs : Bits) (n : Nat) (h : n ≤ bs.length) :
    Bits.toNat (bs.take n) = Bits.toNat bs % 2 ^ n ∧ Bits.toNat (bs.drop n) = Bits.toNat bs / 2 ^ n := by
  have e : Bits.toNat bs = Bits.toNat (bs.take n) + 2 ^ n * Bits.toNat (bs.drop n) := by
    conv => lhs; rw [← List.take_append_drop n bs]
    rw [toNat_append, List.length_take, Nat.min_eq_left h]
  have hlt : Bits.toNat (bs.take n) < 2 ^ n := by
    have := toNat_lt (bs.take n)
    rwa [List.length_take, Nat.min_eq_left h] at this
  rw [e]
  constructor
  · rw [Nat.add_mul_mod_self_left, Nat.mod_eq_of_lt hlt]
  · rw [Nat.add_mul_div_left _ _ (Nat.two_pow_pos n), Nat.div_eq_of_lt hlt, Nat.zero_add]

/-- `specReadScript` on the number a bit list spells. -/
def numSpec : Nat → Nat → List Nat → List (Except RErr Nat)
  | _, _, [] => []
  | N, L, n :: ns =>
    if L < n then [.error .unexpectedEOF]
    else .ok (N % 2 ^ n) :: numSpec (N / 2 ^ n) (L - n) ns

theorem specReadScript_eq : ∀ (ns : List Nat) (bits : Bits),
    specReadScript bits ns = numSpec (Bits.toNat bits) bits.length ns
  | [], _ => rfl
  | n :: ns, bits => by
    simp only [specReadScript, numSpec]
    by_cases h : bits.length < n
    · simp [h]
    · simp only [h, if_false]
      obtain ⟨h1, h2⟩ := toNat_take_drop bits n (by omega)
      rw [specReadScript_eq ns (bits.drop n), h1, h2, List.length_drop]

/-! ### byte strings as numbers -/

theorem revByte_toNat (b : UInt8) :
    (revByte b).toNat = Bits.toNat (Bits.ofNat b.toNat 8).reverse := by
  have h := toNat_lt (Bits.ofNat b.toNat 8).reverse
  rw [List.length_reverse, length_ofNat] at h
  simp only [revByte, UInt8.toNat_ofNat']
  exact Nat.mod_eq_of_lt h

theorem toNat_ofByte (b : UInt8) : Bits.toNat (Bits.ofNat b.toNat 8) = b.toNat := by
  rw [toNat_ofNat]
  exact Nat.mod_eq_of_lt (UInt8.toNat_lt b)

theorem revByte_revByte (b : UInt8) : revByte (revByte b) = b := by
  apply UInt8.toNat_inj.mp
  rw [revByte_toNat, revByte_toNat]
  have := ofNat_toNat (Bits.ofNat b.toNat 8).reverse
  rw [List.length_reverse, length_ofNat] at this
  rw [this, List.reverse_reverse, toNat_ofByte]

/-- the byte as the reader/writer sees it. -/
def ordByte (big : Bool) (b : UInt8) : UInt8 := if big then revByte b else b

theorem ordByte_ordByte (big : Bool) (b : UInt8) : ordByte big (ordByte big b) = b := by
  cases big <;> simp [ordByte, revByte_revByte]

theorem le64_cons (big : Bool) (b : UInt8) (bs : List UInt8) :
    le64 big (b :: bs) = (ordByte big b).toNat + 256 * le64 big bs := rfl

theorem le64_lt (big : Bool) : ∀ (l : List UInt8), le64 big l < 2 ^ (8 * l.length)
  | [] => by simp [le64]
  | b :: bs => by
    have ih := le64_lt big bs
    have hb := UInt8.toNat_lt (ordByte big b)
    rw [le64_cons, List.length_cons, Nat.mul_succ, Nat.pow_add]
    omega

theorem le64_append (big : Bool) : ∀ (a b : List UInt8),
    le64 big (a ++ b) = le64 big a + 2 ^ (8 * a.length) * le64 big b
  | [], b => by simp [le64]
  | x :: a, b => by
    rw [List.cons_append, le64_cons, le64_cons, le64_append big a b, List.length_cons, Nat.mul_succ,
      Nat.pow_add]
    rw [Nat.mul_add, Nat.mul_comm (2 ^ (8 * a.length)) (2 ^ 8), Nat.mul_assoc]
    omega

theorem le64_take_drop (big : Bool) (D : List UInt8) (k : Nat) :
    le64 big (D.take k) = le64 big D % 2 ^ (8 * k) ∧ le64 big (D.drop k) = le64 big D / 2 ^ (8 * k) := by
  by_cases h : k ≤ D.length
  · have e : le64 big D = le64 big (D.take k) + 2 ^ (8 * k) * le64 big (D.drop k) := by
      conv => lhs; rw [← List.take_append_drop k D]
      rw [le64_append, List.length_take, Nat.min_eq_left h]
    have hlt : le64 big (D.take k) < 2 ^ (8 * k) := by
      have := le64_lt big (D.take k)
      rwa [List.length_take, Nat.min_eq_left h] at this
    rw [e]
    constructor
    · rw [Nat.add_mul_mod_self_left, Nat.mod_eq_of_lt hlt]
    · rw [Nat.add_mul_div_left _ _ (Nat.two_pow_pos _), Nat.div_eq_of_lt hlt, Nat.zero_add]
  · have hlt : le64 big D < 2 ^ (8 * k) :=
      Nat.lt_of_lt_of_le (le64_lt big D) (Nat.pow_le_pow_right (by omega) (by omega))
    rw [List.take_of_length_le (by omega), List.drop_of_length_le (by omega), Nat.mod_eq_of_lt hlt,
      Nat.div_eq_of_lt hlt]
    exact ⟨rfl, rfl⟩

theorem toNat_streamBits (big : Bool) : ∀ (D : List UInt8),
    Bits.toNat (streamBits big D) = le64 big D
  | [] => by cases big <;> rfl
  | b :: bs => by
    have ih := toNat_streamBits big bs
    cases big
    · simp only [streamBits, Bool.false_eq_true, if_false] at ih ⊢
      rw [Bits.ofBytes, toNat_append, ih, Bits.ofByte, toNat_ofByte, length_ofNat, le64_cons]
      rfl
    · simp only [streamBits, if_true] at ih ⊢
      rw [Bits.ofBytesMSB, toNat_append, ih, Bits.ofByteMSB, List.length_reverse, length_ofNat,
        le64_cons, ordByte, if_pos rfl, revByte_toNat]

theorem length_streamBits (big : Bool) : ∀ (D : List UInt8),
    (streamBits big D).length = 8 * D.length
  | [] => by cases big <;> rfl
  | b :: bs => by
    have ih := length_streamBits big bs
    cases big
    · simp only [streamBits, Bool.false_eq_true, if_false] at ih ⊢
      rw [Bits.ofBytes, List.length_append, ih, Bits.ofByte, length_ofNat, List.length_cons]; omega
    · simp only [streamBits, if_true] at ih ⊢
      rw [Bits.ofBytesMSB, List.length_append, ih, Bits.ofByteMSB, List.length_reverse, length_ofNat,
        List.length_cons]; omega

end Compress.Proofs.BitIO
