/-
bzip2 round trip, table side of `decode_codeWord`: what `mkCTab` puts into the
`limit`, `base` and `perm` tables, in terms of `firstCode`/`endCode`.
-/
import Compress.Proofs.BzRTCTabCode

namespace Compress.Proofs.BzRT
open Compress Compress.Bzip2 Compress.Prefix
open Compress.Proofs.PrefixCodes

/-! ### counting lengths -/

/-- number of lengths below `i`. -/
def cntLt (lens : List Nat) (i : Nat) : Nat := (lens.filter (· + 1 ≤ i)).length

/-- number of lengths equal to `i`. -/
def cntEq (lens : List Nat) (i : Nat) : Nat := (lens.filter (· == i)).length

theorem lenCount_eq_cntEq (cs : List Code) (i : Nat) :
    lenCount cs i = cntEq (cs.map (·.len)) i := by
  unfold lenCount cntEq
  rw [List.filter_map, List.length_map]
  rfl

theorem cntLt_cons (l : Nat) (ls : List Nat) (i : Nat) :
    cntLt (l :: ls) i = (if l + 1 ≤ i then 1 else 0) + cntLt ls i := by
  unfold cntLt
  by_cases h : l + 1 ≤ i <;> simp [h] <;> omega

theorem cntEq_cons (l : Nat) (ls : List Nat) (i : Nat) :
    cntEq (l :: ls) i = (if l = i then 1 else 0) + cntEq ls i := by
  unfold cntEq
  by_cases h : l = i <;> simp [h] <;> omega

theorem cntLt_succ (lens : List Nat) (i : Nat) :
    cntLt lens (i + 1) = cntLt lens i + cntEq lens i := by
  induction lens with
  | nil => rfl
  | cons l ls ih =>
    rw [cntLt_cons, cntLt_cons, cntEq_cons, ih]
    by_cases h1 : l + 1 ≤ i
    · have h2 : l + 1 ≤ i + 1 := by omega
      have h3 : ¬ l = i := by omega
      simp only [h1, h2, h3, if_true, if_false]; omega
    · by_cases h3 : l = i
      · subst h3
        simp only [h1, if_false, if_true, Nat.le_refl]; omega
      · have h2 : ¬ l + 1 ≤ i + 1 := by omega
        simp only [h1, h2, h3, if_false]; omega

theorem cntLt_eq_zero (lens : List Nat) (m : Nat) (h : ∀ l ∈ lens, m ≤ l) : cntLt lens m = 0 := by
  unfold cntLt
  rw [List.length_eq_zero_iff, List.filter_eq_nil_iff]
  intro l hl
  have := h l hl
  simp; omega

theorem cntLt_le (lens : List Nat) (i : Nat) : cntLt lens i ≤ lens.length :=
  List.length_filter_le _ _

/-! ### min / max of the lengths -/

theorem foldl_min_spec (lens : List Nat) (init : Nat) :
    lens.foldl min init ≤ init ∧ ∀ l ∈ lens, lens.foldl min init ≤ l := by
  induction lens generalizing init with
  | nil => simp
  | cons x xs ih =>
    simp only [List.foldl_cons, List.mem_cons]
    have h := ih (min init x)
    refine ⟨by omega, fun l hl => ?_⟩
    rcases hl with rfl | hl
    · omega
    · exact h.2 l hl

theorem foldl_max_spec (lens : List Nat) (init k : Nat) (h0 : init ≤ k) (h : ∀ l ∈ lens, l ≤ k) :
    lens.foldl max init ≤ k ∧ init ≤ lens.foldl max init ∧ ∀ l ∈ lens, l ≤ lens.foldl max init := by
  induction lens generalizing init with
  | nil => simpa
  | cons x xs ih =>
    simp only [List.foldl_cons, List.mem_cons]
    have hx := h x (by simp)
    have h' := ih (max init x) (by omega) (fun l hl => h l (by simp [hl]))
    refine ⟨h'.1, by omega, fun l hl => ?_⟩
    rcases hl with rfl | hl
    · omega
    · exact h'.2.2 l hl

/-! ### the tables, piece by piece -/

def base0 (lens : List Nat) : Array Int :=
  ((List.range 23).map (fun i => ((lens.filter (· + 1 ≤ i)).length : Int))).toArray

def limitStep (b0 : Array Int) (minLen : Nat) (st : Array Int × Int) (d : Nat) : Array Int × Int :=
  let i := minLen + d
  let vec := st.2 + (b0.getD (i + 1) 0 - b0.getD i 0)
  (st.1.setIfInBounds i (vec - 1), vec * 2)

def limitOf (lens : List Nat) (minLen maxLen : Nat) : Array Int :=
  ((List.range (maxLen + 1 - minLen)).foldl (limitStep (base0 lens) minLen)
    (Array.replicate 23 0, 0)).1

def baseStep (limit : Array Int) (minLen : Nat) (b : Array Int) (d : Nat) : Array Int :=
  let i := minLen + 1 + d
  b.setIfInBounds i (((limit.getD (i - 1) 0 + 1) * 2) - b.getD i 0)

def baseOf (lens : List Nat) (minLen maxLen : Nat) : Array Int :=
  (List.range (maxLen - minLen)).foldl (baseStep (limitOf lens minLen maxLen) minLen) (base0 lens)

def permOf (lens : List Nat) (minLen maxLen : Nat) : List Nat :=
  ((List.range (maxLen + 1 - minLen)).map (fun d =>
      (List.range lens.length).filter (fun j => lens.getD j 0 == minLen + d))).flatten

theorem mkCTab_eq (lens : List Nat) :
    mkCTab lens =
      { minLen := lens.foldl min 20, maxLen := lens.foldl max 0,
        limit := limitOf lens (lens.foldl min 20) (lens.foldl max 0),
        base := baseOf lens (lens.foldl min 20) (lens.foldl max 0),
        perm := (permOf lens (lens.foldl min 20) (lens.foldl max 0)).toArray } := rfl

/-! ### arrays -/

theorem getD_setIfInBounds (a : Array Int) (i j : Nat) (v : Int) :
    (a.setIfInBounds i v).getD j 0 = if i = j ∧ i < a.size then v else a.getD j 0 := by
  rw [Array.getD_eq_getD_getElem?, Array.getD_eq_getD_getElem?, Array.getElem?_setIfInBounds]
  by_cases h1 : i = j
  · subst h1
    by_cases h2 : i < a.size
    · simp [h2]
    · simp [h2]
  · simp [h1]

theorem base0_getD (lens : List Nat) (j : Nat) (hj : j < 23) :
    (base0 lens).getD j 0 = (cntLt lens j : Int) := by
  unfold base0 cntLt
  rw [Array.getD_eq_getD_getElem?, List.getElem?_toArray, List.getElem?_map,
    List.getElem?_range hj]
  rfl

theorem base0_size (lens : List Nat) : (base0 lens).size = 23 := by
  simp [base0]

/-! ### `limit` -/

theorem limit_fold (cs : List Code) (minLen : Nat) (h0 : firstCode cs minLen = 0) (k : Nat)
    (hk : minLen + k ≤ 22) :
    let st := (List.range k).foldl (limitStep (base0 (cs.map (·.len))) minLen)
      (Array.replicate 23 0, 0)
    st.1.size = 23 ∧ st.2 = (firstCode cs (minLen + k) : Int) ∧
      ∀ j, st.1.getD j 0 =
        if minLen ≤ j ∧ j < minLen + k then (endCode cs j : Int) - 1 else 0 := by
  induction k with
  | zero =>
    simp only [List.range_zero, List.foldl_nil, Nat.add_zero, h0]
    refine ⟨by simp, rfl, fun j => ?_⟩
    rw [if_neg (by omega)]
    simp [Array.getD_eq_getD_getElem?, Array.getElem?_replicate]
    split <;> rfl
  | succ k ih =>
    obtain ⟨h1, h2, h3⟩ := ih (by omega)
    simp only [List.range_succ, List.foldl_append, List.foldl_cons, List.foldl_nil]
    generalize (List.range k).foldl (limitStep (base0 (cs.map (·.len))) minLen)
      (Array.replicate 23 0, 0) = st at h1 h2 h3
    have hvec : st.2 + ((base0 (cs.map (·.len))).getD (minLen + k + 1) 0 -
        (base0 (cs.map (·.len))).getD (minLen + k) 0) = (endCode cs (minLen + k) : Int) := by
      rw [base0_getD _ _ (by omega), base0_getD _ _ (by omega), cntLt_succ, h2, endCode,
        lenCount_eq_cntEq]
      omega
    simp only [limitStep, hvec]
    refine ⟨by rw [Array.size_setIfInBounds]; exact h1, ?_, fun j => ?_⟩
    · rw [← Nat.add_assoc, firstCode_succ']
      omega
    · rw [getD_setIfInBounds, h3 j, h1]
      by_cases hj : minLen + k = j
      · subst hj
        rw [if_pos ⟨rfl, by omega⟩, if_pos ⟨by omega, by omega⟩]
      · rw [if_neg (fun h => hj h.1)]
        by_cases hj2 : minLen ≤ j ∧ j < minLen + k
        · rw [if_pos hj2, if_pos ⟨hj2.1, by omega⟩]
        · rw [if_neg hj2, if_neg (by omega)]

theorem limitOf_getD (cs : List Code) (minLen maxLen : Nat) (h0 : firstCode cs minLen = 0)
    (hmm : minLen ≤ maxLen) (hmax : maxLen ≤ 20) (i : Nat) (h1 : minLen ≤ i) (h2 : i ≤ maxLen) :
    (limitOf (cs.map (·.len)) minLen maxLen).getD i 0 = (endCode cs i : Int) - 1 := by
  have := (limit_fold cs minLen h0 (maxLen + 1 - minLen) (by omega)).2.2 i
  unfold limitOf
  rw [this, if_pos ⟨h1, by omega⟩]

/-! ### `base` -/

theorem base_fold (limit b0 : Array Int) (hb0 : b0.size = 23) (minLen k : Nat)
    (hk : minLen + 1 + k ≤ 23) :
    let b := (List.range k).foldl (baseStep limit minLen) b0
    b.size = 23 ∧ ∀ j, b.getD j 0 =
      if minLen + 1 ≤ j ∧ j < minLen + 1 + k then
        (limit.getD (j - 1) 0 + 1) * 2 - b0.getD j 0 else b0.getD j 0 := by
  induction k with
  | zero =>
    simp only [List.range_zero, List.foldl_nil]
    refine ⟨hb0, fun j => ?_⟩
    rw [if_neg (by omega)]
  | succ k ih =>
    obtain ⟨h1, h3⟩ := ih (by omega)
    simp only [List.range_succ, List.foldl_append, List.foldl_cons, List.foldl_nil]
    generalize (List.range k).foldl (baseStep limit minLen) b0 = b at h1 h3
    simp only [baseStep]
    refine ⟨by rw [Array.size_setIfInBounds]; exact h1, fun j => ?_⟩
    rw [getD_setIfInBounds, h1]
    by_cases hj : minLen + 1 + k = j
    · subst hj
      rw [if_pos ⟨rfl, by omega⟩, if_pos ⟨by omega, by omega⟩, h3, if_neg (by omega)]
    · rw [if_neg (fun h => hj h.1), h3 j]
      by_cases hj2 : minLen + 1 ≤ j ∧ j < minLen + 1 + k
      · rw [if_pos hj2, if_pos ⟨hj2.1, by omega⟩]
      · rw [if_neg hj2, if_neg (by omega)]

theorem baseOf_getD (cs : List Code) (minLen maxLen : Nat) (h0 : firstCode cs minLen = 0)
    (hmin : ∀ c ∈ cs, minLen ≤ c.len)
    (hmm : minLen ≤ maxLen) (hmax : maxLen ≤ 20) (i : Nat) (h1 : minLen ≤ i) (h2 : i ≤ maxLen) :
    (baseOf (cs.map (·.len)) minLen maxLen).getD i 0 =
      (firstCode cs i : Int) - (cntLt (cs.map (·.len)) i : Int) := by
  have := (base_fold (limitOf (cs.map (·.len)) minLen maxLen) (base0 (cs.map (·.len)))
    (base0_size _) minLen (maxLen - minLen) (by omega)).2 i
  simp only at this
  unfold baseOf
  rw [this, base0_getD _ _ (by omega)]
  by_cases hi : minLen + 1 ≤ i
  · rw [if_pos ⟨hi, by omega⟩, limitOf_getD cs minLen maxLen h0 hmm hmax (i - 1) (by omega) (by omega)]
    have e : i = (i - 1) + 1 := by omega
    have := firstCode_succ' cs (i - 1)
    rw [← e] at this
    rw [this]
    omega
  · have e : i = minLen := by omega
    have hz : cntLt (cs.map (·.len)) minLen = 0 := by
      apply cntLt_eq_zero
      intro l hl
      obtain ⟨c, hc, rfl⟩ := List.mem_map.1 hl
      exact hmin c hc
    rw [if_neg (fun h => hi h.1), e, h0, hz]
    rfl

/-! ### `perm` -/

theorem flatten_range_getElem? {α} (F : Nat → List α) (m d r : Nat) (x : α) (hd : d < m)
    (hx : (F d)[r]? = some x) :
    ((List.range m).map F).flatten[((List.range d).map (fun e => (F e).length)).sum + r]? =
      some x := by
  induction m with
  | zero => omega
  | succ m ih =>
    have hlen : ((List.range m).map F).flatten.length =
        ((List.range m).map (fun e => (F e).length)).sum := by
      rw [List.length_flatten, List.map_map]; rfl
    rw [List.range_succ, List.map_append, List.flatten_append]
    by_cases hdm : d < m
    · have h := ih hdm
      have hlt : ((List.range d).map (fun e => (F e).length)).sum + r <
          ((List.range m).map F).flatten.length := by
        rcases Nat.lt_or_ge (((List.range d).map (fun e => (F e).length)).sum + r)
          ((List.range m).map F).flatten.length with h' | h'
        · exact h'
        · rw [List.getElem?_eq_none h'] at h; cases h
      rw [List.getElem?_append_left hlt, h]
    · have e : d = m := by omega
      subst e
      rw [List.getElem?_append_right (by rw [hlen]; omega), hlen, Nat.add_sub_cancel_left]
      simpa using hx

theorem filter_range_getElem? (q : Nat → Bool) (n s : Nat) (hs : s < n) (hq : q s = true) :
    ((List.range n).filter q)[((List.range s).filter q).length]? = some s := by
  obtain ⟨m, rfl⟩ : ∃ m, n = s + (m + 1) := ⟨n - s - 1, by omega⟩
  rw [List.range_add, List.filter_append, List.getElem?_append_right (Nat.le_refl _),
    Nat.sub_self, List.range_succ_eq_map, List.map_cons, List.filter_cons_of_pos (by simpa using hq)]
  simp

theorem filter_range_length (lens : List Nat) (p : Nat → Bool) (k : Nat) (hk : k ≤ lens.length) :
    ((List.range k).filter (fun j => p (lens.getD j 0))).length = ((lens.take k).filter p).length := by
  induction k with
  | zero => simp
  | succ k ih =>
    have hk' : k < lens.length := by omega
    rw [List.range_succ, List.filter_append, List.length_append, ih (by omega),
      List.take_add_one, List.filter_append, List.length_append,
      List.getElem?_eq_getElem hk']
    simp [List.filter_cons, hk']
    split <;> rfl

theorem blockSum_eq (lens : List Nat) (minLen : Nat) (hmin : ∀ l ∈ lens, minLen ≤ l) (d : Nat) :
    ((List.range d).map (fun e =>
      ((List.range lens.length).filter (fun j => lens.getD j 0 == minLen + e)).length)).sum =
      cntLt lens (minLen + d) := by
  induction d with
  | zero => simp [cntLt_eq_zero lens minLen hmin]
  | succ d ih =>
    rw [List.range_succ, List.map_append, List.sum_append, ih, ← Nat.add_assoc, cntLt_succ]
    have := filter_range_length lens (fun l => l == minLen + d) lens.length (Nat.le_refl _)
    simp only [List.take_length] at this
    simp only [List.map_cons, List.map_nil, List.sum_cons, List.sum_nil, Nat.add_zero, this]
    rfl

theorem permOf_getElem? (lens : List Nat) (minLen maxLen : Nat) (hmin : ∀ l ∈ lens, minLen ≤ l)
    (hmax : ∀ l ∈ lens, l ≤ maxLen) (s : Nat) (hs : s < lens.length) :
    (permOf lens minLen maxLen)[cntLt lens (lens.getD s 0) +
      lenCount ((codesOf lens).take s) (lens.getD s 0)]? = some s := by
  have hmem : lens.getD s 0 ∈ lens := by
    rw [List.getD_eq_getElem?_getD, List.getElem?_eq_getElem hs]
    exact List.getElem_mem hs
  have h1 := hmin _ hmem
  have h2 := hmax _ hmem
  obtain ⟨d, hd⟩ : ∃ d, lens.getD s 0 = minLen + d := ⟨lens.getD s 0 - minLen, by omega⟩
  have hrank : lenCount ((codesOf lens).take s) (lens.getD s 0) =
      ((List.range s).filter (fun j => lens.getD j 0 == minLen + d)).length := by
    rw [lenCount_eq_cntEq, List.map_take, codesOf_lens, hd,
      filter_range_length lens (fun l => l == minLen + d) s (by omega)]
    rfl
  rw [hrank, hd, ← blockSum_eq lens minLen hmin d]
  unfold permOf
  apply flatten_range_getElem?
    (fun d => (List.range lens.length).filter (fun j => lens.getD j 0 == minLen + d))
  · omega
  · exact filter_range_getElem? _ _ _ hs (beq_iff_eq.2 hd)

end Compress.Proofs.BzRT
