/-
bzip2 round trip: `splitBlocks` partitions the input; length of the MTF/RLE2 output.
-/
import Compress.Bzip2.Writer
import Compress.Proofs.Bzip2Stages

namespace Compress.Proofs.BzRT
open Compress Compress.Bzip2 Compress.Prefix

theorem rleW_write_ge : ∀ (xs : List UInt8) (r : RleW) (n : Nat), n ≤ (RleW.write r xs n).2
  | [], r, n => by simp [RleW.write]
  | b :: bs, r, n => by
    unfold RleW.write
    split
    · exact Nat.le_refl _
    · exact Nat.le_trans (Nat.le_succ n) (rleW_write_ge bs _ _)

theorem rle1Encode_pos (cap : Nat) (hc : 1 ≤ cap) (b : UInt8) (bs : List UInt8) :
    1 ≤ (rle1Encode cap (b :: bs)).2 := by
  have hput : ∃ r', RleW.put { cap := cap } b = some r' := by
    unfold RleW.put
    have h0 : ¬ cap = 0 := by omega
    by_cases hb : (0 : UInt8) ≠ b <;> simp [hb, h0]
  obtain ⟨r', hr'⟩ := hput
  show 1 ≤ (RleW.write { cap := cap } (b :: bs) 0).2
  rw [RleW.write, hr']
  exact rleW_write_ge bs r' 1

/-- with enough fuel the raw parts of the blocks concatenate to the input, and
    every block's RLE1 image is non-empty, fits the capacity and expands to the
    block's raw bytes. -/
theorem splitBlocks_spec (cap : Nat) (hc : 1 ≤ cap) (fuel : Nat) (data : List UInt8)
    (hf : data.length < fuel) :
    ((splitBlocks cap fuel data).map (·.2)).flatten = data ∧
    ∀ blk ∈ splitBlocks cap fuel data, blk.1 ≠ [] ∧ blk.1.length ≤ cap ∧
      rle1Decode (blk.1.length + 1) blk.1 none 0 [] = some blk.2 := by
  induction fuel generalizing data with
  | zero => omega
  | succ fuel ih =>
    cases data with
    | nil => simp [splitBlocks]
    | cons b bs =>
      have hpos := rle1Encode_pos cap hc b bs
      have hrt := Bzip2Stages.rle1_roundtrip cap (b :: bs)
      simp only at hrt
      obtain ⟨hle, hcap, _, hdec⟩ := hrt
      have hsplit : splitBlocks cap (fuel + 1) (b :: bs) =
          ((rle1Encode cap (b :: bs)).1, (b :: bs).take (rle1Encode cap (b :: bs)).2) ::
            splitBlocks cap fuel ((b :: bs).drop (rle1Encode cap (b :: bs)).2) := by
        rw [splitBlocks]
        have hn : (rle1Encode cap (b :: bs)).2 ≠ 0 := by omega
        simp [hn]
      rw [hsplit]
      generalize hr : rle1Encode cap (b :: bs) = r at *
      obtain ⟨out, n⟩ := r
      simp only at hpos hle hcap hdec ⊢
      have hlen : ((b :: bs).drop n).length < fuel := by
        simp only [List.length_drop, List.length_cons] at hf hle ⊢
        omega
      obtain ⟨ih1, ih2⟩ := ih _ hlen
      refine ⟨?_, ?_⟩
      · simp only [List.map_cons, List.flatten_cons, ih1, List.take_append_drop]
      · intro blk hblk
        rcases List.mem_cons.mp hblk with rfl | hblk
        · refine ⟨?_, hcap, hdec⟩
          simp only
          intro hout
          subst hout
          obtain ⟨m, rfl⟩ : ∃ m, n = m + 1 := ⟨n - 1, by omega⟩
          simp [rle1Decode] at hdec
        · exact ih2 blk hblk

theorem runSyms_length_lt : ∀ (fuel rc : Nat), 1 ≤ rc → (runSyms fuel rc).length < rc
  | 0, rc, h => by simp [runSyms]; omega
  | fuel+1, rc, h => by
    unfold runSyms
    split
    · simp; omega
    · have := runSyms_length_lt fuel (rc / 2) (by omega)
      simp only [List.length_cons]
      omega

theorem runPart_length_le (k : Nat) : (Bzip2Mtf.runPart k).length ≤ k := by
  unfold Bzip2Mtf.runPart
  split
  · have := runSyms_length_lt 64 (k + 1) (by omega)
    omega
  · simp

theorem enc_length_le : ∀ (vs dict : List UInt8) (k : Nat),
    (Bzip2Mtf.enc dict vs k).length ≤ vs.length + k
  | [], dict, k => by
    simp only [Bzip2Mtf.enc, List.length_nil, Nat.zero_add]
    exact runPart_length_le k
  | v :: vs, dict, k => by
    simp only [Bzip2Mtf.enc]
    split
    · have := enc_length_le vs (moveFront dict ((dict.findIdx? (· == v)).getD 0)) (k + 1)
      simp only [List.length_cons]
      omega
    · have := enc_length_le vs (moveFront dict ((dict.findIdx? (· == v)).getD 0)) 0
      have := runPart_length_le k
      simp only [List.length_append, List.length_cons]
      omega

/-- MTF + zero-run coding never lengthens the data. -/
theorem mtfEncode_length_le (dict vals : List UInt8) :
    (mtfEncode dict vals 0 []).length ≤ vals.length := by
  rw [Bzip2Mtf.mtfEncode_eq, List.reverse_nil, List.nil_append]
  exact enc_length_le vals dict 0

end Compress.Proofs.BzRT
