/-
C05 split independence, part 3: whole operations and runs of the writer model
against `oracleOf Z …` compute the function-driven writer.
-/
import Compress.Proofs.XWSplitSim

namespace Compress.Proofs.XWSplit
open Compress Compress.XFlate Compress.Proofs.XWShape

variable (crc : List UInt8 → Nat) (Z : ZFun) (lvl : Int)

/-- after an operation: the model state projects to the abstract state, the oracle
    answered every call, and — unless the writer is dead — exactly the events of the
    operation were consumed and the compressor memory is the predicted one. -/
structure Post (P : ZLog → ZSt → Prop) (s' : XWState) (a' : AW) (rest : List ZEv) (z'' : ZSt) : Prop where
  eq : proj s' a'.z = a'
  bad : s'.bad = false
  orc : s'.err = none → s'.oracle = rest ∧ a'.z = z''
  lg : P s'.zlog a'.z

theorem post_of {P : ZLog → ZSt → Prop} {s' : XWState} {a' : AW} {rest : List ZEv} {z1 z'' : ZSt}
    (h1 : proj s' z1 = a') (h2 : s'.bad = false) (h3 : s'.oracle = rest) (h4 : z1 = z'')
    (h5 : P s'.zlog z1) : Post P s' a' rest z'' := by
  subst h1 h4
  exact ⟨rfl, h2, fun _ => ⟨h3, rfl⟩, h5⟩

theorem post_dead {P : ZLog → ZSt → Prop} {s' : XWState} {a' : AW} {rest : List ZEv} {z1 z'' : ZSt}
    (h1 : proj s' z1 = a') (h2 : s'.bad = false) (h3 : s'.err ≠ none) (h5 : P s'.zlog z1) :
    Post P s' a' rest z'' := by
  subst h1
  exact ⟨rfl, h2, fun h => absurd h h3, h5⟩

/-! ### Flush -/

theorem flush_sim (P : ZLog → ZSt → Prop) (hP : LogClosed Z lvl P)
    (s : XWState) (z : ZSt) (m : Nat) (rest : List ZEv) {n : Int} (hb : s.bad = false)
    (hi : Inv n (proj s z)) (hl : P s.zlog z)
    (h : s.err = none → s.oracle = (evsOp Z lvl n z (.flush m)).1 ++ rest) :
    Post P (flush crc s m).1 (aFlush crc Z lvl (proj s z) m) rest (evsOp Z lvl n z (.flush m)).2 := by
  unfold flush aFlush
  have he : (proj s z).err = s.err := rfl
  rw [he]
  by_cases hd : s.err ≠ none
  · rw [if_pos hd, if_pos hd]
    exact post_dead rfl hb hd hl
  · rw [if_neg hd, if_neg hd]
    have h := h (Classical.not_not.1 hd)
    match m with
    | 0 =>
      obtain ⟨h1, h2, h3, _, h5⟩ := sync_sim Z lvl s z rest h
      exact post_of h1 (h3.trans hb) h2 rfl (by show P (flushSync s).zlog _; rw [h5]; exact hP.flush _ _ hl)
    | 1 =>
      obtain ⟨h1, h2, h3, h4⟩ := full_sim crc Z lvl s z rest h
      exact post_of h1 (h3.trans hb) h2 rfl (h4 P hP hl)
    | 2 =>
      obtain ⟨h1, h2, h3, h4⟩ := index_sim crc Z lvl s z rest hi h
      exact post_of h1 (h3.trans hb) h2 rfl (h4 P hP hl)
    | k+3 =>
      exact post_of rfl hb (by simpa [evsOp] using h) rfl hl

/-! ### Write -/

theorem wstep_sim (s : XWState) (z : ZSt) (data : List UInt8) (k : Nat) (rest : List ZEv)
    (h : s.oracle = { kind := .zwrite, n := k } :: rest) (hk : k ≤ data.length) (he : s.err = none) :
    proj (wstep s data k) { z with data := z.data ++ data.take k } = aPush (proj s z) (data.take k) ∧
      (wstep s data k).oracle = rest ∧ (wstep s data k).bad = s.bad ∧ (wstep s data k).err = none ∧
      (popEv s .zwrite).1.n = k ∧
      (wstep s data k).zlog = s.zlog ++ [({ kind := .zwrite, n := k }, data.take k)] := by
  have hp := popEv_cons s .zwrite _ rest h rfl
  have hl : (data.take k).length = k := by rw [List.length_take]; omega
  refine ⟨?_, ?_, ?_, ?_, ?_, ?_⟩
  · simp only [wstep, hp, Nat.lt_irrefl, if_false, proj, aPush, absorb_nil, hl, List.length_nil, he]
    simp
  · simp only [wstep, hp, Nat.lt_irrefl, if_false]
  · simp only [wstep, hp, Nat.lt_irrefl, if_false]
  · simp only [wstep, hp, Nat.lt_irrefl, if_false]
  · rw [hp]
  · simp only [wstep, hp, Nat.lt_irrefl, if_false]

theorem evsLoop_succ (n : Int) (fuel : Nat) (z : ZSt) (data : List UInt8) :
    evsLoop Z lvl n (fuel + 1) z data =
      if data.isEmpty then ([], z)
      else if n - z.data.length ≤ 0 then
        (endChunkEvs Z lvl z ++ (evsLoop Z lvl n fuel {} data).1, (evsLoop Z lvl n fuel {} data).2)
      else
        ({ kind := .zwrite, n := min (n - z.data.length).toNat data.length } ::
            (evsLoop Z lvl n fuel { z with data := z.data ++ data.take (min (n - z.data.length).toNat data.length) }
              (data.drop (min (n - z.data.length).toNat data.length))).1,
          (evsLoop Z lvl n fuel { z with data := z.data ++ data.take (min (n - z.data.length).toNat data.length) }
              (data.drop (min (n - z.data.length).toNat data.length))).2) := by
  rw [evsLoop]

theorem writeLoop_sim (P : ZLog → ZSt → Prop) (hP : LogClosed Z lvl P) {n : Int} :
    ∀ (fuel : Nat) (s : XWState) (z : ZSt) (data : List UInt8) (cnt : Nat)
    (rest : List ZEv), s.bad = false → Inv n (proj s z) → P s.zlog z →
    (s.err = none → s.oracle = (evsLoop Z lvl n fuel z data).1 ++ rest) →
    2 * data.length + (if s.nchk - s.zwIn ≤ 0 then 1 else 0) ≤ fuel →
    Post P (writeLoop crc fuel s data cnt).1 (data.foldl (aByte crc Z lvl) (proj s z)) rest
      (evsLoop Z lvl n fuel z data).2
  | 0, s, z, data, cnt, rest, hb, hi, hl, h, hf => by
    have hd : data = [] := List.eq_nil_of_length_eq_zero (by omega)
    subst hd
    simp only [writeLoop, evsLoop, List.nil_append] at h ⊢
    exact ⟨rfl, hb, fun he => ⟨h he, rfl⟩, hl⟩
  | fuel+1, s, z, data, cnt, rest, hb, hi, hl, h, hf => by
    have hn : s.nchk = n := hi.nchk
    subst hn
    have hz : s.zwIn = z.data.length := hi.zwIn
    rw [writeLoop_succ]
    rw [evsLoop_succ] at h ⊢
    by_cases hd : data.isEmpty
    · have hd' : data = [] := List.isEmpty_iff.1 hd
      subst hd'
      rw [if_pos (Or.inl hd)]
      simp only [List.isEmpty_nil, if_true, List.nil_append] at h ⊢
      exact ⟨rfl, hb, fun he => ⟨h he, rfl⟩, hl⟩
    · by_cases he : s.err ≠ none
      · rw [if_pos (Or.inr he), foldl_aByte_dead crc Z lvl data _ he]
        exact post_dead rfl hb he hl
      · have he' : s.err = none := Classical.not_not.1 he
        have h := h he'
        rw [if_neg hd] at h ⊢
        rw [if_neg (by rintro (h1 | h1); exact hd h1; exact he h1)]
        rw [← hz] at h ⊢
        by_cases hr : s.nchk - s.zwIn ≤ 0
        · rw [if_pos hr] at h ⊢
          rw [if_pos hr]
          rw [if_pos hr] at hf
          simp only [List.append_assoc] at h
          obtain ⟨f1, f2, f3, f4⟩ := full_sim crc Z lvl s z _ h
          have hi1 : Inv s.nchk (proj (flushFull crc s) {}) := by rw [f1]; exact aFull_inv crc Z lvl _ hi
          have hfold : data.foldl (aByte crc Z lvl) (proj s z) =
              data.foldl (aByte crc Z lvl) (proj (flushFull crc s) {}) := by
            rw [f1]
            cases data with
            | nil => simp at hd
            | cons x d =>
              rw [List.foldl_cons, List.foldl_cons,
                aByte_full crc Z lvl (proj s z) x he' hr (by rw [hi.nchk]; exact hi.pos)]
          rw [hfold]
          apply writeLoop_sim P hP fuel (flushFull crc s) {} data cnt rest (f3.trans hb) hi1 (f4 P hP hl)
          · intro _; exact f2
          · have h0 : (flushFull crc s).zwIn = 0 := hi1.zwIn
            have h1 : (flushFull crc s).nchk = s.nchk := hi1.nchk
            have := hi1.pos
            rw [if_neg (by omega)]
            omega
        · rw [if_neg hr] at h ⊢
          rw [if_neg hr]
          rw [if_neg hr] at hf
          have hlen : 0 < data.length := by
            cases data with
            | nil => simp at hd
            | cons x d => simp
          generalize hk : min (s.nchk - s.zwIn).toNat data.length = k at h ⊢
          have hk1 : k ≤ data.length := by omega
          have hk2 : (k : Int) ≤ s.nchk - s.zwIn := by omega
          have hk3 : 1 ≤ k := by omega
          obtain ⟨w1, w2, w3, w4, w5, w6⟩ := wstep_sim s z data k _ h hk1 he'
          rw [w5]
          have hlk : (data.take k).length = k := by rw [List.length_take]; omega
          have hfold : data.foldl (aByte crc Z lvl) (proj s z) =
              (data.drop k).foldl (aByte crc Z lvl)
                (proj (wstep s data k) { z with data := z.data ++ data.take k }) := by
            rw [w1]
            conv => lhs; rw [← List.take_append_drop k data]
            rw [List.foldl_append, foldl_aByte_push crc Z lvl (data.take k) (proj s z) he' (by rw [hlk]; exact hk2)]
          have hi1 : Inv s.nchk (proj (wstep s data k) { z with data := z.data ++ data.take k }) := by
            rw [w1]; exact aPush_inv _ _ hi
          rw [hfold]
          have hl1 : P (wstep s data k).zlog { z with data := z.data ++ data.take k } := by
            rw [w6]
            have := hP.write s.zlog z (data.take k) hl
            rw [hlk] at this
            exact this
          apply writeLoop_sim P hP fuel (wstep s data k) _ (data.drop k) (cnt + k) rest (w3.trans hb) hi1 hl1
          · intro _; exact w2
          · rw [List.length_drop]
            split <;> omega

theorem write_sim (P : ZLog → ZSt → Prop) (hP : LogClosed Z lvl P)
    (s : XWState) (z : ZSt) (d : List UInt8) (rest : List ZEv) {n : Int} (hb : s.bad = false)
    (hi : Inv n (proj s z)) (hl : P s.zlog z)
    (h : s.err = none → s.oracle = (evsOp Z lvl n z (.write d)).1 ++ rest) :
    Post P (write crc s d).1 (d.foldl (aByte crc Z lvl) (proj s z)) rest (evsOp Z lvl n z (.write d)).2 := by
  unfold write
  by_cases hd : s.err ≠ none
  · rw [if_pos hd, foldl_aByte_dead crc Z lvl d _ hd]
    exact post_dead rfl hb hd hl
  · rw [if_neg hd]
    have hw := writeLoop_sim crc Z lvl P hP (2 * d.length + 2) s z d 0 rest hb hi hl h (by split <;> omega)
    rcases hl : writeLoop crc (2 * d.length + 2) s d 0 with ⟨s', cnt⟩
    rw [hl] at hw
    exact ⟨hw.eq, hw.bad, hw.orc, hw.lg⟩

/-! ### Close -/

theorem closeTail_sim (s : XWState) (z : ZSt) :
    proj (closeTail s).1 z = aCloseTail (proj s z) ∧ (closeTail s).1.bad = s.bad ∧
      (closeTail s).1.zlog = s.zlog := by
  have he : (proj s z).err = s.err := rfl
  have hk : (proj s z).backSize = s.backSize := rfl
  have hs : (proj s z).sink = s.sink := rfl
  unfold closeTail aCloseTail
  rw [he, hk, hs]
  by_cases hd : s.err ≠ none
  · rw [if_pos hd, if_pos hd]; exact ⟨rfl, rfl, rfl⟩
  · rw [if_neg hd, if_neg hd]
    rcases hm : Meta.encode (footerPayload s.backSize) .fstream with _ | blocks
    · exact ⟨rfl, rfl, rfl⟩
    · simp only
      rcases hem : emitBlocks s.sink blocks 0 with ⟨sk, acc, e⟩
      cases e with
      | some err => exact ⟨rfl, rfl, rfl⟩
      | none =>
        simp only
        split <;> exact ⟨rfl, rfl, rfl⟩

theorem close_sim (P : ZLog → ZSt → Prop) (hP : LogClosed Z lvl P)
    (s : XWState) (z : ZSt) (rest : List ZEv) {n : Int} (hb : s.bad = false)
    (hi : Inv n (proj s z)) (hl : P s.zlog z)
    (h : s.err = none → s.oracle = (evsOp Z lvl n z .close).1 ++ rest) :
    Post P (closeW crc s).1 (aClose crc Z lvl (proj s z)) rest (evsOp Z lvl n z .close).2 := by
  have hne := aClose_err crc Z lvl (proj s z)
  suffices hs : ∃ z1, proj (closeW crc s).1 z1 = aClose crc Z lvl (proj s z) ∧ (closeW crc s).1.bad = false ∧
      P (closeW crc s).1.zlog z1 by
    obtain ⟨z1, h1, h2, h5⟩ := hs
    refine post_dead h1 h2 ?_ h5
    have : (closeW crc s).1.err = (proj (closeW crc s).1 z1).err := rfl
    rw [this, h1]; exact hne
  rw [closeW_eq]
  unfold aClose
  have he : (proj s z).err = s.err := rfl
  rw [he]
  by_cases hc : s.err = some .closed
  · rw [if_pos hc, if_pos hc]; exact ⟨z, rfl, hb, hl⟩
  · rw [if_neg hc, if_neg hc]
    by_cases hd : s.err ≠ none
    · rw [if_pos hd, if_pos hd]; exact ⟨z, rfl, hb, hl⟩
    · rw [if_neg hd, if_neg hd]
      have h := h (Classical.not_not.1 hd)
      by_cases hq : s.zwOut + s.zwIn > 0 ∨ s.recs.length > 0
      · rw [if_pos hq, if_pos (show (proj s z).zwOut + (proj s z).zwIn > 0 ∨ (proj s z).recs.length > 0 from hq)]
        obtain ⟨i1, i2, i3, i4⟩ := index_sim crc Z lvl s z rest hi h
        obtain ⟨c1, c2, c3⟩ := closeTail_sim (flushIndex crc s) (evsIndex Z lvl z).2
        exact ⟨_, by rw [c1, i1], c2.trans (i3.trans hb), by rw [c3]; exact i4 P hP hl⟩
      · rw [if_neg hq, if_neg (show ¬ ((proj s z).zwOut + (proj s z).zwIn > 0 ∨ (proj s z).recs.length > 0) from hq)]
        obtain ⟨c1, c2, c3⟩ := closeTail_sim s z
        exact ⟨_, c1, c2.trans hb, by rw [c3]; exact hl⟩

/-! ### runs -/

theorem step_sim (P : ZLog → ZSt → Prop) (hP : LogClosed Z lvl P)
    (s : XWState) (z : ZSt) (op : WOp) (rest : List ZEv) {n : Int} (hb : s.bad = false)
    (hi : Inv n (proj s z)) (hl : P s.zlog z)
    (h : s.err = none → s.oracle = (evsOp Z lvl n z op).1 ++ rest) :
    Post P (stepW crc s op).1 (aStep crc Z lvl (proj s z) op) rest (evsOp Z lvl n z op).2 := by
  cases op with
  | write d => exact write_sim crc Z lvl P hP s z d rest hb hi hl h
  | flush m => exact flush_sim crc Z lvl P hP s z m rest hb hi hl h
  | close => exact close_sim crc Z lvl P hP s z rest hb hi hl h

theorem run_sim (P : ZLog → ZSt → Prop) (hP : LogClosed Z lvl P) {n : Int} :
    ∀ (ops : List WOp) (s : XWState) (z : ZSt) (rest : List ZEv), s.bad = false →
    Inv n (proj s z) → P s.zlog z → (s.err = none → s.oracle = evsOps Z lvl n z ops ++ rest) →
    ∃ z', proj (runW crc s ops).1 z' = aRun crc Z lvl (proj s z) ops ∧ (runW crc s ops).1.bad = false ∧
      P (runW crc s ops).1.zlog z'
  | [], s, z, _, hb, _, hl, _ => ⟨z, rfl, hb, hl⟩
  | op :: ops, s, z, rest, hb, hi, hl, h => by
    have hp := step_sim crc Z lvl P hP s z op (evsOps Z lvl n (evsOp Z lvl n z op).2 ops ++ rest) hb hi hl
      (by intro he; rw [h he, evsOps, List.append_assoc])
    have hi1 : Inv n (proj (stepW crc s op).1 (aStep crc Z lvl (proj s z) op).z) := by
      rw [hp.eq]; exact aStep_inv crc Z lvl _ op hi
    obtain ⟨z', r1, r2, r3⟩ := run_sim P hP ops (stepW crc s op).1 (aStep crc Z lvl (proj s z) op).z rest hp.bad hi1
      hp.lg (by intro he; obtain ⟨o1, o2⟩ := hp.orc he; rw [o1, o2])
    refine ⟨z', ?_, ?_, ?_⟩
    · have : (runW crc s (op :: ops)).1 = (runW crc (stepW crc s op).1 ops).1 := by
        simp only [runW]
      rw [this, r1, hp.eq]
      rfl
    · have : (runW crc s (op :: ops)).1 = (runW crc (stepW crc s op).1 ops).1 := by
        simp only [runW]
      rw [this]; exact r2
    · have : (runW crc s (op :: ops)).1 = (runW crc (stepW crc s op).1 ops).1 := by
        simp only [runW]
      rw [this]; exact r3

/-- the abstract initial state of `NewWriter(conf)`. -/
def aInit (chunk index : Int) (hasConf : Bool) : AW :=
  { outOff := 0, zwIn := 0, zwOut := 0, recs := [], backSize := 0,
    nidx := if hasConf ∧ index < 0 then -1 else if hasConf ∧ index > 0 then index else defaultIndexSize,
    nchk := effChunk chunk hasConf, err := none, sink := {}, allRecs := [], z := {} }

theorem newWriter_sim (level chunk index : Int) (hasConf : Bool) (orc : List ZEv) (s0 : XWState)
    (h0 : newWriter level chunk index hasConf {} ({ kind := .zreset } :: orc) = some s0) :
    proj s0 {} = aInit chunk index hasConf ∧ s0.bad = false ∧ s0.oracle = orc ∧
      s0.zlog = [({ kind := .zreset }, [])] := by
  unfold newWriter at h0
  split at h0
  · cases h0
  · split at h0
    · cases h0
    · simp only [Option.some.injEq] at h0
      subst h0
      simp only [resetW, zReset, popEv, if_true, proj, aInit, effChunk]
      refine ⟨?_, trivial, trivial, rfl⟩
      have hx : (if (if hasConf = true ∧ index < 0 then (-1 : Int) else if hasConf = true ∧ index > 0 then index else 0) = 0
            then defaultIndexSize
            else if hasConf = true ∧ index < 0 then -1 else if hasConf = true ∧ index > 0 then index else 0) =
          (if hasConf = true ∧ index < 0 then -1 else if hasConf = true ∧ index > 0 then index
            else defaultIndexSize) := by
        by_cases h1 : hasConf = true ∧ index < 0
        · simp only [if_pos h1]; rfl
        · by_cases h2 : hasConf = true ∧ index > 0
          · simp only [if_neg h1, if_pos h2]
            rw [if_neg (by omega)]
          · simp only [if_neg h1, if_neg h2, if_true]
      have hc : (if (if hasConf = true ∧ chunk > 0 then chunk else 0) = 0 then defaultChunkSize
            else if hasConf = true ∧ chunk > 0 then chunk else 0) =
          (if hasConf = true ∧ chunk > 0 then chunk else defaultChunkSize) := by
        by_cases h2 : hasConf = true ∧ chunk > 0
        · simp only [if_pos h2]
          rw [if_neg (by omega)]
        · simp only [if_neg h2, if_true]
      rw [hx, hc]

end Compress.Proofs.XWSplit
