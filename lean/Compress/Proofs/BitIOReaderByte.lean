/-
S4 for ReadByte-only sources, and the generic script induction shared with the
Peek-capable case.
-/
import Compress.Proofs.BitIONat

namespace Compress.Proofs.BitIO
open Compress Compress.Prefix

theorem readBits_eq (r : BR) (nb : Nat) :
    r.readBits nb =
      match r.pullBits nb with
      | (r1, some err) => (r1, .error err)
      | (r1, none) =>
        ({ r1 with bufBits := r1.bufBits / 2 ^ nb, numBits := r1.numBits - nb }, .ok (r1.bufBits % 2 ^ nb)) := by
  unfold BR.readBits
  rcases r.pullBits nb with ⟨r1, _ | e⟩ <;> rfl

/-- script induction: a representation relation preserved by `PullBits` and by
    consuming bits gives the refinement. -/
theorem readScript_of_inv (I : BR → Nat → Nat → Prop)
    (hpull : ∀ r V L n, I r V L → n ≤ 56 →
      (∃ r1, r.pullBits n = (r1, none) ∧ I r1 V L ∧ n ≤ r1.numBits) ∨
      (∃ r1, r.pullBits n = (r1, some .unexpectedEOF) ∧ L < n))
    (hcons : ∀ r V L n, I r V L → n ≤ r.numBits →
      n ≤ L ∧ r.bufBits % 2 ^ n = V % 2 ^ n ∧
      I { r with bufBits := r.bufBits / 2 ^ n, numBits := r.numBits - n } (V / 2 ^ n) (L - n)) :
    ∀ (ns : List Nat) (r : BR) (V L : Nat), I r V L → (∀ n ∈ ns, n ≤ 56) →
      readScript r ns = numSpec V L ns
  | [], _, _, _, _, _ => rfl
  | n :: ns, r, V, L, hI, hn => by
    have hn56 : n ≤ 56 := hn n (by simp)
    rw [readScript, readBits_eq, numSpec]
    rcases hpull r V L n hI hn56 with ⟨r1, hp, hI1, hle⟩ | ⟨r1, hp, hlt⟩
    · rw [hp]
      obtain ⟨h1, h2, h3⟩ := hcons r1 V L n hI1 hle
      simp only []
      rw [if_neg (by omega), h2]
      congr 1
      exact readScript_of_inv I hpull hcons ns _ _ _ h3 (fun m hm => hn m (by simp [hm]))
    · rw [hp]
      simp only []
      rw [if_pos hlt]

/-! ### byte mode -/

structure ByteInv (r : BR) : Prop where
  mode : r.src.buffered? = false
  nofail : r.src.failAfter = none
  nb : r.numBits ≤ 63
  lt : r.bufBits < 2 ^ r.numBits

def absVal (r : BR) : Nat := r.bufBits + 2 ^ r.numBits * le64 r.bigEndian r.src.data
def absLen (r : BR) : Nat := r.numBits + 8 * r.src.data.length

theorem or_shift_eq_add (a c k : Nat) (h : a < 2 ^ k) : a ||| (c * 2 ^ k) = a + c * 2 ^ k := by
  rw [Nat.mul_comm, Nat.or_comm, ← Nat.two_pow_add_eq_or_of_lt h, Nat.add_comm]

theorem absstep (bb c n X : Nat) : bb + c * 2 ^ n + 2 ^ (n + 8) * X = bb + 2 ^ n * (c + 256 * X) := by
  grind

theorem pullBytes_spec (nb : Nat) (hnb : nb ≤ 56) : ∀ (fuel : Nat) (r : BR), ByteInv r →
    nb + 8 ≤ 8 * fuel + r.numBits →
    (∃ r1, BR.pullBytes nb fuel r = (r1, none) ∧ ByteInv r1 ∧ nb ≤ r1.numBits ∧
      absVal r1 = absVal r ∧ absLen r1 = absLen r) ∨
    (∃ r1, BR.pullBytes nb fuel r = (r1, some .unexpectedEOF) ∧ absLen r < nb)
  | 0, r, hI, hf => by
    left; exact ⟨r, rfl, hI, by omega, rfl, rfl⟩
  | fuel+1, r, hI, hf => by
    rw [BR.pullBytes]
    by_cases hge : r.numBits ≥ nb
    · rw [if_pos hge]
      left; exact ⟨r, rfl, hI, hge, rfl, rfl⟩
    · rw [if_neg hge]
      rcases r with ⟨off, bb, nbits, big, bp, db, fb, src⟩
      rcases src with ⟨data, fa, ft, adv, pk, bf⟩
      obtain ⟨hm, hnf, hnb63, hlt⟩ := hI
      simp only at hm hnf hnb63 hlt hge hf
      subst hnf
      cases data with
      | nil =>
        right
        refine ⟨_, rfl, ?_⟩
        simp only [absLen, List.length_nil]; omega
      | cons b rest =>
        simp only [Source.readByte, Source.avail, List.length_cons, ge_iff_le, Nat.le_add_left, if_true]
        have hc := UInt8.toNat_lt (ordByte big b)
        have hpow : 2 ^ (nbits + 8) ≤ two64 := by
          have : two64 = 2 ^ 64 := by decide
          rw [this]; exact Nat.pow_le_pow_right (by omega) (by omega)
        have hsum : bb + (ordByte big b).toNat * 2 ^ nbits < 2 ^ (nbits + 8) := by
          rw [Nat.pow_add]
          have : (ordByte big b).toNat * 2 ^ nbits ≤ 255 * 2 ^ nbits :=
            Nat.mul_le_mul_right _ (by omega)
          omega
        have hval : (bb ||| ((if big = true then revByte b else b).toNat * 2 ^ nbits)) % two64 =
            bb + (ordByte big b).toNat * 2 ^ nbits := by
          change (bb ||| ((ordByte big b).toNat * 2 ^ nbits)) % two64 = _
          rw [or_shift_eq_add _ _ _ hlt, Nat.mod_eq_of_lt (by omega)]
        have ih := pullBytes_spec nb hnb fuel
          { offset := off + 1, bufBits := bb + (ordByte big b).toNat * 2 ^ nbits, numBits := nbits + 8,
            bigEndian := big, bufPeek := bp, discardBits := db, fedBits := fb,
            src := (Source.mk (b :: rest) none ft adv pk bf).consume 1 }
          ⟨hm, rfl, by simp only; omega, hsum⟩ (by simp only; omega)
        simp only [hval]
        have hV : absVal (BR.mk (off + 1) (bb + (ordByte big b).toNat * 2 ^ nbits) (nbits + 8) big bp db fb
              ((Source.mk (b :: rest) none ft adv pk bf).consume 1)) =
            absVal (BR.mk off bb nbits big bp db fb (Source.mk (b :: rest) none ft adv pk bf)) := by
          simp only [absVal, Source.consume, List.drop_succ_cons, List.drop_zero, le64_cons]
          exact absstep _ _ _ _
        have hL : absLen (BR.mk (off + 1) (bb + (ordByte big b).toNat * 2 ^ nbits) (nbits + 8) big bp db fb
              ((Source.mk (b :: rest) none ft adv pk bf).consume 1)) =
            absLen (BR.mk off bb nbits big bp db fb (Source.mk (b :: rest) none ft adv pk bf)) := by
          simp only [absLen, Source.consume, List.drop_succ_cons, List.drop_zero, List.length_cons]
          omega
        rw [hV, hL] at ih
        exact ih

theorem split_pow (b X k n : Nat) (h : n ≤ k) :
    (b + 2 ^ k * X) % 2 ^ n = b % 2 ^ n ∧ (b + 2 ^ k * X) / 2 ^ n = b / 2 ^ n + 2 ^ (k - n) * X := by
  have e : 2 ^ k * X = 2 ^ n * (2 ^ (k - n) * X) := by
    rw [← Nat.mul_assoc, ← Nat.pow_add]; congr 2; omega
  rw [e]
  exact ⟨Nat.add_mul_mod_self_left _ _ _, Nat.add_mul_div_left _ _ (Nat.two_pow_pos n)⟩

def ByteRel (r : BR) (V L : Nat) : Prop := ByteInv r ∧ V = absVal r ∧ L = absLen r

theorem byteRel_pull (r : BR) (V L n : Nat) (hI : ByteRel r V L) (hn : n ≤ 56) :
    (∃ r1, r.pullBits n = (r1, none) ∧ ByteRel r1 V L ∧ n ≤ r1.numBits) ∨
    (∃ r1, r.pullBits n = (r1, some .unexpectedEOF) ∧ L < n) := by
  obtain ⟨hB, rfl, rfl⟩ := hI
  have hm := hB.mode
  have e : r.pullBits n = BR.pullBytes n 9 r := by simp [BR.pullBits, hm]
  rw [e]
  rcases pullBytes_spec n hn 9 r hB (by omega) with ⟨r1, h1, h2, h3, h4, h5⟩ | ⟨r1, h1, h2⟩
  · left; exact ⟨r1, h1, ⟨h2, h4.symm, h5.symm⟩, h3⟩
  · right; exact ⟨r1, h1, h2⟩

theorem byteRel_cons (r : BR) (V L n : Nat) (hI : ByteRel r V L) (hn : n ≤ r.numBits) :
    n ≤ L ∧ r.bufBits % 2 ^ n = V % 2 ^ n ∧
    ByteRel { r with bufBits := r.bufBits / 2 ^ n, numBits := r.numBits - n } (V / 2 ^ n) (L - n) := by
  obtain ⟨hB, rfl, rfl⟩ := hI
  obtain ⟨h1, h2⟩ := split_pow r.bufBits (le64 r.bigEndian r.src.data) r.numBits n hn
  refine ⟨by simp only [absLen]; omega, h1.symm, ⟨hB.mode, hB.nofail, ?_, ?_⟩, ?_, ?_⟩
  · have := hB.nb; simp only; omega
  · simp only
    rw [Nat.div_lt_iff_lt_mul (Nat.two_pow_pos n), ← Nat.pow_add, Nat.sub_add_cancel hn]
    exact hB.lt
  · simp only [absVal]; exact h2
  · simp only [absLen]; omega

theorem reader_refines_byte (data : List UInt8) (big : Bool) (adv : List Nat) (ns : List Nat)
    (hn : ∀ n ∈ ns, n ≤ 56) :
    readScript (BR.init { data := data, bufAdv := adv, buffered? := false } big) ns =
      specReadScript (streamBits big data) ns := by
  rw [specReadScript_eq, toNat_streamBits, length_streamBits]
  refine readScript_of_inv ByteRel byteRel_pull byteRel_cons ns _ _ _ ⟨⟨rfl, rfl, ?_, ?_⟩, ?_, ?_⟩ hn
  · simp [BR.init]
  · simp [BR.init]
  · simp [BR.init, absVal]
  · simp [BR.init, absLen]

end Compress.Proofs.BitIO
