/-
C02 layer (f1): `readPrefixCodes` of the brotli.Reader model = `readCompressedHeader` of the
specification (RFC 7932 section 9.2, the header of a compressed meta-block after MLEN).

Route:
* `PC.pcM rc rbd s`: the bit-reader program inside `Impl.readPrefixCodes`, with the reader of
  NBLTYPES/NTREES (`rc`, it is `ReadSymbol(&decCounts)`) and the block-type header (`rbd`, it is
  `Impl.readBlockDec`) kept abstract (so that no term of type `SimRel` mentions the closed table
  `Impl.decCounts`); `PC.readPrefixCodes_eq`:
  `Impl.readPrefixCodes s = PC.runPC (readSymbol decCounts) readBlockDec s`.  That equation is NOT
  proved by unfolding `Impl.readPrefixCodes s` (the kernel then reduces `match x s.rd with` on the
  closed program and evaluates the 256-entry table, ~30 s): `PC.rpcG` is the value of the definition
  `Impl.readPrefixCodes` with the two readers abstracted (made from the environment by a five-line
  term elaborator), `Impl.readPrefixCodes = rpcG .. ..` holds by delta + beta alone, and
  `rpcG rc rbd s = runPC rc rbd s` is checked with the readers abstract.
* `PC.pcM_sim`: `SimRel (PCOut s) (pcM rc rbd s) readCompressedHeader`.
* `PC.runPC_sim`: unpack at a `Rel`-related state.
* `prefixCodes_sim : PrefixSim → CountsSim → MaxRLESim → PrefixCodesSim`.
-/
import Lean.Elab.Term
import Compress.Proofs.BrImplStreamDefs
import Compress.Proofs.BrImplBlk
import Compress.Proofs.BrImplCtx

namespace Compress.Proofs.BrImpl
open Compress Compress.Brotli

namespace PC

/-! ### plumbing -/

theorem M_bind_assoc {α β γ : Type} (x : Impl.M α) (f : α → Impl.M β) (g : β → Impl.M γ) :
    (x >>= f) >>= g = x >>= fun a => f a >>= g := by
  funext r
  simp only [M_bind_apply]
  rcases x r with ⟨e | a, r1⟩ <;> rfl

theorem Dec_bind_ok {α β : Type} {x : Dec α} {f : α → Dec β} {st st' : St} {b : β}
    (h : (x >>= f) st = (.ok b, st')) : ∃ a s1, x st = (.ok a, s1) ∧ f a s1 = (.ok b, st') := by
  rw [Dec_bind_apply] at h
  rcases hx : x st with ⟨e | a, s1⟩ <;> rw [hx] at h <;> simp only at h
  · injection h with h1 _; cases h1
  · exact ⟨a, s1, rfl, h⟩

/-- the current block type after a block-type header is 0. -/
theorem readBlocksHeader_cur (st st' : St) (b : Blocks)
    (h : Brotli.readBlocksHeader st = (.ok b, st')) : b.cur = 0 := by
  unfold Brotli.readBlocksHeader at h
  obtain ⟨n, s1, _, h⟩ := Dec_bind_ok h
  by_cases h2 : n < 2
  · rw [if_pos h2, Dec_pure_apply] at h
    injection h with h1 _; injection h1 with h1
    subst h1; rfl
  · rw [if_neg h2] at h
    obtain ⟨tc, s2, _, h⟩ := Dec_bind_ok h
    obtain ⟨cc, s3, _, h⟩ := Dec_bind_ok h
    obtain ⟨sy, s4, _, h⟩ := Dec_bind_ok h
    obtain ⟨cnt, s5, _, h⟩ := Dec_bind_ok h
    rw [Dec_pure_apply] at h
    injection h with h1 _; injection h1 with h1
    subst h1; rfl

/-! ### the context modes -/

theorem cmodes_sim : ∀ (n : Nat) (acc : Array Nat), (∀ m ∈ acc, m < 4) →
    SimRel (fun a b => a = b ∧ b.size = acc.size + n ∧ ∀ m ∈ b, m < 4)
      (Impl.readCModes n acc) (Brotli.readContextModes n acc)
  | 0, acc, hacc => SimRel.pure ⟨rfl, rfl, hacc⟩
  | n+1, acc, hacc => by
    show SimRel _ (Impl.readBits 2 >>= fun m => Impl.readCModes n (acc.push m))
      (Brotli.readBits 2 >>= fun m => Brotli.readContextModes n (acc.push m))
    refine SimRel.bind (SimRel.strengthen (readBits_sim 2) (P := fun v => v < 4)
      (fun st b st' h => specReadBits_lt 2 st st' b h)) ?_
    rintro m _ ⟨rfl, hm⟩
    refine SimRel.mono (cmodes_sim n (acc.push m) ?_) ?_
    · intro v hv
      rcases Array.mem_push.mp hv with hv | rfl
      · exact hacc v hv
      · exact hm
    · rintro a b ⟨h1, h2, h3⟩
      refine ⟨h1, ?_, h3⟩
      rw [h2, Array.size_push]; omega

/-! ### the arrays of prefix codes -/

theorem prefixCodesN_sim (hP : PrefixSim) (n : Nat) (h2 : 2 ≤ n) (h704 : n ≤ 704) :
    ∀ (k : Nat) (acc : Array Prefix.Decoder) (acc' : Array PrefixCode), acc.size = acc'.size →
      (∀ i, i < acc'.size → CodeRel n (acc.getD i {}) (acc'.getD i default)) →
      SimRel (fun a b => a.size = b.size ∧ b.size = acc'.size + k ∧
          ∀ i, i < b.size → CodeRel n (a.getD i {}) (b.getD i default))
        (Impl.readPrefixCodesN n k acc) (Brotli.readPrefixCodes n k acc')
  | 0, acc, acc', hs, hc => SimRel.pure ⟨hs, rfl, hc⟩
  | k+1, acc, acc', hs, hc => by
    show SimRel _ (Impl.readPrefixCode n >>= fun d => Impl.readPrefixCodesN n k (acc.push d))
      (Brotli.readPrefixCode n >>= fun c => Brotli.readPrefixCodes n k (acc'.push c))
    refine SimRel.bind (hP n h2 h704) fun d c hdc => ?_
    refine SimRel.mono (prefixCodesN_sim hP n h2 h704 k (acc.push d) (acc'.push c)
      (by rw [Array.size_push, Array.size_push, hs]) ?_) ?_
    · intro i hi
      rw [Array.size_push] at hi
      by_cases hlt : i < acc'.size
      · have e1 : (acc.push d).getD i {} = acc.getD i {} := by
          simp [Array.getD_eq_getD_getElem?, Array.getElem?_push, show i ≠ acc.size by omega]
        have e2 : (acc'.push c).getD i default = acc'.getD i default := by
          simp [Array.getD_eq_getD_getElem?, Array.getElem?_push, show i ≠ acc'.size by omega]
        rw [e1, e2]; exact hc i hlt
      · have hi' : i = acc'.size := by omega
        have e1 : (acc.push d).getD i {} = d := by
          simp [Array.getD_eq_getD_getElem?, show i = acc.size by omega]
        have e2 : (acc'.push c).getD i default = c := by
          simp [Array.getD_eq_getD_getElem?, hi']
        rw [e1, e2]; exact hdc
    · rintro a b ⟨h1, h2, h3⟩
      refine ⟨h1, ?_, h3⟩
      rw [h2, Array.size_push]; omega

/-! ### the context map as one step of a longer program -/

theorem ctx_step (hP : PrefixSim) (rc : Impl.M Nat)
    (hC : SimRel (fun (a b : Nat) => a = b) rc Brotli.readCount256) (hR : MaxRLESim)
    (mtf : Impl.Mtf) (hm : MtfOK mtf) (size : Nat) {α' β' : Type} {R' : α' → β' → Prop}
    (f : Nat → Array Nat × Impl.Mtf → Impl.M α') (g : Nat × Array Nat → Dec β')
    (hf : ∀ (nt : Nat) (cm : Array Nat) (m' : Impl.Mtf), MtfOK m' → cm.size = size → 1 ≤ nt →
      nt ≤ 256 → (∀ v ∈ cm, v < nt) → SimRel R' (f nt (cm, m')) (g (nt, cm))) :
    SimRel R'
      (rc >>= fun nt =>
        if nt ≥ 2 then Impl.readContextMap mtf size nt >>= fun p => f nt p
        else pure (Array.replicate size 0, mtf) >>= fun p => f nt p)
      (Brotli.readContextMap size >>= g) := by
  have h := SimRel.bind (contextMap_sim_gen hP rc hC hR mtf hm size)
    (f := fun a => f a.1 (a.2.1, a.2.2)) (g := g) (R' := R') (by
      rintro ⟨nt, cm, m'⟩ ⟨nt', cm'⟩ ⟨e1, e2, e3, e4, e5, e6, e7⟩
      dsimp only at e1 e2 e3 e4 e5 e6 e7 ⊢
      subst e1 e2
      exact hf nt cm m' e3 e4 e5 e6 e7)
  have e : (rc >>= fun nt =>
        if nt ≥ 2 then Impl.readContextMap mtf size nt >>= fun p => f nt p
        else pure (Array.replicate size 0, mtf) >>= fun p => f nt p) =
      ((rc >>= fun nt =>
        if nt ≥ 2 then Impl.readContextMap mtf size nt >>= fun p => pure (nt, p.1, p.2)
        else pure (Array.replicate size 0, mtf) >>= fun p => pure (nt, p.1, p.2)) >>=
          fun a => f a.1 (a.2.1, a.2.2)) := by
    rw [M_bind_assoc]
    refine congrArg (rc >>= ·) (funext fun nt => ?_)
    by_cases h2 : nt ≥ 2
    · rw [if_pos h2, if_pos h2, M_bind_assoc]
      exact congrArg (_ >>= ·) (funext fun p => rfl)
    · rw [if_neg h2, if_neg h2, M_bind_assoc]
      exact congrArg (_ >>= ·) (funext fun p => rfl)
  rw [e]
  exact h

/-! ### the program -/

/-- the bit-reader program of `Impl.readPrefixCodes`, the reader of NBLTYPES/NTREES and the
    block-type header abstract. -/
def pcM (rc : Impl.M Nat) (rbd : Impl.BlockDec → Impl.M Impl.BlockDec) (s : Impl.State) :
    Impl.M Impl.State := do
  let litBlk ← rbd s.litBlk
  let iacBlk ← rbd s.iacBlk
  let distBlk ← rbd s.distBlk
  let npostfix ← Impl.readBits 2
  let ndirect := (← Impl.readBits 4) <<< npostfix
  let numDistSyms := 16 + ndirect + (48 <<< npostfix)
  let cmodes ← Impl.readCModes litBlk.numTypes #[]
  let numLitTrees ← rc
  let (litMap, mtf) ←
    if numLitTrees ≥ 2 then Impl.readContextMap s.mtf (64 * litBlk.numTypes) numLitTrees
    else pure (Array.replicate (64 * litBlk.numTypes) 0, s.mtf)
  let numDistTrees ← rc
  let (distMap, mtf) ←
    if numDistTrees ≥ 2 then Impl.readContextMap mtf (4 * distBlk.numTypes) numDistTrees
    else pure (Array.replicate (4 * distBlk.numTypes) 0, mtf)
  let litP ← Impl.readPrefixCodesN 256 numLitTrees #[]
  let iacP ← Impl.readPrefixCodesN 704 iacBlk.numTypes #[]
  let distP ← Impl.readPrefixCodesN numDistSyms numDistTrees #[]
  pure { s with
    litBlk := { litBlk with prefixes := litP }, iacBlk := { iacBlk with prefixes := iacP },
    distBlk := { distBlk with prefixes := distP },
    npostfix := npostfix, ndirect := ndirect, cmodes := cmodes, cmode := cmodes.getD 0 0,
    litMap := litMap, litMapOff := 0, distMap := distMap, distMapOff := 0, mtf := mtf,
    step := .commands }

/-- `Impl.readPrefixCodes` around `pcM`. -/
def runPC (rc : Impl.M Nat) (rbd : Impl.BlockDec → Impl.M Impl.BlockDec) : Impl.S Unit := fun s =>
  match pcM rc rbd s s.rd with
  | (.ok s', rd') => (.ok (), { s' with rd := rd' })
  | (.error e, rd') => (.error e, { s with rd := rd' })

open Lean Meta Elab Term in
/-- the value of the definition `Impl.readPrefixCodes` with its two closed readers
    (`Impl.readSymbol Impl.decCounts` and `Impl.readBlockDec`) turned into parameters.  Purpose: the
    kernel must never compare `Impl.readPrefixCodes s` with anything but this very term, or else it
    unfolds the `match x s.rd with` on the closed program and evaluates the table `Impl.decCounts`
    (half a minute). -/
elab "readPrefixCodes_generic%" : term => do
  let some (.defnInfo info) := (← getEnv).find? ``Compress.Brotli.Impl.readPrefixCodes
    | throwError "Impl.readPrefixCodes: not a definition"
  let a := mkApp (Lean.mkConst ``Compress.Brotli.Impl.readSymbol) (Lean.mkConst ``Compress.Brotli.Impl.decCounts)
  let b := Lean.mkConst ``Compress.Brotli.Impl.readBlockDec
  let ta ← inferType a
  let tb ← inferType b
  withLocalDeclD `rc ta fun rc => withLocalDeclD `rbd tb fun rbd => do
    let v := info.value.replace fun e => if e == a then some rc else if e == b then some rbd else none
    mkLambdaFVars #[rc, rbd] v

/-- `Impl.readPrefixCodes`, the two readers abstract. -/
def rpcG : Impl.M Nat → (Impl.BlockDec → Impl.M Impl.BlockDec) → Impl.S Unit :=
  readPrefixCodes_generic%

theorem rpcG_eq : Impl.readPrefixCodes = rpcG (Impl.readSymbol Impl.decCounts) Impl.readBlockDec := by
  delta Impl.readPrefixCodes rpcG
  with_reducible rfl

theorem rpcG_run (rc : Impl.M Nat) (rbd : Impl.BlockDec → Impl.M Impl.BlockDec) (s : Impl.State) :
    rpcG rc rbd s = runPC rc rbd s := by
  unfold rpcG runPC pcM
  rfl

/-- `Impl.readPrefixCodes` is `runPC` at the concrete readers. -/
theorem readPrefixCodes_eq (s : Impl.State) :
    Impl.readPrefixCodes s = runPC (Impl.readSymbol Impl.decCounts) Impl.readBlockDec s :=
  (congrFun rpcG_eq s).trans (rpcG_run _ _ s)

/-- what `pcM` returns from `s`, against the specification's three block states and `Header`. -/
structure PCOut (s s' : Impl.State) (litB cmdB distB : Blocks) (h : Header) : Prop where
  eq : ∃ lb ib db np nd cms cm lm dm mtf,
    s' = { s with litBlk := lb, iacBlk := ib, distBlk := db, npostfix := np, ndirect := nd,
                  cmodes := cms, cmode := cm, litMap := lm, litMapOff := 0, distMap := dm,
                  distMapOff := 0, mtf := mtf, step := .commands }
  hdr : HdrOK s' h litB.ntypes cmdB.ntypes distB.ntypes
  lit : BlkRel s'.litBlk litB
  iac : BlkRel s'.iacBlk cmdB
  dist : BlkRel s'.distBlk distB
  cur : litB.cur = 0 ∧ distB.cur = 0
  cmode : s'.cmode = h.cmodes.getD 0 0
  mtf : MtfOK s'.mtf
  cnt : (litB.ntypes < 2 → litB.count = 2 ^ 24) ∧ (cmdB.ntypes < 2 → cmdB.count = 2 ^ 24) ∧
    (distB.ntypes < 2 → distB.count = 2 ^ 24)

theorem shift_bounds (nd0 np : Nat) (hnd : nd0 < 16) (hnp : np < 4) :
    nd0 <<< np ≤ 120 ∧ 2 ≤ 16 + nd0 <<< np + 48 <<< np ∧ 16 + nd0 <<< np + 48 <<< np ≤ 704 := by
  have : np = 0 ∨ np = 1 ∨ np = 2 ∨ np = 3 := by omega
  rcases this with rfl | rfl | rfl | rfl <;> simp only [Nat.shiftLeft_eq] <;> omega

theorem pcM_sim (hP : PrefixSim) (rc : Impl.M Nat) (rbd : Impl.BlockDec → Impl.M Impl.BlockDec)
    (hC : SimRel (fun (a b : Nat) => a = b) rc Brotli.readCount256)
    (hB : ∀ bd0, SimRel (fun bd b => BlkRel bd b ∧ (b.ntypes < 2 → b.count = 2 ^ 24) ∧
      bd.prefixes = bd0.prefixes) (rbd bd0) Brotli.readBlocksHeader)
    (hR : MaxRLESim) (s : Impl.State) (hm : MtfOK s.mtf) :
    SimRel (fun s' b => PCOut s s' b.1 b.2.1 b.2.2.1 b.2.2.2) (pcM rc rbd s)
      Brotli.readCompressedHeader := by
  have hB' : ∀ bd0, SimRel (fun bd b => (BlkRel bd b ∧ (b.ntypes < 2 → b.count = 2 ^ 24) ∧
      bd.prefixes = bd0.prefixes) ∧ b.cur = 0) (rbd bd0) Brotli.readBlocksHeader := fun bd0 =>
    SimRel.strengthen (hB bd0) (P := fun b => b.cur = 0)
      (fun st b st' h => readBlocksHeader_cur st st' b h)
  unfold pcM Brotli.readCompressedHeader
  refine SimRel.bind (hB' s.litBlk) ?_
  rintro lb litB ⟨⟨hl1, hl2, -⟩, hl3⟩
  refine SimRel.bind (hB' s.iacBlk) ?_
  rintro ib cmdB ⟨⟨hi1, hi2, -⟩, hi3⟩
  refine SimRel.bind (hB' s.distBlk) ?_
  rintro db distB ⟨⟨hd1, hd2, -⟩, hd3⟩
  refine SimRel.bind (SimRel.strengthen (readBits_sim 2) (P := fun v => v < 4)
    (fun st b st' h => specReadBits_lt 2 st st' b h)) ?_
  rintro np _ ⟨rfl, hnp⟩
  refine SimRel.bind (SimRel.strengthen (readBits_sim 4) (P := fun v => v < 16)
    (fun st b st' h => specReadBits_lt 4 st st' b h)) ?_
  rintro nd0 _ ⟨rfl, hnd0⟩
  obtain ⟨hnd, h48a, h48b⟩ := shift_bounds nd0 np hnd0 hnp
  have hntL : lb.numTypes = litB.ntypes := hl1.1
  have hntI : ib.numTypes = cmdB.ntypes := hi1.1
  have hntD : db.numTypes = distB.ntypes := hd1.1
  dsimp only
  rw [← hntL, ← hntI, ← hntD]
  refine SimRel.bind (cmodes_sim lb.numTypes #[] (by simp)) ?_
  rintro cms _ ⟨rfl, hcs, hcm⟩
  refine ctx_step hP rc hC hR s.mtf hm (64 * lb.numTypes) _ _ ?_
  intro ntL cmL m1 hm1 hszL h1L h256L hltL
  dsimp only
  refine ctx_step hP rc hC hR m1 hm1 (4 * db.numTypes) _ _ ?_
  intro ntD cmD m2 hm2 hszD h1D h256D hltD
  dsimp only
  refine SimRel.bind (prefixCodesN_sim hP 256 (by omega) (by omega) ntL #[] #[] rfl (by simp)) ?_
  rintro litP treesL ⟨hL1, hL2, hL3⟩
  refine SimRel.bind (prefixCodesN_sim hP 704 (by omega) (by omega) ib.numTypes #[] #[] rfl (by simp)) ?_
  rintro iacP treesI ⟨hI1, hI2, hI3⟩
  refine SimRel.bind (prefixCodesN_sim hP (16 + nd0 <<< np + 48 <<< np) h48a h48b
    ntD #[] #[] rfl (by simp)) ?_
  rintro distP treesD ⟨hD1, hD2, hD3⟩
  simp only [List.size_toArray, List.length_nil, Nat.zero_add] at hcs hL2 hI2 hD2
  rw [hntL] at hcs hszL
  rw [hntI] at hI2
  rw [hntD] at hszD
  refine SimRel.pure ?_
  exact
    { eq := ⟨_, _, _, _, _, _, _, _, _, _, rfl⟩
      hdr :=
        { npostfix := ⟨rfl, by show np ≤ 3; omega⟩
          ndirect := ⟨rfl, hnd⟩
          cmodes := ⟨rfl, hcs, hcm⟩
          litMap := ⟨rfl, hszL, fun v hv => by show v < treesL.size; rw [hL2]; exact hltL v hv⟩
          distMap := ⟨rfl, hszD, fun v hv => by show v < treesD.size; rw [hD2]; exact hltD v hv⟩
          litTrees := ⟨hL1, hL3⟩
          iacTrees := ⟨hI1, hI2, hI3⟩
          distTrees := ⟨hD1, hD3⟩ }
      lit := hl1
      iac := hi1
      dist := hd1
      cur := ⟨hl3, hd3⟩
      cmode := rfl
      mtf := hm2
      cnt := ⟨hl2, hi2, hd2⟩ }

/-! ### unpacking at related states -/

theorem runPC_sim (rc : Impl.M Nat) (rbd : Impl.BlockDec → Impl.M Impl.BlockDec)
    (hsim : ∀ s : Impl.State, MtfOK s.mtf →
      SimRel (fun s' b => PCOut s s' b.1 b.2.1 b.2.2.1 b.2.2.2) (pcM rc rbd s)
        Brotli.readCompressedHeader)
    (ws : Nat) (s1 : Impl.State) (st1 : St) (ds : Dists) (del : List UInt8)
    (hrel : Rel ws s1 st1 ds del) :
    match Brotli.readCompressedHeader st1 with
    | (.ok (litB, cmdB, distB, h), st2) =>
      ∃ s2 k, runPC rc rbd s1 = (.ok (), s2) ∧ k ≤ st1.bits.length ∧ st2 = stAt st1 k ∧
        s2.step = .commands ∧
        Rel ws s2 st2 ds del ∧ s2.blkLen = s1.blkLen ∧ s2.last = s1.last ∧ s2.dict = s1.dict ∧
        CmdRel s2 h { mlen := s1.blkLen.toNat, litB := litB, cmdB := cmdB, distB := distB,
                       d1 := ds.d1, d2 := ds.d2, d3 := ds.d3, d4 := ds.d4 } ∧
        (litB.ntypes < 2 → litB.count = 2 ^ 24) ∧ (cmdB.ntypes < 2 → cmdB.count = 2 ^ 24) ∧
        (distB.ntypes < 2 → distB.count = 2 ^ 24)
    | (.error _, st2) =>
      ∃ e s2, runPC rc rbd s1 = (.error e, s2) ∧ e ≠ .eof ∧ s2.dict = s1.dict ∧ st2.out = st1.out := by
  have h0 := hsim s1 hrel.mtf st1
  unfold SimAt at h0
  rw [← hrel.rd] at h0
  unfold runPC
  rcases hx : pcM rc rbd s1 s1.rd with ⟨e | s', r⟩ <;>
    rcases hy : Brotli.readCompressedHeader st1 with ⟨e' | ⟨litB, cmdB, distB, h⟩, st2⟩ <;>
    rw [hx, hy] at h0 <;> simp only at h0 ⊢
  · exact ⟨e, _, rfl, h0.1, rfl, h0.2⟩
  · obtain ⟨k, hk, hr, hs, hout⟩ := h0
    obtain ⟨⟨lb, ib, db, np, nd, cms, cm, lm, dm, mtf, rfl⟩, hhdr, hlit, hiac, hdist, hcur, hcmode,
      hmtf, hcnt⟩ := hout
    subst hr hs
    refine ⟨_, k, rfl, hk, rfl, rfl, ?_, rfl, rfl, rfl, ?_, hcnt⟩
    · exact
        { toRead := hrel.toRead
          err := hrel.err
          sub := hrel.sub
          word := hrel.word
          rd := rfl
          win := hrel.win
          avail := hrel.avail
          dists := hrel.dists
          dpos := hrel.dpos
          aligned := by
            have := hrel.aligned
            simp only [stAt_used, stAt_bits, List.length_drop]
            omega
          mtf := hmtf }
    · exact
        { hdr := ⟨hhdr.npostfix, hhdr.ndirect, hhdr.cmodes, hhdr.litMap, hhdr.distMap, hhdr.litTrees,
            hhdr.iacTrees, hhdr.distTrees⟩
          lit := hlit
          iac := hiac
          dist := hdist
          litMapOff := by show 0 = 64 * litB.cur; rw [hcur.1]
          cmode := by show cm = h.cmodes.getD litB.cur 0; rw [hcur.1]; exact hcmode
          distMapOff := by show 0 = 4 * distB.cur; rw [hcur.2]
          dists := hrel.dists }

end PC

/-- **(f1)** `readPrefixCodes` = `readCompressedHeader`. -/
theorem prefixCodes_sim (hP : PrefixSim) (hC : CountsSim) (hR : MaxRLESim) : PrefixCodesSim := by
  intro ws s1 st1 ds del hrel _
  rw [PC.readPrefixCodes_eq s1]
  exact @PC.runPC_sim (Impl.readSymbol Impl.decCounts) Impl.readBlockDec
    (fun s hm => @PC.pcM_sim hP (Impl.readSymbol Impl.decCounts) Impl.readBlockDec (@hC)
      (fun bd0 => @blockDec_sim hP (@hC) bd0) hR s hm)
    ws s1 st1 ds del hrel

end Compress.Proofs.BrImpl
