/-
Prefix-monotonicity of the parsers of the bzip2.Reader model, up to the block body.
-/
import Compress.Proofs.BzImplMonoDefs
import Compress.Proofs.BzImplBlock
import Compress.Proofs.BzImplTabD
import Compress.Proofs.BzImplMonoParseBlock

namespace Compress.Proofs.BzImpl
open Compress Compress.Bzip2 Compress.Prefix
open Compress.Bzip2.Impl (Err M State)

/-- the tables `ReadPrefixCodes` builds (both paths) are monotone and consume input. -/
theorem treeOfLens_ok (lens : List Nat) (numSyms : Nat) (h : LensOK lens numSyms) (d : Decoder)
    (hd : Impl.treeOfLens lens = some d) : TreeOK d :=
  treeOfLens_ok' lens numSyms h d hd

theorem decSel_ok : TreeOK Impl.decSel := decSel_ok'

theorem mono_readBitsBE64 (n : Nat) : Mono (Impl.readBitsBE64 n) := mono_readBitsBE64' n

theorem mono_readSymMap : Mono Impl.readSymMap := mono_readSymMap'

/-- the whole block body: stored CRC ... symbols, MTF, origin pointer, inverse BWT. -/
theorem mono_blockBody (level : Nat) : Mono (fun bits =>
    match Impl.blockBody level bits with
    | .ok (buf, crc, rest) => .ok ((buf, crc), rest)
    | .error e => .error e) := mono_blockBody' level

end Compress.Proofs.BzImpl
