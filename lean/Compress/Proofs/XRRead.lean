/-
`Reader.Read` refines reading from the plaintext (C07).
-/
import Compress.XFlate.ReaderSpec
import Compress.Proofs.XRIndex
import Compress.Proofs.XRSeek

namespace Compress.Proofs.XRRead
open Compress.XFlate Compress.Proofs.XRIndex Compress.Proofs.XRSeek

/-! ### slices -/

theorem take_drop_sub {α} (l : List α) (A M z c : Nat) (h : z + c ≤ M) :
    (((l.drop A).take M).drop z).take c = (l.drop (A + z)).take c := by
  rw [List.drop_take, List.take_take, List.drop_drop]
  congr 1
  omega

theorem slice_length (plain : List UInt8) (a b : Int) (ha : 0 ≤ a) (hab : a ≤ b)
    (hb : b ≤ plain.length) : (slice plain a b).length = (b - a).toNat := by
  unfold slice
  rw [List.length_take, List.length_drop]
  omega

theorem slice_sub (plain : List UInt8) (a b : Int) (z c : Nat) (ha : 0 ≤ a)
    (h : (z : Int) + c ≤ b - a) :
    ((slice plain a b).drop z).take c = slice plain (a + z) (a + z + c) := by
  unfold slice
  rw [take_drop_sub _ _ _ _ _ (by omega)]
  have h1 : (a + (z : Int)).toNat = a.toNat + z := by omega
  have h2 : (a + (z : Int) + (c : Int) - (a + (z : Int))).toNat = c := by omega
  rw [h1, h2]

section
variable {L : Layout} {plain : List UInt8}

theorem seg_out_len (wf : WellFormed L plain) (j : Nat) (hj : j ≤ L.recs.length) :
    ((L.seg j).out.length : Int) = (getRecords L.recs j).2.raw - (getRecords L.recs j).1.raw := by
  have hb := seg_bounds wf j hj
  rw [wf.segOut j hj, slice_length plain _ _ hb.1 hb.2.1 (by rw [← wf.endEq]; exact hb.2.2)]
  omega

/-- the segment's output length is the chunk's raw size. -/
theorem inv_out_len (wf : WellFormed L plain) (s : RState) (inv : Inv L s) :
    ((L.seg s.seg).out.length : Int) = s.chk.rsize := by
  rw [seg_out_len wf s.seg inv.segLe, inv.chkEq]

/-! ### the discard step -/

theorem discard_ok (wf : WellFormed L plain) (s : RState) (inv : Inv L s) :
    Inv L (discardStep L s) ∧ (discardStep L s).err = s.err ∧ (discardStep L s).discard = 0 ∧
    (discardStep L s).offset = s.offset := by
  have hlen := inv_out_len wf s inv
  obtain ⟨segLe, riEq, chkEq, discNonneg, within, offNonneg, posEq, errOK, beyond⟩ := inv
  unfold discardStep
  by_cases hd : s.discard > 0
  · rw [if_pos hd]
    have hle : s.discard ≤ (((L.seg s.seg).out.length - s.zout : Nat) : Int) := by omega
    rw [if_pos hle]
    refine ⟨⟨segLe, riEq, chkEq, Int.le_refl _, ?_, offNonneg, ?_, errOK, beyond⟩, rfl, rfl, rfl⟩
    · show ((s.zout + s.discard.toNat : Nat) : Int) + 0 ≤ s.chk.rsize
      omega
    · show min s.offset L.endRaw =
        (getRecords L.recs s.seg).1.raw + ((s.zout + s.discard.toNat : Nat) : Int) + 0
      omega
  · rw [if_neg hd]
    have : s.discard = 0 := by omega
    exact ⟨⟨segLe, riEq, chkEq, discNonneg, within, offNonneg, posEq, errOK, beyond⟩, rfl, this, rfl⟩

/-! ### advancing inside a segment -/

/-- the state after the inflater has handed out `k` more bytes. -/
@[reducible] def stepState (s : RState) (k : Nat) : RState :=
  { s with zout := s.zout + k, offset := s.offset + (k : Int) }

theorem inv_tail_off (s : RState) (inv : Inv L s) (h : s.seg = L.recs.length) :
    L.endRaw ≤ s.offset ∧ s.zout = 0 ∧ s.discard = 0 := by
  obtain ⟨segLe, riEq, chkEq, discNonneg, within, offNonneg, posEq, errOK, beyond⟩ := inv
  have ht := seg_tail L
  rw [← h] at ht
  have hrs : s.chk.rsize = (getRecords L.recs s.seg).2.raw - (getRecords L.recs s.seg).1.raw := by
    rw [chkEq]
  omega

theorem inv_off_le (s : RState) (inv : Inv L s) (h : s.seg < L.recs.length) :
    s.offset ≤ L.endRaw := by
  by_cases h' : L.endRaw < s.offset
  · have := inv.beyond h'; omega
  · omega

theorem inv_advance (wf : WellFormed L plain) (s : RState) (inv : Inv L s) (hd : s.discard = 0)
    (cnt : Nat) (hc : s.zout + cnt ≤ (L.seg s.seg).out.length) :
    Inv L (stepState s cnt) := by
  have hlen := inv_out_len wf s inv
  have hb := seg_bounds wf s.seg inv.segLe
  have htl := inv_tail_off s inv
  have hol := inv_off_le s inv
  obtain ⟨segLe, riEq, chkEq, discNonneg, within, offNonneg, posEq, errOK, beyond⟩ := inv
  have hrs : s.chk.rsize = (getRecords L.recs s.seg).2.raw - (getRecords L.recs s.seg).1.raw := by
    rw [chkEq]
  refine ⟨segLe, riEq, chkEq, discNonneg, ?_, ?_, ?_, errOK, ?_⟩
  · show ((s.zout + cnt : Nat) : Int) + s.discard ≤ s.chk.rsize
    omega
  · show 0 ≤ s.offset + (cnt : Int); omega
  · show min (s.offset + (cnt : Int)) L.endRaw =
      (getRecords L.recs s.seg).1.raw + ((s.zout + cnt : Nat) : Int) + s.discard
    rcases Nat.lt_or_eq_of_le segLe with h | h
    · have := hol h; omega
    · have := htl h; omega
  · show L.endRaw < s.offset + (cnt : Int) → s.seg = L.recs.length
    intro hlt
    rcases Nat.lt_or_eq_of_le segLe with h | h
    · have := hol h; omega
    · exact h

/-- the bytes handed out are the plaintext at the current position. -/
theorem segBytes_eq (wf : WellFormed L plain) (s : RState) (inv : Inv L s) (hd : s.discard = 0)
    (cnt : Nat) (hc : s.zout + cnt ≤ (L.seg s.seg).out.length) (hpos : 0 < cnt) :
    segBytes L s cnt = slice plain s.offset (s.offset + cnt) ∧ (segBytes L s cnt).length = cnt := by
  have hlen := seg_out_len wf s.seg inv.segLe
  have hb := seg_bounds wf s.seg inv.segLe
  have htl := inv_tail_off s inv
  have hol := inv_off_le s inv
  have hseg : s.seg < L.recs.length := by
    rcases Nat.lt_or_eq_of_le inv.segLe with h | h
    · exact h
    · have := seg_tail L; rw [← h] at this; omega
  have hoff : s.offset = (getRecords L.recs s.seg).1.raw + s.zout := by
    have := inv.posEq; have := hol hseg; omega
  constructor
  · unfold segBytes
    rw [wf.segOut s.seg inv.segLe, slice_sub plain _ _ _ _ hb.1 (by omega), hoff]
  · unfold segBytes
    rw [List.length_take, List.length_drop]; omega

/-! ### moving on to the next segment -/

theorem seek_advance (wf : WellFormed L plain) (s : RState) (herr : s.err = none)
    (hoff0 : 0 ≤ s.offset) (hsegle : s.seg ≤ L.recs.length)
    (hri : s.ri = min (s.seg + 1) L.recs.length)
    (h1 : s.seg < L.recs.length → s.offset = (getRecords L.recs s.seg).2.raw)
    (h2 : s.seg = L.recs.length → L.endRaw ≤ s.offset) :
    seek .fixed L s s.offset 0 =
      (slowState L s s.offset (min (s.seg + 1) L.recs.length), s.offset, none) := by
  rw [seek_eq L s s.offset 0 (Or.inl herr)]
  have hsp : specSeek L.endRaw s.offset s.offset 0 = some s.offset := by
    simp [specSeek, Int.not_lt.2 hoff0]
  rw [hsp]
  have hnf : ¬ fastCond s s.offset := by
    unfold fastCond; omega
  show seekTo L s s.offset = _
  unfold seekTo
  rw [if_neg hnf]
  have hpick : pickRi L s s.offset = min (s.seg + 1) L.recs.length := by
    have hok := pickRi_ok wf s (by omega) s.offset hoff0
    unfold pickRi at hok ⊢
    split
    · rename_i hc
      rw [if_pos hc] at hok
      rcases Nat.lt_or_eq_of_le hsegle with h | h
      · exfalso
        apply hc
        have hb := seg_bounds wf (s.seg + 1) (by omega)
        have hn := seg_next L s.seg h
        have hm : min (s.seg + 1) L.recs.length = s.seg + 1 := by omega
        rw [hri, hm, h1 h]
        omega
      · have ht := seg_tail L
        have hm : min (s.seg + 1) L.recs.length = L.recs.length := by omega
        have hlt : L.endRaw < s.offset := by
          rcases Int.lt_or_eq_of_le (h2 h) with h' | h'
          · exact h'
          · exfalso; apply hc; rw [hri, hm]; omega
        rw [hm]
        rcases hok.2.2 with h3 | h3
        · have hb := seg_bounds wf _ hok.1; omega
        · exact h3
    · exact hri
  rw [hpick]

/-- the state after a verified chunk: positioned at the start of the next
    segment, with `io.EOF` latched when that is the tail. -/
def nextState (L : Layout) (s1 : RState) : RState :=
  if (slowState L s1 s1.offset (min (s1.seg + 1) L.recs.length)).chk.typ = unknownType
  then { slowState L s1 s1.offset (min (s1.seg + 1) L.recs.length) with err := some .eof }
  else slowState L s1 s1.offset (min (s1.seg + 1) L.recs.length)

theorem readLoop_eof (wf : WellFormed L plain) (n fuel : Nat) (s : RState) (adv : Adv) (k : Nat)
    (inv : Inv L s) (herr : s.err = none) (hd : s.discard = 0)
    (hfull : s.zout + k = (L.seg s.seg).out.length)
    (hz : zrRead (L.seg s.seg) s.zout n (adv.head?.getD (n, true)) = (k, some none)) :
    readLoop .fixed L n (fuel+1) s adv =
      if k = 0 ∧ (nextState L (stepState s k)).err = none
      then readLoop .fixed L n fuel
            (nextState L (stepState s k))
            (if (L.seg s.seg).out.length - s.zout = 0 ∨ n = 0 then adv else adv.tail)
      else some (nextState L (stepState s k),
                 segBytes L s k) := by
  have inv1 := inv_advance wf s inv hd k (by omega)
  have hlen := inv_out_len wf s inv
  have hchk := inv.chkEq
  have hc1 : ¬ (s.chk.typ = deflateType ∧ (L.seg s.seg).sync ≠ 65535) := by
    intro ⟨a, b⟩
    apply b
    apply wf.segSync s.seg inv.segLe
    rw [hchk] at a; exact a
  have hc2 : ¬ ((if s.chk.typ ≠ footerType then s.chk.csize + endBlockLen else s.chk.csize) ≠
      (L.seg s.seg).inOff ∨ s.chk.rsize ≠ ((s.zout + k : Nat) : Int)) := by
    have hin := wf.segIn s.seg inv.segLe
    have ht : s.chk.typ = (getRecords L.recs s.seg).2.typ := by rw [hchk]
    have hcs : s.chk.csize = (getRecords L.recs s.seg).2.comp - (getRecords L.recs s.seg).1.comp := by
      rw [hchk]
    rw [hin, ← ht, ← hcs]
    unfold endBlockLen
    intro h
    rcases h with h | h
    · apply h; by_cases hf : s.chk.typ = footerType <;> simp [hf]
    · apply h; omega
  rw [readLoop]
  simp only [hz]
  rw [if_neg hc1, if_neg hc2]
  generalize hsk : seek Variant.fixed L _ (s.offset + (k : Int)) 0 = r
  have hb := seg_bounds wf s.seg inv.segLe
  have hsa := seek_advance wf
    { ri := s.ri, offset := s.offset + ↑k, discard := s.discard,
      chk := { csize := if s.chk.typ ≠ footerType then s.chk.csize + endBlockLen else s.chk.csize,
               rsize := s.chk.rsize, typ := s.chk.typ },
      seg := s.seg, zout := s.zout + k, err := s.err, fetched := s.fetched }
    herr inv1.offNonneg inv.segLe inv.riEq
    (by
      intro hlt
      have hlt' : s.seg < L.recs.length := hlt
      have hle : s.offset + (k : Int) ≤ L.endRaw := inv_off_le _ inv1 hlt'
      have hrs : s.chk.rsize = (getRecords L.recs s.seg).2.raw - (getRecords L.recs s.seg).1.raw := by
        rw [hchk]
      show s.offset + (k : Int) = (getRecords L.recs s.seg).2.raw
      have hp' : min (s.offset + (k : Int)) L.endRaw =
          (getRecords L.recs s.seg).1.raw + ((s.zout + k : Nat) : Int) + s.discard := inv1.posEq
      clear hlt
      omega)
    (by
      intro heq
      exact (inv_tail_off _ inv1 heq).1)
  rw [hsk] at hsa
  subst hsa
  rfl

theorem nextState_props (wf : WellFormed L plain) (s1 : RState) (inv1 : Inv L s1)
    (hd : s1.discard = 0) (hfull : (s1.zout : Int) = s1.chk.rsize) :
    Inv L (nextState L s1) ∧ (nextState L s1).offset = s1.offset ∧
    (nextState L s1).discard = 0 ∧ (nextState L s1).seg = min (s1.seg + 1) L.recs.length ∧
    (s1.seg + 1 < L.recs.length → (nextState L s1).err = none) ∧
    (L.recs.length ≤ s1.seg + 1 → (nextState L s1).err = some .eof ∧ L.endRaw ≤ s1.offset) ∧
    (s1.seg < L.recs.length → s1.offset ≤ L.endRaw) := by
  have hsegle := inv1.segLe
  have hidx : min (s1.seg + 1) L.recs.length ≤ L.recs.length := by omega
  have hb := seg_bounds wf s1.seg hsegle
  have hb' := seg_bounds wf _ hidx
  have ht := seg_tail L
  have hrs : s1.chk.rsize = (getRecords L.recs s1.seg).2.raw - (getRecords L.recs s1.seg).1.raw := by
    rw [inv1.chkEq]
  have hpos := inv1.posEq
  have htl := inv_tail_off s1 inv1
  have hol := inv_off_le s1 inv1
  have hprev : (getRecords L.recs (min (s1.seg + 1) L.recs.length)).1.raw ≤ s1.offset ∧
      (s1.seg < L.recs.length →
        (getRecords L.recs (min (s1.seg + 1) L.recs.length)).1.raw = s1.offset) := by
    rcases Nat.lt_or_eq_of_le hsegle with h | h
    · have hm : min (s1.seg + 1) L.recs.length = s1.seg + 1 := by omega
      have := seg_next L s1.seg h
      have := hol h
      rw [hm]; omega
    · have hm : min (s1.seg + 1) L.recs.length = L.recs.length := by omega
      have := htl h
      rw [hm]; omega
  have hupper : s1.offset ≤ (getRecords L.recs (min (s1.seg + 1) L.recs.length)).2.raw ∨
      min (s1.seg + 1) L.recs.length = L.recs.length := by
    rcases Nat.lt_or_eq_of_le hsegle with h | h
    · left; have := hprev.2 h; omega
    · right; omega
  have inv3 := inv_slow wf s1 s1.offset _ inv1.offNonneg hidx hprev.1 hupper
  have hmm : min (min (s1.seg + 1) L.recs.length) L.recs.length = min (s1.seg + 1) L.recs.length := by
    omega
  have hd3 : (slowState L s1 s1.offset (min (s1.seg + 1) L.recs.length)).discard = 0 := by
    have h3 := inv3.posEq
    have hz : (slowState L s1 s1.offset (min (s1.seg + 1) L.recs.length)).zout = 0 := rfl
    have ho : (slowState L s1 s1.offset (min (s1.seg + 1) L.recs.length)).offset = s1.offset := rfl
    have hs : (slowState L s1 s1.offset (min (s1.seg + 1) L.recs.length)).seg =
        min (s1.seg + 1) L.recs.length := hmm
    have hdn := inv3.discNonneg
    rw [hz, ho, hs] at h3
    rcases Nat.lt_or_eq_of_le hsegle with h | h
    · have := hprev.2 h; have := hol h; omega
    · have hm : min (s1.seg + 1) L.recs.length = L.recs.length := by omega
      have ht' : (getRecords L.recs (min (s1.seg + 1) L.recs.length)).1.raw = L.endRaw := by
        rw [hm]; exact ht.1
      have := htl h
      omega
  have htyp : (slowState L s1 s1.offset (min (s1.seg + 1) L.recs.length)).chk.typ =
      (getRecords L.recs (min (s1.seg + 1) L.recs.length)).2.typ := rfl
  have hlast : s1.seg < L.recs.length → s1.offset ≤ L.endRaw := hol
  by_cases hu : (slowState L s1 s1.offset (min (s1.seg + 1) L.recs.length)).chk.typ = unknownType
  · have hn : L.recs.length ≤ s1.seg + 1 := by
      rcases Nat.lt_or_ge (s1.seg + 1) L.recs.length with h | h
      · exfalso
        have hm : min (s1.seg + 1) L.recs.length = s1.seg + 1 := by omega
        rw [htyp, hm] at hu
        exact seg_typ wf _ h hu
      · exact h
    have hm : min (s1.seg + 1) L.recs.length = L.recs.length := by omega
    have hge : L.endRaw ≤ s1.offset := by
      rcases Nat.lt_or_eq_of_le hsegle with h | h
      · have := hprev.2 h; rw [hm] at this; omega
      · exact (htl h).1
    unfold nextState
    rw [if_pos hu]
    obtain ⟨a1, a2, a3, a4, a5, a6, a7, a8, a9⟩ := inv3
    refine ⟨⟨a1, a2, a3, a4, a5, a6, a7, Or.inr ⟨rfl, ?_⟩, a9⟩, rfl, hd3, hmm, ?_, ?_, hlast⟩
    · show min (min (s1.seg + 1) L.recs.length) L.recs.length = L.recs.length
      omega
    · intro h; omega
    · intro _; exact ⟨rfl, hge⟩
  · have hn : s1.seg + 1 < L.recs.length := by
      rcases Nat.lt_or_ge (s1.seg + 1) L.recs.length with h | h
      · exact h
      · exfalso
        have hm : min (s1.seg + 1) L.recs.length = L.recs.length := by omega
        rw [htyp, hm] at hu
        exact hu ht.2.2.1
    unfold nextState
    rw [if_neg hu]
    refine ⟨inv3, rfl, hd3, hmm, ?_, ?_, hlast⟩
    · intro _; rfl
    · intro h; omega

/-! ### the inflater's choices -/

theorem zr_zero (si : SegInfo) (zout n : Nat) (c : Nat × Bool) (h : si.out.length - zout = 0) :
    zrRead si zout n c = (0, some si.fin) := by
  unfold zrRead
  simp [h]

theorem zr_pos (si : SegInfo) (zout n : Nat) (c : Nat × Bool) (h : si.out.length - zout ≠ 0)
    (hn : n ≠ 0) :
    ∃ k, 1 ≤ k ∧ k ≤ n ∧ k ≤ si.out.length - zout ∧
      (zrRead si zout n c = (k, none) ∨
       (k = si.out.length - zout ∧ zrRead si zout n c = (k, some si.fin))) := by
  refine ⟨max 1 (min c.1 (min n (si.out.length - zout))), by omega, by omega, by omega, ?_⟩
  unfold zrRead
  simp only [h, hn, if_false]
  split
  · rename_i hc
    right
    simp only [Bool.and_eq_true, decide_eq_true_eq] at hc
    exact ⟨hc.1, rfl⟩
  · left; rfl

theorem readLoop_data (n fuel : Nat) (s : RState) (adv : Adv) (k : Nat) (hk : k ≠ 0)
    (hz : zrRead (L.seg s.seg) s.zout n (adv.head?.getD (n, true)) = (k, none)) :
    readLoop .fixed L n (fuel+1) s adv =
      some ((stepState s k), segBytes L s k) := by
  rw [readLoop]
  simp only [hz]
  rw [if_neg hk]

theorem seg_lt_of_out (wf : WellFormed L plain) (s : RState) (inv : Inv L s)
    (h : (L.seg s.seg).out.length ≠ 0) : s.seg < L.recs.length := by
  have hlen := seg_out_len wf s.seg inv.segLe
  rcases Nat.lt_or_eq_of_le inv.segLe with h' | h'
  · exact h'
  · have := seg_tail L; rw [← h'] at this; omega

theorem readOK_data (pos : Int) (n : Nat) (data : List UInt8) (err : Option Err) (k : Nat)
    (hdata : data = slice plain pos (pos + k)) (hlen : data.length = k) (hk1 : 1 ≤ k)
    (hkn : k ≤ n) (hlt : pos + k ≤ plain.length)
    (herr : err = none ∨ (err = some .eof ∧ pos + k = plain.length)) :
    ReadOK plain pos n data err := by
  refine ⟨by rw [hlen]; exact hdata, by omega, ?_, by intro h; omega, ?_, ?_⟩
  · rcases herr with h | h
    · exact Or.inl h
    · exact Or.inr h.1
  · intro _ _
    refine ⟨by omega, ?_⟩
    intro he
    rcases herr with h | h
    · rw [h] at he; exact absurd he (by simp)
    · rw [hlen]; exact h.2
  · intro _ h; omega

theorem readOK_eof (pos : Int) (n : Nat) (hn : 0 < n) (hge : (plain.length : Int) ≤ pos) :
    ReadOK plain pos n [] (some .eof) := by
  refine ⟨by simp [slice], by simp, Or.inr rfl, by intro h; omega, ?_, ?_⟩
  · intro _ h; omega
  · intro _ _; exact ⟨rfl, rfl⟩

/-- The read loop returns, with the right bytes, within `#segments left + 1` iterations. -/
theorem readLoop_ok (wf : WellFormed L plain) (n : Nat) (hn : 0 < n) :
    ∀ (fuel : Nat) (s : RState) (adv : Adv), Inv L s → s.err = none → s.discard = 0 →
      (L.recs.length - s.seg) + 1 ≤ fuel →
      ∃ s' data, readLoop .fixed L n fuel s adv = some (s', data) ∧
        ReadOK plain s.offset n data s'.err ∧ Inv L s' ∧ s'.offset = s.offset + data.length := by
  intro fuel
  induction fuel with
  | zero => intro s adv _ _ _ h; omega
  | succ fuel ih =>
    intro s adv inv herr hd hfuel
    have hlen := inv_out_len wf s inv
    have hwithin := inv.within
    have hfin := wf.segFin s.seg inv.segLe
    have hend := wf.endEq
    by_cases hrem : (L.seg s.seg).out.length - s.zout = 0
    · -- the segment is exhausted: verify, move on
      have hz := zr_zero (L.seg s.seg) s.zout n (adv.head?.getD (n, true)) hrem
      rw [hfin] at hz
      have hfull : s.zout + 0 = (L.seg s.seg).out.length := by omega
      have inv1 := inv_advance wf s inv hd 0 (by omega)
      have hstep := readLoop_eof wf n fuel s adv 0 inv herr hd hfull hz
      obtain ⟨inv4, hoff4, hd4, hseg4, herr4a, herr4b, _⟩ :=
        nextState_props wf (stepState s 0)
          inv1 hd (by show ((s.zout + 0 : Nat) : Int) = s.chk.rsize; omega)
      have hoff4' : (nextState L (stepState s 0)).offset = s.offset := by
        rw [hoff4]; show s.offset + ((0 : Nat) : Int) = s.offset; omega
      rw [hstep]
      by_cases hnext : s.seg + 1 < L.recs.length
      · have he := herr4a hnext
        rw [if_pos ⟨rfl, he⟩]
        have hseg4' : (nextState L (stepState s 0)).seg = s.seg + 1 := by
          rw [hseg4]; show min (s.seg + 1) L.recs.length = s.seg + 1; omega
        obtain ⟨s', data, h1, h2, h3, h4⟩ := ih _
          (if (L.seg s.seg).out.length - s.zout = 0 ∨ n = 0 then adv else adv.tail)
          inv4 he hd4 (by rw [hseg4']; omega)
        rw [hoff4'] at h2 h4
        exact ⟨s', data, h1, h2, h3, h4⟩
      · obtain ⟨he, hge⟩ := herr4b (show L.recs.length ≤ s.seg + 1 by omega)
        have hge' : L.endRaw ≤ s.offset := by
          have : L.endRaw ≤ s.offset + ((0 : Nat) : Int) := hge
          omega
        have hcond : ¬ (0 = 0 ∧ (nextState L (stepState s 0)).err = none) := by
          rw [he]; simp
        rw [if_neg hcond]
        refine ⟨_, _, rfl, ?_, inv4, ?_⟩
        · rw [he]
          have : segBytes L s 0 = [] := by simp [segBytes]
          rw [this]
          exact readOK_eof s.offset n hn (by omega)
        · rw [hoff4']; simp [segBytes]
    · -- there is data: the loop returns on this iteration
      have hseg := seg_lt_of_out wf s inv (by omega)
      obtain ⟨k, hk1, hkn, hkr, hz⟩ :=
        zr_pos (L.seg s.seg) s.zout n (adv.head?.getD (n, true)) hrem (by omega)
      have hc : s.zout + k ≤ (L.seg s.seg).out.length := by omega
      have inv1 := inv_advance wf s inv hd k hc
      obtain ⟨hdata, hdlen⟩ := segBytes_eq wf s inv hd k hc (by omega)
      have hle1 : s.offset + (k : Int) ≤ L.endRaw := inv_off_le _ inv1 hseg
      rcases hz with hz | ⟨hkeq, hz⟩
      · rw [readLoop_data n fuel s adv k (by omega) hz]
        refine ⟨_, _, rfl, ?_, inv1, ?_⟩
        · exact readOK_data s.offset n _ _ k hdata hdlen hk1 hkn (by omega) (Or.inl herr)
        · rw [hdlen]
      · rw [hfin] at hz
        have hfull : s.zout + k = (L.seg s.seg).out.length := by omega
        have hstep := readLoop_eof wf n fuel s adv k inv herr hd hfull hz
        obtain ⟨inv4, hoff4, hd4, hseg4, herr4a, herr4b, _⟩ :=
          nextState_props wf (stepState s k)
            inv1 hd (by show ((s.zout + k : Nat) : Int) = s.chk.rsize; omega)
        have hcond : ¬ (k = 0 ∧ (nextState L (stepState s k)).err = none) := by
          intro h; omega
        rw [hstep, if_neg hcond]
        refine ⟨_, _, rfl, ?_, inv4, ?_⟩
        · apply readOK_data s.offset n _ _ k hdata hdlen hk1 hkn (by omega)
          by_cases hnext : s.seg + 1 < L.recs.length
          · exact Or.inl (herr4a hnext)
          · obtain ⟨he, hge⟩ := herr4b (show L.recs.length ≤ s.seg + 1 by omega)
            have hge' : L.endRaw ≤ s.offset + (k : Int) := hge
            exact Or.inr ⟨he, by omega⟩
        · rw [hoff4, hdlen]

end

end Compress.Proofs.XRRead
