/-
C02 refinement: the bit-level primitives of the model and of the specification
agree (`ReadBits` = "an n-bit integer", `ReadPads` + check = "skip to the byte
boundary, the bits must be zero").
-/
import Compress.Proofs.BrImplDefs

namespace Compress.Proofs.BrImpl
open Compress Compress.Brotli

theorem readBit_cons (b : Bool) (bits : Bits) (used : Nat) (out : Array UInt8) :
    Brotli.readBit { bits := b :: bits, used := used, out := out } =
      (.ok b, { bits := bits, used := used + 1, out := out }) := rfl

theorem readBit_nil (used : Nat) (out : Array UInt8) :
    Brotli.readBit { bits := [], used := used, out := out } =
      (.error .unexpectedEOF, { bits := [], used := used, out := out }) := rfl

theorem specReadBits_zero (st : St) : Brotli.readBits 0 st = (.ok 0, st) := rfl

theorem specReadBits_succ (n : Nat) (st : St) :
    Brotli.readBits (n+1) st =
      match Brotli.readBit st with
      | (.ok b, s1) =>
        (match Brotli.readBits n s1 with
         | (.ok v, s2) => (.ok ((if b then 1 else 0) + 2 * v), s2)
         | (.error e, s2) => (.error e, s2))
      | (.error e, s1) => (.error e, s1) := by
  show (Brotli.readBit >>= fun b => Brotli.readBits n >>= fun v => pure ((if b then 1 else 0) + 2 * v)) st = _
  rw [Dec_bind_apply]
  rcases Brotli.readBit st with ⟨e | b, s1⟩
  · rfl
  · simp only [Dec_bind_apply]
    rcases Brotli.readBits n s1 with ⟨e | v, s2⟩ <;> rfl

/-- the specification's `readBits` in closed form. -/
theorem specReadBits_eq (n : Nat) : ∀ st : St,
    (n ≤ st.bits.length → Brotli.readBits n st = (.ok (Bits.toNat (st.bits.take n)), stAt st n)) ∧
    (st.bits.length < n → ∃ st', Brotli.readBits n st = (.error .unexpectedEOF, st') ∧ st'.out = st.out) := by
  induction n with
  | zero =>
    intro st
    refine ⟨fun _ => ?_, fun h => by omega⟩
    rw [specReadBits_zero, stAt_zero]; simp [Bits.toNat]
  | succ n ih =>
    intro st
    rcases st with ⟨bits, used, out⟩
    cases bits with
    | nil =>
      refine ⟨fun h => by simp at h, fun _ => ?_⟩
      rw [specReadBits_succ, readBit_nil]
      exact ⟨_, rfl, rfl⟩
    | cons b rest =>
      rw [specReadBits_succ, readBit_cons]
      dsimp only
      have := ih { bits := rest, used := used + 1, out := out }
      constructor
      · intro h
        have h' : n ≤ rest.length := by simpa using h
        rw [this.1 h']
        simp only [stAt, List.take_succ_cons, List.drop_succ_cons, Bits.toNat]
        congr 2; omega
      · intro h
        have h' : rest.length < n := by simpa using h
        obtain ⟨st', h1, h2⟩ := this.2 h'
        rw [h1]
        exact ⟨st', rfl, h2⟩

theorem implReadBits_eq (n : Nat) (r : Impl.BR) :
    Impl.readBits n r =
      if r.bits.length < n then (.error .unexpectedEOF, r)
      else (.ok (Bits.toNat (r.bits.take n)), { bits := r.bits.drop n, used := r.used + n }) := by
  unfold Impl.readBits
  simp only [List.length_take]
  by_cases h : r.bits.length < n
  · rw [if_pos (by omega), if_pos h]
  · rw [if_neg (by omega), if_neg h]

/-- `ReadBits(n)` = "an n-bit unsigned integer, least significant bit first". -/
theorem readBits_sim (n : Nat) : Sim (Impl.readBits n) (Brotli.readBits n) := by
  intro st
  by_cases h : st.bits.length < n
  · obtain ⟨st', h1, h2⟩ := (specReadBits_eq n st).2 h
    have hx : Impl.readBits n (brOf st) = (.error .unexpectedEOF, brOf st) := by
      rw [implReadBits_eq, if_pos (by simpa using h)]
    simp only [SimAt, hx, h1]
    exact ⟨by decide, h2⟩
  · have h1 := (specReadBits_eq n st).1 (by omega)
    have hx : Impl.readBits n (brOf st) = (.ok (Bits.toNat (st.bits.take n)), brOf (stAt st n)) := by
      rw [implReadBits_eq, if_neg (by simpa using h)]; rfl
    simp only [SimAt, hx, h1]
    exact ⟨n, by omega, rfl, rfl, trivial⟩

/-- one bit as a flag: the model reads `ReadBits(1) == 1`. -/
theorem readBit_sim : SimRel (fun (a : Nat) (b : Bool) => (a == 1) = b) (Impl.readBits 1) Brotli.readBit := by
  intro st
  rcases st with ⟨bits, used, out⟩
  cases bits with
  | nil =>
    have hx : Impl.readBits 1 (brOf { bits := [], used := used, out := out }) =
        (.error .unexpectedEOF, brOf { bits := [], used := used, out := out }) := by
      rw [implReadBits_eq, if_pos (by simp)]
    simp only [SimAt, hx, readBit_nil]
    exact ⟨by decide, trivial⟩
  | cons b rest =>
    have hx : Impl.readBits 1 (brOf { bits := b :: rest, used := used, out := out }) =
        (.ok (Bits.toNat [b]), brOf (stAt { bits := b :: rest, used := used, out := out } 1)) := by
      rw [implReadBits_eq, if_neg (by simp)]; rfl
    simp only [SimAt, hx, readBit_cons]
    refine ⟨1, by simp, rfl, rfl, ?_⟩
    cases b <;> simp [Bits.toNat]

/-- the specification's `alignToByte` in closed form. -/
theorem alignToByte_eq (st : St) :
    let pad := (8 - st.used % 8) % 8
    (pad ≤ st.bits.length →
      Brotli.alignToByte st =
        if Bits.toNat (st.bits.take pad) ≠ 0 then (.error .corrupt, stAt st pad) else (.ok (), stAt st pad)) ∧
    (st.bits.length < pad → ∃ st', Brotli.alignToByte st = (.error .unexpectedEOF, st') ∧ st'.out = st.out) := by
  intro pad
  have hdef : Brotli.alignToByte st =
      (match Brotli.readBits pad st with
       | (.ok p, s1) => if p ≠ 0 then (.error .corrupt, s1) else (.ok (), s1)
       | (.error e, s1) => (.error e, s1)) := by
    simp only [Brotli.alignToByte, bind, Dec.bind]
    rcases Brotli.readBits pad st with ⟨e | p, s1⟩
    · rfl
    · dsimp only
      by_cases hp : p ≠ 0
      · simp only [if_pos hp]; rfl
      · simp only [if_neg hp]; rfl
  constructor
  · intro h
    rw [hdef, (specReadBits_eq pad st).1 h]
  · intro h
    obtain ⟨st', h1, h2⟩ := (specReadBits_eq pad st).2 h
    rw [hdef, h1]
    exact ⟨st', rfl, h2⟩

theorem readPads_eq (r : Impl.BR) :
    Impl.readPads r =
      (.ok (Bits.toNat (r.bits.take ((8 - r.used % 8) % 8))),
        { bits := r.bits.drop ((8 - r.used % 8) % 8), used := r.used + (8 - r.used % 8) % 8 }) := rfl

/-- `ReadPads() > 0 → corrupted` = `alignToByte`, when the input is whole bytes. -/
theorem readPads_sim :
    ∀ st : St, (st.used + st.bits.length) % 8 = 0 →
      SimAt (· = ·) (do let p ← Impl.readPads; if p > 0 then Impl.panic .corrupted else pure ()) Brotli.alignToByte st := by
  intro st h8
  have hpad : (8 - st.used % 8) % 8 ≤ st.bits.length := by omega
  have h1 := (alignToByte_eq st).1 hpad
  have hx : (do let p ← Impl.readPads; if p > 0 then Impl.panic .corrupted else pure () : Impl.M Unit) (brOf st) =
      if Bits.toNat (st.bits.take ((8 - st.used % 8) % 8)) > 0 then
        (.error .corrupted, brOf (stAt st ((8 - st.used % 8) % 8)))
      else (.ok (), brOf (stAt st ((8 - st.used % 8) % 8))) := by
    rw [M_bind_apply, readPads_eq]
    dsimp only [brOf_bits, brOf_used]
    by_cases hp : Bits.toNat (st.bits.take ((8 - st.used % 8) % 8)) > 0
    · rw [if_pos hp, if_pos hp]; rfl
    · rw [if_neg hp, if_neg hp]; rfl
  by_cases hp : Bits.toNat (st.bits.take ((8 - st.used % 8) % 8)) ≠ 0
  · rw [if_pos hp] at h1
    rw [if_pos (by omega)] at hx
    simp only [SimAt, hx, h1]
    exact ⟨by decide, rfl⟩
  · rw [if_neg hp] at h1
    rw [if_neg (by omega)] at hx
    simp only [SimAt, hx, h1]
    exact ⟨_, hpad, rfl, rfl, trivial⟩

end Compress.Proofs.BrImpl
