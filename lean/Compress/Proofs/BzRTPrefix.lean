/-
bzip2 round trip: what `encodePrefix` writes (tree count, selectors, code
lengths, code words) is read back by the steps of `readBlock`.
-/
import Compress.Proofs.BzRTBits
import Compress.Proofs.BzRTSels
import Compress.Proofs.BzRTLens
import Compress.Proofs.BzRTTreeLens
import Compress.Proofs.BzRTCTab
import Compress.Proofs.BzRTSyms

namespace Compress.Proofs.BzRT
open Compress Compress.Bzip2 Compress.Prefix

/-! ### `mapM` in `Option` -/

theorem mapM_some {α β : Type} (f : α → Option β) : ∀ (l : List α) (r : List β), l.mapM f = some r →
    r.length = l.length ∧ ∀ i (hi : i < l.length), f l[i] = r[i]?
  | [], r, h => by
    simp only [List.mapM_nil] at h
    cases h
    exact ⟨rfl, fun i hi => by simp at hi⟩
  | a :: l, r, h => by
    rw [List.mapM_cons] at h
    cases ha : f a with
    | none => rw [ha] at h; cases h
    | some b =>
      cases hl : l.mapM f with
      | none => rw [ha, hl] at h; cases h
      | some bs =>
        rw [ha, hl] at h
        cases h
        obtain ⟨h1, h2⟩ := mapM_some f l bs hl
        refine ⟨by simp [h1], fun i hi => ?_⟩
        cases i with
        | zero => simpa using ha
        | succ i => simpa using h2 i (by simpa using hi)

theorem mapM_total {α β : Type} (f : α → Option β) : ∀ (l : List α), (∀ a ∈ l, ∃ b, f a = some b) →
    ∃ r, l.mapM f = some r
  | [], _ => ⟨[], rfl⟩
  | a :: l, h => by
    obtain ⟨b, hb⟩ := h a (by simp)
    obtain ⟨bs, hbs⟩ := mapM_total f l (fun x hx => h x (by simp [hx]))
    exact ⟨b :: bs, by rw [List.mapM_cons, hb, hbs]; rfl⟩

/-! ### `treeCounts` -/

theorem treeCounts_go_size (numTrees t : Nat) : ∀ (l : List Nat) (i : Nat) (acc : Array Nat),
    (treeCounts.go numTrees t l i acc).size = acc.size
  | [], _, _ => rfl
  | s :: rest, i, acc => by
    rw [treeCounts.go, treeCounts_go_size numTrees t rest]
    split <;> simp

theorem treeCounts_length (syms : List Nat) (numSyms numTrees t : Nat) :
    (treeCounts syms numSyms numTrees t).length = numSyms := by
  simp [treeCounts, treeCounts_go_size]

theorem numTreesFor_range (n : Nat) : 2 ≤ numTreesFor n ∧ numTreesFor n ≤ 6 := by
  unfold numTreesFor
  split; · omega
  split; · omega
  split; · omega
  split <;> omega

/-! ### the body is at least as long as the symbol list -/

theorem bodyAux_length (W : Nat → Nat → Bits) (numTrees numSyms : Nat) (hnt : 0 < numTrees)
    (hW : ∀ t s, t < numTrees → s < numSyms → 1 ≤ (W t s).length) :
    ∀ (rem : List Nat) (i : Nat), (∀ s ∈ rem, s < numSyms) → rem.length ≤ (bodyAux W numTrees rem i).length
  | [], _, _ => by simp [bodyAux]
  | s :: r, i, h => by
    have h1 := hW ((i / numBlockSyms) % numTrees) s (Nat.mod_lt _ hnt) (h s (by simp))
    have h2 := bodyAux_length W numTrees numSyms hnt hW r (i + 1) (fun x hx => h x (by simp [hx]))
    simp only [bodyAux, List.length_append, List.length_cons]
    omega

/-! ### totality of `encodePrefix` -/

theorem encodePrefix_total (syms0 : List Nat) (nd : Nat) (hnd : nd ≤ 256) :
    ∃ pb, encodePrefix syms0 nd = some pb := by
  unfold encodePrefix
  simp only []
  obtain ⟨r, hr⟩ := mapM_total
    (fun t => treeLens (treeCounts (syms0 ++ [nd + 2 - 1]) (nd + 2) (numTreesFor (syms0 ++ [nd + 2 - 1]).length) t))
    (List.range (numTreesFor (syms0 ++ [nd + 2 - 1]).length))
    (fun t _ => treeLens_total _ (by rw [treeCounts_length]; simp [maxPrefixBits]; omega))
  rw [hr]
  exact ⟨_, rfl⟩

/-! ### reading back -/

theorem prefix_read (syms0 : List Nat) (nd limit : Nat) (hnd : 1 ≤ nd ∧ nd ≤ 256)
    (hs : ∀ s ∈ syms0, s ≤ nd) (hlim : syms0.length ≤ limit) (hlim2 : syms0.length ≤ 900000)
    (pb : Bits) (h : encodePrefix syms0 nd = some pb) (rest : Bits) :
    ∃ numTrees numSels selsM tabs b5 b6 b7 b8,
      2 ≤ numTrees ∧ numTrees ≤ 6 ∧
      readBE 3 (pb ++ rest) = some (numTrees, b5) ∧
      readBE 15 b5 = some (numSels, b6) ∧
      readSels numTrees numSels [] b6 = .ok (selsM, b7) ∧
      readTables numTrees (nd + 2) [] b7 = .ok (tabs, b8) ∧
      readSyms tabs.toArray (mtfSels selsM (List.range 6) []).toArray (nd + 2) limit (b8.length + 2)
        0 0 0 [] b8 = .ok (syms0, rest) := by
  unfold encodePrefix at h
  simp only [] at h
  generalize hsyms : syms0 ++ [nd + 2 - 1] = syms at h
  generalize hnT : numTreesFor syms.length = numTrees at h
  generalize hnS : (syms.length + numBlockSyms - 1) / numBlockSyms = numSels at h
  obtain ⟨hT2, hT6⟩ : 2 ≤ numTrees ∧ numTrees ≤ 6 := hnT ▸ numTreesFor_range _
  cases hm : (List.range numTrees).mapM fun t => treeLens (treeCounts syms (nd + 2) numTrees t) with
  | none => rw [hm] at h; cases h
  | some allLens =>
    rw [hm] at h
    simp only [Option.some.injEq] at h
    obtain ⟨hL, hget⟩ := mapM_some _ _ _ hm
    simp only [List.length_range] at hL hget
    -- facts about every table
    have hall : ∀ lens ∈ allLens, lens.length = nd + 2 ∧ (∀ l ∈ lens, 1 ≤ l ∧ l ≤ maxPrefixBits) ∧
        KraftComplete lens := by
      intro lens hlens
      obtain ⟨t, ht, rfl⟩ := List.getElem_of_mem hlens
      have := hget t (by omega)
      rw [List.getElem_range, List.getElem?_eq_getElem ht] at this
      have := treeLens_ok _ (by rw [treeCounts_length]; omega) _ this
      rw [treeCounts_length] at this
      exact this
    have hslen : syms.length = syms0.length + 1 := by rw [← hsyms]; simp
    have hnS' : numSels = syms0.length / 50 + 1 := by
      rw [← hnS, hslen]; simp only [numBlockSyms]; omega
    obtain ⟨hsel1, hsel2⟩ := sels_roundtrip numTrees numSels (by omega) hT6
      ((allLens.map lensBits).flatten ++
        ((List.range syms.length).map fun i =>
          ((allLens.map codeWords).getD ((i / numBlockSyms) % numTrees) []).getD (syms.getD i 0) []).flatten ++ rest)
    have htab := readTables_lensBits (nd + 2) (by omega) allLens
      (fun lens hl => ⟨(hall lens hl).1, (hall lens hl).2.1⟩) []
      (((List.range syms.length).map fun i =>
          ((allLens.map codeWords).getD ((i / numBlockSyms) % numTrees) []).getD (syms.getD i 0) []).flatten ++ rest)
    rw [hL] at htab
    simp only [List.reverse_nil, List.nil_append] at htab
    simp only [List.append_assoc] at hsel1 htab h
    refine ⟨numTrees, numSels, mtfSelsEncode ((List.range numSels).map (· % numTrees)) (List.range 6) [],
      allLens.map mkCTab, ?_, ?_, ?_, ?_, hT2, hT6, ?_, ?_, ?_, ?_, ?_⟩
    rotate_left 4
    · rw [← h]
      simp only [List.append_assoc]
      exact readBE_bitsBE numTrees 3 (by omega) _
    · exact readBE_bitsBE numSels 15 (by omega) _
    · exact hsel1
    · exact htab
    · rw [hsel2]
      -- the word function
      let W : Nat → Nat → Bits := fun t s => ((allLens.map codeWords).getD t []).getD s []
      have hbody : ((List.range syms.length).map fun i =>
          ((allLens.map codeWords).getD ((i / numBlockSyms) % numTrees) []).getD (syms.getD i 0) []).flatten
          = bodyAux W numTrees syms 0 := body_eq W numTrees syms
      rw [hbody]
      have hWt : ∀ t, t < numTrees → ∃ lens, lens ∈ allLens ∧ allLens[t]? = some lens ∧
          ∀ s, W t s = (codeWords lens).getD s [] := by
        intro t ht
        have ht' : t < allLens.length := by omega
        refine ⟨allLens[t], List.getElem_mem ht', List.getElem?_eq_getElem ht', fun s => ?_⟩
        simp [W, List.getD_eq_getElem?_getD, List.getElem?_eq_getElem ht']
      have hdec : ∀ t s rest, t < numTrees → s < nd + 2 →
          ((allLens.map mkCTab).toArray.getD t default).decode (nd + 2) (W t s ++ rest) = .sym s rest := by
        intro t s rest ht hs
        obtain ⟨lens, hmem, hget, hW⟩ := hWt t ht
        obtain ⟨l1, l2, l3⟩ := hall lens hmem
        have ht' : t < allLens.length := by omega
        have e : (allLens.map mkCTab).toArray.getD t default = mkCTab lens := by
          have : allLens[t] = lens := by
            rw [List.getElem?_eq_getElem ht'] at hget; exact Option.some.inj hget
          simp [Array.getD_eq_getD_getElem?, ht', this]
        rw [e, hW]
        have := (decode_codeWord lens (by omega) (by omega) l2 l3 s (by omega) rest).2
        rwa [l1] at this
      have hWlen : ∀ t s, t < numTrees → s < nd + 2 → 1 ≤ (W t s).length := by
        intro t s ht hs
        obtain ⟨lens, hmem, hget, hW⟩ := hWt t ht
        obtain ⟨l1, l2, l3⟩ := hall lens hmem
        rw [hW, (decode_codeWord lens (by omega) (by omega) l2 l3 s (by omega) []).1]
        have hs' : s < lens.length := by omega
        have : lens.getD s 0 ∈ lens := by
          simp [List.getD_eq_getElem?_getD, List.getElem?_eq_getElem hs']
        exact (l2 _ this).1
      have hfuel : syms0.length < (bodyAux W numTrees syms 0 ++ rest).length + 2 := by
        have := bodyAux_length W numTrees (nd + 2) (by omega) hWlen syms 0 (by
          intro s hs'
          rw [← hsyms] at hs'
          rcases List.mem_append.1 hs' with h' | h'
          · have := hs s h'; omega
          · simp at h'; omega)
        rw [List.length_append]
        omega
      have := readSyms_body (allLens.map mkCTab).toArray
        ((List.range numSels).map (· % numTrees)).toArray (nd + 2) limit numTrees numSels W rfl hdec
        (by omega) (by omega) rest syms0 0 ((bodyAux W numTrees syms 0 ++ rest).length + 2) []
        (fun s hs' => by have := hs s hs'; omega) (by rw [hnS']; omega) (by omega) hfuel
      subst hsyms
      simpa using this

end Compress.Proofs.BzRT
