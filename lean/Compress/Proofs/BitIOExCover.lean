/-
C11 helper: a prefix-free, Kraft-complete list of distinct codes covers every
bit-buffer value (counting argument), so the decode table has no holes.
-/
import Compress.Proofs.PrefixTables
import Compress.Proofs.PrefixCodesAux

namespace Compress.Proofs.BitIOExact
open Compress Compress.Prefix Compress.Proofs.PrefixTables

/-- number of `v < N` with `p v`. -/
def cnt (p : Nat → Bool) : Nat → Nat
  | 0 => 0
  | n+1 => cnt p n + (if p n then 1 else 0)

theorem cnt_congr (p q : Nat → Bool) : ∀ (N : Nat), (∀ v, v < N → p v = q v) → cnt p N = cnt q N
  | 0, _ => rfl
  | n+1, h => by
    simp only [cnt]
    rw [cnt_congr p q n (fun v hv => h v (by omega)), h n (by omega)]

theorem cnt_add (p : Nat → Bool) (a : Nat) : ∀ (b : Nat),
    cnt p (a + b) = cnt p a + cnt (fun v => p (a + v)) b
  | 0 => rfl
  | b+1 => by
    rw [← Nat.add_assoc]
    simp only [cnt]
    rw [cnt_add p a b]; omega

theorem cnt_eq (val : Nat) : ∀ (T : Nat), cnt (fun v => v == val) T = if val < T then 1 else 0
  | 0 => rfl
  | T+1 => by
    simp only [cnt]
    rw [cnt_eq val T]
    by_cases h1 : val < T
    · have : ¬ T = val := by omega
      simp [h1, this]; omega
    · by_cases h2 : T = val
      · subst h2; simp
      · have : ¬ val < T + 1 := by omega
        simp [h1, h2, this]

theorem cnt_residue (l val : Nat) (h : val < 2 ^ l) : ∀ (K : Nat),
    cnt (fun v => v % 2 ^ l == val) (2 ^ l * K) = K
  | 0 => rfl
  | K+1 => by
    rw [Nat.mul_succ, cnt_add, cnt_residue l val h K]
    have e : cnt (fun v => (2 ^ l * K + v) % 2 ^ l == val) (2 ^ l) = cnt (fun v => v == val) (2 ^ l) := by
      apply cnt_congr
      intro v hv
      rw [Nat.mul_add_mod, Nat.mod_eq_of_lt hv]
    rw [e, cnt_eq, if_pos h]

/-- the bit-buffer value `v` starts with the code `c`. -/
def hit (v : Nat) (c : Code) : Bool := v % 2 ^ c.len == c.val

/-- total number of (value, code) hits below `N`. -/
def tot (cs : List Code) : Nat → Nat
  | 0 => 0
  | n+1 => tot cs n + cs.countP (hit n)

theorem tot_nil : ∀ N, tot [] N = 0
  | 0 => rfl
  | n+1 => by simp [tot, tot_nil n]

theorem tot_cons (c : Code) (cs : List Code) : ∀ N,
    tot (c :: cs) N = cnt (fun v => hit v c) N + tot cs N
  | 0 => rfl
  | n+1 => by
    simp only [tot, cnt, List.countP_cons, tot_cons c cs n]
    omega

theorem tot_eq_kraft (M : Nat) : ∀ (cs : List Code), (∀ c ∈ cs, c.len ≤ M ∧ c.val < 2 ^ c.len) →
    tot cs (2 ^ M) = kraftScaled (cs.map (·.len)) M
  | [], _ => by simp [tot_nil, kraftScaled]
  | c :: cs, h => by
    obtain ⟨h1, h2⟩ := h c (by simp)
    rw [tot_cons, List.map_cons, PrefixCodes.kraftScaled_cons,
      tot_eq_kraft M cs (fun d hd => h d (by simp [hd]))]
    congr 1
    have e : 2 ^ M = 2 ^ c.len * 2 ^ (M - c.len) := by
      rw [← Nat.pow_add]; congr 1; omega
    rw [e]
    exact cnt_residue c.len c.val h2 _

theorem tot_pigeon (cs : List Code) : ∀ N, (∀ v, v < N → cs.countP (hit v) ≤ 1) →
    tot cs N ≤ N ∧ (tot cs N = N → ∀ v, v < N → cs.countP (hit v) = 1)
  | 0, _ => ⟨Nat.le_refl _, fun _ v hv => by omega⟩
  | n+1, h => by
    obtain ⟨ih1, ih2⟩ := tot_pigeon cs n (fun v hv => h v (by omega))
    have hn := h n (by omega)
    simp only [tot]
    refine ⟨by omega, ?_⟩
    intro he v hv
    rcases Nat.lt_succ_iff_lt_or_eq.mp hv with hv | rfl
    · exact ih2 (by omega) v hv
    · omega

theorem countP_le_one {α} (p : α → Bool) : ∀ (l : List α), l.Nodup →
    (∀ a ∈ l, ∀ b ∈ l, p a = true → p b = true → a = b) → l.countP p ≤ 1
  | [], _, _ => by simp
  | a :: l, hnd, h => by
    rw [List.nodup_cons] at hnd
    have ih := countP_le_one p l hnd.2 (fun x hx y hy => h x (by simp [hx]) y (by simp [hy]))
    rw [List.countP_cons]
    by_cases hp : p a = true
    · have h0 : l.countP p = 0 := by
        rw [List.countP_eq_zero]
        intro b hb hpb
        have := h a (by simp) b (by simp [hb]) hp hpb
        subst this
        exact hnd.1 hb
      rw [h0, if_pos hp]; omega
    · rw [if_neg hp]; omega

/-- **No holes.** Every bit-buffer value starts with one of the codes. -/
theorem cover (cs : List Code) (h : GoodCodes cs) (hnd : cs.Nodup) (v : Nat) :
    ∃ c ∈ cs, v % 2 ^ c.len = c.val := by
  have hM := le_maxLen cs
  have hk : tot cs (2 ^ maxLen cs) = 2 ^ maxLen cs := by
    rw [tot_eq_kraft _ cs (fun c hc => ⟨hM c hc, h.vals c hc⟩)]
    apply h.complete
    intro l hl
    obtain ⟨c, hc, rfl⟩ := List.mem_map.mp hl
    exact hM c hc
  have hle : ∀ w, w < 2 ^ maxLen cs → cs.countP (hit w) ≤ 1 := by
    intro w _
    apply countP_le_one _ cs hnd
    intro a ha b hb hpa hpb
    simp only [hit, beq_iff_eq] at hpa hpb
    exact claim_unique cs h.pf a b ha hb w hpa hpb
  have h1 := (tot_pigeon cs _ hle).2 hk (v % 2 ^ maxLen cs) (Nat.mod_lt _ (Nat.two_pow_pos _))
  have hpos : 0 < cs.countP (hit (v % 2 ^ maxLen cs)) := by omega
  obtain ⟨c, hc, hp⟩ := List.countP_pos_iff.mp hpos
  refine ⟨c, hc, ?_⟩
  simp only [hit, beq_iff_eq] at hp
  rw [Nat.mod_mod_of_dvd _ (Nat.pow_dvd_pow 2 (hM c hc))] at hp
  exact hp

end Compress.Proofs.BitIOExact
