/-
bzip2 checksum: the Go code's bit-reversal trick computes the MSB-first CRC-32.
-/
import Compress.Bzip2.Stages

namespace Compress.Proofs.Bzip2Crc
open Compress Compress.Bzip2

/-! ### bit lists and `testBit` -/

theorem length_ofNat : ∀ (n v : Nat), (Bits.ofNat v n).length = n
  | 0, _ => rfl
  | n+1, v => by simp [Bits.ofNat, length_ofNat n]

theorem getD_ofNat : ∀ (n v j : Nat), (Bits.ofNat v n).getD j false = (decide (j < n) && v.testBit j)
  | 0, v, j => by simp [Bits.ofNat]
  | n+1, v, 0 => by
    simp only [Bits.ofNat, List.getD_cons_zero, Nat.testBit_zero]
    by_cases h : v % 2 = 1 <;> simp [h]
  | n+1, v, j+1 => by
    simp only [Bits.ofNat, List.getD_cons_succ, getD_ofNat n (v / 2) j, Nat.testBit_add_one]
    by_cases h : j < n <;> simp [h]

theorem testBit_toNat : ∀ (l : Bits) (i : Nat), (Bits.toNat l).testBit i = l.getD i false
  | [], i => by simp [Bits.toNat]
  | b :: bs, 0 => by
    simp only [Bits.toNat, List.getD_cons_zero, Nat.testBit_zero]
    cases b <;> simp <;> omega
  | b :: bs, i+1 => by
    simp only [Bits.toNat, List.getD_cons_succ, Nat.testBit_add_one]
    rw [← testBit_toNat bs i]
    congr 1
    cases b <;> simp <;> omega

theorem toNat_lt : ∀ (l : Bits), Bits.toNat l < 2 ^ l.length
  | [] => by simp [Bits.toNat]
  | b :: bs => by
    have := toNat_lt bs
    simp only [Bits.toNat, List.length_cons, Nat.pow_succ]
    cases b <;> simp <;> omega

/-- bit `i` of the `n`-bit reversal of `v`. -/
theorem testBit_rev (n v i : Nat) :
    (Bits.toNat (Bits.ofNat v n).reverse).testBit i = (decide (i < n) && v.testBit (n - 1 - i)) := by
  rw [testBit_toNat, List.getD_eq_getElem?_getD]
  by_cases h : i < n
  · rw [List.getElem?_reverse (by rw [length_ofNat]; exact h), length_ofNat,
      ← List.getD_eq_getElem?_getD, getD_ofNat]
    simp [h]; omega
  · rw [List.getElem?_eq_none (by rw [List.length_reverse, length_ofNat]; omega)]
    simp [h]

theorem testBit_rev32 (v i : Nat) : (rev32 v).testBit i = (decide (i < 32) && v.testBit (31 - i)) :=
  testBit_rev 32 v i

theorem rev32_lt (v : Nat) : rev32 v < 2 ^ 32 := by
  have := toNat_lt (Bits.ofNat v 32).reverse
  rwa [List.length_reverse, length_ofNat] at this

theorem rev32_rev32 (v : Nat) (h : v < 2 ^ 32) : rev32 (rev32 v) = v := by
  apply Nat.eq_of_testBit_eq
  intro i
  rw [testBit_rev32, testBit_rev32]
  by_cases hi : i < 32
  · have e : 31 - (31 - i) = i := by omega
    have h2 : 31 - i < 32 := by omega
    simp [hi, h2, e]
  · simp only [hi, decide_false, Bool.false_and]
    exact (Nat.testBit_lt_two_pow (Nat.lt_of_lt_of_le h (Nat.pow_le_pow_right (by decide) (by omega)))).symm

theorem testBit_ones32 (i : Nat) : (0xffffffff : Nat).testBit i = decide (i < 32) := by
  have : (0xffffffff : Nat) = 2 ^ 32 - 1 := by decide
  rw [this, Nat.testBit_two_pow_sub_one]

theorem rev32_xor_ones (v : Nat) : rev32 (v ^^^ 0xffffffff) = rev32 v ^^^ 0xffffffff := by
  apply Nat.eq_of_testBit_eq
  intro i
  rw [testBit_rev32, Nat.testBit_xor, Nat.testBit_xor, testBit_rev32, testBit_ones32, testBit_ones32]
  by_cases hi : i < 32
  · have h2 : 31 - i < 32 := by omega
    simp [hi, h2]
  · simp [hi]

/-! ### one bit -/

def stepM (c : Nat) : Nat :=
  if c / 2 ^ 31 % 2 = 1 then ((c * 2) % 2 ^ 32) ^^^ 0x04c11db7 else (c * 2) % 2 ^ 32

def stepL (c : Nat) : Nat := if c % 2 = 1 then (c / 2) ^^^ 0xEDB88320 else c / 2

theorem stepM_lt (c : Nat) : stepM c < 2 ^ 32 := by
  unfold stepM
  have h : c * 2 % 2 ^ 32 < 2 ^ 32 := Nat.mod_lt _ (by decide)
  split
  · exact Nat.xor_lt_two_pow h (by decide)
  · exact h

theorem poly_rev : (0xEDB88320 : Nat) = rev32 0x04c11db7 := by decide

theorem rev32_shift (c i : Nat) :
    (rev32 (c * 2 % 2 ^ 32)).testBit i = (rev32 c / 2).testBit i := by
  rw [testBit_rev32, Nat.testBit_mod_two_pow, Nat.testBit_div_two, testBit_rev32]
  by_cases hi : i < 31
  · have e : 31 - i = (30 - i) + 1 := by omega
    have h1 : i < 32 := by omega
    have h2 : i + 1 < 32 := by omega
    have h3 : 31 - (i + 1) = 30 - i := by omega
    rw [e, show c * 2 = 2 * c from Nat.mul_comm _ _, Nat.testBit_succ, Nat.mul_div_cancel_left _ (by decide : 0 < 2)]
    simp [h1, h2, h3]
    omega
  · by_cases h31 : i = 31
    · subst h31
      simp [Nat.testBit_zero, Nat.mul_mod_left]
    · have h1 : ¬ i < 32 := by omega
      have h2 : ¬ i + 1 < 32 := by omega
      simp [h1, h2]

theorem rev32_stepM (c : Nat) : rev32 (stepM c) = stepL (rev32 c) := by
  have hb : (c / 2 ^ 31 % 2 = 1) ↔ (rev32 c % 2 = 1) := by
    have h1 := testBit_rev32 c 0
    simp only [Nat.testBit_zero, Nat.sub_zero] at h1
    have h2 : c.testBit 31 = decide (c / 2 ^ 31 % 2 = 1) := by
      rw [Nat.testBit, Nat.shiftRight_eq_div_pow]
      by_cases hh : c / 2 ^ 31 % 2 = 1 <;> simp [hh]
    rw [h2] at h1
    simpa using h1.symm
  unfold stepM stepL
  by_cases h : c / 2 ^ 31 % 2 = 1
  · rw [if_pos h, if_pos (hb.1 h)]
    apply Nat.eq_of_testBit_eq
    intro i
    rw [Nat.testBit_xor, ← rev32_shift, poly_rev, testBit_rev32, testBit_rev32, testBit_rev32,
      Nat.testBit_xor]
    by_cases hi : i < 32 <;> simp [hi]
  · rw [if_neg h, if_neg (fun h' => h (hb.2 h'))]
    apply Nat.eq_of_testBit_eq
    intro i
    exact rev32_shift c i

/-! ### one byte -/

theorem crcByte_go_step (k c : Nat) : crcByte.go (k+1) c = crcByte.go k (stepM c) := rfl

theorem crc32Raw_go_step (k c : Nat) : crc32RawByte.go (k+1) c = crc32RawByte.go k (stepL c) := rfl

theorem rev32_go : ∀ (k c : Nat), rev32 (crcByte.go k c) = crc32RawByte.go k (rev32 c)
  | 0, c => rfl
  | k+1, c => by rw [crcByte_go_step, crc32Raw_go_step, rev32_go k, rev32_stepM]

theorem go_lt : ∀ (k c : Nat), c < 2 ^ 32 → crcByte.go k c < 2 ^ 32
  | 0, c, h => h
  | k+1, c, _ => by rw [crcByte_go_step]; exact go_lt k _ (stepM_lt c)

theorem revByte8_toNat (b : UInt8) : (revByte8 b).toNat = Bits.toNat (Bits.ofNat b.toNat 8).reverse := by
  have := toNat_lt (Bits.ofNat b.toNat 8).reverse
  rw [List.length_reverse, length_ofNat] at this
  unfold revByte8
  rw [UInt8.toNat_ofNat']
  exact Nat.mod_eq_of_lt this

theorem rev32_xor_byte (c : Nat) (b : UInt8) :
    rev32 (c ^^^ (b.toNat * 2 ^ 24)) = rev32 c ^^^ (revByte8 b).toNat := by
  apply Nat.eq_of_testBit_eq
  intro i
  rw [testBit_rev32, Nat.testBit_xor, Nat.testBit_xor, testBit_rev32, revByte8_toNat, testBit_rev,
    Nat.testBit_mul_two_pow]
  by_cases hi : i < 8
  · have h1 : i < 32 := by omega
    have h2 : 24 ≤ 31 - i := by omega
    have h3 : 31 - i - 24 = 8 - 1 - i := by omega
    simp [hi, h1, h2, h3]
  · by_cases h1 : i < 32
    · have h2 : ¬ 24 ≤ 31 - i := by omega
      simp [hi, h1, h2]
    · simp [hi, h1]

theorem xor_byte_lt (c : Nat) (b : UInt8) (h : c < 2 ^ 32) : c ^^^ (b.toNat * 2 ^ 24) < 2 ^ 32 := by
  apply Nat.xor_lt_two_pow h
  have := b.toNat_lt
  omega

theorem rev32_crcByte (c : Nat) (b : UInt8) :
    rev32 (crcByte c b) = crc32RawByte (rev32 c) (revByte8 b) := by
  unfold crcByte crc32RawByte
  rw [rev32_go, rev32_xor_byte]

theorem crcByte_lt (c : Nat) (b : UInt8) (h : c < 2 ^ 32) : crcByte c b < 2 ^ 32 :=
  go_lt 8 _ (xor_byte_lt c b h)

/-! ### byte strings -/

theorem rev32_foldl : ∀ (bs : List UInt8) (c : Nat),
    (bs.map revByte8).foldl crc32RawByte (rev32 c) = rev32 (bs.foldl crcByte c)
  | [], c => rfl
  | b :: bs, c => by
    rw [List.map_cons, List.foldl_cons, List.foldl_cons, ← rev32_crcByte, rev32_foldl bs]

theorem foldl_lt : ∀ (bs : List UInt8) (c : Nat), c < 2 ^ 32 → bs.foldl crcByte c < 2 ^ 32
  | [], c, h => h
  | b :: bs, c, h => by rw [List.foldl_cons]; exact foldl_lt bs _ (crcByte_lt c b h)

theorem crc_go_eq (val : Nat) (hv : val < 2 ^ 32) (bs : List UInt8) :
    crcUpdateGo val bs = (bs.foldl crcByte (val ^^^ 0xffffffff)) ^^^ 0xffffffff := by
  have h1 : val ^^^ 0xffffffff < 2 ^ 32 := Nat.xor_lt_two_pow hv (by decide)
  have h2 := foldl_lt bs _ h1
  unfold crcUpdateGo
  simp only []
  rw [← rev32_xor_ones, rev32_foldl, ← rev32_xor_ones, rev32_rev32]
  exact Nat.xor_lt_two_pow h2 (by decide)

end Compress.Proofs.Bzip2Crc
