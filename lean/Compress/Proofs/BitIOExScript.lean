/-
C11 helper: the reader invariants of S4 strengthened with the counters, one
`ReadBits` step, and the end-of-stream `ReadPads`/`Flush`.
-/
import Compress.Proofs.BitIOExCount

namespace Compress.Proofs.BitIOExact
open Compress Compress.Prefix Compress.Proofs.BitIO

/-! ### Peek-capable sources, with the input fixed -/

theorem inv_pull (D : List UInt8) (big : Bool) (P : Nat) (r : BR) (n : Nat) (hI : Inv D big P r)
    (hn : n ≤ 56) (hfit : n ≤ 8 * D.length - P) :
    ∃ r1, r.pullBits n = (r1, none) ∧ Inv D big P r1 ∧ n ≤ r1.numBits := by
  obtain ⟨off, E, h⟩ := hI
  have e : r.pullBits n = BR.pullLoop n 12
      { r with discardBits := r.discardBits + ((r.fedBits : Int) - r.numBits), fedBits := r.numBits } := by
    simp [BR.pullBits, h.mode]
  rw [e]
  have h0 : LInv D big P off E (r.discardBits + ((r.fedBits : Int) - r.numBits))
      { r with discardBits := r.discardBits + ((r.fedBits : Int) - r.numBits), fedBits := r.numBits } := by
    obtain ⟨h1, h2, h3, h4, h5, h6, h7, h8, h9, h10, h11, h12, h13⟩ := h
    exact ⟨h1, h2, h3, h4, h5, h6, h7, h8, h9, h10, h11, h12, h13⟩
  rcases pullLoop_spec n hn 12
      { r with discardBits := r.discardBits + ((r.fedBits : Int) - r.numBits), fedBits := r.numBits }
      off E h0 (by simp only; omega) with ⟨r1, off1, E1, e1, hI1, hfed, hge⟩ | ⟨r1, e1, hlt⟩
  · refine ⟨r1, e1, ⟨off1, E1, linv_congr hI1 ?_⟩, hge⟩
    rw [hfed]; omega
  · omega

theorem inv_cons (D : List UInt8) (big : Bool) (P : Nat) (r : BR) (n : Nat) (hI : Inv D big P r)
    (hn : n ≤ r.numBits) :
    Inv D big (P + n) { r with bufBits := r.bufBits / 2 ^ n, numBits := r.numBits - n } := by
  obtain ⟨off, E, h⟩ := hI
  obtain ⟨h1, h2, h3, h4, h5, h6, h7, h8, h9, h10, h11, h12, h13⟩ := h
  obtain ⟨a1, a2⟩ := agree_cons _ _ _ n h13 hn
  refine ⟨off, E, h1, h2, h3, h4, ?_, ?_, h7, h8, h9, h10, ?_, ?_, ?_⟩
  · simp only; omega
  · simp only; omega
  · simp only; omega
  · simp only; omega
  · simp only
    rw [Nat.pow_add, ← Nat.div_div_eq_div_mul]
    exact a2

/-! ### the invariant between calls, with counters -/

/-- `P` bits of `D` have been handed out; the byte offset counts the bytes taken. -/
def CI (D : List UInt8) (P : Nat) (r : BR) : Prop :=
  K r = D.length ∧
  ((ByteInv r ∧ ∃ off, r.src.data = D.drop off ∧ off ≤ D.length ∧ 8 * off = P + r.numBits ∧ r.numBits < 8) ∨
   (∃ big, Inv D big P r))

theorem ci_init (data : List UInt8) (big buffered : Bool) (adv : List Nat) :
    CI data 0 (BR.init { data := data, bufAdv := adv, buffered? := buffered } big) := by
  refine ⟨by simp [K, BR.init], ?_⟩
  cases buffered
  · left
    refine ⟨⟨rfl, rfl, by simp [BR.init], by simp [BR.init]⟩, 0, rfl, Nat.zero_le _, rfl, by simp [BR.init]⟩
  · right
    refine ⟨big, 0, 0, ?_⟩
    refine ⟨rfl, rfl, rfl, rfl, ?_, ?_, Nat.le_refl _, ?_, ?_, ?_, ?_, ?_, ?_, ?_⟩ <;> simp [BR.init]

theorem ci_readBits (D : List UInt8) (P : Nat) (r : BR) (n : Nat) (h : CI D P r) (hn : n ≤ 56)
    (hfit : P + n ≤ 8 * D.length) :
    ∃ r' v, r.readBits n = (r', .ok v) ∧ CI D (P + n) r' := by
  obtain ⟨hK, hc⟩ := h
  have hKp := K_pullBits r n
  rw [readBits_eq]
  rcases hc with ⟨hB, off, hd, hoff, h8, h7⟩ | ⟨big, hI⟩
  · have e : r.pullBits n = BR.pullBytes n 9 r := by simp [BR.pullBits, hB.mode]
    rw [e] at hKp ⊢
    obtain ⟨k, t1, t2, _, t4, t5, _, _⟩ := pullBytes_track n 9 r
    rcases pullBytes_spec n hn 9 r hB (by omega) with ⟨r1, p1, p2, p3, p4, p5⟩ | ⟨r1, p1, p2⟩
    · rw [p1] at hKp t1 t4 t5 ⊢
      simp only at hKp t1 t4 t5 ⊢
      obtain ⟨_, _, q1, _, _⟩ := byteRel_cons r1 (absVal r1) (absLen r1) n ⟨p2, rfl, rfl⟩ p3
      rw [hd, List.length_drop] at t2
      refine ⟨_, _, rfl, ?_, Or.inl ⟨q1, off + k, ?_, by omega, ?_, ?_⟩⟩
      · rw [← hK, ← hKp]; rfl
      · simp only; rw [t1, hd, List.drop_drop]
      · simp only; omega
      · simp only; omega
    · simp only [absLen, hd, List.length_drop] at p2
      omega
  · obtain ⟨r1, p1, p2, p3⟩ := inv_pull D big P r n hI hn (by omega)
    rw [p1] at hKp ⊢
    simp only at hKp ⊢
    refine ⟨_, _, rfl, ?_, Or.inr ⟨big, inv_cons D big P r1 n p2 p3⟩⟩
    rw [← hK, ← hKp]; rfl

/-- what the counters say in a state satisfying the invariant. -/
theorem ci_counters (D : List UInt8) (P : Nat) (r : BR) (h : CI D P r) :
    r.bitsRead = (P : Int) ∧ r.offset = ((D.length - r.src.data.length : Nat) : Int) ∧
    r.src.data = D.drop (D.length - r.src.data.length) ∧ 8 * (D.length - r.src.data.length) ≤ P + 7 := by
  obtain ⟨hK, hc⟩ := h
  unfold K at hK
  rcases hc with ⟨hB, off, hd, hoff, h8, h7⟩ | ⟨big, off, E, hI⟩
  · have hl : r.src.data.length = D.length - off := by rw [hd, List.length_drop]
    have ht : D.length - r.src.data.length = off := by omega
    rw [ht]
    refine ⟨?_, by omega, hd, by omega⟩
    simp only [BR.bitsRead, hB.mode, Bool.false_eq_true, if_false]
    omega
  · have hle : off ≤ D.length := by have := hI.offE; have := hI.EleD; omega
    have hl : r.src.data.length = D.length - off := by rw [hI.data, List.length_drop]
    have ht : D.length - r.src.data.length = off := by omega
    have hpos := hI.pos
    have hdbl := hI.dbl
    rw [ht]
    refine ⟨?_, by omega, hI.data, by omega⟩
    simp only [BR.bitsRead, hI.mode, if_true]
    omega

/-- `ReadPads` then `Flush` at the end of a stream. -/
theorem ci_finish (D : List UInt8) (P : Nat) (r : BR) (h : CI D P r) (hfit : P ≤ 8 * D.length) :
    ((r.readPads.1).flush).2 = none ∧ ((r.readPads.1).flush).1.src.data = D.drop ((P + 7) / 8) ∧
    ((r.readPads.1).flush).1.offset = (((P + 7) / 8 : Nat) : Int) ∧
    ((r.readPads.1).flush).1.bitsRead = ((8 * ((P + 7) / 8) : Nat) : Int) := by
  obtain ⟨hK, hc⟩ := h
  unfold K at hK
  rcases hc with ⟨hB, off, hd, hoff, h8, h7⟩ | ⟨big, off, E, hI⟩
  · have hl : r.src.data.length = D.length - off := by rw [hd, List.length_drop]
    have hm : r.numBits % 8 = r.numBits := Nat.mod_eq_of_lt h7
    have hoff' : off = (P + 7) / 8 := by omega
    simp only [BR.readPads, BR.flush, hB.mode, Bool.not_false, if_true, BR.bitsRead, Bool.false_eq_true,
      if_false, hm, Nat.sub_self]
    refine ⟨trivial, by rw [hd, hoff'], by omega, by omega⟩
  · obtain ⟨h1, h2, h3, h4, h5, h6, h7, h8, h9, h10, h11, hdb, h12⟩ := hI
    have hl : r.src.data.length = D.length - off := by rw [h4, List.length_drop]
    have hmle : r.numBits % 8 ≤ r.numBits := Nat.mod_le _ _
    have hnd : ((r.discardBits + ((r.fedBits : Int) - ((r.numBits - r.numBits % 8 : Nat) : Int)) + 7) / 8).toNat
        ≤ r.src.data.length := by
      rw [hl]; omega
    have hndv : off + ((r.discardBits + ((r.fedBits : Int) - ((r.numBits - r.numBits % 8 : Nat) : Int)) + 7) / 8).toNat
        = (P + 7) / 8 := by omega
    simp only [BR.readPads, BR.flush, h1, Bool.not_true, Bool.false_eq_true, if_false]
    rw [discard_ok r.src h2 _ hnd]
    simp only [BR.bitsRead, consume_mode, h1, if_true, consume_data]
    refine ⟨trivial, ?_, by omega, by omega⟩
    rw [h4, List.drop_drop, hndv]

end Compress.Proofs.BitIOExact
