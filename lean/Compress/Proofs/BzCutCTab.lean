/-
bzip2 cut: decoding one symbol with the C tables is prefix-monotone, and
consumes at least one bit for every table `readTables` can produce.
-/
import Compress.Proofs.BzCutCore
namespace Compress.Proofs.BzCut
open Compress Compress.Bzip2

/-- verdicts of `symE` applied to a `SymRes`. -/
def resE : SymRes → Except Verdict (Nat × Bits)
  | .eof => .error .unexpectedEOF
  | .bad => .error .corrupt
  | .sym s r => .ok (s, r)

/-- the extension loop of `CTab.decode` as a parser. -/
def goE (t : CTab) (numSyms : Nat) (fuel zn : Nat) (zvec : Int) : Parser Nat := fun rest =>
  resE (CTab.decode.go t numSyms fuel zn zvec rest)

theorem goE_prefixOK (t : CTab) (numSyms : Nat) (fuel : Nat) :
    ∀ zn zvec, PrefixOK (goE t numSyms fuel zn zvec) := by
  induction fuel with
  | zero =>
    intro zn zvec
    exact (prefixOK_error .corrupt).congr (fun bits => by simp [goE, CTab.decode.go, resE])
  | succ fuel ih =>
    intro zn zvec
    by_cases h1 : zn > maxPrefixBits
    · exact (prefixOK_error .corrupt).congr (fun bits => by simp [goE, CTab.decode.go, resE, h1])
    by_cases h2 : zvec ≤ t.limit.getD zn 0 ∧ zn ≤ t.maxLen
    · by_cases h3 : zvec - t.base.getD zn 0 < 0 ∨ zvec - t.base.getD zn 0 ≥ 258
      · exact (prefixOK_error .corrupt).congr (fun bits => by
          simp only [goE, CTab.decode.go, if_neg h1, if_pos h2, if_pos h3, resE])
      · cases h4 : t.perm[(zvec - t.base.getD zn 0).toNat]? with
        | none =>
          exact (prefixOK_error .corrupt).congr (fun bits => by
            simp only [goE, CTab.decode.go, if_neg h1, if_pos h2, if_neg h3, h4, resE])
        | some s =>
          by_cases h5 : s < numSyms
          · exact (liftE_prefixOK (.ok s)).congr (fun bits => by
              simp only [goE, CTab.decode.go, if_neg h1, if_pos h2, if_neg h3, h4, if_pos h5, resE,
                liftE, Except.map])
          · exact (prefixOK_error .corrupt).congr (fun bits => by
              simp only [goE, CTab.decode.go, if_neg h1, if_pos h2, if_neg h3, h4, if_neg h5, resE])
    by_cases h6 : zn ≥ t.maxLen
    · exact (prefixOK_error .corrupt).congr (fun bits => by
        simp only [goE, CTab.decode.go, if_neg h1, if_neg h2, if_pos h6, resE])
    · exact (bitP_prefixOK (fun b => ih (zn + 1) (zvec * 2 + (if b then 1 else 0)))).congr
        (fun bits => by
          cases bits with
          | nil => simp only [goE, CTab.decode.go, if_neg h1, if_neg h2, if_neg h6, resE, bitP]
          | cons b tl => simp only [goE, CTab.decode.go, if_neg h1, if_neg h2, if_neg h6, bitP])

theorem symE_eq (t : CTab) (numSyms : Nat) (bits : Bits) :
    symE t numSyms bits =
      bindP (beP t.minLen) (fun v => goE t numSyms (maxPrefixBits + 2) t.minLen (v : Int)) bits := by
  unfold symE CTab.decode
  cases h : readBE t.minLen bits with
  | none =>
    rw [bindP_error _ _ _ .unexpectedEOF (by simp [beP, h])]
  | some x =>
    obtain ⟨v, rest⟩ := x
    rw [bindP_ok _ _ _ v rest (by simp [beP, h])]
    simp only [goE]
    cases CTab.decode.go t numSyms (maxPrefixBits + 2) t.minLen (v : Int) rest <;> rfl

theorem symE_prefixOK (t : CTab) (numSyms : Nat) : PrefixOK (symE t numSyms) :=
  ((beP_prefixOK t.minLen).bind (fun _ _ _ _ => goE_prefixOK t numSyms _ _ _)).congr (symE_eq t numSyms)

theorem symE_length {t : CTab} {numSyms : Nat} {bits : Bits} {s : Nat} {rest : Bits}
    (h : symE t numSyms bits = .ok (s, rest)) : rest.length + t.minLen ≤ bits.length := by
  rw [symE_eq] at h
  obtain ⟨v, r1, e1, e2⟩ := bindP_eq_ok _ _ _ _ _ h
  have hl := (goE_prefixOK t numSyms _ _ _).length_le e2
  unfold beP readBE at e1
  simp only [] at e1
  split at e1
  · simp at e1
  · rename_i hlen
    simp only [Option.elim, Except.ok.injEq, Prod.mk.injEq] at e1
    obtain ⟨-, rfl⟩ := e1
    rw [List.length_take] at hlen
    rw [List.length_drop] at hl
    omega

theorem foldl_min_ge (lens : List Nat) (h : ∀ l ∈ lens, 1 ≤ l) :
    ∀ a, 1 ≤ a → 1 ≤ lens.foldl min a := by
  induction lens with
  | nil => intro a ha; simpa using ha
  | cons x xs ih =>
    intro a ha
    rw [List.foldl_cons]
    refine ih (fun l hl => h l (List.mem_cons_of_mem _ hl)) _ ?_
    have := h x (List.mem_cons_self)
    omega

theorem goodTab_consumes (t : CTab) (h : GoodTab t) : Consumes t := by
  obtain ⟨lens, rfl, -, hl⟩ := h
  intro numSyms bits s rest hr
  have h1 := symE_length hr
  have h2 : 1 ≤ (mkCTab lens).minLen :=
    foldl_min_ge lens (fun l hl' => (hl l hl').1) maxPrefixBits (by decide)
  omega

/-- the default table (used for an out-of-range selector) never yields a symbol. -/
theorem default_consumes : Consumes (default : CTab) := by
  intro numSyms bits s rest hr
  exfalso
  have hd : (default : CTab) = ⟨0, 0, #[], #[], #[]⟩ := rfl
  rw [hd] at hr
  simp [symE, CTab.decode, readBE, CTab.decode.go, maxPrefixBits, Bits.toNatMSB] at hr

end Compress.Proofs.BzCut
