/-
C16 (M2), part (d): the literal/length code of a meta block.

All code lengths are `0` or `h`, exactly `2^h` of them are `h`, and symbol 256
is the largest symbol with a non-zero length: the code is complete and the code
word of the end-of-block symbol is `h` one bits.
-/
import Compress.Proofs.MetaSilentLens

namespace Compress.Proofs.MetaSilent
open Compress Compress.Flate Compress.Meta Compress.Proofs.Meta

/-! ### the counting decoder on a code whose words all have length `h` -/

theorem decodeAux_ones (t : HuffTab) (h s : Nat) (r : Bits)
    (hc0 : ∀ l, 1 ≤ l → l < h → t.count.getD l 0 = 0) (hch : t.count.getD h 0 = 2 ^ h)
    (hsz : t.sorted.size = 2 ^ h) (hs : t.sorted[2 ^ h - 1]? = some s) :
    ∀ (d len fuel : Nat), len + d = h → 1 ≤ len → d < fuel →
      t.decodeAux fuel len (2 ^ len - 2) 0 0 (List.replicate (d + 1) true ++ r) = .sym s r := by
  intro d
  induction d with
  | zero =>
    intro len fuel hl h1 hf
    obtain ⟨f, rfl⟩ : ∃ f, fuel = f + 1 := ⟨fuel - 1, by omega⟩
    have : len = h := by omega
    subst this
    have h2 : 2 ≤ 2 ^ len := by
      have := Nat.pow_le_pow_right (show 0 < 2 by omega) h1
      simpa using this
    have e1 : 2 ^ len - 2 + 1 < 0 + 2 ^ len := by omega
    have e2 : 0 + (2 ^ len - 2 + 1 - 0) = 2 ^ len - 1 := by omega
    simp only [List.replicate_succ, List.replicate_zero, List.cons_append, List.nil_append,
      HuffTab.decodeAux, if_true, hch, e1, e2, hs]
  | succ d ih =>
    intro len fuel hl h1 hf
    obtain ⟨f, rfl⟩ : ∃ f, fuel = f + 1 := ⟨fuel - 1, by omega⟩
    have h2 : 2 ≤ 2 ^ len := by
      have := Nat.pow_le_pow_right (show 0 < 2 by omega) h1
      simpa using this
    have hpos : 0 < 2 ^ h := Nat.two_pow_pos h
    have e1 : ¬ 2 ^ len - 2 + 1 < 0 + 0 := by omega
    have e2 : ¬ 0 + 0 ≥ t.sorted.size := by omega
    have e3 : 2 * (2 ^ len - 2 + 1) = 2 ^ (len + 1) - 2 := by rw [Nat.pow_succ]; omega
    rw [List.replicate_succ, List.cons_append]
    simp only [HuffTab.decodeAux, if_true, hc0 len h1 (by omega), e1, if_false, e2, e3, Nat.mul_zero, Nat.add_zero]
    exact ih (len + 1) f (by omega) (by omega) (by omega)

theorem decode_ones (t : HuffTab) (h s : Nat) (r : Bits) (h1 : 1 ≤ h) (h15 : h ≤ 15)
    (hc0 : ∀ l, 1 ≤ l → l < h → t.count.getD l 0 = 0) (hch : t.count.getD h 0 = 2 ^ h)
    (hsz : t.sorted.size = 2 ^ h) (hs : t.sorted[2 ^ h - 1]? = some s) :
    t.decode (List.replicate h true ++ r) = .sym s r := by
  have := decodeAux_ones t h s r hc0 hch hsz hs (h - 1) 1 maxCodeLen (by omega) (by omega)
    (by simp [maxCodeLen]; omega)
  rw [show h - 1 + 1 = h by omega] at this
  exact this

theorem ofNat_ones : ∀ (n : Nat), Bits.ofNat (2 ^ n - 1) n = List.replicate n true
  | 0 => rfl
  | n+1 => by
    have hpos : 0 < 2 ^ n := Nat.two_pow_pos n
    have h2 : 2 ^ (n+1) = 2 * 2 ^ n := by rw [Nat.pow_succ, Nat.mul_comm]
    have e1 : (2 ^ (n+1) - 1) % 2 = 1 := by omega
    have e2 : (2 ^ (n+1) - 1) / 2 = 2 ^ n - 1 := by omega
    simp only [Bits.ofNat, e1, e2, ofNat_ones n, List.replicate_succ]
    rfl

/-! ### list lemmas -/

theorem foldl_congr_mem {α β : Type} (f g : α → β → α) : ∀ (l : List β) (a : α),
    (∀ x ∈ l, ∀ a, f a x = g a x) → l.foldl f a = l.foldl g a
  | [], _, _ => rfl
  | x :: xs, a, hfg => by
    simp only [List.foldl]
    rw [hfg x (by simp) a]
    exact foldl_congr_mem f g xs _ (fun y hy => hfg y (by simp [hy]))

theorem flatten_map_nil (F : Nat → List Nat) : ∀ (l : List Nat), (∀ i ∈ l, F i = []) → (l.map F).flatten = []
  | [], _ => rfl
  | x :: xs, hF => by
    simp only [List.map_cons, List.flatten_cons, hF x (by simp), List.nil_append]
    exact flatten_map_nil F xs (fun i hi => hF i (by simp [hi]))

theorem flatten_map_single (F : Nat → List Nat) (k : Nat) : ∀ (n : Nat), k < n →
    (∀ i, i < n → i ≠ k → F i = []) → ((List.range n).map F).flatten = F k := by
  intro n
  induction n with
  | zero => intro hk; omega
  | succ n ih =>
    intro hk hF
    rw [List.range_succ, List.map_append, List.flatten_append]
    by_cases hkn : k = n
    · subst hkn
      rw [flatten_map_nil F (List.range k) (fun i hi => hF i (by simp at hi; omega) (by simp at hi; omega))]
      simp
    · rw [ih (by omega) (fun i hi hik => hF i (by omega) hik)]
      simp [hF n (by omega) (fun h => hkn h.symm)]

/-- counting a value among `g s0, g (s0+1), ...` is counting it in the list. -/
theorem filter_range'_length (l : Nat) (g : Nat → Nat) : ∀ (ls : List Nat) (s0 : Nat),
    (∀ i, i < ls.length → g (s0 + i) = ls[i]?.getD 0) →
    ((List.range' s0 ls.length).filter (fun s => g s == l)).length = (ls.filter (· == l)).length
  | [], _, _ => rfl
  | x :: xs, s0, hg => by
    have h0 : g s0 = x := by simpa using hg 0 (by simp)
    have ih := filter_range'_length l g xs (s0 + 1) (fun i hi => by
      have := hg (i + 1) (by simp; omega)
      rw [show s0 + 1 + i = s0 + (i + 1) by omega, this]
      simp)
    simp only [List.length_cons, List.range'_succ, List.filter_cons, h0]
    cases hx : (x == l)
    · simp only [Bool.false_eq_true, if_false, ih]
    · simp only [if_true, List.length_cons, ih]

/-! ### the literal/length code lengths of a meta block -/

def litLens (h : Nat) (syms : Bits) (pads : Nat) : List Nat := syms.map (L h) ++ List.replicate pads 0

def litHuff (h : Nat) (syms : Bits) (pads : Nat) : Huff := ⟨(litLens h syms pads).toArray⟩

theorem filter_map_L (h l : Nat) (hl : l ≠ 0) : ∀ syms : Bits,
    ((syms.map (L h)).filter (· == l)).length = if l = h then Bits.countOnes syms else 0
  | [] => by simp [Bits.countOnes]
  | b :: bs => by
    have ih := filter_map_L h l hl bs
    rw [List.map_cons, countOnes_cons]
    cases b
    · have e : (L h false == l) = false := by simp [L]; omega
      simp only [List.filter_cons, e, Bool.false_eq_true, if_false, ih]; simp
    · by_cases hh : l = h
      · subst hh
        have e : (L l true == l) = true := by simp [L]
        simp only [List.filter_cons, e, if_true, List.length_cons, ih]; omega
      · have e : (L h true == l) = false := by simp [L]; omega
        simp only [List.filter_cons, e, Bool.false_eq_true, if_false, ih, hh]

theorem litLens_count (h l : Nat) (syms : Bits) (pads : Nat) (hl : l ≠ 0) :
    ((litLens h syms pads).filter (· == l)).length = if l = h then Bits.countOnes syms else 0 := by
  have : (List.replicate pads 0).filter (· == l) = [] := by
    rw [List.filter_eq_nil_iff]
    intro a ha
    rw [List.mem_replicate] at ha
    simp [ha.2]; omega
  rw [litLens, List.filter_append, this, List.append_nil, filter_map_L h l hl]

theorem litHuff_count (h l : Nat) (syms : Bits) (pads : Nat) (hl : l ≠ 0) :
    (litHuff h syms pads).count l = if l = h then Bits.countOnes syms else 0 := by
  rw [← litLens_count h l syms pads hl]
  simp [Huff.count, litHuff]

theorem litHuff_symsOfLen (h l : Nat) (syms : Bits) (pads : Nat) :
    (litHuff h syms pads).symsOfLen l =
      (List.range (litLens h syms pads).length).filter (fun s => (litLens h syms pads)[s]?.getD 0 == l) := by
  simp [Huff.symsOfLen, litHuff, Array.getD_eq_getD_getElem?]

theorem litLens_val (h : Nat) (syms : Bits) (pads s : Nat) :
    (litLens h syms pads)[s]?.getD 0 = 0 ∨ (litLens h syms pads)[s]?.getD 0 = h := by
  cases hs : (litLens h syms pads)[s]? with
  | none => left; rfl
  | some x =>
    have hm := List.mem_of_getElem? hs
    simp only [litLens, List.mem_append, List.mem_map, List.mem_replicate] at hm
    rcases hm with ⟨b, _, rfl⟩ | ⟨_, rfl⟩
    · cases b <;> simp [L]
    · left; rfl

theorem litHuff_symsOfLen_nil (h l : Nat) (syms : Bits) (pads : Nat) (hl0 : l ≠ 0) (hlh : l ≠ h) :
    (litHuff h syms pads).symsOfLen l = [] := by
  rw [litHuff_symsOfLen, List.filter_eq_nil_iff]
  intro s _
  rcases litLens_val h syms pads s with e | e <;> rw [e] <;> simp <;> omega

theorem litHuff_symsOfLen_length (h l : Nat) (syms : Bits) (pads : Nat) :
    ((litHuff h syms pads).symsOfLen l).length = ((litLens h syms pads).filter (· == l)).length := by
  rw [litHuff_symsOfLen, List.range_eq_range']
  exact filter_range'_length l (fun s => (litLens h syms pads)[s]?.getD 0) _ 0 (fun i _ => by simp)

/-- symbol 256 is the last symbol of length `h`. -/
theorem litHuff_symsOfLen_last (h : Nat) (syms : Bits) (pads : Nat) (h1 : 1 ≤ h)
    (hlen : syms.length = 257) (hg : syms.getD 256 false = true) :
    ∃ A, (litHuff h syms pads).symsOfLen h = A ++ [256] := by
  rw [litHuff_symsOfLen]
  have hl : (litLens h syms pads).length = 256 + (1 + pads) := by simp [litLens, hlen]; omega
  rw [hl, List.range_eq_range', ← List.range'_append_1, ← List.range'_append_1, List.filter_append, List.filter_append]
  have h256 : (litLens h syms pads)[256]?.getD 0 = h := by
    have hs : syms[256]? = some true := by
      rw [List.getD_eq_getElem?_getD] at hg
      cases e : syms[256]? with
      | none => rw [List.getElem?_eq_none_iff] at e; omega
      | some b => rw [e] at hg; simp at hg; rw [hg]
    rw [litLens, List.getElem?_append_left (by simp [hlen]), List.getElem?_map, hs]
    simp [L]
  have htail : (List.range' (0 + 256 + 1) pads).filter (fun s => (litLens h syms pads)[s]?.getD 0 == h) = [] := by
    rw [List.filter_eq_nil_iff]
    intro s hs
    rw [List.mem_range'_1] at hs
    have : (litLens h syms pads)[s]?.getD 0 = 0 := by
      simp only [litLens]
      rw [List.getElem?_append_right (by simp [hlen]; omega)]
      rw [List.getElem?_replicate]
      split <;> rfl
    rw [this]; simp; omega
  refine ⟨List.filter (fun s => (litLens h syms pads)[s]?.getD 0 == h) (List.range' 0 256), ?_⟩
  rw [htail, List.append_nil]
  congr 1
  simp [List.range', h256]

/-! ### validity and the end-of-block code word -/

theorem left_eq (hf : Huff) (c : Nat → Nat) (hc : ∀ l, 1 ≤ l → hf.count l = c l) :
    hf.left = (List.range maxCodeLen).foldl (fun (left : Int) i => 2 * left - (c (i + 1) : Int)) 1 := by
  unfold Huff.left
  apply foldl_congr_mem
  intro x _ a
  rw [hc (x + 1) (by omega)]

theorem left_table : ∀ h, h < 8 → 1 ≤ h →
    (List.range maxCodeLen).foldl (fun (left : Int) i => 2 * left - ((if i + 1 = h then 2 ^ h else 0 : Nat) : Int)) 1 = 0 := by
  decide

theorem litHuff_valid (h : Nat) (syms : Bits) (pads : Nat) (h1 : 1 ≤ h) (h7 : h ≤ 7)
    (hc : Bits.countOnes syms = 2 ^ h) : (litHuff h syms pads).valid = true := by
  have hl : (litHuff h syms pads).left = 0 := by
    rw [left_eq _ (fun l => if l = h then 2 ^ h else 0) (fun l hl => by
      rw [litHuff_count h l syms pads (by omega), hc])]
    exact left_table h (by omega) h1
  simp [Huff.valid, hl]

theorem litHuff_decode_eob (h : Nat) (syms : Bits) (pads : Nat) (r : Bits) (h1 : 1 ≤ h) (h7 : h ≤ 7)
    (hlen : syms.length = 257) (hg : syms.getD 256 false = true) (hc : Bits.countOnes syms = 2 ^ h) :
    (litHuff h syms pads).tab.decode (List.replicate h true ++ r) = .sym 256 r := by
  have hsorted : (litHuff h syms pads).tab.sorted = ((litHuff h syms pads).symsOfLen h).toArray := by
    simp only [Huff.tab]
    congr 1
    have := flatten_map_single (fun i => (litHuff h syms pads).symsOfLen (i + 1)) (h - 1) maxCodeLen
      (by simp [maxCodeLen]; omega)
      (fun i _ hik => litHuff_symsOfLen_nil h (i + 1) syms pads (by omega) (by omega))
    rw [this, show h - 1 + 1 = h by omega]
  have hcount : ∀ l, l ≤ 15 → (litHuff h syms pads).tab.count.getD l 0 = (litHuff h syms pads).count l := by
    intro l hl
    simp only [Huff.tab, maxCodeLen]
    rw [Array.getD_eq_getD_getElem?]
    simp [show l < 16 by omega]
  have hsl : ((litHuff h syms pads).symsOfLen h).length = 2 ^ h := by
    rw [litHuff_symsOfLen_length, litLens_count h h syms pads (by omega), if_pos rfl, hc]
  obtain ⟨A, hA⟩ := litHuff_symsOfLen_last h syms pads h1 hlen hg
  apply decode_ones _ h 256 r h1 (by omega)
  · intro l hl1 hlh
    rw [hcount l (by omega), litHuff_count h l syms pads (by omega), if_neg (by omega)]
  · rw [hcount h (by omega), litHuff_count h h syms pads (by omega), if_pos rfl, hc]
  · rw [hsorted]; simpa using hsl
  · rw [hsorted]
    rw [hA] at hsl ⊢
    simp at hsl
    have : 2 ^ h - 1 = A.length := by omega
    simp [this]

theorem inflate_eob (lit dist : HuffTab) (fuel : Nat) (out : Array UInt8) (bits rest : Bits)
    (hd : lit.decode bits = .sym 256 rest) :
    inflateBlock lit dist (fuel + 1) out bits = (out, .ok rest) := by
  -- (the equation lemmas of `inflateBlock` cannot be generated: `s - 257` with a
  -- literal makes the generator exceed its recursion depth; unfold by `whnf`)
  conv => lhs; whnf
  rw [hd]
  rfl

/-- the distance code of a meta block: one unused symbol. -/
theorem distHuff_valid : (⟨#[0]⟩ : Huff).valid = true := by decide

end Compress.Proofs.MetaSilent
