/-
`packBits` numerically: the bytes spell the bit list, and `le64` is injective on
byte strings of equal length.
-/
import Compress.Proofs.BitIONat

namespace Compress.Proofs.BitIO
open Compress Compress.Prefix

theorem ordByte_inj (big : Bool) (a b : UInt8) (h : ordByte big a = ordByte big b) : a = b := by
  have := congrArg (ordByte big) h
  rwa [ordByte_ordByte, ordByte_ordByte] at this

theorem le64_inj (big : Bool) : ∀ (a b : List UInt8), a.length = b.length →
    le64 big a = le64 big b → a = b
  | [], [], _, _ => rfl
  | [], _ :: _, h, _ => by simp at h
  | _ :: _, [], h, _ => by simp at h
  | x :: a, y :: b, hl, h => by
    rw [le64_cons, le64_cons] at h
    have hx := UInt8.toNat_lt (ordByte big x)
    have hy := UInt8.toNat_lt (ordByte big y)
    have h1 : (ordByte big x).toNat = (ordByte big y).toNat := by omega
    have h2 : le64 big a = le64 big b := by omega
    have hxy : x = y := ordByte_inj big x y (UInt8.toNat_inj.mp h1)
    have := le64_inj big a b (by simpa using hl) h2
    rw [hxy, this]

theorem pack_cons8 (big : Bool) (b0 b1 b2 b3 b4 b5 b6 b7 : Bool) (rest : Bits) :
    packBits big (b0 :: b1 :: b2 :: b3 :: b4 :: b5 :: b6 :: b7 :: rest) =
      ordByte big (UInt8.ofNat (Bits.toNat [b0, b1, b2, b3, b4, b5, b6, b7])) :: packBits big rest := by
  cases big <;> cases b0 <;> cases b1 <;> cases b2 <;> cases b3 <;> cases b4 <;> cases b5 <;>
    cases b6 <;> cases b7 <;> rfl

theorem pack_short (big : Bool) : ∀ (bs : Bits), bs.length < 8 → bs ≠ [] →
    packBits big bs = [ordByte big (UInt8.ofNat (Bits.toNat bs))]
  | [], _, h => absurd rfl h
  | [a], _, _ => by cases big <;> cases a <;> rfl
  | [a, b], _, _ => by cases big <;> cases a <;> cases b <;> rfl
  | [a, b, c], _, _ => by cases big <;> cases a <;> cases b <;> cases c <;> rfl
  | [a, b, c, d], _, _ => by cases big <;> cases a <;> cases b <;> cases c <;> cases d <;> rfl
  | [a, b, c, d, e], _, _ => by
    cases big <;> cases a <;> cases b <;> cases c <;> cases d <;> cases e <;> rfl
  | [a, b, c, d, e, f], _, _ => by
    cases big <;> cases a <;> cases b <;> cases c <;> cases d <;> cases e <;> cases f <;> rfl
  | [a, b, c, d, e, f, g], _, _ => by
    cases big <;> cases a <;> cases b <;> cases c <;> cases d <;> cases e <;> cases f <;> cases g <;> rfl
  | _ :: _ :: _ :: _ :: _ :: _ :: _ :: _ :: _, h, _ => by simp at h; omega

theorem le64_ordByte_cons (big : Bool) (x : UInt8) (l : List UInt8) :
    le64 big (ordByte big x :: l) = x.toNat + 256 * le64 big l := by
  rw [le64_cons, ordByte_ordByte]

theorem le64_packBits (big : Bool) : ∀ (n : Nat) (bs : Bits), bs.length ≤ 8 * n + 7 →
    le64 big (packBits big bs) = Bits.toNat bs ∧ (packBits big bs).length = (bs.length + 7) / 8 := by
  intro n
  induction n with
  | zero =>
    intro bs h
    by_cases hn : bs = []
    · subst hn; cases big <;> exact ⟨rfl, rfl⟩
    · have hl : 0 < bs.length := List.length_pos_iff.mpr hn
      rw [pack_short big bs (by omega) hn, le64_ordByte_cons]
      have := toNat_lt bs
      have h2 : 2 ^ bs.length ≤ 2 ^ 8 := Nat.pow_le_pow_right (by omega) (by omega)
      simp only [UInt8.toNat_ofNat', le64, List.length_cons, List.length_nil]
      constructor
      · rw [Nat.mod_eq_of_lt (by omega)]; omega
      · omega
  | succ n ih =>
    intro bs h
    by_cases h8 : bs.length < 8
    · by_cases hn : bs = []
      · subst hn; cases big <;> exact ⟨rfl, rfl⟩
      · have hl : 0 < bs.length := List.length_pos_iff.mpr hn
        rw [pack_short big bs h8 hn, le64_ordByte_cons]
        have := toNat_lt bs
        have h2 : 2 ^ bs.length ≤ 2 ^ 8 := Nat.pow_le_pow_right (by omega) (by omega)
        simp only [UInt8.toNat_ofNat', le64, List.length_cons, List.length_nil]
        constructor
        · rw [Nat.mod_eq_of_lt (by omega)]; omega
        · omega
    · match bs, h, h8 with
      | b0 :: b1 :: b2 :: b3 :: b4 :: b5 :: b6 :: b7 :: rest, h, _ =>
        have hr : rest.length ≤ 8 * n + 7 := by simp only [List.length_cons] at h; omega
        obtain ⟨i1, i2⟩ := ih rest hr
        rw [pack_cons8, le64_ordByte_cons, i1]
        have e : b0 :: b1 :: b2 :: b3 :: b4 :: b5 :: b6 :: b7 :: rest =
            [b0, b1, b2, b3, b4, b5, b6, b7] ++ rest := rfl
        have hlt := toNat_lt [b0, b1, b2, b3, b4, b5, b6, b7]
        simp only [List.length_cons, List.length_nil] at hlt
        constructor
        · rw [e, toNat_append, UInt8.toNat_ofNat', Nat.mod_eq_of_lt (by omega)]
          simp only [List.length_cons, List.length_nil]
        · simp only [List.length_cons, i2]; omega
      | [], _, h8 => exact absurd (by simp) h8
      | [_], _, h8 => exact absurd (by simp) h8
      | [_, _], _, h8 => exact absurd (by simp) h8
      | [_, _, _], _, h8 => exact absurd (by simp) h8
      | [_, _, _, _], _, h8 => exact absurd (by simp) h8
      | [_, _, _, _, _], _, h8 => exact absurd (by simp) h8
      | [_, _, _, _, _, _], _, h8 => exact absurd (by simp) h8
      | [_, _, _, _, _, _, _], _, h8 => exact absurd (by simp) h8

theorem le64_packBits' (big : Bool) (bs : Bits) :
    le64 big (packBits big bs) = Bits.toNat bs ∧ (packBits big bs).length = (bs.length + 7) / 8 :=
  le64_packBits big bs.length bs (by omega)

end Compress.Proofs.BitIO
