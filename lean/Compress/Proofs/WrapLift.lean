/-
Lifting the wrapper simulation through prefix.Reader: `ReadBits` scripts on a Reader over a
concrete wrap.go wrapper return what the model over the abstract `Source` returns for a suitable
sequence of adversarial `Buffered()` answers (the answers the wrapper actually gave), hence -
by `reader_refines` - the plain bit list of the unread bytes.
-/
import Compress.Proofs.WrapSim
import Compress.Proofs.BitIO

namespace Compress.Proofs.Wrap
open Compress Compress.Prefix Compress.Prefix.Wrap Compress.Proofs.BitIO

/-- the abstract Reader state with the same bit-buffer fields over a given `Source`. -/
def toBR (c : WR) (s : Source) : BR :=
  { offset := c.offset, bufBits := c.bufBits, numBits := c.numBits, bigEndian := c.bigEndian,
    bufPeek := c.bufPeek, discardBits := c.discardBits, fedBits := c.fedBits, src := s }

theorem wsim_mode {w : Wrapper} {s : Source} (h : WSim w s) : s.buffered? = true := by
  cases w with
  | bytes c => exact h.mode
  | strings c => exact h.mode
  | buffer b => exact h.mode

theorem discard_adv (s : Source) (n : Nat) : (s.discard n).1.bufAdv = s.bufAdv.tail := by
  simp only [Source.discard]; split <;> rfl

theorem peek_adv (s : Source) (n : Nat) : (s.peek n).1.bufAdv = s.bufAdv.tail := by
  simp only [Source.peek]; split <;> rfl

theorem bufferedAns_eq (s : Source) (b : Nat) (rest : List Nat) (h : s.bufAdv = b :: rest)
    (hb : ∀ rest, ({ s with bufAdv := b :: rest } : Source).bufferedAns.2 = b) : s.bufferedAns = (s, b) := by
  have h2 := hb rest
  have : ({ s with bufAdv := b :: rest } : Source) = s := by cases s; simp_all
  rw [this] at h2
  have h1 : s.bufferedAns.1 = s := by simp only [Source.bufferedAns]; split <;> rfl
  exact Prod.ext h1 h2

/-! ### Flush -/

theorem flush_lift (c : WR) (s : Source) (x : Nat) (rest : List Nat) (h : WSim c.w s) (ha : s.bufAdv = x :: rest) :
    ∃ s', BR.flush (toBR c s) = (toBR c.flush.1 s', c.flush.2) ∧ WSim c.flush.1.w s' ∧ s'.bufAdv = rest := by
  have hm := wsim_mode h
  obtain ⟨d1, d2, d3⟩ := wsim_discard h ((c.discardBits + ((c.fedBits : Int) - c.numBits) + 7) / 8).toNat
  refine ⟨(s.discard ((c.discardBits + ((c.fedBits : Int) - c.numBits) + 7) / 8).toNat).1, ?_, d3, ?_⟩
  · simp only [BR.flush, toBR, hm, Bool.not_true, Bool.false_eq_true, if_false, WR.flush]
    rw [← d1, ← d2]
  · rw [discard_adv, ha]; rfl

/-! ### the refill loop -/

def wstep1 (nb : Nat) (r : WR) : Except (WR × Option RErr) WR :=
  if r.bufPeek.isEmpty then
    let r := { r with fedBits := r.numBits }
    let (r, e) := r.flush
    match e with
    | some err => .error (r, some err)
    | none =>
      let cnt0 := (nb + 7) / 8
      let (w1, b) := r.w.buffered
      let cntPeek := max cnt0 b
      let (w', pk, perr) := w1.peek cntPeek
      let r := { r with w := w' }
      if pk.length < r.numBits / 8 then .error (r, some .panic)
      else
        let bp := pk.drop (r.numBits / 8)
        if bp.isEmpty then
          if r.numBits ≥ nb then .error ({ r with bufPeek := [], fedBits := r.numBits }, none)
          else .error ({ r with bufPeek := [] },
                 some (match perr with | some .eof => .unexpectedEOF | some e => e | none => .unexpectedEOF))
        else .ok { r with bufPeek := bp }
  else .ok r

def wstep2 (nb fuel : Nat) (r : WR) : WR × Option RErr :=
  let n := (64 - r.numBits) / 8
  if r.bufPeek.length ≥ 8 then
    let u := le64 r.bigEndian (r.bufPeek.take 8)
    let r := { r with bufBits := (r.bufBits ||| (u * 2 ^ r.numBits)) % two64,
                      numBits := r.numBits + n * 8, bufPeek := r.bufPeek.drop n }
    ({ r with fedBits := r.numBits }, none)
  else
    let n := min n r.bufPeek.length
    let u := le64 r.bigEndian (r.bufPeek.take n)
    let r := { r with bufBits := (r.bufBits ||| (u * 2 ^ r.numBits)) % two64,
                      numBits := r.numBits + n * 8, bufPeek := r.bufPeek.drop n }
    if r.numBits > 56 then ({ r with fedBits := r.numBits }, none)
    else WR.pullLoop nb fuel r

theorem wpullLoop_succ (nb fuel : Nat) (r : WR) :
    WR.pullLoop nb (fuel+1) r =
      match wstep1 nb r with
      | .error res => res
      | .ok r => wstep2 nb fuel r := rfl

/-- the abstract image of a `wstep1` outcome. -/
def mapE (s' : Source) : Except (WR × Option RErr) WR → Except (BR × Option RErr) BR
  | .error (c', e) => .error (toBR c' s', e)
  | .ok c' => .ok (toBR c' s')

def endW : Except (WR × Option RErr) WR → Wrapper
  | .error (c', _) => c'.w
  | .ok c' => c'.w

/-! `step1` cut at its three source calls (both sides), so that each call's result can be
    rewritten on its own. -/

def afterPeek (nb : Nat) (r : BR) : Source × List UInt8 × Option RErr → Except (BR × Option RErr) BR
  | (src', pk, perr) =>
    let r := { r with src := src' }
    if pk.length < r.numBits / 8 then .error (r, some .panic)
    else
      let bp := pk.drop (r.numBits / 8)
      if bp.isEmpty then
        if r.numBits ≥ nb then .error ({ r with bufPeek := [], fedBits := r.numBits }, none)
        else .error ({ r with bufPeek := [] },
               some (match perr with | some .eof => .unexpectedEOF | some e => e | none => .unexpectedEOF))
      else .ok { r with bufPeek := bp }

def afterBuf (nb : Nat) (r : BR) : Source × Nat → Except (BR × Option RErr) BR
  | (src1, b) => afterPeek nb r (src1.peek (max ((nb + 7) / 8) b))

def afterFlush (nb : Nat) : BR × Option RErr → Except (BR × Option RErr) BR
  | (r, some err) => .error (r, some err)
  | (r, none) => afterBuf nb r r.src.bufferedAns

theorem step1_eq (nb : Nat) (r : BR) :
    step1 nb r = if r.bufPeek.isEmpty then afterFlush nb ({ r with fedBits := r.numBits } : BR).flush else .ok r := by
  unfold step1
  split
  · dsimp only
    generalize ({ r with fedBits := r.numBits } : BR).flush = fr
    obtain ⟨r1, e⟩ := fr
    cases e <;> rfl
  · rfl

def wafterPeek (nb : Nat) (r : WR) : Wrapper × List UInt8 × Option RErr → Except (WR × Option RErr) WR
  | (w', pk, perr) =>
    let r := { r with w := w' }
    if pk.length < r.numBits / 8 then .error (r, some .panic)
    else
      let bp := pk.drop (r.numBits / 8)
      if bp.isEmpty then
        if r.numBits ≥ nb then .error ({ r with bufPeek := [], fedBits := r.numBits }, none)
        else .error ({ r with bufPeek := [] },
               some (match perr with | some .eof => .unexpectedEOF | some e => e | none => .unexpectedEOF))
      else .ok { r with bufPeek := bp }

def wafterBuf (nb : Nat) (r : WR) : Wrapper × Nat → Except (WR × Option RErr) WR
  | (w1, b) => wafterPeek nb r (w1.peek (max ((nb + 7) / 8) b))

def wafterFlush (nb : Nat) : WR × Option RErr → Except (WR × Option RErr) WR
  | (r, some err) => .error (r, some err)
  | (r, none) => wafterBuf nb r r.w.buffered

theorem wstep1_eq (nb : Nat) (r : WR) :
    wstep1 nb r = if r.bufPeek.isEmpty then wafterFlush nb ({ r with fedBits := r.numBits } : WR).flush else .ok r := by
  unfold wstep1
  split
  · dsimp only
    generalize ({ r with fedBits := r.numBits } : WR).flush = fr
    obtain ⟨r1, e⟩ := fr
    cases e <;> rfl
  · rfl

theorem afterPeek_lift (nb : Nat) (c : WR) (s0 s' : Source) (w' : Wrapper) (pk : List UInt8) (perr : Option RErr) :
    afterPeek nb (toBR c s0) (s', pk, perr) = mapE s' (wafterPeek nb c (w', pk, perr)) ∧
    endW (wafterPeek nb c (w', pk, perr)) = w' := by
  simp only [afterPeek, wafterPeek, toBR]
  by_cases h1 : pk.length < c.numBits / 8
  · simp [h1, mapE, endW, toBR]
  · by_cases h2 : (List.drop (c.numBits / 8) pk).isEmpty = true
    · by_cases h3 : c.numBits ≥ nb
      · simp [h1, h2, h3, mapE, endW, toBR]
      · simp [h1, h2, h3, mapE, endW, toBR]
    · simp [h1, h2, mapE, endW, toBR]

theorem step1_lift (nb : Nat) (hnb : (nb + 7) / 8 ≤ arrLen) (c : WR) :
    ∃ pre : List Nat, ∀ (s : Source) (rest : List Nat), WSim c.w s → s.bufAdv = pre ++ rest →
      ∃ s', step1 nb (toBR c s) = mapE s' (wstep1 nb c) ∧ WSim (endW (wstep1 nb c)) s' ∧ s'.bufAdv = rest := by
  have e0 : ∀ s, ({ toBR c s with fedBits := (toBR c s).numBits } : BR) = toBR { c with fedBits := c.numBits } s :=
    fun _ => rfl
  rw [wstep1_eq]
  by_cases hemp : c.bufPeek.isEmpty = true
  · -- Flush, Buffered, Peek
    generalize hc0 : ({ c with fedBits := c.numBits } : WR) = c0 at e0
    have hw0 : c0.w = c.w := by rw [← hc0]
    simp only [hemp, if_true]
    obtain ⟨c1, e1⟩ : ∃ c1 e1, c0.flush = (c1, e1) := ⟨_, _, rfl⟩
    obtain ⟨e1, hfl⟩ := e1
    cases e1 with
    | some err =>
      rw [hfl]
      refine ⟨[0], ?_⟩
      intro s rest h ha
      obtain ⟨s1, f1, f2, f3⟩ := flush_lift c0 s 0 _ (by rw [hw0]; exact h) ha
      rw [hfl] at f1 f2
      simp only at f1 f2
      refine ⟨s1, ?_, ?_, f3⟩
      · rw [step1_eq]
        have : (toBR c s).bufPeek.isEmpty = true := hemp
        simp only [this, if_true, e0, f1, afterFlush, wafterFlush, mapE]
      · simpa only [wafterFlush, endW] using f2
    | none =>
      rw [hfl]
      refine ⟨[0, c1.w.buffered.2], ?_⟩
      intro s rest h ha
      obtain ⟨s1, f1, f2, f3⟩ := flush_lift c0 s 0 _ (by rw [hw0]; exact h) ha
      rw [hfl] at f1 f2
      simp only at f1 f2
      have f3 : s1.bufAdv = c1.w.buffered.2 :: rest := f3
      obtain ⟨b1, _, b3, b4⟩ := wsim_buffered f2
      have hbuf := bufferedAns_eq s1 _ rest f3 b3
      obtain ⟨p1, p2, p3⟩ := wsim_peek b1 _ (b4 _ hnb)
      obtain ⟨q1, q2⟩ := afterPeek_lift nb c1 s1 (s1.peek (max ((nb + 7) / 8) c1.w.buffered.2)).1
        (c1.w.buffered.1.peek (max ((nb + 7) / 8) c1.w.buffered.2)).1
        (c1.w.buffered.1.peek (max ((nb + 7) / 8) c1.w.buffered.2)).2.1
        (c1.w.buffered.1.peek (max ((nb + 7) / 8) c1.w.buffered.2)).2.2
      refine ⟨(s1.peek (max ((nb + 7) / 8) c1.w.buffered.2)).1, ?_, ?_, ?_⟩
      · rw [step1_eq]
        have : (toBR c s).bufPeek.isEmpty = true := hemp
        simp only [this, if_true, e0, f1, afterFlush, wafterFlush, afterBuf, wafterBuf]
        have hsrc : (toBR c1 s1).src = s1 := rfl
        rw [hsrc, hbuf]
        simp only
        rw [← q1]
        congr 1
        exact Prod.ext rfl (Prod.ext p1.symm p2.symm)
      · simp only [wafterFlush, wafterBuf]
        rw [q2]; exact p3
      · rw [peek_adv, f3]; rfl
  · refine ⟨[], ?_⟩
    intro s rest h ha
    refine ⟨s, ?_, ?_, ha⟩
    · rw [step1_eq]
      have : ¬ ((toBR c s).bufPeek.isEmpty = true) := hemp
      simp [this, hemp, mapE]
    · simp only [hemp, Bool.false_eq_true, if_false, endW]
      exact h

/-- the second half of the loop body does not touch the source: it either finishes or re-enters
    the loop from a state with the same wrapper. -/
theorem step2_cases (nb fuel : Nat) (c : WR) :
    (∃ c2 : WR, c2.w = c.w ∧ wstep2 nb fuel c = (c2, none) ∧
      ∀ s, step2 nb fuel (toBR c s) = (toBR c2 s, none)) ∨
    (∃ c3 : WR, c3.w = c.w ∧ wstep2 nb fuel c = WR.pullLoop nb fuel c3 ∧
      ∀ s, step2 nb fuel (toBR c s) = BR.pullLoop nb fuel (toBR c3 s)) := by
  by_cases h8 : c.bufPeek.length ≥ 8
  · refine Or.inl ⟨{ c with bufBits := (c.bufBits ||| (le64 c.bigEndian (c.bufPeek.take 8) * 2 ^ c.numBits)) % two64,
                             numBits := c.numBits + (64 - c.numBits) / 8 * 8,
                             bufPeek := c.bufPeek.drop ((64 - c.numBits) / 8),
                             fedBits := c.numBits + (64 - c.numBits) / 8 * 8 }, rfl, ?_, fun s => ?_⟩
    · simp only [wstep2, h8, if_true]
    · simp only [step2, toBR, h8, if_true]
  · by_cases h56 : c.numBits + min ((64 - c.numBits) / 8) c.bufPeek.length * 8 > 56
    · refine Or.inl ⟨{ c with bufBits := (c.bufBits ||| (le64 c.bigEndian (c.bufPeek.take (min ((64 - c.numBits) / 8) c.bufPeek.length)) * 2 ^ c.numBits)) % two64,
                               numBits := c.numBits + min ((64 - c.numBits) / 8) c.bufPeek.length * 8,
                               bufPeek := c.bufPeek.drop (min ((64 - c.numBits) / 8) c.bufPeek.length),
                               fedBits := c.numBits + min ((64 - c.numBits) / 8) c.bufPeek.length * 8 }, rfl, ?_, fun s => ?_⟩
      · simp only [wstep2, h8, if_false, h56, if_true]
      · simp only [step2, toBR, h8, if_false, h56, if_true]
    · refine Or.inr ⟨{ c with bufBits := (c.bufBits ||| (le64 c.bigEndian (c.bufPeek.take (min ((64 - c.numBits) / 8) c.bufPeek.length)) * 2 ^ c.numBits)) % two64,
                               numBits := c.numBits + min ((64 - c.numBits) / 8) c.bufPeek.length * 8,
                               bufPeek := c.bufPeek.drop (min ((64 - c.numBits) / 8) c.bufPeek.length) }, rfl, ?_, fun s => ?_⟩
      · simp only [wstep2, h8, if_false, h56]
      · simp only [step2, toBR, h8, if_false, h56]

theorem pullLoop_lift (nb : Nat) (hnb : (nb + 7) / 8 ≤ arrLen) : ∀ (fuel : Nat) (c : WR),
    ∃ pre : List Nat, ∀ (s : Source) (rest : List Nat), WSim c.w s → s.bufAdv = pre ++ rest →
      ∃ s', BR.pullLoop nb fuel (toBR c s) = (toBR (WR.pullLoop nb fuel c).1 s', (WR.pullLoop nb fuel c).2) ∧
        WSim (WR.pullLoop nb fuel c).1.w s' ∧ s'.bufAdv = rest
  | 0, c => ⟨[], fun s _ h ha => ⟨s, rfl, h, ha⟩⟩
  | fuel+1, c => by
    obtain ⟨pre1, h1⟩ := step1_lift nb hnb c
    rw [wpullLoop_succ]
    cases hw : wstep1 nb c with
    | error res =>
      obtain ⟨c', e⟩ := res
      refine ⟨pre1, fun s rest h ha => ?_⟩
      obtain ⟨s', a1, a2, a3⟩ := h1 s rest h ha
      rw [hw] at a1 a2
      refine ⟨s', ?_, a2, a3⟩
      rw [pullLoop_succ, a1]
      rfl
    | ok c' =>
      simp only
      rcases step2_cases nb fuel c' with ⟨c2, k1, k2, k3⟩ | ⟨c3, k1, k2, k3⟩
      · refine ⟨pre1, fun s rest h ha => ?_⟩
        obtain ⟨s', a1, a2, a3⟩ := h1 s rest h ha
        rw [hw] at a1 a2
        refine ⟨s', ?_, ?_, a3⟩
        · rw [pullLoop_succ, a1, k2]
          exact k3 s'
        · rw [k2]
          show WSim c2.w s'
          rw [k1]; exact a2
      · obtain ⟨pre2, h2⟩ := pullLoop_lift nb hnb fuel c3
        refine ⟨pre1 ++ pre2, fun s rest h ha => ?_⟩
        obtain ⟨s1, a1, a2, a3⟩ := h1 s (pre2 ++ rest) h (by rw [ha, List.append_assoc])
        rw [hw] at a1 a2
        obtain ⟨s', b1, b2, b3⟩ := h2 s1 rest (by rw [k1]; exact a2) a3
        refine ⟨s', ?_, ?_, b3⟩
        · rw [pullLoop_succ, a1, k2]
          show step2 nb fuel (toBR c' s1) = _
          rw [k3 s1]; exact b1
        · rw [k2]; exact b2

/-! ### PullBits, ReadBits, scripts -/

theorem pullBits_lift (nb : Nat) (hnb : (nb + 7) / 8 ≤ arrLen) (c : WR) :
    ∃ pre : List Nat, ∀ (s : Source) (rest : List Nat), WSim c.w s → s.bufAdv = pre ++ rest →
      ∃ s', BR.pullBits (toBR c s) nb = (toBR (c.pullBits nb).1 s', (c.pullBits nb).2) ∧
        WSim (c.pullBits nb).1.w s' ∧ s'.bufAdv = rest := by
  obtain ⟨pre, h⟩ := pullLoop_lift nb hnb 12
    { c with discardBits := c.discardBits + ((c.fedBits : Int) - c.numBits), fedBits := c.numBits }
  refine ⟨pre, fun s rest hs ha => ?_⟩
  obtain ⟨s', a1, a2, a3⟩ := h s rest hs ha
  refine ⟨s', ?_, a2, a3⟩
  have hm := wsim_mode hs
  simp only [BR.pullBits, toBR, hm, if_true] at a1 ⊢
  exact a1

theorem readBits_lift (nb : Nat) (hnb : (nb + 7) / 8 ≤ arrLen) (c : WR) :
    ∃ pre : List Nat, ∀ (s : Source) (rest : List Nat), WSim c.w s → s.bufAdv = pre ++ rest →
      ∃ s', BR.readBits (toBR c s) nb = (toBR (c.readBits nb).1 s', (c.readBits nb).2) ∧
        WSim (c.readBits nb).1.w s' ∧ s'.bufAdv = rest := by
  obtain ⟨pre, h⟩ := pullBits_lift nb hnb c
  refine ⟨pre, fun s rest hs ha => ?_⟩
  obtain ⟨s', a1, a2, a3⟩ := h s rest hs ha
  simp only [BR.readBits, WR.readBits, a1]
  cases he : (c.pullBits nb).2 with
  | some err => exact ⟨s', rfl, by simpa only [he] using a2, a3⟩
  | none => exact ⟨s', rfl, by simpa only [he] using a2, a3⟩

theorem script_lift : ∀ (ns : List Nat) (c : WR), (∀ n ∈ ns, n ≤ 56) →
    ∃ pre : List Nat, ∀ (s : Source) (rest : List Nat), WSim c.w s → s.bufAdv = pre ++ rest →
      readScript (toBR c s) ns = wreadScript c ns
  | [], _, _ => ⟨[], fun _ _ _ _ => rfl⟩
  | n :: ns, c, hn => by
    have hn56 : n ≤ 56 := hn n (by simp)
    obtain ⟨pre1, h1⟩ := readBits_lift n (by simp only [arrLen]; omega) c
    cases hr : (c.readBits n).2 with
    | error e =>
      refine ⟨pre1, fun s rest hs ha => ?_⟩
      obtain ⟨s', a1, _, _⟩ := h1 s rest hs ha
      simp only [readScript, wreadScript, a1, hr]
      have : c.readBits n = ((c.readBits n).1, .error e) := Prod.ext rfl hr
      rw [this]
    | ok v =>
      obtain ⟨pre2, h2⟩ := script_lift ns (c.readBits n).1 (fun m hm => hn m (by simp [hm]))
      refine ⟨pre1 ++ pre2, fun s rest hs ha => ?_⟩
      obtain ⟨s1, a1, a2, a3⟩ := h1 s (pre2 ++ rest) hs (by rw [ha, List.append_assoc])
      have := h2 s1 rest a2 a3
      simp only [readScript, wreadScript, a1, hr]
      have hc : c.readBits n = ((c.readBits n).1, .ok v) := Prod.ext rfl hr
      rw [hc]
      simp only [this]

/-- **prefix.Reader over a real bytes.Reader / strings.Reader / bytes.Buffer.**  For every source
    object of the three wrapped kinds (at any position), both bit orders and every script of field
    widths up to 56 bits, `ReadBits` on a Reader initialised over the CONCRETE wrapper of wrap.go
    returns exactly the successive fields of the bit stream of the unread bytes; the first field
    that does not fit fails with io.ErrUnexpectedEOF.  (Through `reader_refines`, instantiated with
    the `Buffered()` answers the wrapper actually gives.) -/
theorem wrapper_reader_refines (old : Option WR) (src : Src) (big : Bool) (ns : List Nat) (hn : ∀ n ∈ ns, n ≤ 56) :
    wreadScript (WR.init old src big) ns = specReadScript (streamBits big (Src.rest src)) ns := by
  obtain ⟨pre, h⟩ := script_lift ns (WR.init old src big) hn
  have := h { data := Src.rest src, bufAdv := pre } [] (wsim_fresh src pre) (by simp)
  rw [← this]
  exact reader_refines (Src.rest src) big true pre ns hn

end Compress.Proofs.Wrap
