/-
C16 (M2), part (a): the header of a meta block as a dynamic DEFLATE block
header (`readDynamic`).
-/
import Compress.Proofs.MetaSilentLit
import Compress.Proofs.MetaBlockRT

namespace Compress.Proofs.MetaSilent
open Compress Compress.Flate Compress.Meta Compress.Proofs.Meta

/-- the 32 magic bits as DEFLATE fields: BFINAL, BTYPE = 2, HLIT = pads,
    HDIST = 0, HCLEN = 2k, and the first five HCLEN code lengths
    (symbols 16, 17, 18, 0, 8 ↦ 3, 0, 3, 1, 0). -/
theorem magic_bits : ∀ fs, fs < 2 → ∀ k, k < 8 → ∀ pads, pads < 8 →
    Bits.ofNat (magicVals + fs + (2 * k) * 8192 + pads * 8) 32 =
      Bits.ofNat fs 1 ++ (Bits.ofNat 2 2 ++ (Bits.ofNat pads 5 ++ (Bits.ofNat 0 5 ++ (Bits.ofNat (2 * k) 4 ++
        (Bits.ofNat 3 3 ++ (Bits.ofNat 0 3 ++ (Bits.ofNat 3 3 ++ (Bits.ofNat 1 3 ++ Bits.ofNat 0 3)))))))) := by
  decide

/-- the HCLEN code lengths of a meta block, in the order they are written. -/
def fields (h : Nat) : List Nat := [3, 0, 3, 1, 0] ++ (List.replicate (4 + (8 - h) * 2 - 1 - 5) 0 ++ [2])

def fieldBits (vs : List Nat) : Bits := (vs.map (fun v => Bits.ofNat v 3)).flatten

theorem fieldBits_eq (h : Nat) :
    Bits.ofNat 3 3 ++ (Bits.ofNat 0 3 ++ (Bits.ofNat 3 3 ++ (Bits.ofNat 1 3 ++ (Bits.ofNat 0 3 ++
      ((List.replicate (4 + (8 - h) * 2 - 1 - 5) (Bits.ofNat 0 3)).flatten ++ Bits.ofNat 2 3))))) =
    fieldBits (fields h) := by
  simp [fieldBits, fields, List.map_replicate]

theorem readCLens_fields : ∀ (ps vs : List Nat) (acc : Array Nat) (rest : Bits),
    ps.length = vs.length → (∀ v ∈ vs, v < 8) →
    readCLens ps acc (fieldBits vs ++ rest) =
      some ((ps.zip vs).foldl (fun a pv => a.setIfInBounds pv.1 pv.2) acc, rest)
  | [], [], acc, rest, _, _ => by simp [readCLens, fieldBits]
  | [], _ :: _, _, _, hl, _ => by simp at hl
  | _ :: _, [], _, _, hl, _ => by simp at hl
  | p :: ps, v :: vs, acc, rest, hl, hv => by
    have ih := readCLens_fields ps vs (acc.setIfInBounds p v) rest (by simpa using hl)
      (fun x hx => hv x (by simp [hx]))
    have e : fieldBits (v :: vs) ++ rest = Bits.ofNat v 3 ++ (fieldBits vs ++ rest) := by
      simp [fieldBits]
    rw [e, readCLens, takeBits_ofNat_lt 3 v _ (by have := hv v (by simp); omega)]
    simp only [List.zip_cons_cons, List.foldl_cons]
    exact ih

theorem fields_fold (h : Nat) (h1 : 1 ≤ h) (h7 : h ≤ 7) :
    ((clenOrder.take (2 * (8 - h) + 4)).zip (fields h)).foldl (fun a pv => a.setIfInBounds pv.1 pv.2)
      (Array.replicate 19 0) = clLens h := by
  rcases range7 h h1 h7 with rfl | rfl | rfl | rfl | rfl | rfl | rfl <;> decide

theorem fields_ok (h : Nat) (h1 : 1 ≤ h) (h7 : h ≤ 7) :
    (clenOrder.take (2 * (8 - h) + 4)).length = (fields h).length ∧ ∀ v ∈ fields h, v < 8 := by
  rcases range7 h h1 h7 with rfl | rfl | rfl | rfl | rfl | rfl | rfl <;> decide

theorem readCLens_meta (h : Nat) (h1 : 1 ≤ h) (h7 : h ≤ 7) (rest : Bits) :
    readCLens (clenOrder.take (2 * (8 - h) + 4)) (Array.replicate 19 0) (fieldBits (fields h) ++ rest) =
      some (clLens h, rest) := by
  obtain ⟨a, b⟩ := fields_ok h h1 h7
  rw [readCLens_fields _ _ _ _ a b, fields_fold h h1 h7]

/-- **header parse.** The bits after BFINAL/BTYPE are a dynamic block header
    whose literal/length code has lengths `0 / h` as the symbol bits say (then
    `pads` zeros), and whose distance code is the single unused symbol. -/
theorem readDynamic_meta (h pads : Nat) (t tail : Bits) (h1 : 1 ≤ h) (h7 : h ≤ 7) (hp : pads < 8)
    (ht : t.length = 256) (hc : Bits.countOnes (false :: t) = 2 ^ h) :
    readDynamic (Bits.ofNat pads 5 ++ (Bits.ofNat 0 5 ++ (Bits.ofNat (2 * (8 - h)) 4 ++
      (fieldBits (fields h) ++ ([false] ++ (encodeRuns (runs t) false ++
        (List.replicate pads false ++ ([false] ++ tail)))))))) =
      .ok (litHuff h (false :: t) pads, ⟨#[0]⟩, tail) := by
  have hn : pads + 257 + (0 + 1) = 258 + pads := by omega
  have hbad : ¬ (pads + 257 > 286 ∨ 0 + 1 > 30) := by omega
  have hlit : List.take (pads + 257) (List.map (L h) (false :: t) ++ List.replicate (pads + 1) 0) =
      litLens h (false :: t) pads := by
    rw [List.replicate_succ', ← List.append_assoc]
    rw [List.take_left' (by simp [ht]; omega)]
    rfl
  have hdist : List.drop (pads + 257) (List.map (L h) (false :: t) ++ List.replicate (pads + 1) 0) = [0] := by
    rw [List.replicate_succ', ← List.append_assoc]
    rw [List.drop_left' (by simp [ht]; omega)]
  have hlv : (!(litHuff h (false :: t) pads).valid) = false := by
    rw [litHuff_valid h (false :: t) pads h1 h7 hc]; rfl
  have hcv : (!(clHuff h).valid) = false := by rw [clHuff_valid h h1 h7]; rfl
  have hdv : (!(⟨#[0]⟩ : Huff).valid) = false := by rw [distHuff_valid]; rfl
  unfold readDynamic
  rw [takeBits_ofNat_lt 5 pads _ (by omega)]
  simp only
  rw [takeBits_ofNat_lt 5 0 _ (by omega)]
  simp only
  rw [takeBits_ofNat_lt 4 (2 * (8 - h)) _ (by omega)]
  simp only [hbad, if_false]
  rw [readCLens_meta h h1 h7]
  simp only
  rw [show (⟨clLens h⟩ : Huff) = clHuff h from rfl, hcv]
  simp only [Bool.false_eq_true, if_false]
  rw [clHuff_tab h h1 h7, hn, rl_block (clTab_ok h h7) t pads tail ht]
  simp only [hlit, hdist]
  rw [show (⟨(litLens h (false :: t) pads).toArray⟩ : Huff) = litHuff h (false :: t) pads from rfl, hlv]
  rw [show ([0] : List Nat).toArray = #[0] from rfl, hdv]
  simp

end Compress.Proofs.MetaSilent
