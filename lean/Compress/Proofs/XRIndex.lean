/-
Facts about the record index used by the Reader simulation (C07):
segment boundaries `bnd`, `getRecords` in terms of them, monotonicity from
`rawSorted`, and the characterisation of `searchSpec`.
-/
import Compress.XFlate.ReaderSpec

namespace Compress.Proofs.XRIndex
open Compress.XFlate

/-- raw offset at which segment `j` starts (`0` for the first one). -/
def bnd (recs : List Record) (j : Nat) : Int :=
  if j = 0 then 0 else (recs[j-1]?.getD Record.zero).raw

theorem bnd_zero (recs : List Record) : bnd recs 0 = 0 := by simp [bnd]

theorem bnd_succ (recs : List Record) (j : Nat) (h : j < recs.length) :
    bnd recs (j+1) = recs[j].raw := by
  simp [bnd, h]

/-! ### getRecords -/

theorem gr_lt (recs : List Record) (j : Nat) (h : j < recs.length) :
    getRecords recs j =
      ((if j ≥ 1 then (recs[j-1]?).getD Record.zero else Record.zero), recs[j]) := by
  unfold getRecords
  have h1 : ¬ j > recs.length := by omega
  simp [h1, h]

theorem gr_len (recs : List Record) :
    getRecords recs recs.length =
      ((if recs.length ≥ 1 then (recs[recs.length-1]?).getD Record.zero else Record.zero),
       { (if recs.length ≥ 1 then (recs[recs.length-1]?).getD Record.zero else Record.zero) with
          typ := unknownType }) := by
  unfold getRecords
  simp

theorem gr_prev_raw (recs : List Record) (j : Nat) (h : j ≤ recs.length) :
    (getRecords recs j).1.raw = bnd recs j := by
  rcases Nat.lt_or_eq_of_le h with h | h
  · rw [gr_lt recs j h]
    by_cases hj : j = 0
    · subst hj; simp [bnd, Record.zero]
    · have : j ≥ 1 := by omega
      simp [bnd, hj, this]
  · subst h
    rw [gr_len]
    by_cases hj : recs.length = 0
    · simp [bnd, hj, Record.zero]
    · have : recs.length ≥ 1 := by omega
      simp [bnd, hj, this]

theorem gr_curr_lt (recs : List Record) (j : Nat) (h : j < recs.length) :
    (getRecords recs j).2 = recs[j] := by
  rw [gr_lt recs j h]

theorem gr_curr_raw_lt (recs : List Record) (j : Nat) (h : j < recs.length) :
    (getRecords recs j).2.raw = bnd recs (j+1) := by
  rw [gr_curr_lt recs j h, bnd_succ recs j h]

theorem gr_curr_mem (recs : List Record) (j : Nat) (h : j < recs.length) :
    (getRecords recs j).2 ∈ recs := by
  rw [gr_curr_lt recs j h]; exact List.getElem_mem h

theorem gr_curr_raw_len (recs : List Record) :
    (getRecords recs recs.length).2.raw = bnd recs recs.length := by
  rw [← gr_prev_raw recs recs.length (Nat.le_refl _), gr_len]

theorem gr_curr_typ_len (recs : List Record) :
    (getRecords recs recs.length).2.typ = unknownType := by
  rw [gr_len]

theorem gr_curr_comp_len (recs : List Record) :
    (getRecords recs recs.length).2.comp = (getRecords recs recs.length).1.comp := by
  rw [gr_len]

/-- `getRecords` clamps its argument. -/
theorem gr_clamp (recs : List Record) (j : Nat) (h : recs.length ≤ j) :
    getRecords recs j = getRecords recs recs.length := by
  rcases Nat.lt_or_eq_of_le h with h | h
  · unfold getRecords
    simp [h]
  · rw [h]

/-! ### sortedness -/

theorem sorted_pairwise : ∀ (recs : List Record), rawSorted recs = true →
    recs.Pairwise (fun a b => a.raw ≤ b.raw)
  | [], _ => List.Pairwise.nil
  | [_], _ => by simp
  | a :: b :: rs, h => by
    simp only [rawSorted, Bool.and_eq_true, decide_eq_true_eq] at h
    have ih := sorted_pairwise (b :: rs) h.2
    refine List.Pairwise.cons ?_ ih
    intro c hc
    rcases List.mem_cons.1 hc with hc | hc
    · subst hc; exact h.1
    · have := List.rel_of_pairwise_cons ih hc
      omega

theorem recs_mono (recs : List Record) (hs : rawSorted recs = true) (i j : Nat)
    (hij : i ≤ j) (hj : j < recs.length) : recs[i].raw ≤ recs[j].raw := by
  rcases Nat.lt_or_eq_of_le hij with h | h
  · exact (List.pairwise_iff_getElem.1 (sorted_pairwise recs hs)) i j (by omega) hj h
  · subst h; exact Int.le_refl _

theorem bnd_nonneg (recs : List Record) (hn : ∀ r ∈ recs, 0 ≤ r.raw) (j : Nat)
    (hj : j ≤ recs.length) : 0 ≤ bnd recs j := by
  by_cases h0 : j = 0
  · subst h0; simp [bnd]
  · obtain ⟨k, rfl⟩ : ∃ k, j = k + 1 := ⟨j - 1, by omega⟩
    rw [bnd_succ recs k (by omega)]
    exact hn _ (List.getElem_mem _)

theorem bnd_mono (recs : List Record) (hs : rawSorted recs = true)
    (hn : ∀ r ∈ recs, 0 ≤ r.raw) (i j : Nat) (hij : i ≤ j) (hj : j ≤ recs.length) :
    bnd recs i ≤ bnd recs j := by
  by_cases h0 : i = 0
  · subst h0; rw [bnd_zero]; exact bnd_nonneg recs hn j hj
  · obtain ⟨k, rfl⟩ : ∃ k, i = k + 1 := ⟨i - 1, by omega⟩
    obtain ⟨m, rfl⟩ : ∃ m, j = m + 1 := ⟨j - 1, by omega⟩
    rw [bnd_succ recs k (by omega), bnd_succ recs m (by omega)]
    exact recs_mono recs hs k m (by omega) (by omega)

theorem bnd_len (recs : List Record) : bnd recs recs.length = (lastRecord recs).raw := by
  unfold lastRecord bnd
  cases recs with
  | nil => simp [Record.zero]
  | cons a rs =>
    simp [List.getLast?_eq_getElem?]

/-! ### searchSpec -/

theorem searchSpec_le (recs : List Record) (p : Int) : searchSpec recs p ≤ recs.length := by
  unfold searchSpec; exact List.length_filter_le _ _

theorem searchSpec_iff : ∀ (recs : List Record), rawSorted recs = true → ∀ (p : Int)
    (i : Nat) (h : i < recs.length), i < searchSpec recs p ↔ recs[i].raw ≤ p
  | [], _, _, i, h => by simp at h
  | a :: rs, hs, p, i, h => by
    have hp := sorted_pairwise (a :: rs) hs
    have hrs : rawSorted rs = true := by
      cases rs with
      | nil => rfl
      | cons b rs' =>
        simp only [rawSorted, Bool.and_eq_true, decide_eq_true_eq] at hs
        exact hs.2
    have ih := searchSpec_iff rs hrs p
    unfold searchSpec at ih ⊢
    by_cases ha : a.raw ≤ p
    · rw [List.filter_cons_of_pos (by simpa using ha)]
      cases i with
      | zero => simp [ha]
      | succ k =>
        have hk : k < rs.length := by simpa using h
        have := ih k hk
        simp only [List.length_cons, List.getElem_cons_succ]
        omega
    · have hall : ∀ r ∈ rs, ¬ r.raw ≤ p := by
        intro r hr
        have := List.rel_of_pairwise_cons hp hr
        omega
      have hnil : List.filter (fun r => decide (r.raw ≤ p)) rs = [] := by
        rw [List.filter_eq_nil_iff]
        intro r hr; simpa using hall r hr
      rw [List.filter_cons_of_neg (by simpa using ha), hnil]
      simp only [List.length_nil, Nat.not_lt_zero, false_iff]
      cases i with
      | zero => simpa using ha
      | succ k =>
        have hk : k < rs.length := by simpa using h
        simp only [List.getElem_cons_succ]
        exact hall _ (List.getElem_mem hk)

/-- the segment chosen by `searchSpec` starts at or before `p` … -/
theorem searchSpec_lower (recs : List Record) (hs : rawSorted recs = true) (p : Int) (hp : 0 ≤ p) :
    bnd recs (searchSpec recs p) ≤ p := by
  have hle := searchSpec_le recs p
  by_cases h0 : searchSpec recs p = 0
  · rw [h0, bnd_zero]; exact hp
  · obtain ⟨k, hk⟩ : ∃ k, searchSpec recs p = k + 1 := ⟨searchSpec recs p - 1, by omega⟩
    rw [hk, bnd_succ recs k (by omega)]
    exact (searchSpec_iff recs hs p k (by omega)).1 (by omega)

/-- … and, unless it is the tail segment, ends strictly after `p`. -/
theorem searchSpec_upper (recs : List Record) (hs : rawSorted recs = true) (p : Int)
    (h : searchSpec recs p < recs.length) : p < bnd recs (searchSpec recs p + 1) := by
  rw [bnd_succ recs _ h]
  have := (searchSpec_iff recs hs p (searchSpec recs p) h)
  omega

end Compress.Proofs.XRIndex
