/-
S6: the ring-buffer window (`dictDecoder`) refines an append-only LZ77 output.
-/
import Compress.Window

namespace Compress.Proofs.Window
open Compress.Window

/-- the ops respect the documented preconditions of the window: every copy has
    `0 < dist ≤ HistSize`, where the history is what has been produced so far,
    capped by the window size. -/
def Legal (size : Nat) : List UInt8 → List Op → Prop
  | _, [] => True
  | out, .byte c :: ops => Legal size (out ++ [c]) ops
  | out, .bytes bs :: ops => Legal size (out ++ bs) ops
  | out, .copy d l :: ops => 0 < d ∧ d ≤ min size out.length ∧ Legal size (specCopy out d l) ops

/-- **Window refinement.** For every window size ≥ 1, whatever capacity an
    earlier use left behind, and every legal sequence of literals, raw writes and
    copies (any lengths, so any number of flushes, growth steps and wrap-arounds in
    between), the bytes the window hands out are exactly the append-only LZ77
    output. Holds with and without the `TryWriteCopy` fast path. -/
theorem window_refines (useTry : Bool) (size prevCap : Nat) (hs : 1 ≤ size) (ops : List Op)
    (hl : Legal size [] ops) :
    (runAll useTry size prevCap ops).1 = specRun [] ops := by
  sorry

/-- `HistSize` is the output length capped by the window size (checked at the end of any legal run). -/
theorem histSize_eq (useTry : Bool) (size prevCap : Nat) (hs : 1 ≤ size) (ops : List Op)
    (hl : Legal size [] ops) :
    (runOps useTry (Dict.init size prevCap) ops []).1.histSize = min size (specRun [] ops).length := by
  sorry

/-- **Lazy growth.** Every buffer the window allocates is at most
    `max 4096 (min size (4 * output length))`: memory follows the data actually
    produced, not the window size a stream declares. -/
theorem allocs_bounded (useTry : Bool) (size : Nat) (hs : 1 ≤ size) (ops : List Op)
    (hl : Legal size [] ops) :
    ∀ a ∈ (runAll useTry size 0 ops).2.allocs,
      a ≤ max initSize (min size (growFactor * (specRun [] ops).length)) := by
  sorry

end Compress.Proofs.Window
