/-
S6: the ring-buffer window (`dictDecoder`) refines an append-only LZ77 output.
-/
import Compress.Window
import Compress.Proofs.WindowCopy

namespace Compress.Proofs.Window
open Compress.Window

/-- the ops respect the documented preconditions of the window: every copy has
    `0 < dist ≤ HistSize`, where the history is what has been produced so far,
    capped by the window size. -/
def Legal (size : Nat) : List UInt8 → List Op → Prop
  | _, [] => True
  | out, .byte c :: ops => Legal size (out ++ [c]) ops
  | out, .bytes bs :: ops => Legal size (out ++ bs) ops
  | out, .copy d l :: ops => 0 < d ∧ d ≤ min size out.length ∧ Legal size (specCopy out d l) ops

/-! ### the drivers -/

/-- a copy, continued across flushes. -/
theorem runCopy_spec (useTry : Bool) (size dist : Nat) (hd : 0 < dist) :
    ∀ (fuel : Nat) (d : Dict) (len : Nat) (out acc : List UInt8), Inv size d out acc →
    dist ≤ min size out.length →
    (len + 2 ≤ fuel ∨ (d.wrPos < d.hist.size ∧ len + 1 ≤ fuel)) →
    Inv size (runCopy useTry fuel d dist len acc).1 (specCopy out dist len)
      (runCopy useTry fuel d dist len acc).2 := by
  intro fuel
  induction fuel with
  | zero => intro d len out acc _ _ hf; omega
  | succ fuel ih =>
    intro d len out acc I hdl hf
    unfold runCopy
    by_cases h0 : len = 0
    · subst h0
      rw [if_pos rfl]
      exact I
    · rw [if_neg h0, try_eq_writeCopy]
      obtain ⟨hn, I1⟩ := I.writeCopy dist len hd hdl
      generalize d.writeCopy dist len = p at hn I1
      obtain ⟨d1, n⟩ := p
      simp only at hn I1 ⊢
      rw [← hn] at I1
      by_cases h1 : len - n > 0
      · rw [if_pos h1]
        obtain ⟨I2, hav, _⟩ := I1.readFlush
        generalize d1.readFlush = q at I2 hav
        obtain ⟨d2, fl⟩ := q
        simp only at I2 hav ⊢
        have hlen : len = n + (len - n) := by omega
        have hgoal := ih d2 (len - n) (specCopy out dist n) (acc ++ fl) I2
          (by rw [specCopy_length]; omega)
          (by
            right
            refine ⟨hav, ?_⟩
            simp only [Dict.availSize] at hn
            rcases hf with hf | hf <;> omega)
        rw [← specCopy_add, ← hlen] at hgoal
        exact hgoal
      · rw [if_neg h1]
        have : n = len := by omega
        rw [this] at I1
        exact I1

/-- raw bytes, continued across flushes. -/
theorem runBytes_spec (size : Nat) :
    ∀ (fuel : Nat) (d : Dict) (bs : List UInt8) (out acc : List UInt8), Inv size d out acc →
    bs.length ≤ fuel →
    Inv size (runBytes fuel d bs acc).1 (out ++ bs) (runBytes fuel d bs acc).2 := by
  intro fuel
  induction fuel with
  | zero =>
    intro d bs out acc I hf
    have : bs = [] := List.eq_nil_of_length_eq_zero (by omega)
    subst this
    simpa [runBytes] using I
  | succ fuel ih =>
    intro d bs out acc I hf
    unfold runBytes
    by_cases h0 : bs.isEmpty = true
    · rw [if_pos h0]
      have : bs = [] := by simpa using h0
      subst this
      simpa using I
    · rw [if_neg h0]
      have hne : bs ≠ [] := by simpa using h0
      have hpos : 0 < bs.length := List.length_pos_iff.mpr hne
      -- the optional flush
      have hfl : Inv size (if d.availSize = 0 then d.readFlush else (d, [])).1 out
            (acc ++ (if d.availSize = 0 then d.readFlush else (d, [])).2) ∧
          (if d.availSize = 0 then d.readFlush else (d, [])).1.wrPos <
            (if d.availSize = 0 then d.readFlush else (d, [])).1.hist.size := by
        by_cases ha : d.availSize = 0
        · rw [if_pos ha]
          exact ⟨I.readFlush.1, I.readFlush.2.1⟩
        · rw [if_neg ha]
          simp only [Dict.availSize] at ha
          refine ⟨by simpa using I, by simp only; omega⟩
      generalize (if d.availSize = 0 then d.readFlush else (d, [])) = q at hfl
      obtain ⟨d0, fl0⟩ := q
      obtain ⟨I0, hav⟩ := hfl
      simp only at I0 hav ⊢
      obtain ⟨hn, I1⟩ := I0.writeBytes bs
      generalize d0.writeBytes bs = p at hn I1
      obtain ⟨d1, n⟩ := p
      simp only at hn I1 ⊢
      rw [← hn] at I1
      have hn1 : 1 ≤ n := by simp only [Dict.availSize] at hn; omega
      have hgoal := ih d1 (bs.drop n) (out ++ bs.take n) (acc ++ fl0) I1
        (by rw [List.length_drop]; omega)
      rw [List.append_assoc, List.take_append_drop] at hgoal
      exact hgoal

theorem runBytes_acc : ∀ (fuel : Nat) (d : Dict) (bs acc : List UInt8),
    runBytes fuel d bs acc = ((runBytes fuel d bs []).1, acc ++ (runBytes fuel d bs []).2) := by
  intro fuel
  induction fuel with
  | zero => intro d bs acc; simp [runBytes]
  | succ fuel ih =>
    intro d bs acc
    unfold runBytes
    by_cases h0 : bs.isEmpty = true
    · rw [if_pos h0, if_pos h0]; simp
    · rw [if_neg h0, if_neg h0]
      simp only
      rw [ih _ _ (acc ++ _), ih _ _ ([] ++ _)]
      simp [List.append_assoc]

theorem runCopy_acc (useTry : Bool) : ∀ (fuel : Nat) (d : Dict) (dist len : Nat) (acc : List UInt8),
    runCopy useTry fuel d dist len acc =
      ((runCopy useTry fuel d dist len []).1, acc ++ (runCopy useTry fuel d dist len []).2) := by
  intro fuel
  induction fuel with
  | zero => intro d dist len acc; simp [runCopy]
  | succ fuel ih =>
    intro d dist len acc
    unfold runCopy
    by_cases h0 : len = 0
    · rw [if_pos h0, if_pos h0]; simp
    · rw [if_neg h0, if_neg h0, try_eq_writeCopy]
      generalize d.writeCopy dist len = p
      obtain ⟨d1, n⟩ := p
      simp only
      by_cases h1 : len - n > 0
      · rw [if_pos h1, if_pos h1]
        rw [ih _ _ _ (acc ++ _), ih _ _ _ ([] ++ _)]
        simp [List.append_assoc]
      · rw [if_neg h1, if_neg h1]; simp

theorem runOp_spec (useTry : Bool) (size : Nat) (d : Dict) (op : Op) (out acc : List UInt8)
    (I : Inv size d out acc) (hl : Legal size out [op]) :
    Inv size (runOp useTry d op).1 (specRun out [op]) (acc ++ (runOp useTry d op).2) := by
  cases op with
  | byte c =>
    simp only [runOp, specRun]
    by_cases ha : d.availSize = 0
    · rw [if_pos ha]
      obtain ⟨I1, hav, _⟩ := I.readFlush
      exact I1.writeByte c hav
    · rw [if_neg ha]
      simp only [Dict.availSize] at ha
      simp only [List.append_nil]
      exact I.writeByte c (by have := I.wr_le; omega)
  | bytes bs =>
    simp only [runOp, specRun]
    have := runBytes_spec size (bs.length + 2) d bs out acc I (by omega)
    rw [runBytes_acc] at this
    exact this
  | copy dist len =>
    simp only [runOp, specRun]
    have := runCopy_spec useTry size dist hl.1 (len + 2) d len out acc I hl.2.1 (Or.inl (by omega))
    rw [runCopy_acc] at this
    exact this

theorem runOps_spec (useTry : Bool) (size : Nat) :
    ∀ (ops : List Op) (d : Dict) (out acc : List UInt8), Inv size d out acc → Legal size out ops →
    Inv size (runOps useTry d ops acc).1 (specRun out ops) (runOps useTry d ops acc).2 := by
  intro ops
  induction ops with
  | nil => intro d out acc I _; exact I
  | cons op ops ih =>
    intro d out acc I hl
    unfold runOps
    simp only
    have h1 : Legal size out [op] := by
      cases op <;> simp_all [Legal]
    have h2 : Legal size (specRun out [op]) ops ∧ specRun out (op :: ops) = specRun (specRun out [op]) ops := by
      cases op <;> simp_all [Legal, specRun]
    rw [h2.2]
    exact ih _ _ _ (runOp_spec useTry size d op out acc I h1) h2.1

theorem runAll_spec (useTry : Bool) (size prevCap : Nat) (hs : 1 ≤ size) (ops : List Op)
    (hl : Legal size [] ops) :
    Inv size (runAll useTry size prevCap ops).2 (specRun [] ops) (runAll useTry size prevCap ops).1 ∧
    (runAll useTry size prevCap ops).2.rdPos = (runAll useTry size prevCap ops).2.wrPos := by
  have I := runOps_spec useTry size ops _ [] [] (Inv.init size prevCap hs) hl
  have := I.readFlush
  exact ⟨this.1, this.2.2⟩

/-- **Window refinement.** For every window size ≥ 1, whatever capacity an
    earlier use left behind, and every legal sequence of literals, raw writes and
    copies (any lengths, so any number of flushes, growth steps and wrap-arounds in
    between), the bytes the window hands out are exactly the append-only LZ77
    output. Holds with and without the `TryWriteCopy` fast path. -/
theorem window_refines (useTry : Bool) (size prevCap : Nat) (hs : 1 ≤ size) (ops : List Op)
    (hl : Legal size [] ops) :
    (runAll useTry size prevCap ops).1 = specRun [] ops := by
  obtain ⟨I, hrd⟩ := runAll_spec useTry size prevCap hs ops hl
  have := I.acc_eq
  rw [hrd, Nat.sub_self, Nat.sub_zero, List.take_length] at this
  exact this

/-- `HistSize` is the output length capped by the window size (checked at the end of any legal run). -/
theorem histSize_eq (useTry : Bool) (size prevCap : Nat) (hs : 1 ≤ size) (ops : List Op)
    (hl : Legal size [] ops) :
    (runOps useTry (Dict.init size prevCap) ops []).1.histSize = min size (specRun [] ops).length := by
  have I := runOps_spec useTry size ops _ [] [] (Inv.init size prevCap hs) hl
  generalize (runOps useTry (Dict.init size prevCap) ops []).1 = d at I
  unfold Dict.histSize
  cases hf : d.full
  · have h1 := I.nfull hf
    have h2 := I.wr_le
    have h3 := I.hsz
    simp only [Bool.false_eq_true, if_false]
    omega
  · have h1 := I.full_sz hf
    have h2 := I.dsize
    simp only [if_true]
    omega

/-- **Lazy growth.** Every buffer the window allocates is at most
    `max 4096 (min size (4 * output length))`: memory follows the data actually
    produced, not the window size a stream declares. -/
theorem allocs_bounded (useTry : Bool) (size : Nat) (hs : 1 ≤ size) (ops : List Op)
    (hl : Legal size [] ops) :
    ∀ a ∈ (runAll useTry size 0 ops).2.allocs,
      a ≤ max initSize (min size (growFactor * (specRun [] ops).length)) := by
  obtain ⟨I, _⟩ := runAll_spec useTry size 0 hs ops hl
  exact I.allocs

end Compress.Proofs.Window
