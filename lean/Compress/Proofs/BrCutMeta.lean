/-
Prefix-monotonicity of the Brotli specification decoder: the meta-block loop and the stream.
The loop's fuel is the number of unread bits plus one; every meta-block starts by reading a
bit, so any amount of fuel above the number of unread bits gives the same result.
-/
import Compress.Proofs.BrCutCmd

namespace Compress.Proofs.BrCut
open Compress Compress.Brotli

/-- one meta-block: `none` — it was the last one; `some ds` — more meta-blocks follow. -/
def mbStep (dict : ByteArray) (windowSize : Nat) (ds : Dists) : Dec (Option Dists) := do
    let isLast ← readBit
    let isLastEmpty ← if isLast then readBit else pure false
    if isLastEmpty then (do alignToByte; pure none)
    else
      let mnibbles ← readBits 2
      if mnibbles = 3 then do
        if (← readBit) then corrupt
        else do
          let mskipbytes ← readBits 2
          let mskiplen ← if mskipbytes = 0 then pure 0
            else (· + 1) <$> readLengthPieces 8 1 mskipbytes mskipbytes
          alignToByte
          skipBytes mskiplen
          if isLast then pure none else pure (some ds)
      else do
        let mlen := (← readLengthPieces 4 4 (mnibbles + 4) (mnibbles + 4)) + 1
        let isUncompressed ← if isLast then pure false else readBit
        if isUncompressed then do
          alignToByte
          copyBytes mlen
          pure (some ds)
        else do
          let (litB, cmdB, distB, h) ← readCompressedHeader
          let c ← readCommands dict windowSize h (mlen + (← remainingBits) + 1)
            { mlen, litB, cmdB, distB, d1 := ds.d1, d2 := ds.d2, d3 := ds.d3, d4 := ds.d4 }
          if isLast then (do alignToByte; pure none)
          else pure (some { d1 := c.d1, d2 := c.d2, d3 := c.d3, d4 := c.d4 })

def mbCont (k : Dists → Dec Unit) : Option Dists → Dec Unit
  | none => pure ()
  | some ds => k ds

theorem readMetaBlocks_succ (dict : ByteArray) (windowSize fuel : Nat) (ds : Dists) :
    readMetaBlocks dict windowSize (fuel + 1) ds =
      mbStep dict windowSize ds >>= mbCont (readMetaBlocks dict windowSize fuel) := by
  show Decomp _ _ _
  rw [readMetaBlocks]
  unfold mbStep
  repeat' dc_step

def DistsInv (ws : Nat) (ds : Dists) (s : St) : Prop :=
  ds.d1 ≤ min s.out.size ws + 16 ∧ ds.d2 ≤ min s.out.size ws + 16 ∧
  ds.d3 ≤ min s.out.size ws + 16 ∧ ds.d4 ≤ min s.out.size ws + 16

theorem DistsInv.mono {ws : Nat} {ds : Dists} {s s1 : St} (h : DistsInv ws ds s) (m : Mono s s1) :
    DistsInv ws ds s1 := by
  have := m.size_le
  unfold DistsInv at *
  omega

def MbPost (ws : Nat) (s : St) : Option Dists → St → Prop
  | none, s1 => s1.used % 8 = 0
  | some ds', s1 => DistsInv ws ds' s1 ∧ s1.bits.length < s.bits.length

theorem mbStep_pm (dict : ByteArray) (ws : Nat) (ds : Dists) (s : St) (hinv : DistsInv ws ds s) :
    PMAt (mbStep dict ws ds) s (MbPost ws s) := by
  unfold mbStep
  refine PMAt.bind (readBit_pm s) (fun isLast s1 _ h1 m1 => ?_)
  extract_lets jp2 jp1
  have hjp2 : ∀ (mskiplen : Nat) (s6 : St), Mono s1 s6 → PMAt (jp2 mskiplen) s6 (MbPost ws s) := by
    intro mskiplen s6 m6
    dsimp -zeta only [jp2]
    refine PMAt.bind (alignToByte_pm s6) (fun _ s7 _ h7 m7 => ?_)
    refine PMAt.bind (skipBytes_pm _ s7) (fun _ s8 _ h8 m8 => ?_)
    have m18 : Mono s1 s8 := m6.trans (m7.trans m8)
    split
    · exact PMAt.pure (by show s8.used % 8 = 0; omega)
    · refine PMAt.pure ⟨hinv.mono (m1.trans m18), ?_⟩
      have := m18.len_le
      show s8.bits.length < s.bits.length
      omega
  have hjp1 : ∀ (ile : Bool) (s2 : St), Mono s1 s2 → PMAt (jp1 ile) s2 (MbPost ws s) := by
    intro ile s2 m2
    dsimp -zeta only [jp1]
    split
    · exact PMAt.bind (alignToByte_pm s2) (fun _ s3 _ h3 _ => PMAt.pure h3)
    refine PMAt.bind (readBits_pm 2 s2) (fun mn s3 _ _ m3 => ?_)
    have m03 : Mono s s3 := m1.trans (m2.trans m3)
    have hlt3 : s3.bits.length < s.bits.length := by
      have := m2.len_le
      have := m3.len_le
      omega
    split
    · -- a metadata meta-block
      refine PMAt.bind (readBit_pm s3) (fun rb s4 _ _ m4 => ?_)
      split
      · exact PMAt.corrupt
      refine PMAt.bind (readBits_pm 2 s4) (fun msb s5 _ _ m5 => ?_)
      have m15 : Mono s1 s5 := m2.trans (m3.trans (m4.trans m5))
      split
      · exact hjp2 0 s5 m15
      · exact PMAt.bind (PMAt.map (readLengthPieces_pm _ _ _ _ s5))
          (fun v s6 _ _ m6 => hjp2 v s6 (m15.trans m6))
    · refine PMAt.bind (readLengthPieces_pm _ _ _ _ s3) (fun ml s4 _ _ m4 => ?_)
      extract_lets mlen jp3
      have hjp3 : ∀ (isUnc : Bool) (s5 : St), Mono s4 s5 → PMAt (jp3 isUnc) s5 (MbPost ws s) := by
        intro isUnc s5 m5
        dsimp -zeta only [jp3]
        split
        · -- an uncompressed meta-block
          refine PMAt.bind (alignToByte_pm s5) (fun _ s6 _ _ m6 => ?_)
          refine PMAt.bind (copyBytes_pm _ s6) (fun _ s7 _ _ m7 => ?_)
          have m37 : Mono s3 s7 := m4.trans (m5.trans (m6.trans m7))
          refine PMAt.pure ⟨hinv.mono (m03.trans m37), ?_⟩
          have := m37.len_le
          show s7.bits.length < s.bits.length
          omega
        · -- a compressed meta-block
          refine PMAt.bind (readCompressedHeader_pm s5) (fun x s6 _ hx m6 => ?_)
          obtain ⟨litB, cmdB, distB, h⟩ := x
          dsimp only at hx
          dsimp -zeta only
          have m06 : Mono s s6 := m03.trans (m4.trans (m5.trans m6))
          refine PMAt.congr (y := readCommandsAuto dict ws h
              { mlen, litB, cmdB, distB, d1 := ds.d1, d2 := ds.d2, d3 := ds.d3, d4 := ds.d4 } >>= _)
            ?_ (fun b => rfl)
          refine PMAt.bind (readCommandsAuto_pm dict ws h hx _ _ s6 (Nat.le_refl _) (hinv.mono m06))
            (fun c s7 _ hc m7 => ?_)
          split
          · exact PMAt.bind (alignToByte_pm s7) (fun _ s8 _ h8 _ => PMAt.pure h8)
          · refine PMAt.pure ⟨hc, ?_⟩
            have := (m4.trans (m5.trans (m6.trans m7))).len_le
            show s7.bits.length < s.bits.length
            omega
      split
      · exact hjp3 false s4 (Mono.refl _)
      · exact PMAt.bind (readBit_pm s4) (fun v s5 _ _ m5 => hjp3 v s5 m5)
  split
  · exact PMAt.bind (readBit_pm s1) (fun v s2 _ _ m2 => hjp1 v s2 m2)
  · exact hjp1 false s1 (Mono.refl _)

/-- any amount of fuel above the number of unread bits gives the same result. -/
theorem readMetaBlocks_fuel (dict : ByteArray) (ws : Nat) :
    ∀ (f f' : Nat) (ds : Dists) (s : St), DistsInv ws ds s →
      s.bits.length < f → s.bits.length < f' →
      readMetaBlocks dict ws f ds s = readMetaBlocks dict ws f' ds s := by
  intro f
  induction f with
  | zero => intro f' ds s _ h1 _; omega
  | succ f ih =>
    intro f' ds s hinv h1 h2
    cases f' with
    | zero => omega
    | succ f' =>
      rw [readMetaBlocks_succ, readMetaBlocks_succ, bind_apply, bind_apply]
      cases hr : mbStep dict ws ds s with
      | mk r s1 =>
        cases r with
        | error e => rfl
        | ok a =>
          have hq := (mbStep_pm dict ws ds s hinv).post hr
          cases a with
          | none => rfl
          | some ds' =>
            obtain ⟨hi, hp⟩ := hq
            exact ih f' ds' s1 hi (by omega) (by omega)

/-- the meta-block loop with the fuel the specification gives it. -/
def readMetaBlocksAuto (dict : ByteArray) (ws : Nat) (ds : Dists) : Dec Unit :=
  fun s => readMetaBlocks dict ws (s.bits.length + 1) ds s

def mbContAuto (dict : ByteArray) (ws : Nat) : Option Dists → Dec Unit
  | none => pure ()
  | some ds => readMetaBlocksAuto dict ws ds

theorem readMetaBlocksAuto_unfold (dict : ByteArray) (ws : Nat) (ds : Dists) (s : St)
    (hinv : DistsInv ws ds s) :
    readMetaBlocksAuto dict ws ds s = (mbStep dict ws ds >>= mbContAuto dict ws) s := by
  unfold readMetaBlocksAuto
  rw [readMetaBlocks_succ, bind_apply, bind_apply]
  cases hr : mbStep dict ws ds s with
  | mk r s1 =>
    cases r with
    | error e => rfl
    | ok a =>
      have hq := (mbStep_pm dict ws ds s hinv).post hr
      cases a with
      | none => rfl
      | some ds' =>
        obtain ⟨hi, hp⟩ := hq
        exact readMetaBlocks_fuel dict ws _ _ ds' s1 hi (by omega) (by omega)

theorem readMetaBlocksAuto_pm (dict : ByteArray) (ws : Nat) :
    ∀ (n : Nat) (ds : Dists) (s : St), s.bits.length ≤ n → DistsInv ws ds s →
      PMAt (readMetaBlocksAuto dict ws ds) s (fun _ s1 => s1.used % 8 = 0) := by
  intro n
  induction n with
  | zero =>
    intro ds s hn hinv
    refine PMAt.congr (y := mbStep dict ws ds >>= mbContAuto dict ws) ?_
      (fun b => readMetaBlocksAuto_unfold dict ws ds _ hinv)
    refine PMAt.bind (mbStep_pm dict ws ds s hinv) (fun r s1 _ hq _ => ?_)
    cases r with
    | none => exact PMAt.pure hq
    | some ds' => have := hq.2; omega
  | succ n ih =>
    intro ds s hn hinv
    refine PMAt.congr (y := mbStep dict ws ds >>= mbContAuto dict ws) ?_
      (fun b => readMetaBlocksAuto_unfold dict ws ds _ hinv)
    refine PMAt.bind (mbStep_pm dict ws ds s hinv) (fun r s1 _ hq _ => ?_)
    cases r with
    | none => exact PMAt.pure hq
    | some ds' => exact ih ds' s1 (by have := hq.2; omega) hq.1

theorem readStream_pm (dict : ByteArray) (s : St) :
    PMAt (readStream dict) s (fun _ s1 => s1.used % 8 = 0) := by
  unfold readStream
  refine PMAt.bind (readWindowBits_pm s) (fun wbits s1 _ _ _ => ?_)
  refine PMAt.congr (y := readMetaBlocksAuto dict (2 ^ wbits - 16) {}) ?_ (fun b => rfl)
  refine readMetaBlocksAuto_pm dict _ _ _ s1 (Nat.le_refl _) ?_
  unfold DistsInv
  refine ⟨?_, ?_, ?_, ?_⟩ <;> exact Nat.le_trans (by decide) (Nat.le_add_left _ _)

end Compress.Proofs.BrCut
