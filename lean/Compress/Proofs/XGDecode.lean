/-
What the RFC 1951 decoder does on one segment of an xflate stream followed by
chunkReader's end block (`specSegInfo`): transparent segments (chunks, index
streams, the empty tail) and the footer.
-/
import Compress.Proofs.XWDecode

namespace Compress.Proofs.XGDecode
open Compress Compress.XFlate Compress.Flate Compress.Proofs.XWShape

theorem end_bits : Bits.ofBytes endBlockBytes =
    true :: false :: false :: ([false,false,false,false,false] ++ (z16 ++ (o16 ++ []))) := by decide

theorem end_bits_length : (Bits.ofBytes endBlockBytes).length = 40 := by decide

/-- the end block `01 00 00 ff ff` on a byte boundary, as the last 40 bits of the
    input: a final empty stored block. -/
theorem decodeBlocks_end (total fuel : Nat) (out : Array UInt8) (h8 : total % 8 = 0) (h40 : 40 ≤ total) :
    decodeBlocks total (fuel + 1) out (Bits.ofBytes endBlockBytes) = { out := out, verdict := .ok total } := by
  have hpad : padTo8 (total - 37) = 5 := by unfold padTo8; omega
  rw [end_bits]
  have hlen : ([false,false,false,false,false] ++ (z16 ++ (o16 ++ []))).length = 37 := by simp [z16, o16]
  rw [decodeBlocks_stored total fuel out out _
    (false :: false :: ([false,false,false,false,false] ++ (z16 ++ (o16 ++ []))))
    ([false,false,false,false,false] ++ (z16 ++ (o16 ++ [])))
    (o16 ++ []) [] [] 1 0 65535 rfl rfl ?_ (tb_o16 []) rfl rfl]
  · have : padTo8 total = 0 := by unfold padTo8; omega
    simp [this]
  · rw [hlen, hpad]
    exact (by simpa using tb_z16 o16)

/-- a transparent segment followed by the end block. -/
theorem decode_transp_end (a d : List UInt8) (ht : Transp a d) :
    Flate.decode (a ++ endBlockBytes) = { out := d.toArray, verdict := .ok (8 * (a.length + 5)) } := by
  obtain ⟨k, hk, t⟩ := ht
  unfold Flate.decode Flate.decodeBits
  rw [Proofs.Meta.ofBytes_append]
  have hl : (Bits.ofBytes a ++ Bits.ofBytes endBlockBytes).length = 8 * (a.length + 5) := by
    have : endBlockBytes.length = 5 := rfl
    simp only [List.length_append, Proofs.Meta.length_ofBytes, this]; omega
  rw [hl]
  have e : 8 * (a.length + 5) + 1 = (8 * (a.length + 5) - k) + 1 + k := by omega
  rw [e, t _ _ _ _ (by rw [end_bits_length]; omega) (by rw [end_bits_length]; omega)]
  rw [decodeBlocks_end _ _ _ (by omega) (by omega)]
  simp

/-- the footer (one block with the stream-final bit) followed by the end block:
    the decoder stops after the footer. -/
theorem decode_footer_end (c : List UInt8) (bits : Bits) (hb : Meta.encodeBlock c .fstream = some bits) :
    Flate.decode (Bits.toBytes bits ++ endBlockBytes) =
      { out := #[], verdict := .ok (8 * (Bits.toBytes bits).length) } := by
  have hal := Proofs.Meta.encodeBlock_aligned c .fstream bits hb
  have hlen := Proofs.Meta.length_toBytes bits hal
  unfold Flate.decode Flate.decodeBits
  rw [Proofs.Meta.ofBytes_append, Proofs.Meta.ofBytes_toBytes bits hal]
  have hl : (bits ++ Bits.ofBytes endBlockBytes).length = bits.length + 40 := by
    simp only [List.length_append, end_bits_length]
  rw [hl, Proofs.MetaSilent.meta_block_silent c .fstream bits hb]
  rw [if_pos rfl, end_bits_length, hlen]
  have : padTo8 (bits.length + 40 - 40) = 0 := by unfold padTo8; omega
  rw [this]
  have : bits.length + 40 - 40 + 0 = 8 * (bits.length / 8) := by omega
  rw [this]

/-! ### `specSegInfo` of the four kinds of segment -/

theorem spec_transp (a d : List UInt8) (ht : Transp a d) :
    specSegInfo a = { out := d, fin := none, inOff := ((a.length + 5 : Nat) : Int),
                      sync := le32 (a.reverse.take 4) } := by
  unfold specSegInfo
  simp only [decode_transp_end a d ht]
  rw [Nat.mul_div_cancel_left _ (by omega : 0 < 8)]

/-- (a) a chunk. -/
theorem spec_chunk (b d : List UInt8) (hz : ZChunkOK b d)
    (htail : (b.reverse.take 4).reverse = [0x00, 0x00, 0xff, 0xff]) :
    specSegInfo b = { out := d, fin := none, inOff := ((b.length + 5 : Nat) : Int), sync := 0x0000ffff } := by
  rw [spec_transp b d (transp_of_chunk hz)]
  have : b.reverse.take 4 = [0xff, 0xff, 0x00, 0x00] := by
    have := congrArg List.reverse htail
    rw [List.reverse_reverse] at this
    rw [this]; rfl
  rw [this]
  rfl

/-- (b) an index stream. -/
theorem spec_index (payload : List UInt8) (blocks : List (List UInt8))
    (h : Meta.encode payload .fmeta = some blocks) :
    specSegInfo blocks.flatten = { out := [], fin := none, inOff := ((blocks.flatten.length + 5 : Nat) : Int),
                                   sync := le32 (blocks.flatten.reverse.take 4) } :=
  spec_transp _ _ (transp_meta payload .fmeta blocks h (by decide))

/-- (c) the footer. -/
theorem spec_footer (payload foot : List UInt8) (h : Meta.encode payload .fstream = some [foot]) :
    specSegInfo foot = { out := [], fin := none, inOff := (foot.length : Int),
                         sync := le32 (foot.reverse.take 4) } := by
  obtain ⟨ps, cF, bitsF, p1, p2, p3, _⟩ := encode_blocks _ _ _ h
  have hps : ps = [] := by
    cases ps with
    | nil => rfl
    | cons p ps => simp at p3
  subst hps
  simp only [List.map_nil, List.nil_append, List.cons.injEq, and_true] at p3
  subst p3
  unfold specSegInfo
  simp only [decode_footer_end cF bitsF p2]
  rw [Nat.mul_div_cancel_left _ (by omega : 0 < 8)]

/-- (d) the tail past the footer. -/
theorem spec_tail : specSegInfo [] = { out := [], fin := none, inOff := 5, sync := 0 } := by
  rw [spec_transp [] [] transp_nil]
  rfl

end Compress.Proofs.XGDecode
