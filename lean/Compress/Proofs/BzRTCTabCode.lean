/-
bzip2 round trip, code side of `decode_codeWord`: an exact description of the
code words `codeWords` assigns (canonical value = first code of the length plus
the rank of the symbol among the symbols of that length).
-/
import Compress.Proofs.BzRTBits
import Compress.Proofs.PrefixCodes

namespace Compress.Proofs.BzRT
open Compress Compress.Bzip2 Compress.Prefix
open Compress.Proofs.PrefixCodes

/-- the code list `codeWords` hands to `generatePrefixes`. -/
def codesOf (lens : List Nat) : List Code :=
  (List.range lens.length).map fun s => { sym := s, len := lens.getD s 0 }

theorem codesOf_length (lens : List Nat) : (codesOf lens).length = lens.length := by
  simp [codesOf]

theorem codesOf_lens (lens : List Nat) : (codesOf lens).map (·.len) = lens := by
  apply List.ext_getElem
  · simp [codesOf]
  · intro i h1 h2
    simp [codesOf, List.getD_eq_getElem?_getD, List.getElem?_eq_getElem h2]

theorem codesOf_getElem? (lens : List Nat) (s : Nat) (hs : s < lens.length) :
    (codesOf lens)[s]? = some { sym := s, len := lens.getD s 0 } := by
  simp [codesOf, hs]

theorem symsIncreasing_of_pairwise (l : List Code) (h : l.Pairwise (fun a b => a.sym < b.sym)) :
    symsIncreasing l = true := by
  induction l with
  | nil => rfl
  | cons a l ih =>
    cases l with
    | nil => rfl
    | cons b rest =>
      have h1 := List.pairwise_cons.1 h
      simp only [symsIncreasing, Bool.and_eq_true, decide_eq_true_eq]
      exact ⟨h1.1 b (by simp), ih h1.2⟩

theorem codesOf_valid (lens : List Nat) (h2 : 2 ≤ lens.length)
    (hl : ∀ l ∈ lens, 1 ≤ l ∧ l ≤ maxPrefixBits) : ValidLens (codesOf lens) := by
  refine ⟨by rw [codesOf_length]; exact h2, ?_, ?_⟩
  · apply symsIncreasing_of_pairwise
    unfold codesOf
    rw [List.pairwise_map]
    exact List.pairwise_lt_range
  · intro c hc
    have : c.len ∈ (codesOf lens).map (·.len) := List.mem_map.2 ⟨c, hc, rfl⟩
    rw [codesOf_lens] at this
    have := hl _ this
    simp only [maxPrefixBits, valueBits] at *
    omega

/-- exact description of `assignVals`. -/
theorem assignVals_getElem? (cs : List Code) (next : Nat → Nat) (i : Nat) :
    (assignVals cs next)[i]? = cs[i]?.map (fun c =>
      { c with val := reverseBits (next c.len + lenCount (cs.take i) c.len) c.len }) := by
  induction cs generalizing next i with
  | nil => simp [assignVals]
  | cons c cs ih =>
    cases i with
    | zero => simp [assignVals, lenCount_nil]
    | succ i =>
      simp only [assignVals, List.getElem?_cons_succ, List.take_succ_cons, ih]
      cases h : cs[i]? with
      | none => rfl
      | some x =>
        simp only [Option.map_some, lenCount_cons]
        by_cases hx : x.len = c.len
        · simp [hx, Nat.add_assoc]
        · have hx' : ¬ c.len = x.len := fun e => hx e.symm
          simp [hx, hx']

theorem lenCount_append (a b : List Code) (l : Nat) :
    lenCount (a ++ b) l = lenCount a l + lenCount b l := by
  simp [lenCount]

theorem lenCount_take_lt (cs : List Code) (i : Nat) (c : Code) (h : cs[i]? = some c) :
    lenCount (cs.take i) c.len < lenCount cs c.len := by
  have hi : i < cs.length := by
    rcases Nat.lt_or_ge i cs.length with h' | h'
    · exact h'
    · rw [List.getElem?_eq_none h'] at h; cases h
  have hc : cs[i] = c := by
    rw [List.getElem?_eq_getElem hi] at h; exact Option.some.inj h
  have e : cs = cs.take i ++ c :: cs.drop (i + 1) := by
    rw [← hc, List.getElem_cons_drop, List.take_append_drop]
  conv => rhs; rw [e]
  rw [lenCount_append, lenCount_cons, if_pos rfl]
  omega

/-- the facts about the assigned code needed by the decoder proof. -/
structure CodeSpec (lens : List Nat) : Prop where
  valid : ValidLens (codesOf lens)
  complete : endCode (codesOf lens) (maxB (codesOf lens)) = 2 ^ maxB (codesOf lens)
  range : ∀ l ∈ lens, l ≤ maxB (codesOf lens)
  word : ∀ s, s < lens.length →
    (codeWords lens).getD s [] =
      bitsBE (firstCode (codesOf lens) (lens.getD s 0) +
        lenCount ((codesOf lens).take s) (lens.getD s 0)) (lens.getD s 0)

theorem codeSpec (lens : List Nat) (h2 : 2 ≤ lens.length)
    (hl : ∀ l ∈ lens, 1 ≤ l ∧ l ≤ maxPrefixBits) (hk : KraftComplete lens) :
    CodeSpec lens := by
  have hv := codesOf_valid lens h2 hl
  obtain ⟨hrange, hgp⟩ := gp_valid _ hv
  have hle : ∀ l ∈ lens, l ≤ maxB (codesOf lens) := by
    intro l hl
    rw [← codesOf_lens lens] at hl
    obtain ⟨c, hc, rfl⟩ := List.mem_map.1 hl
    exact (hrange c hc).2
  have hE : endCode (codesOf lens) (maxB (codesOf lens)) = 2 ^ maxB (codesOf lens) := by
    rw [← kraftScaled_eq_endCode _ _ (fun c hc => (hrange c hc).2), codesOf_lens]
    exact hk _ hle
  refine ⟨hv, hE, hle, ?_⟩
  intro s hs
  rw [if_neg (by simp [hE])] at hgp
  have hcw : codeWords lens = (assignVals (codesOf lens) (nextFn (codesOf lens))).map Code.word := by
    unfold codeWords
    change (match generatePrefixes (codesOf lens) with
      | .ok cs => cs.map Code.word
      | .error _ => lens.map fun _ => []) = _
    rw [hgp]
  have hmem : ({ sym := s, len := lens.getD s 0 } : Code) ∈ codesOf lens :=
    List.mem_of_getElem? (codesOf_getElem? lens s hs)
  have hr := hrange _ hmem
  simp only at hr
  rw [hcw, List.getD_eq_getElem?_getD, List.getElem?_map, assignVals_getElem?,
    codesOf_getElem? lens s hs]
  simp only [Option.map_some, Option.getD_some, Code.word]
  rw [ofNat_reverseBits, bitsBE]
  have : nextFn (codesOf lens) (lens.getD s 0) = firstCode (codesOf lens) (lens.getD s 0) := by
    unfold nextFn
    rw [if_pos ⟨hr.1, by omega⟩]
  rw [this]

end Compress.Proofs.BzRT
