/-
The structural invariant over whole operations and runs of xflate.Writer.
-/
import Compress.Proofs.XWSteps

namespace Compress.Proofs.XWShape
open Compress Compress.XFlate Compress.Proofs.XWLog

theorem flushFull_eq (crc : List UInt8 → Nat) (s : XWState) :
    flushFull crc s =
      if (flushSync s).err ≠ none then flushSync s
      else if ((zReset (recState (flushSync s))).recs.length : Int) = (zReset (recState (flushSync s))).nidx then
        encodeIndexStep crc (zReset (recState (flushSync s)))
      else zReset (recState (flushSync s)) := rfl

theorem stuck_of {s : XWState} (h1 : s.err ≠ none) (h2 : s.err ≠ some .closed) : Stuck s := ⟨h1, h2⟩

theorem flushFull_mid0 (crc : List UInt8 → Nat) (s : XWState) (rgs : List IG) (tr : List Grp)
    (hi : Inv crc s rgs tr) : Mid0 crc (flushFull crc s) := by
  rw [flushFull_eq]
  rcases flushSync_inv crc s rgs tr hi with hb | ⟨hi1, hne, hf⟩
  · left
    split
    · exact hb
    · have h2 := bad_zReset (recState (flushSync s)) hb
      split
      · exact bad_encodeIndexStep crc _ h2
      · exact h2
  · by_cases he : (flushSync s).err ≠ none
    · rw [if_pos he]; exact Or.inr (Or.inl ⟨he, hne⟩)
    · rw [if_neg he]
      have he' : (flushSync s).err = none := Classical.not_not.1 he
      rcases zReset_inv crc (flushSync s) rgs tr hi1 hf with hb | ⟨hi2, e2, z1, z2, _⟩
      · left
        split
        · exact bad_encodeIndexStep crc _ hb
        · exact hb
      · split
        · obtain ⟨blocks, hi3, e3, z3, z4, _⟩ := encodeIndexStep_inv crc _ rgs _ hi2 z1 z2
          exact Or.inr (Or.inr ⟨⟨e3, _, _, hi3⟩, z3, z4⟩)
        · exact Or.inr (Or.inr ⟨⟨e2.trans he', _, _, hi2⟩, z1, z2⟩)

/-- same as `Mid0`, and no record is pending. -/
def MidI (crc : List UInt8 → Nat) (s : XWState) : Prop :=
  s.bad = true ∨ Stuck s ∨ (Good crc s ∧ s.zwIn = 0 ∧ s.zwOut = 0 ∧ s.recs = [])

theorem MidI.mid0 {crc : List UInt8 → Nat} {s : XWState} (h : MidI crc s) : Mid0 crc s := by
  rcases h with h | h | ⟨h1, h2, h3, _⟩
  · exact Or.inl h
  · exact Or.inr (Or.inl h)
  · exact Or.inr (Or.inr ⟨h1, h2, h3⟩)

theorem flushIndex_mid0 (crc : List UInt8 → Nat) (s : XWState) (rgs : List IG) (tr : List Grp)
    (hi : Inv crc s rgs tr) : MidI crc (flushIndex crc s) := by
  unfold flushIndex
  split
  · simp only
    rcases flushFull_mid0 crc s rgs tr hi with hb | hs | ⟨⟨e1, rgs1, tr1, hi1⟩, z1, z2⟩
    · left
      split
      · exact hb
      · exact bad_encodeIndexStep crc _ hb
    · rw [if_pos hs.1]; exact Or.inr (Or.inl hs)
    · rw [if_neg (by rw [e1]; simp)]
      obtain ⟨blocks, hi3, e3, z3, z4, _⟩ := encodeIndexStep_inv crc _ rgs1 tr1 hi1 z1 z2
      exact Or.inr (Or.inr ⟨⟨e3, _, _, hi3⟩, z3, z4, hi3.recs⟩)
  · rename_i hz
    have h1 := hi.zwIn
    have h2 := hi.zwOut
    obtain ⟨blocks, hi3, e3, z3, z4, _⟩ := encodeIndexStep_inv crc s rgs tr hi (by omega) (by omega)
    exact Or.inr (Or.inr ⟨⟨e3, _, _, hi3⟩, z3, z4, hi3.recs⟩)

theorem Mid.j {crc : List UInt8 → Nat} {s : XWState} (h : Mid crc s) : J crc s := by
  rcases h with h | h | h
  · exact Or.inl h
  · exact Or.inr (Or.inl h)
  · exact Or.inr (Or.inr (Or.inl h))

theorem flush_J (crc : List UInt8 → Nat) (s : XWState) (mode : Nat) (h : J crc s) : J crc (flush crc s mode).1 := by
  unfold flush
  by_cases he : s.err ≠ none
  · rw [if_pos he]; exact h
  · rw [if_neg he]
    have he' : s.err = none := Classical.not_not.1 he
    rcases h with hb | hs | ⟨_, rgs, tr, hi⟩ | hc
    · left
      split
      · exact bad_flushSync s hb
      · exact bad_flushFull crc s hb
      · exact bad_flushIndex crc s hb
      · exact hb
    · exact absurd he' hs.1
    · split
      · rcases flushSync_inv crc s rgs tr hi with hb | ⟨hi1, hne, _⟩
        · exact Or.inl hb
        · by_cases he1 : (flushSync s).err = none
          · exact Or.inr (Or.inr (Or.inl ⟨he1, _, _, hi1⟩))
          · exact Or.inr (Or.inl ⟨he1, hne⟩)
      · exact (flushFull_mid0 crc s rgs tr hi).mid.j
      · exact (flushIndex_mid0 crc s rgs tr hi).mid0.mid.j
      · exact Or.inr (Or.inr (Or.inl ⟨he', _, _, hi⟩))
    · rw [hc.1] at he'; cases he'

/-! ### Write -/

theorem writeLoop_succ (crc : List UInt8 → Nat) (fuel : Nat) (s : XWState) (data : List UInt8) (cnt : Nat) :
    writeLoop crc (fuel + 1) s data cnt =
      if data.isEmpty ∨ s.err ≠ none then (s, cnt)
      else if s.nchk - s.zwIn ≤ 0 then writeLoop crc fuel (flushFull crc s) data cnt
      else writeLoop crc fuel (wstep s data (min (s.nchk - s.zwIn).toNat data.length))
        (data.drop (popEv s .zwrite).1.n) (cnt + (popEv s .zwrite).1.n) := by
  rw [writeLoop]
  rcases hp : popEv s .zwrite with ⟨ev, s1⟩
  simp only [wstep, hp]

theorem writeLoop_mid (crc : List UInt8 → Nat) : ∀ (fuel : Nat) (s : XWState) (data : List UInt8) (cnt : Nat),
    Mid crc s → Mid crc (writeLoop crc fuel s data cnt).1
  | 0, s, data, cnt, h => by simpa [writeLoop] using h
  | fuel+1, s, data, cnt, h => by
    rw [writeLoop_succ]
    split
    · exact h
    · rename_i hc
      have he : s.err = none := by
        apply Classical.not_not.1
        intro hne; exact hc (Or.inr hne)
      split
      · apply writeLoop_mid crc fuel
        rcases h with hb | hs | ⟨_, rgs, tr, hi⟩
        · exact Or.inl (bad_flushFull crc s hb)
        · exact absurd he hs.1
        · exact (flushFull_mid0 crc s rgs tr hi).mid
      · apply writeLoop_mid crc fuel
        rcases h with hb | hs | ⟨_, rgs, tr, hi⟩
        · exact Or.inl (bad_wstep s data _ hb)
        · exact absurd he hs.1
        · rcases wstep_inv crc s rgs tr data _ (Nat.min_le_right _ _) hi with hb | ⟨hi1, hne⟩
          · exact Or.inl hb
          · by_cases he1 : (wstep s data (min (s.nchk - s.zwIn).toNat data.length)).err = none
            · exact Or.inr (Or.inr ⟨he1, _, _, hi1⟩)
            · exact Or.inr (Or.inl ⟨he1, hne⟩)

theorem Inv.inOff {crc : List UInt8 → Nat} {s : XWState} {rgs : List IG} {tr : List Grp} (h : Inv crc s rgs tr)
    (x : Int) : Inv crc { s with inOff := x } rgs tr :=
  ⟨h.budget, h.got, h.outOff, h.zwOut, h.zwIn, h.closed, h.data, h.recs, h.back, h.all, h.wf, h.orc, h.flushed⟩

theorem write_J (crc : List UInt8 → Nat) (s : XWState) (data : List UInt8) (h : J crc s) :
    J crc (write crc s data).1 := by
  unfold write
  by_cases he : s.err ≠ none
  · rw [if_pos he]; exact h
  · rw [if_neg he]
    have he' : s.err = none := Classical.not_not.1 he
    have hm : Mid crc s := by
      rcases h with hb | hs | hg | hc
      · exact Or.inl hb
      · exact Or.inr (Or.inl hs)
      · exact Or.inr (Or.inr hg)
      · rw [hc.1] at he'; cases he'
    have := writeLoop_mid crc (2 * data.length + 2) s data 0 hm
    rcases hw : writeLoop crc (2 * data.length + 2) s data 0 with ⟨s', cnt⟩
    rw [hw] at this
    simp only
    rcases this with hb | hs | ⟨e1, rgs, tr, hi⟩
    · exact Or.inl hb
    · exact Or.inr (Or.inl hs)
    · exact Or.inr (Or.inr (Or.inl ⟨e1, rgs, tr, hi.inOff _⟩))


/-! ### Close -/

theorem putUvarint_length : ∀ (fuel x : Nat), (putUvarint fuel x).length ≤ fuel
  | 0, _ => by simp [putUvarint]
  | fuel+1, x => by
    unfold putUvarint
    split
    · simp
    · have := putUvarint_length fuel (x / 128)
      simp only [List.length_cons]; omega

theorem footerPayload_length (x : Int) : (footerPayload x).length ≤ 22 := by
  have := putUvarint_length 10 x.toNat
  simp only [footerPayload, xfMagic, putUvarint64, List.length_append, List.length_cons, List.length_nil]
  omega

/-- the part of Close after the final FlushIndex. -/
def closeTail (s : XWState) : XWState × Option Err :=
  if s.err ≠ none then (s, s.err)
  else
    match Meta.encode (footerPayload s.backSize) .fstream with
    | none => ({ s with err := some .invalid }, some .invalid)
    | some blocks =>
      let (sk, acc, e) := emitBlocks s.sink blocks 0
      let s := { s with sink := sk, outOff := s.outOff + acc }
      match e with
      | some err => ({ s with err := some err }, some err)
      | none =>
        if blocks.length ≠ 1 then ({ s with err := some .internal }, some .internal)
        else ({ s with err := some .closed,
                       allRecs := (appendRecord s.allRecs acc 0 footerType).getD s.allRecs }, none)

theorem closeW_eq (crc : List UInt8 → Nat) (s : XWState) :
    closeW crc s =
      if s.err = some .closed then (s, none)
      else if s.err ≠ none then (s, s.err)
      else closeTail (if s.zwOut + s.zwIn > 0 ∨ s.recs.length > 0 then flushIndex crc s else s) := rfl

theorem closeTail_J (crc : List UInt8 → Nat) (s : XWState) (h : MidI crc s) : J crc (closeTail s).1 := by
  unfold closeTail
  by_cases he : s.err ≠ none
  · rw [if_pos he]
    exact h.mid0.mid.j
  · rw [if_neg he]
    obtain ⟨b, hb⟩ := Proofs.Meta.encode_fit22 (footerPayload s.backSize) .fstream (footerPayload_length _)
    rcases h with hbad | hs | ⟨⟨e1, rgs, tr, hi⟩, z1, z2, hr⟩
    · left
      split
      · exact hbad
      · split
        split
        · exact hbad
        · split <;> exact hbad
    · exact absurd hs.1 he
    · simp only [hb, emitBlocks_none [b] s.sink 0 hi.budget, List.length_cons, List.length_nil]
      simp only [Nat.zero_add, ne_eq, not_true_eq_false, if_false]
      have hob : (openOf s.zlog [] []).1 = [] := length_eq_zero_int _ _ hi.zwOut z2
      have hod : (openOf s.zlog [] []).2 = [] := length_eq_zero_int _ _ hi.zwIn z1
      refine Or.inr (Or.inr (Or.inr ⟨rfl, rgs, tr, b, ?_⟩))
      refine ⟨?_, ?_, ?_, hi.closed, ?_, ?_, ?_, hi.wf, hi.flushed⟩
      · simp only [hi.got, hob, List.flatten_cons, List.flatten_nil, List.append_nil]
      · rw [← hi.back]; exact hb
      · rw [← hi.recs]; exact hr
      · exact Prod.ext hob hod
      · simp only [hi.data, hod, List.append_nil]
      · simp only [hi.all, List.flatten_cons, List.flatten_nil, List.append_nil]

theorem closeW_J (crc : List UInt8 → Nat) (s : XWState) (h : J crc s) : J crc (closeW crc s).1 := by
  rw [closeW_eq]
  by_cases hc : s.err = some .closed
  · rw [if_pos hc]; exact h
  · rw [if_neg hc]
    by_cases he : s.err ≠ none
    · rw [if_pos he]; exact h
    · rw [if_neg he]
      have he' : s.err = none := Classical.not_not.1 he
      apply closeTail_J
      rcases h with hb | hs | ⟨_, rgs, tr, hi⟩ | hcl
      · left
        split
        · exact bad_flushIndex crc s hb
        · exact hb
      · exact absurd he' hs.1
      · split
        · exact flushIndex_mid0 crc s rgs tr hi
        · rename_i hz
          have h1 := hi.zwIn
          have h2 := hi.zwOut
          have h3 : s.recs = [] := by
            apply List.eq_nil_of_length_eq_zero
            apply Classical.not_not.1
            intro hne; exact hz (Or.inr (by omega))
          have h4 : ¬ s.zwOut + s.zwIn > 0 := fun hh => hz (Or.inl hh)
          exact Or.inr (Or.inr ⟨⟨he', rgs, tr, hi⟩, by omega, by omega, h3⟩)
      · exact absurd hcl.1 hc

/-! ### NewWriter and runs -/

theorem newWriter_J (crc : List UInt8 → Nat) (level chunk index : Int) (hasConf : Bool) (oracle : List ZEv)
    (s0 : XWState) (h0 : newWriter level chunk index hasConf {} oracle = some s0)
    (hz : ∀ ev ∈ oracle, ev.err ≠ some .closed) : J crc s0 := by
  unfold newWriter at h0
  split at h0
  · cases h0
  · split at h0
    · cases h0
    · simp only [Option.some.injEq] at h0
      subst h0
      unfold resetW
      simp only
      generalize hs : ({ nidx := _, nchk := _, sink := ({} : Sink), oracle := oracle, bad := false, zlog := [] } : XWState) = s1
      obtain ⟨ev, rest, b, hp, hrest, hev, hk, hb⟩ := popEv_spec s1 .zreset
      simp only [zReset, hp]
      cases b with
      | true => exact Or.inl rfl
      | false =>
        have hkind : ev.kind = .zreset := hk rfl
        subst hs
        refine Or.inr (Or.inr (Or.inl ⟨rfl, [], [], ?_⟩))
        refine ⟨rfl, ?_, rfl, ?_, ?_, ?_, ?_, rfl, rfl, rfl, trivial, ?_, ?_⟩
        · simp [openOf, hkind, bytesR, cbytes]
        · simp [openOf, hkind]
        · simp [openOf, hkind]
        · simp [closedOf, hkind, chunksR]
        · simp [openOf, hkind, dataOf, chunksR, cdata]
        · intro e he; exact hz e (hrest e he)
        · intro c hc; simp [chunksR] at hc

theorem stepW_J (crc : List UInt8 → Nat) (s : XWState) (op : WOp) (h : J crc s) : J crc (stepW crc s op).1 := by
  cases op with
  | write d => exact write_J crc s d h
  | flush m => exact flush_J crc s m h
  | close => exact closeW_J crc s h

theorem runW_J (crc : List UInt8 → Nat) : ∀ (ops : List WOp) (s : XWState), J crc s → J crc (runW crc s ops).1
  | [], s, h => h
  | op :: ops, s, h => by
    have := runW_J crc ops (stepW crc s op).1 (stepW_J crc s op h)
    simpa [runW] using this

/-- **Shape of a closed stream.** -/
theorem closed_shape (crc : List UInt8 → Nat) (level chunk index : Int) (hasConf : Bool)
    (oracle : List ZEv) (ops : List WOp) (s0 : XWState)
    (h0 : newWriter level chunk index hasConf {} oracle = some s0)
    (hz : ∀ ev ∈ oracle, ev.err ≠ some .closed)
    (he : (runW crc s0 ops).1.err = some .closed) (hb : (runW crc s0 ops).1.bad = false) :
    ∃ rgs tr foot, Fin crc (runW crc s0 ops).1 rgs tr foot := by
  rcases runW_J crc ops s0 (newWriter_J crc level chunk index hasConf oracle s0 h0 hz) with h | h | h | h
  · rw [hb] at h; cases h
  · exact absurd he h.2
  · rw [h.1] at he; cases he
  · exact h.2

end Compress.Proofs.XWShape
