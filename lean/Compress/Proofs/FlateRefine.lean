/-
C01: the Go-shaped model of flate.Reader refines the RFC 1951 specification.
-/
import Compress.Flate.Impl
import Compress.Flate.Spec
import Compress.Proofs.Window
import Compress.Proofs.PrefixCodes
import Compress.Proofs.PrefixTables

namespace Compress.Proofs.FlateRefine
open Compress Compress.Flate

/-- the error `flate.Reader` ends with, for each verdict of the specification. -/
def errOf : Verdict → Impl.FErr
  | .ok _ => .eof
  | .corrupt => .corrupted
  | .unexpectedEOF => .unexpectedEOF

/-- enough `Read` calls for any stream: every call with a non-empty buffer
    delivers at least one byte or ends the stream. -/
def runFuel (bits : Bits) (sched : List Nat) : Nat := 300 * bits.length + sched.length + 16

/-- **C01 (refinement).** For every byte string and every schedule of `Read`
    buffer lengths (zeros allowed anywhere but in the last position, which
    repeats), the model of `flate.Reader` — tables built by `GeneratePrefixes` +
    `Decoder.Init`, the ring-buffer window with lazy growth, resumable steps, the
    `toRead`/error latch of `Read` — delivers exactly the output of the RFC 1951
    specification and ends with the error that corresponds to its verdict:
    `io.EOF` exactly when the specification accepts, and then with the same
    number of input bytes consumed. In particular the delivered bytes do not
    depend on the schedule. -/
theorem impl_refines_spec (bytes : List UInt8) (sched : List Nat)
    (hs : ∀ n, sched.getLast? = some n → 0 < n) :
    let bits := Bits.ofBytes bytes
    let r := Impl.run (runFuel bits sched) (Impl.init bits) sched
    let spec := Flate.decodeBits bits
    r.1 = spec.out.toList ∧ r.2.1 = some (errOf spec.verdict) ∧
    (∀ n, spec.verdict = .ok n → r.2.2.total - r.2.2.bits.length = n) := by
  sorry

/-- C10 for flate, as a corollary: two schedules give the same bytes and the same final error. -/
theorem schedule_independent (bytes : List UInt8) (s1 s2 : List Nat)
    (h1 : ∀ n, s1.getLast? = some n → 0 < n) (h2 : ∀ n, s2.getLast? = some n → 0 < n) :
    let bits := Bits.ofBytes bytes
    (Impl.run (runFuel bits s1) (Impl.init bits) s1).1 = (Impl.run (runFuel bits s2) (Impl.init bits) s2).1 ∧
    (Impl.run (runFuel bits s1) (Impl.init bits) s1).2.1 = (Impl.run (runFuel bits s2) (Impl.init bits) s2).2.1 := by
  sorry

end Compress.Proofs.FlateRefine
