/-
C01: the Go-shaped model of flate.Reader refines the RFC 1951 specification.

Components (all under Compress/Proofs/):
  FlateDefs    shared vocabulary, component statements, one-step equations
  FlateHuff    1. Huffman trees: `mkTree`/table decoder = counting decoder (`treeEquiv`, `fixedEquiv`)
  FlateHeader  2. dynamic block header (`headerEquiv`)
  FlateBlock   3. block body through the window refinement (`readBlock_sim`)
  FlateStep    4. stored blocks (`raw_sim`), block headers (`header_sim`), one step (`step_post`, `post_J`)
  FlateRead    5. the `Read` loop for any schedule (`run_correct`)
  FlateBound / FlateMono   size bound and monotonicity of the specification's output
  FlateSys     6. the invariant `J` (`stepSys`, `J_init`)
-/
import Compress.Flate.Impl
import Compress.Flate.Spec
import Compress.Proofs.Window
import Compress.Proofs.PrefixCodes
import Compress.Proofs.PrefixTables
import Compress.Proofs.FlateSys
import Compress.Proofs.FlateHuff
import Compress.Proofs.FlateHeader
import Compress.Proofs.FlateRead

namespace Compress.Proofs.FlateRefine
open Compress Compress.Flate

/-- the error `flate.Reader` ends with, for each verdict of the specification. -/
def errOf : Verdict → Impl.FErr
  | .ok _ => .eof
  | .corrupt => .corrupted
  | .unexpectedEOF => .unexpectedEOF

theorem errOf_eq_verr : errOf = verr := by
  funext v; cases v <;> rfl

/-- enough `Read` calls for any stream: every call with a non-empty buffer
    delivers at least one byte or ends the stream. -/
def runFuel (bits : Bits) (sched : List Nat) : Nat := 300 * bits.length + sched.length + 16

/-- the refinement for an arbitrary bit list whose length is a multiple of 8. -/
theorem impl_refines_spec_bits (bits : Bits) (h8 : bits.length % 8 = 0) (sched : List Nat)
    (hs : ∀ n, sched.getLast? = some n → 0 < n) :
    ∃ s', Impl.run (runFuel bits sched) (Impl.init bits) sched =
        ((Flate.decodeBits bits).out.toList, some (errOf (Flate.decodeBits bits).verdict), s') ∧
      (∀ n, (Flate.decodeBits bits).verdict = .ok n → s'.total - s'.bits.length = n) := by
  have S := stepSys (headerEquiv treeEquiv) fixedEquiv bits.length (Flate.decodeBits bits) h8
  have hsz := decodeBits_size bits
  obtain ⟨s', hrun, hJ, herr, _⟩ := run_correct _ _ _ S (Impl.init bits) (J_init bits) sched hs
    (runFuel bits sched) (by unfold runFuel; simp only [Array.length_toList]; omega)
  refine ⟨s', by rw [hrun, errOf_eq_verr], ?_⟩
  obtain ⟨out, _, _, Rl, _⟩ := hJ
  intro n hn
  rw [Rl.tot]
  exact (Rl.err _ herr).2.2 n hn

/-- **C01 (refinement).** For every byte string and every schedule of `Read`
    buffer lengths (zeros allowed anywhere but in the last position, which
    repeats), the model of `flate.Reader` — tables built by `GeneratePrefixes` +
    `Decoder.Init`, the ring-buffer window with lazy growth, resumable steps, the
    `toRead`/error latch of `Read` — delivers exactly the output of the RFC 1951
    specification and ends with the error that corresponds to its verdict:
    `io.EOF` exactly when the specification accepts, and then with the same
    number of input bytes consumed. In particular the delivered bytes do not
    depend on the schedule. -/
theorem impl_refines_spec (bytes : List UInt8) (sched : List Nat)
    (hs : ∀ n, sched.getLast? = some n → 0 < n) :
    let bits := Bits.ofBytes bytes
    let r := Impl.run (runFuel bits sched) (Impl.init bits) sched
    let spec := Flate.decodeBits bits
    r.1 = spec.out.toList ∧ r.2.1 = some (errOf spec.verdict) ∧
    (∀ n, spec.verdict = .ok n → r.2.2.total - r.2.2.bits.length = n) := by
  intro bits r spec
  have h8 : bits.length % 8 = 0 := by
    show (Bits.ofBytes bytes).length % 8 = 0
    rw [Compress.Proofs.Meta.length_ofBytes]; omega
  obtain ⟨s', hrun, hn⟩ := impl_refines_spec_bits bits h8 sched hs
  show (Impl.run (runFuel bits sched) (Impl.init bits) sched).1 = _ ∧
    (Impl.run (runFuel bits sched) (Impl.init bits) sched).2.1 = _ ∧
    ∀ n, _ → (Impl.run (runFuel bits sched) (Impl.init bits) sched).2.2.total -
      (Impl.run (runFuel bits sched) (Impl.init bits) sched).2.2.bits.length = n
  rw [hrun]
  exact ⟨rfl, rfl, hn⟩

/-- C10 for flate, as a corollary: two schedules give the same bytes and the same final error. -/
theorem schedule_independent (bytes : List UInt8) (s1 s2 : List Nat)
    (h1 : ∀ n, s1.getLast? = some n → 0 < n) (h2 : ∀ n, s2.getLast? = some n → 0 < n) :
    let bits := Bits.ofBytes bytes
    (Impl.run (runFuel bits s1) (Impl.init bits) s1).1 = (Impl.run (runFuel bits s2) (Impl.init bits) s2).1 ∧
    (Impl.run (runFuel bits s1) (Impl.init bits) s1).2.1 = (Impl.run (runFuel bits s2) (Impl.init bits) s2).2.1 := by
  intro bits
  have a := impl_refines_spec bytes s1 h1
  have b := impl_refines_spec bytes s2 h2
  simp only at a b
  exact ⟨a.1.trans b.1.symm, a.2.1.trans b.2.1.symm⟩

end Compress.Proofs.FlateRefine
