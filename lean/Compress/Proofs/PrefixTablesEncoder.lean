/-
Invariant of the collision-free table search of `Encoder.init`.
-/
import Compress.Proofs.PrefixTablesAux

namespace Compress.Proofs.PrefixTables
open Compress Compress.Prefix

theorem symsIncreasing_cons (a : Code) (l : List Code) (h : symsIncreasing (a :: l) = true) :
    (∀ x ∈ l, a.sym < x.sym) ∧ symsIncreasing l = true := by
  induction l generalizing a with
  | nil => simp [symsIncreasing]
  | cons b l ih =>
    simp only [symsIncreasing, Bool.and_eq_true, decide_eq_true_eq] at h
    obtain ⟨h1, h2⟩ := h
    refine ⟨?_, h2⟩
    intro x hx
    rcases List.mem_cons.1 hx with rfl | hx
    · exact h1
    · exact Nat.lt_trans h1 ((ih b h2).1 x hx)

theorem symsIncreasing_pairwise (l : List Code) (h : symsIncreasing l = true) :
    l.Pairwise (fun a b => a.sym < b.sym) := by
  induction l with
  | nil => exact List.Pairwise.nil
  | cons a l ih =>
    have := symsIncreasing_cons a l h
    exact List.Pairwise.cons this.1 (ih this.2)

def encStep (nc : Nat) (st : Option (Array Nat)) (c : Code) : Option (Array Nat) :=
  match st with
  | none => none
  | some t => if t.getD (c.sym % nc) 0 > 0 then none else some (t.set! (c.sym % nc) (c.val * 32 + c.len))

theorem attempt_succ (cs : List Code) (fuel nc : Nat) :
    Encoder.init.attempt cs (fuel + 1) nc =
      match cs.foldl (encStep nc) (some (Array.replicate nc 0)) with
      | some t => some { chunks := t, chunkMask := nc - 1, numSyms := cs.length }
      | none => Encoder.init.attempt cs fuel (nc * 2) := rfl

structure EncInv (nc : Nat) (st : Option (Array Nat)) (done : List Code) : Prop where
  ok : 2 ^ 32 ≤ nc → st ≠ none
  good : ∀ t, st = some t → t.size = nc ∧
    (∀ b ∈ done, t.getD (b.sym % nc) 0 = b.val * 32 + b.len) ∧
    (∀ idx, t.getD idx 0 ≠ 0 → ∃ b ∈ done, b.sym % nc = idx)

theorem enc_fold_inv (cs : List Code) (hp : cs.Pairwise (fun a b => a.sym < b.sym))
    (hb : ∀ c ∈ cs, c.sym < 2 ^ 32 ∧ 1 ≤ c.len) (nc : Nat) (hnc : 0 < nc) :
    EncInv nc (cs.foldl (encStep nc) (some (Array.replicate nc 0))) cs := by
  apply foldl_inv'
  · refine ⟨by simp, ?_⟩
    intro t ht
    simp only [Option.some.injEq] at ht
    subst ht
    refine ⟨by simp, by simp, ?_⟩
    intro idx h0
    rw [getD_replicate] at h0
    split at h0 <;> exact absurd rfl h0
  · intro st done c suf hl inv
    have hc : c ∈ cs := by simp [← hl]
    have hdone : ∀ b ∈ done, b ∈ cs := by intro b hb; simp [← hl, hb]
    have hlt : ∀ b ∈ done, b.sym < c.sym := by
      rw [← hl, List.pairwise_append] at hp
      intro b hb
      exact hp.2.2 b hb c (by simp)
    match st, inv with
    | none, inv =>
      refine ⟨?_, ?_⟩
      · intro h; exact absurd rfl (inv.ok h)
      · intro t ht; simp [encStep] at ht
    | some t, inv =>
      obtain ⟨hsz, hgood, hsrc⟩ := inv.good t rfl
      have hidx : c.sym % nc < nc := Nat.mod_lt _ hnc
      simp only [encStep]
      split
      · rename_i hcol
        refine ⟨?_, by intro t' ht'; simp at ht'⟩
        intro hbig
        exfalso
        obtain ⟨b, hbd, hbe⟩ := hsrc (c.sym % nc) (by omega)
        have h1 := hlt b hbd
        have h2 := (hb b (hdone b hbd)).1
        have h3 := (hb c hc).1
        rw [Nat.mod_eq_of_lt (by omega), Nat.mod_eq_of_lt (by omega)] at hbe
        omega
      · rename_i hcol
        refine ⟨by simp, ?_⟩
        intro t' ht'
        simp only [Option.some.injEq] at ht'
        subst ht'
        refine ⟨by rw [size_set!]; exact hsz, ?_, ?_⟩
        · intro b hbm
          rw [getD_set!]
          split
          · rename_i he
            rcases List.mem_append.1 hbm with hbm | hbm
            · have := hgood b hbm
              have := (hb b (hdone b hbm)).2
              rw [he.1] at hcol
              omega
            · simp at hbm; subst hbm; rfl
          · rename_i he
            rcases List.mem_append.1 hbm with hbm | hbm
            · exact hgood b hbm
            · simp at hbm; subst hbm; exfalso; exact he ⟨rfl, by rw [hsz]; exact hidx⟩
        · intro idx
          rw [getD_set!]
          split
          · rename_i he
            intro _; exact ⟨c, by simp, he.1⟩
          · intro h0
            obtain ⟨b, hbd, hbe⟩ := hsrc idx h0
            exact ⟨b, by simp [hbd], hbe⟩

theorem numChunksFor_pos (fuel n acc : Nat) (h : 0 < acc) : 0 < Encoder.init.numChunksFor fuel n acc := by
  induction fuel generalizing n acc with
  | zero => simpa [Encoder.init.numChunksFor] using h
  | succ k ih =>
    simp only [Encoder.init.numChunksFor]
    split
    · exact ih _ _ (by omega)
    · exact h

theorem attempt_ok (cs : List Code) (hp : cs.Pairwise (fun a b => a.sym < b.sym))
    (hb : ∀ c ∈ cs, c.sym < 2 ^ 32 ∧ 1 ≤ c.len ∧ c.len < 32) (fuel nc : Nat) (hnc : 0 < nc)
    (hf : 2 ^ 32 ≤ nc * 2 ^ fuel) :
    ∃ e, Encoder.init.attempt cs (fuel + 1) nc = some e ∧ ∀ c ∈ cs, e.lookup c.sym = (c.val, c.len) := by
  induction fuel generalizing nc with
  | zero =>
    rw [attempt_succ]
    have inv := enc_fold_inv cs hp (fun c hc => ⟨(hb c hc).1, (hb c hc).2.1⟩) nc hnc
    match hr : cs.foldl (encStep nc) (some (Array.replicate nc 0)), inv with
    | none, inv => exact absurd rfl (inv.ok (by omega))
    | some t, inv =>
      refine ⟨_, rfl, ?_⟩
      intro c hc
      have := (inv.good t rfl).2.1 c hc
      have hl := (hb c hc).2.2
      simp only [Encoder.lookup, Nat.sub_add_cancel hnc, this]
      congr 1 <;> omega
  | succ k ih =>
    rw [attempt_succ]
    have inv := enc_fold_inv cs hp (fun c hc => ⟨(hb c hc).1, (hb c hc).2.1⟩) nc hnc
    match hr : cs.foldl (encStep nc) (some (Array.replicate nc 0)), inv with
    | none, inv =>
      simp only
      apply ih (nc * 2) (by omega)
      rw [Nat.pow_succ] at hf
      rw [Nat.mul_assoc, Nat.mul_comm 2]; exact hf
    | some t, inv =>
      refine ⟨_, rfl, ?_⟩
      intro c hc
      have := (inv.good t rfl).2.1 c hc
      have hl := (hb c hc).2.2
      simp only [Encoder.lookup, Nat.sub_add_cancel hnc, this]
      congr 1 <;> omega

end Compress.Proofs.PrefixTables
