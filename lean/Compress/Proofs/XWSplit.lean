/-
C05 split independence, part 4: the function-driven writer only sees the atoms of
an operation sequence (single bytes, explicit flushes, the first Close), the atoms
are determined by the normal form `norm`, hence the main theorem.

On the chunk boundary: `Writer.Write` ends a full chunk LAZILY — the automatic
`Flush(FlushFull)` happens at the start of the loop iteration that finds
`nchk - zw.InputOffset ≤ 0` with data still to write, never at the end of the Write
that filled the chunk (`writeLoop`, and writer.go:145-151).  So "the next byte
arrives" is the only trigger, whatever call delivers it: `aByte` ends the chunk
before taking a byte that does not fit; a `Flush(FlushSync)` issued right after a
chunk-filling Write lands INSIDE that chunk for every splitting; a Close after it
ends the chunk through `Flush(FlushIndex)`.  No splitting-dependent pair exists in
the model (theorem below), and none was found on the real code
(scratch/gosplit: 13 000 random re-splittings of xflate.Writer runs with Go's
compress/flate, all levels, flushes on and off chunk boundaries: identical bytes).
-/
import Compress.Proofs.XWSplitRun
import Compress.Proofs.XWSplitLog

namespace Compress.Proofs.XWSplit
open Compress Compress.XFlate

inductive Atom where
  | byte (x : UInt8)
  | flush (m : Nat)
  | close

def atoms : List WOp → List Atom
  | [] => []
  | .write d :: ops => d.map .byte ++ atoms ops
  | .flush m :: ops => .flush m :: atoms ops
  | .close :: _ => [.close]

section
variable (crc : List UInt8 → Nat) (Z : ZFun) (lvl : Int)

def aAtom (a : AW) : Atom → AW
  | .byte x => aByte crc Z lvl a x
  | .flush m => aFlush crc Z lvl a m
  | .close => aClose crc Z lvl a

theorem aRun_cons (a : AW) (op : WOp) (ops : List WOp) :
    aRun crc Z lvl a (op :: ops) = aRun crc Z lvl (aStep crc Z lvl a op) ops := rfl

/-- the function-driven writer is a fold over the atoms: Write boundaries and empty
    Writes are invisible to it. -/
theorem aRun_atoms : ∀ (ops : List WOp) (a : AW),
    aRun crc Z lvl a ops = (atoms ops).foldl (aAtom crc Z lvl) a
  | [], _ => rfl
  | .write d :: ops, a => by
    rw [aRun_cons, aRun_atoms ops, atoms, List.foldl_append, List.foldl_map]
    rfl
  | .flush m :: ops, a => by
    rw [aRun_cons, aRun_atoms ops, atoms, List.foldl_cons]
    rfl
  | .close :: ops, a => by
    rw [aRun_cons]
    show aRun crc Z lvl (aClose crc Z lvl a) ops = _
    rw [aRun_dead crc Z lvl ops _ (aClose_err crc Z lvl a)]
    rfl

end

/-! ### the atoms are a function of the normal form -/

def rebuild : Nat → List UInt8 → List (Nat × Nat) → Bool → List Atom
  | _, D, [], c => D.map .byte ++ (if c then [.close] else [])
  | off, D, (p, m) :: F, c => (D.take (p - off)).map .byte ++ .flush m :: rebuild p (D.drop (p - off)) F c

theorem normFrom_pos : ∀ (ops : List WOp) (off : Nat), ∀ q ∈ (normFrom off ops).2.1, off ≤ q.1
  | [], _, q, h => by simp [normFrom] at h
  | .write d :: ops, off, q, h => by
    have := normFrom_pos ops (off + d.length) q (by simpa [normFrom] using h)
    omega
  | .flush m :: ops, off, q, h => by
    simp only [normFrom, List.mem_cons] at h
    rcases h with h | h
    · subst h; exact Nat.le_refl _
    · exact normFrom_pos ops off q h
  | .close :: _, _, q, h => by simp [normFrom] at h

theorem rebuild_shift (F : List (Nat × Nat)) (off : Nat) (d D : List UInt8) (c : Bool)
    (h : ∀ q ∈ F, off + d.length ≤ q.1) :
    rebuild off (d ++ D) F c = d.map .byte ++ rebuild (off + d.length) D F c := by
  cases F with
  | nil => simp [rebuild]
  | cons q F =>
    obtain ⟨p, m⟩ := q
    have hp : off + d.length ≤ p := h (p, m) (List.mem_cons_self ..)
    have e : p - off = d.length + (p - (off + d.length)) := by omega
    simp only [rebuild]
    rw [e, List.take_length_add_append, List.drop_length_add_append, List.map_append, List.append_assoc]

theorem atoms_rebuild : ∀ (ops : List WOp) (off : Nat),
    atoms ops = rebuild off (normFrom off ops).1 (normFrom off ops).2.1 (normFrom off ops).2.2
  | [], _ => by simp [atoms, normFrom, rebuild]
  | .write d :: ops, off => by
    simp only [atoms, normFrom]
    rw [rebuild_shift _ off d _ _ (normFrom_pos ops (off + d.length)), ← atoms_rebuild ops]
  | .flush m :: ops, off => by
    simp only [atoms, normFrom, rebuild, Nat.sub_self, List.take_zero, List.drop_zero, List.map_nil,
      List.nil_append]
    rw [← atoms_rebuild ops]
  | .close :: _, _ => by simp [atoms, normFrom, rebuild]

theorem atoms_of_norm (ops ops' : List WOp) (h : norm ops = norm ops') : atoms ops = atoms ops' := by
  rw [atoms_rebuild ops 0, atoms_rebuild ops' 0]
  unfold norm at h
  rw [h]

/-! ### the main theorem -/

theorem aInit_inv (chunk index : Int) (hasConf : Bool) : Inv (effChunk chunk hasConf) (aInit chunk index hasConf) := by
  refine ⟨rfl, rfl, rfl, ?_⟩
  unfold effChunk
  split
  · rename_i h; exact h.2
  · decide

/-- the model run against `oracleOf Z …` computes the function-driven writer. -/
theorem run_oracleOf (Z : ZFun) (crc : List UInt8 → Nat) (level chunk index : Int) (hasConf : Bool)
    (ops : List WOp) (s0 : XWState)
    (h0 : newWriter level chunk index hasConf {} (oracleOf Z level chunk hasConf ops) = some s0)
    (P : ZLog → ZSt → Prop) (hP : LogClosed Z (effLevel level hasConf) P) :
    ∃ z, proj (runW crc s0 ops).1 z =
        aRun crc Z (effLevel level hasConf) (aInit chunk index hasConf) ops ∧
      (runW crc s0 ops).1.bad = false ∧ P (runW crc s0 ops).1.zlog z := by
  obtain ⟨h1, h2, h3, h4⟩ := newWriter_sim level chunk index hasConf _ s0 h0
  have hi : Inv (effChunk chunk hasConf) (proj s0 {}) := by rw [h1]; exact aInit_inv chunk index hasConf
  have hl : P s0.zlog {} := by
    rw [h4]; exact hP.reset [] {} hP.init
  have := run_sim crc Z (effLevel level hasConf) P hP ops s0 {} [] h2 hi hl (by intro _; rw [h3, List.append_nil])
  rw [h1] at this
  exact this

theorem split_independent (Z : ZFun) (crc : List UInt8 → Nat) (level chunk index : Int) (hasConf : Bool)
    (ops ops' : List WOp) (s0 s0' : XWState)
    (h0 : newWriter level chunk index hasConf {} (oracleOf Z level chunk hasConf ops) = some s0)
    (h0' : newWriter level chunk index hasConf {} (oracleOf Z level chunk hasConf ops') = some s0')
    (hn : norm ops = norm ops') :
    (runW crc s0 ops).1.sink.got = (runW crc s0' ops').1.sink.got ∧
    (runW crc s0 ops).1.allRecs = (runW crc s0' ops').1.allRecs ∧
    (runW crc s0 ops).1.err = (runW crc s0' ops').1.err ∧
    (runW crc s0 ops).1.outOff = (runW crc s0' ops').1.outOff ∧
    (runW crc s0 ops).1.bad = false ∧ (runW crc s0' ops').1.bad = false := by
  obtain ⟨z, h1, h2, _⟩ := run_oracleOf Z crc level chunk index hasConf ops s0 h0 _ (logClosed_true Z _)
  obtain ⟨z', h1', h2', _⟩ := run_oracleOf Z crc level chunk index hasConf ops' s0' h0' _ (logClosed_true Z _)
  have e : proj (runW crc s0 ops).1 z = proj (runW crc s0' ops').1 z' := by
    rw [h1, h1', aRun_atoms, aRun_atoms, atoms_of_norm ops ops' hn]
  exact ⟨congrArg (fun a => a.sink.got) e, congrArg AW.allRecs e, congrArg AW.err e, congrArg AW.outOff e, h2, h2'⟩

/-- `oracleOf Z …` IS the behaviour of a compressor computing `Z`: the oracle answers exactly
    the calls the writer makes and, in the log of these calls, after every flush the bytes
    emitted since the last Reset are `Z.emit level (data since the Reset) (flush positions since
    the Reset)`. -/
theorem oracleOf_behaves (Z : ZFun) (hS : Z.Streaming) (crc : List UInt8 → Nat) (level chunk index : Int)
    (hasConf : Bool) (ops : List WOp) (s0 : XWState)
    (h0 : newWriter level chunk index hasConf {} (oracleOf Z level chunk hasConf ops) = some s0) :
    (runW crc s0 ops).1.bad = false ∧ ZBehaves Z (effLevel level hasConf) (runW crc s0 ops).1.zlog := by
  obtain ⟨z, _, h2, h3⟩ := run_oracleOf Z crc level chunk index hasConf ops s0 h0 _
    (LG_closed Z (effLevel level hasConf) hS)
  exact ⟨h2, LG_behaves Z _ h3⟩

/-! ### non-vacuity -/

/-- the hypotheses of `split_independent` are satisfiable by different operation sequences:
    a chunk-filling Write followed by a sync flush, against the same data written byte-wise with
    empty Writes in between. -/
example : norm [.write [1, 2, 3], .flush 0, .write [4], .close] =
    norm [.write [1], .write [], .write [2, 3], .write [], .flush 0, .write [4], .write [], .close, .write [9]] := by
  decide

example : ∃ s0, newWriter 6 2 2 true {}
    (oracleOf storedZ 6 2 true [.write [1, 2, 3], .flush 0, .write [4], .close]) = some s0 := ⟨_, rfl⟩

end Compress.Proofs.XWSplit
