/-
flate.Reader, API-level model (`Compress.Flate.Api`): facts about `Impl.read` that hold of EVERY
state of the decoder model (no invariant): the decompression steps never touch `OutputOffset`,
`Read` moves it by exactly the bytes it returns, and an error that `Read` returns is latched with
the pending output drained (or the bound of the model's loop was hit).
-/
import Compress.Flate.Api
import Compress.Proofs.FlateRead
import Compress.Proofs.FlateStep

namespace Compress.Proofs.FlateApi
open Compress Compress.Flate Compress.Flate.Impl

theorem finishBlock_outOff (s : FState) : (finishBlock s).outOff = s.outOff := by
  unfold finishBlock; split <;> rfl

theorem readBlockHeader_outOff (s s' : FState) (h : readBlockHeader s = .ok s') : s'.outOff = s.outOff := by
  unfold readBlockHeader at h
  simp only [bind, Except.bind, pure, Except.pure, throw, throwThe, MonadExceptOf.throw] at h
  repeat' split at h
  all_goals first
    | (cases h; done)
    | (injection h with h; subst h; first | rfl | simp [finishBlock_outOff])
    | skip

theorem readRawData_outOff (s s' : FState) (h : readRawData s = .ok s') : s'.outOff = s.outOff := by
  unfold readRawData at h
  simp only [bind, Except.bind, pure, Except.pure, throw, throwThe, MonadExceptOf.throw] at h
  repeat' split at h
  all_goals first
    | (cases h; done)
    | (injection h with h; subst h; first | rfl | simp [finishBlock_outOff])
    | skip

theorem readBlock_outOff : ∀ (fuel : Nat) (s : FState), (readBlock fuel s).1.outOff = s.outOff := by
  intro fuel
  induction fuel with
  | zero => intro s; rfl
  | succ fuel ih =>
    intro s
    rw [Compress.Proofs.FlateRefine.readBlock_succ]
    repeat' (first | (with_reducible rfl) | (rw [ih]) | (rw [finishBlock_outOff]) | split | (dsimp only))

open Compress.Proofs.FlateRefine in
theorem stepCore_outOff (s : FState) : (stepCore s).1.outOff = s.outOff := by
  unfold stepCore
  split
  · split
    · rename_i h; exact readBlockHeader_outOff _ _ h
    · rfl
  · split
    · rename_i h; exact readRawData_outOff _ _ h
    · rfl
  · exact readBlock_outOff _ _

open Compress.Proofs.FlateRefine in
theorem stepOnce_outOff (s : FState) : (stepOnce s).outOff = s.outOff := by
  rw [stepOnce_eq]
  have h := stepCore_outOff s
  unfold finalFlush applyErr
  generalize stepCore s = p at h ⊢
  rcases p with ⟨a, e⟩
  cases e <;> dsimp only at h ⊢ <;> split <;> first | exact h | (dsimp only; exact h)

/-- **`Read` moves `OutputOffset` by exactly the bytes it returns** - from every state. -/
theorem read_outOff : ∀ (fuel : Nat) (s : FState) (n : Nat),
    (Impl.read fuel s n).1.outOff = s.outOff + (Impl.read fuel s n).2.1.length := by
  intro fuel
  induction fuel with
  | zero => intro s n; rfl
  | succ fuel ih =>
    intro s n
    rw [Compress.Proofs.FlateRefine.read_succ]
    split
    · dsimp only; split <;> rfl
    · split
      · rfl
      · rw [ih, stepOnce_outOff]

theorem latchBound_id (c : FState) (e : FErr) (h1 : c.err = some e) (h2 : c.toRead = []) :
    Api.latchBound c (some e) = c := by
  cases c; simp only [Api.latchBound] at *; simp [h1, h2]

end Compress.Proofs.FlateApi
