/-
One step of the decoder's symbol loop on each of the four meta symbols (C16).
-/
import Compress.Proofs.MetaSyms

namespace Compress.Proofs.Meta
open Compress Compress.Meta

def stepSt (st : SymState) (cnt : Nat) (bit : Bool) (fifo : Nat) : SymState :=
  { idx := st.idx + cnt, bit := bit, fifo := fifo, ones := st.ones + (if bit then cnt else 0),
    out := st.out ++ List.replicate cnt bit }

theorem symLoop_zero (fuel : Nat) (st : SymState) (rest : Bits) (hidx : st.idx < 256)
    (hf : fifoPush st.fifo 1 0 ≠ 0) :
    symLoop (fuel+1) st (false :: rest) = symLoop fuel (stepSt st 1 false (fifoPush st.fifo 1 0)) rest := by
  have h1 : ¬ (st.idx ≥ maxSyms - 1) := by simp [maxSyms]; omega
  simp only [symLoop, h1, if_false, readSym, hf, stepSt]

theorem symLoop_one (fuel : Nat) (st : SymState) (rest : Bits) (hidx : st.idx < 256)
    (hf : fifoPush st.fifo 2 1 ≠ 0) :
    symLoop (fuel+1) st (true :: false :: rest) = symLoop fuel (stepSt st 1 true (fifoPush st.fifo 2 1)) rest := by
  have h1 : ¬ (st.idx ≥ maxSyms - 1) := by simp [maxSyms]; omega
  simp only [symLoop, h1, if_false, readSym, hf, stepSt]

theorem symLoop_repLast (fuel : Nat) (st : SymState) (v : Nat) (rest : Bits) (hidx : st.idx < 256) (hv : v < 4)
    (hf : fifoPush (fifoPush st.fifo 3 3) 2 v ≠ 0) :
    symLoop (fuel+1) st (true :: true :: false :: (Bits.ofNat v 2 ++ rest)) =
      symLoop fuel (stepSt st (v + 3) st.bit (fifoPush (fifoPush st.fifo 3 3) 2 v)) rest := by
  have h1 : ¬ (st.idx ≥ maxSyms - 1) := by simp [maxSyms]; omega
  simp only [symLoop, h1, if_false, readSym, readBits_ofNat_lt 2 v rest (by omega), hf, stepSt, minRepLast]

theorem symLoop_repZero (fuel : Nat) (st : SymState) (v : Nat) (rest : Bits) (hidx : st.idx < 256) (hv : v < 128)
    (hf : fifoPush (fifoPush st.fifo 3 7) 7 v ≠ 0) :
    symLoop (fuel+1) st (true :: true :: true :: (Bits.ofNat v 7 ++ rest)) =
      symLoop fuel (stepSt st (v + 11) false (fifoPush (fifoPush st.fifo 3 7) 7 v)) rest := by
  have h1 : ¬ (st.idx ≥ maxSyms - 1) := by simp [maxSyms]; omega
  simp only [symLoop, h1, if_false, readSym, readBits_ofNat_lt 7 v rest (by omega), hf, stepSt, minRepZero]

theorem symLoop_done (fuel : Nat) (st : SymState) (rest : Bits) (hidx : 256 ≤ st.idx) :
    symLoop fuel st rest = .ok (st, rest) := by
  cases fuel with
  | zero => rfl
  | succ n =>
    have h1 : st.idx ≥ maxSyms - 1 := by simp [maxSyms]; omega
    simp only [symLoop, h1, if_true]

theorem fifo_zero (f : Nat) (h : f < 256) : fifoPush f 1 0 = f / 2 := by
  simp [fifoPush]; omega
theorem fifo_one (f : Nat) (h : f < 256) : fifoPush f 2 1 = f / 4 + 64 := by
  simp [fifoPush]; omega
theorem fifo_repLast (f v : Nat) (h : f < 256) (hv : v < 4) :
    fifoPush (fifoPush f 3 3) 2 v = (f / 8 + 96) / 4 + v * 64 := by
  simp [fifoPush]; omega
theorem fifo_repZero (f v : Nat) (h : f < 256) (hv : v < 128) :
    fifoPush (fifoPush f 3 7) 7 v = 1 + v * 2 := by
  simp [fifoPush]; omega

end Compress.Proofs.Meta
