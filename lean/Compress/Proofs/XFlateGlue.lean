/-
C05 glue: the layout a reader reconstructs from what the writer emitted is
well-formed for the written data, so C07 applies: reading it back returns the
data. Also C08 for the index parser: allocation follows the input size.
-/
import Compress.XFlate.WriterSpec
import Compress.XFlate.ReaderSpec
import Compress.Proofs.XFlateStream
import Compress.Proofs.XFlateReader
import Compress.Proofs.XGAlloc
import Compress.Proofs.XGWriter

namespace Compress.Proofs.XFlateGlue
open Compress Compress.XFlate

/-- bytes `[a, b)` of the stream. -/
def bytesBetween (stream : List UInt8) (a b : Int) : List UInt8 :=
  (stream.drop a.toNat).take (b - a).toNat

/-- the layout an RFC 1951 inflater behind `chunkReader` presents for a stream
    and its merged index: segment `j` is the bytes between records `j-1` and `j`
    followed by the end block (`specSegInfo`). -/
def layoutOf (stream : List UInt8) (recs : List Record) : Layout :=
  { recs := recs,
    segs := (List.range (recs.length + 1)).map fun j =>
      specSegInfo (bytesBetween stream (getRecords recs j).1.comp (getRecords recs j).2.comp) }

/-- **C05 (layout).** For every configuration and Write/Flush schedule closed
    successfully, under the compressor contract, the writer's own records over the
    emitted bytes form a layout that is well-formed for the written data. -/
theorem writer_layout_wellformed (crc : List UInt8 → Nat) (level chunk index : Int) (hasConf : Bool)
    (oracle : List ZEv) (ops : List WOp) (s0 : XWState)
    (h0 : newWriter level chunk index hasConf {} oracle = some s0)
    (hz : ∀ ev ∈ oracle, ev.err ≠ some .closed) :
    let s := (runW crc s0 ops).1
    s.err = some .closed → s.bad = false →
    (∀ c ∈ chunksOf s.zlog [] [], ZChunkOK c.1 c.2 ∧ 4 < c.1.length ∧
        (c.1.reverse.take 4).reverse = [0x00, 0x00, 0xff, 0xff]) →
    (∀ p ∈ s.zlog, p.1.kind = .zflush → p.1.emitted ≠ []) →
    s.sink.got.length < 2 ^ 63 → (dataOf s.zlog).length < 2 ^ 63 →
    WellFormed (layoutOf s.sink.got s.allRecs) (dataOf s.zlog) := by
  intro s he hb hc hflush hg hd
  obtain ⟨rgs, tr, foot, hf⟩ := XWShape.closed_shape crc level chunk index hasConf oracle ops s0 h0 hz he hb
  exact XGWriter.fin_wf crc s rgs tr foot hf hc hflush hg hd

/-- **C05 (round trip).** Hence every sequence of Seek and Read calls on the
    reader opened over the emitted bytes behaves like a ReadSeeker over the written
    data (C07), and the end position is the data length. -/
theorem roundtrip (crc : List UInt8 → Nat) (level chunk index : Int) (hasConf : Bool)
    (oracle : List ZEv) (ops : List WOp) (s0 : XWState)
    (h0 : newWriter level chunk index hasConf {} oracle = some s0)
    (hz : ∀ ev ∈ oracle, ev.err ≠ some .closed) (rops : List ROp) :
    let s := (runW crc s0 ops).1
    s.err = some .closed → s.bad = false →
    (∀ c ∈ chunksOf s.zlog [] [], ZChunkOK c.1 c.2 ∧ 4 < c.1.length ∧
        (c.1.reverse.take 4).reverse = [0x00, 0x00, 0xff, 0xff]) →
    (∀ p ∈ s.zlog, p.1.kind = .zflush → p.1.emitted ≠ []) →
    s.sink.got.length < 2 ^ 63 → (dataOf s.zlog).length < 2 ^ 63 →
    let L := layoutOf s.sink.got s.allRecs
    TraceOK (dataOf s.zlog) 0 rops (runOps .fixed L (opened .fixed L) rops) ∧
    L.endRaw = ((dataOf s.zlog).length : Int) := by
  intro s he hb hc hflush hg hd L
  have wf : WellFormed L (dataOf s.zlog) :=
    writer_layout_wellformed crc level chunk index hasConf oracle ops s0 h0 hz he hb hc hflush hg hd
  exact ⟨Compress.Proofs.XFlateReader.readseeker L (dataOf s.zlog) wf rops, wf.endEq⟩

/-- **C08 (index parser).** Whatever the input declares, the number of chunk
    entries `Reader.Reset` appends while parsing is bounded by the input length
    (the repaired code; the original appended one entry per *declared* record). -/
theorem open_alloc_bounded (crc : List UInt8 → Nat) (stream : List UInt8) (r : OpenResult)
    (h : openIndex .fixed crc stream = .ok r) : r.alloc ≤ stream.length := by
  -- every appended entry became a record of compressed size ≥ 5 (`build` rejects `cs ≤ 4`),
  -- and the backward walk checks that each index's records fit in front of it:
  -- `5 * r.alloc ≤ stream.length` (the payload-length argument does not work: a meta
  -- block can carry 31 payload bytes in 12 encoded bytes).
  have := XGAlloc.open_alloc5 crc stream r h
  omega

/-- on the code as it was, the same count is unbounded in a number merely
    declared in the input: for every `N` there is a 43-byte-scale stream shape
    whose parse appends at least `N` entries before it is rejected — witnessed on
    `decodeIndex` directly. -/
theorem orig_alloc_unbounded (crc : List UInt8 → Nat) (N : Nat) (hN : N < 2 ^ 62) :
    ∃ st : VLIState, st.err = true ∧ (readChunks .orig N st [] 0).2.2 ≥ N ∧
      (readChunks .fixed N st [] 0).2.2 = 0 := by
  refine ⟨{ buf := [], err := true }, rfl, ?_, ?_⟩
  · cases N with
    | zero => simp [readChunks]
    | succ k => simp [readChunks]
  · cases N with
    | zero => simp [readChunks]
    | succ k => simp [readChunks]

end Compress.Proofs.XFlateGlue

#print axioms Compress.Proofs.XFlateGlue.writer_layout_wellformed
#print axioms Compress.Proofs.XFlateGlue.roundtrip
#print axioms Compress.Proofs.XFlateGlue.open_alloc_bounded
#print axioms Compress.Proofs.XFlateGlue.orig_alloc_unbounded
