/-
C01, component 1 (Huffman trees): `Impl.mkTree` (GeneratePrefixes + Decoder.Init,
with the poison code for one-code trees) accepts exactly the length vectors
the specification calls valid, and the table decoder reads every stream like
the counting decoder of the specification.
-/
import Compress.Proofs.FlateDefs

namespace Compress.Proofs.FlateRefine
open Compress Compress.Flate Compress.Prefix
open Compress.Proofs.PrefixCodes Compress.Proofs.PrefixTables

/-! ### bit lists, MSB first -/

theorem toNatMSB_snoc (q : Bits) (b : Bool) :
    Bits.toNatMSB (q ++ [b]) = 2 * Bits.toNatMSB q + (if b then 1 else 0) := by
  simp [Bits.toNatMSB, List.foldl_append]

theorem toNatMSB_reverse (l : Bits) : Bits.toNatMSB l.reverse = Bits.toNat l := by
  induction l with
  | nil => rfl
  | cons b l ih =>
    rw [List.reverse_cons, toNatMSB_snoc, ih, Bits.toNat]; omega

theorem toNatMSB_eq (q : Bits) : Bits.toNatMSB q = Bits.toNat q.reverse := by
  rw [← toNatMSB_reverse, List.reverse_reverse]

theorem toNatMSB_lt (q : Bits) : Bits.toNatMSB q < 2 ^ q.length := by
  rw [toNatMSB_eq]
  have := toNat_lt q.reverse
  rwa [List.length_reverse] at this

theorem ofNat_toNatMSB (q : Bits) : (Bits.ofNat (Bits.toNatMSB q) q.length).reverse = q := by
  have := ofNat_toNat q.reverse
  rw [List.length_reverse] at this
  rw [toNatMSB_eq, this, List.reverse_reverse]

theorem toNatMSB_word (c : Code) : Bits.toNatMSB c.word = c.canon := by
  rw [toNatMSB_eq]; rfl

theorem toNat_append_false (l : Bits) (n : Nat) :
    Bits.toNat (l ++ List.replicate n false) = Bits.toNat l := by
  induction l with
  | nil =>
    induction n with
    | zero => rfl
    | succ n ih =>
      rw [List.replicate_succ]
      simp only [List.nil_append, Bits.toNat] at ih ⊢
      rw [ih]; rfl
  | cons b l ih => simp only [List.cons_append, Bits.toNat, ih]

/-! ### the codes of a length vector -/

/-- symbols of the codes of length `l`, in list order. -/
def symsL (cs : List Code) (l : Nat) : List Nat := (cs.filter (·.len == l)).map (·.sym)

theorem symsL_length (cs : List Code) (l : Nat) : (symsL cs l).length = lenCount cs l := by
  simp [symsL, lenCount]

theorem codesFrom_mem (lens : List Nat) (off : Nat) :
    ∀ c ∈ codesFrom off lens, off ≤ c.sym ∧ c.sym < off + lens.length ∧ c.len ≠ 0 ∧ c.len ∈ lens := by
  induction lens generalizing off with
  | nil => intro c hc; simp [codesFrom] at hc
  | cons x xs ih =>
    intro c hc
    simp only [codesFrom] at hc
    split at hc
    · obtain ⟨h1, h2, h3, h4⟩ := ih (off + 1) c hc
      exact ⟨by omega, by simp only [List.length_cons]; omega, h3, List.mem_cons_of_mem _ h4⟩
    · rename_i hx
      rcases List.mem_cons.1 hc with rfl | hc
      · exact ⟨Nat.le_refl _, by simp only [List.length_cons]; omega, hx, List.mem_cons_self⟩
      · obtain ⟨h1, h2, h3, h4⟩ := ih (off + 1) c hc
        exact ⟨by omega, by simp only [List.length_cons]; omega, h3, List.mem_cons_of_mem _ h4⟩

theorem symsIncreasing_cons_of (a : Code) (l : List Code) (h1 : ∀ x ∈ l, a.sym < x.sym)
    (h2 : symsIncreasing l = true) : symsIncreasing (a :: l) = true := by
  cases l with
  | nil => rfl
  | cons b rest =>
    simp only [symsIncreasing, Bool.and_eq_true, decide_eq_true_eq]
    exact ⟨h1 b List.mem_cons_self, h2⟩

theorem codesFrom_increasing (lens : List Nat) (off : Nat) :
    symsIncreasing (codesFrom off lens) = true := by
  induction lens generalizing off with
  | nil => rfl
  | cons x xs ih =>
    simp only [codesFrom]
    split
    · exact ih _
    · apply symsIncreasing_cons_of _ _ _ (ih _)
      intro c hc
      have := (codesFrom_mem xs (off + 1) c hc).1
      show off < c.sym
      omega

theorem codesFrom_lenCount (lens : List Nat) (off l : Nat) (hl : 1 ≤ l) :
    lenCount (codesFrom off lens) l = (lens.filter (· == l)).length := by
  induction lens generalizing off with
  | nil => rfl
  | cons x xs ih =>
    simp only [codesFrom]
    split
    · rename_i hx
      rw [ih, List.filter_cons_of_neg (by simp; omega)]
    · rw [lenCount_cons, ih]
      by_cases hxl : x = l
      · subst hxl; simp; omega
      · simp [hxl]

theorem codesFrom_length (lens : List Nat) (off : Nat) :
    (codesFrom off lens).length = (lens.filter (· != 0)).length := by
  induction lens generalizing off with
  | nil => rfl
  | cons x xs ih =>
    simp only [codesFrom]
    split
    · rename_i hx
      rw [ih, List.filter_cons_of_neg (by simp [hx])]
    · rename_i hx
      rw [List.filter_cons_of_pos (by simp [hx])]
      simp [ih]

theorem codesFrom_symsL (lens : List Nat) (off l : Nat) (hl : 1 ≤ l) :
    ((List.range lens.length).filter (fun s => lens.getD s 0 == l)).map (· + off) =
      symsL (codesFrom off lens) l := by
  induction lens generalizing off with
  | nil => rfl
  | cons x xs ih =>
    have ih' := ih (off + 1)
    rw [List.length_cons, List.range_succ_eq_map]
    have e : List.filter (fun s => (x :: xs).getD s 0 == l) (List.map Nat.succ (List.range xs.length)) =
        List.map Nat.succ (List.filter (fun s => xs.getD s 0 == l) (List.range xs.length)) := by
      rw [List.filter_map]; rfl
    have e2 : ∀ (L : List Nat), List.map (· + off) (List.map Nat.succ L) = List.map (· + (off + 1)) L := by
      intro L; rw [List.map_map]; apply List.map_congr_left; intro a _; simp; omega
    simp only [codesFrom]
    by_cases hxl : x = l
    · subst hxl
      rw [if_neg (by omega), List.filter_cons_of_pos (by simp), e, List.map_cons, e2, ih']
      simp [symsL]
    · have hn : ¬ ((x :: xs).getD 0 0 == l) = true := by simpa using hxl
      rw [List.filter_cons, if_neg hn, e, e2, ih']
      split
      · rfl
      · simp [symsL, hxl]

/-! ### the specification's tables in terms of the code list -/

theorem huff_count (lens : List Nat) (l : Nat) (hl : 1 ≤ l) :
    (⟨lens.toArray⟩ : Huff).count l = lenCount (codesOf lens) l := by
  rw [codesOf, codesFrom_lenCount _ _ _ hl]; rfl

theorem huff_numCodes (lens : List Nat) :
    (⟨lens.toArray⟩ : Huff).numCodes = (codesOf lens).length := by
  rw [codesOf, codesFrom_length]; rfl

theorem huff_symsOfLen (lens : List Nat) (l : Nat) (hl : 1 ≤ l) :
    (⟨lens.toArray⟩ : Huff).symsOfLen l = symsL (codesOf lens) l := by
  rw [codesOf, ← codesFrom_symsL _ _ _ hl]
  simp [Huff.symsOfLen]

/-- symbols ordered by (length, symbol), lengths `1..k`. -/
def pre (cs : List Code) (k : Nat) : List Nat :=
  ((List.range k).map (fun i => symsL cs (i + 1))).flatten

/-- number of codes of lengths `1..k`. -/
def idx (cs : List Code) (k : Nat) : Nat := (pre cs k).length

theorem pre_succ (cs : List Code) (k : Nat) : pre cs (k + 1) = pre cs k ++ symsL cs (k + 1) := by
  simp [pre, List.range_succ]

theorem idx_zero (cs : List Code) : idx cs 0 = 0 := rfl

theorem idx_succ (cs : List Code) (k : Nat) : idx cs (k + 1) = idx cs k + lenCount cs (k + 1) := by
  simp [idx, pre_succ, symsL_length]

theorem idx_mono (cs : List Code) (k d : Nat) : idx cs k ≤ idx cs (k + d) := by
  induction d with
  | zero => exact Nat.le_refl _
  | succ d ih => rw [← Nat.add_assoc, idx_succ]; omega

theorem pre_split (cs : List Code) (k d : Nat) :
    ∃ t, pre cs (k + 1 + d) = pre cs k ++ symsL cs (k + 1) ++ t := by
  induction d with
  | zero => exact ⟨[], by rw [Nat.add_zero, pre_succ, List.append_nil]⟩
  | succ d ih =>
    obtain ⟨t, ht⟩ := ih
    exact ⟨t ++ symsL cs (k + 1 + d + 1), by rw [← Nat.add_assoc, pre_succ, ht, List.append_assoc]⟩

theorem pre_getElem (cs : List Code) (k n j : Nat) (hk : k < n) (hj : j < lenCount cs (k + 1)) :
    (pre cs n)[idx cs k + j]? = (symsL cs (k + 1))[j]? := by
  obtain ⟨d, rfl⟩ : ∃ d, n = k + 1 + d := ⟨n - (k + 1), by omega⟩
  obtain ⟨t, ht⟩ := pre_split cs k d
  rw [ht, List.getElem?_append_left (by rw [List.length_append, symsL_length]; unfold idx; omega),
    List.getElem?_append_right (by unfold idx; omega)]
  congr 1
  unfold idx; omega

/-- no code of a length in `(k, k+d]`: the code space of length `k` is just scaled. -/
theorem endCode_of_idx (cs : List Code) (k d : Nat) (h : idx cs (k + d) ≤ idx cs k) :
    endCode cs (k + d) = endCode cs k * 2 ^ d := by
  induction d with
  | zero => simp
  | succ d ih =>
    rw [← Nat.add_assoc, idx_succ] at h
    have hm := idx_mono cs k d
    have h0 : lenCount cs (k + d + 1) = 0 := by omega
    have e : endCode cs (k + d + 1) = 2 * endCode cs (k + d) := by
      show firstCode cs (k + d + 1) + lenCount cs (k + d + 1) = _
      rw [h0, firstCode_succ']; rfl
    rw [← Nat.add_assoc, e, ih (by omega), Nat.pow_succ]
    rw [Nat.mul_comm, Nat.mul_assoc]

theorem endCode_succ (cs : List Code) (k : Nat) :
    endCode cs (k + 1) = 2 * endCode cs k + lenCount cs (k + 1) := by
  show firstCode cs (k + 1) + lenCount cs (k + 1) = _
  rw [firstCode_succ']

theorem endCode_zero (cs : List Code) (h : ∀ c ∈ cs, 1 ≤ c.len) : endCode cs 0 = 0 := by
  show firstCode cs 0 + lenCount cs 0 = 0
  rw [firstCode_eq_zero cs 0 (fun c _ => Nat.zero_le _),
    lenCount_eq_zero cs 0 (fun c hc => by have := h c hc; omega)]

/-- what the counting decoder's tables are, relative to a code list. -/
structure TabOK (t : HuffTab) (cs : List Code) : Prop where
  count : ∀ l, 1 ≤ l → l ≤ 15 → t.count.getD l 0 = lenCount cs l
  sorted : t.sorted = (pre cs 15).toArray

theorem huff_tabOK (lens : List Nat) : TabOK (⟨lens.toArray⟩ : Huff).tab (codesOf lens) := by
  constructor
  · intro l h1 h15
    have : l < 16 := by omega
    simp [Huff.tab, maxCodeLen, this, huff_count lens l h1]
  · simp only [Huff.tab, pre, maxCodeLen]
    congr 2
    apply List.map_congr_left
    intro i _
    exact huff_symsOfLen lens (i + 1) (by omega)

/-! ### `left` in closed form, validity -/

theorem left_fold (f : Nat → Nat) (cs : List Code) (hf : ∀ i, f (i + 1) = lenCount cs (i + 1))
    (h0 : endCode cs 0 = 0) (k : Nat) :
    (List.range k).foldl (fun (left : Int) i => 2 * left - (f (i + 1) : Int)) 1 =
      ((2 ^ k : Nat) : Int) - ((endCode cs k : Nat) : Int) := by
  induction k with
  | zero => simp [h0]
  | succ k ih =>
    rw [List.range_succ, List.foldl_append, ih, List.foldl_cons, List.foldl_nil, hf, endCode_succ,
      Nat.pow_succ]
    omega

theorem codesOf_lens (lens : List Nat) (h15 : ∀ l ∈ lens, l ≤ 15) :
    ∀ c ∈ codesOf lens, 1 ≤ c.len ∧ c.len ≤ 15 := by
  intro c hc
  obtain ⟨_, _, h3, h4⟩ := codesFrom_mem lens 0 c hc
  exact ⟨by omega, h15 _ h4⟩

theorem huff_left (lens : List Nat) :
    (⟨lens.toArray⟩ : Huff).left = ((2 ^ 15 : Nat) : Int) - ((endCode (codesOf lens) 15 : Nat) : Int) := by
  apply left_fold
  · intro i; exact huff_count lens (i + 1) (by omega)
  · apply endCode_zero
    intro c hc
    have := (codesFrom_mem lens 0 c hc).2.2.1
    omega

theorem huff_valid_iff (lens : List Nat) :
    (⟨lens.toArray⟩ : Huff).valid = true ↔
      endCode (codesOf lens) 15 ≤ 2 ^ 15 ∧
        (endCode (codesOf lens) 15 = 2 ^ 15 ∨ (codesOf lens).length = 0 ∨
          ((codesOf lens).length = 1 ∧ lenCount (codesOf lens) 1 = 1)) := by
  simp only [Huff.valid, huff_left, huff_numCodes, huff_count lens 1 (Nat.le_refl _), Bool.and_eq_true,
    Bool.or_eq_true, decide_eq_true_eq]
  omega

/-! ### the `k`-th code of a length -/

theorem assignVals_kth (cs : List Code) (next : Nat → Nat) (L k s : Nat)
    (h : (symsL cs L)[k]? = some s) :
    ∃ c ∈ assignVals cs next, c.sym = s ∧ c.len = L ∧ c.val = reverseBits (next L + k) L := by
  induction cs generalizing next k with
  | nil => simp [symsL] at h
  | cons c0 cs ih =>
    by_cases hL : c0.len = L
    · have e : symsL (c0 :: cs) L = c0.sym :: symsL cs L := by simp [symsL, hL]
      rw [e] at h
      cases k with
      | zero =>
        simp only [List.getElem?_cons_zero, Option.some.injEq] at h
        exact ⟨_, List.mem_cons_self, h, hL, by simp only [hL, Nat.add_zero]⟩
      | succ k =>
        rw [List.getElem?_cons_succ] at h
        obtain ⟨c, hc, h1, h2, h3⟩ := ih (fun l => if l = c0.len then next l + 1 else next l) k h
        refine ⟨c, List.mem_cons_of_mem _ hc, h1, h2, ?_⟩
        rw [h3, if_pos hL.symm]; congr 1; omega
    · have e : symsL (c0 :: cs) L = symsL cs L := by simp [symsL, hL]
      rw [e] at h
      obtain ⟨c, hc, h1, h2, h3⟩ := ih (fun l => if l = c0.len then next l + 1 else next l) k h
      refine ⟨c, List.mem_cons_of_mem _ hc, h1, h2, ?_⟩
      rw [h3, if_neg (fun e => hL e.symm)]

/-! ### the counting decoder -/

theorem decodeAux_nil (t : HuffTab) (fuel len code first index : Nat) :
    t.decodeAux (fuel + 1) len code first index [] =
      if t.sorted.size = 0 then .invalid else .eof := rfl

theorem decodeAux_cons (t : HuffTab) (fuel len code first index : Nat) (b : Bool) (rest : Bits) :
    t.decodeAux (fuel + 1) len code first index (b :: rest) =
      if code + (if b then 1 else 0) < first + t.count.getD len 0 then
        match t.sorted[index + (code + (if b then 1 else 0) - first)]? with
        | some s => .sym s rest
        | none => .invalid
      else if index + t.count.getD len 0 ≥ t.sorted.size then .invalid
      else t.decodeAux fuel (len + 1) (2 * (code + (if b then 1 else 0)))
        (2 * (first + t.count.getD len 0)) (index + t.count.getD len 0) rest := rfl

/-- a table without symbols decodes nothing. -/
theorem decodeAux_empty (t : HuffTab) (h : t.sorted.size = 0) :
    ∀ (fuel len code first index : Nat) (bits : Bits),
      t.decodeAux fuel len code first index bits = .invalid := by
  intro fuel len code first index bits
  cases fuel with
  | zero => rfl
  | succ fuel =>
    cases bits with
    | nil => rw [decodeAux_nil, if_pos h]
    | cons b rest =>
      rw [decodeAux_cons]
      have hn : ∀ i, t.sorted[i]? = none := fun i => by
        apply Array.getElem?_eq_none; omega
      by_cases hc : code + (if b then 1 else 0) < first + t.count.getD len 0
      · rw [if_pos hc, hn]
      · rw [if_neg hc, if_pos (by omega)]

/-- hypotheses on a code list under which canonical codes are assigned. -/
structure CodesOK (cs : List Code) : Prop where
  lens : ∀ c ∈ cs, 1 ≤ c.len ∧ c.len ≤ 15
  full : endCode cs 15 = 2 ^ 15

theorem nextFn_eq (cs : List Code) (c : Code) (hc : c ∈ cs) : nextFn cs c.len = firstCode cs c.len := by
  unfold nextFn
  have h1 : minB cs ≤ c.len := (foldl_min_le _ _).2 c hc
  have h2 : c.len ≤ maxB cs := (le_foldl_max _ _).2 c hc
  rw [if_pos ⟨h1, by omega⟩]

theorem canon_bounds (cs : List Code) (ok : CodesOK cs) :
    ∀ c ∈ assignVals cs (nextFn cs), c.canon < endCode cs c.len := by
  intro c hc
  refine (assignVals_canon (endCode cs) cs (nextFn cs) ?_ ?_ c hc).2
  · intro l; unfold nextFn endCode; split <;> omega
  · intro c hc
    exact endCode_le_pow cs 15 c.len ok.full (ok.lens c hc).2

/-- outcome of decoding one symbol from `full`. -/
def DecRes (cs : List Code) (full : Bits) (out : Sym) : Prop :=
  (∃ c ∈ assignVals cs (nextFn cs), ∃ rest, full = c.word ++ rest ∧ out = .sym c.sym rest) ∨
  (out = .eof ∧ full.length < 15 ∧ ∀ c ∈ assignVals cs (nextFn cs), ¬ c.word <+: full)

theorem decodeAux_inv (t : HuffTab) (cs : List Code) (ht : TabOK t cs) (ok : CodesOK cs) :
    ∀ (fuel : Nat) (p bits : Bits), p.length + fuel = 15 →
      (∀ l, l ≤ p.length → endCode cs l ≤ Bits.toNatMSB (p.take l)) →
      DecRes cs (p ++ bits)
        (t.decodeAux fuel (p.length + 1) (2 * Bits.toNatMSB p) (firstCode cs (p.length + 1))
          (idx cs p.length) bits) := by
  intro fuel
  induction fuel with
  | zero =>
    intro p bits hp inv
    have h1 := inv p.length (Nat.le_refl _)
    rw [List.take_length] at h1
    have h2 := toNatMSB_lt p
    have h3 : p.length = 15 := by omega
    rw [h3] at h1 h2
    have := ok.full
    omega
  | succ fuel ih =>
    intro p bits hp inv
    have hsz : t.sorted.size = idx cs 15 := by rw [ht.sorted]; rfl
    cases bits with
    | nil =>
      rw [decodeAux_nil]
      have hne : t.sorted.size ≠ 0 := by
        intro h0
        have := endCode_of_idx cs 0 15 (by rw [Nat.zero_add, ← hsz, h0]; exact Nat.zero_le _)
        rw [Nat.zero_add, endCode_zero cs (fun c hc => (ok.lens c hc).1), ok.full] at this
        omega
      rw [if_neg hne, List.append_nil]
      refine Or.inr ⟨rfl, by omega, ?_⟩
      intro c hc hpre
      have hlt := canon_bounds cs ok c hc
      have hlen : c.len ≤ p.length := by
        have := hpre.length_le; rwa [word_length] at this
      have h1 := inv c.len hlen
      rw [List.prefix_iff_eq_take, word_length] at hpre
      rw [← hpre, toNatMSB_word] at h1
      omega
    | cons b rest =>
      rw [decodeAux_cons]
      have hlen15 : p.length + 1 ≤ 15 := by omega
      have hcnt := ht.count (p.length + 1) (by omega) hlen15
      rw [hcnt]
      have hsn := toNatMSB_snoc p b
      have hfirst : firstCode cs (p.length + 1) = 2 * endCode cs p.length := firstCode_succ' cs _
      have hpl := inv p.length (Nat.le_refl _)
      rw [List.take_length] at hpl
      have hp' : (p ++ [b]).length = p.length + 1 := by simp
      have hfull : p ++ b :: rest = (p ++ [b]) ++ rest := by simp
      by_cases hfound : 2 * Bits.toNatMSB p + (if b then 1 else 0) <
          firstCode cs (p.length + 1) + lenCount cs (p.length + 1)
      · rw [if_pos hfound]
        have hk : 2 * Bits.toNatMSB p + (if b then 1 else 0) - firstCode cs (p.length + 1) <
            lenCount cs (p.length + 1) := by omega
        rw [ht.sorted, List.getElem?_toArray, pre_getElem cs p.length 15 _ (by omega) hk]
        have hsome : ∃ s, (symsL cs (p.length + 1))[2 * Bits.toNatMSB p + (if b then 1 else 0) -
            firstCode cs (p.length + 1)]? = some s := by
          rw [← symsL_length] at hk
          exact ⟨_, List.getElem?_eq_getElem hk⟩
        obtain ⟨s, hs⟩ := hsome
        rw [hs]
        obtain ⟨c, hc, h1, h2, h3⟩ := assignVals_kth cs (nextFn cs) _ _ _ hs
        refine Or.inl ⟨c, hc, rest, ?_, by rw [h1]⟩
        have hcs : ∃ c' ∈ cs, c'.len = p.length + 1 := by
          have : c.len ∈ (assignVals cs (nextFn cs)).map (·.len) := List.mem_map.2 ⟨c, hc, rfl⟩
          rw [(assignVals_shape cs (nextFn cs)).2, h2] at this
          obtain ⟨c', hc', e⟩ := List.mem_map.1 this
          exact ⟨c', hc', e⟩
        obtain ⟨c', hc', e'⟩ := hcs
        have hn : nextFn cs (p.length + 1) = firstCode cs (p.length + 1) := by
          rw [← e']; exact nextFn_eq cs c' hc'
        have hv : c.val = reverseBits (Bits.toNatMSB (p ++ [b])) (p ++ [b]).length := by
          rw [h3, hn, hp', hsn]; congr 1; omega
        rw [hfull]; congr 1
        rw [Code.word, hv, h2, ← hp', ofNat_reverseBits, ofNat_toNatMSB]
      · rw [if_neg hfound]
        have hge : endCode cs (p.length + 1) ≤ Bits.toNatMSB (p ++ [b]) := by
          rw [hsn]; show firstCode cs (p.length + 1) + lenCount cs (p.length + 1) ≤ _; omega
        have hi : idx cs (p.length + 1) = idx cs p.length + lenCount cs (p.length + 1) := idx_succ _ _
        have hnot : ¬ idx cs p.length + lenCount cs (p.length + 1) ≥ t.sorted.size := by
          intro hh
          rw [hsz, ← hi] at hh
          obtain ⟨d, hd⟩ : ∃ d, 15 = p.length + 1 + d := ⟨15 - (p.length + 1), by omega⟩
          rw [hd] at hh
          have h1 := endCode_of_idx cs (p.length + 1) d hh
          rw [← hd, ok.full, hd, Nat.pow_add] at h1
          have h2 : endCode cs (p.length + 1) = 2 ^ (p.length + 1) :=
            (Nat.eq_of_mul_eq_mul_right (Nat.two_pow_pos d) h1).symm
          have h3 := toNatMSB_lt (p ++ [b])
          rw [hp'] at h3
          omega
        rw [if_neg hnot]
        have := ih (p ++ [b]) rest (by rw [hp']; omega) (by
          intro l hl
          rw [hp'] at hl
          rcases Nat.lt_or_ge l (p.length + 1) with h | h
          · rw [List.take_append_of_le_length (by omega)]
            exact inv l (by omega)
          · have : l = (p ++ [b]).length := by rw [hp']; omega
            rw [this, List.take_length, hp']; exact hge)
        rw [hp', hsn, firstCode_succ' cs (p.length + 1), hi, ← hfull] at this
        exact this

theorem decode_res (t : HuffTab) (cs : List Code) (ht : TabOK t cs) (ok : CodesOK cs) (bits : Bits) :
    DecRes cs bits (t.decode bits) := by
  have := decodeAux_inv t cs ht ok 15 [] bits rfl (by
    intro l hl
    have : l = 0 := by simpa using hl
    subst this
    rw [endCode_zero cs (fun c hc => (ok.lens c hc).1)]; exact Nat.zero_le _)
  rw [firstCode_eq_zero cs _ (fun c hc => by have := (ok.lens c hc).1; simpa using this)] at this
  exact this

/-! ### `GeneratePrefixes` on lengths `≤ 15` -/

theorem endCode_scale (cs : List Code) (M m : Nat) (h : ∀ c ∈ cs, c.len ≤ M) (hm : M ≤ m) :
    endCode cs m = 2 ^ (m - M) * endCode cs M := by
  rw [← kraftScaled_eq_endCode cs m (fun c hc => Nat.le_trans (h c hc) hm),
    ← kraftScaled_eq_endCode cs M h]
  apply kraftScaled_scale _ _ _ _ hm
  intro l hl
  obtain ⟨c, hc, rfl⟩ := List.mem_map.1 hl
  exact h c hc

theorem maxB_le (cs : List Code) (h : ∀ c ∈ cs, c.len ≤ 15) : maxB cs ≤ 15 :=
  foldl_max_le cs 0 15 (Nat.zero_le _) h

theorem endCode_maxB_iff (cs : List Code) (h : ∀ c ∈ cs, c.len ≤ 15) :
    endCode cs (maxB cs) = 2 ^ maxB cs ↔ endCode cs 15 = 2 ^ 15 := by
  have hM := maxB_le cs h
  have e := endCode_scale cs (maxB cs) 15 (fun c hc => (le_foldl_max cs 0).2 c hc) hM
  have e2 : (2:Nat) ^ 15 = 2 ^ (15 - maxB cs) * 2 ^ maxB cs := by
    rw [← Nat.pow_add]; congr 1; omega
  rw [e, e2]
  constructor
  · intro h; rw [h]
  · intro h; exact Nat.eq_of_mul_eq_mul_left (Nat.two_pow_pos _) h

theorem gp_fail (cs : List Code) (hv : ValidLens cs) (h15 : ∀ c ∈ cs, c.len ≤ 15)
    (h : endCode cs 15 ≠ 2 ^ 15) : generatePrefixes cs = .error .degenerate := by
  rw [(gp_valid cs hv).2, if_pos]
  intro h'; exact h ((endCode_maxB_iff cs h15).1 h')

theorem gp_ok (cs : List Code) (hv : ValidLens cs) (h15 : ∀ c ∈ cs, c.len ≤ 15)
    (h : endCode cs 15 = 2 ^ 15) :
    generatePrefixes cs = .ok (assignVals cs (nextFn cs)) ∧ GoodCodes (assignVals cs (nextFn cs)) := by
  have hr : generatePrefixes cs = .ok (assignVals cs (nextFn cs)) := by
    rw [(gp_valid cs hv).2, if_neg]
    intro h'; exact h' ((endCode_maxB_iff cs h15).2 h)
  refine ⟨hr, ?_⟩
  have hsh := (assignVals_shape cs (nextFn cs)).2
  have hmem : ∀ x ∈ assignVals cs (nextFn cs), ∃ y ∈ cs, y.len = x.len := by
    intro x hx
    have : x.len ∈ (assignVals cs (nextFn cs)).map (·.len) := List.mem_map.2 ⟨x, hx, rfl⟩
    rw [hsh] at this
    exact List.mem_map.1 this
  constructor
  · have := congrArg List.length hsh
    rw [List.length_map, List.length_map] at this
    rw [this]; exact hv.1
  · intro c hc
    obtain ⟨y, hy, e⟩ := hmem c hc
    rw [← e]; exact hv.2.2 y hy
  · exact assignVals_val_lt _ _
  · exact generatePrefixes_prefixFree cs _ hv hr
  · rw [hsh]; exact (generatePrefixes_ok_iff cs hv).1 ⟨_, hr⟩

/-! ### the table decoder -/

/-- the counting decoder's tables for a code list. -/
def tabOf (cs : List Code) : HuffTab :=
  { count := ((List.range 16).map (lenCount cs)).toArray, sorted := (pre cs 15).toArray }

theorem tabOf_ok (cs : List Code) : TabOK (tabOf cs) cs := by
  constructor
  · intro l h1 h15
    have : l < 16 := by omega
    simp [tabOf, this]
  · rfl

theorem chunks_ne (r : List Code) (hg : GoodCodes r) : (Decoder.init r).chunks.size ≠ 0 := by
  obtain ⟨c, hc⟩ : ∃ c, c ∈ r := by
    have := hg.two
    cases r with
    | nil => simp at this
    | cons c _ => exact ⟨c, List.mem_cons_self⟩
  have := decoder_readSymbol r hg c hc []
  intro h0
  unfold Decoder.readSymbol at this
  rw [if_pos h0] at this
  cases this

theorem impl_read_code (r : List Code) (hg : GoodCodes r) (c : Code) (hc : c ∈ r) (rest : Bits) :
    Impl.readSymbol (Decoder.init r) (c.word ++ rest) = .ok (c.sym, rest) := by
  unfold Impl.readSymbol
  rw [if_neg (chunks_ne r hg), decoder_readSymbol r hg c hc rest]

theorem impl_read_eof (cs : List Code) (ok : CodesOK cs) (hg : GoodCodes (assignVals cs (nextFn cs)))
    (bits : Bits) (hno : ∀ c ∈ assignVals cs (nextFn cs), ¬ c.word <+: bits) :
    Impl.readSymbol (Decoder.init (assignVals cs (nextFn cs))) bits = .error .unexpectedEOF := by
  unfold Impl.readSymbol
  rw [if_neg (chunks_ne _ hg)]
  have hnone : (Decoder.init (assignVals cs (nextFn cs))).readSymbol bits = none := by
    rcases Nat.lt_or_ge bits.length 15 with hlen | hlen
    · rcases decode_res (tabOf cs) cs (tabOf_ok cs) ok (bits ++ List.replicate 15 false) with
        ⟨c, hc, rest, hfull, _⟩ | ⟨_, hl, _⟩
      · have hlook := decoder_lookup _ hg c hc rest
        rw [← hfull, List.take_of_length_le (by simp; omega), toNat_append_false] at hlook
        have hclen : bits.length < c.len := by
          apply Nat.lt_of_not_le
          intro hle
          apply hno c hc
          rw [List.prefix_iff_eq_take, word_length]
          have := congrArg (List.take c.len) hfull
          rw [List.take_append_of_le_length hle, List.take_append_of_le_length
            (by rw [word_length]; exact Nat.le_refl _), ← word_length c, List.take_length] at this
          rw [word_length] at this
          exact this.symm
        unfold Decoder.readSymbol
        rw [if_neg (chunks_ne _ hg)]
        split
        · rfl
        · rw [List.take_of_length_le (by omega), hlook]
          simp only
          rw [if_neg (by omega)]
      · simp at hl; omega
    · exfalso
      rcases decode_res (tabOf cs) cs (tabOf_ok cs) ok bits with ⟨c, hc, rest, hfull, _⟩ | ⟨_, hl, _⟩
      · exact hno c hc ⟨rest, hfull.symm⟩
      · omega
  rw [hnone]

/-! ### component 1 -/

theorem mkTree_nil (m : Nat) : Impl.mkTree [] m = .ok (Decoder.init []) := rfl

theorem mkTree_one (c0 : Code) (m : Nat) :
    Impl.mkTree [c0] m =
      match generatePrefixes [c0, { sym := m, len := 1 }] with
      | .error _ => .error .corrupted
      | .ok cs => .ok (Decoder.init cs) := rfl

theorem mkTree_two (a b : Code) (rest : List Code) (m : Nat) :
    Impl.mkTree (a :: b :: rest) m =
      match generatePrefixes (a :: b :: rest) with
      | .error _ => .error .corrupted
      | .ok cs => .ok (Decoder.init cs) := rfl

theorem endCode_cons (c : Code) (cs : List Code) (m : Nat) (h : c.len ≤ m) :
    endCode (c :: cs) m = 2 ^ (m - c.len) + endCode cs m := by
  show firstCode (c :: cs) m + lenCount (c :: cs) m = 2 ^ (m - c.len) + (firstCode cs m + lenCount cs m)
  rw [lenCount_cons, firstCode]
  rcases Nat.eq_or_lt_of_le h with he | hlt
  · rw [if_neg (by omega), if_pos he, he, Nat.sub_self]; omega
  · rw [if_pos hlt, if_neg (by omega)]; omega

theorem endCode_nil (m : Nat) : endCode [] m = 0 := rfl

/-- the counting decoder of a single one-bit code. -/
theorem decode_one (t : HuffTab) (s0 : Nat) (hc : t.count.getD 1 0 = 1) (hs : t.sorted = #[s0]) :
    t.decode [] = .eof ∧ (∀ rest, t.decode (false :: rest) = .sym s0 rest) ∧
      (∀ rest, t.decode (true :: rest) = .invalid) := by
  refine ⟨?_, fun rest => ?_, fun rest => ?_⟩
  · show t.decodeAux (14 + 1) 1 0 0 0 [] = _
    rw [decodeAux_nil, hs]; rfl
  · show t.decodeAux (14 + 1) 1 0 0 0 (false :: rest) = _
    rw [decodeAux_cons, hc, hs]; rfl
  · show t.decodeAux (14 + 1) 1 0 0 0 (true :: rest) = _
    rw [decodeAux_cons, hc, hs]; rfl

theorem sym_of_assign (cs : List Code) (next : Nat → Nat) (c : Code) (hc : c ∈ assignVals cs next) :
    ∃ c' ∈ cs, c'.sym = c.sym := by
  have : c.sym ∈ (assignVals cs next).map (·.sym) := List.mem_map.2 ⟨c, hc, rfl⟩
  rw [(assignVals_shape cs next).1] at this
  exact List.mem_map.1 this

/-- decoders agree whenever the code list is complete. -/
theorem treeRel_of (t : HuffTab) (cs : List Code) (m : Nat) (ht : TabOK t cs) (ok : CodesOK cs)
    (hg : GoodCodes (assignVals cs (nextFn cs))) (hsym : ∀ c ∈ cs, c.sym < m) :
    TreeRel m (Decoder.init (assignVals cs (nextFn cs))) t := by
  intro bits
  rcases decode_res t cs ht ok bits with ⟨c, hc, rest, hfull, hdec⟩ | ⟨hdec, _, hno⟩
  · rw [hdec, hfull]
    obtain ⟨c', hc', e⟩ := sym_of_assign cs _ c hc
    exact ⟨impl_read_code _ hg c hc rest, by rw [← e]; exact hsym c' hc'⟩
  · rw [hdec]
    exact impl_read_eof cs ok hg bits hno

theorem treeEquiv : TreeEquiv := by
  intro lens m hm h15
  have hcodes := codesOf_lens lens h15
  have hvi := huff_valid_iff lens
  have htab := huff_tabOK lens
  have hinc : symsIncreasing (codesOf lens) = true := codesFrom_increasing lens 0
  have hsym : ∀ c ∈ codesOf lens, c.sym < m := by
    intro c hc
    have := (codesFrom_mem lens 0 c hc).2.1
    omega
  generalize codesOf lens = cs at *
  match cs with
  | [] =>
    have hv : (⟨lens.toArray⟩ : Huff).valid = true := by
      rw [hvi, endCode_nil]; exact ⟨by omega, Or.inr (Or.inl rfl)⟩
    refine ⟨fun h => (by rw [hv] at h; cases h), fun _ => ⟨_, mkTree_nil m, ?_⟩⟩
    intro bits
    have hdec : (⟨lens.toArray⟩ : Huff).tab.decode bits = .invalid :=
      decodeAux_empty _ (by rw [htab.sorted]; rfl) _ _ _ _ _ _
    rw [hdec]
    exact Or.inl rfl
  | [c0] =>
    obtain ⟨s0, cnt0, L, v0⟩ := c0
    have hL := hcodes _ List.mem_cons_self
    have hs0 : s0 < m := hsym _ List.mem_cons_self
    simp only at hL
    have hv1 : ValidLens [⟨s0, cnt0, L, v0⟩, { sym := m, len := 1 }] := by
      refine ⟨by simp, ?_, ?_⟩
      · simp [symsIncreasing, hs0]
      · intro c hc
        simp only [List.mem_cons, List.not_mem_nil, or_false] at hc
        rcases hc with rfl | rfl <;> simp [valueBits] <;> omega
    have h15' : ∀ c ∈ [(⟨s0, cnt0, L, v0⟩ : Code), { sym := m, len := 1 }], c.len ≤ 15 := by
      intro c hc
      simp only [List.mem_cons, List.not_mem_nil, or_false] at hc
      rcases hc with rfl | rfl <;> simp <;> omega
    have he1 : endCode [(⟨s0, cnt0, L, v0⟩ : Code)] 15 = 2 ^ (15 - L) := by
      rw [endCode_cons _ _ _ hL.2, endCode_nil]; rfl
    have he2 : endCode [(⟨s0, cnt0, L, v0⟩ : Code), { sym := m, len := 1 }] 15 = 2 ^ (15 - L) + 2 ^ 14 := by
      rw [endCode_cons _ _ _ hL.2, endCode_cons _ _ _ (by simp), endCode_nil]; rfl
    have hlt : 2 ^ (15 - L) < 2 ^ 15 := Nat.pow_lt_pow_right (by omega) (by omega)
    have hlc : lenCount [(⟨s0, cnt0, L, v0⟩ : Code)] 1 = if L = 1 then 1 else 0 := by
      rw [lenCount_cons, lenCount_nil]; rfl
    rw [he1, hlc] at hvi
    have hviff : (⟨lens.toArray⟩ : Huff).valid = true ↔ L = 1 := by
      rw [hvi]
      constructor
      · rintro ⟨_, h | h | ⟨_, h⟩⟩
        · omega
        · simp at h
        · by_cases h1 : L = 1
          · exact h1
          · rw [if_neg h1] at h; omega
      · intro h1
        exact ⟨by omega, Or.inr (Or.inr ⟨rfl, by rw [if_pos h1]⟩)⟩
    constructor
    · intro hv
      have hL1 : L ≠ 1 := by
        intro h1; rw [hviff.2 h1] at hv; cases hv
      have hne : endCode [(⟨s0, cnt0, L, v0⟩ : Code), { sym := m, len := 1 }] 15 ≠ 2 ^ 15 := by
        rw [he2]
        have : 2 ^ (15 - L) ≤ 2 ^ 13 := Nat.pow_le_pow_right (by omega) (by omega)
        omega
      rw [mkTree_one, gp_fail _ hv1 h15' hne]
    · intro hv
      have hL1 : L = 1 := hviff.1 hv
      subst hL1
      have hfull : endCode [(⟨s0, cnt0, 1, v0⟩ : Code), { sym := m, len := 1 }] 15 = 2 ^ 15 := by
        rw [he2]
      have ok : CodesOK [(⟨s0, cnt0, 1, v0⟩ : Code), { sym := m, len := 1 }] :=
        ⟨fun c hc => ⟨(hv1.2.2 c hc).1, h15' c hc⟩, hfull⟩
      obtain ⟨hr, hg⟩ := gp_ok _ hv1 h15' hfull
      have hrr : assignVals [(⟨s0, cnt0, 1, v0⟩ : Code), { sym := m, len := 1 }]
          (nextFn [(⟨s0, cnt0, 1, v0⟩ : Code), { sym := m, len := 1 }]) =
          [⟨s0, cnt0, 1, 0⟩, ⟨m, 0, 1, 1⟩] := rfl
      rw [hrr] at hr hg
      refine ⟨_, by rw [mkTree_one, hr], ?_⟩
      obtain ⟨d1, d2, d3⟩ := decode_one (⟨lens.toArray⟩ : Huff).tab s0
        (by rw [htab.count 1 (by omega) (by omega), hlc]; rfl) (by rw [htab.sorted]; rfl)
      intro bits
      match bits with
      | [] =>
        rw [d1]
        have := impl_read_eof _ ok (by rw [hrr]; exact hg) [] (by
          intro c hc hpre
          have h1 := hpre.length_le
          rw [word_length] at h1
          rw [hrr] at hc
          have := (hg.lens c hc).1
          simp at h1; omega)
        rw [hrr] at this
        exact this
      | false :: rest =>
        rw [d2]
        exact ⟨impl_read_code _ hg ⟨s0, cnt0, 1, 0⟩ List.mem_cons_self rest, hs0⟩
      | true :: rest =>
        rw [d3]
        exact Or.inr ⟨m, rest,
          impl_read_code _ hg ⟨m, 0, 1, 1⟩ (List.mem_cons_of_mem _ List.mem_cons_self) rest,
          Nat.le_refl _⟩
  | a :: b :: rest =>
    have hv2 : ValidLens (a :: b :: rest) := by
      refine ⟨by simp, hinc, fun c hc => ?_⟩
      have := hcodes c hc
      simp only [valueBits]; omega
    have h15' : ∀ c ∈ a :: b :: rest, c.len ≤ 15 := fun c hc => (hcodes c hc).2
    have hviff : (⟨lens.toArray⟩ : Huff).valid = true ↔ endCode (a :: b :: rest) 15 = 2 ^ 15 := by
      rw [hvi]
      simp only [List.length_cons]
      constructor
      · rintro ⟨_, h | h | ⟨h, _⟩⟩
        · exact h
        · omega
        · omega
      · intro h; exact ⟨by omega, Or.inl h⟩
    constructor
    · intro hv
      have hne : endCode (a :: b :: rest) 15 ≠ 2 ^ 15 := by
        intro h; rw [hviff.2 h] at hv; cases hv
      rw [mkTree_two, gp_fail _ hv2 h15' hne]
    · intro hv
      have hfull := hviff.1 hv
      obtain ⟨hr, hg⟩ := gp_ok _ hv2 h15' hfull
      exact ⟨_, by rw [mkTree_two, hr], treeRel_of _ _ m htab ⟨hcodes, hfull⟩ hg hsym⟩

/-! ### component 1b: the fixed trees -/

/-- the code lengths of the fixed literal/length code. -/
def litLens : List Nat :=
  List.replicate 144 8 ++ List.replicate 112 9 ++ List.replicate 24 7 ++ List.replicate 8 8

/-- the code list `Impl.fixedLit` is built from. -/
def litCodes : List Code := (List.range 288).map fun i =>
  { sym := i, len := if i < 144 then 8 else if i < 256 then 9 else if i < 280 then 7 else 8 }

def distCodes : List Code := (List.range 32).map fun i => { sym := i, len := 5 }

set_option maxRecDepth 100000 in
theorem litCodes_eq : codesOf litLens = litCodes := by rfl

set_option maxRecDepth 100000 in
theorem litCodes_deg : Impl.handleDegenerate litCodes 288 = litCodes := by rfl

set_option maxRecDepth 100000 in
theorem lit_valid : (⟨litLens.toArray⟩ : Huff).valid = true := by rfl

set_option maxRecDepth 100000 in
theorem distCodes_eq : codesOf (List.replicate 32 5) = distCodes := by rfl

set_option maxRecDepth 100000 in
theorem distCodes_deg : Impl.handleDegenerate distCodes 32 = distCodes := by rfl

set_option maxRecDepth 100000 in
theorem dist_valid : (⟨(List.replicate 32 5).toArray⟩ : Huff).valid = true := by rfl

theorem litLens_le : ∀ l ∈ litLens, l ≤ 15 := by
  intro l hl
  simp only [litLens, List.mem_append, List.mem_replicate] at hl
  omega

theorem litLens_length : litLens.length ≤ 288 := by
  simp only [litLens, List.length_append, List.length_replicate]; omega

theorem implFixedLit_of (d : Decoder) (h : Impl.mkTree litCodes 288 = .ok d) : Impl.fixedLit = d := by
  unfold Impl.mkTree at h
  rw [litCodes_deg] at h
  unfold litCodes at h
  unfold Impl.fixedLit
  split
  · rename_i cs heq
    rw [heq] at h
    exact Except.ok.inj h
  · rename_i e heq
    rw [heq] at h
    cases h

theorem implFixedDist_of (d : Decoder) (h : Impl.mkTree distCodes 32 = .ok d) : Impl.fixedDist = d := by
  unfold Impl.mkTree at h
  rw [distCodes_deg] at h
  unfold distCodes at h
  unfold Impl.fixedDist
  split
  · rename_i cs heq
    rw [heq] at h
    exact Except.ok.inj h
  · rename_i e heq
    rw [heq] at h
    cases h

theorem specFixedLit_eq : Flate.fixedLit = ⟨litLens.toArray⟩ := by
  unfold Flate.fixedLit litLens; rfl

theorem specFixedDist_eq : Flate.fixedDist = ⟨(List.replicate 32 5).toArray⟩ := by
  unfold Flate.fixedDist; rfl

theorem fixedEquiv : FixedEquiv := by
  constructor
  · obtain ⟨d, hd, hrel⟩ := (treeEquiv litLens 288 litLens_length litLens_le).2 lit_valid
    rw [litCodes_eq] at hd
    rw [implFixedLit_of d hd, specFixedLit_eq]
    exact hrel
  · obtain ⟨d, hd, hrel⟩ := (treeEquiv (List.replicate 32 5) 32 (by rw [List.length_replicate]; omega)
      (by intro l hl; simp only [List.mem_replicate] at hl; omega)).2 dist_valid
    rw [distCodes_eq] at hd
    rw [implFixedDist_of d hd, specFixedDist_eq]
    exact hrel

end Compress.Proofs.FlateRefine
