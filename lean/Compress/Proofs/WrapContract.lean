/-
The wrappers of wrap.go honour the compress.BufferedReader contract: the cache
invariant of `bytesReader`/`stringReader`, what each method returns in terms of the
embedded reader's CURRENT position, and the contract along every sequence of wrapper
calls, direct reads and owner Seeks.
-/
import Compress.Prefix.Wrap

namespace Compress.Proofs.Wrap
open Compress Compress.Prefix Compress.Prefix.Wrap

/-! ### bytes.Reader facts -/

@[simp] theorem seek_cur0 (r : Rd) : r.seek 0 1 = (r, (r.i : Int), none) := by
  simp [Rd.seek]

theorem seek_cur_nat (r : Rd) (n : Nat) : r.seek (n : Int) 1 = ({ r with i := r.i + n }, ((r.i + n : Nat) : Int), none) := by
  have h : ¬ ((r.i : Int) + (n : Int) < 0) := by omega
  simp only [Rd.seek, h, if_false]
  have : ((r.i : Int) + (n : Int)).toNat = r.i + n := by omega
  rw [this]; simp

theorem rest_length (r : Rd) : r.rest.length = r.len := by simp [Rd.rest, Rd.len]

/-! ### the cache invariant -/

/-- **The cache invariant.**  Whatever the embedded reader's position is, the cache
    `buf = arr[bOff : bOff+bLen]` holds the bytes `s[pos : pos+bLen]` of the (immutable)
    contents.  It does not mention the read index `i`: reads, Discards and Seeks cannot
    break it; `update` decides from `i - pos` alone which part of it is still usable. -/
structure CInv (w : CRd) : Prop where
  alen : w.arr.length = Wrap.arrLen
  win : w.bOff + w.bLen ≤ Wrap.arrLen
  posNN : 0 ≤ w.pos
  fits : w.bLen ≤ w.rd.s.length - w.pos.toNat
  cache : w.buf = (w.rd.s.drop w.pos.toNat).take w.bLen

theorem cinv_fresh (rd : Rd) : CInv (CRd.fresh rd) := by
  refine ⟨by simp [CRd.fresh], by simp [CRd.fresh], by simp [CRd.fresh], by simp [CRd.fresh], ?_⟩
  simp [CRd.fresh, CRd.buf]

/-- the invariant depends on the contents, not on the read index. -/
theorem cinv_move {w : CRd} (h : CInv w) (rd' : Rd) (hs : rd'.s = w.rd.s) : CInv { w with rd := rd' } := by
  obtain ⟨h1, h2, h3, h4, h5⟩ := h
  exact ⟨h1, h2, h3, by simpa [hs] using h4, by simpa [CRd.buf, hs] using h5⟩

/-- what is usable of the cache at the current position: `len(buf)` after `update`. -/
def cached (w : CRd) : Nat := w.update.bLen

theorem update_rd (w : CRd) : w.update.rd = w.rd := by
  simp only [CRd.update, seek_cur0]
  split <;> rfl

theorem update_pos (w : CRd) : w.update.pos = (w.rd.i : Int) := by
  simp only [CRd.update, seek_cur0]
  split <;> rfl

theorem update_arr (w : CRd) : w.update.arr = w.arr := by
  simp only [CRd.update, seek_cur0]
  split <;> rfl

/-- `update` keeps the invariant and synchronises `pos` with the read index: afterwards
    the cache IS the next `bLen` unread bytes. -/
theorem update_inv {w : CRd} (h : CInv w) :
    CInv w.update ∧ w.update.buf = w.rd.rest.take w.update.bLen ∧ w.update.bLen ≤ w.rd.len := by
  obtain ⟨h1, h2, h3, h4, h5⟩ := h
  simp only [CRd.update, seek_cur0]
  split
  · rename_i hc
    obtain ⟨c1, c2⟩ := hc
    have hoff : ((w.rd.i : Int) - w.pos).toNat = w.rd.i - w.pos.toNat := by omega
    have hi : w.pos.toNat + (w.rd.i - w.pos.toNat) = w.rd.i := by omega
    have hb : ((w.arr.drop (w.bOff + ((w.rd.i : Int) - w.pos).toNat)).take (w.bLen - ((w.rd.i : Int) - w.pos).toNat))
        = (w.rd.s.drop w.rd.i).take (w.bLen - ((w.rd.i : Int) - w.pos).toNat) := by
      have := congrArg (List.drop ((w.rd.i : Int) - w.pos).toNat) h5
      simp only [CRd.buf, List.drop_take, List.drop_drop] at this
      rw [hoff] at this ⊢
      rw [hi] at this
      exact this
    refine ⟨⟨h1, by simp only; omega, by simp only; omega, by simp only; omega, ?_⟩, ?_, by simp only [Rd.len]; omega⟩
    · simp only [CRd.buf, Int.toNat_natCast]
      exact hb
    · simp only [CRd.buf, Rd.rest]
      exact hb
  · refine ⟨⟨h1, by simp [arrLen], by simp only; omega, by simp, by simp [CRd.buf]⟩, by simp [CRd.buf], by simp⟩

theorem cached_update (w : CRd) : cached w.update = cached w := by
  have h1 := update_rd w
  have h2 := update_pos w
  show (CRd.update (CRd.update w)).bLen = (CRd.update w).bLen
  generalize w.update = u at h1 h2
  simp only [CRd.update, seek_cur0]
  have : ((u.rd.i : Int) - u.pos) = 0 := by rw [h2, h1]; omega
  rw [this]
  by_cases hb : 0 < u.bLen
  · simp [hb]
  · have : u.bLen = 0 := by omega
    simp [this]

theorem cached_synced (u : CRd) (hp : u.pos = (u.rd.i : Int)) : cached u = u.bLen := by
  simp only [cached, CRd.update, seek_cur0]
  have : ((u.rd.i : Int) - u.pos) = 0 := by omega
  rw [this]
  by_cases hb : 0 < u.bLen
  · simp [hb]
  · have : u.bLen = 0 := by omega
    simp [this]

theorem take_length_take {α} (l : List α) (m : Nat) : l.take (l.take m).length = l.take m := by
  rw [List.length_take]
  rcases Nat.le_total m l.length with h | h
  · rw [Nat.min_eq_left h]
  · rw [Nat.min_eq_right h, List.take_of_length_le h, List.take_of_length_le (Nat.le_refl _)]

/-! ### what each method returns -/

/-- **Buffered()** re-synchronises the cache and answers its usable length, which is at most
    what is left to read. -/
theorem buffered_spec {w : CRd} (h : CInv w) :
    w.buffered.1 = w.update ∧ w.buffered.2 = cached w ∧ cached w ≤ w.rd.len := by
  obtain ⟨_, _, h3⟩ := update_inv h
  have hr := update_rd w
  refine ⟨rfl, ?_, h3⟩
  simp only [CRd.buffered, cached, hr]
  have : ¬ (w.rd.len > w.update.bLen) ∨ w.rd.len = w.update.bLen ∨ w.rd.len > w.update.bLen := by omega
  split <;> omega

/-- **Peek(n)**, `n ≤ 512`: exactly the next `min n remaining` bytes at the embedded reader's
    current position, `io.EOF` iff fewer than `n` remain; the read index does not move; the
    invariant is kept; afterwards at least the returned bytes (and whatever was usable before)
    are cached. -/
theorem peek_spec {w : CRd} (h : CInv w) (n : Nat) (hn : n ≤ arrLen) :
    (w.peek n).2.1 = w.rd.rest.take n ∧
    (w.peek n).2.2 = (if w.rd.len < n then some WErr.eof else none) ∧
    (w.peek n).1.rd = w.rd ∧ CInv (w.peek n).1 ∧
    min n w.rd.len ≤ cached (w.peek n).1 ∧ cached w ≤ cached (w.peek n).1 := by
  obtain ⟨hu, hbuf, hle⟩ := update_inv h
  have hr := update_rd w
  have hp := update_pos w
  have hcu : cached w.update = cached w := cached_update w
  have hlen : w.rd.rest.length = w.rd.len := rest_length _
  simp only [CRd.peek, if_neg (Nat.not_lt.mpr hn)]
  generalize w.update = u at hu hbuf hle hr hp hcu
  obtain ⟨urd, upos, uarr, uoff, ulen⟩ := u
  simp only at hr hp hle
  subst hr
  subst hp
  have hcw : cached w = ulen := by rw [← hcu]; exact cached_synced _ rfl
  have hlr : w.rd.len = w.rd.s.length - w.rd.i := rfl
  by_cases hge : ulen ≥ n
  · simp only [hge, if_true]
    refine ⟨?_, ?_, (by first | rfl | trivial), hu, ?_, by omega⟩
    · rw [hbuf, List.take_take, Nat.min_eq_left hge]
    · rw [if_neg (by omega)]
    · rw [cached_synced { rd := w.rd, pos := (w.rd.i : Int), arr := uarr, bOff := uoff, bLen := ulen } rfl]; simp only; omega
  · simp only [hge, if_false]
    have hpos : ¬ ((w.rd.i : Int) < 0) := by omega
    by_cases hend : w.rd.i ≥ w.rd.s.length
    · -- at or beyond the end: ReadAt answers (0, io.EOF)
      have hl0 : w.rd.len = 0 := by simp only [Rd.len]; omega
      have hrest : w.rd.rest = [] := by simp only [Rd.rest]; exact List.drop_of_length_le hend
      have hn0 : 0 < n := by omega
      simp only [Rd.readAt, hpos, if_false, Int.toNat_natCast, hend, if_true, List.length_nil, List.nil_append,
        List.drop_zero, List.take_zero, hn0]
      refine ⟨by rw [hrest]; simp, by rw [hl0]; simp [hn0], (by first | rfl | trivial), ?_, ?_, ?_⟩
      · obtain ⟨a1, a2, a3, a4, a5⟩ := hu
        exact ⟨a1, by simp [arrLen], a3, by simp, by simp [CRd.buf]⟩
      · rw [cached_synced { rd := w.rd, pos := (w.rd.i : Int), arr := uarr, bOff := 0, bLen := 0 } rfl]; simp only; omega
      · rw [cached_synced { rd := w.rd, pos := (w.rd.i : Int), arr := uarr, bOff := 0, bLen := 0 } rfl]; simp only; omega
    · simp only [Rd.readAt, hpos, if_false, Int.toNat_natCast, hend, if_false]
      obtain ⟨bs, hbs⟩ : ∃ bs, (w.rd.s.drop w.rd.i).take arrLen = bs := ⟨_, rfl⟩
      simp only [hbs]
      have hbl : bs.length = min arrLen w.rd.len := by
        rw [← hbs, List.length_take, List.length_drop]; rfl
      have halen : uarr.length = arrLen := hu.alen
      have htk : ∀ k, k ≤ bs.length → (bs ++ uarr.drop bs.length).take k = w.rd.rest.take k := by
        intro k hk
        rw [List.take_append_of_le_length hk, ← hbs, List.take_take, Nat.min_eq_left (by omega)]
        rfl
      have hinv : CInv { rd := w.rd, pos := (w.rd.i : Int), arr := bs ++ uarr.drop bs.length, bOff := 0, bLen := bs.length } := by
        refine ⟨?_, by simp only; omega, by simp only; omega, by simp only [Int.toNat_natCast, Rd.len] at *; omega, ?_⟩
        · simp only [List.length_append, List.length_drop, halen]; omega
        · simp only [CRd.buf, List.drop_zero, Int.toNat_natCast]
          rw [htk _ (Nat.le_refl _), ← hbs]
          simp only [Rd.rest]
      have hc : cached { rd := w.rd, pos := (w.rd.i : Int), arr := bs ++ uarr.drop bs.length, bOff := 0, bLen := bs.length } = bs.length :=
        cached_synced _ rfl
      by_cases hlt : bs.length < n
      · simp only [hlt, if_true]
        have hlen' : w.rd.len < n := by omega
        refine ⟨?_, ?_, (by first | rfl | trivial), hinv, by rw [hc]; omega, by rw [hc]; omega⟩
        · rw [htk _ (Nat.le_refl _), List.take_of_length_le (by omega), List.take_of_length_le (by omega)]
        · have : bs.length < arrLen := by omega
          simp only [this, if_true, hlen']
      · simp only [hlt, if_false]
        refine ⟨htk _ (by omega), by rw [if_neg (by omega)], (by first | rfl | trivial), hinv, by rw [hc]; omega, by rw [hc]; omega⟩

/-- **Discard(n)** advances the read index by `min n remaining` and reports `io.EOF` iff it
    could not skip `n`; the cache is not touched. -/
theorem discard_spec (w : CRd) (n : Nat) :
    w.discard n = ({ w with rd := { w.rd with i := w.rd.i + min n w.rd.len } }, min n w.rd.len,
                   if n > w.rd.len then some WErr.eof else none) := by
  simp only [CRd.discard]
  by_cases hgt : n > w.rd.len
  · simp only [hgt, if_true, seek_cur_nat, Nat.min_eq_right (Nat.le_of_lt hgt)]
  · simp only [hgt, if_false, seek_cur_nat, Nat.min_eq_left (Nat.le_of_not_gt hgt)]

/-- moving the read index forward by `k` leaves at least `cached - k` usable bytes. -/
theorem cached_advance (w : CRd) (k : Nat) (rd' : Rd) (hi : rd'.i = w.rd.i + k) :
    cached w - k ≤ cached { w with rd := rd' } := by
  simp only [cached, CRd.update, seek_cur0, hi]
  split <;> split <;> simp only <;> omega

/-! ### every interleaving -/

/-- one call on a `bytesReader`/`stringReader` or on the *bytes.Reader it embeds: the
    wrapper's methods, the direct reads prefix.Reader performs, and a Seek by the owner. -/
inductive Op where
  | buffered | peek (n : Nat) | discard (n : Nat)
  | read (n : Nat) | readByte
  | seek (off : Int) (whence : Nat)
deriving Repr

/-- what a call returns. -/
inductive Ob where
  | num (n : Nat)
  | bytes (bs : List UInt8) (e : Option WErr)
  | count (n : Nat) (e : Option WErr)
  | byte (b : Option UInt8) (e : Option WErr)
  | at (a : Int) (e : Option WErr)
deriving Repr, DecidableEq

def step (w : CRd) : Op → CRd × Ob
  | .buffered => let (w, n) := w.buffered; (w, .num n)
  | .peek n => let (w, bs, e) := w.peek n; (w, .bytes bs e)
  | .discard n => let (w, k, e) := w.discard n; (w, .count k e)
  | .read n => let (w, bs, e) := w.read n; (w, .bytes bs e)
  | .readByte => let (w, b, e) := w.readByte; (w, .byte b e)
  | .seek off wh => let (w, a, e) := w.extSeek off wh; (w, .at a e)

def trace : CRd → List Op → List (Op × Ob)
  | _, [] => []
  | w, op :: ops => (op, (step w op).2) :: trace (step w op).1 ops

/-- the contract, told by a bare *bytes.Reader `r` (no cache): what the call must return
    when the embedded reader stands at `r.i`. -/
def Conforms (r : Rd) : Op → Ob → Prop
  | .buffered, .num b => b ≤ r.len
  | .peek n, .bytes bs e =>
      if n ≤ arrLen then bs = r.rest.take n ∧ e = (if r.len < n then some .eof else none)
      else bs = [] ∧ e = some .shortBuffer
  | .discard n, .count k e => k = min n r.len ∧ e = (if n > r.len then some .eof else none)
  | .read n, .bytes bs e => bs = (r.read n).2.1 ∧ e = (r.read n).2.2
  | .readByte, .byte b e => b = r.readByte.2.1 ∧ e = r.readByte.2.2
  | .seek off wh, .at a e => a = (r.seek off wh).2.1 ∧ e = (r.seek off wh).2.2
  | _, _ => False

/-- where the call leaves the bare reader. -/
def refNext (r : Rd) : Op → Rd
  | .buffered => r
  | .peek _ => r
  | .discard n => { r with i := r.i + min n r.len }
  | .read n => (r.read n).1
  | .readByte => r.readByte.1
  | .seek off wh => (r.seek off wh).1

def ContractOK : Rd → List (Op × Ob) → Prop
  | _, [] => True
  | r, (op, ob) :: t => Conforms r op ob ∧ ContractOK (refNext r op) t

theorem read_s (r : Rd) (n : Nat) : (r.read n).1.s = r.s := by
  simp only [Rd.read]; split <;> rfl

theorem readByte_s (r : Rd) : r.readByte.1.s = r.s := by
  simp only [Rd.readByte]; split <;> rfl

theorem seek_s (r : Rd) (off : Int) (wh : Nat) : (r.seek off wh).1.s = r.s := by
  simp only [Rd.seek]
  split
  · rfl
  · split <;> rfl

/-- one step: the observation conforms, the embedded reader moves as the bare reader does,
    the invariant is kept. -/
theorem step_ok {w : CRd} (h : CInv w) (op : Op) :
    Conforms w.rd op (step w op).2 ∧ (step w op).1.rd = refNext w.rd op ∧ CInv (step w op).1 := by
  cases op with
  | buffered =>
    obtain ⟨b1, b2, b3⟩ := buffered_spec h
    refine ⟨?_, ?_, ?_⟩
    · show w.buffered.2 ≤ w.rd.len
      omega
    · show w.buffered.1.rd = w.rd
      rw [b1]; exact update_rd w
    · show CInv w.buffered.1
      rw [b1]; exact (update_inv h).1
  | peek n =>
    by_cases hn : n ≤ arrLen
    · obtain ⟨p1, p2, p3, p4, _, _⟩ := peek_spec h n hn
      exact ⟨by simp only [Conforms, step, hn, if_true]; exact ⟨p1, p2⟩, p3, p4⟩
    · have hp : w.peek n = (w, [], some .shortBuffer) := by simp [CRd.peek, Nat.lt_of_not_le hn]
      simp only [Conforms, step, hp, hn, if_false, refNext]
      exact ⟨by simp, by simp, h⟩
  | discard n =>
    simp only [step, discard_spec, Conforms, refNext]
    exact ⟨by simp, by simp, cinv_move h _ rfl⟩
  | read n =>
    simp only [step, CRd.read, Conforms, refNext]
    exact ⟨by simp, by simp, cinv_move h _ (read_s _ _)⟩
  | readByte =>
    simp only [step, CRd.readByte, Conforms, refNext]
    exact ⟨by simp, by simp, cinv_move h _ (readByte_s _)⟩
  | seek off wh =>
    simp only [step, CRd.extSeek, Conforms, refNext]
    exact ⟨by simp, by simp, cinv_move h _ (seek_s _ _ _)⟩

theorem trace_ok : ∀ (ops : List Op) (w : CRd), CInv w → ContractOK w.rd (trace w ops)
  | [], _, _ => trivial
  | op :: ops, w, h => by
    obtain ⟨s1, s2, s3⟩ := step_ok h op
    refine ⟨s1, ?_⟩
    rw [← s2]
    exact trace_ok ops _ s3

/-- **The wrapper contract, for every interleaving.**  Start a `bytesReader` (or
    `stringReader`) on a reader at any position and apply ANY sequence of `Buffered`, `Peek`,
    `Discard`, direct `Read`/`ReadByte` on the embedded reader and owner `Seek`s: every
    answer is the one a cache-less reader at the current position dictates - `Peek n`
    (n ≤ 512) the next `min n remaining` bytes with io.EOF iff fewer than `n` remain
    (io.ErrShortBuffer beyond 512), `Discard n` advances by `min n remaining`,
    `Buffered ≤ remaining` - and the reads and Seeks see the position the wrapper left. -/
theorem wrapper_contract (rd : Rd) (ops : List Op) : ContractOK rd (trace (CRd.fresh rd) ops) :=
  trace_ok ops _ (cinv_fresh rd)

end Compress.Proofs.Wrap
