/-
Block round trip on the explicit block bits (C16).
-/
import Compress.Proofs.MetaParts

namespace Compress.Proofs.Meta
open Compress Compress.Meta


theorem toBytes_append8 (l rest : Bits) (hl : l.length = 8) :
    Bits.toBytes (l ++ rest) = UInt8.ofNat (Bits.toNat l) :: Bits.toBytes rest := by
  match l, hl with
  | [b0, b1, b2, b3, b4, b5, b6, b7], _ => exact toBytes_cons8 _ _ _ _ _ _ _ _ rest

theorem toBytes_ofByte_append (b : UInt8) (rest : Bits) :
    Bits.toBytes (Bits.ofByte b ++ rest) = b :: Bits.toBytes rest := by
  have e : UInt8.ofNat (Bits.toNat (Bits.ofByte b)) = b := by
    simp only [Bits.ofByte, toNat_ofNat]
    rw [Nat.mod_eq_of_lt (UInt8.toNat_lt b), UInt8.ofNat_toNat]
  rw [toBytes_append8 _ _ (length_ofByte b), e]

theorem toBytes_ofBytes_append : ∀ (l : List UInt8) (rest : Bits),
    Bits.toBytes (Bits.ofBytes l ++ rest) = l ++ Bits.toBytes rest
  | [], _ => rfl
  | b :: bs, rest => by
    simp only [Bits.ofBytes, List.append_assoc, toBytes_ofByte_append, toBytes_ofBytes_append bs rest, List.cons_append]

theorem symLoop_body (syms rest : Bits) (hlen : syms.length = 257) (hhead : syms.head? = some false) :
    ∃ st, symLoop maxSyms {} (encodeRuns (runs syms.tail) false ++ rest) = .ok (st, rest) ∧
      st.out = syms ∧ st.ones = Bits.countOnes syms := by
  obtain ⟨t, rfl⟩ : ∃ t, syms = false :: t := by
    cases syms with
    | nil => simp at hlen
    | cons b t => simp at hhead; exact ⟨t, by rw [hhead]⟩
  simp only [List.tail_cons]
  have hlt : t.length = 256 := by simpa using hlen
  have hexp := expand_runs t
  obtain ⟨fuel', st', e, q1, q2, q3, q4⟩ := runs_loop (runs t) false maxSyms {} rest (alt_runs t) rfl
    (by rw [hexp, hlt]; decide) (by decide) (by decide)
    (by
      intro cnt rs' _
      apply ZPre_false_intro
      show cnt = 0 ∨ cnt ≥ 3 ∨ (cnt = 2 ∧ 255 ≥ 4) ∨ (cnt = 1 ∧ 255 ≥ 2)
      omega)
  rw [hexp] at q1 q2 q3
  refine ⟨st', ?_, ?_, ?_⟩
  · rw [e]
    apply symLoop_done
    rw [q1, hlt]; decide
  · rw [q3]; rfl
  · rw [q2, countOnes_cons]; simp


theorem interpretSyms_aux (st : SymState) (F h : Nat) (body : List UInt8) (pad : Bits) (fs : Bool)
    (hout : st.out = Bits.ofNat F 8 ++ (Bits.ofBytes body ++ pad)) (hl : st.out.length = 257)
    (hg : st.out.getD 256 false = true) (ho : st.ones = 2 ^ h) (hF : F < 256)
    (hsz : F / 8 % 32 = body.length) :
    interpretSyms st h fs =
      if (fs && !(F / 2 % 2 == 1)) = true then .error (.corrupted "invalid combination of final bits")
      else .ok (if (F / 4 % 2 == 1) = true then body.map (fun b => ~~~ b) else body,
                if fs = true then .fstream else if (F / 2 % 2 == 1) = true then .fmeta else .fnil) := by
  have hflags : Bits.toNat (st.out.take 8) = F := by
    rw [hout, List.take_left' (length_ofNat 8 F), toNat_ofNat]
    exact Nat.mod_eq_of_lt hF
  have hraw : ((Bits.toBytes st.out).drop 1).take (F / 8 % 32) = body := by
    rw [hout, toBytes_append8 _ _ (length_ofNat 8 F), toBytes_ofBytes_append, hsz]
    simp
  unfold interpretSyms
  rw [if_neg (by rw [hl]; simp [maxSyms]), if_neg (by rw [ho]; simp)]
  have h256 : maxSyms - 1 = 256 := rfl
  rw [h256, hg]
  simp only [hflags, hraw, Bool.true_eq_false, if_false]

theorem mkFlags_decode (n : Nat) (f i : Bool) (hn : n ≤ 31) :
    mkFlags n f i < 256 ∧ ((mkFlags n f i / 2 % 2 == 1) = f) ∧ ((mkFlags n f i / 4 % 2 == 1) = i) ∧
      mkFlags n f i / 8 % 32 = n := by
  unfold mkFlags
  cases f <;> cases i <;> simp <;> omega


theorem symbolBits_split (buf : List UInt8) (h : Nat) (final invert : Bool) :
    ∃ pad, symbolBits buf h final invert =
      Bits.ofNat (mkFlags buf.length final invert) 8 ++
        (Bits.ofBytes (if invert then buf.map (fun b => ~~~ b) else buf) ++ pad) := by
  rw [symbolBits_eq]
  exact ⟨_, by simp only [List.append_assoc]; rfl⟩

theorem decode_blockBits (buf : List UInt8) (final : FinalMode) (h : Nat) (inv : Bool) (rest : Bits)
    (h1 : 1 ≤ h) (h7 : h ≤ 7) (hlen : buf.length ≤ 31)
    (hz : 2 ^ h + (Bits.countZeros (Bits.ofBytes (if inv then buf.map (fun b => ~~~ b) else buf)) + 8) ≤ 257)
    (ho : Bits.countOnes (Bits.ofBytes (if inv then buf.map (fun b => ~~~ b) else buf)) + 8 ≤ 2 ^ h) :
    decodeBlock (blockBits buf final h inv ++ rest) =
      .ok { payload := buf, final := final, consumed := (blockBits buf final h inv).length } := by
  obtain ⟨hl, hhead, hg, hc⟩ := symbolBits_shape_aux buf h (final ≠ .fnil) inv hlen hz ho
  obtain ⟨m1, m2, m3, m4, m5⟩ := magicOf_facts final h (padsOf buf final h inv) h1 h7 (padsOf_lt _ _ _ _)
  have hcons : (blockBits buf final h inv ++ rest).length - rest.length = (blockBits buf final h inv).length := by
    simp
  have hal : ((blockBits buf final h inv ++ rest).length - rest.length) % 8 = 0 := by
    rw [hcons]; exact blockBits_aligned _ _ _ _
  rw [← hcons]
  obtain ⟨st, hst, hout, hones⟩ := symLoop_body (symbolBits buf h (final ≠ .fnil) inv)
    (List.replicate (padsOf buf final h inv) false ++ ([false] ++ (Bits.ofNat (2 ^ h - 1) h ++ rest))) hl hhead
  have e : blockBits buf final h inv ++ rest =
      Bits.ofNat (magicOf final h (padsOf buf final h inv)) 32 ++ (hclensBits h ++ (bodyBits buf final h inv ++
        (List.replicate (padsOf buf final h inv) false ++ ([false] ++ (Bits.ofNat (2 ^ h - 1) h ++ rest))))) := by
    simp only [blockBits, List.append_assoc]
  have hh : 8 - (4 + (8 - h) * 2 - 4) / 2 = h := by omega
  refine decodeBlock_parts _
    (hclensBits h ++ (bodyBits buf final h inv ++
        (List.replicate (padsOf buf final h inv) false ++ ([false] ++ (Bits.ofNat (2 ^ h - 1) h ++ rest)))))
    (bodyBits buf final h inv ++
        (List.replicate (padsOf buf final h inv) false ++ ([false] ++ (Bits.ofNat (2 ^ h - 1) h ++ rest))))
    (List.replicate (padsOf buf final h inv) false ++ ([false] ++ (Bits.ofNat (2 ^ h - 1) h ++ rest)))
    rest (magicOf final h (padsOf buf final h inv)) st buf final ?_ ?_ m2 ?_ ?_ ?_ ?_
  · rw [e]; cases hm : Bits.ofNat (magicOf final h (padsOf buf final h inv)) 32 with
    | nil => have := length_ofNat 32 (magicOf final h (padsOf buf final h inv)); rw [hm] at this; simp at this
    | cons a b => simp
  · rw [e]; exact readBits_ofNat_lt 32 _ _ m1
  · rw [m5]; exact readHeaderRest_ok h h1 h7 _
  · exact hst
  · rw [m5, hh, m3]
    obtain ⟨pad, hpad⟩ := symbolBits_split buf h (final ≠ .fnil) inv
    obtain ⟨f1, f2, f3, f4⟩ := mkFlags_decode buf.length (decide (final ≠ .fnil)) inv hlen
    have hbl : mkFlags buf.length (decide (final ≠ .fnil)) inv / 8 % 32 =
        (if inv then buf.map (fun b => ~~~ b) else buf).length := by
      rw [f4]; cases inv <;> simp
    rw [interpretSyms_aux st _ h _ pad _ (by rw [hout]; exact hpad) (by rw [hout]; exact hl)
      (by rw [hout]; exact hg) (by rw [hones]; exact hc) f1 hbl]
    rw [f2, f3]
    cases final <;> cases inv <;> simp [List.map_map, Function.comp_def]
  · rw [m4, m5, hh]; exact readFooter_ok _ _ _ _ hal

end Compress.Proofs.Meta
