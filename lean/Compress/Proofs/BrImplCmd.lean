/-
C02 layer (f2): the commands of a compressed meta-block — `readCommands` of the brotli.Reader model
(Brotli/Impl.lean) refines the specification's `readCommands` (Brotli/Spec.lean).

`commands_sim` is `CommandsSim` of BrImplStreamDefs.lean with three more hypotheses and two more
conclusions, and without the 2^24 size cap and the `count = 2^24` premises (the model now counts a
single-type block down from 2^24 and refuses the block switch like the specification) (`CommandsSimZ` below):
* `2 ≤ ws`: `LastBytes()` reads `hist[len-2]`; with a one-byte window the Go code would index out of
  range (`lastBytes_needs_two`).  RFC 7932 windows have at least 1008 bytes.
* `Zeros s.dict`: while the window has not wrapped, the buffer is zero from the write cursor on.
  `LastBytes()` reads these bytes at the start of the stream (the specification says 0 there);
  `Inv` does not know they are zero (`lastBytes_needs_zeros`).  `Zeros` holds after `Dict.init`
  (`Zeros.init`) and is kept by `writeByte`, `writeBytes`, `writeCopy`, `readFlush`; it is returned for
  the next meta-block boundary.
* `DistInv ws c st` (BrCutCmd.lean): the last distances are at most the maximal distance plus 16.
  With it every command consumes a bit or produces a byte (`cmdStep_pm`), which bounds the number of
  labels the model executes in one step and the fuel of the specification.  It holds at the start of
  the stream and `readCommandsAuto_pm` keeps it; it is returned for the next meta-block boundary.

Structure of the proof (files BrImplCmd*.lean):
  Base      pure facts (`Zeros`, `histSize`, `lastBytes`, `copyBack`/`emitAll` in closed form, splitting)
  Prog      the specification's command cut into the pieces the labels execute
  Lit       the literal loop against `readLiterals`
  Labels    `doLabel` unfolded, label by label
  Sim       the bit-reading heads of `startCommand` / `readDistance`
  Cfg       `After` (the goal seen from inside a step), suspension, `Mid`, `Track`
  Fin, Copy, Dist, LitPhase    the labels with their suspensions, each down to the end of the command
  (this file)  `startCommand`, the induction over the commands, the theorem
-/
import Compress.Proofs.BrImplCmdLitPhase
namespace Compress.Proofs.BrImpl
open Compress Compress.Brotli Compress.Brotli.Impl Compress.Window Compress.Proofs.Window
open Compress.Proofs.BrCut (cmdStep DistInv readCommandsAuto cmdContAuto)

/-- the state after `startCommand`. -/
def startUpd (s : State) (r : BR) (bd : BlockDec) (a cl : Nat) (z : Bool) : State :=
  { s with rd := r, iacBlk := bd, insLen := a, cpyLen := cl, distZero := z }

section
variable {sd : ByteArray} {ws : Nat} {h : Header} {lst : Bool} {B0 : Nat}

/-- one command from `startCommand` on, and by `cx.ih` everything after it. -/
theorem phase_start (hsd : sd.size = 122784) (hws : 2 ≤ ws) {c : Cmd} {st : St} (cx : Cx sd ws h lst B0 c st)
    {s : State} {del : List UInt8} {f B : Nat}
    (m : Mid ws h lst s st c del) (hb : s.blkLen = (c.mlen : Int)) (h1 : 1 ≤ c.mlen) (hw : s.word = [])
    (hf : 5 * (c.mlen + st.bits.length + 1) ≤ f) (hB : st.bits.length ≤ B) :
    After sd ws (readCommandsAuto sd ws h c st) lst B0 B del (cmdLoop sd f .startCommand s) := by
  obtain ⟨f', rfl⟩ : ∃ f', f = f' + 1 := ⟨f - 1, by omega⟩
  rw [cmdLoop_cont]
  have chain : cmdStep sd ws h c st = _ := congrFun (cmdStep_eq sd ws h c) st
  have hdl := doLabel_start sd s
  ·
    rcases (iac_sim m.cr).cases st with ⟨a, b, k, hk, hxm, hym, hR⟩ | ⟨e, r, e', st', hxm, hym, he, ho⟩
    · obtain ⟨bd, sym, ie, ce⟩ := a
      obtain ⟨cmdB, a', cl, iz⟩ := b
      obtain ⟨hnext, ha, hcl, hiz, h2⟩ := hR
      dsimp only at hnext ha hcl hiz h2
      obtain ⟨hrel, hpref, hnt, hcnt⟩ := hnext
      rw [BrCut.bind_ok_eq hym] at chain
      dsimp only at chain
      rw [m.rd, hxm] at hdl
      dsimp only at hdl
      rw [← ha, ← hcl, ← hiz] at hdl
      have hal : ((stAt st k).used + (stAt st k).bits.length) % 8 = 0 := by
        rw [stAt_used, stAt_bits, List.length_drop]
        have : st.used + k + (st.bits.length - k) = st.used + st.bits.length := by omega
        rw [this]; exact m.aligned
      have hbl : (stAt st k).bits.length ≤ st.bits.length := by
        rw [stAt_bits, List.length_drop]; omega
      have m1 : Mid ws h lst (startUpd s (brOf (stAt st k)) bd a' cl iz) (stAt st k) { c with cmdB := cmdB } del :=
        ⟨m.toRead, m.err, rfl, m.win, m.zeros, m.avail,
          ⟨by
              have := m.cr.hdr.transfer (s' := startUpd s (brOf (stAt st k)) bd a' cl iz)
                rfl rfl rfl rfl rfl rfl hpref rfl
              rw [← hnt] at this
              exact this,
            m.cr.lit, hrel, m.cr.dist, m.cr.litMapOff, m.cr.cmode, m.cr.distMapOff, m.cr.dists⟩,
          m.dpos, hal, m.mtf, m.last⟩
      have tr1 : Track c st { c with cmdB := cmdB } (stAt st k) c.mlen :=
        ⟨hbl, Nat.le_refl _, ⟨hnt, fun hlt => by
            have := (hcnt hlt).1
            show c.cmdB.count ≤ cmdB.count + 1
            omega⟩, ⟨rfl, fun _ => Nat.le_succ _⟩, ⟨rfl, fun _ => Nat.le_refl _⟩, rfl⟩
      rw [hdl]
      by_cases hins : a' > 0
      · rw [if_pos hins]
        obtain ⟨f'', rfl⟩ : ∃ f'', f' = f'' + 1 := ⟨f' - 1, by omega⟩
        show After sd ws _ lst B0 B del (cmdLoop sd (f'' + 1) .readLiterals (startUpd s (brOf (stAt st k)) bd a' cl iz))
        rw [cmdLoop_cont]
        exact phase_lit hsd hws cx (2 * a' + 1) (by
            show 2 * a' + (if s.dict.wrPos = s.dict.hist.size then 1 else 0) ≤ _
            split <;> omega)
          m1 hb hw hins rfl h2 rfl tr1 rfl chain (Or.inl (Or.inr (by omega)))
          (by rw [Int.toNat_natCast]; omega) (Nat.le_trans hbl hB)
      · rw [if_neg hins]
        have ha0 : a' = 0 := by omega
        subst ha0
        rw [PLit_zero_pos _ _ _ _ _ _ _ _ (by omega), Int.toNat_natCast] at chain
        obtain ⟨f'', rfl⟩ : ∃ f'', f' = f'' + 1 := ⟨f' - 1, by omega⟩
        show After sd ws _ lst B0 B del (cmdLoop sd (f'' + 1) .readDistance (startUpd s (brOf (stAt st k)) bd 0 cl iz))
        rw [cmdLoop_cont]
        exact phase_dist hsd cx m1 hb hw rfl h2 rfl tr1 rfl chain (Or.inr (by show (1 : Int) ≤ (c.mlen : Nat); omega))
          (by show 2 + 5 * min (c.mlen + st.bits.length) ((stAt st k).bits.length + c.mlen + 1) ≤ f''; omega)
          (Nat.le_trans hbl hB)
    · rw [m.rd, hxm] at hdl
      obtain ⟨s1, hs1, hd1⟩ := hdl
      rw [hs1]
      rw [BrCut.bind_err_eq hym] at chain
      exact After.fail (res_err cx.nd cx.inv0 chain) he (by rw [hd1, ho]; exact m.win)

/-- every command boundary inside a step, by induction on `MLEN + unread bits`. -/
theorem startOK_all (hsd : sd.size = 122784) (hws : 2 ≤ ws) (hnd : h.ndirect ≤ 120) :
    ∀ n, StartOK sd ws h lst B0 n := by
  intro n
  induction n with
  | zero => intro s st c del f B _ _ _ _ _ hlt; omega
  | succ n ih =>
    intro s st c del f B m hb h1 hw hinv hlt hf hB
    refine phase_start hsd hws ⟨hinv, hnd, ?_⟩ m hb h1 hw hf hB
    intro s' st' c' del' f' B' m' hb' h1' hw' hinv' hlt' hf' hB'
    exact ih s' st' c' del' f' B' m' hb' h1' hw' hinv' (by omega) hf' hB'
end

/-- `CommandsSim` of BrImplStreamDefs.lean with three more hypotheses — the window has at least two
    bytes, its unwritten part is zero (`Zeros`), the last distances are at most the maximal distance plus
    16 (`DistInv`) — and, in return, `Zeros` and `DistInv` at the next meta-block boundary.  No size cap: a used-up
    single-type block fails on both sides.  In the failing case the outputs are even equal (`Agree.refl`). -/
def CommandsSimZ (sd : ByteArray) : Prop :=
    ∀ (ws : Nat) (s : State) (st : St) (ds : Dists) (del : List UInt8) (h : Header) (c : Cmd),
    Rel ws s st ds del → s.step = .commands → CmdRel s h c → s.blkLen = (c.mlen : Int) →
    1 ≤ c.mlen →
    2 ≤ ws → Zeros s.dict → DistInv ws c st →
    match Brotli.readCommands sd ws h (c.mlen + st.bits.length + 1) c st with
    | (.ok c', st') =>
      ∃ X s', Run sd s X s' ∧ Rel ws s' st' { d1 := c'.d1, d2 := c'.d2, d3 := c'.d3, d4 := c'.d4 } (del ++ X) ∧
        s'.step = .blockHeader ∧ s'.last = s.last ∧ st'.bits.length ≤ st.bits.length ∧
        Zeros s'.dict ∧ DistInv ws c' st'
    | (.error _, st') =>
      ∃ X e, Trace sd s X e ∧ e ≠ .eof ∧ Agree (del ++ X) st'.out.toList

/-- **(f2)** the commands of a compressed meta-block. -/
theorem commands_sim (sd : ByteArray) (hsd : sd.size = 122784) : CommandsSimZ sd := by
  unfold CommandsSimZ
  intro ws s st ds del h c R hstep hc hb h1 hws hz hinv
  have hnd : h.ndirect ≤ 120 := hc.hdr.ndirect.2
  have hdp : 0 < c.d1 ∧ 0 < c.d2 ∧ 0 < c.d3 ∧ 0 < c.d4 := by
    obtain ⟨a1, a2, a3, a4⟩ := R.dists
    obtain ⟨b1, b2, b3, b4⟩ := hc.dists
    obtain ⟨p1, p2, p3, p4⟩ := R.dpos
    exact ⟨by rw [← b1, a1]; exact p1, by rw [← b2, a2]; exact p2, by rw [← b3, a3]; exact p3,
      by rw [← b4, a4]; exact p4⟩
  have m : Mid ws h s.last s st c del :=
    ⟨R.toRead, R.err, R.rd, R.win, hz, R.avail, hc, hdp, R.aligned, R.mtf, rfl⟩
  have hbits : s.rd.bits.length = st.bits.length := by rw [R.rd]; rfl
  have hA := startOK_all (sd := sd) (ws := ws) (h := h) (lst := s.last) (B0 := st.bits.length) hsd hws hnd
    (c.mlen + st.bits.length + 1) s st c del
    (6 * (s.rd.bits.length + s.blkLen.toNat + s.insLen + 4)) st.bits.length m hb h1 R.word hinv
    (Nat.lt_succ_self _) (by rw [hbits, hb, Int.toNat_natCast]; omega) (Nat.le_refl _)
  rw [← readCommands_init sd s R.sub] at hA
  have hso := stepOnce_commands sd s hstep
  have hpm := BrCut.readCommandsAuto_pm sd ws h hnd (c.mlen + st.bits.length) c st (Nat.le_refl _) hinv
  show match readCommandsAuto sd ws h c st with
    | (.ok c', st') => _
    | (.error _, st') => _
  unfold After at hA
  rcases hres : readCommandsAuto sd ws h c st with ⟨e | c', st'⟩
  · rw [hres] at hA
    dsimp only at hA ⊢
    rcases hA with ⟨s1, e1, e2, e3, e4, X, e, T, he, hX⟩ | ⟨e1, s1, e2, X, e, T, he, hX⟩
    · exact ⟨X, e, Trace.step R.toRead R.err (by rw [hso, e1]; exact progress_ok _ _ e2 e3 (by rw [hbits]; exact e4))
        (by rw [hso, e1]; exact T), he, by rw [hX]; exact Agree.refl _⟩
    · exact ⟨X, e, Trace.step R.toRead R.err (by rw [hso, e2]; exact progress_error _ _ _)
        (by rw [hso, e2]; exact T), he, by rw [hX]; exact Agree.refl _⟩
  · rw [hres] at hA
    dsimp only at hA ⊢
    obtain ⟨s1, e1, e2, e3, e4, X, s', Rn, hRel, hzs, hst, hl⟩ := hA
    exact ⟨X, s', Run.step R.toRead R.err (by rw [hso, e1]; exact progress_ok _ _ e2 e3 (by rw [hbits]; exact e4))
      (by rw [hso, e1]; exact Rn), hRel, hst, hl, (hpm.mono_run hres).len_le, hzs, hpm.post hres⟩

/-! ### why `Zeros` and `2 ≤ ws` are needed: `LastBytes()` under the window invariant alone -/

/-- a fresh window whose buffer holds non-zero bytes satisfies `Inv`, but `LastBytes()` returns those bytes
    where the specification's `outputByte` says 0. -/
theorem lastBytes_needs_zeros :
    ∃ (d : Dict), Inv 8 d [] [] ∧ d.wrPos < d.hist.size ∧ d.lastBytes ≠ (backByte [] 1, backByte [] 2) := by
  refine ⟨{ size := 8, hist := #[7, 7, 7, 7], cap := 4 }, ?_, by decide, by decide⟩
  constructor <;> (try simp) <;> (try decide)

/-- with a window of one byte `LastBytes()` returns the last byte twice. -/
theorem lastBytes_needs_two :
    ∃ (d : Dict), Inv 1 d [9, 5] [9, 5] ∧ Zeros d ∧ d.wrPos < d.hist.size ∧
      d.lastBytes ≠ (backByte [9, 5] 1, backByte [9, 5] 2) := by
  refine ⟨{ size := 1, hist := #[5], cap := 1, full := true }, ?_, ?_, by decide, by decide⟩
  rotate_left
  · intro hf; cases hf
  constructor <;> (try simp) <;> (try decide)

end Compress.Proofs.BrImpl
