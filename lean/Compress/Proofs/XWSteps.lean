/-
Preservation of the structural invariant by the atomic steps of xflate.Writer.
-/
import Compress.Proofs.XWShape

namespace Compress.Proofs.XWShape
open Compress Compress.XFlate Compress.Proofs.XWLog

/-! ### `bad` is never cleared -/

theorem bad_popEv (s : XWState) (k : ZKind) (h : s.bad = true) : (popEv s k).2.bad = true := by
  obtain ⟨ev, rest, b, hp, _, _, _, hb⟩ := popEv_spec s k
  rw [hp]; exact hb h

theorem bad_flushSync (s : XWState) (h : s.bad = true) : (flushSync s).bad = true := by
  obtain ⟨ev, rest, b, hp, _, _, _, hb⟩ := popEv_spec s .zflush
  simp only [flushSync, hp]; exact hb h

theorem bad_zReset (s : XWState) (h : s.bad = true) : (zReset s).bad = true := by
  obtain ⟨ev, rest, b, hp, _, _, _, hb⟩ := popEv_spec s .zreset
  simp only [zReset, hp]; exact hb h

theorem bad_encodeIndexStep (crc : List UInt8 → Nat) (s : XWState) (h : s.bad = true) :
    (encodeIndexStep crc s).bad = true := by
  unfold encodeIndexStep
  split
  · exact h
  · split
    split <;> exact h

theorem bad_flushFull (crc : List UInt8 → Nat) (s : XWState) (h : s.bad = true) :
    (flushFull crc s).bad = true := by
  unfold flushFull
  simp only
  have h1 := bad_flushSync s h
  split
  · exact h1
  · have h2 : (zReset { flushSync s with
        recs := (appendRecord (flushSync s).recs (flushSync s).zwOut (flushSync s).zwIn deflateType).getD (flushSync s).recs,
        allRecs := (appendRecord (flushSync s).allRecs (flushSync s).zwOut (flushSync s).zwIn deflateType).getD (flushSync s).allRecs }).bad = true :=
      bad_zReset _ h1
    split
    · exact bad_encodeIndexStep crc _ h2
    · exact h2

theorem bad_flushIndex (crc : List UInt8 → Nat) (s : XWState) (h : s.bad = true) :
    (flushIndex crc s).bad = true := by
  unfold flushIndex
  split
  · simp only
    split
    · exact bad_flushFull crc s h
    · exact bad_encodeIndexStep crc _ (bad_flushFull crc s h)
  · exact bad_encodeIndexStep crc s h

/-! ### FlushSync -/

theorem flushSync_inv (crc : List UInt8 → Nat) (s : XWState) (rgs : List IG) (tr : List Grp)
    (hi : Inv crc s rgs tr) :
    (flushSync s).bad = true ∨
      (Inv crc (flushSync s) rgs tr ∧ (flushSync s).err ≠ some .closed ∧
        ((openOf (flushSync s).zlog [] []).1 = [] →
          ∃ p ∈ (flushSync s).zlog, p.1.kind = .zflush ∧ p.1.emitted = [])) := by
  obtain ⟨ev, rest, b, hp, hrest, hev, hk, hb⟩ := popEv_spec s .zflush
  simp only [flushSync, hp]
  cases b with
  | true => exact Or.inl rfl
  | false =>
    right
    have hkind : ev.kind = .zflush := hk rfl
    have hnr : ¬ ev.kind = .zreset := by rw [hkind]; decide
    have ho : openOf (s.zlog ++ [(ev, [])]) [] [] =
        ((openOf s.zlog [] []).1 ++ ev.emitted, (openOf s.zlog [] []).2) := by
      rw [openOf_snoc]; simp [hnr]
    have hc : closedOf (s.zlog ++ [(ev, [])]) [] [] = closedOf s.zlog [] [] := by
      rw [closedOf_snoc]; simp [hnr]
    obtain ⟨a1, a2⟩ := absorb_none s.sink ev.emitted ev.sinkFailed hi.budget
    refine ⟨⟨a2, ?_, ?_, ?_, ?_, ?_, ?_, hi.recs, hi.back, hi.all, hi.wf, ?_, ?_⟩, ?_, ?_⟩
    · simp only [a1, ho, hi.got, List.append_assoc]
    · simp only [a1, hi.outOff, List.length_append]; omega
    · simp only [ho, hi.zwOut, List.length_append]; omega
    · simp only [ho, hi.zwIn]
    · simp only [hc, hi.closed]
    · simp only [dataOf_append, dataOf_single, List.append_nil, ho, hi.data]
    · intro e he; exact hi.orc e (hrest e he)
    · intro c hc' hc0
      obtain ⟨p, hp1, hp2⟩ := hi.flushed c hc' hc0
      exact ⟨p, List.mem_append_left _ hp1, hp2⟩
    · exact ev_err_ok hi.orc hev
    · simp only [ho]
      intro he
      refine ⟨(ev, []), List.mem_append_right _ (List.mem_singleton.2 rfl), hkind, ?_⟩
      exact (List.append_eq_nil_iff.1 he).2


/-! ### the reset that ends a chunk (FlushFull) -/

/-- FlushFull between its FlushSync and its Reset: the record of the chunk is appended. -/
def recState (s : XWState) : XWState :=
  { s with recs := (appendRecord s.recs s.zwOut s.zwIn deflateType).getD s.recs,
           allRecs := (appendRecord s.allRecs s.zwOut s.zwIn deflateType).getD s.allRecs }

theorem zReset_inv (crc : List UInt8 → Nat) (s : XWState) (rgs : List IG) (tr : List Grp)
    (hi : Inv crc s rgs tr)
    (hf : (openOf s.zlog [] []).1 = [] → ∃ p ∈ s.zlog, p.1.kind = .zflush ∧ p.1.emitted = []) :
    (zReset (recState s)).bad = true ∨
      (Inv crc (zReset (recState s)) rgs (tr ++ [openOf s.zlog [] []]) ∧
        (zReset (recState s)).err = s.err ∧ (zReset (recState s)).zwIn = 0 ∧
        (zReset (recState s)).zwOut = 0 ∧ (zReset (recState s)).nidx = s.nidx) := by
  obtain ⟨ev, rest, b, hp, hrest, hev, hk, hb⟩ := popEv_spec (recState s) .zreset
  simp only [zReset, hp]
  cases b with
  | true => exact Or.inl rfl
  | false =>
    right
    have hkind : ev.kind = .zreset := hk rfl
    have ho : openOf (s.zlog ++ [(ev, [])]) [] [] = ([], []) := by
      rw [openOf_snoc]; simp [hkind]
    have hc : closedOf (s.zlog ++ [(ev, [])]) [] [] = closedOf s.zlog [] [] ++ [openOf s.zlog [] []] := by
      rw [closedOf_snoc]; simp [hkind]
    refine ⟨?inv, ?rest⟩
    case rest => refine ⟨?_, ?_, ?_, ?_⟩ <;> first | rfl | trivial
    refine ⟨hi.budget, ?_, hi.outOff, ?_, ?_, ?_, ?_, ?_, hi.back, ?_, hi.wf, ?_, ?_⟩
    · show s.sink.got = _
      simp only [recState, ho, hi.got, cbytes_append, cbytes_single, List.append_assoc, List.append_nil]
    · simp only [recState, ho]; rfl
    · simp only [recState, ho]; rfl
    · simp only [recState, hc, hi.closed, List.cons_append, List.append_assoc]
    · simp only [recState, dataOf_append, dataOf_single, List.append_nil, ho, hi.data, ← List.append_assoc,
        cdata_append, cdata_single]
    · show (appendRecord s.recs s.zwOut s.zwIn deflateType).getD s.recs = _
      rw [hi.recs, hi.zwOut, hi.zwIn]
      simp only [recsOf, List.foldl_append, List.foldl_cons, List.foldl_nil]
      rfl
    · show (appendRecord s.allRecs s.zwOut s.zwIn deflateType).getD s.allRecs = _
      rw [hi.all, hi.zwOut, hi.zwIn]
      simp only [allOf, List.foldl_append, List.foldl_cons, List.foldl_nil]
      rfl
    · intro e he; exact hi.orc e (hrest e he)
    · intro c hc' hc0
      rw [← List.append_assoc, List.mem_append] at hc'
      rcases hc' with hc' | hc'
      · obtain ⟨p, hp1, hp2⟩ := hi.flushed c hc' hc0
        exact ⟨p, List.mem_append_left _ hp1, hp2⟩
      · rw [List.mem_singleton] at hc'
        subst hc'
        obtain ⟨p, hp1, hp2⟩ := hf hc0
        exact ⟨p, List.mem_append_left _ hp1, hp2⟩

/-! ### an index stream -/

theorem length_eq_zero_int {α : Type} (l : List α) (x : Int) (h : x = (l.length : Int)) (h0 : x = 0) : l = [] := by
  apply List.eq_nil_of_length_eq_zero
  omega

theorem encodeIndexStep_inv (crc : List UInt8 → Nat) (s : XWState) (rgs : List IG) (tr : List Grp)
    (hi : Inv crc s rgs tr) (hin : s.zwIn = 0) (hout : s.zwOut = 0) :
    ∃ blocks, Inv crc (encodeIndexStep crc s) (⟨tr, blocks⟩ :: rgs) [] ∧
      (encodeIndexStep crc s).err = none ∧ (encodeIndexStep crc s).zwIn = 0 ∧
      (encodeIndexStep crc s).zwOut = 0 ∧ (encodeIndexStep crc s).bad = s.bad ∧
      (encodeIndexStep crc s).nidx = s.nidx ∧ (encodeIndexStep crc s).nchk = s.nchk := by
  obtain ⟨blocks, henc, _⟩ := Proofs.Meta.decode_encode (indexPayload crc s.recs s.backSize) .fmeta
  have hob : (openOf s.zlog [] []).1 = [] := length_eq_zero_int _ _ hi.zwOut hout
  have hod : (openOf s.zlog [] []).2 = [] := length_eq_zero_int _ _ hi.zwIn hin
  refine ⟨blocks, ?_⟩
  unfold encodeIndexStep
  simp only [henc, emitBlocks_none blocks s.sink 0 hi.budget, Nat.zero_add]
  refine ⟨?inv, ?rest⟩
  case rest => refine ⟨?_, ?_, ?_, ?_, ?_, ?_⟩ <;> first | rfl | trivial | exact hin | exact hout
  refine ⟨hi.budget, ?_, ?_, ?_, ?_, ?_, ?_, rfl, rfl, ?_, ⟨?_, hi.wf⟩, hi.orc, ?_⟩
  · simp only [hi.got, hob, bytesR, cbytes_nil, List.append_nil, List.append_assoc]
  · simp only [hi.outOff, List.length_append]; omega
  · exact hi.zwOut
  · exact hi.zwIn
  · simp only [hi.closed, chunksR, List.append_nil]
  · simp only [hi.data, chunksR, List.append_nil]
  · simp only [hi.all, allOf, allG, List.foldl_nil]
  · rw [← hi.recs, ← hi.back]; exact henc
  · simpa only [chunksR, List.append_nil] using hi.flushed

/-! ### one compressor Write -/

/-- the state after the compressor call of one iteration of `Writer.Write`. -/
def wstep (s : XWState) (data : List UInt8) (take : Nat) : XWState :=
  let ev := (popEv s .zwrite).1
  let s1 := (popEv s .zwrite).2
  let s2 := if ev.n > take then { s1 with bad := true } else s1
  { s2 with zwIn := s2.zwIn + ev.n, zwOut := s2.zwOut + ev.emitted.length,
            outOff := s2.outOff + ev.emitted.length,
            sink := s2.sink.absorb ev.emitted ev.sinkFailed, err := ev.err,
            zlog := s2.zlog ++ [(ev, data.take ev.n)] }

theorem bad_wstep (s : XWState) (data : List UInt8) (take : Nat) (h : s.bad = true) :
    (wstep s data take).bad = true := by
  have := bad_popEv s .zwrite h
  unfold wstep
  simp only
  split
  · rfl
  · exact this

theorem wstep_inv (crc : List UInt8 → Nat) (s : XWState) (rgs : List IG) (tr : List Grp)
    (data : List UInt8) (take : Nat) (ht : take ≤ data.length)
    (hi : Inv crc s rgs tr) :
    (wstep s data take).bad = true ∨
      (Inv crc (wstep s data take) rgs tr ∧ (wstep s data take).err ≠ some .closed) := by
  obtain ⟨ev, rest, b, hp, hrest, hev, hk, hb⟩ := popEv_spec s .zwrite
  unfold wstep
  simp only [hp]
  by_cases hn : ev.n > take
  · left; simp only [if_pos hn]
  · simp only [if_neg hn]
    cases b with
    | true => exact Or.inl rfl
    | false =>
      right
      have hkind : ev.kind = .zwrite := hk rfl
      have hnr : ¬ ev.kind = .zreset := by rw [hkind]; decide
      have ho : openOf (s.zlog ++ [(ev, data.take ev.n)]) [] [] =
          ((openOf s.zlog [] []).1 ++ ev.emitted, (openOf s.zlog [] []).2 ++ data.take ev.n) := by
        rw [openOf_snoc]; simp [hnr]
      have hc : closedOf (s.zlog ++ [(ev, data.take ev.n)]) [] [] = closedOf s.zlog [] [] := by
        rw [closedOf_snoc]; simp [hnr]
      obtain ⟨a1, a2⟩ := absorb_none s.sink ev.emitted ev.sinkFailed hi.budget
      refine ⟨⟨a2, ?_, ?_, ?_, ?_, ?_, ?_, hi.recs, hi.back, hi.all, hi.wf, ?_, ?_⟩, ?_⟩
      · simp only [a1, ho, hi.got, List.append_assoc]
      · simp only [a1, hi.outOff, List.length_append]; omega
      · simp only [ho, hi.zwOut, List.length_append]; omega
      · simp only [ho, hi.zwIn, List.length_append, List.length_take]; omega
      · simp only [hc, hi.closed]
      · simp only [dataOf_append, dataOf_single, ho, hi.data, List.append_assoc]
      · intro e he; exact hi.orc e (hrest e he)
      · intro c hc' hc0
        obtain ⟨p, hp1, hp2⟩ := hi.flushed c hc' hc0
        exact ⟨p, List.mem_append_left _ hp1, hp2⟩
      · exact ev_err_ok hi.orc hev

end Compress.Proofs.XWShape
