/-
C02 layer (f2), commands of a compressed meta-block: pure facts.

* `Zeros`: while the window has not wrapped, everything at and above the write
  cursor is zero (the window starts zeroed); needed for `LastBytes`, kept by
  every primitive.
* `histSize_inv`, `lastBytes_inv`: `HistSize`/`LastBytes` under the window
  invariant.
* the specification's `copyBack`, `emitAll` in closed form; `readLiterals`
  splits; `knownCorrupt` distributes over `>>=`.
-/
import Compress.Proofs.BrImplStreamDefs
import Compress.Proofs.BrImplBlk
import Compress.Proofs.BrImplCtx
import Compress.Proofs.BrCutCmd

namespace Compress.Proofs.BrImpl
open Compress Compress.Brotli Compress.Brotli.Impl Compress.Window Compress.Proofs.Window

/-! ### zero-initialised history -/

/-- while the window has not wrapped, the buffer is zero from the write cursor on. -/
def Zeros (d : Dict) : Prop := d.full = false → ∀ j, d.wrPos ≤ j → d.hist.getD j 0 = 0

theorem Zeros.init (size prevCap : Nat) : Zeros (Dict.init size prevCap) := by
  intro _ j _
  by_cases hp : prevCap = 0 <;>
    simp only [Dict.init, hp, if_true, if_false, Array.getD_eq_getD_getElem?, Array.getElem?_replicate] <;>
    split <;> rfl

theorem Zeros.writeByte {d : Dict} (z : Zeros d) (c : UInt8) : Zeros (d.writeByte c) := by
  intro hf j hj
  simp only [Dict.writeByte] at hf hj ⊢
  rw [agetD_set, if_neg (by omega)]
  exact z hf j (by omega)

theorem Zeros.writeBytes {d : Dict} (z : Zeros d) (hw : d.wrPos ≤ d.hist.size) (bs : List UInt8) :
    Zeros (d.writeBytes bs).1 := by
  intro hf j hj
  have hgo := writeBytes_go_spec bs (min bs.length d.availSize) d.wrPos d.hist
    (by simp only [Dict.availSize]; omega)
  simp only [Dict.writeBytes] at hf hj ⊢
  rw [hgo.2 j, if_neg (by omega)]
  exact z hf j (by omega)

theorem writeCopy_full (d : Dict) (dist len : Nat) : (d.writeCopy dist len).1.full = d.full := by
  unfold Dict.writeCopy
  simp only
  split <;> rfl

theorem Zeros.writeCopy {size : Nat} {d : Dict} {out acc : List UInt8} (I : Inv size d out acc)
    (z : Zeros d) (dist len : Nat) (hd : 0 < dist) (hdl : dist ≤ min size out.length) :
    Zeros (d.writeCopy dist len).1 := by
  intro hf
  rw [writeCopy_full] at hf
  have hlen := I.nfull hf
  have hwl := I.wr_le
  have c : ¬ d.wrPos < dist := by omega
  unfold Dict.writeCopy
  simp only
  rw [if_neg c]
  have hsp := copyLoop_spec0 d.hist d.wrPos (min (d.wrPos + len) d.hist.size) (d.wrPos - dist) dist (len + 1)
    hd (by omega) (by omega) (by omega) (by omega)
  generalize copyLoop (len + 1) d.hist d.wrPos (min (d.wrPos + len) d.hist.size) (d.wrPos - dist) = p at hsp
  obtain ⟨h', wp⟩ := p
  obtain ⟨e1, e2, e3⟩ := hsp
  simp only at e1 e2 e3 ⊢
  intro j hj
  rw [e3 j, if_neg (by omega)]
  exact z hf j (by omega)

theorem Zeros.readFlush {d : Dict} (z : Zeros d) : Zeros d.readFlush.1 := by
  unfold Dict.readFlush
  simp only
  by_cases c1 : d.wrPos = d.hist.size
  · rw [if_pos c1]
    by_cases c2 : d.hist.size = d.size
    · rw [if_pos c2]
      intro hf; cases hf
    · rw [if_neg c2]
      intro hf j hj
      simp only at hf hj ⊢
      rw [agetD_map_range]
      split
      · exact z hf j hj
      · rfl
  · rw [if_neg c1]
    exact z

/-! ### `HistSize`, `LastBytes` -/

theorem histSize_inv {size : Nat} {d : Dict} {out acc : List UInt8} (I : Inv size d out acc) :
    d.histSize = min size out.length := by
  unfold Dict.histSize
  cases hf : d.full
  · have := I.nfull hf
    have := I.wr_le
    have := I.hsz
    simp only [Bool.false_eq_true, if_false]
    omega
  · have := I.full_sz hf
    have := I.dsize
    simp only [if_true]
    omega

theorem agetD_toList (a : Array UInt8) (i : Nat) : a.toList.getD i 0 = a.getD i 0 := by
  simp [Array.getD_eq_getD_getElem?, List.getD_eq_getElem?_getD]

/-- the byte `back` positions before the end (0 if there is none), on lists. -/
def backByte (out : List UInt8) (back : Nat) : UInt8 :=
  if back ≤ out.length then out.getD (out.length - back) 0 else 0

theorem outputByte_eq (back : Nat) (st : St) :
    outputByte back st = (.ok (backByte st.out.toList back), st) := by
  simp only [outputByte, backByte, Array.length_toList, agetD_toList]

/-- `LastBytes()` = the last two bytes produced, zero where there are none.  (`2 ≤ size`: with a
    window of one byte the Go code would index `hist[-1]`; RFC windows have at least 1008 bytes.) -/
theorem lastBytes_inv {size : Nat} {d : Dict} {out acc : List UInt8} (I : Inv size d out acc)
    (z : Zeros d) (h2 : 2 ≤ size) (hav : d.wrPos < d.hist.size) :
    d.lastBytes = (backByte out 1, backByte out 2) := by
  have hwo := I.wr_out
  unfold Dict.lastBytes backByte
  simp only
  by_cases c1 : d.wrPos > 1
  · rw [if_pos c1, if_pos (by omega), if_pos (by omega), I.low _ (by omega), I.low _ (by omega)]
    congr 2 <;> omega
  · rw [if_neg c1]
    by_cases c0 : d.wrPos > 0
    · rw [if_pos c0, if_pos (by omega), I.low _ (by omega)]
      have e1 : out.length - d.wrPos + (d.wrPos - 1) = out.length - 1 := by omega
      rw [e1]
      congr 1
      cases hf : d.full
      · have := I.nfull hf
        rw [if_neg (by omega)]
        exact z hf _ (by omega)
      · obtain ⟨hs, hl⟩ := I.full_sz hf
        rw [if_pos (by omega), I.high hf _ (by omega) (by omega)]
        congr 1; omega
    · rw [if_neg c0]
      have hw0 : d.wrPos = 0 := by omega
      cases hf : d.full
      · have := I.nfull hf
        rw [if_neg (by omega), if_neg (by omega), z hf _ (by omega), z hf _ (by omega)]
      · obtain ⟨hs, hl⟩ := I.full_sz hf
        rw [if_pos (by omega), if_pos (by omega), I.high hf _ (by omega) (by omega),
          I.high hf _ (by omega) (by omega)]
        congr 2 <;> omega

/-! ### the output actions of the specification in closed form -/

/-- the specification state with another output. -/
def stOut (st : St) (o : List UInt8) : St := { st with out := o.toArray }

@[simp] theorem stOut_bits (st : St) (o : List UInt8) : (stOut st o).bits = st.bits := rfl
@[simp] theorem stOut_used (st : St) (o : List UInt8) : (stOut st o).used = st.used := rfl
@[simp] theorem stOut_out (st : St) (o : List UInt8) : (stOut st o).out.toList = o := by simp [stOut]
@[simp] theorem stOut_size (st : St) (o : List UInt8) : (stOut st o).out.size = o.length := by simp [stOut]

theorem stOut_self (st : St) : stOut st st.out.toList = st := by
  cases st; simp [stOut]

theorem stOut_stOut (st : St) (a b : List UInt8) : stOut (stOut st a) b = stOut st b := rfl

theorem brOf_stOut (st : St) (o : List UInt8) : brOf (stOut st o) = brOf st := rfl

theorem emit_eq (b : UInt8) (st : St) : emit b st = (.ok (), stOut st (st.out.toList ++ [b])) := by
  have : st.out.push b = (st.out.toList ++ [b]).toArray := by
    apply Array.ext'; simp
  simp only [emit, stOut, this]

theorem copyBack_eq (dist : Nat) : ∀ (n : Nat) (st : St), dist ≤ st.out.size →
    copyBack dist n st = (.ok (), stOut st (specCopy st.out.toList dist n)) := by
  intro n
  induction n with
  | zero => intro st _; rw [specCopy, stOut_self]; rfl
  | succ n ih =>
    intro st hd
    rw [copyBack, Dec_bind_apply, outputByte_eq]
    dsimp only
    rw [Dec_bind_apply, emit_eq]
    dsimp only
    rw [ih _ (by rw [stOut_size, List.length_append, Array.length_toList]; omega), stOut_out, stOut_stOut]
    simp only [specCopy, backByte, Array.length_toList, if_pos hd]

theorem emitAll_eq : ∀ (w : List UInt8) (st : St),
    emitAll w st = (.ok (), stOut st (st.out.toList ++ w)) := by
  intro w
  induction w with
  | nil => intro st; rw [List.append_nil, stOut_self]; rfl
  | cons b w ih =>
    intro st
    rw [emitAll, Dec_bind_apply, emit_eq]
    dsimp only
    rw [ih, stOut_out, stOut_stOut, List.append_assoc]
    rfl

theorem specCopy_prefix (dist : Nat) : ∀ (n : Nat) (out : List UInt8), out <+: specCopy out dist n := by
  intro n
  induction n with
  | zero => intro out; exact List.prefix_refl _
  | succ n ih =>
    intro out
    rw [specCopy]
    exact (List.prefix_append _ _).trans (ih _)

/-! ### `readLiterals` splits -/

theorem readLiterals_add (h : Header) : ∀ (a b : Nat) (litB : Blocks),
    readLiterals h (a + b) litB = readLiterals h a litB >>= fun l => readLiterals h b l := by
  intro a
  induction a with
  | zero => intro b litB; rw [Nat.zero_add]; rfl
  | succ a ih =>
    intro b litB
    have e : a + 1 + b = (a + b) + 1 := by omega
    rw [e, readLiterals, readLiterals]
    simp only [dec_bind_assoc]
    congr 1; funext l1
    congr 1; funext p1
    congr 1; funext p2
    congr 1; funext lit
    congr 1; funext _
    exact ih b l1

/-! ### `knownCorrupt` -/

theorem knownCorrupt_apply {α : Type} (x : Dec α) (st : St) :
    knownCorrupt x st = match x st with
      | (.error _, s') => (.error .corrupt, s')
      | r => r := rfl

theorem knownCorrupt_bind {α β : Type} (x : Dec α) (f : α → Dec β) :
    knownCorrupt (x >>= f) = knownCorrupt x >>= fun a => knownCorrupt (f a) := by
  funext st
  simp only [knownCorrupt_apply, Dec_bind_apply]
  rcases x st with ⟨e | a, s1⟩
  · rfl
  · dsimp only

theorem knownCorrupt_ok {α : Type} {x : Dec α} {st st' : St} {a : α} (h : x st = (.ok a, st')) :
    knownCorrupt x st = (.ok a, st') := by
  rw [knownCorrupt_apply, h]

theorem knownCorrupt_err {α : Type} {x : Dec α} {st st' : St} {e : Err} (h : x st = (.error e, st')) :
    knownCorrupt x st = (.error .corrupt, st') := by
  rw [knownCorrupt_apply, h]

/-! ### `SimRel` at a state, as a disjunction -/

theorem SimRel.cases {α β : Type} {R : α → β → Prop} {x : Impl.M α} {y : Dec β} (h : SimRel R x y) (st : St) :
    (∃ a b k, k ≤ st.bits.length ∧ x (brOf st) = (.ok a, brOf (stAt st k)) ∧ y st = (.ok b, stAt st k) ∧ R a b) ∨
    (∃ e r e' st', x (brOf st) = (.error e, r) ∧ y st = (.error e', st') ∧ e ≠ .eof ∧ st'.out = st.out) := by
  have h0 := h st
  unfold SimAt at h0
  rcases hx : x (brOf st) with ⟨e | a, r⟩ <;> rcases hy : y st with ⟨e' | b, st'⟩ <;>
    rw [hx, hy] at h0 <;> simp only at h0
  · exact Or.inr ⟨e, r, e', st', rfl, rfl, h0.1, h0.2⟩
  · obtain ⟨k, h1, h2, h3, h4⟩ := h0
    subst h2 h3
    exact Or.inl ⟨a, b, k, h1, rfl, rfl, h4⟩

end Compress.Proofs.BrImpl
