/-
Structural facts about the two-queue Huffman construction `buildTree`
(support for `Compress.Proofs.PrefixLengths`):

* the final tree has every index `0..n-1` exactly once as a leaf,
* it is an inner node when there are at least two symbols,
* leaf depth is non-increasing in the leaf index (a purely structural
  consequence of the FIFO discipline; independent of the counts),
* `buildTree` with fuel `n+1` terminates.
-/
import Compress.Prefix.Spec

set_option linter.unusedSimpArgs false

namespace Compress.Proofs.PLTree
open Compress Compress.Prefix

/-! ### trees -/

def leaves : HTree → List Nat
  | .leaf i => [i]
  | .node l r => leaves l ++ leaves r

def IsNode : HTree → Prop
  | .leaf _ => False
  | .node _ _ => True

theorem depths_map_fst (t : HTree) (d : Nat) : (depths t d).map (·.1) = leaves t := by
  induction t generalizing d with
  | leaf i => rfl
  | node l r ihl ihr => simp [depths, leaves, ihl, ihr]

theorem depths_ge (t : HTree) (d : Nat) : ∀ p ∈ depths t d, d ≤ p.2 := by
  induction t generalizing d with
  | leaf i => intro p hp; simp [depths] at hp; subst hp; simp
  | node l r ihl ihr =>
    intro p hp
    simp only [depths, List.mem_append] at hp
    rcases hp with hp | hp
    · have := ihl _ _ hp; omega
    · have := ihr _ _ hp; omega

theorem depths_gt_of_node (t : HTree) (d : Nat) (ht : IsNode t) : ∀ p ∈ depths t d, d + 1 ≤ p.2 := by
  cases t with
  | leaf i => cases ht
  | node l r =>
    intro p hp
    simp only [depths, List.mem_append] at hp
    rcases hp with hp | hp
    · exact depths_ge _ _ _ hp
    · exact depths_ge _ _ _ hp

theorem depths_fst_mem (t : HTree) (d : Nat) : ∀ p ∈ depths t d, p.1 ∈ leaves t := by
  intro p hp
  rw [← depths_map_fst t d]
  exact List.mem_map_of_mem hp

theorem depths_ne_nil (t : HTree) (d : Nat) : depths t d ≠ [] := by
  induction t generalizing d with
  | leaf i => simp [depths]
  | node l r ihl ihr => simp [depths, ihl]

/-- scaled Kraft sum of a (index, depth) list. -/
def ksum (L : List (Nat × Nat)) (M : Nat) : Nat := (L.map (fun p => 2 ^ (M - p.2))).sum

theorem ksum_append (L₁ L₂ : List (Nat × Nat)) (M : Nat) :
    ksum (L₁ ++ L₂) M = ksum L₁ M + ksum L₂ M := by
  simp [ksum]

theorem ksum_depths (t : HTree) (d M : Nat) (h : ∀ p ∈ depths t d, p.2 ≤ M) :
    ksum (depths t d) M = 2 ^ (M - d) := by
  induction t generalizing d with
  | leaf i => simp [depths, ksum]
  | node l r ihl ihr =>
    simp only [depths] at h ⊢
    rw [ksum_append, ihl, ihr]
    · -- some leaf lies at depth ≥ d+1 and ≤ M
      obtain ⟨p, hp⟩ := List.exists_mem_of_ne_nil _ (depths_ne_nil l (d + 1))
      have h1 := depths_ge _ _ _ hp
      have h2 := h p (by simp [hp])
      have : M - d = (M - (d + 1)) + 1 := by omega
      rw [this, Nat.pow_succ]; omega
    · intro p hp; exact h p (by simp [hp])
    · intro p hp; exact h p (by simp [hp])

/-! ### the loop invariant -/

/-- leaf depths of a forest whose roots sit at depths `ds`. -/
def LD (items : List HTree) (ds : List Nat) : List (Nat × Nat) :=
  (items.zip ds).flatMap (fun p => depths p.1 p.2)

theorem mem_LD {items : List HTree} {ds : List Nat} {x : Nat × Nat} :
    x ∈ LD items ds ↔ ∃ t d, (t, d) ∈ items.zip ds ∧ x ∈ depths t d := by
  simp [LD, List.mem_flatMap]

/-- depth is non-increasing in the index. -/
def Anti (L : List (Nat × Nat)) : Prop := ∀ x ∈ L, ∀ y ∈ L, x.1 < y.1 → y.2 ≤ x.2

/-- admissible root depths: non-increasing and spread at most one. -/
def DOK (ds : List Nat) : Prop := ds.Pairwise (fun a b => b ≤ a ∧ a ≤ b + 1)

def allLeaves (items : List HTree) : List Nat := items.flatMap leaves

/-- `A` = trees already dequeued in the current iteration, `B` = the queue. -/
structure Inv (n : Nat) (freqs : List (Nat × Nat)) (A B : List HTree) : Prop where
  perm : (allLeaves (A ++ B) ++ freqs.map (·.1)).Perm (List.range n)
  sortedF : (freqs.map (·.1)).Pairwise (· < ·)
  lt : ∀ i ∈ allLeaves (A ++ B), ∀ j ∈ freqs.map (·.1), i < j
  isNode : ∀ t ∈ B, IsNode t
  anti : ∀ ds, ds.length = (A ++ B).length → DOK ds → Anti (LD (A ++ B) ds)

theorem Inv.shift {n freqs A b B} (h : Inv n freqs A (b :: B)) : Inv n freqs (A ++ [b]) B := by
  have e : A ++ [b] ++ B = A ++ b :: B := by simp
  constructor
  · rw [e]; exact h.perm
  · exact h.sortedF
  · rw [e]; exact h.lt
  · intro t ht; exact h.isNode t (by simp [ht])
  · rw [e]; exact h.anti

theorem Inv.insertLeaf {n i c fs A B} (h : Inv n ((i, c) :: fs) A B) :
    Inv n fs (A ++ [.leaf i]) B := by
  have hlt := h.lt
  have hs := h.sortedF
  simp only [List.map_cons, List.pairwise_cons] at hs
  constructor
  · refine List.Perm.trans ?_ h.perm
    simp only [allLeaves, List.flatMap_append, List.flatMap_cons, List.flatMap_nil, leaves,
      List.map_cons, List.append_assoc, List.append_nil]
    refine List.Perm.append_left _ ?_
    simpa using List.perm_middle.symm
  · exact hs.2
  · intro a ha j hj
    simp only [allLeaves, List.flatMap_append, List.flatMap_cons, List.flatMap_nil, leaves,
      List.mem_append, List.append_nil, List.mem_singleton] at ha
    have hj' : j ∈ List.map (·.1) ((i, c) :: fs) := by simp [hj]
    rcases ha with (ha | ha) | ha
    · exact hlt a (by simp [allLeaves, ha]) j hj'
    · subst ha; exact hs.1 j hj
    · exact hlt a (by simp [allLeaves, ha]) j hj'
  · exact h.isNode
  · intro ds hlen hdok
    -- split `ds` around the new root
    have hlen' : ds.length = A.length + (1 + B.length) := by
      simp at hlen; omega
    obtain ⟨dsA, rest, rfl, hA⟩ : ∃ dsA rest, ds = dsA ++ rest ∧ dsA.length = A.length :=
      ⟨ds.take A.length, ds.drop A.length, by simp, by simp; omega⟩
    cases rest with
    | nil => simp at hlen'; omega
    | cons d dsB =>
      have hB : dsB.length = B.length := by simp at hlen'; omega
      have hdok' : DOK (dsA ++ dsB) :=
        List.Pairwise.sublist (List.Sublist.append_left (List.sublist_cons_self d dsB) dsA) hdok
      have hold := h.anti (dsA ++ dsB) (by simp [hA, hB]) hdok'
      simp only [DOK, List.pairwise_append, List.pairwise_cons, List.mem_cons] at hdok
      obtain ⟨_, ⟨hdB, _⟩, hAB⟩ := hdok
      have hzip : (A ++ [HTree.leaf i] ++ B).zip (dsA ++ d :: dsB)
          = A.zip dsA ++ (HTree.leaf i, d) :: B.zip dsB := by
        rw [List.append_assoc, List.zip_append hA.symm]; rfl
      have hzip' : (A ++ B).zip (dsA ++ dsB) = A.zip dsA ++ B.zip dsB := List.zip_append hA.symm
      -- every old leaf: index below `i`, depth at least `d`
      have hbound : ∀ x ∈ LD (A ++ B) (dsA ++ dsB), x.1 < i ∧ d ≤ x.2 := by
        intro x hx
        obtain ⟨t, e, hte, hxt⟩ := mem_LD.1 hx
        have hmem : t ∈ A ++ B := (List.of_mem_zip hte).1
        refine ⟨hlt x.1 ?_ i (by simp), ?_⟩
        · simp only [allLeaves, List.mem_flatMap]
          exact ⟨t, hmem, depths_fst_mem _ _ _ hxt⟩
        · rw [hzip', List.mem_append] at hte
          rcases hte with hte | hte
          · have h1 := (hAB e (List.of_mem_zip hte).2 d (Or.inl rfl)).1
            have h2 := depths_ge _ _ _ hxt
            omega
          · have h1 := (hdB e (List.of_mem_zip hte).2).2
            have h2 := depths_gt_of_node t e (h.isNode t (List.of_mem_zip hte).1) _ hxt
            omega
      have hsplit : ∀ x, x ∈ LD (A ++ [HTree.leaf i] ++ B) (dsA ++ d :: dsB) ↔
          x = (i, d) ∨ x ∈ LD (A ++ B) (dsA ++ dsB) := by
        intro x
        simp only [LD, hzip, hzip', List.flatMap_append, List.flatMap_cons, List.mem_append,
          depths, List.mem_singleton]
        constructor
        · rintro (h | h | h)
          · exact Or.inr (Or.inl h)
          · exact Or.inl h
          · exact Or.inr (Or.inr h)
        · rintro (h | h | h)
          · exact Or.inr (Or.inl h)
          · exact Or.inl h
          · exact Or.inr (Or.inr h)
      intro x hx y hy hxy
      rcases (hsplit x).1 hx with rfl | hx' <;> rcases (hsplit y).1 hy with rfl | hy'
      · simp at hxy
      · have := (hbound y hy').1; simp at hxy; omega
      · exact (hbound x hx').2
      · exact hold x hx' y hy' hxy

theorem Inv.merge {n freqs x0 x1 B} (h : Inv n freqs [x0, x1] B) :
    Inv n freqs [] (B ++ [.node x0 x1]) := by
  have hperm : (allLeaves ([] ++ (B ++ [HTree.node x0 x1]))).Perm (allLeaves ([x0, x1] ++ B)) := by
    simp only [allLeaves, List.nil_append, List.flatMap_append, List.flatMap_cons,
      List.flatMap_nil, leaves, List.append_nil]
    have := @List.perm_append_comm _ (List.flatMap leaves B) (leaves x0 ++ leaves x1)
    simpa using this
  constructor
  · exact (List.Perm.append_right _ hperm).trans h.perm
  · exact h.sortedF
  · intro i hi; exact h.lt i (hperm.mem_iff.1 hi)
  · intro t ht
    simp only [List.mem_append, List.mem_singleton] at ht
    rcases ht with ht | rfl
    · exact h.isNode t ht
    · trivial
  · intro ds hlen hdok
    simp only [List.nil_append, List.length_append, List.length_cons, List.length_nil] at hlen
    obtain ⟨ds', e, rfl⟩ : ∃ ds' e, ds = ds' ++ [e] := by
      rcases List.eq_nil_or_concat ds with rfl | ⟨ds', e, rfl⟩
      · simp at hlen
      · exact ⟨ds', e, by simp⟩
    have hB : ds'.length = B.length := by simp at hlen; omega
    simp only [DOK, List.pairwise_append, List.pairwise_cons, List.mem_singleton] at hdok
    obtain ⟨hd', _, hlast⟩ := hdok
    have hold := h.anti ((e + 1) :: (e + 1) :: ds') (by simp [hB]) (by
      simp only [DOK, List.pairwise_cons, List.mem_cons]
      refine ⟨?_, ?_, hd'⟩
      · rintro a (rfl | ha)
        · omega
        · have := hlast a ha e rfl; omega
      · intro a ha
        have := hlast a ha e rfl; omega)
    have hsub : ∀ x, x ∈ LD ([] ++ (B ++ [HTree.node x0 x1])) (ds' ++ [e]) →
        x ∈ LD ([x0, x1] ++ B) ((e + 1) :: (e + 1) :: ds') := by
      intro x
      simp only [LD, List.nil_append, List.zip_append hB.symm, List.flatMap_append,
        List.cons_append, List.zip_cons_cons, List.flatMap_cons, List.mem_append, depths,
        List.zip_nil_right, List.flatMap_nil, List.append_nil]
      rintro (h | h | h)
      · exact Or.inr (Or.inr h)
      · exact Or.inl h
      · exact Or.inr (Or.inl h)
    intro x hx y hy hxy
    exact hold x (hsub x hx) y (hsub y hy) hxy

theorem Inv.dequeue {n freqs queue A x f1 q1}
    (h : Inv n freqs A (queue.map (·.tree)))
    (hd : dequeue freqs queue = some (x, f1, q1)) :
    Inv n f1 (A ++ [x.tree]) (q1.map (·.tree)) ∧
      f1.length + q1.length + 1 = freqs.length + queue.length := by
  unfold Prefix.dequeue at hd
  split at hd
  · cases hd
  · cases hd; exact ⟨h.insertLeaf, by simp only [List.length_cons, List.length_nil] <;> omega⟩
  · cases hd; exact ⟨h.shift, by simp only [List.length_cons, List.length_nil] <;> omega⟩
  · split at hd
    · cases hd; exact ⟨h.insertLeaf, by simp only [List.length_cons, List.length_nil] <;> omega⟩
    · cases hd; exact ⟨h.shift, by simp only [List.length_cons, List.length_nil] <;> omega⟩

theorem dequeue_isSome (freqs : List (Nat × Nat)) (queue : List QNode)
    (h : 1 ≤ freqs.length + queue.length) : ∃ r, dequeue freqs queue = some r := by
  unfold Prefix.dequeue
  split
  · simp at h
  · exact ⟨_, rfl⟩
  · exact ⟨_, rfl⟩
  · split <;> exact ⟨_, rfl⟩

/-- what we learn about the finished tree. -/
structure Good (n : Nat) (t : HTree) : Prop where
  isNode : IsNode t
  perm : (leaves t).Perm (List.range n)
  anti : Anti (depths t 0)

theorem buildTree_good (n : Nat) : ∀ (fuel : Nat) (freqs : List (Nat × Nat)) (queue : List QNode) (t : HTree),
    Inv n freqs [] (queue.map (·.tree)) → (queue ≠ [] ∨ 2 ≤ freqs.length) →
    buildTree fuel freqs queue = some t → Good n t := by
  intro fuel
  induction fuel with
  | zero => intro freqs queue t _ _ h; simp [buildTree] at h
  | succ fuel ih =>
    intro freqs queue t hinv hne h
    unfold buildTree at h
    split at h
    · rename_i hle
      cases queue with
      | cons q qs =>
        simp only at h
        cases h
        have hq : qs = [] := by
          cases qs with
          | nil => rfl
          | cons a b => simp only [List.length_cons] at hle; omega
        subst hq
        have hf : freqs = [] := by
          cases freqs with
          | nil => rfl
          | cons a b => simp only [List.length_cons] at hle; omega
        subst hf
        refine ⟨hinv.isNode _ (by simp), ?_, ?_⟩
        · simpa [allLeaves] using hinv.perm
        · have := hinv.anti [0] (by simp) (by simp [DOK])
          simpa [LD] using this
      | nil =>
        rcases hne with hne | hne
        · exact absurd rfl hne
        · simp only [List.length_nil] at hle; omega
    · split at h
      · cases h
      · rename_i n0 f1 q1 hd0
        split at h
        · cases h
        · rename_i n1 f2 q2 hd1
          have h0 := (hinv.dequeue hd0).1
          have h1 := (h0.dequeue hd1).1
          have h2 := h1.merge
          refine ih f2 _ t ?_ (Or.inl (by simp)) h
          simpa using h2

theorem buildTree_isSome : ∀ (fuel : Nat) (freqs : List (Nat × Nat)) (queue : List QNode),
    1 ≤ freqs.length + queue.length → freqs.length + queue.length ≤ fuel →
    ∃ t, buildTree fuel freqs queue = some t := by
  intro fuel
  induction fuel with
  | zero => intro freqs queue h1 h2; omega
  | succ fuel ih =>
    intro freqs queue h1 h2
    unfold buildTree
    split
    · split
      · exact ⟨_, rfl⟩
      · exact ⟨_, rfl⟩
      · simp at h1
    · rename_i hgt
      obtain ⟨⟨n0, f1, q1⟩, hd0⟩ := dequeue_isSome freqs queue h1
      have e0 := dequeue_length hd0
      obtain ⟨⟨n1, f2, q2⟩, hd1⟩ := dequeue_isSome f1 q1 (by omega)
      have e1 := dequeue_length hd1
      simp only [hd0, hd1]
      exact ih _ _ (by simp only [List.length_append, List.length_cons, List.length_nil]; omega)
        (by simp only [List.length_append, List.length_cons, List.length_nil]; omega)
where
  dequeue_length {freqs queue x f1 q1} (hd : dequeue freqs queue = some (x, f1, q1)) :
      f1.length + q1.length + 1 = freqs.length + queue.length := by
    unfold Prefix.dequeue at hd
    split at hd
    · cases hd
    · cases hd; simp only [List.length_cons, List.length_nil] <;> omega
    · cases hd; simp only [List.length_cons, List.length_nil] <;> omega
    · split at hd
      · cases hd; simp only [List.length_cons, List.length_nil] <;> omega
      · cases hd; simp only [List.length_cons, List.length_nil] <;> omega

theorem inv_init (counts : List Nat) :
    Inv counts.length ((List.range counts.length).zip counts) [] (([] : List QNode).map (·.tree)) := by
  have hfst : ((List.range counts.length).zip counts).map (·.1) = List.range counts.length := by
    rw [List.map_fst_zip]; simp
  constructor
  · simp [allLeaves, hfst]
  · rw [hfst]; exact List.pairwise_lt_range
  · intro i hi; simp [allLeaves] at hi
  · intro t ht; simp at ht
  · intro ds _ _ x hx; simp [LD] at hx

/-! ### the length vector read off the tree -/

def look (ds : List (Nat × Nat)) (i : Nat) : Nat := ((ds.find? (·.1 == i)).map (·.2)).getD 0

theorem find_of_nodup (ds : List (Nat × Nat)) (hnd : (ds.map (·.1)).Nodup) (p : Nat × Nat)
    (hp : p ∈ ds) : ds.find? (·.1 == p.1) = some p := by
  induction ds with
  | nil => cases hp
  | cons a ds ih =>
    simp only [List.map_cons, List.nodup_cons] at hnd
    rcases List.mem_cons.1 hp with rfl | hp'
    · simp
    · have hne : a.1 ≠ p.1 := by
        intro e
        exact hnd.1 (e ▸ List.mem_map_of_mem hp')
      rw [List.find?_cons_of_neg (by simpa using hne)]
      exact ih hnd.2 hp'

theorem look_of_mem (ds : List (Nat × Nat)) (hnd : (ds.map (·.1)).Nodup) (p : Nat × Nat)
    (hp : p ∈ ds) : look ds p.1 = p.2 := by
  simp [look, find_of_nodup ds hnd p hp]

def treeLens (t : HTree) (n : Nat) : List Nat := (List.range n).map (look (depths t 0))

theorem Good.nodup {n t} (h : Good n t) : ((depths t 0).map (·.1)).Nodup := by
  rw [depths_map_fst]
  exact (h.perm.nodup_iff).2 List.nodup_range

theorem Good.exists_mem {n t} (h : Good n t) {i : Nat} (hi : i < n) :
    ∃ p ∈ depths t 0, p.1 = i ∧ look (depths t 0) i = p.2 := by
  have : i ∈ (depths t 0).map (·.1) := by
    rw [depths_map_fst]; exact h.perm.mem_iff.2 (List.mem_range.2 hi)
  obtain ⟨p, hp, rfl⟩ := List.mem_map.1 this
  exact ⟨p, hp, rfl, look_of_mem _ h.nodup p hp⟩

theorem Good.sum_lens {n t} (h : Good n t) (g : Nat → Nat) :
    ((treeLens t n).map g).sum = ((depths t 0).map (fun p => g p.2)).sum := by
  have h1 : ((treeLens t n).map g) = (List.range n).map (fun i => g (look (depths t 0) i)) := by
    simp [treeLens]
  rw [h1, ← (h.perm.map (fun i => g (look (depths t 0) i))).sum_nat, ← depths_map_fst t 0,
    List.map_map]
  congr 1
  apply List.map_congr_left
  intro p hp
  simp [look_of_mem _ h.nodup p hp]

theorem Good.mem_lens {n t} (h : Good n t) : ∀ p ∈ depths t 0, p.2 ∈ treeLens t n := by
  intro p hp
  have hlt : p.1 < n := by
    have := depths_fst_mem _ _ _ hp
    exact List.mem_range.1 (h.perm.mem_iff.1 this)
  simp only [treeLens, List.mem_map, List.mem_range]
  exact ⟨p.1, hlt, look_of_mem _ h.nodup p hp⟩

theorem Good.kraft {n t} (h : Good n t) (m : Nat) (hm : ∀ l ∈ treeLens t n, l ≤ m) :
    ((treeLens t n).map (fun l => 2 ^ (m - l))).sum = 2 ^ m := by
  rw [h.sum_lens]
  exact ksum_depths t 0 m (fun p hp => hm _ (h.mem_lens p hp))

theorem Good.lens_pos {n t} (h : Good n t) : ∀ l ∈ treeLens t n, 1 ≤ l := by
  intro l hl
  simp only [treeLens, List.mem_map, List.mem_range] at hl
  obtain ⟨i, hi, rfl⟩ := hl
  obtain ⟨p, hp, _, e⟩ := h.exists_mem hi
  rw [e]
  exact depths_gt_of_node t 0 h.isNode p hp

theorem Good.lens_anti {n t} (h : Good n t) {i j : Nat} (hij : i < j) (hj : j < n) :
    look (depths t 0) j ≤ look (depths t 0) i := by
  obtain ⟨p, hp, e1, e2⟩ := h.exists_mem (Nat.lt_trans hij hj)
  obtain ⟨q, hq, e3, e4⟩ := h.exists_mem hj
  rw [e2, e4]
  exact h.anti p hp q hq (by omega)

end Compress.Proofs.PLTree
