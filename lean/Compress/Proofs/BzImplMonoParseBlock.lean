/-
Prefix-monotonicity: trees, symbols, `decodePrefix`, the block body.
-/
import Compress.Proofs.BzImplMonoParseLoops

namespace Compress.Proofs.BzImpl
open Compress Compress.Bzip2 Compress.Prefix
open Compress.Bzip2.Impl (Err M State)

theorem treeOfLens_ok' (lens : List Nat) (numSyms : Nat) (h : LensOK lens numSyms) (d : Decoder)
    (hd : Impl.treeOfLens lens = some d) : TreeOK d := by
  by_cases hc : Impl.kraftSum lens = 2 ^ maxPrefixBits
  · obtain ⟨h1, h2⟩ := treeOK_complete lens numSyms h hc
    rw [h1] at hd
    cases hd
    exact h2
  · unfold Impl.treeOfLens at hd
    rw [if_neg hc] at hd
    cases hd
    exact treeOK_deg lens numSyms h

/-! ### trees -/

theorem ext_readTree (numSyms : Nat) (xs ys : Bits) :
    Ext (Impl.readTree numSyms xs) (Impl.readTree numSyms (xs ++ ys)) ys := by
  unfold Impl.readTree
  rcases Ext.cases (mono_readBitsBE64' 5 xs ys) with ⟨r, h1⟩ | ⟨e, r, r', h1, h2⟩ |
    ⟨clen, b1, h1, h2⟩
  · simp only [h1]; exact Ext.ueof
  · simp only [h1, h2]; exact Ext.err
  simp only [h1, h2]
  rcases Ext.cases (ext_readLens (numSyms * 64 + 64) numSyms clen [] b1 ys) with
    ⟨r, h3⟩ | ⟨e, r, r', h3, h4⟩ | ⟨lens, b2, h3, h4⟩
  · simp only [h3]; exact Ext.ueof
  · simp only [h3, h4]; exact Ext.err
  simp only [h3, h4]
  rcases Impl.treeOfLens lens with _ | d
  · exact Ext.err
  · exact Ext.ok

theorem readTree_ok (numSyms : Nat) (h3 : 3 ≤ numSyms) (h258 : numSyms ≤ 258) (bits : Bits)
    (d : Decoder) (rest : Bits) (h : Impl.readTree numSyms bits = .ok (d, rest)) : TreeOK d := by
  unfold Impl.readTree at h
  rcases h1 : Impl.readBitsBE64 5 bits with e | ⟨clen, b1⟩
  · simp [h1] at h
  simp only [h1] at h
  rcases h2 : Impl.readLens (numSyms * 64 + 64) numSyms clen [] b1 with e | ⟨lens, b2⟩
  · simp [h2] at h
  simp only [h2] at h
  rcases h4 : Impl.treeOfLens lens with _ | d'
  · simp [h4] at h
  simp only [h4, Except.ok.injEq, Prod.mk.injEq] at h
  obtain ⟨rfl, -⟩ := h
  obtain ⟨a, b, -⟩ := readLens_ok _ _ _ _ _ _ _ h2 (by simp)
  exact treeOfLens_ok' lens numSyms ⟨by simpa using a, h3, h258, b⟩ _ h4

theorem ext_readTrees (k numSyms : Nat) (acc : List Decoder) (xs ys : Bits) :
    Ext (Impl.readTrees k numSyms acc xs) (Impl.readTrees k numSyms acc (xs ++ ys)) ys := by
  induction k generalizing acc xs with
  | zero => simp only [Impl.readTrees]; exact Ext.ok
  | succ k ih =>
    simp only [Impl.readTrees]
    rcases Ext.cases (ext_readTree numSyms xs ys) with ⟨r, h1⟩ | ⟨e, r, r', h1, h2⟩ |
      ⟨d, b1, h1, h2⟩
    · simp only [h1]; exact Ext.ueof
    · simp only [h1, h2]; exact Ext.err
    simp only [h1, h2]
    exact ih _ _

theorem readTrees_ok (numSyms : Nat) (h3 : 3 ≤ numSyms) (h258 : numSyms ≤ 258) (k : Nat)
    (acc : List Decoder) (bits : Bits) (ds : List Decoder) (rest : Bits)
    (hacc : ∀ d ∈ acc, TreeOK d) (h : Impl.readTrees k numSyms acc bits = .ok (ds, rest)) :
    ∀ d ∈ ds, TreeOK d := by
  induction k generalizing acc bits with
  | zero =>
    simp only [Impl.readTrees, Except.ok.injEq, Prod.mk.injEq] at h
    obtain ⟨rfl, -⟩ := h
    intro d hd
    exact hacc d (List.mem_reverse.mp hd)
  | succ k ih =>
    simp only [Impl.readTrees] at h
    rcases h1 : Impl.readTree numSyms bits with e | ⟨d, b1⟩
    · simp [h1] at h
    simp only [h1] at h
    apply ih _ _ _ h
    intro d' hd'
    rcases List.mem_cons.mp hd' with rfl | hd'
    · exact readTree_ok numSyms h3 h258 _ _ _ h1
    · exact hacc d' hd'

/-! ### symbols -/

theorem ext_readSyms (trees : Array Decoder) (sels : Array Nat) (numSyms limit : Nat)
    (ht : ∀ i, TreeOK (trees.getD i {})) :
    ∀ (fuel fuel' blkLen selIdx cnt : Nat) (acc : List Nat) (xs ys : Bits),
      xs.length < fuel → (xs ++ ys).length < fuel' →
      Ext (Impl.readSyms trees sels numSyms limit fuel blkLen selIdx cnt acc xs)
        (Impl.readSyms trees sels numSyms limit fuel' blkLen selIdx cnt acc (xs ++ ys)) ys := by
  intro fuel
  induction fuel with
  | zero => intro fuel' blkLen selIdx cnt acc xs ys h; omega
  | succ fuel ih =>
    intro fuel' blkLen selIdx cnt acc xs ys hf hf'
    cases fuel' with
    | zero => omega
    | succ fuel' =>
      have step : ∀ bl si : Nat,
          Ext ((match Impl.readSymbol (trees.getD (sels.getD (si - 1) 0) {}) xs with
              | .error e => .error e
              | .ok (s, rest) =>
                if s = numSyms - 1 then .ok (acc.reverse, rest)
                else if s ≥ numSyms then .error (.corrupted, rest)
                else if cnt ≥ limit then .error (.corrupted, rest)
                else Impl.readSyms trees sels numSyms limit fuel (bl - 1) si (cnt + 1) (s :: acc)
                  rest) : M (List Nat × Bits))
            ((match Impl.readSymbol (trees.getD (sels.getD (si - 1) 0) {}) (xs ++ ys) with
              | .error e => .error e
              | .ok (s, rest) =>
                if s = numSyms - 1 then .ok (acc.reverse, rest)
                else if s ≥ numSyms then .error (.corrupted, rest)
                else if cnt ≥ limit then .error (.corrupted, rest)
                else Impl.readSyms trees sels numSyms limit fuel' (bl - 1) si (cnt + 1) (s :: acc)
                  rest) : M (List Nat × Bits)) ys := by
        intro bl si
        have hT := ht (sels.getD (si - 1) 0)
        rcases Ext.cases (hT.1 xs ys) with ⟨r, h1⟩ | ⟨e, r, r', h1, h2⟩ | ⟨s, b1, h1, h2⟩
        · simp only [h1]; exact Ext.ueof
        · simp only [h1, h2]; exact Ext.err
        simp only [h1, h2]
        have hlt := hT.2 _ _ _ h1
        by_cases hs1 : s = numSyms - 1
        · simp only [hs1, if_true]; exact Ext.ok
        simp only [hs1, if_false]
        by_cases hs2 : s ≥ numSyms
        · simp only [hs2, if_true]; exact Ext.err
        simp only [hs2, if_false]
        by_cases hs3 : cnt ≥ limit
        · simp only [hs3, if_true]; exact Ext.err
        simp only [hs3, if_false]
        apply ih
        · omega
        · rw [List.length_append] at hf' ⊢; omega
      unfold Impl.readSyms
      by_cases hb : blkLen = 0
      · by_cases hsel : selIdx ≥ sels.size
        · simp only [hb, hsel, if_true]; exact Ext.err
        · simp only [hb, hsel, if_true, if_false]
          exact step _ _
      · simp only [hb, if_false]
        exact step _ _

/-! ### `decodePrefix` -/

theorem ext_decodePrefix (level dictLen : Nat) (hd : dictLen ≤ 256) (xs ys : Bits) :
    Ext (Impl.decodePrefix level dictLen xs) (Impl.decodePrefix level dictLen (xs ++ ys)) ys := by
  unfold Impl.decodePrefix
  simp only [bind, Except.bind, throw, throwThe, MonadExceptOf.throw]
  by_cases hns : dictLen + 2 < 3
  · simp only [hns, if_true]; exact Ext.err
  simp only [hns, if_false]
  rcases Ext.cases (mono_readBitsBE64' 3 xs ys) with ⟨r, h1⟩ | ⟨e, r, r', h1, h2⟩ |
    ⟨numTrees, b1, h1, h2⟩
  · simp only [h1]; exact Ext.ueof
  · simp only [h1, h2]; exact Ext.err
  simp only [h1, h2]
  by_cases hnt : numTrees < 2 ∨ numTrees > Impl.maxNumTrees
  · simp only [hnt, if_true]; exact Ext.err
  simp only [hnt, if_false]
  rcases Ext.cases (mono_readBitsBE64' 15 b1 ys) with ⟨r, h3⟩ | ⟨e, r, r', h3, h4⟩ |
    ⟨numSels, b2, h3, h4⟩
  · simp only [h3]; exact Ext.ueof
  · simp only [h3, h4]; exact Ext.err
  simp only [h3, h4]
  rcases Ext.cases (ext_readSels numTrees numSels [] b2 ys) with ⟨r, h5⟩ | ⟨e, r, r', h5, h6⟩ |
    ⟨selsM, b3, h5, h6⟩
  · simp only [h5]; exact Ext.ueof
  · simp only [h5, h6]; exact Ext.err
  simp only [h5, h6]
  rcases Ext.cases (ext_readTrees numTrees (dictLen + 2) [] b3 ys) with
    ⟨r, h7⟩ | ⟨e, r, r', h7, h8⟩ | ⟨trees, b4, h7, h8⟩
  · simp only [h7]; exact Ext.ueof
  · simp only [h7, h8]; exact Ext.err
  simp only [h7, h8]
  have hok := readTrees_ok (dictLen + 2) (by omega) (by omega) numTrees [] b3 trees b4
    (by simp) h7
  apply ext_readSyms
  · intro i
    by_cases hi : i < trees.length
    · have : trees.toArray.getD i {} = trees[i] := by
        simp [Array.getD, hi]
      rw [this]
      exact hok _ (List.getElem_mem hi)
    · have : trees.toArray.getD i {} = {} := by
        simp [Array.getD, hi]
      rw [this]
      exact treeOK_empty
  · omega
  · omega

/-! ### the block body -/

theorem mono_blockBody' (level : Nat) : Mono (fun bits =>
    match Impl.blockBody level bits with
    | .ok (buf, crc, rest) => .ok ((buf, crc), rest)
    | .error e => .error e) := by
  intro xs ys
  show Ext _ _ ys
  unfold Impl.blockBody
  simp only [bind, Except.bind, throw, throwThe, MonadExceptOf.throw, pure, Except.pure]
  rcases Ext.cases (mono_readBitsBE64' 32 xs ys) with ⟨r, h1⟩ | ⟨e, r, r', h1, h2⟩ |
    ⟨crc, b2, h1, h2⟩
  · simp only [h1]; exact Ext.ueof
  · simp only [h1, h2]; exact Ext.err
  simp only [h1, h2]
  rcases Ext.cases (mono_readBitsBE64' 1 b2 ys) with ⟨r, h3⟩ | ⟨e, r, r', h3, h4⟩ |
    ⟨rnd, b3, h3, h4⟩
  · simp only [h3]; exact Ext.ueof
  · simp only [h3, h4]; exact Ext.err
  simp only [h3, h4]
  by_cases hrnd : rnd ≠ 0
  · rw [if_pos hrnd, if_pos hrnd]; exact Ext.err
  rw [if_neg hrnd, if_neg hrnd]
  rcases Ext.cases (mono_readBitsBE64' 24 b3 ys) with ⟨r, h5⟩ | ⟨e, r, r', h5, h6⟩ |
    ⟨ptr, b4, h5, h6⟩
  · simp only [h5]; exact Ext.ueof
  · simp only [h5, h6]; exact Ext.err
  simp only [h5, h6]
  rcases Ext.cases (mono_readSymMap' b4 ys) with ⟨r, h7⟩ | ⟨e, r, r', h7, h8⟩ |
    ⟨dict, b5, h7, h8⟩
  · simp only [h7]; exact Ext.ueof
  · simp only [h7, h8]; exact Ext.err
  simp only [h7, h8]
  have hdl := (readSymMap_length _ _ _ h7).1
  rcases Ext.cases (ext_decodePrefix level dict.length hdl b5 ys) with
    ⟨r, h9⟩ | ⟨e, r, r', h9, h10⟩ | ⟨syms, b6, h9, h10⟩
  · simp only [h9]; exact Ext.ueof
  · simp only [h9, h10]; exact Ext.err
  simp only [h9, h10]
  rcases mtfDecode (level * blockSize) dict syms 0 0 #[] with _ | buf
  · exact Ext.err
  simp only []
  by_cases hp : ptr ≥ buf.size
  · simp only [hp, if_true]; exact Ext.err
  · simp only [hp, if_false]; exact Ext.ok

end Compress.Proofs.BzImpl
