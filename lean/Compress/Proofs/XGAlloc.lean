/-
C08 for the index parser of xflate.Reader: in the repaired code every chunk
entry appended while parsing stands for at least five bytes of the stream.
-/
import Compress.XFlate.Open
import Compress.Proofs.XWIndexParse

namespace Compress.Proofs.XGAlloc
open Compress Compress.XFlate Compress.Proofs.XWShape

theorem readVLI_nonneg (st : VLIState) : 0 ≤ (readVLI st).1 := by
  unfold readVLI
  simp only
  split
  · exact Int.le_refl _
  · exact Int.natCast_nonneg _

/-- `.fixed`: the ghost count is the number of chunks returned. -/
theorem readChunks_fixed_len : ∀ (k : Nat) (st : VLIState) (acc : List (Int × Int)) (alloc : Nat),
    (readChunks .fixed k st acc alloc).1.length + alloc =
      acc.length + (readChunks .fixed k st acc alloc).2.2
  | 0, st, acc, alloc => by simp [readChunks]
  | k+1, st, acc, alloc => by
    rw [readChunks]
    split
    · simp
    · simp only
      have := readChunks_fixed_len k (readVLI (readVLI st).2).2
        (((readVLI st).1, (readVLI (readVLI st).2).1) :: acc) (alloc + 1)
      simp only [List.length_cons] at this
      omega

/-- every record `build` appends has compressed size at least five. -/
theorem build_comp : ∀ (l : List (Int × Int)) (recs recs' : List Record),
    decodeIndex.build l recs = .ok recs' → lastC recs + 5 * (l.length : Int) ≤ lastC recs'
  | [], recs, recs', h => by
    simp only [decodeIndex.build, Except.ok.injEq] at h
    subst h; simp
  | (cs, rs) :: rest, recs, recs', h => by
    rw [decodeIndex.build] at h
    split at h
    · cases h
    · rename_i hcs
      split at h
      · cases h
      · rename_i r1 har
        have ih := build_comp rest r1 recs' h
        unfold appendRecord at har
        simp only at har
        split at har
        · cases har
        · split at har
          · cases har
          · simp only [Option.some.injEq] at har
            subst har
            have : lastC (recs ++ [⟨(lastRecord recs).comp + cs, (lastRecord recs).raw + rs, deflateType⟩])
                = lastC recs + cs := by
              unfold lastC; rw [lastRecord_snoc]
            rw [this] at ih
            simp only [List.length_cons]
            omega

theorem ite_ok {α : Type} {c : Prop} [Decidable c] {e : Err} {x : Except Err α} {r : α}
    (h : (if c then Except.error e else x) = .ok r) : ¬ c ∧ x = .ok r := by
  split at h
  · cases h
  · exact ⟨‹_›, h⟩

theorem idxTail_alloc (crc : List UInt8 → Nat) (bw : List UInt8) (final : Meta.FinalMode)
    (consumed : Nat) (size : Int) (ir : IndexResult)
    (h : idxTail .fixed crc bw final consumed size = .ok ir) :
    5 * (ir.alloc : Int) ≤ lastC ir.recs ∧ 0 ≤ ir.backSize := by
  unfold idxTail at h
  simp only at h
  obtain ⟨_, h⟩ := ite_ok h
  obtain ⟨_, h⟩ := ite_ok h
  obtain ⟨_, h⟩ := ite_ok h
  obtain ⟨_, h⟩ := ite_ok h
  obtain ⟨_, h⟩ := ite_ok h
  split at h
  · cases h
  · rename_i recs hb
    obtain ⟨_, h⟩ := ite_ok h
    simp only [Except.ok.injEq] at h
    subst h
    refine ⟨?_, readVLI_nonneg _⟩
    have h1 := build_comp _ _ _ hb
    have h2 := readChunks_fixed_len
      (readVLI (readVLI { buf := bw }).2).1.toNat
      (readVLI (readVLI (readVLI (readVLI { buf := bw }).2).2).2).2 [] 0
    simp only [List.length_nil, lastC, lastRecord_nil, Record.zero] at h1 h2
    simp only [lastC]
    generalize readChunks Variant.fixed _ _ [] 0 = rc at h1 h2 ⊢
    obtain ⟨chs, st5, al⟩ := rc
    simp only at h1 h2 ⊢
    omega

theorem decodeIndex_alloc (crc : List UInt8 → Nat) (stream : List UInt8) (pos size : Int)
    (ir : IndexResult) (h : decodeIndex .fixed crc stream pos size = .ok ir) :
    5 * (ir.alloc : Int) ≤ lastC ir.recs ∧ 0 ≤ ir.backSize := by
  rw [decodeIndex_eq] at h
  split at h
  · cases h
  · exact idxTail_alloc crc _ _ _ _ ir h

theorem walk_alloc (crc : List UInt8 → Nat) (stream : List UInt8) :
    ∀ (fuel : Nat) (pos back comp : Int) (acc : List (Int × List Record)) (alloc : Nat)
      (idxs : List (Int × List Record)) (alloc' : Nat),
      walkIndexes .fixed crc stream fuel pos back comp acc alloc = .ok (idxs, alloc') →
      5 * (alloc' : Int) ≤ 5 * (alloc : Int) + (pos - (back + comp)) ∧ pos - (back + comp) ≤ pos
  | 0, _, _, _, _, _, _, _, h => by simp [walkIndexes] at h
  | fuel+1, pos, back, comp, acc, alloc, idxs, alloc', h => by
    rw [walkIndexes] at h
    split at h
    · cases h
    · rename_i hnp
      split at h
      · split at h
        · cases h
        · simp only [Except.ok.injEq, Prod.mk.injEq] at h
          obtain ⟨_, rfl⟩ := h
          omega
      · split at h
        · cases h
        · rename_i ir hdi
          obtain ⟨a1, a2⟩ := decodeIndex_alloc crc stream _ _ ir hdi
          obtain ⟨i1, i2⟩ := walk_alloc crc stream fuel _ _ _ _ _ idxs alloc' h
          unfold lastC at a1
          refine ⟨?_, by omega⟩
          push_cast at i1
          omega

theorem decodeFooter_nonneg (stream : List UInt8) (b f : Int)
    (h : decodeFooter stream = .ok (b, f)) : 0 ≤ f := by
  unfold decodeFooter at h
  simp only at h
  obtain ⟨_, h⟩ := ite_ok h
  split at h
  · cases h
  · obtain ⟨_, h⟩ := ite_ok h
    obtain ⟨_, h⟩ := ite_ok h
    obtain ⟨_, h⟩ := ite_ok h
    obtain ⟨_, h⟩ := ite_ok h
    obtain ⟨_, h⟩ := ite_ok h
    simp only [Except.ok.injEq, Prod.mk.injEq] at h
    rw [← h.2]
    exact Int.natCast_nonneg _

/-- **C08** with the constant: five stream bytes per appended entry. -/
theorem open_alloc5 (crc : List UInt8 → Nat) (stream : List UInt8) (r : OpenResult)
    (h : openIndex .fixed crc stream = .ok r) : 5 * r.alloc ≤ stream.length := by
  unfold openIndex at h
  split at h
  · cases h
  · rename_i back foot hfoot
    have hf := decodeFooter_nonneg stream back foot hfoot
    simp only at h
    split at h
    · cases h
    · rename_i idxs alloc hw
      obtain ⟨w1, w2⟩ := walk_alloc crc stream _ _ _ _ _ _ idxs alloc hw
      split at h
      · cases h
      · split at h
        · cases h
        · simp only [Except.ok.injEq] at h
          subst h
          simp only
          omega

end Compress.Proofs.XGAlloc
