/-
C02 refinement, layer (d), tables: `prefixDecoder.Init(codes, true)` of brotli
(`Impl.initDecoder`) builds a two-level table that decodes the canonical code
of the lengths (`tableSpec`), refuses incomplete / unordered lists
(`initFails`), and, given the specification side (`WalkSpec`), agrees with the
counting decoder of the specification (`initTreeRel_of_walk`).
-/
import Compress.Proofs.BrImplTableAux

namespace Compress.Proofs.BrImpl
open Compress Compress.Brotli Compress.Prefix
open Compress.Proofs.PrefixCodes Compress.Proofs.PrefixTables Compress.Proofs.FlateRefine

/-! ### `Init`, unfolded -/

/-- the decoder `Init` assembles once all checks have passed. -/
def mkDec (cs : List Code) (next : Nat → Nat) (minBits maxBits : Nat) : Decoder :=
  let CB := min maxBits 9
  let p : Array Nat × Nat × Nat :=
    if CB < maxBits then (linkChunks (next (CB + 1) / 2) CB, 2 ^ CB - next (CB + 1) / 2, 2 ^ (maxBits - CB) - 1)
    else (Array.replicate (2 ^ CB) 0, 0, 0)
  let q := (assignVals cs next).foldl (mainStep CB) (p.1, Array.replicate p.2.1 (Array.replicate (p.2.2 + 1) 0))
  { chunks := q.1, links := q.2, chunkMask := 2 ^ CB - 1, linkMask := p.2.2,
    chunkBits := CB, minBits := minBits, numSyms := cs.length }

theorem init_unfold (a b : Code) (rest : List Code) :
    Impl.initDecoder (a :: b :: rest) true =
      let cs := a :: b :: rest
      let mn := (b :: rest).foldl (fun m c => min m c.len) a.len
      let mx := (b :: rest).foldl (fun m c => max m c.len) a.len
      if cs.any (fun c => c.len > 15) then .error .invalid
      else if !symsIncreasing cs then .error .corrupted
      else if mx ≥ 32 ∨ mn = 0 then .error .corrupted
      else if (cs.getLast?.getD a).sym ≥ 2 ^ 27 then .error .corrupted
      else if (nextCodesLoop cs (mx + 1 - mn) mn 0 []).2 ≠ 2 ^ mx then .error .corrupted
      else .ok (mkDec cs (nextOf (nextCodesLoop cs (mx + 1 - mn) mn 0 []).1) mn mx) := by
  rfl

theorem minB_cons (a b : Code) (rest : List Code) :
    (b :: rest).foldl (fun m c => min m c.len) a.len = minB (a :: b :: rest) := by
  simp [minB, List.head!]

theorem maxB_cons (a b : Code) (rest : List Code) :
    (b :: rest).foldl (fun m c => max m c.len) a.len = maxB (a :: b :: rest) := by
  simp [maxB]

theorem range_of (cs : List Code) :
    ∀ c ∈ cs, minB cs ≤ c.len ∧ c.len ≤ maxB cs :=
  fun c hc => ⟨(foldl_min_le _ _).2 c hc, (le_foldl_max _ _).2 c hc⟩

/-- the `nextCodes` loop of `Init` in closed form (as in `gp_valid`). -/
theorem loop_closed (cs : List Code) (hne : cs ≠ []) :
    (nextCodesLoop cs (maxB cs + 1 - minB cs) (minB cs) 0 []).2 = endCode cs (maxB cs) ∧
    nextOf (nextCodesLoop cs (maxB cs + 1 - minB cs) (minB cs) 0 []).1 = nextFn cs := by
  have hrange := range_of cs
  have hmm : minB cs ≤ maxB cs := by
    obtain ⟨c, hc⟩ := List.exists_mem_of_ne_nil cs hne
    have := hrange c hc; omega
  have hz : 2 * 0 = firstCode cs (minB cs) := by
    rw [firstCode_eq_zero _ _ (fun c hc => (hrange c hc).1)]
  obtain ⟨s1, s2⟩ := nextCodesLoop_spec cs (maxB cs + 1 - minB cs) (minB cs) 0 [] hz
  have e : minB cs + (maxB cs + 1 - minB cs) = maxB cs + 1 := by omega
  rw [e] at s1 s2
  rw [firstCode_succ'] at s1
  refine ⟨by omega, ?_⟩
  funext l
  simp only [nextOf, nextFn, s2 l]
  split <;> simp

/-! ### the canonical code words -/

theorem canon_len_mem (cs : List Code) (c : Code) (hc : c ∈ canon cs) : ∃ y ∈ cs, y.len = c.len := by
  have : c.len ∈ (assignVals cs (nextFn cs)).map (·.len) := List.mem_map.2 ⟨c, hc, rfl⟩
  rw [(assignVals_shape cs (nextFn cs)).2] at this
  exact List.mem_map.1 this

theorem canon_facts (cs : List Code) (ok : CodesOK cs) (c : Code) (hc : c ∈ canon cs) :
    firstCode cs c.len ≤ c.canon ∧ c.canon < endCode cs c.len ∧ c.val < 2 ^ c.len ∧
      1 ≤ c.len ∧ c.len ≤ 15 ∧ minB cs ≤ c.len ∧ c.len ≤ maxB cs := by
  obtain ⟨y, hy, e⟩ := canon_len_mem cs c hc
  have hb := assignVals_canon (endCode cs) cs (nextFn cs)
    (by intro l; unfold nextFn endCode; split <;> omega)
    (fun c hc => endCode_le_pow cs 15 c.len ok.full (ok.lens c hc).2) c hc
  have hn := nextFn_eq cs y hy
  rw [e] at hn
  rw [hn] at hb
  have hr := range_of cs y hy
  have hl := ok.lens y hy
  rw [e] at hr hl
  exact ⟨hb.1, hb.2, assignVals_val_lt _ _ c hc, hl.1, hl.2, hr.1, hr.2⟩

/-- the first canonical code of length `CB + 1`, halved, is one past the last code of length `CB`. -/
theorem base_eq (cs : List Code) (CB : Nat) (h : CB < maxB cs) :
    nextFn cs (CB + 1) / 2 = endCode cs CB := by
  have hf := firstCode_succ' cs CB
  unfold nextFn
  split
  · omega
  · rename_i hn
    have : firstCode cs (CB + 1) = 0 := firstCode_eq_zero _ _ (fun c hc => by
      have := (range_of cs c hc).1; omega)
    omega

theorem res_long (cs : List Code) (ok : CodesOK cs) (CB : Nat) :
    Res' (canon cs) CB (2 ^ CB - endCode cs CB) (linkChunks (endCode cs CB) CB) := by
  have hpos : 0 < 2 ^ CB := Nat.two_pow_pos CB
  -- the first-level entry of a long code
  have hlong : ∀ c ∈ canon cs, CB < c.len →
      endCode cs CB ≤ reverseBits (c.val % 2 ^ CB) CB := by
    intro c hc hl
    obtain ⟨h1, _, _⟩ := canon_facts cs ok c hc
    rw [rev_mod c.val CB c.len (Nat.le_of_lt hl), Nat.le_div_iff_mul_le (Nat.two_pow_pos _)]
    obtain ⟨d, hd⟩ : ∃ d, c.len = CB + d + 1 := ⟨c.len - CB - 1, by omega⟩
    have := endCode_mul_le_firstCode cs CB d
    rw [← hd] at this
    have e : c.len - CB = d + 1 := by omega
    rw [e]
    exact Nat.le_trans this h1
  refine ⟨linkChunks_size _ _, ?_, ?_, ?_⟩
  · intro c hc hl
    have hb := hlong c hc hl
    have hr := reverseBits_lt (c.val % 2 ^ CB) CB
    rw [linkChunks_getD _ _ _ (Nat.mod_lt _ hpos), if_pos hb]
    exact ⟨_, by omega, rfl⟩
  · intro c hc hs idx hidx hv
    obtain ⟨_, h2, _⟩ := canon_facts cs ok c hc
    rw [linkChunks_getD _ _ _ hidx, if_neg]
    intro hb
    have e : c.canon = reverseBits idx CB / 2 ^ (CB - c.len) := by
      rw [← rev_mod idx c.len CB hs, hv]; rfl
    have h3 := endCode_mul_le_endCode cs c.len (CB - c.len)
    rw [show c.len + (CB - c.len) = CB by omega] at h3
    have h4 : reverseBits idx CB < endCode cs c.len * 2 ^ (CB - c.len) := by
      rw [← Nat.div_lt_iff_lt_mul (Nat.two_pow_pos _), ← e]; exact h2
    omega
  · intro a ha b hb hal hbl he
    have h1 := hlong a ha hal
    have h2 := hlong b hb hbl
    rw [linkChunks_getD _ _ _ (Nat.mod_lt _ hpos), if_pos h1,
      linkChunks_getD _ _ _ (Nat.mod_lt _ hpos), if_pos h2] at he
    have e : reverseBits (a.val % 2 ^ CB) CB = reverseBits (b.val % 2 ^ CB) CB := by omega
    have := congrArg (fun x => reverseBits x CB) e
    rwa [rev_rev _ _ (Nat.mod_lt _ hpos), rev_rev _ _ (Nat.mod_lt _ hpos)] at this

theorem res_short' (cs : List Code) (CB : Nat) (hs : ∀ c ∈ cs, c.len ≤ CB) :
    Res' cs CB 0 (Array.replicate (2 ^ CB) 0) := by
  refine ⟨by simp, ?_, ?_, ?_⟩
  · intro c hc hl; have := hs c hc; omega
  · intro c _ _ idx hidx _; rw [getD_replicate, if_pos hidx]
  · intro a ha b hb hal; have := hs a ha; omega

theorem mkDec_built (cs : List Code) (ok : CodesOK cs) (mn : Nat) :
    Built (canon cs) (maxB cs) (mkDec cs (nextFn cs) mn (maxB cs)) ∧
      (mkDec cs (nextFn cs) mn (maxB cs)).minBits = mn := by
  refine ⟨?_, rfl⟩
  by_cases hlt : min (maxB cs) 9 < maxB cs
  · have hb := base_eq cs (min (maxB cs) 9) hlt
    refine ⟨⟨_, _, res_long cs ok (min (maxB cs) 9), ?_⟩, rfl, ?_, rfl⟩
    · simp only [mkDec, hlt, if_true, hb]
      rfl
    · simp only [mkDec, hlt, if_true]
      exact Nat.sub_add_cancel Nat.one_le_two_pow
  · have hM : min (maxB cs) 9 = maxB cs := by omega
    refine ⟨⟨0, _, res_short' (canon cs) (min (maxB cs) 9) (fun c hc => by
      rw [hM]; exact (canon_facts cs ok c hc).2.2.2.2.2.2), ?_⟩, rfl, ?_, rfl⟩
    · simp only [mkDec, if_neg hlt]
      rfl
    · simp only [mkDec, if_neg hlt]
      rw [hM, Nat.sub_self]

/-! ### `Init` accepts complete lists -/

theorem validLens_of (cs : List Code) (h2 : 2 ≤ cs.length) (hinc : symsIncreasing cs = true)
    (hl : ∀ c ∈ cs, 1 ≤ c.len ∧ c.len ≤ 15) : ValidLens cs :=
  ⟨h2, hinc, fun c hc => ⟨(hl c hc).1, by have := (hl c hc).2; simp only [valueBits]; omega⟩⟩

theorem minB_pos (cs : List Code) (hne : cs ≠ []) (hl : ∀ c ∈ cs, 1 ≤ c.len) : 1 ≤ minB cs := by
  cases cs with
  | nil => exact absurd rfl hne
  | cons a l => exact le_foldl_min _ _ 1 (hl _ (by simp [List.head!])) (fun c hc => hl c hc)

theorem init_ok (cs : List Code) (h2 : 2 ≤ cs.length) (hinc : symsIncreasing cs = true)
    (ok : CodesOK cs) (hsym : ∀ c ∈ cs, c.sym < 2 ^ 27) :
    Impl.initDecoder cs true = .ok (mkDec cs (nextFn cs) (minB cs) (maxB cs)) := by
  match cs, h2 with
  | a :: b :: rest, _ =>
    have hne : a :: b :: rest ≠ [] := by simp
    have h15 : ∀ c ∈ a :: b :: rest, c.len ≤ 15 := fun c hc => (ok.lens c hc).2
    obtain ⟨l1, l2⟩ := loop_closed (a :: b :: rest) hne
    have hM := maxB_le _ h15
    have hm := minB_pos _ hne (fun c hc => (ok.lens c hc).1)
    rw [init_unfold]
    dsimp only
    rw [minB_cons, maxB_cons, l1, l2]
    have c1 : (a :: b :: rest).any (fun c => decide (c.len > 15)) = false := by
      rw [List.any_eq_false]
      intro c hc
      have := h15 c hc
      simp; omega
    have c4 : ¬ ((a :: b :: rest).getLast?.getD a).sym ≥ 2 ^ 27 := by
      rw [List.getLast?_eq_some_getLast hne, Option.getD_some]
      have := hsym _ (List.getLast_mem hne)
      omega
    rw [c1, hinc, if_neg (by simp), if_neg (by simp), if_neg (by omega), if_neg c4,
      if_neg (by rw [(endCode_maxB_iff _ h15).2 ok.full]; simp)]

/-! ### `ReadSymbol` on the table -/

theorem read_code (cs : List Code) (ok : CodesOK cs) (d : Decoder) (hb : Built (canon cs) (maxB cs) d)
    (hmb : d.minBits = minB cs) (hM : maxB cs ≤ 15) (hg : GoodCodes (canon cs))
    (c : Code) (hc : c ∈ canon cs) (r : Impl.BR) (rest : Bits) (hr : r.bits = c.word ++ rest) :
    Impl.readSymbol d r = (.ok c.sym, { bits := rest, used := r.used + c.len }) := by
  obtain ⟨_, _, hval, _, h15, hmin, hmax⟩ := canon_facts cs ok c hc
  obtain ⟨hl, hsz⟩ := built_lookup (canon cs) (maxB cs) d hb
    (fun c hc => (canon_facts cs ok c hc).2.2.2.2.2.2) (by omega) hg.vals hg.pf c hc
    (Bits.toNat (r.bits.take 32)) (by rw [hr, word_take c (by omega), Nat.mod_eq_of_lt hval])
  have hwl : c.word.length = c.len := word_length c
  have hlen : c.len ≤ (r.bits.take 32).length := by
    rw [hr, List.length_take, List.length_append, hwl]; omega
  have hdrop : List.drop c.len (c.word ++ rest) = rest := by rw [← hwl, List.drop_left]
  have hpos : 0 < 2 ^ (min (maxB cs) 9) := Nat.two_pow_pos _
  unfold Impl.readSymbol
  rw [if_neg (by omega)]
  dsimp only
  rw [if_neg (by omega), hl]
  dsimp only
  rw [if_pos hlen, hr, hdrop]

theorem read_eof (cs : List Code) (ok : CodesOK cs) (d : Decoder) (hb : Built (canon cs) (maxB cs) d)
    (hM : maxB cs ≤ 15) (hg : GoodCodes (canon cs))
    (r : Impl.BR) (hno : ∀ c ∈ canon cs, ¬ c.word <+: r.bits) :
    Impl.readSymbol d r = (.error .unexpectedEOF, r) := by
  have hlen : r.bits.length < 15 := by
    apply Classical.byContradiction
    intro hge
    rcases decode_res (tabOf cs) cs (tabOf_ok cs) ok r.bits with ⟨c, hc, rest, hfull, _⟩ | ⟨_, hl, _⟩
    · exact hno c hc ⟨rest, hfull.symm⟩
    · omega
  rcases decode_res (tabOf cs) cs (tabOf_ok cs) ok (r.bits ++ List.replicate 15 false) with
    ⟨c, hc, rest, hfull, _⟩ | ⟨_, hl, _⟩
  · have hc' : c ∈ canon cs := hc
    obtain ⟨_, _, hval, _, h15, hmin, hmax⟩ := canon_facts cs ok c hc'
    obtain ⟨hlook, hsz⟩ := built_lookup (canon cs) (maxB cs) d hb
      (fun c hc => (canon_facts cs ok c hc).2.2.2.2.2.2) (by omega) hg.vals hg.pf c hc'
      (Bits.toNat ((c.word ++ rest).take 32)) (by rw [word_take c (by omega), Nat.mod_eq_of_lt hval])
    rw [← hfull, List.take_of_length_le (by simp; omega), toNat_append_false] at hlook
    have hclen : r.bits.length < c.len := by
      apply Nat.lt_of_not_le
      intro hle
      apply hno c hc'
      rw [List.prefix_iff_eq_take, word_length]
      have := congrArg (List.take c.len) hfull
      rw [List.take_append_of_le_length hle, List.take_append_of_le_length
        (by rw [word_length]; exact Nat.le_refl _), ← word_length c, List.take_length] at this
      rw [word_length] at this
      exact this.symm
    have hpos : 0 < 2 ^ (min (maxB cs) 9) := Nat.two_pow_pos _
    unfold Impl.readSymbol
    rw [if_neg (by omega)]
    dsimp only
    rw [List.take_of_length_le (by omega)]
    split
    · rfl
    · rw [hlook]
      dsimp only
      rw [if_neg (by omega)]
  · simp at hl; omega

/-- **(d), model side.** -/
theorem tableSpec : TableSpec := by
  intro cs h2 hinc ok hsym
  have h15 : ∀ c ∈ cs, c.len ≤ 15 := fun c hc => (ok.lens c hc).2
  have hg : GoodCodes (canon cs) := (gp_ok cs (validLens_of cs h2 hinc ok.lens) h15 ok.full).2
  obtain ⟨hb, hmb⟩ := mkDec_built cs ok (minB cs)
  have hM := maxB_le cs h15
  exact ⟨_, init_ok cs h2 hinc ok hsym, fun r =>
    ⟨fun c hc rest hr => read_code cs ok _ hb hmb hM hg c hc r rest hr,
     fun hno => read_eof cs ok _ hb hM hg r hno⟩⟩

/-! ### `Init` refuses everything else -/

theorem kraft15_eq (cs : List Code) (h : ∀ c ∈ cs, c.len ≤ 15) : kraft15 cs = endCode cs 15 := by
  induction cs with
  | nil => rfl
  | cons c cs ih =>
    rw [endCode_cons c cs 15 (h c List.mem_cons_self), ← ih (fun x hx => h x (List.mem_cons_of_mem _ hx))]
    simp [kraft15]

/-- **(d), tables, refusal.** -/
theorem initFails : InitFails := by
  intro codes h2 hl hbad
  match codes, h2 with
  | a :: b :: rest, _ =>
    have hne : a :: b :: rest ≠ [] := by simp
    have h15 : ∀ c ∈ a :: b :: rest, c.len ≤ 15 := fun c hc => (hl c hc).2
    obtain ⟨l1, l2⟩ := loop_closed (a :: b :: rest) hne
    rw [init_unfold]
    dsimp only
    rw [minB_cons, maxB_cons, l1]
    split
    · exact ⟨_, rfl, by decide⟩
    split
    · exact ⟨_, rfl, by decide⟩
    split
    · exact ⟨_, rfl, by decide⟩
    split
    · exact ⟨_, rfl, by decide⟩
    split
    · exact ⟨_, rfl, by decide⟩
    rename_i _ hinc _ _ hcode
    exfalso
    have hinc : symsIncreasing (a :: b :: rest) = true := by simpa using hinc
    have hcode : endCode (a :: b :: rest) (maxB (a :: b :: rest)) = 2 ^ maxB (a :: b :: rest) :=
      Decidable.of_not_not hcode
    rcases hbad with h | h
    · rw [hinc] at h; cases h
    · exact h (by rw [kraft15_eq _ h15]; exact (endCode_maxB_iff _ h15).1 hcode)

/-! ### both sides -/

theorem codesOK_of (codes : List Code) (hl : ∀ c ∈ codes, 1 ≤ c.len ∧ c.len ≤ 15)
    (hk : kraft15 codes = 2 ^ 15) : CodesOK codes :=
  ⟨hl, by rw [← kraft15_eq codes (fun c hc => (hl c hc).2)]; exact hk⟩

/-- **(d), tables.** -/
theorem initTreeRel_of_walk (hW : WalkSpec) : InitTreeRel := by
  intro codes n hn h2 hinc hall hk
  have ok := codesOK_of codes (fun c hc => (hall c hc).2) hk
  have hsymn : ∀ c ∈ codes, c.sym < n := fun c hc => (hall c hc).1
  obtain ⟨d, hd, hread⟩ := tableSpec codes h2 hinc ok (fun c hc => by have := hsymn c hc; omega)
  refine ⟨d, hd, ?_, ?_⟩
  · intro st
    unfold SimAt
    rcases hW codes n h2 hinc hsymn ok st with ⟨c, hc, rest, hbits, hspec⟩ | ⟨hno, e, st', hspec, hout⟩
    · have h1 := (hread (brOf st)).1 c hc rest hbits
      rw [h1, hspec]
      dsimp only
      have hwl : c.word.length = c.len := word_length c
      refine ⟨c.len, ?_, ?_, rfl, rfl⟩
      · rw [hbits, List.length_append, hwl]; omega
      · simp only [brOf, stAt]
        rw [hbits, ← hwl, List.drop_left]
    · have h1 := (hread (brOf st)).2 hno
      rw [h1, hspec]
      exact ⟨by decide, hout⟩
  · intro st st' s hs
    rcases hW codes n h2 hinc hsymn ok st with ⟨c, hc, rest, hbits, hspec⟩ | ⟨hno, e, st'', hspec, hout⟩
    · rw [hspec] at hs
      have e : c.sym = s := by injection hs with h _; injection h
      obtain ⟨c', hc', e'⟩ := sym_of_assign codes _ c hc
      rw [← e, ← e']; exact hsymn c' hc'
    · rw [hspec] at hs
      injection hs with h _; cases h

end Compress.Proofs.BrImpl
