/-
C12: flushed data survives truncation; a cut stream is never misread by a
DEFLATE decoder.  Statements first; helper lemmas in `Compress/Proofs/XD*.lean`.
-/
import Compress.XFlate.WriterSpec
import Compress.Proofs.XFlateStream
import Compress.Proofs.FlatePrefix
import Compress.Proofs.XDAux
import Compress.Proofs.XDWitness

namespace Compress.Proofs.XFlateDurable
open Compress Compress.XFlate
open Compress.Proofs.XWLog Compress.Proofs.XWShape Compress.Proofs.XDAux

/-- flush-delimited pieces of the compressor log: (bytes emitted, data accepted) between
    consecutive `Flush`/`Reset` calls of the compressor. -/
def piecesOf : List (ZEv × List UInt8) → List UInt8 → List UInt8 → List (List UInt8 × List UInt8)
  | [], bytes, data => if bytes.isEmpty ∧ data.isEmpty then [] else [(bytes, data)]
  | (ev, d) :: rest, bytes, data =>
    if ev.kind = .zreset then
      (if bytes.isEmpty ∧ data.isEmpty then [] else [(bytes, data)]) ++ piecesOf rest [] []
    else if ev.kind = .zflush then
      (bytes ++ ev.emitted, data ++ d) :: piecesOf rest [] []
    else piecesOf rest (bytes ++ ev.emitted) (data ++ d)

/-! ### pieces and reset-delimited groups -/

/-- a group whose flushed part is transparent stays transparent when the pending
    piece (empty, or under the contract) is added. -/
theorem acc_transp (b d B D : List UInt8)
    (h : ∀ c ∈ (if b.isEmpty ∧ d.isEmpty then [] else [(b, d)] : List Grp), ZChunkOK c.1 c.2)
    (hT : Transp B D) : Transp (B ++ b) (D ++ d) := by
  by_cases he : b.isEmpty ∧ d.isEmpty
  · simp only [List.isEmpty_iff] at he
    rw [he.1, he.2, List.append_nil, List.append_nil]
    exact hT
  · rw [if_neg he] at h
    exact transp_append hT (transp_of_chunk (h (b, d) (List.mem_singleton.2 rfl)))

/-- **pieces vs chunks.** Every reset-delimited group of the compressor log is the
    concatenation of its flush-delimited pieces: with the contract on every piece, every
    closed group and the open group are transparent.  `(B, D)` is the part of the current
    group made of complete pieces, `(b, d)` the piece being accumulated. -/
theorem pieces_transp : ∀ (l : ZLog) (b d B D : List UInt8),
    (∀ c ∈ piecesOf l b d, ZChunkOK c.1 c.2) → Transp B D →
    (∀ c ∈ closedOf l (B ++ b) (D ++ d), Transp c.1 c.2) ∧
    Transp (openOf l (B ++ b) (D ++ d)).1 (openOf l (B ++ b) (D ++ d)).2
  | [], b, d, B, D, h, hT => by
    refine ⟨fun c hc => by simp [closedOf] at hc, ?_⟩
    simp only [openOf]
    exact acc_transp b d B D (by simpa only [piecesOf] using h) hT
  | (ev, dd) :: rest, b, d, B, D, h, hT => by
    unfold piecesOf at h
    unfold closedOf openOf
    by_cases hr : ev.kind = .zreset
    · simp only [if_pos hr] at h ⊢
      have ih := pieces_transp rest [] [] [] []
        (fun c hc => h c (List.mem_append_right _ hc)) transp_nil
      simp only [List.append_nil] at ih
      refine ⟨?_, ih.2⟩
      intro c hc
      rcases List.mem_cons.1 hc with hc | hc
      · subst hc
        exact acc_transp b d B D (fun c hc => h c (List.mem_append_left _ hc)) hT
      · exact ih.1 c hc
    · simp only [if_neg hr] at h ⊢
      by_cases hf : ev.kind = .zflush
      · simp only [if_pos hf] at h
        have hT' : Transp (B ++ (b ++ ev.emitted)) (D ++ (d ++ dd)) :=
          transp_append hT (transp_of_chunk (h _ (List.mem_cons_self ..)))
        have ih := pieces_transp rest [] [] _ _
          (fun c hc => h c (List.mem_cons_of_mem _ hc)) hT'
        simpa only [List.append_nil, List.append_assoc] using ih
      · simp only [if_neg hf] at h
        have ih := pieces_transp rest (b ++ ev.emitted) (d ++ dd) B D h hT
        simpa only [List.append_assoc] using ih

/-- mid-stream version of `fin_decode`: in a `Good` state the sink is index groups, closed
    chunks and the open chunk, all transparent under the piece-level contract, so the
    specification decodes everything and then runs out of input. -/
theorem good_decode (crc : List UInt8 → Nat) (s : XWState) (rgs : List IG) (tr : List Grp)
    (hi : Inv crc s rgs tr) (hp : ∀ c ∈ piecesOf s.zlog [] [], ZChunkOK c.1 c.2) :
    Flate.decode s.sink.got = { out := (dataOf s.zlog).toArray, verdict := .unexpectedEOF } := by
  obtain ⟨hc, ho⟩ := pieces_transp s.zlog [] [] [] [] hp transp_nil
  simp only [List.append_nil] at hc ho
  exact inv_decode crc s rgs tr hi hc ho

/-- **C12 (durability).** Once `Flush` (any mode) has returned nil, the bytes handed to the sink
    so far let the RFC 1951 specification recover everything written before the flush: it
    decodes exactly the accepted data and then runs out of input (no wrong byte, no false end).
    The compressor contract is taken per flush-delimited piece. -/
theorem flush_durable (crc : List UInt8 → Nat) (level chunk index : Int) (hasConf : Bool)
    (oracle : List ZEv) (ops : List WOp) (m : Nat) (s0 : XWState)
    (h0 : newWriter level chunk index hasConf {} oracle = some s0)
    (hz : ∀ ev ∈ oracle, ev.err ≠ some .closed) :
    let s := (runW crc s0 (ops ++ [.flush m])).1
    (runW crc s0 (ops ++ [.flush m])).2.getLast? = some (.flush none) → s.bad = false →
    (∀ c ∈ piecesOf s.zlog [] [], ZChunkOK c.1 c.2) →
    (Flate.decode s.sink.got).out = (dataOf s.zlog).toArray ∧
    (Flate.decode s.sink.got).verdict = .unexpectedEOF := by
  intro s hlast hb hp
  have herr : s.err = none := run_flush_last crc s0 ops m hlast
  rcases runW_J crc (ops ++ [.flush m]) s0
      (newWriter_J crc level chunk index hasConf oracle s0 h0 hz) with h | h | h | h
  · rw [hb] at h; cases h
  · exact absurd herr h.1
  · obtain ⟨_, rgs, tr, hi⟩ := h
    rw [good_decode crc s rgs tr hi hp]
    exact ⟨rfl, rfl⟩
  · have h1 : s.err = some .closed := h.1
    rw [herr] at h1; cases h1

/-- **C12 (cut).** The output of a successfully closed writer, cut at any byte, is never misread:
    the specification delivers only a prefix of the written data and then fails with
    "unexpected EOF". -/
theorem cut_never_misread (crc : List UInt8 → Nat) (level chunk index : Int) (hasConf : Bool)
    (oracle : List ZEv) (ops : List WOp) (s0 : XWState)
    (h0 : newWriter level chunk index hasConf {} oracle = some s0)
    (hz : ∀ ev ∈ oracle, ev.err ≠ some .closed) (k : Nat) :
    let s := (runW crc s0 ops).1
    s.err = some .closed → s.bad = false →
    (∀ c ∈ chunksOf s.zlog [] [], ZChunkOK c.1 c.2) → k < s.sink.got.length →
    (Flate.decode (s.sink.got.take k)).verdict = .unexpectedEOF ∧
    (Flate.decode (s.sink.got.take k)).out.toList <+: dataOf s.zlog := by
  intro s he hb hc hk
  have hd := XFlateStream.plain_deflate crc level chunk index hasConf oracle ops s0 h0 hz he hb hc
  have := FlatePrefix.decode_cut s.sink.got _ hd k hk
  simpa using this

/-! ### the realistic contract: flush-delimited prefixes of chunks

A piece that follows a *sync* flush may refer back to data of the same chunk written before
the flush, so it need not decode in every context.  What the compressor guarantees is that
every flush-delimited PREFIX of a chunk (which starts right after a compressor Reset) is a
self-contained run of blocks. -/

/-- for every reset-delimited chunk of the log and every `zflush` inside it (and the chunk's
    end when it was closed by a reset, unless completely empty): (bytes emitted, data accepted)
    since the chunk's reset. -/
def flushPrefixesOf : List (ZEv × List UInt8) → List UInt8 → List UInt8 → List (List UInt8 × List UInt8)
  | [], _, _ => []
  | (ev, d) :: rest, bytes, data =>
    if ev.kind = .zreset then
      (if bytes.isEmpty ∧ data.isEmpty then [] else [(bytes, data)]) ++ flushPrefixesOf rest [] []
    else if ev.kind = .zflush then
      (bytes ++ ev.emitted, data ++ d) :: flushPrefixesOf rest (bytes ++ ev.emitted) (data ++ d)
    else flushPrefixesOf rest (bytes ++ ev.emitted) (data ++ d)

/-- closed chunks are flush prefixes (or empty). -/
theorem prefixes_closed : ∀ (l : ZLog) (b d : List UInt8),
    (∀ c ∈ flushPrefixesOf l b d, ZChunkOK c.1 c.2) → ∀ c ∈ closedOf l b d, Transp c.1 c.2
  | [], b, d, _ => by intro c hc; simp [closedOf] at hc
  | (ev, dd) :: rest, b, d, h => by
    unfold flushPrefixesOf at h
    unfold closedOf
    by_cases hr : ev.kind = .zreset
    · simp only [if_pos hr] at h ⊢
      intro c hc
      rcases List.mem_cons.1 hc with hc | hc
      · subst hc
        have := acc_transp b d [] [] (fun c hc => h c (List.mem_append_left _ hc)) transp_nil
        simpa using this
      · exact prefixes_closed rest [] [] (fun c hc => h c (List.mem_append_right _ hc)) c hc
    · simp only [if_neg hr] at h ⊢
      by_cases hf : ev.kind = .zflush
      · simp only [if_pos hf] at h
        exact prefixes_closed rest _ _ (fun c hc => h c (List.mem_cons_of_mem _ hc))
      · simp only [if_neg hf] at h
        exact prefixes_closed rest _ _ h

/-- when the log ends with a compressor Flush, the open chunk is one of the flush prefixes. -/
theorem open_mem_prefixes_snoc : ∀ (l : ZLog) (x : ZEv × List UInt8) (b d : List UInt8),
    x.1.kind = .zflush →
    ((openOf l b d).1 ++ x.1.emitted, (openOf l b d).2 ++ x.2) ∈ flushPrefixesOf (l ++ [x]) b d
  | [], (ev, dd), b, d, hx => by
    have hnr : ¬ ev.kind = .zreset := by rw [show ev.kind = .zflush from hx]; decide
    simp only [List.nil_append, flushPrefixesOf, openOf, if_neg hnr, if_pos (show ev.kind = .zflush from hx)]
    exact List.mem_cons_self ..
  | (ev, dd) :: rest, x, b, d, hx => by
    simp only [List.cons_append, flushPrefixesOf, openOf]
    by_cases hr : ev.kind = .zreset
    · simp only [if_pos hr]
      exact List.mem_append_right _ (open_mem_prefixes_snoc rest x [] [] hx)
    · simp only [if_neg hr]
      by_cases hf : ev.kind = .zflush
      · simp only [if_pos hf]
        exact List.mem_cons_of_mem _ (open_mem_prefixes_snoc rest x _ _ hx)
      · simp only [if_neg hf]
        exact open_mem_prefixes_snoc rest x _ _ hx

/-- the open chunk is empty or ends with a compressor Flush. -/
def OpenFlushed (l : ZLog) : Prop :=
  openOf l [] [] = ([], []) ∨ openOf l [] [] ∈ flushPrefixesOf l [] []

/-- **after a successful `Flush` (any mode) the open part is a flush-delimited prefix of the
    open chunk, or empty**: no byte of the open chunk was emitted after its last `zflush`. -/
theorem flush_open (crc : List UInt8 → Nat) (s : XWState) (m : Nat) (hg : Good crc s) :
    (flush crc s m).1.bad = false → (flush crc s m).2 = none →
    OpenFlushed (flush crc s m).1.zlog := by
  obtain ⟨e0, rgs, tr, hi⟩ := hg
  unfold flush
  rw [if_neg (by rw [e0]; simp)]
  split
  · -- FlushSync: the log now ends with the `zflush` event
    obtain ⟨ev, rest, b, hp, _, _, hk, _⟩ := popEv_spec s .zflush
    simp only [flushSync, hp]
    intro hb _
    have hkind : ev.kind = .zflush := hk hb
    have hnr : ¬ ev.kind = .zreset := by rw [hkind]; decide
    right
    have := open_mem_prefixes_snoc s.zlog (ev, []) [] [] hkind
    rw [openOf_snoc, if_neg hnr]
    exact this
  · intro hb he
    rcases flushFull_mid0 crc s rgs tr hi with h | h | ⟨⟨_, rgs1, tr1, hi1⟩, z1, z2⟩
    · rw [hb] at h; cases h
    · exact absurd he h.1
    · left
      exact Prod.ext (length_eq_zero_int _ _ hi1.zwOut z2) (length_eq_zero_int _ _ hi1.zwIn z1)
  · intro hb he
    rcases flushIndex_mid0 crc s rgs tr hi with h | h | ⟨⟨_, rgs1, tr1, hi1⟩, z1, z2, _⟩
    · rw [hb] at h; cases h
    · exact absurd he h.1
    · left
      exact Prod.ext (length_eq_zero_int _ _ hi1.zwOut z2) (length_eq_zero_int _ _ hi1.zwIn z1)
  · intro _ he; cases he

theorem flush_durable_core (crc : List UInt8 → Nat) (s1 : XWState) (m : Nat) (hJ : J crc s1)
    (he : (flush crc s1 m).2 = none) (hb : (flush crc s1 m).1.bad = false)
    (hp : ∀ c ∈ flushPrefixesOf (flush crc s1 m).1.zlog [] [], ZChunkOK c.1 c.2) :
    Flate.decode (flush crc s1 m).1.sink.got =
      { out := (dataOf (flush crc s1 m).1.zlog).toArray, verdict := .unexpectedEOF } := by
  have herr := flush_err crc s1 m he
  rcases hJ with h | h | h | h
  · rw [bad_flush crc s1 m h] at hb; cases hb
  · rw [flush_of_err crc s1 m h.1] at he; exact absurd he h.1
  · have ho := flush_open crc s1 m h hb he
    rcases flush_J crc s1 m (Or.inr (Or.inr (Or.inl h))) with h' | h' | h' | h'
    · rw [hb] at h'; cases h'
    · exact absurd herr h'.1
    · obtain ⟨_, rgs, tr, hi⟩ := h'
      apply inv_decode crc _ rgs tr hi (prefixes_closed _ [] [] hp)
      rcases ho with ho | ho
      · rw [ho]; exact transp_nil
      · exact transp_of_chunk (hp _ ho)
    · rw [h'.1] at herr; cases herr
  · have hne : s1.err ≠ none := by rw [h.1]; simp
    rw [flush_of_err crc s1 m hne] at he; exact absurd he hne

/-- **C12 (durability), realistic contract.** As `flush_durable`, with the compressor contract
    taken per flush-delimited prefix of every chunk (each starts right after a compressor
    Reset, so it is self-contained even when later pieces refer back across a sync flush). -/
theorem flush_durable' (crc : List UInt8 → Nat) (level chunk index : Int) (hasConf : Bool)
    (oracle : List ZEv) (ops : List WOp) (m : Nat) (s0 : XWState)
    (h0 : newWriter level chunk index hasConf {} oracle = some s0)
    (hz : ∀ ev ∈ oracle, ev.err ≠ some .closed) :
    let s := (runW crc s0 (ops ++ [.flush m])).1
    (runW crc s0 (ops ++ [.flush m])).2.getLast? = some (.flush none) → s.bad = false →
    (∀ c ∈ flushPrefixesOf s.zlog [] [], ZChunkOK c.1 c.2) →
    (Flate.decode s.sink.got).out = (dataOf s.zlog).toArray ∧
    (Flate.decode s.sink.got).verdict = .unexpectedEOF := by
  intro s hlast hb hp
  have e := run_flush_eq crc s0 ops m
  have hs : s = (flush crc (runW crc s0 ops).1 m).1 := congrArg Prod.fst e
  have he : (flush crc (runW crc s0 ops).1 m).2 = none := by
    rw [e] at hlast
    simpa using hlast
  clear_value s
  subst hs
  have hJ := runW_J crc ops s0 (newWriter_J crc level chunk index hasConf oracle s0 h0 hz)
  rw [flush_durable_core crc _ m hJ he hb hp]
  exact ⟨rfl, rfl⟩

/-! ### non-vacuity of the realistic contract

One chunk written in two sync-flushed pieces (see `XDWitness`): "a" as a stored block, then
"aaa" as a fixed-Huffman match `<length 3, distance 1>` that copies the "a" written BEFORE the
flush.  The second piece is not `ZChunkOK` on its own (so `flush_durable` does not apply to this
run), both flush-delimited prefixes are (so `flush_durable'` does), and the open part is
non-empty. -/

namespace Witness
open Compress.Proofs.XDWitness

def log : List (ZEv × List UInt8) :=
  [({ kind := .zreset }, []),
   ({ kind := .zwrite, n := 1 }, [97]),
   ({ kind := .zflush, emitted := piece1 }, []),
   ({ kind := .zwrite, n := 3 }, [97, 97, 97]),
   ({ kind := .zflush, emitted := piece2 }, [])]

def ops : List WOp := [.write [97], .flush 0, .write [97, 97, 97]]

def s0 : XWState := (newWriter 6 0 0 false {} (log.map (·.1))).getD default

theorem prefixes_eq :
    flushPrefixesOf log [] [] = [(piece1, [97]), (piece1 ++ piece2, [97, 97, 97, 97])] := by decide

theorem pieces_eq : piecesOf log [] [] = [(piece1, [97]), (piece2, [97, 97, 97])] := by decide

/-- every flush-delimited prefix of the chunk is under the contract … -/
theorem prefixes_ok : ∀ c ∈ flushPrefixesOf log [] [], ZChunkOK c.1 c.2 := by
  intro c hc
  rw [prefixes_eq] at hc
  simp only [List.mem_cons, List.not_mem_nil, or_false] at hc
  rcases hc with rfl | rfl
  · exact piece1_ok
  · exact prefix2_ok

/-- … but not every piece: the per-piece hypothesis of `flush_durable` fails on this log. -/
theorem pieces_not_ok : ¬ ∀ c ∈ piecesOf log [] [], ZChunkOK c.1 c.2 := by
  intro h
  refine piece2_not_ok [97, 97, 97] (h (piece2, [97, 97, 97]) ?_)
  rw [pieces_eq]
  simp

/-- the log is the one a real run produces (Write "a", Flush(Sync), Write "aaa", Flush(Sync)),
    all hypotheses of `flush_durable'` hold for it, the open part is the non-empty
    `piece1 ++ piece2`, and the conclusion reads: the sink decodes to "aaaa", then EOF. -/
example :
    newWriter 6 0 0 false {} (log.map (·.1)) = some s0 ∧
    (∀ ev ∈ log.map (·.1), ev.err ≠ some .closed) ∧
    (runW (fun _ => 0) s0 (ops ++ [.flush 0])).2.getLast? = some (.flush none) ∧
    (runW (fun _ => 0) s0 (ops ++ [.flush 0])).1.bad = false ∧
    (runW (fun _ => 0) s0 (ops ++ [.flush 0])).1.zlog = log ∧
    (runW (fun _ => 0) s0 (ops ++ [.flush 0])).1.sink.got = piece1 ++ piece2 ∧
    openOf log [] [] = (piece1 ++ piece2, [97, 97, 97, 97]) ∧
    (Flate.decode (piece1 ++ piece2)).out = #[97, 97, 97, 97] ∧
    (Flate.decode (piece1 ++ piece2)).verdict = .unexpectedEOF := by
  have h0 : newWriter 6 0 0 false {} (log.map (·.1)) = some s0 := rfl
  have hz : ∀ ev ∈ log.map (·.1), ev.err ≠ some .closed := by decide
  have hlog : (runW (fun _ => 0) s0 (ops ++ [.flush 0])).1.zlog = log := rfl
  have hgot : (runW (fun _ => 0) s0 (ops ++ [.flush 0])).1.sink.got = piece1 ++ piece2 := rfl
  have hlast : (runW (fun _ => 0) s0 (ops ++ [.flush 0])).2.getLast? = some (.flush none) := rfl
  have hbad : (runW (fun _ => 0) s0 (ops ++ [.flush 0])).1.bad = false := rfl
  have := flush_durable' (fun _ => 0) 6 0 0 false _ ops 0 s0 h0 hz hlast hbad
    (by rw [hlog]; exact prefixes_ok)
  rw [hgot, hlog] at this
  exact ⟨h0, hz, hlast, hbad, hlog, hgot, rfl, this.1, this.2⟩

end Witness

end Compress.Proofs.XFlateDurable

#print axioms Compress.Proofs.XFlateDurable.flush_durable
#print axioms Compress.Proofs.XFlateDurable.cut_never_misread
#print axioms Compress.Proofs.XFlateDurable.flush_durable'
#print axioms Compress.Proofs.XFlateDurable.flush_open
#print axioms Compress.Proofs.XFlateDurable.Witness.prefixes_ok
#print axioms Compress.Proofs.XFlateDurable.Witness.pieces_not_ok
