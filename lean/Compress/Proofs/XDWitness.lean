/-
Non-vacuity witness for the realistic C12 contract (`flush_durable'`): one chunk written in
two sync-flushed pieces,

  piece 1 = stored block holding "a"                        00 01 00 fe ff 61
  piece 2 = fixed-Huffman block  <match len 3, dist 1> EOB,
            then the empty stored block of a sync flush     02 02 00 00 00 00 ff ff

Piece 2 refers back to the "a" of piece 1: on its own (empty history) it is corrupt, so it is
not `ZChunkOK`; both flush-delimited prefixes of the chunk are.
-/
import Compress.Proofs.XDAux
import Compress.Proofs.FlatePrefixBlock

namespace Compress.Proofs.XDWitness
open Compress Compress.XFlate Compress.Flate Compress.Proofs.XWShape

def piece1 : List UInt8 := [0, 1, 0, 254, 255, 97]
def piece2 : List UInt8 := [2, 2, 0, 0, 0, 0, 255, 255]

/-! ### bit reading on concrete prefixes -/

theorem takeBits_append (hd r : Bits) : takeBits hd.length (hd ++ r) = some (Bits.toNat hd, r) := by
  simp [takeBits]

theorem decodeBlocks_fixed (total fuel : Nat) (out out' : Array UInt8) (bits b1 b2 r : Bits) (bfinal : Nat)
    (h1 : takeBits 1 bits = some (bfinal, b1)) (h2 : takeBits 2 b1 = some (1, b2))
    (h3 : inflateBlock fixedLit.tab fixedDist.tab (b2.length + 1) out b2 = (out', .ok r)) :
    decodeBlocks total (fuel + 1) out bits =
      if bfinal = 1 then
        { out := out', verdict := .ok (total - r.length + padTo8 (total - r.length)) }
      else decodeBlocks total fuel out' r := by
  simp only [decodeBlocks, h1, h2, h3]

/-! ### the fixed Huffman codes used -/

set_option maxRecDepth 20000 in
theorem lit257 (r : Bits) :
    fixedLit.tab.decode (false :: false :: false :: false :: false :: false :: true :: r) = .sym 257 r := rfl

set_option maxRecDepth 20000 in
theorem lit256 (r : Bits) :
    fixedLit.tab.decode (false :: false :: false :: false :: false :: false :: false :: r) = .sym 256 r := rfl

theorem dist0 (r : Bits) :
    fixedDist.tab.decode (false :: false :: false :: false :: false :: r) = .sym 0 r := rfl

/-- `<length 3, distance 1>` then end-of-block: 7 + 5 + 7 bits (any tables with these codes). -/
theorem inflate_match_gen (lit dist : HuffTab)
    (hl257 : ∀ r, lit.decode (false :: false :: false :: false :: false :: false :: true :: r) = .sym 257 r)
    (hl256 : ∀ r, lit.decode (false :: false :: false :: false :: false :: false :: false :: r) = .sym 256 r)
    (hd0 : ∀ r, dist.decode (false :: false :: false :: false :: false :: r) = .sym 0 r)
    (n : Nat) (out : Array UInt8) (r : Bits) (ho : 1 ≤ out.size) :
    inflateBlock lit dist (n + 2) out
      (false :: false :: false :: false :: false :: false :: true ::
       false :: false :: false :: false :: false ::
       false :: false :: false :: false :: false :: false :: false :: r) =
      (copyBack out 1 3, .ok r) := by
  have hd : ¬ 1 > min out.size maxHist := by unfold maxHist; omega
  have t0 : ∀ b : Bits, takeBits 0 b = some (0, b) := by
    intro b
    simp only [takeBits, List.take_zero, List.length_nil, Nat.lt_irrefl, if_false, List.drop_zero]
    rfl
  have hm : FlatePrefix.readMatch dist 257 (false :: false :: false :: false :: false ::
       false :: false :: false :: false :: false :: false :: false :: r) =
      .ok ((3, 1), false :: false :: false :: false :: false :: false :: false :: r) := by
    have e1 : lenExtra.getD (257 - 257) 0 = 0 := rfl
    have e2 : lenBase.getD (257 - 257) 0 = 3 := rfl
    have e3 : distExtra.getD 0 0 = 0 := rfl
    have e4 : distBase.getD 0 0 = 1 := rfl
    unfold FlatePrefix.readMatch
    simp only [e1, e2, e3, e4, t0, hd0, show ¬ (0 ≥ 30) by omega, if_false, Nat.add_zero]
  rw [FlatePrefix.inflateBlock_succ, hl257]
  simp only [show ¬ (257 < 256) by omega, show ¬ (257 = 256) by omega, show ¬ (257 ≥ 286) by omega,
    if_false, hm, hd]
  rw [FlatePrefix.inflateBlock_succ, hl256]
  simp

theorem inflate_match (n : Nat) (out : Array UInt8) (r : Bits) (ho : 1 ≤ out.size) :
    inflateBlock fixedLit.tab fixedDist.tab (n + 2) out
      (false :: false :: false :: false :: false :: false :: true ::
       false :: false :: false :: false :: false ::
       false :: false :: false :: false :: false :: false :: false :: r) =
      (copyBack out 1 3, .ok r) :=
  inflate_match_gen _ _ lit257 lit256 dist0 n out r ho

/-! ### the two pieces -/

def pad5 : Bits := [false, false, false, false, false]
def pad7 : Bits := [false, false, false, false, false, false, false]
/-- LEN = 1 -/
def len1 : Bits := [true, false, false, false, false, false, false, false,
  false, false, false, false, false, false, false, false]
/-- NLEN = 0xfffe -/
def nlen1 : Bits := [false, true, true, true, true, true, true, true,
  true, true, true, true, true, true, true, true]
/-- the byte 0x61 -/
def byteA : Bits := [true, false, false, false, false, true, true, false]

theorem piece1_bits : Bits.ofBytes piece1 =
    false :: false :: false :: (pad5 ++ (len1 ++ (nlen1 ++ (byteA ++ [])))) := by decide

theorem piece2_bits : Bits.ofBytes piece2 =
    false :: true :: false ::
      (false :: false :: false :: false :: false :: false :: true ::
       false :: false :: false :: false :: false ::
       false :: false :: false :: false :: false :: false :: false ::
       (false :: false :: false :: (pad7 ++ (z16 ++ (o16 ++ []))))) := by decide

/-- the first piece: a stored block holding one byte. -/
theorem piece1_step (total fuel : Nat) (out : Array UInt8) (rest : Bits)
    (h1 : rest.length + 8 * piece1.length ≤ total) (h2 : (total - rest.length) % 8 = 0) :
    decodeBlocks total (fuel + 1) out (Bits.ofBytes piece1 ++ rest) =
      decodeBlocks total fuel (out ++ #[97]) rest := by
  simp only [piece1, List.length_cons, List.length_nil] at h1
  have e : Bits.ofBytes piece1 ++ rest =
      false :: false :: false :: (pad5 ++ (len1 ++ (nlen1 ++ (byteA ++ rest)))) := by
    rw [piece1_bits]; rfl
  rw [e]
  have hlen : (pad5 ++ (len1 ++ (nlen1 ++ (byteA ++ rest)))).length = 45 + rest.length := by
    simp [pad5, len1, nlen1, byteA]; omega
  have hpad : padTo8 (total - (45 + rest.length)) = 5 := by unfold padTo8; omega
  rw [decodeBlocks_stored total fuel out (out.push 97)
    (false :: false :: false :: (pad5 ++ (len1 ++ (nlen1 ++ (byteA ++ rest)))))
    (false :: false :: (pad5 ++ (len1 ++ (nlen1 ++ (byteA ++ rest)))))
    (pad5 ++ (len1 ++ (nlen1 ++ (byteA ++ rest))))
    (nlen1 ++ (byteA ++ rest)) (byteA ++ rest) rest 0 1 65534
    (takeBits_append [false] _) (takeBits_append [false, false] _) ?_
    (takeBits_append nlen1 _) rfl ?_]
  · simp
  · rw [hlen, hpad]
    exact takeBits_append len1 _
  · have : takeBits 8 (byteA ++ rest) = some (97, rest) := takeBits_append byteA rest
    simp [takeBytes, this]

/-- the second piece in a context with at least one byte of history. -/
theorem piece2_step (total fuel : Nat) (out : Array UInt8) (rest : Bits)
    (h1 : rest.length + 8 * piece2.length ≤ total) (h2 : (total - rest.length) % 8 = 0)
    (ho : 1 ≤ out.size) :
    decodeBlocks total (fuel + 2) out (Bits.ofBytes piece2 ++ rest) =
      decodeBlocks total fuel (copyBack out 1 3) rest := by
  simp only [piece2, List.length_cons, List.length_nil] at h1
  have e : Bits.ofBytes piece2 ++ rest =
      false :: true :: false ::
      (false :: false :: false :: false :: false :: false :: true ::
       false :: false :: false :: false :: false ::
       false :: false :: false :: false :: false :: false :: false ::
       (false :: false :: false :: (pad7 ++ (z16 ++ (o16 ++ rest))))) := by
    rw [piece2_bits]; rfl
  rw [e]
  have hlen : (pad7 ++ (z16 ++ (o16 ++ rest))).length = 39 + rest.length := by
    simp [pad7, z16, o16]; omega
  have hpad : padTo8 (total - (39 + rest.length)) = 7 := by unfold padTo8; omega
  show decodeBlocks total (fuel + 1 + 1) out _ = _
  rw [decodeBlocks_fixed total (fuel + 1) out (copyBack out 1 3)
    (false :: true :: false ::
      (false :: false :: false :: false :: false :: false :: true ::
       false :: false :: false :: false :: false ::
       false :: false :: false :: false :: false :: false :: false ::
       (false :: false :: false :: (pad7 ++ (z16 ++ (o16 ++ rest))))))
    (true :: false ::
      (false :: false :: false :: false :: false :: false :: true ::
       false :: false :: false :: false :: false ::
       false :: false :: false :: false :: false :: false :: false ::
       (false :: false :: false :: (pad7 ++ (z16 ++ (o16 ++ rest))))))
    (false :: false :: false :: false :: false :: false :: true ::
       false :: false :: false :: false :: false ::
       false :: false :: false :: false :: false :: false :: false ::
       (false :: false :: false :: (pad7 ++ (z16 ++ (o16 ++ rest)))))
    (false :: false :: false :: (pad7 ++ (z16 ++ (o16 ++ rest)))) 0
    (takeBits_append [false] _) (takeBits_append [true, false] _) ?_]
  · rw [if_neg (by omega)]
    rw [decodeBlocks_stored total fuel _ (copyBack out 1 3)
      (false :: false :: false :: (pad7 ++ (z16 ++ (o16 ++ rest))))
      (false :: false :: (pad7 ++ (z16 ++ (o16 ++ rest))))
      (pad7 ++ (z16 ++ (o16 ++ rest))) (o16 ++ rest) rest rest 0 0 65535
      (takeBits_append [false] _) (takeBits_append [false, false] _) ?_ (tb_o16 rest) rfl rfl]
    · simp
    · rw [hlen, hpad]
      exact tb_z16 (o16 ++ rest)
  · have hn : ∃ n, (false :: false :: false :: false :: false :: false :: true ::
       false :: false :: false :: false :: false ::
       false :: false :: false :: false :: false :: false :: false ::
       (false :: false :: false :: (pad7 ++ (z16 ++ (o16 ++ rest))))).length + 1 = n + 2 :=
      ⟨_, rfl⟩
    obtain ⟨n, hn⟩ := hn
    rw [hn]
    exact inflate_match n out _ ho

/-- the first flush-delimited prefix of the chunk. -/
theorem piece1_ok : ZChunkOK piece1 [97] :=
  ⟨1, by omega, by simp [piece1], fun total fuel out rest h1 h2 => piece1_step total fuel out rest h1 h2⟩

theorem getD_last (o : Array UInt8) (a : UInt8) : (o.push a).getD ((o.push a).size - 1) 0 = a := by
  simp

theorem copyBack_a (out : Array UInt8) : copyBack (out ++ #[97]) 1 3 = out ++ #[97, 97, 97, 97] := by
  rw [show out ++ #[97] = out.push 97 by simp]
  simp only [copyBack, getD_last]
  apply Array.toList_inj.1
  simp

/-- the second flush-delimited prefix of the chunk: both pieces together. -/
theorem prefix2_ok : ZChunkOK (piece1 ++ piece2) [97, 97, 97, 97] := by
  refine ⟨3, by omega, by simp [piece1, piece2], ?_⟩
  intro total fuel out rest h1 h2
  simp only [List.length_append] at h1
  rw [Proofs.Meta.ofBytes_append, List.append_assoc]
  show decodeBlocks total (fuel + 2 + 1) out _ = _
  rw [piece1_step total (fuel + 2) out _
      (by simp only [List.length_append, Proofs.Meta.length_ofBytes]; omega)
      (by simp only [List.length_append, Proofs.Meta.length_ofBytes]; omega),
    piece2_step total fuel _ rest (by omega) h2 (by simp), copyBack_a]

/-! ### the second piece alone is not under the contract -/

theorem decodeBlocks_fixed_err (total fuel : Nat) (out out' : Array UInt8) (bits b1 b2 : Bits) (bfinal : Nat)
    (v : Verdict)
    (h1 : takeBits 1 bits = some (bfinal, b1)) (h2 : takeBits 2 b1 = some (1, b2))
    (h3 : inflateBlock fixedLit.tab fixedDist.tab (b2.length + 1) out b2 = (out', .error v)) :
    decodeBlocks total (fuel + 1) out bits = { out := out', verdict := v } := by
  simp only [decodeBlocks, h1, h2, h3]

/-- with no history the match has nothing to copy from. -/
theorem inflate_match_empty (n : Nat) (r : Bits) :
    inflateBlock fixedLit.tab fixedDist.tab (n + 1) #[]
      (false :: false :: false :: false :: false :: false :: true ::
       false :: false :: false :: false :: false :: r) = (#[], .error .corrupt) := by
  have t0 : ∀ b : Bits, takeBits 0 b = some (0, b) := by
    intro b
    simp only [takeBits, List.take_zero, List.length_nil, Nat.lt_irrefl, if_false, List.drop_zero]
    rfl
  have hm : FlatePrefix.readMatch fixedDist.tab 257 (false :: false :: false :: false :: false :: r) =
      .ok ((3, 1), r) := by
    have e1 : lenExtra.getD (257 - 257) 0 = 0 := rfl
    have e2 : lenBase.getD (257 - 257) 0 = 3 := rfl
    have e3 : distExtra.getD 0 0 = 0 := rfl
    have e4 : distBase.getD 0 0 = 1 := rfl
    unfold FlatePrefix.readMatch
    simp only [e1, e2, e3, e4, t0, dist0, show ¬ (0 ≥ 30) by omega, if_false, Nat.add_zero]
  rw [FlatePrefix.inflateBlock_succ, lit257]
  simp only [show ¬ (257 < 256) by omega, show ¬ (257 = 256) by omega, show ¬ (257 ≥ 286) by omega,
    if_false, hm]
  simp [maxHist]

theorem piece2_alone (f : Nat) :
    decodeBlocks 64 (f + 1) #[] (Bits.ofBytes piece2) = { out := #[], verdict := .corrupt } := by
  rw [piece2_bits]
  exact decodeBlocks_fixed_err 64 f #[] #[] _ _ _ 0 .corrupt
    (takeBits_append [false] _) (takeBits_append [true, false] _) (inflate_match_empty _ _)

/-- the second piece refers back across the sync flush: on its own it is not `ZChunkOK`
    (for any data), e.g. at the very start of a stream it is corrupt. -/
theorem piece2_not_ok (d : List UInt8) : ¬ ZChunkOK piece2 d := by
  rintro ⟨k, hk, _, t⟩
  have := t 64 1 #[] [] (by simp [piece2]) (by simp)
  obtain ⟨k', rfl⟩ : ∃ k', k = k' + 1 := ⟨k - 1, by omega⟩
  rw [List.append_nil, show 1 + (k' + 1) = (k' + 1) + 1 by omega, piece2_alone] at this
  simp [decodeBlocks, takeBits] at this

end Compress.Proofs.XDWitness

#print axioms Compress.Proofs.XDWitness.piece1_ok
#print axioms Compress.Proofs.XDWitness.prefix2_ok
#print axioms Compress.Proofs.XDWitness.piece2_not_ok
