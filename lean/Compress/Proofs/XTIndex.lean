/-
C08 helpers: facts about the record index that need only what `Reset` guarantees of the
records (sorted, non-negative raw offsets) — no assumption on the segments.
-/
import Compress.XFlate.ReaderSpec
import Compress.Proofs.IndexSearch
import Compress.Proofs.XRIndex
import Compress.Proofs.XRSeek
import Compress.Proofs.XARecs

namespace Compress.Proofs.XTIndex
open Compress Compress.XFlate Compress.Proofs.XRIndex Compress.Proofs.XRSeek

/-- what the totality proof needs of the records. -/
structure Rk (recs : List Record) : Prop where
  sorted : rawSorted recs = true
  nonneg : ∀ r ∈ recs, 0 ≤ r.raw

/-! ### from `Grow` (what `open_recs` states) to `rawSorted` -/

open Compress.Proofs.IndexSearch in
theorem sorted_of_adj : ∀ (l : List Record),
    (∀ j, j + 1 < l.length → rawAt l j ≤ rawAt l (j + 1)) → rawSorted l = true
  | [], _ => rfl
  | [_], _ => rfl
  | a :: b :: rs, h => by
    have h0 := h 0 (by simp)
    rw [rawAt_cons_zero, rawAt_cons_succ, rawAt_cons_zero] at h0
    have ih := sorted_of_adj (b :: rs) (by
      intro j hj
      have := h (j + 1) (by simp only [List.length_cons] at hj ⊢; omega)
      rw [rawAt_cons_succ, rawAt_cons_succ] at this
      exact this)
    simp only [rawSorted, Bool.and_eq_true, decide_eq_true_eq]
    exact ⟨h0, ih⟩

theorem bnd_succ_rawAt (recs : List Record) (j : Nat) :
    bnd recs (j + 1) = Compress.Proofs.IndexSearch.rawAt recs j := by
  simp [bnd, Compress.Proofs.IndexSearch.rawAt]

theorem rk_of_grow (recs : List Record) (h : Compress.Proofs.XFlateAccept.Grow recs) : Rk recs := by
  constructor
  · apply sorted_of_adj
    intro j hj
    have := (h (j + 1) hj).1
    rw [bnd_succ_rawAt, bnd_succ_rawAt] at this
    exact this
  · have hb : ∀ j, j ≤ recs.length → 0 ≤ bnd recs j := by
      intro j
      induction j with
      | zero => intro _; rw [bnd_zero]; exact Int.le_refl _
      | succ j ih =>
        intro hj
        have := (h j (by omega)).1
        have := ih (by omega)
        omega
    intro r hr
    obtain ⟨i, hi, rfl⟩ := List.getElem_of_mem hr
    have := hb (i + 1) (by omega)
    rw [bnd_succ recs i hi] at this
    exact this

/-! ### segment bounds without `WellFormed` -/

section
variable {L : Layout}

theorem seg_bounds' (rk : Rk L.recs) (j : Nat) (hj : j ≤ L.recs.length) :
    0 ≤ (getRecords L.recs j).1.raw ∧
    (getRecords L.recs j).1.raw ≤ (getRecords L.recs j).2.raw ∧
    (getRecords L.recs j).2.raw ≤ L.endRaw := by
  have hm := bnd_mono L.recs rk.sorted rk.nonneg
  have hn := bnd_nonneg L.recs rk.nonneg
  rw [gr_prev_raw _ _ hj]
  unfold Layout.endRaw
  rw [← bnd_len]
  rcases Nat.lt_or_eq_of_le hj with h | h
  · rw [gr_curr_raw_lt _ _ h]
    exact ⟨hn j hj, hm j (j+1) (by omega) (by omega), hm (j+1) _ (by omega) (Nat.le_refl _)⟩
  · subst h
    rw [gr_curr_raw_len]
    exact ⟨hn _ hj, Int.le_refl _, Int.le_refl _⟩

/-- a target beyond the last record is found in the tail segment. -/
theorem searchSpec_beyond (rk : Rk L.recs) (pos : Int) (h : L.endRaw < pos) :
    searchSpec L.recs pos = L.recs.length := by
  unfold searchSpec
  rw [List.filter_eq_self.2]
  intro r hr
  obtain ⟨i, hi, rfl⟩ := List.getElem_of_mem hr
  have hm := bnd_mono L.recs rk.sorted rk.nonneg (i + 1) L.recs.length (by omega) (Nat.le_refl _)
  rw [bnd_succ _ _ hi, bnd_len] at hm
  unfold Layout.endRaw at h
  simp only [decide_eq_true_eq]
  omega

/-- the record index the slow path of `Seek` settles on: it starts at or before the target,
    and it is the tail when the target lies beyond the end. -/
theorem pickRi_ok' (rk : Rk L.recs) (s : RState) (hri : s.ri ≤ L.recs.length)
    (pos : Int) (hpos : 0 ≤ pos) :
    pickRi L s pos ≤ L.recs.length ∧
    (getRecords L.recs (pickRi L s pos)).1.raw ≤ pos ∧
    (L.endRaw < pos → pickRi L s pos = L.recs.length) := by
  unfold pickRi
  split
  · rw [Compress.Proofs.IndexSearch.search_eq_spec L.recs rk.sorted pos]
    have hle := searchSpec_le L.recs pos
    refine ⟨hle, ?_, searchSpec_beyond rk pos⟩
    rw [gr_prev_raw _ _ hle]; exact searchSpec_lower L.recs rk.sorted pos hpos
  · rename_i h
    have h : (getRecords L.recs s.ri).1.raw ≤ pos ∧
        (pos < (getRecords L.recs s.ri).2.raw ∨ pos = (getRecords L.recs s.ri).1.raw) :=
      Decidable.not_not.1 h
    have hb := seg_bounds' rk s.ri hri
    refine ⟨hri, h.1, ?_⟩
    intro hlt
    omega

end

end Compress.Proofs.XTIndex
