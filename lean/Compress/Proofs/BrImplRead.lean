/-
C02 layer (a): the `Read` loop of the brotli.Reader model.

`Trace sd s X e`: started in state `s`, the step machine hands out exactly the
bytes `X` (pending bytes first, then what the steps flush) and then latches the
error `e`; every step that neither flushes nor fails consumes input
(`Progress`).  It is the schedule-free semantics of the reader.

`run_of_trace`: whoever has a trace of the initial state knows the result of
`Impl.run` for EVERY schedule of Read sizes (zero-length reads included): all of
`X`, then `e`.  Corollaries: schedule independence, prefix property of
unfinished runs, sticky error.  Later layers construct the trace.
-/
import Compress.Brotli.Impl
import Compress.Proofs.FlateRead

namespace Compress.Proofs.BrImpl
open Compress Compress.Brotli Compress.Brotli.Impl
open Compress.Proofs.FlateRefine (sched_head_pos_or sched_next_last sched_next_length sched_next_length_lt)

/-- `Read` hands out the first `k` pending bytes. -/
def deliver (s : State) (k : Nat) : State :=
  { s with toRead := s.toRead.drop k, outOff := s.outOff + (s.toRead.take k).length }

/-- a step never gives input back, and a silent step (nothing flushed, no error) consumes some. -/
def Progress (s s' : State) : Prop :=
  (s'.err = none → s'.rd.bits.length ≤ s.rd.bits.length) ∧
  (s'.toRead = [] → s'.err = none → s'.rd.bits.length < s.rd.bits.length)

inductive Trace (sd : ByteArray) : State → List UInt8 → BErr → Prop
  | done {s : State} {e : BErr} : s.toRead = [] → s.err = some e → Trace sd s [] e
  | out {s : State} {X : List UInt8} {e : BErr} : s.toRead ≠ [] →
      Trace sd (deliver s s.toRead.length) X e → Trace sd s (s.toRead ++ X) e
  | step {s : State} {X : List UInt8} {e : BErr} : s.toRead = [] → s.err = none →
      Progress s (stepOnce sd s) → Trace sd (stepOnce sd s) X e → Trace sd s X e

theorem read_zero (sd : ByteArray) (s : State) (n : Nat) : read sd 0 s n = (s, [], some .corrupted) := rfl

theorem read_succ (sd : ByteArray) (fuel : Nat) (s : State) (n : Nat) :
    read sd (fuel+1) s n =
      if !s.toRead.isEmpty then (deliver s n, s.toRead.take n, none)
      else if s.err ≠ none then (s, [], s.err)
      else read sd fuel (stepOnce sd s) n := rfl

/-- **sticky error**: once the error is latched and nothing is pending, `Read` returns it and changes nothing. -/
theorem read_latched (sd : ByteArray) (fuel : Nat) (s : State) (n : Nat) (e : BErr)
    (hT : s.toRead = []) (hE : s.err = some e) : read sd (fuel+1) s n = (s, [], some e) := by
  rw [read_succ]; simp [hT, hE]

theorem deliver_deliver (s : State) (k : Nat) :
    deliver (deliver s k) (deliver s k).toRead.length = deliver s s.toRead.length := by
  simp only [deliver, List.drop_drop, List.length_drop, List.length_take, List.take_length]
  congr 1 <;> first | omega | (simp; omega)

theorem Trace.inv_out {sd : ByteArray} {s : State} {Y : List UInt8} {e : BErr} (T : Trace sd s Y e)
    (h : s.toRead ≠ []) : ∃ X, Y = s.toRead ++ X ∧ Trace sd (deliver s s.toRead.length) X e := by
  cases T with
  | done h1 _ => exact absurd h1 h
  | out _ T' => exact ⟨_, rfl, T'⟩
  | step h1 _ _ _ => exact absurd h1 h

theorem Trace.inv_err {sd : ByteArray} {s : State} {Y : List UInt8} {e e' : BErr} (T : Trace sd s Y e)
    (hT : s.toRead = []) (hE : s.err = some e') : Y = [] ∧ e' = e := by
  cases T with
  | done _ h2 => rw [hE] at h2; exact ⟨rfl, Option.some.inj h2⟩
  | out h1 _ => exact absurd hT h1
  | step _ h2 _ _ => rw [hE] at h2; cases h2

theorem Trace.inv_step {sd : ByteArray} {s : State} {Y : List UInt8} {e : BErr} (T : Trace sd s Y e)
    (hT : s.toRead = []) (hE : s.err = none) :
    Progress s (stepOnce sd s) ∧ Trace sd (stepOnce sd s) Y e := by
  cases T with
  | done _ h2 => rw [hE] at h2; cases h2
  | out h1 _ => exact absurd hT h1
  | step _ _ hp T' => exact ⟨hp, T'⟩

/-- a partial delivery keeps the trace. -/
theorem Trace.partial {sd : ByteArray} {s : State} {Y : List UInt8} {e : BErr} (T : Trace sd s Y e)
    (h : s.toRead ≠ []) (k : Nat) :
    ∃ Y', Y = s.toRead.take k ++ Y' ∧ Trace sd (deliver s k) Y' e := by
  obtain ⟨X, hY, T'⟩ := T.inv_out h
  by_cases hk : (deliver s k).toRead = []
  · -- everything pending was taken
    have hd : s.toRead.drop k = [] := hk
    have hlen : s.toRead.length ≤ k := by
      have := congrArg List.length hd
      simp only [List.length_drop, List.length_nil] at this; omega
    refine ⟨X, ?_, ?_⟩
    · rw [hY, List.take_of_length_le hlen]
    · have : deliver s k = deliver s s.toRead.length := by
        simp only [deliver, List.drop_length, List.take_length, hd, List.take_of_length_le hlen]
      rw [this]; exact T'
  · refine ⟨(deliver s k).toRead ++ X, ?_, Trace.out hk (by rw [deliver_deliver]; exact T')⟩
    show Y = s.toRead.take k ++ (s.toRead.drop k ++ X)
    rw [← List.append_assoc, List.take_append_drop, hY]

/-! ### a single `Read` -/

/-- what one `Read(buf)`, `len(buf) = n`, achieves from a state with trace `Y`. -/
def ReadOK (sd : ByteArray) (e : BErr) (Y : List UInt8) (B n : Nat)
    (r : State × List UInt8 × Option BErr) : Prop :=
  ∃ Y', Y = r.2.1 ++ Y' ∧ Trace sd r.1 Y' e ∧ (r.1.err = none → r.1.rd.bits.length ≤ B) ∧
    (∀ err, r.2.2 = some err → err = e ∧ r.2.1 = [] ∧ Y' = [] ∧ r.1.toRead = [] ∧ r.1.err = some e) ∧
    (r.2.2 = none → 0 < n → r.2.1 ≠ [])

theorem read_ok (sd : ByteArray) (e : BErr) (n : Nat) :
    ∀ (fuel : Nat) (s : State) (Y : List UInt8) (B : Nat), Trace sd s Y e → (s.err = none → s.rd.bits.length ≤ B) →
      (s.err = none → s.rd.bits.length + 2 ≤ fuel) → 1 ≤ fuel → ReadOK sd e Y B n (read sd fuel s n) := by
  intro fuel
  induction fuel with
  | zero => intro s Y B _ _ _ hf; omega
  | succ f ih =>
    intro s Y B T hB hf _
    rw [read_succ]
    by_cases hT : s.toRead = []
    · have c1 : (!s.toRead.isEmpty) = false := by simp [hT]
      simp only [c1, Bool.false_eq_true, if_false]
      by_cases hE : s.err = none
      · -- a step
        simp only [hE, ne_eq, not_true_eq_false, if_false]
        obtain ⟨hp, T'⟩ := T.inv_step hT hE
        have hB0 := hB hE
        have hf0 := hf hE
        by_cases hq : (stepOnce sd s).toRead = [] ∧ (stepOnce sd s).err = none
        · have hlt := hp.2 hq.1 hq.2
          exact ih _ Y B T' (fun _ => by omega) (fun _ => by omega) (by omega)
        · -- the next round returns at once
          have hB' : (stepOnce sd s).err = none → (stepOnce sd s).rd.bits.length ≤ B := by
            intro h; have := hp.1 h; omega
          match f, hf0 with
          | f'+1, _ =>
            rw [read_succ]
            by_cases hT' : (stepOnce sd s).toRead = []
            · have hE' : (stepOnce sd s).err ≠ none := fun h => hq ⟨hT', h⟩
              have c2 : (!(stepOnce sd s).toRead.isEmpty) = false := by simp [hT']
              simp only [c2, Bool.false_eq_true, if_false, if_pos hE']
              obtain ⟨e', he'⟩ := Option.ne_none_iff_exists'.mp hE'
              obtain ⟨hY, hee⟩ := T'.inv_err hT' he'
              subst hY hee
              refine ⟨[], by simp, T', hB', ?_, ?_⟩
              · intro err herr
                simp only [he', Option.some.injEq] at herr
                exact ⟨herr.symm, rfl, rfl, hT', he'⟩
              · intro hnone; simp [he'] at hnone
            · have c2 : (!(stepOnce sd s).toRead.isEmpty) = true := by
                simp [hT']
              simp only [c2, if_true]
              obtain ⟨Y', hY, Td⟩ := T'.partial hT' n
              refine ⟨Y', hY, Td, hB', ?_, ?_⟩
              · intro err herr; cases herr
              · intro _ hn
                show (stepOnce sd s).toRead.take n ≠ []
                intro h0
                rcases List.take_eq_nil_iff.mp h0 with h | h
                · omega
                · exact hT' h
      · -- latched error
        simp only [ne_eq, hE, not_false_eq_true, if_true]
        obtain ⟨e', he'⟩ := Option.ne_none_iff_exists'.mp hE
        obtain ⟨hY, hee⟩ := T.inv_err hT he'
        subst hY hee
        refine ⟨[], by simp, T, hB, ?_, ?_⟩
        · intro err herr
          simp only [he', Option.some.injEq] at herr
          exact ⟨herr.symm, rfl, rfl, hT, he'⟩
        · intro hnone; simp [he'] at hnone
    · have c1 : (!s.toRead.isEmpty) = true := by simp [hT]
      simp only [c1, if_true]
      obtain ⟨Y', hY, Td⟩ := T.partial hT n
      refine ⟨Y', hY, Td, hB, ?_, ?_⟩
      · intro err herr; cases herr
      · intro _ hn
        show s.toRead.take n ≠ []
        intro h0
        rcases List.take_eq_nil_iff.mp h0 with h | h
        · omega
        · exact hT h

/-! ### the driver -/

theorem runReads_succ (sd : ByteArray) (rfuel fuel : Nat) (s : State) (sched : List Nat) (acc : List ReadRec) :
    runReads sd rfuel (fuel+1) s sched acc =
      match read sd rfuel s (sched.headD 4096) with
      | (s', out, some err) => ({ out := out, err := some err, inOff := s'.inOff, outOff := s'.outOff } :: acc, s')
      | (s', out, none) =>
        runReads sd rfuel fuel s' (if sched.length > 1 then sched.tail else sched)
          ({ out := out, err := none, inOff := s'.inOff, outOff := s'.outOff } :: acc) := by
  rw [runReads]
  rcases read sd rfuel s (sched.headD 4096) with ⟨s', out, e⟩
  cases e <;> rfl

/-- the bytes of a list of records (newest first). -/
def recBytes (recs : List ReadRec) : List UInt8 := (recs.reverse.map (·.out)).flatten

theorem recBytes_cons (r : ReadRec) (recs : List ReadRec) : recBytes (r :: recs) = recBytes recs ++ r.out := by
  simp [recBytes]

theorem runReads_correct (sd : ByteArray) (e : BErr) (rfuel : Nat) :
    ∀ (fuel : Nat) (s : State) (Y : List UInt8) (sched : List Nat) (acc : List ReadRec), Trace sd s Y e →
      (s.err = none → s.rd.bits.length + 2 ≤ rfuel) → 2 ≤ rfuel →
      (∀ n, sched.getLast? = some n → 0 < n) →
      Y.length + sched.length + 2 ≤ fuel →
      ∃ recs s', runReads sd rfuel fuel s sched acc = (recs, s') ∧ recBytes recs = recBytes acc ++ Y ∧
        recs.head?.bind (·.err) = some e ∧ s'.toRead = [] ∧ s'.err = some e := by
  intro fuel
  induction fuel with
  | zero => intro s Y sched acc _ _ _ _ hf; omega
  | succ f ih =>
    intro s Y sched acc T hB h2 hs hf
    rw [runReads_succ]
    have hR := read_ok sd e (sched.headD 4096) rfuel s Y (rfuel - 2) T (fun h => by have := hB h; omega)
      (fun h => hB h) (by omega)
    rcases hr : read sd rfuel s (sched.headD 4096) with ⟨s', out, r⟩
    rw [hr] at hR
    obtain ⟨Y', hY, T', hB', hErr, hNone⟩ := hR
    cases r with
    | some err =>
      obtain ⟨he, ho, hy, hT, hE⟩ := hErr err rfl
      simp only at ho hy hY
      subst ho hy he
      refine ⟨_, s', rfl, ?_, rfl, hT, hE⟩
      rw [recBytes_cons, hY]; simp
    | none =>
      simp only at hY hB' T' hNone
      have hlen : Y'.length + (if sched.length > 1 then sched.tail else sched).length + 2 ≤ f := by
        have hYl : Y.length = out.length + Y'.length := by rw [hY]; simp
        rcases sched_head_pos_or sched hs with hpos | hlen
        · have hne : out ≠ [] := hNone trivial hpos
          have : 0 < out.length := List.length_pos_iff.mpr hne
          have := sched_next_length sched
          omega
        · have := sched_next_length_lt sched hlen
          omega
      obtain ⟨recs, s'', h1, h2, h3, h4, h5⟩ :=
        ih s' Y' _ ({ out := out, err := none, inOff := s'.inOff, outOff := s'.outOff } :: acc) T'
          (fun h => by have := hB' h; omega) h2 (sched_next_last sched hs) hlen
      refine ⟨recs, s'', h1, ?_, h3, h4, h5⟩
      rw [h2, recBytes_cons, hY, List.append_assoc]

/-- an unfinished run (any fuel) has delivered a prefix of the trace. -/
theorem runReads_prefix (sd : ByteArray) (e : BErr) (rfuel : Nat) :
    ∀ (fuel : Nat) (s : State) (Y : List UInt8) (sched : List Nat) (acc : List ReadRec), Trace sd s Y e →
      (s.err = none → s.rd.bits.length + 2 ≤ rfuel) → 2 ≤ rfuel →
      ∃ Y', recBytes (runReads sd rfuel fuel s sched acc).1 ++ Y' = recBytes acc ++ Y := by
  intro fuel
  induction fuel with
  | zero => intro s Y sched acc _ _ _; rw [runReads]; exact ⟨Y, rfl⟩
  | succ f ih =>
    intro s Y sched acc T hB h2
    rw [runReads_succ]
    have hR := read_ok sd e (sched.headD 4096) rfuel s Y (rfuel - 2) T (fun h => by have := hB h; omega)
      (fun h => hB h) (by omega)
    rcases hr : read sd rfuel s (sched.headD 4096) with ⟨s', out, r⟩
    rw [hr] at hR
    obtain ⟨Y', hY, T', hB', _, _⟩ := hR
    simp only at hY hB' T'
    cases r with
    | some err => exact ⟨Y', by simp only; rw [recBytes_cons, hY, List.append_assoc]⟩
    | none =>
      obtain ⟨Y'', h⟩ := ih s' Y' (if sched.length > 1 then sched.tail else sched)
        ({ out := out, err := none, inOff := s'.inOff, outOff := s'.outOff } :: acc) T'
        (fun h => by have := hB' h; omega) h2
      exact ⟨Y'', by simp only; rw [h, recBytes_cons, hY, List.append_assoc]⟩

theorem length_ofBytes : ∀ l : List UInt8, (Bits.ofBytes l).length = 8 * l.length
  | [] => rfl
  | b :: l => by
    have h8 : (Bits.ofByte b).length = 8 := by simp [Bits.ofByte, Bits.ofNat]
    simp only [Bits.ofBytes, List.length_append, List.length_cons, length_ofBytes l, h8]; omega

theorem init_bits_le (bytes : List UInt8) : (init bytes).rd.bits.length + 2 ≤ readFuel bytes := by
  simp only [init, readFuel, length_ofBytes]; omega

/-- **Layer (a).** A trace of the initial state determines the result of `run` for every
    schedule of Read sizes whose last entry (the one that repeats) is positive: every byte of
    the trace, in order, then its error; the reader ends latched. -/
theorem run_of_trace (sd : ByteArray) (bytes : List UInt8) (full : List UInt8) (e : BErr)
    (T : Trace sd (init bytes) full e) (sched : List Nat) (hs : ∀ n, sched.getLast? = some n → 0 < n)
    (fuel : Nat) (hf : full.length + sched.length + 2 ≤ fuel) :
    ∃ s', run sd fuel bytes sched = (full, some e, s') ∧ s'.toRead = [] ∧ s'.err = some e := by
  obtain ⟨recs, s', h1, h2, h3, h4, h5⟩ :=
    runReads_correct sd e (readFuel bytes) fuel (init bytes) full sched [] T (fun _ => init_bits_le bytes)
      (by unfold readFuel; omega) hs hf
  refine ⟨s', ?_, h4, h5⟩
  simp only [run, h1]
  have : recBytes recs = full := by rw [h2]; simp [recBytes]
  rw [← this, ← h3]; rfl

/-- **Schedule independence**: two schedules (each with enough fuel) deliver the same bytes and the same final error. -/
theorem run_schedule_independent (sd : ByteArray) (bytes : List UInt8) (full : List UInt8) (e : BErr)
    (T : Trace sd (init bytes) full e) (s1 s2 : List Nat)
    (h1 : ∀ n, s1.getLast? = some n → 0 < n) (h2 : ∀ n, s2.getLast? = some n → 0 < n)
    (f1 f2 : Nat) (hf1 : full.length + s1.length + 2 ≤ f1) (hf2 : full.length + s2.length + 2 ≤ f2) :
    (run sd f1 bytes s1).1 = (run sd f2 bytes s2).1 ∧ (run sd f1 bytes s1).2.1 = (run sd f2 bytes s2).2.1 := by
  obtain ⟨_, r1, _, _⟩ := run_of_trace sd bytes full e T s1 h1 f1 hf1
  obtain ⟨_, r2, _, _⟩ := run_of_trace sd bytes full e T s2 h2 f2 hf2
  rw [r1, r2]; exact ⟨rfl, rfl⟩

/-- **Prefix**: whatever the schedule (zeros, a zero at the end) and the fuel, what has been delivered is a prefix of the trace. -/
theorem run_prefix (sd : ByteArray) (bytes : List UInt8) (full : List UInt8) (e : BErr)
    (T : Trace sd (init bytes) full e) (sched : List Nat) (fuel : Nat) :
    (run sd fuel bytes sched).1 <+: full := by
  obtain ⟨Y', h⟩ := runReads_prefix sd e (readFuel bytes) fuel (init bytes) full sched [] T (fun _ => init_bits_le bytes)
    (by unfold readFuel; omega)
  refine ⟨Y', ?_⟩
  have : (run sd fuel bytes sched).1 = recBytes (runReads sd (readFuel bytes) fuel (init bytes) sched []).1 := by
    simp only [run]; rfl
  rw [this, h]; simp [recBytes]

end Compress.Proofs.BrImpl
