/-
`WriteCopy`/`TryWriteCopy` preserve the window invariant and append an LZ77 copy (S6).
-/
import Compress.Proofs.WindowInv

namespace Compress.Proofs.Window
open Compress.Window

theorem copyLoop_done (fuel : Nat) (h : Array UInt8) (w r : Nat) :
    copyLoop fuel h w w r = (h, w) := by
  cases fuel <;> simp [copyLoop]

/-- the copy loop with the source `dist` below the write cursor (no wrap). -/
theorem Inv.copyPhase {size : Nat} {d : Dict} {out acc : List UInt8} (I : Inv size d out acc)
    (dist : Nat) (hd : 0 < dist) (hdw : dist ≤ d.wrPos) (wrEnd : Nat)
    (h1 : d.wrPos ≤ wrEnd) (h2 : wrEnd ≤ d.hist.size) (fuel : Nat)
    (hf : wrEnd - d.wrPos ≤ fuel) :
    (copyLoop fuel d.hist d.wrPos wrEnd (d.wrPos - dist)).2 = wrEnd ∧
    Inv size { d with hist := (copyLoop fuel d.hist d.wrPos wrEnd (d.wrPos - dist)).1,
                      wrPos := (copyLoop fuel d.hist d.wrPos wrEnd (d.wrPos - dist)).2 }
      (specCopy out dist (wrEnd - d.wrPos)) acc := by
  have hsp := copyLoop_spec0 d.hist d.wrPos wrEnd (d.wrPos - dist) dist fuel hd (by omega) h2 h1 hf
  generalize copyLoop fuel d.hist d.wrPos wrEnd (d.wrPos - dist) = p at hsp
  obtain ⟨h', wp⟩ := p
  obtain ⟨e1, e2, e3⟩ := hsp
  simp only at e1 e2 e3 ⊢
  refine ⟨e1, ?_⟩
  have hwo := I.wr_out
  rw [specCopy_eq dist out hd (by omega)]
  refine I.append _ _ rfl rfl rfl rfl rfl ?_ ?_ ?_ ?_
  · exact e2
  · simp only [List.length_map, List.length_range]; omega
  · simp only [List.length_map, List.length_range]; omega
  · intro j
    simp only [List.length_map, List.length_range]
    rw [e3 j]
    have e : d.wrPos + (wrEnd - d.wrPos) = wrEnd := by omega
    rw [e]
    by_cases c : d.wrPos ≤ j ∧ j < wrEnd
    · rw [if_pos c, if_pos c, lgetD_map_range, if_pos (by omega)]
      have hm : (j - d.wrPos) % dist < dist := Nat.mod_lt _ hd
      generalize (j - d.wrPos) % dist = m at hm
      rw [I.low _ (by omega)]
      congr 1; omega
    · rw [if_neg c, if_neg c]

/-- `WriteCopy` writes `min len avail` bytes of the copy. -/
theorem Inv.writeCopy {size : Nat} {d : Dict} {out acc : List UInt8} (I : Inv size d out acc)
    (dist len : Nat) (hd : 0 < dist) (hdl : dist ≤ min size out.length) :
    (d.writeCopy dist len).2 = min len d.availSize ∧
    Inv size (d.writeCopy dist len).1 (specCopy out dist (min len d.availSize)) acc := by
  have hwl := I.wr_le
  have hwo := I.wr_out
  unfold Dict.writeCopy
  simp only
  by_cases c : d.wrPos < dist
  · rw [if_pos c]
    -- the source wraps: only possible once the window is full
    have hfull : d.full = true := by
      cases hf : d.full
      · have := I.nfull hf; omega
      · rfl
    have hsz := (I.full_sz hfull).1
    have hso := (I.full_sz hfull).2
    have hsp := copyFwd_spec d.hist d.wrPos (min (d.wrPos + len) d.hist.size)
      (d.wrPos + d.hist.size - dist) d.hist.size (by omega) (Or.inl (by omega))
    generalize copyFwd d.hist d.wrPos (min (d.wrPos + len) d.hist.size)
      (d.wrPos + d.hist.size - dist) d.hist.size = p at hsp
    obtain ⟨h1, n1⟩ := p
    obtain ⟨e1, e2, e3⟩ := hsp
    simp only at e1 e2 e3 ⊢
    rw [← e1] at e3
    -- phase 1: `n1` bytes from the top of the buffer
    have hn1 : n1 ≤ dist - d.wrPos := by omega
    have I1 : Inv size { d with hist := h1, wrPos := d.wrPos + n1 } (specCopy out dist n1) acc := by
      rw [specCopy_eq dist out hd (by omega)]
      refine I.append _ _ rfl rfl rfl rfl rfl ?_ ?_ ?_ ?_
      · exact e2
      · simp only [List.length_map, List.length_range]
      · simp only [List.length_map, List.length_range]; omega
      · intro j
        simp only [List.length_map, List.length_range]
        rw [e3 j]
        by_cases c2 : d.wrPos ≤ j ∧ j < d.wrPos + n1
        · rw [if_pos c2, if_pos c2, lgetD_map_range, if_pos (by omega),
            Nat.mod_eq_of_lt (by omega), I.high hfull _ (by omega) (by omega)]
          congr 1; omega
        · rw [if_neg c2, if_neg c2]
    by_cases c3 : d.wrPos + n1 = min (d.wrPos + len) d.hist.size
    · -- the copy ended before the source reached the end of the buffer
      rw [c3, copyLoop_done]
      simp only [Dict.availSize]
      refine ⟨by omega, ?_⟩
      have : min len (d.hist.size - d.wrPos) = n1 := by omega
      rw [this, ← c3]
      exact I1
    · -- phase 2: continue from the bottom of the buffer
      have hn1' : d.wrPos + n1 = dist := by omega
      have hph := I1.copyPhase dist hd (by simp only; omega) (min (d.wrPos + len) d.hist.size)
        (by simp only; omega) (by simp only; omega) (len + 1) (by simp only; omega)
      simp only at hph
      have hz : d.wrPos + n1 - dist = 0 := by omega
      rw [hz] at hph
      obtain ⟨hp1, hp2⟩ := hph
      simp only [Dict.availSize]
      refine ⟨by rw [hp1]; omega, ?_⟩
      rw [← specCopy_add] at hp2
      have : n1 + (min (d.wrPos + len) d.hist.size - (d.wrPos + n1)) =
          min len (d.hist.size - d.wrPos) := by omega
      rw [this] at hp2
      exact hp2
  · rw [if_neg c]
    have hph := I.copyPhase dist hd (by omega) (min (d.wrPos + len) d.hist.size)
      (by omega) (by omega) (len + 1) (by omega)
    obtain ⟨hp1, hp2⟩ := hph
    simp only [Dict.availSize]
    refine ⟨by rw [hp1]; omega, ?_⟩
    have : min (d.wrPos + len) d.hist.size - d.wrPos = min len (d.hist.size - d.wrPos) := by omega
    rw [this] at hp2
    exact hp2

/-- the `TryWriteCopy` fast path followed by the `WriteCopy` fallback is `WriteCopy`. -/
theorem try_eq_writeCopy (useTry : Bool) (d : Dict) (dist len : Nat) :
    (if useTry then
      (match d.tryWriteCopy dist len with
        | (dt, nt) => if nt = 0 then d.writeCopy dist len else (dt, nt))
     else d.writeCopy dist len) = d.writeCopy dist len := by
  cases useTry
  · rfl
  · simp only [if_true]
    by_cases c : d.wrPos < dist ∨ d.wrPos + len > d.hist.size
    · have : d.tryWriteCopy dist len = (d, 0) := by
        unfold Dict.tryWriteCopy
        simp only
        rw [if_pos c]
      rw [this]
      simp
    · have : d.tryWriteCopy dist len = d.writeCopy dist len := by
        unfold Dict.tryWriteCopy Dict.writeCopy
        simp only
        have hm : min (d.wrPos + len) d.hist.size = d.wrPos + len := by omega
        rw [if_neg c, if_neg (by omega), hm]
      rw [this]
      split
      · rfl
      · rfl

end Compress.Proofs.Window
