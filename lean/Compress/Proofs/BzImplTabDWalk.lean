/-
Layer B1 of `tables_agree_degenerate`: the recursive walk `wk` and the specification's
`CTab.decode` in terms of the non-recursive `Acc`/`NoAcc`, for arbitrary tables.
-/
import Compress.Proofs.BzImplTabDDefs

namespace Compress.Proofs.BzImpl.TabD
open Compress Compress.Bzip2 Compress.Prefix
open Compress.Bzip2.Impl (GStatus Explored)

private theorem msb_snoc (q : Bits) (b : Bool) :
    Bits.toNatMSB (q ++ [b]) = 2 * Bits.toNatMSB q + (if b then 1 else 0) := by
  simp [Bits.toNatMSB, List.foldl_append]

private theorem noAcc_mono {t : CTab} {w : Bits} {a b : Nat} (h : NoAcc t w b) (hab : a ≤ b) :
    NoAcc t w a := fun j h1 h2 => h j h1 (by omega)

private theorem noAcc_succ {t : CTab} {w : Bits} {zn : Nat} (h : NoAcc t w zn)
    (hz : t.limit.getD zn 0 < ((Bits.toNatMSB (w.take zn) : Nat) : Int)) :
    NoAcc t w (zn + 1) := by
  intro j h1 h2
  by_cases hj : j = zn
  · subst hj; exact hz
  · exact h j h1 (by omega)

private def WP (t : CTab) (w : Bits) : W → Prop
  | .acc zn zvec => Acc t w zn ∧ zvec = ((Bits.toNatMSB (w.take zn) : Nat) : Int)
  | .need => w.length ≤ t.maxLen ∧ NoAcc t w (w.length + 1)
  | .max => t.maxLen < w.length ∧ NoAcc t w (t.maxLen + 1)

private theorem walk_inv (t : CTab) (hM : t.maxLen ≤ 20) (w : Bits) :
    ∀ (f zn : Nat) (zvec : Int) (p u : Bits), w = p ++ u → p.length = zn →
      zvec = ((Bits.toNatMSB p : Nat) : Int) → t.minLen ≤ zn → 22 ≤ f + zn → NoAcc t w zn →
      WP t w (walk t f zn zvec u) := by
  intro f
  induction f with
  | zero =>
    intro zn zvec p u hw hp hz hmin hf hna
    simp only [walk, WP]
    refine ⟨?_, noAcc_mono hna (by omega)⟩
    rw [hw, List.length_append]; omega
  | succ f ih =>
    intro zn zvec p u hw hp hz hmin hf hna
    have htake : w.take zn = p := by rw [hw, ← hp, List.take_left]
    have hlen : w.length = zn + u.length := by rw [hw, List.length_append, hp]
    unfold walk
    by_cases h1 : zn > t.maxLen
    · rw [if_pos h1]
      exact ⟨by omega, noAcc_mono hna (by omega)⟩
    · rw [if_neg h1]
      by_cases h2 : zvec ≤ t.limit.getD zn 0
      · rw [if_pos h2]
        refine ⟨⟨hmin, by omega, by omega, ?_, hna⟩, ?_⟩
        · rw [htake, ← hz]; exact h2
        · rw [htake]; exact hz
      · rw [if_neg h2]
        have hna' : NoAcc t w (zn + 1) := by
          apply noAcc_succ hna
          rw [htake, ← hz]; omega
        cases u with
        | nil =>
          simp only [WP]
          simp at hlen
          rw [hlen]
          exact ⟨by omega, hna'⟩
        | cons b u' =>
          simp only
          apply ih (zn + 1) _ (p ++ [b]) u'
          · rw [hw]; simp
          · simp [hp]
          · rw [msb_snoc, hz]; cases b <;> simp <;> omega
          · omega
          · omega
          · exact hna'

theorem wk_spec (t : CTab) (hmm : t.minLen ≤ t.maxLen) (hM : t.maxLen ≤ 20) (w : Bits) :
    match wk t w with
    | .acc zn zvec => Acc t w zn ∧ zvec = ((Bits.toNatMSB (w.take zn) : Nat) : Int)
    | .need => w.length ≤ t.maxLen ∧ NoAcc t w (w.length + 1)
    | .max => t.maxLen < w.length ∧ NoAcc t w (t.maxLen + 1) := by
  have key : WP t w (wk t w) := by
    unfold wk
    by_cases h : t.minLen > w.length
    · rw [if_pos h]
      refine ⟨by omega, ?_⟩
      intro j h1 h2; omega
    · rw [if_neg h]
      apply walk_inv t hM w 22 t.minLen _ (w.take t.minLen) (w.drop t.minLen)
      · simp
      · simp; omega
      · rfl
      · omega
      · omega
      · intro j h1 h2; omega
  revert key
  cases wk t w <;> exact id

private def DP (t : CTab) (n : Nat) (bits : Bits) : SymRes → Prop
  | .sym s rest => ∃ zn, Acc t bits zn ∧ rest = bits.drop zn ∧ s < n ∧
        fin t (.acc zn ((Bits.toNatMSB (bits.take zn) : Nat) : Int)) = .okay s
  | .eof => bits.length < t.maxLen ∧ NoAcc t bits (bits.length + 1)
  | .bad => (t.maxLen ≤ bits.length ∧ NoAcc t bits (t.maxLen + 1)) ∨
        ∃ zn, Acc t bits zn ∧ ¬ GoodK t n zn ((Bits.toNatMSB (bits.take zn) : Nat) : Int)

private theorem go_inv (t : CTab) (hM : t.maxLen ≤ 20) (n : Nat) (w : Bits) :
    ∀ (f zn : Nat) (zvec : Int) (p u : Bits), w = p ++ u → p.length = zn →
      zvec = ((Bits.toNatMSB p : Nat) : Int) → t.minLen ≤ zn → zn ≤ t.maxLen → 22 ≤ f + zn →
      NoAcc t w zn → DP t n w (CTab.decode.go t n f zn zvec u) := by
  intro f
  induction f with
  | zero =>
    intro zn zvec p u hw hp hz hmin hmax hf hna
    omega
  | succ f ih =>
    intro zn zvec p u hw hp hz hmin hmax hf hna
    have htake : w.take zn = p := by rw [hw, ← hp, List.take_left]
    have hdrop : w.drop zn = u := by rw [hw, ← hp, List.drop_left]
    have hlen : w.length = zn + u.length := by rw [hw, List.length_append, hp]
    unfold CTab.decode.go
    have h0 : ¬ zn > maxPrefixBits := by simp only [maxPrefixBits]; omega
    rw [if_neg h0]
    by_cases h2 : zvec ≤ t.limit.getD zn 0 ∧ zn ≤ t.maxLen
    · rw [if_pos h2]
      have hacc : Acc t w zn := by
        refine ⟨hmin, hmax, by omega, ?_, hna⟩
        rw [htake, ← hz]; exact h2.1
      simp only
      by_cases h3 : zvec - t.base.getD zn 0 < 0 ∨ zvec - t.base.getD zn 0 ≥ 258
      · rw [if_pos h3]
        refine Or.inr ⟨zn, hacc, ?_⟩
        rw [htake, ← hz]
        intro hg
        have := hg.1; have := hg.2.1
        omega
      · rw [if_neg h3]
        cases hperm : t.perm[(zvec - t.base.getD zn 0).toNat]? with
        | none =>
          simp only
          refine Or.inr ⟨zn, hacc, ?_⟩
          rw [htake, ← hz]
          intro hg
          obtain ⟨_, _, s, hs, _⟩ := hg
          rw [hperm] at hs; cases hs
        | some s =>
          simp only
          by_cases h4 : s < n
          · rw [if_pos h4]
            refine ⟨zn, hacc, hdrop.symm, h4, ?_⟩
            rw [htake, ← hz]
            simp only [fin]
            rw [if_neg h3]
            congr 1
            rw [Array.getD_eq_getD_getElem?, hperm]; rfl
          · rw [if_neg h4]
            refine Or.inr ⟨zn, hacc, ?_⟩
            rw [htake, ← hz]
            intro hg
            obtain ⟨_, _, s', hs, hlt⟩ := hg
            rw [hperm] at hs; cases hs; exact h4 hlt
    · rw [if_neg h2]
      have hna' : NoAcc t w (zn + 1) := by
        apply noAcc_succ hna
        rw [htake, ← hz]
        have : ¬ zvec ≤ t.limit.getD zn 0 := fun h => h2 ⟨h, hmax⟩
        omega
      by_cases h5 : zn ≥ t.maxLen
      · rw [if_pos h5]
        have : zn = t.maxLen := by omega
        refine Or.inl ⟨by omega, ?_⟩
        rw [← this]; exact hna'
      · rw [if_neg h5]
        cases u with
        | nil =>
          simp only [DP]
          simp at hlen
          rw [hlen]
          exact ⟨by omega, hna'⟩
        | cons b u' =>
          simp only
          apply ih (zn + 1) _ (p ++ [b]) u'
          · rw [hw]; simp
          · simp [hp]
          · rw [msb_snoc, hz]; cases b <;> simp <;> omega
          · omega
          · omega
          · omega
          · exact hna'

theorem decode_spec (t : CTab) (hmm : t.minLen ≤ t.maxLen) (hM : t.maxLen ≤ 20) (n : Nat)
    (bits : Bits) :
    match t.decode n bits with
    | .sym s rest => ∃ zn, Acc t bits zn ∧ rest = bits.drop zn ∧ s < n ∧
        fin t (.acc zn ((Bits.toNatMSB (bits.take zn) : Nat) : Int)) = .okay s
    | .eof => bits.length < t.maxLen ∧ NoAcc t bits (bits.length + 1)
    | .bad => (t.maxLen ≤ bits.length ∧ NoAcc t bits (t.maxLen + 1)) ∨
        ∃ zn, Acc t bits zn ∧ ¬ GoodK t n zn ((Bits.toNatMSB (bits.take zn) : Nat) : Int) := by
  have key : DP t n bits (t.decode n bits) := by
    unfold CTab.decode readBE
    by_cases h : (bits.take t.minLen).length < t.minLen
    · simp only [if_pos h]
      rw [List.length_take] at h
      refine ⟨by omega, ?_⟩
      intro j h1 h2; omega
    · simp only [if_neg h]
      rw [List.length_take] at h
      apply go_inv t hM n bits _ t.minLen _ (bits.take t.minLen) (bits.drop t.minLen)
      · simp
      · simp; omega
      · rfl
      · omega
      · omega
      · simp only [maxPrefixBits]; omega
      · intro j h1 h2; omega
  revert key
  cases t.decode n bits <;> exact id

end Compress.Proofs.BzImpl.TabD
