/-
The representation invariant of the ring-buffer window and its preservation by
the primitives (S6).
-/
import Compress.Proofs.WindowSpec

namespace Compress.Proofs.Window
open Compress.Window

/-- `out`: everything produced so far; `acc`: what has been flushed so far. -/
structure Inv (size : Nat) (d : Dict) (out acc : List UInt8) : Prop where
  dsize : d.size = size
  hsz : d.hist.size = min d.cap size
  size_pos : 1 ≤ size
  cap_pos : 1 ≤ d.cap
  rd_le : d.rdPos ≤ d.wrPos
  wr_le : d.wrPos ≤ d.hist.size
  wr_out : d.wrPos ≤ out.length
  low : ∀ i, i < d.wrPos → d.hist.getD i 0 = out.getD (out.length - d.wrPos + i) 0
  acc_eq : acc = out.take (out.length - (d.wrPos - d.rdPos))
  nfull : d.full = false → out.length = d.wrPos
  full_sz : d.full = true → d.hist.size = size ∧ size ≤ out.length
  high : d.full = true → ∀ j, d.wrPos ≤ j → j < size →
    d.hist.getD j 0 = out.getD (out.length + j - d.wrPos - size) 0
  allocs : ∀ a ∈ d.allocs, a ≤ max 4096 (min size (4 * out.length))

theorem Inv.init (size prevCap : Nat) (hs : 1 ≤ size) :
    Inv size (Dict.init size prevCap) [] [] := by
  by_cases hp : prevCap = 0
  · simp only [Dict.init, hp, if_true]
    constructor <;> (try simp [initSize]) <;> (try omega)
  · simp only [Dict.init, hp, if_false]
    constructor <;> (try simp) <;> (try omega)

/-- the invariant holds after `Init` over a used buffer, whatever stale bytes it holds: it says
    nothing about cells at or above the write cursor of a buffer that is not full. -/
theorem Inv.initOver (size prevCap : Nat) (stale : Array UInt8) (hs : 1 ≤ size) :
    Inv size (Dict.initOver size prevCap stale) [] [] := by
  by_cases hp : prevCap = 0
  · subst hp
    constructor <;> (try simp [Dict.initOver, initSize]) <;> (try omega)
  · simp only [Dict.initOver, hp, if_false]
    constructor <;> (try simp [hp]) <;> (try omega)

/-- writing `bs` at the write cursor (no wrap) appends `bs` to the output. -/
theorem Inv.append {size : Nat} {d : Dict} {out acc : List UInt8} (I : Inv size d out acc)
    (d' : Dict) (bs : List UInt8)
    (e1 : d'.size = d.size) (e2 : d'.cap = d.cap) (e3 : d'.rdPos = d.rdPos)
    (e4 : d'.full = d.full) (e5 : d'.allocs = d.allocs)
    (e6 : d'.hist.size = d.hist.size) (e7 : d'.wrPos = d.wrPos + bs.length)
    (hfit : d.wrPos + bs.length ≤ d.hist.size)
    (hnew : ∀ j, d'.hist.getD j 0 =
      if d.wrPos ≤ j ∧ j < d.wrPos + bs.length then bs.getD (j - d.wrPos) 0
      else d.hist.getD j 0) :
    Inv size d' (out ++ bs) acc := by
  obtain ⟨i1, i2, i3, i4, i5, i6, i7, i8, i9, i10, i11, i12, i13⟩ := I
  constructor
  · rw [e1, i1]
  · rw [e6, e2, i2]
  · exact i3
  · rw [e2]; exact i4
  · rw [e3, e7]; omega
  · rw [e7, e6]; exact hfit
  · rw [e7, List.length_append]; omega
  · intro i hi
    rw [e7] at hi
    rw [hnew, e7, lgetD_append, List.length_append]
    by_cases c : d.wrPos ≤ i
    · rw [if_pos ⟨c, hi⟩, if_neg (by omega)]
      congr 1; omega
    · rw [if_neg (by omega), if_pos (by omega), i8 i (by omega)]
      congr 1; omega
  · rw [e7, e3, List.length_append, i9, List.take_append_of_le_length (by omega)]
    congr 1; omega
  · intro hf
    rw [e4] at hf
    rw [e7, List.length_append, i10 hf]
  · intro hf
    rw [e4] at hf
    rw [e6, List.length_append]
    exact ⟨(i11 hf).1, by have := (i11 hf).2; omega⟩
  · intro hf j hj1 hj2
    rw [e4] at hf
    rw [e7] at hj1
    have := (i11 hf).2
    rw [hnew, if_neg (by omega), i12 hf j (by omega) hj2, e7, lgetD_append, List.length_append,
      if_pos (by omega)]
    congr 1; omega
  · intro a ha
    rw [e5] at ha
    have := i13 a ha
    rw [List.length_append]
    omega

/-! ### `writeByte`, `writeBytes` -/

theorem Inv.writeByte {size : Nat} {d : Dict} {out acc : List UInt8} (I : Inv size d out acc)
    (c : UInt8) (hav : d.wrPos < d.hist.size) :
    Inv size (d.writeByte c) (out ++ [c]) acc := by
  apply I.append (d.writeByte c) [c] rfl rfl rfl rfl rfl
  · simp [Dict.writeByte]
  · rfl
  · simp only [List.length_singleton]; omega
  · intro j
    simp only [Dict.writeByte, agetD_set, List.length_singleton]
    by_cases c1 : d.wrPos = j
    · subst c1
      have e1 : d.wrPos = d.wrPos ∧ d.wrPos < d.hist.size := ⟨rfl, hav⟩
      have e2 : d.wrPos ≤ d.wrPos ∧ d.wrPos < d.wrPos + 1 := by omega
      rw [if_pos e1, if_pos e2]
      simp
    · have e1 : ¬(d.wrPos = j ∧ d.wrPos < d.hist.size) := by omega
      have e2 : ¬(d.wrPos ≤ j ∧ j < d.wrPos + 1) := by omega
      rw [if_neg e1, if_neg e2]

theorem Inv.writeBytes {size : Nat} {d : Dict} {out acc : List UInt8} (I : Inv size d out acc)
    (bs : List UInt8) :
    (d.writeBytes bs).2 = min bs.length d.availSize ∧
    Inv size (d.writeBytes bs).1 (out ++ bs.take (min bs.length d.availSize)) acc := by
  refine ⟨rfl, ?_⟩
  have hw := I.wr_le
  have hlen : (bs.take (min bs.length d.availSize)).length = min bs.length d.availSize := by
    rw [List.length_take]; omega
  have hm : min (min bs.length d.availSize) bs.length = min bs.length d.availSize := by omega
  have hgo := writeBytes_go_spec bs (min bs.length d.availSize) d.wrPos d.hist
    (by rw [hm]; simp only [Dict.availSize]; omega)
  rw [hm] at hgo
  apply I.append (d.writeBytes bs).1 _ rfl rfl rfl rfl rfl
  · exact hgo.1
  · simp only [Dict.writeBytes]; rw [hlen]
  · rw [hlen]; simp only [Dict.availSize]; omega
  · intro j
    rw [hlen]
    simp only [Dict.writeBytes]
    rw [hgo.2 j]
    by_cases c : d.wrPos ≤ j ∧ j < d.wrPos + min bs.length d.availSize
    · rw [if_pos c, if_pos c, lgetD_take, if_pos (by omega)]
    · rw [if_neg c, if_neg c]

/-! ### `readFlush` -/

theorem Inv.extract_eq {size : Nat} {d : Dict} {out acc : List UInt8} (I : Inv size d out acc) :
    (d.hist.extract d.rdPos d.wrPos).toList = out.drop (out.length - (d.wrPos - d.rdPos)) := by
  have h1 := I.rd_le
  have h2 := I.wr_le
  have h3 := I.wr_out
  apply list_ext_getD
  · simp; omega
  · intro i hi
    have hi' : i < d.wrPos - d.rdPos := by simp at hi; omega
    rw [lgetD_extract _ _ _ _ h2, if_pos hi', lgetD_drop, I.low _ (by omega)]
    congr 1; omega

theorem Inv.acc_append {size : Nat} {d : Dict} {out acc : List UInt8} (I : Inv size d out acc) :
    acc ++ (d.hist.extract d.rdPos d.wrPos).toList = out := by
  rw [I.extract_eq, I.acc_eq, List.take_append_drop]

theorem Inv.readFlush {size : Nat} {d : Dict} {out acc : List UInt8} (I : Inv size d out acc) :
    Inv size d.readFlush.1 out (acc ++ d.readFlush.2) ∧
    d.readFlush.1.wrPos < d.readFlush.1.hist.size ∧
    d.readFlush.1.rdPos = d.readFlush.1.wrPos := by
  have hacc := I.acc_append
  obtain ⟨i1, i2, i3, i4, i5, i6, i7, i8, i9, i10, i11, i12, i13⟩ := I
  unfold Dict.readFlush
  simp only
  by_cases c1 : d.wrPos = d.hist.size
  · rw [if_pos c1]
    by_cases c2 : d.hist.size = d.size
    · rw [if_pos c2]
      simp only
      refine ⟨?_, by omega, trivial⟩
      rw [hacc]
      constructor <;> (try simp only)
      · exact i1
      · exact i2
      · exact i3
      · exact i4
      · exact Nat.le_refl _
      · omega
      · omega
      · intro i hi; omega
      · simp
      · intro hf; cases hf
      · intro _; omega
      · intro _ j _ hj
        rw [i8 j (by omega)]
        congr 1; omega
      · exact i13
    · rw [if_neg c2]
      simp only
      have hnf : d.full = false := by
        cases hf : d.full
        · rfl
        · exact absurd ((i11 hf).1.trans i1.symm) c2
      have hlen := i10 hnf
      have hcap : d.hist.size = d.cap := by omega
      have hlt : d.cap < size := by omega
      have hgrow : d.hist.size < min (d.cap * growFactor) d.size := by
        simp only [growFactor]; omega
      have hget : ∀ j, ((List.range (min (d.cap * growFactor) d.size)).map
          (fun i => d.hist.getD i 0)).toArray.getD j 0 = d.hist.getD j 0 := by
        intro j
        rw [agetD_map_range]
        split
        · rfl
        · rw [agetD_oob]; omega
      refine ⟨?_, by simp; omega, trivial⟩
      rw [hacc]
      constructor <;> (try simp only)
      · exact i1
      · simp [growFactor]; omega
      · exact i3
      · simp only [growFactor]; omega
      · exact Nat.le_refl _
      · simp; omega
      · exact i7
      · intro i hi
        rw [hget, i8 i hi]
      · simp
      · exact i10
      · intro hf; rw [hnf] at hf; cases hf
      · intro hf; rw [hnf] at hf; cases hf
      · intro a ha
        rw [List.mem_append] at ha
        rcases ha with ha | ha
        · exact i13 a ha
        · simp only [List.mem_singleton] at ha
          subst ha
          simp only [growFactor]
          omega
  · rw [if_neg c1]
    refine ⟨?_, by simp only; omega, rfl⟩
    rw [hacc]
    constructor <;> (try simp only)
    · exact i1
    · exact i2
    · exact i3
    · exact i4
    · exact Nat.le_refl _
    · exact i6
    · exact i7
    · exact i8
    · simp
    · exact i10
    · exact i11
    · exact i12
    · exact i13

end Compress.Proofs.Window
