/-
Stage lemma (d), fast path: for a complete (Kraft-equal) length vector `ReadPrefixCodes` calls
GeneratePrefixes (which cannot fail) and Decoder.Init; the two-level table decodes every bit
string exactly as libbzip2's limit/base/perm tables for the same vector.
-/
import Compress.Proofs.BzImplDefs
import Compress.Proofs.PrefixTables
import Compress.Proofs.BzRTCTab
import Compress.Proofs.BzCutCTab
import Compress.Proofs.FlateHuff

namespace Compress.Proofs.BzImpl
open Compress Compress.Bzip2 Compress.Prefix
open Compress.Bzip2.Impl (Err M State)
open Compress.Proofs.PrefixCodes Compress.Proofs.PrefixTables

/-- the tables an out-of-range selector would pick (never happens; both sides reject). -/
theorem tabRel_default (numSyms : Nat) : TabRel {} default numSyms := by
  intro bits
  have hd : (default : CTab) = ⟨0, 0, #[], #[], #[]⟩ := rfl
  have h1 : goSym {} numSyms bits = .error (.corrupted, bits) := by
    simp [goSym, Impl.readSymbol]
  have h2 : specSym default numSyms bits = .error .corrupt := by
    rw [hd]
    simp [specSym, CTab.decode, readBE, CTab.decode.go, maxPrefixBits, Bits.toNatMSB]
  rw [h1, h2]
  exact ErrRel.corrupt


/-! ### Kraft equality in the form of the model -/

theorem kraftSum_eq (lens : List Nat) : Impl.kraftSum lens = kraftScaled lens maxPrefixBits := by
  unfold Impl.kraftSum kraftScaled
  rw [List.foldl_map]

theorem kraftComplete_of_sum (lens : List Nat) (hl : ∀ l ∈ lens, l ≤ maxPrefixBits)
    (h : Impl.kraftSum lens = 2 ^ maxPrefixBits) : KraftComplete lens := by
  intro m hm
  rw [kraftSum_eq] at h
  have hM : ∀ l ∈ lens, l ≤ min m maxPrefixBits := fun l hl' => by
    have := hm l hl'; have := hl l hl'; omega
  have e1 := kraftScaled_scale lens (min m maxPrefixBits) maxPrefixBits hM (Nat.min_le_right _ _)
  have e2 := kraftScaled_scale lens (min m maxPrefixBits) m hM (Nat.min_le_left _ _)
  rw [h] at e1
  have e3 : (2:Nat) ^ maxPrefixBits =
      2 ^ (maxPrefixBits - min m maxPrefixBits) * 2 ^ (min m maxPrefixBits) := by
    rw [← Nat.pow_add]; congr 1; omega
  rw [e3] at e1
  have e4 := Nat.eq_of_mul_eq_mul_left (Nat.two_pow_pos _) e1
  rw [e2, ← e4, ← Nat.pow_add]
  congr 1; omega

/-- the assigned code of a complete vector. -/
def csOf (lens : List Nat) : List Code :=
  assignVals (BzRT.codesOf lens) (nextFn (BzRT.codesOf lens))

theorem gp_complete (lens : List Nat) (h2 : 2 ≤ lens.length)
    (hl : ∀ l ∈ lens, 1 ≤ l ∧ l ≤ maxPrefixBits) (hk : KraftComplete lens) :
    generatePrefixes (Impl.codesOfLens lens) = .ok (csOf lens) ∧ GoodCodes (csOf lens) := by
  obtain ⟨hv, hE, hrange, -⟩ := BzRT.codeSpec lens h2 hl hk
  have hr : generatePrefixes (BzRT.codesOf lens) = .ok (csOf lens) := by
    rw [(gp_valid _ hv).2, if_neg (by simp [hE])]; rfl
  refine ⟨hr, ?_⟩
  have hsh := (assignVals_shape (BzRT.codesOf lens) (nextFn (BzRT.codesOf lens))).2
  have hmem : ∀ x ∈ csOf lens, ∃ y ∈ BzRT.codesOf lens, y.len = x.len := by
    intro x hx
    have : x.len ∈ (csOf lens).map (·.len) := List.mem_map.2 ⟨x, hx, rfl⟩
    unfold csOf at this
    rw [hsh] at this
    exact List.mem_map.1 this
  constructor
  · have := congrArg List.length hsh
    rw [List.length_map, List.length_map] at this
    unfold csOf
    rw [this]; exact hv.1
  · intro c hc
    obtain ⟨y, hy, e⟩ := hmem c hc
    rw [← e]; exact hv.2.2 y hy
  · exact assignVals_val_lt _ _
  · exact generatePrefixes_prefixFree _ _ hv hr
  · unfold csOf
    rw [hsh, BzRT.codesOf_lens]; exact hk

/-! ### every long enough bit string starts with a code word -/

open Compress.Proofs.FlateRefine in
theorem cover_found (cs0 : List Code) (bits : Bits) (l : Nat) (hl : l ≤ bits.length)
    (hf : firstCode cs0 l ≤ Bits.toNatMSB (bits.take l))
    (hv : Bits.toNatMSB (bits.take l) < endCode cs0 l) :
    ∃ c ∈ assignVals cs0 (nextFn cs0), c.word <+: bits := by
  have hk : Bits.toNatMSB (bits.take l) - firstCode cs0 l < (symsL cs0 l).length := by
    rw [symsL_length]; unfold endCode at hv; omega
  have hs := List.getElem?_eq_getElem hk
  obtain ⟨c, hc, -, hcl, hcv⟩ := assignVals_kth cs0 (nextFn cs0) l _ _ hs
  have hmem := List.getElem_mem hk
  unfold symsL at hmem
  obtain ⟨c0, hc0, -⟩ := List.mem_map.1 hmem
  obtain ⟨hc0m, hc0l⟩ := List.mem_filter.1 hc0
  have hc0l : c0.len = l := by simpa using hc0l
  have hn := nextFn_eq cs0 c0 hc0m
  rw [hc0l] at hn
  refine ⟨c, hc, ?_⟩
  have htl : (bits.take l).length = l := by rw [List.length_take]; omega
  have hw : c.word = bits.take l := by
    unfold Code.word
    rw [hcv, hcl, hn, ofNat_reverseBits]
    have e : firstCode cs0 l + (Bits.toNatMSB (bits.take l) - firstCode cs0 l) =
        Bits.toNatMSB (bits.take l) := by omega
    rw [e]
    have := ofNat_toNatMSB (bits.take l)
    rw [htl] at this
    exact this
  rw [hw]
  exact List.take_prefix _ _

open Compress.Proofs.FlateRefine in
theorem cover_aux (cs0 : List Code) (hE : endCode cs0 (maxB cs0) = 2 ^ maxB cs0) (bits : Bits)
    (hlen : maxB cs0 ≤ bits.length) :
    ∀ n l, maxB cs0 - l = n → l ≤ maxB cs0 →
      firstCode cs0 l ≤ Bits.toNatMSB (bits.take l) →
      ∃ c ∈ assignVals cs0 (nextFn cs0), c.word <+: bits := by
  intro n
  induction n with
  | zero =>
    intro l hn hl hf
    have hl' : l = maxB cs0 := by omega
    apply cover_found cs0 bits l (by omega) hf
    have := toNatMSB_lt (bits.take l)
    rw [List.length_take, Nat.min_eq_left (by omega)] at this
    rw [hl', hE]; rw [hl'] at this; exact this
  | succ n ih =>
    intro l hn hl hf
    by_cases hv : Bits.toNatMSB (bits.take l) < endCode cs0 l
    · exact cover_found cs0 bits l (by omega) hf hv
    · apply ih (l + 1) (by omega) (by omega)
      have hlt : l < bits.length := by omega
      rw [List.take_succ_eq_append_getElem hlt, toNatMSB_snoc, firstCode_succ']
      omega

theorem cover (cs0 : List Code) (hE : endCode cs0 (maxB cs0) = 2 ^ maxB cs0) (bits : Bits)
    (hlen : maxB cs0 ≤ bits.length) :
    ∃ c ∈ assignVals cs0 (nextFn cs0), c.word <+: bits := by
  apply cover_aux cs0 hE bits hlen _ 0 rfl (Nat.zero_le _)
  have h0 : firstCode cs0 0 = 0 := firstCode_eq_zero cs0 0 (fun _ _ => Nat.zero_le _)
  omega

/-! ### the assigned codes and `codeWords` -/

theorem csOf_word (lens : List Nat) (h2 : 2 ≤ lens.length)
    (hl : ∀ l ∈ lens, 1 ≤ l ∧ l ≤ maxPrefixBits) (hk : KraftComplete lens)
    (c : Code) (hc : c ∈ csOf lens) :
    c.sym < lens.length ∧ (codeWords lens).getD c.sym [] = c.word := by
  have hgp := (gp_complete lens h2 hl hk).1
  have hcw : codeWords lens = (csOf lens).map Code.word := by
    unfold codeWords
    change (match generatePrefixes (Impl.codesOfLens lens) with
      | .ok cs => cs.map Code.word
      | .error _ => lens.map fun _ => []) = _
    rw [hgp]
  obtain ⟨i, hi⟩ := List.getElem?_of_mem hc
  have hi' := hi
  unfold csOf at hi'
  rw [BzRT.assignVals_getElem?] at hi'
  by_cases hlt : i < lens.length
  · rw [BzRT.codesOf_getElem? lens i hlt] at hi'
    simp only [Option.map_some, Option.some.injEq] at hi'
    have hs : c.sym = i := by rw [← hi']
    rw [hs]
    refine ⟨hlt, ?_⟩
    rw [hcw, List.getD_eq_getElem?_getD, List.getElem?_map, hi]
    rfl
  · have : (BzRT.codesOf lens)[i]? = none := by
      apply List.getElem?_eq_none
      rw [BzRT.codesOf_length]; omega
    rw [this] at hi'
    cases hi'

/-! ### the two decoders -/

theorem specSym_eq_symE (t : CTab) (n : Nat) (bits : Bits) :
    specSym t n bits = BzCut.symE t n bits := by
  unfold specSym BzCut.symE
  cases t.decode n bits <;> rfl

theorem tables_agree_complete : TablesAgreeOn Complete := by
  intro lens numSyms hok hc
  have hc : Impl.kraftSum lens = 2 ^ maxPrefixBits := hc
  obtain ⟨hlen, h3, h258, hl⟩ := hok
  have h2 : 2 ≤ lens.length := by omega
  have hk := kraftComplete_of_sum lens (fun l h => (hl l h).2) hc
  obtain ⟨hgp, hg⟩ := gp_complete lens h2 hl hk
  obtain ⟨hv, hE, hrange, -⟩ := BzRT.codeSpec lens h2 hl hk
  refine ⟨Decoder.init (csOf lens), ?_, ?_⟩
  · unfold Impl.treeOfLens
    rw [if_pos hc, hgp]
  intro bits
  have hne := FlateRefine.chunks_ne _ hg
  have hmax : maxB (BzRT.codesOf lens) ≤ 20 :=
    foldl_max_le _ 0 20 (Nat.zero_le _) (fun c hc => by
      have : c.len ∈ (BzRT.codesOf lens).map (·.len) := List.mem_map.2 ⟨c, hc, rfl⟩
      rw [BzRT.codesOf_lens] at this
      exact (hl _ this).2)
  obtain ⟨c, hcm, hpre⟩ := cover (BzRT.codesOf lens) hE (bits ++ List.replicate 20 false)
    (by rw [List.length_append, List.length_replicate]; omega)
  change c ∈ csOf lens at hcm
  obtain ⟨hs, hw⟩ := csOf_word lens h2 hl hk c hcm
  have hdec : ∀ r, (mkCTab lens).decode numSyms (c.word ++ r) = .sym c.sym r := by
    intro r
    have := (BzRT.decode_codeWord lens h2 (by omega) hl hk c.sym hs r).2
    rw [hw, hlen] at this
    exact this
  have hwl : c.word.length = c.len := word_length c
  by_cases hle : c.len ≤ bits.length
  · have hp : c.word <+: bits :=
      List.prefix_of_prefix_length_le hpre (List.prefix_append _ _) (by rw [hwl]; exact hle)
    obtain ⟨r, rfl⟩ := hp
    have h1 : goSym (Decoder.init (csOf lens)) numSyms (c.word ++ r) = .ok (c.sym, r) := by
      unfold goSym Impl.readSymbol
      rw [if_neg hne, decoder_readSymbol _ hg c hcm r]
      simp only
      rw [if_neg (by omega)]
    have h2 : specSym (mkCTab lens) numSyms (c.word ++ r) = .ok (c.sym, r) := by
      unfold specSym
      rw [hdec r]
    rw [h1, h2]
    rfl
  · obtain ⟨rest, hfull⟩ := hpre
    have hlt : bits.length < c.len := by omega
    have hc20 : c.len ≤ 20 := by
      have : c.len ∈ (csOf lens).map (·.len) := List.mem_map.2 ⟨c, hcm, rfl⟩
      unfold csOf at this
      rw [(assignVals_shape _ _).2, BzRT.codesOf_lens] at this
      exact (hl _ this).2
    have h1 : goSym (Decoder.init (csOf lens)) numSyms bits = .error (.unexpectedEOF, bits) := by
      have hlook := decoder_lookup _ hg c hcm rest
      rw [hfull, List.take_append, List.take_replicate, FlateRefine.toNat_append_false,
        List.take_of_length_le (by omega)] at hlook
      have hnone : (Decoder.init (csOf lens)).readSymbol bits = none := by
        unfold Decoder.readSymbol
        rw [if_neg hne]
        split
        · rfl
        · rw [List.take_of_length_le (by omega), hlook]
          simp only
          rw [if_neg (by omega)]
      unfold goSym Impl.readSymbol
      rw [if_neg hne, hnone]
    have h2 : specSym (mkCTab lens) numSyms bits = .error .unexpectedEOF := by
      rw [specSym_eq_symE]
      have hfullE : BzCut.symE (mkCTab lens) numSyms (bits ++ List.replicate 20 false) =
          .ok (c.sym, rest) := by
        rw [← specSym_eq_symE, ← hfull]
        unfold specSym
        rw [hdec rest]
      obtain ⟨c', hc', p⟩ := BzCut.symE_prefixOK (mkCTab lens) numSyms _ _ _ hfullE
      have hcl : c'.length = c.len := by
        have := congrArg List.length hc'
        have h' := congrArg List.length hfull
        simp only [List.length_append] at this h'
        omega
      have := (p bits.length).1 (by omega)
      rw [List.take_left'  rfl] at this
      exact this
    rw [h1, h2]
    exact ErrRel.ueof

end Compress.Proofs.BzImpl
