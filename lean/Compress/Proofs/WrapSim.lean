/-
The wrappers of wrap.go simulate the abstract `Source` of BitReader.lean: the
simulation relation and its preservation by every operation.
-/
import Compress.Proofs.WrapContract

namespace Compress.Proofs.Wrap
open Compress Compress.Prefix Compress.Prefix.Wrap

/-- **Simulation relation** between a `bytesReader`/`stringReader` and an abstract source:
    the abstract source holds exactly the unread bytes at the embedded reader's CURRENT
    position, never fails, and its ghost `peeked` (bytes handed out by Peek and not yet
    consumed - what `Buffered()` must at least answer) is covered by the usable part of the
    cache.  The adversarial `bufAdv` list is unconstrained. -/
structure Sim (w : CRd) (s : Source) : Prop where
  inv : CInv w
  data : s.data = w.rd.rest
  nofail : s.failAfter = none
  mode : s.buffered? = true
  peeked : s.peeked ≤ cached w

theorem sim_avail {w : CRd} {s : Source} (h : Sim w s) : s.avail = w.rd.len := by
  simp only [Source.avail, h.nofail, h.data, rest_length]

/-- a fresh wrapper simulates the source over the unread bytes, for any adversary list. -/
theorem sim_fresh (rd : Rd) (adv : List Nat) : Sim (CRd.fresh rd) { data := rd.rest, bufAdv := adv } :=
  ⟨cinv_fresh rd, rfl, rfl, rfl, Nat.zero_le _⟩

/-- **Peek.** -/
theorem sim_peek {w : CRd} {s : Source} (h : Sim w s) (n : Nat) (hn : n ≤ arrLen) :
    (w.peek n).2.1 = (s.peek n).2.1 ∧ (w.peek n).2.2.map WErr.toR = (s.peek n).2.2 ∧
    Sim (w.peek n).1 (s.peek n).1 := by
  obtain ⟨p1, p2, p3, p4, p5, p6⟩ := peek_spec h.inv n hn
  have ha := sim_avail h
  have hl : s.data.length = w.rd.len := by rw [h.data, rest_length]
  have hpk := h.peeked
  simp only [Source.peek, ha]
  by_cases hle : n ≤ w.rd.len
  · simp only [hle, if_true]
    refine ⟨by rw [p1, h.data], by rw [p2, if_neg (by omega)]; rfl, p4, by rw [p3]; exact h.data, h.nofail, h.mode, ?_⟩
    simp only; omega
  · simp only [hle, if_false]
    refine ⟨?_, ?_, p4, by rw [p3]; exact h.data, h.nofail, h.mode, ?_⟩
    · rw [p1, h.data, List.take_of_length_le (by rw [rest_length]; omega),
        List.take_of_length_le (by rw [rest_length]; omega)]
    · rw [p2, if_pos (by omega)]
      simp [Source.shortErr, h.nofail, WErr.toR]
    · simp only; omega

/-- consuming `k ≤ remaining` bytes on both sides. -/
theorem sim_consume {w : CRd} {s : Source} (h : Sim w s) (k : Nat) (rd' : Rd) (hs : rd'.s = w.rd.s)
    (hi : rd'.i = w.rd.i + k) : Sim { w with rd := rd' } (s.consume k) := by
  refine ⟨cinv_move h.inv _ hs, ?_, by simp [Source.consume, h.nofail], by simp [Source.consume, h.mode], ?_⟩
  · simp only [Source.consume, h.data, Rd.rest, List.drop_drop, hs, hi]
  · have hpk := h.peeked
    exact Nat.le_trans (by simp only [Source.consume]; omega : (s.consume k).peeked ≤ cached w - k)
      (cached_advance w k rd' hi)

/-- **Discard.** -/
theorem sim_discard {w : CRd} {s : Source} (h : Sim w s) (n : Nat) :
    (w.discard n).2.1 = (s.discard n).2.1 ∧ (w.discard n).2.2.map WErr.toR = (s.discard n).2.2 ∧
    Sim (w.discard n).1 (s.discard n).1 := by
  have ha := sim_avail h
  rw [discard_spec]
  by_cases hle : n ≤ w.rd.len
  · have e2 : s.discard n = (s.consume n, n, none) := by simp [Source.discard, ha, hle]
    rw [e2, Nat.min_eq_left hle, if_neg (by omega)]
    exact ⟨rfl, rfl, sim_consume h n _ rfl rfl⟩
  · have e2 : s.discard n = (s.consume w.rd.len, w.rd.len, some .eof) := by
      simp [Source.discard, ha, hle, Source.shortErr, h.nofail]
    rw [e2, Nat.min_eq_right (Nat.le_of_not_le hle), if_pos (by omega)]
    exact ⟨rfl, rfl, sim_consume h _ _ rfl rfl⟩

/-- **Direct Read** on the embedded reader (`len(buf) = n > 0`, or not at the end: a
    zero-length Read at the end answers io.EOF on bytes.Reader and nil on the abstract
    source; prefix.Reader passes either through and has no such call of its own). -/
theorem sim_read {w : CRd} {s : Source} (h : Sim w s) (n : Nat) (hn : 0 < n ∨ w.rd.i < w.rd.s.length) :
    (w.read n).2.1 = (s.read n).2.1 ∧ (w.read n).2.2.map WErr.toR = (s.read n).2.2 ∧
    Sim (w.read n).1 (s.read n).1 := by
  have ha := sim_avail h
  have hlen : w.rd.len = w.rd.s.length - w.rd.i := rfl
  by_cases hend : w.rd.i ≥ w.rd.s.length
  · have hn0 : 0 < n := by omega
    have hl0 : w.rd.len = 0 := by omega
    have e1 : w.read n = (w, [], some .eof) := by simp [CRd.read, Rd.read, hend]
    have e2 : s.read n = (s, [], some .eof) := by
      simp [Source.read, ha, hl0, hn0, Source.shortErr, h.nofail]
    rw [e1, e2]
    exact ⟨rfl, rfl, h⟩
  · have hbl : ((w.rd.s.drop w.rd.i).take n).length = min n w.rd.len := by
      rw [List.length_take, List.length_drop]; rfl
    have e1 : w.read n = ({ w with rd := { w.rd with i := w.rd.i + min n w.rd.len } }, w.rd.rest.take n, none) := by
      simp only [CRd.read, Rd.read, hend, if_false, hbl]; rfl
    have hk : ¬ (min n w.rd.len = 0 ∧ n > 0) := by omega
    have e2 : s.read n = (s.consume (min n w.rd.len), s.data.take (min n w.rd.len), none) := by
      simp only [Source.read, ha, hk, if_false]
    rw [e1, e2]
    refine ⟨?_, rfl, sim_consume h _ _ rfl rfl⟩
    show w.rd.rest.take n = s.data.take (min n w.rd.len)
    rw [h.data]
    rcases Nat.le_total n w.rd.len with hl | hl
    · rw [Nat.min_eq_left hl]
    · rw [Nat.min_eq_right hl, List.take_of_length_le (by rw [rest_length]; exact hl),
        List.take_of_length_le (by rw [rest_length]; exact Nat.le_refl _)]

/-- **Buffered.**  The abstract answer is adversarial: the concrete answer is one the
    adversary may give in this state (`min avail (max peeked b) = b`), and the relation is
    kept (the concrete wrapper re-synchronises its cache, the abstract state does not move). -/
theorem sim_buffered {w : CRd} {s : Source} (h : Sim w s) :
    Sim w.buffered.1 s ∧ w.buffered.2 ≤ s.avail ∧ s.peeked ≤ w.buffered.2 ∧
    ∀ rest, ({ s with bufAdv := w.buffered.2 :: rest } : Source).bufferedAns.2 = w.buffered.2 := by
  obtain ⟨b1, b2, b3⟩ := buffered_spec h.inv
  have ha := sim_avail h
  have hpk := h.peeked
  refine ⟨?_, by omega, by omega, ?_⟩
  · rw [b1]
    exact ⟨(update_inv h.inv).1, by rw [update_rd]; exact h.data, h.nofail, h.mode, by rw [cached_update]; exact hpk⟩
  · intro rest
    have : ({ s with bufAdv := w.buffered.2 :: rest } : Source).avail = s.avail := rfl
    simp only [Source.bufferedAns, this]
    omega

/-- **Seek by the owner**: the wrapper then simulates the source re-targeted at the new
    position (nothing peeked). -/
theorem sim_seek {w : CRd} (h : CInv w) (off : Int) (wh : Nat) (adv : List Nat) :
    Sim (w.extSeek off wh).1 { data := (w.extSeek off wh).1.rd.rest, bufAdv := adv } :=
  ⟨cinv_move h _ (seek_s _ _ _), rfl, rfl, rfl, Nat.zero_le _⟩

/-! ### buffer (bytes.Buffer) -/

structure BSim (b : Buf) (s : Source) : Prop where
  data : s.data = b.unread
  nofail : s.failAfter = none
  mode : s.buffered? = true

theorem bsim_avail {b : Buf} {s : Source} (h : BSim b s) : s.avail = b.unread.length := by
  simp only [Source.avail, h.nofail, h.data]

theorem bsim_peek {b : Buf} {s : Source} (h : BSim b s) (n : Nat) :
    (b.peek n).2.1 = (s.peek n).2.1 ∧ (b.peek n).2.2.map WErr.toR = (s.peek n).2.2 ∧
    BSim (b.peek n).1 (s.peek n).1 := by
  have ha := bsim_avail h
  simp only [Buf.peek, Source.peek, ha]
  by_cases hle : n ≤ b.unread.length
  · simp only [hle, if_true, if_neg (Nat.not_lt.mpr hle)]
    exact ⟨by rw [h.data], rfl, h.data, h.nofail, h.mode⟩
  · simp only [hle, if_false, if_pos (Nat.lt_of_not_le hle)]
    refine ⟨by rw [h.data, List.take_of_length_le (Nat.le_refl _)], ?_, h.data, h.nofail, h.mode⟩
    simp [Source.shortErr, h.nofail, WErr.toR]

theorem bsim_discard {b : Buf} {s : Source} (h : BSim b s) (n : Nat) :
    (b.discard n).2.1 = (s.discard n).2.1 ∧ (b.discard n).2.2.map WErr.toR = (s.discard n).2.2 ∧
    BSim (b.discard n).1 (s.discard n).1 := by
  have ha := bsim_avail h
  simp only [Buf.discard, Source.discard, ha]
  by_cases hle : n ≤ b.unread.length
  · simp only [hle, if_true, Nat.min_eq_left hle, Nat.lt_irrefl, if_false]
    exact ⟨trivial, rfl, by simp [Source.consume, h.data], by simp [Source.consume, h.nofail], by simp [Source.consume, h.mode]⟩
  · simp only [hle, if_false, Nat.min_eq_right (Nat.le_of_not_le hle), if_pos (Nat.lt_of_not_le hle)]
    exact ⟨trivial, by simp [Source.shortErr, h.nofail, WErr.toR], by simp [Source.consume, h.data],
      by simp [Source.consume, h.nofail], by simp [Source.consume, h.mode]⟩

theorem bsim_read {b : Buf} {s : Source} (h : BSim b s) (n : Nat) :
    (b.read n).2.1 = (s.read n).2.1 ∧ (b.read n).2.2.map WErr.toR = (s.read n).2.2 ∧
    BSim (b.read n).1 (s.read n).1 := by
  have ha := bsim_avail h
  simp only [Buf.read, Source.read, ha]
  by_cases he : b.unread = []
  · simp only [he, List.isEmpty_nil, if_true, List.length_nil, Nat.min_zero, true_and, gt_iff_lt]
    by_cases hn : 0 < n
    · simp only [hn, if_true, if_neg (Nat.pos_iff_ne_zero.mp hn)]
      refine ⟨trivial, by simp [Source.shortErr, h.nofail, WErr.toR], ?_⟩
      exact ⟨by rw [h.data, he], h.nofail, h.mode⟩
    · have : n = 0 := by omega
      subst this
      simp only [Nat.lt_irrefl, if_false, if_true]
      exact ⟨by simp [h.data, he], rfl, by simp [Source.consume, h.data, he], by simp [Source.consume, h.nofail],
        by simp [Source.consume, h.mode]⟩
  · have hne : b.unread.isEmpty = false := by cases hb : b.unread <;> simp_all
    have hpos : 0 < b.unread.length := List.length_pos_iff.mpr he
    have hk : ¬ (min n b.unread.length = 0 ∧ n > 0) := by omega
    simp only [hne, Bool.false_eq_true, if_false, hk]
    refine ⟨by rw [h.data, List.take_eq_take_iff]; simp, rfl, ?_, by simp [Source.consume, h.nofail],
      by simp [Source.consume, h.mode]⟩
    simp only [Source.consume, h.data]
    rcases Nat.le_total n b.unread.length with hl | hl
    · rw [Nat.min_eq_left hl]
    · rw [Nat.min_eq_right hl, List.drop_of_length_le hl, List.drop_of_length_le (Nat.le_refl _)]

theorem bsim_buffered {b : Buf} {s : Source} (h : BSim b s) :
    BSim b.buffered.1 s ∧ b.buffered.2 = s.avail ∧
    ∀ rest, ({ s with bufAdv := b.buffered.2 :: rest } : Source).bufferedAns.2 = b.buffered.2 := by
  have ha := bsim_avail h
  refine ⟨h, ha.symm, ?_⟩
  intro rest
  have hav : ({ s with bufAdv := b.unread.length :: rest } : Source).avail = b.unread.length := ha
  simp only [Source.bufferedAns, Buf.buffered]
  rw [hav]
  omega

/-! ### the three wrappers -/

/-- the simulation relation for whatever `pr.bufRd` points to. -/
def WSim : Wrapper → Source → Prop
  | .bytes w, s => Sim w s
  | .strings w, s => Sim w s
  | .buffer b, s => BSim b s

/-- the unread bytes of a source object. -/
def Src.rest : Src → List UInt8
  | .bytes rd => rd.rest
  | .strings rd => rd.rest
  | .buffer b => b.unread

theorem wsim_fresh (src : Src) (adv : List Nat) :
    WSim (Wrapper.fresh src) { data := Src.rest src, bufAdv := adv } := by
  cases src with
  | bytes rd => exact sim_fresh rd adv
  | strings rd => exact sim_fresh rd adv
  | buffer b => exact ⟨rfl, rfl, rfl⟩

/-- `Peek(n)` is within the wrapper's reach: at most `len(arr)` for the caching wrappers
    (beyond it they answer io.ErrShortBuffer), anything for `buffer`. -/
def peekOK : Wrapper → Nat → Prop
  | .buffer _, _ => True
  | _, n => n ≤ arrLen

theorem wsim_peek {w : Wrapper} {s : Source} (h : WSim w s) (n : Nat) (hn : peekOK w n) :
    (w.peek n).2.1 = (s.peek n).2.1 ∧ (w.peek n).2.2 = (s.peek n).2.2 ∧ WSim (w.peek n).1 (s.peek n).1 := by
  cases w with
  | bytes c => exact sim_peek h n hn
  | strings c => exact sim_peek h n hn
  | buffer b => exact bsim_peek h n

theorem wsim_discard {w : Wrapper} {s : Source} (h : WSim w s) (n : Nat) :
    (w.discard n).2.1 = (s.discard n).2.1 ∧ (w.discard n).2.2 = (s.discard n).2.2 ∧
    WSim (w.discard n).1 (s.discard n).1 := by
  cases w with
  | bytes c => exact sim_discard h n
  | strings c => exact sim_discard h n
  | buffer b => exact bsim_discard h n

theorem wsim_read {w : Wrapper} {s : Source} (h : WSim w s) (n : Nat) (hn : 0 < n) :
    (w.read n).2.1 = (s.read n).2.1 ∧ (w.read n).2.2 = (s.read n).2.2 ∧ WSim (w.read n).1 (s.read n).1 := by
  cases w with
  | bytes c => exact sim_read h n (Or.inl hn)
  | strings c => exact sim_read h n (Or.inl hn)
  | buffer b => exact bsim_read h n

theorem cached_le_arr {w : CRd} (h : CInv w) : cached w ≤ arrLen := by
  have := (update_inv h).1.win
  simp only [cached]; omega

/-- `Buffered()` of any wrapper: an answer the adversary of the abstract source may give; and
    `prefix.Reader`'s next `Peek(max c Buffered())` stays within reach when `c` does. -/
theorem wsim_buffered {w : Wrapper} {s : Source} (h : WSim w s) :
    WSim w.buffered.1 s ∧ w.buffered.2 ≤ s.avail ∧
    (∀ rest, ({ s with bufAdv := w.buffered.2 :: rest } : Source).bufferedAns.2 = w.buffered.2) ∧
    (∀ c, c ≤ arrLen → peekOK w.buffered.1 (max c w.buffered.2)) := by
  cases w with
  | bytes c =>
    obtain ⟨a1, a2, _, a4⟩ := sim_buffered h
    refine ⟨a1, a2, a4, ?_⟩
    intro k hk
    have := cached_le_arr h.inv
    have hb := (buffered_spec h.inv).2.1
    show max k c.buffered.2 ≤ arrLen
    omega
  | strings c =>
    obtain ⟨a1, a2, _, a4⟩ := sim_buffered h
    refine ⟨a1, a2, a4, ?_⟩
    intro k hk
    have := cached_le_arr h.inv
    have hb := (buffered_spec h.inv).2.1
    show max k c.buffered.2 ≤ arrLen
    omega
  | buffer b =>
    obtain ⟨a1, a2, a3⟩ := bsim_buffered h
    exact ⟨a1, Nat.le_of_eq a2, a3, fun _ _ => trivial⟩

end Compress.Proofs.Wrap
