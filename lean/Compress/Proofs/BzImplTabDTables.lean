/-
Layer B2 of `tables_agree_degenerate`: what the tables of `mkCTab` say about an accepted word:
the `perm` index is a genuine one, distinct accepted words have distinct symbols, and the all-zero
word of the shortest length is accepted.
-/
import Compress.Proofs.BzImplTabDDefs
import Compress.Proofs.BzRTCTabTable
import Compress.Proofs.FlateHuff

namespace Compress.Proofs.BzImpl.TabD
open Compress Compress.Bzip2 Compress.Prefix
open Compress.Bzip2.Impl (GStatus Explored)
open Compress.Proofs.BzRT Compress.Proofs.PrefixCodes

theorem foldl_min_mem (lens : List Nat) (init : Nat) :
    lens.foldl min init = init ∨ lens.foldl min init ∈ lens := by
  induction lens generalizing init with
  | nil => simp
  | cons x xs ih =>
    simp only [List.foldl_cons, List.mem_cons]
    rcases ih (min init x) with h | h
    · rw [h]
      by_cases hx : init ≤ x
      · left; omega
      · right; left; omega
    · right; right; exact h

/-- the facts about `mkCTab lens` the proofs below use. -/
structure TF (lens : List Nat) (n : Nat) : Prop where
  len : lens.length = n
  n_le : n ≤ 258
  min_pos : 1 ≤ (mkCTab lens).minLen
  min_max : (mkCTab lens).minLen ≤ (mkCTab lens).maxLen
  max_le : (mkCTab lens).maxLen ≤ 20
  ge : ∀ l ∈ lens, (mkCTab lens).minLen ≤ l
  le : ∀ l ∈ lens, l ≤ (mkCTab lens).maxLen
  min_mem : (mkCTab lens).minLen ∈ lens
  limit : ∀ i, (mkCTab lens).minLen ≤ i → i ≤ (mkCTab lens).maxLen →
    (mkCTab lens).limit.getD i 0 = (endCode (codesOf lens) i : Int) - 1
  base : ∀ i, (mkCTab lens).minLen ≤ i → i ≤ (mkCTab lens).maxLen →
    (mkCTab lens).base.getD i 0 = (firstCode (codesOf lens) i : Int) - (cntLt lens i : Int)
  fc0 : firstCode (codesOf lens) (mkCTab lens).minLen = 0
  perm : (mkCTab lens).perm =
    (permOf lens (mkCTab lens).minLen (mkCTab lens).maxLen).toArray

theorem tf (lens : List Nat) (n : Nat) (h : LensOK lens n) : TF lens n := by
  obtain ⟨hlen, h3, h258, hl⟩ := h
  have hl' : ∀ l ∈ lens, 1 ≤ l ∧ l ≤ 20 := hl
  have hmin := foldl_min_spec lens 20
  have hmax := foldl_max_spec lens 0 20 (by omega) (fun l hl'' => (hl' l hl'').2)
  have hmm := foldl_min_mem lens 20
  obtain ⟨x, hx⟩ : ∃ x, x ∈ lens := by
    cases lens with
    | nil => simp at hlen; omega
    | cons x xs => exact ⟨x, by simp⟩
  have hlens := codesOf_lens lens
  have e1 : (mkCTab lens).minLen = lens.foldl min 20 := rfl
  have e2 : (mkCTab lens).maxLen = lens.foldl max 0 := rfl
  have e3 : (mkCTab lens).limit = limitOf lens (lens.foldl min 20) (lens.foldl max 0) := rfl
  have e4 : (mkCTab lens).base = baseOf lens (lens.foldl min 20) (lens.foldl max 0) := rfl
  have e5 : (mkCTab lens).perm =
    (permOf lens (lens.foldl min 20) (lens.foldl max 0)).toArray := rfl
  rw [← e1, ← e2] at e3 e4 e5
  rw [← e1] at hmin hmm
  rw [← e2] at hmax
  have hminc : ∀ c ∈ codesOf lens, (mkCTab lens).minLen ≤ c.len := by
    intro c hc
    apply hmin.2
    rw [← hlens]
    exact List.mem_map.2 ⟨c, hc, rfl⟩
  have h0 : firstCode (codesOf lens) (mkCTab lens).minLen = 0 := firstCode_eq_zero _ _ hminc
  have hmemmin : (mkCTab lens).minLen ∈ lens := by
    rcases hmm with e | e
    · have h1 := hmin.2 x hx
      have h2 := (hl' x hx).2
      have : x = (mkCTab lens).minLen := by omega
      rw [← this]; exact hx
    · exact e
  have hminmax : (mkCTab lens).minLen ≤ (mkCTab lens).maxLen := hmax.2.2 _ hmemmin
  refine ⟨hlen, h258, ?_, hminmax, hmax.1, hmin.2, hmax.2.2, hmemmin, ?_, ?_, h0, e5⟩
  · exact (hl' _ hmemmin).1
  · intro i h1 h2
    rw [e3]
    have := limitOf_getD (codesOf lens) _ _ h0 hminmax hmax.1 i h1 h2
    rw [hlens] at this
    exact this
  · intro i h1 h2
    rw [e4]
    have := baseOf_getD (codesOf lens) _ _ h0 hminc hminmax hmax.1 i h1 h2
    rw [hlens] at this
    exact this

theorem tab_bounds (lens : List Nat) (n : Nat) (h : LensOK lens n) :
    1 ≤ (mkCTab lens).minLen ∧ (mkCTab lens).minLen ≤ (mkCTab lens).maxLen ∧
      (mkCTab lens).maxLen ≤ 20 :=
  let hT := tf lens n h
  ⟨hT.min_pos, hT.min_max, hT.max_le⟩

theorem take_snoc_val (w : Bits) (j : Nat) (hj : j < w.length) :
    Bits.toNatMSB (w.take (j + 1)) =
      2 * Bits.toNatMSB (w.take j) + (if w[j] then 1 else 0) := by
  rw [List.take_add_one, List.getElem?_eq_getElem hj]
  exact FlateRefine.toNatMSB_snoc _ _

theorem acc_fc {lens : List Nat} {n : Nat} (hT : TF lens n) {w : Bits} {zn : Nat}
    (ha : Acc (mkCTab lens) w zn) :
    firstCode (codesOf lens) zn ≤ Bits.toNatMSB (w.take zn) := by
  obtain ⟨h1, h2, h3, h4, h5⟩ := ha
  by_cases e : zn = (mkCTab lens).minLen
  · rw [e, hT.fc0]; omega
  · obtain ⟨j, rfl⟩ : ∃ j, zn = j + 1 := ⟨zn - 1, by omega⟩
    have := h5 j (by omega) (by omega)
    rw [hT.limit j (by omega) (by omega)] at this
    rw [take_snoc_val w j (by omega), firstCode_succ']
    split <;> omega

/-- the symbols of length `zn`, in increasing order. -/
def blk (lens : List Nat) (zn : Nat) : List Nat :=
  (List.range lens.length).filter (fun j => lens.getD j 0 == zn)

theorem blk_length (lens : List Nat) (zn : Nat) : (blk lens zn).length = cntEq lens zn := by
  have := filter_range_length lens (fun l => l == zn) lens.length (Nat.le_refl _)
  simp only [List.take_length] at this
  exact this

theorem blk_mem (lens : List Nat) (zn s : Nat) (h : s ∈ blk lens zn) :
    s < lens.length ∧ lens.getD s 0 = zn := by
  unfold blk at h
  rw [List.mem_filter, List.mem_range] at h
  exact ⟨h.1, beq_iff_eq.1 h.2⟩

theorem blk_nodup (lens : List Nat) (zn : Nat) : (blk lens zn).Nodup :=
  List.Nodup.sublist List.filter_sublist List.nodup_range

theorem acc_perm {lens : List Nat} {n : Nat} (hT : TF lens n) {w : Bits} {zn : Nat}
    (ha : Acc (mkCTab lens) w zn) :
    ∃ r s, Bits.toNatMSB (w.take zn) = firstCode (codesOf lens) zn + r ∧ r < cntEq lens zn ∧
      (blk lens zn)[r]? = some s ∧ (mkCTab lens).perm[cntLt lens zn + r]? = some s := by
  have hfc := acc_fc hT ha
  obtain ⟨h1, h2, h3, h4, h5⟩ := ha
  rw [hT.limit zn h1 h2] at h4
  unfold endCode at h4
  rw [lenCount_eq_cntEq, codesOf_lens] at h4
  have hr : Bits.toNatMSB (w.take zn) - firstCode (codesOf lens) zn < cntEq lens zn := by omega
  have hr' := hr
  rw [← blk_length] at hr'
  refine ⟨Bits.toNatMSB (w.take zn) - firstCode (codesOf lens) zn, (blk lens zn)[_]'hr',
    by omega, hr, List.getElem?_eq_getElem hr', ?_⟩
  rw [hT.perm, List.getElem?_toArray]
  have e : (mkCTab lens).minLen + (zn - (mkCTab lens).minLen) = zn := by omega
  have := flatten_range_getElem? (fun d => blk lens ((mkCTab lens).minLen + d))
    ((mkCTab lens).maxLen + 1 - (mkCTab lens).minLen) (zn - (mkCTab lens).minLen)
    (Bits.toNatMSB (w.take zn) - firstCode (codesOf lens) zn) ((blk lens zn)[_]'hr') (by omega)
    (by rw [e]; exact List.getElem?_eq_getElem hr')
  have hb := blockSum_eq lens (mkCTab lens).minLen hT.ge (zn - (mkCTab lens).minLen)
  rw [e] at hb
  rw [← hb]
  exact this

/-- the `perm` index of an accepted word, with everything known about it. -/
theorem acc_index {lens : List Nat} {n : Nat} (hT : TF lens n) {w : Bits} {zn : Nat}
    (ha : Acc (mkCTab lens) w zn) :
    ∃ r s, Bits.toNatMSB (w.take zn) = firstCode (codesOf lens) zn + r ∧
      (blk lens zn)[r]? = some s ∧ r < (blk lens zn).length ∧
      ((Bits.toNatMSB (w.take zn) : Nat) : Int) - (mkCTab lens).base.getD zn 0 =
        ((cntLt lens zn + r : Nat) : Int) ∧
      cntLt lens zn + r < 258 ∧
      (mkCTab lens).perm[cntLt lens zn + r]? = some s ∧ s < n ∧ lens.getD s 0 = zn := by
  obtain ⟨r, s, hv, hr, hb, hp⟩ := acc_perm hT ha
  have hm := blk_mem lens zn s (List.mem_of_getElem? hb)
  have h1 := cntLt_succ lens zn
  have h2 := cntLt_le lens (zn + 1)
  have h3 := hT.len
  have h4 := hT.n_le
  refine ⟨r, s, hv, hb, by rw [blk_length]; exact hr, ?_, by omega, hp, by omega, hm.2⟩
  rw [hT.base zn ha.1 ha.2.1, hv]
  omega

theorem acc_goodK (lens : List Nat) (n : Nat) (h : LensOK lens n) (w : Bits) (zn : Nat)
    (ha : Acc (mkCTab lens) w zn) :
    GoodK (mkCTab lens) n zn ((Bits.toNatMSB (w.take zn) : Nat) : Int) := by
  obtain ⟨r, s, _, _, _, hk, hlt, hp, hs, _⟩ := acc_index (tf lens n h) ha
  unfold GoodK
  rw [hk, Int.toNat_natCast]
  exact ⟨by omega, by omega, s, hp, hs⟩

theorem fin_acc {lens : List Nat} {w : Bits} {zn : Nat} (r s : Nat)
    (hk : ((Bits.toNatMSB (w.take zn) : Nat) : Int) - (mkCTab lens).base.getD zn 0 =
        ((cntLt lens zn + r : Nat) : Int))
    (hlt : cntLt lens zn + r < 258)
    (hp : (mkCTab lens).perm[cntLt lens zn + r]? = some s) :
    fin (mkCTab lens) (.acc zn ((Bits.toNatMSB (w.take zn) : Nat) : Int)) = .okay s := by
  unfold fin
  simp only [hk, Int.toNat_natCast]
  rw [if_neg (by omega), Array.getD_eq_getD_getElem?, hp]
  rfl

theorem toNatMSB_inj (p q : Bits) (hl : p.length = q.length)
    (hv : Bits.toNatMSB p = Bits.toNatMSB q) : p = q := by
  rw [← FlateRefine.ofNat_toNatMSB p, ← FlateRefine.ofNat_toNatMSB q, hl, hv]

theorem acc_inj (lens : List Nat) (n : Nat) (h : LensOK lens n) (w w' : Bits) (zn zn' : Nat)
    (ha : Acc (mkCTab lens) w zn) (ha' : Acc (mkCTab lens) w' zn')
    (he : fin (mkCTab lens) (.acc zn ((Bits.toNatMSB (w.take zn) : Nat) : Int)) =
      fin (mkCTab lens) (.acc zn' ((Bits.toNatMSB (w'.take zn') : Nat) : Int))) :
    zn = zn' ∧ w.take zn = w'.take zn' := by
  have hT := tf lens n h
  obtain ⟨r, s, hv, hb, hr, hk, hlt, hp, hs, hz⟩ := acc_index hT ha
  obtain ⟨r', s', hv', hb', hr', hk', hlt', hp', hs', hz'⟩ := acc_index hT ha'
  rw [fin_acc r s hk hlt hp, fin_acc r' s' hk' hlt' hp'] at he
  have hss : s = s' := by injection he
  subst hss
  have hzz : zn = zn' := by rw [← hz, ← hz']
  subst hzz
  refine ⟨rfl, ?_⟩
  have hrr : r = r' := (List.getElem?_inj hr (blk_nodup lens zn)).1 (by rw [hb, hb'])
  subst hrr
  apply toNatMSB_inj
  · rw [List.length_take, List.length_take]
    have := ha.2.2.1
    have := ha'.2.2.1
    omega
  · rw [hv, hv']

theorem root_acc (lens : List Nat) (n : Nat) (h : LensOK lens n) :
    Acc (mkCTab lens) (List.replicate (mkCTab lens).minLen false) (mkCTab lens).minLen := by
  have hT := tf lens n h
  have hz : ∀ k, Bits.toNatMSB (List.replicate k false) = 0 := by
    intro k
    induction k with
    | zero => rfl
    | succ k ih =>
      rw [List.replicate_succ', FlateRefine.toNatMSB_snoc, ih]; rfl
  have hpos : 1 ≤ cntEq lens (mkCTab lens).minLen := by
    unfold cntEq
    apply List.length_pos_of_mem (a := (mkCTab lens).minLen)
    rw [List.mem_filter]
    exact ⟨hT.min_mem, by simp⟩
  refine ⟨Nat.le_refl _, hT.min_max, by simp, ?_, ?_⟩
  · rw [hT.limit _ (Nat.le_refl _) hT.min_max, List.take_replicate, Nat.min_self, hz]
    unfold endCode
    rw [lenCount_eq_cntEq, codesOf_lens, hT.fc0]
    omega
  · intro j h1 h2
    omega

end Compress.Proofs.BzImpl.TabD
