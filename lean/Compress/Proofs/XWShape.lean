/-
Structural invariant of xflate.Writer: what the sink holds is a sequence of
"index groups" (chunks followed by the index stream that describes them), then
the chunks written since the last index, then the open chunk.
-/
import Compress.XFlate.WriterSpec
import Compress.Proofs.XWLog
import Compress.Proofs.Meta

namespace Compress.Proofs.XWShape
open Compress Compress.XFlate Compress.Proofs.XWLog

/-- chunks followed by the index stream describing them. -/
structure IG where
  chunks : List Grp
  blocks : List (List UInt8)

def cbytes (l : List Grp) : List UInt8 := (l.map Prod.fst).flatten
def cdata (l : List Grp) : List UInt8 := (l.map Prod.snd).flatten

theorem cbytes_append (a b : List Grp) : cbytes (a ++ b) = cbytes a ++ cbytes b := by simp [cbytes]
theorem cdata_append (a b : List Grp) : cdata (a ++ b) = cdata a ++ cdata b := by simp [cdata]
theorem cbytes_single (g : Grp) : cbytes [g] = g.1 := by simp [cbytes]
theorem cdata_single (g : Grp) : cdata [g] = g.2 := by simp [cdata]
theorem cbytes_nil : cbytes [] = [] := rfl
theorem cdata_nil : cdata [] = [] := rfl

/-- index groups are kept newest first. -/
def bytesR : List IG → List UInt8
  | [] => []
  | g :: rest => bytesR rest ++ (cbytes g.chunks ++ g.blocks.flatten)

def chunksR : List IG → List Grp
  | [] => []
  | g :: rest => chunksR rest ++ g.chunks

def chunkStep (r : List Record) (c : Grp) : List Record :=
  (appendRecord r c.1.length c.2.length deflateType).getD r

def recsOf (tr : List Grp) : List Record := tr.foldl chunkStep []

def backOf : List IG → Int
  | [] => 0
  | g :: _ => g.blocks.flatten.length

def allG : List IG → List Record
  | [] => []
  | g :: rest =>
    (appendRecord (g.chunks.foldl chunkStep (allG rest)) g.blocks.flatten.length 0 indexType).getD
      (g.chunks.foldl chunkStep (allG rest))

def allOf (rgs : List IG) (tr : List Grp) : List Record := tr.foldl chunkStep (allG rgs)

def WFR (crc : List UInt8 → Nat) : List IG → Prop
  | [] => True
  | g :: rest => Meta.encode (indexPayload crc (recsOf g.chunks) (backOf rest)) .fmeta = some g.blocks ∧ WFR crc rest

structure Inv (crc : List UInt8 → Nat) (s : XWState) (rgs : List IG) (tr : List Grp) : Prop where
  budget : s.sink.budget = none
  got : s.sink.got = bytesR rgs ++ cbytes tr ++ (openOf s.zlog [] []).1
  outOff : s.outOff = s.sink.got.length
  zwOut : s.zwOut = (openOf s.zlog [] []).1.length
  zwIn : s.zwIn = (openOf s.zlog [] []).2.length
  closed : closedOf s.zlog [] [] = ([], []) :: (chunksR rgs ++ tr)
  data : dataOf s.zlog = cdata (chunksR rgs ++ tr) ++ (openOf s.zlog [] []).2
  recs : s.recs = recsOf tr
  back : s.backSize = backOf rgs
  all : s.allRecs = allOf rgs tr
  wf : WFR crc rgs
  orc : ∀ ev ∈ s.oracle, ev.err ≠ some .closed
  flushed : ∀ c ∈ chunksR rgs ++ tr, c.1 = [] → ∃ p ∈ s.zlog, p.1.kind = .zflush ∧ p.1.emitted = []

/-- the state after a successful Close. -/
structure Fin (crc : List UInt8 → Nat) (s : XWState) (rgs : List IG) (tr : List Grp) (foot : List UInt8) : Prop where
  got : s.sink.got = bytesR rgs ++ cbytes tr ++ foot
  footEnc : Meta.encode (footerPayload (backOf rgs)) .fstream = some [foot]
  trEmpty : recsOf tr = []
  closed : closedOf s.zlog [] [] = ([], []) :: (chunksR rgs ++ tr)
  opn : openOf s.zlog [] [] = ([], [])
  data : dataOf s.zlog = cdata (chunksR rgs ++ tr)
  all : s.allRecs = (appendRecord (allOf rgs tr) foot.length 0 footerType).getD (allOf rgs tr)
  wf : WFR crc rgs
  flushed : ∀ c ∈ chunksR rgs ++ tr, c.1 = [] → ∃ p ∈ s.zlog, p.1.kind = .zflush ∧ p.1.emitted = []

def Good (crc : List UInt8 → Nat) (s : XWState) : Prop := s.err = none ∧ ∃ rgs tr, Inv crc s rgs tr
def Stuck (s : XWState) : Prop := s.err ≠ none ∧ s.err ≠ some .closed
def Closed (crc : List UInt8 → Nat) (s : XWState) : Prop :=
  s.err = some .closed ∧ ∃ rgs tr foot, Fin crc s rgs tr foot

def Mid (crc : List UInt8 → Nat) (s : XWState) : Prop := s.bad = true ∨ Stuck s ∨ Good crc s
/-- same, and no chunk is open. -/
def Mid0 (crc : List UInt8 → Nat) (s : XWState) : Prop :=
  s.bad = true ∨ Stuck s ∨ (Good crc s ∧ s.zwIn = 0 ∧ s.zwOut = 0)
def J (crc : List UInt8 → Nat) (s : XWState) : Prop := s.bad = true ∨ Stuck s ∨ Good crc s ∨ Closed crc s

theorem Mid0.mid {crc : List UInt8 → Nat} {s : XWState} (h : Mid0 crc s) : Mid crc s := by
  rcases h with h | h | h
  · exact Or.inl h
  · exact Or.inr (Or.inl h)
  · exact Or.inr (Or.inr h.1)

/-! ### the oracle -/

theorem popEv_spec (s : XWState) (k : ZKind) :
    ∃ ev rest b, popEv s k = (ev, { s with oracle := rest, bad := b }) ∧
      (∀ e ∈ rest, e ∈ s.oracle) ∧ (ev ∈ s.oracle ∨ ev.err = none) ∧
      (b = false → ev.kind = k) ∧ (s.bad = true → b = true) := by
  unfold popEv
  cases h : s.oracle with
  | nil =>
    refine ⟨{ kind := k }, [], true, ?_, ?_, Or.inr rfl, ?_, fun _ => rfl⟩
    · cases s; simp_all
    · intro e he; cases he
    · intro hb; cases hb
  | cons ev rest =>
    simp only
    by_cases hk : ev.kind = k
    · refine ⟨ev, rest, s.bad, by rw [if_pos hk], ?_, Or.inl (List.mem_cons_self ..), fun _ => hk, fun h => h⟩
      intro e he; exact List.mem_cons_of_mem _ he
    · refine ⟨ev, rest, true, by rw [if_neg hk], ?_, Or.inl (List.mem_cons_self ..), ?_, fun _ => rfl⟩
      · intro e he; exact List.mem_cons_of_mem _ he
      · intro hb; cases hb

theorem ev_err_ok {s : XWState} {ev : ZEv} (horc : ∀ ev ∈ s.oracle, ev.err ≠ some .closed)
    (h : ev ∈ s.oracle ∨ ev.err = none) : ev.err ≠ some .closed := by
  rcases h with h | h
  · exact horc ev h
  · rw [h]; intro h'; cases h'

/-! ### the sink -/

theorem emitBlocks_none : ∀ (blocks : List (List UInt8)) (sk : Sink) (acc : Nat), sk.budget = none →
    emitBlocks sk blocks acc = ({ sk with got := sk.got ++ blocks.flatten }, acc + blocks.flatten.length, none)
  | [], sk, acc, _ => by simp [emitBlocks]
  | b :: bs, sk, acc, h => by
    obtain ⟨got, budget, mode, forever, tag, failed⟩ := sk
    simp only at h
    subst h
    simp only [emitBlocks, Sink.write]
    rw [emitBlocks_none bs _ _ rfl]
    simp [List.append_assoc, Nat.add_assoc]

theorem absorb_none (sk : Sink) (em : List UInt8) (f : Bool) (h : sk.budget = none) :
    (sk.absorb em f).got = sk.got ++ em ∧ (sk.absorb em f).budget = none := by
  simp [Sink.absorb, h]

end Compress.Proofs.XWShape
