/-
C15 helpers: the specification on the pieces of an accepted stream — a segment whose first
final block is the appended end block is transparent; the footer segment; concatenation.
-/
import Compress.Proofs.XARun
import Compress.Proofs.XGDecode
import Compress.Proofs.FlatePrefix

namespace Compress.Proofs.XFlateAccept
open Compress Compress.XFlate Compress.Flate Compress.Proofs.FlatePrefix Compress.Proofs.XWShape

/-- a segment in which the specification, run on the segment followed by the end block, meets
    no final block before the end block is a run of complete non-final blocks in every context. -/
theorem transp_of_finalHeader (seg : List UInt8)
    (h : finalHeader (8 * (seg.length + 5)) (8 * (seg.length + 5) + 1) #[]
      (Bits.ofBytes (seg ++ endBlockBytes)) = some 40) :
    ∃ data, Transp seg data := by
  rw [Proofs.Meta.ofBytes_append] at h
  have hl : 8 * (seg.length + 5) = 0 + (Bits.ofBytes seg ++ Bits.ofBytes endBlockBytes).length := by
    have : endBlockBytes.length = 5 := rfl
    simp only [List.length_append, Proofs.Meta.length_ofBytes, this]; omega
  rw [hl] at h
  obtain ⟨c, rest, k, outm, hx, hr, _, h3k, run⟩ := run_of_finalHeader _ _ _ _ _ h
  have hrl : (Bits.ofBytes endBlockBytes).length = rest.length := by
    rw [XGDecode.end_bits_length, hr]
  obtain ⟨hc, _⟩ := List.append_inj' hx hrl
  subst hc
  rw [Proofs.Meta.length_ofBytes] at h3k
  refine ⟨outm.toList, k, by omega, ?_⟩
  intro total fuel out rest' hle hal
  have := run total fuel out rest'
    (by simp only [List.length_append, Proofs.Meta.length_ofBytes]; omega)
    (by simp only [List.length_append, Proofs.Meta.length_ofBytes]; omega)
  simpa using this

/-- the footer segment: if the specification, run on it followed by the end block, stops having
    consumed exactly the segment, then at the end of any byte-aligned stream, after any output,
    it decodes the same way and consumes the stream to its last bit. -/
theorem footer_decode (foot : List UInt8) (o : Array UInt8)
    (h : Flate.decode (foot ++ endBlockBytes) = { out := o, verdict := .ok (8 * foot.length) })
    (a fuel : Nat) (P : Array UInt8) (hfuel : 8 * foot.length < fuel) :
    decodeBlocks (8 * a + 8 * foot.length) fuel P (Bits.ofBytes foot) =
      { out := P ++ o, verdict := .ok (8 * a + 8 * foot.length) } := by
  unfold Flate.decode at h
  rw [decodeBits_eq, Proofs.Meta.ofBytes_append] at h
  obtain ⟨c, rest, hx, hn, _, g⟩ := decodeBlocks_good _ _ _ _ _ _ h
  have hcl : c.length ≤ (Bits.ofBytes foot).length := by
    rw [Proofs.Meta.length_ofBytes]; omega
  have hpre : c <+: Bits.ofBytes foot :=
    List.prefix_of_prefix_length_le (hx ▸ List.prefix_append c rest)
      (List.prefix_append _ _) hcl
  rcases g (Bits.ofBytes foot) fuel (Or.inl hpre) (by rw [Proofs.Meta.length_ofBytes]; exact hfuel) with
    ⟨ys, _, e⟩ | ⟨hl, _⟩
  · rw [Proofs.Meta.length_ofBytes, Nat.zero_add] at e
    have e2 := decodeBlocks_shift a fuel _ _ _ _ _ (by rw [Proofs.Meta.length_ofBytes]; exact Nat.le_refl _) e
    have e3 := decodeBlocks_hist _ P _ _ _ _ _ e2
    rw [Array.append_empty] at e3
    have ec : 8 * a + 8 * foot.length = 8 * foot.length + 8 * a := by omega
    rw [ec]; exact e3
  · omega

/-- a transparent prefix followed by a footer segment. -/
theorem decode_transp_footer (a foot D : List UInt8) (o : Array UInt8) (ht : Transp a D)
    (hf : Flate.decode (foot ++ endBlockBytes) = { out := o, verdict := .ok (8 * foot.length) }) :
    Flate.decode (a ++ foot) =
      { out := (D ++ o.toList).toArray, verdict := .ok (8 * (a ++ foot).length) } := by
  obtain ⟨k, hk, t⟩ := ht
  unfold Flate.decode Flate.decodeBits
  rw [Proofs.Meta.ofBytes_append]
  have hl : (Bits.ofBytes a ++ Bits.ofBytes foot).length = 8 * a.length + 8 * foot.length := by
    simp only [List.length_append, Proofs.Meta.length_ofBytes]
  rw [hl]
  have e : 8 * a.length + 8 * foot.length + 1 = (8 * a.length + 8 * foot.length + 1 - k) + k := by omega
  rw [e, t _ _ _ _ (by rw [Proofs.Meta.length_ofBytes]; omega) (by rw [Proofs.Meta.length_ofBytes]; omega)]
  rw [footer_decode foot o hf a.length _ _ (by omega)]
  simp only [List.length_append, Result.mk.injEq, Verdict.ok.injEq]
  refine ⟨?_, by omega⟩
  apply Array.ext'
  simp

end Compress.Proofs.XFlateAccept
