/-
brotli.Reader, API-level model (`Compress.Brotli.Api`): facts about `Impl.read` that hold of EVERY
state of the decoder model (no invariant): the decompression steps never touch `OutputOffset`,
and `Read` moves it by exactly the bytes it returns.
-/
import Compress.Brotli.Api
import Compress.Proofs.BrImplRead
import Compress.Proofs.BrImplStreamDefs

namespace Compress.Proofs.BrotliApi
open Compress Compress.Brotli Compress.Brotli.Impl Compress.Prefix

/-- the action leaves `OutputOffset` alone, whether it completes or fails. -/
structure Keeps (x : S α) : Prop where
  h : ∀ s, (x s).2.outOff = s.outOff

theorem keeps_pure (a : α) : Keeps (pure a : S α) := ⟨fun _ => rfl⟩

theorem keeps_bind {x : S α} {f : α → S β} (hx : Keeps x) (hf : ∀ a, Keeps (f a)) : Keeps (x >>= f) := by
  constructor
  intro s
  show (S.bind x f s).2.outOff = s.outOff
  unfold S.bind
  have h1 := hx.h s
  split
  · rename_i a s' heq
    rw [heq] at h1
    rw [(hf a).h s']; exact h1
  · rename_i e s' heq
    rw [heq] at h1; exact h1

theorem keeps_spanic (e : BErr) : Keeps (spanic e : S α) := ⟨fun _ => rfl⟩
theorem keeps_getS : Keeps getS := ⟨fun _ => rfl⟩
theorem keeps_modS (f : State → State) (h : ∀ s, (f s).outOff = s.outOff) : Keeps (modS f) := ⟨fun s => h s⟩
theorem keeps_liftR (x : M α) : Keeps (liftR x) := by
  constructor; intro s; unfold liftR; split; rfl
theorem keeps_flush : Keeps flush := ⟨fun _ => rfl⟩

/-- what an `M` computation returns satisfies `P`. -/
def MRes (x : M α) (P : α → Prop) : Prop := ∀ rd a rd', x rd = (.ok a, rd') → P a

theorem mres_pure (a : α) (P : α → Prop) (h : P a) : MRes (pure a : M α) P := by
  intro rd b rd' hb
  have : (Except.ok a : Except BErr α) = .ok b := congrArg Prod.fst hb
  cases this; exact h

theorem mres_bind {x : M α} {f : α → M β} {P : β → Prop} (hf : ∀ a, MRes (f a) P) : MRes (x >>= f) P := by
  intro rd b rd' hb
  change M.bind x f rd = _ at hb
  unfold M.bind at hb
  split at hb
  · exact hf _ _ _ _ hb
  · cases congrArg Prod.fst hb

theorem mres_use {x : M α} {P : α → Prop} (h : MRes x P) {rd : Impl.BR} {a : α} {rd' : Impl.BR}
    (heq : x rd = (.ok a, rd')) : P a := h rd a rd' heq

macro "keeps_step" : tactic =>
  `(tactic| first
    | (with_reducible exact keeps_pure _) | (with_reducible exact keeps_spanic _) | (with_reducible exact keeps_getS)
    | (with_reducible exact keeps_flush) | (with_reducible exact keeps_liftR _)
    | (with_reducible apply keeps_modS; intro _; rfl)
    | (with_reducible apply keeps_bind)
    | (intro _)
    | split
    | (dsimp only))

theorem keeps_readMetaData : Keeps readMetaData := by
  constructor; intro s; unfold readMetaData; dsimp only; split <;> rfl

theorem keeps_readRawData : Keeps readRawData := by
  constructor; intro s; unfold readRawData; dsimp only
  repeat' split
  all_goals rfl

theorem keeps_readPrefixCodes : Keeps Impl.readPrefixCodes := by
  constructor
  intro s
  unfold Impl.readPrefixCodes
  dsimp only
  split
  · rename_i s' rd' heq
    have : s'.outOff = s.outOff := by
      refine mres_use (P := fun s' => s'.outOff = s.outOff) ?_ heq
      repeat' (first | (with_reducible apply mres_bind; intro _) | (with_reducible apply mres_pure; rfl) | split)
    exact this
  · rfl

theorem keeps_finishStream : Keeps finishStream := by
  unfold finishStream
  repeat' keeps_step

theorem keeps_readBlockHeader : Keeps readBlockHeader := by
  unfold readBlockHeader
  repeat' (first | (with_reducible exact keeps_finishStream) | (with_reducible exact keeps_readMetaData) | (with_reducible exact keeps_readRawData) | (with_reducible exact keeps_readPrefixCodes) | keeps_step)

theorem keeps_readStreamHeader : Keeps readStreamHeader := by
  unfold readStreamHeader
  repeat' (first | (with_reducible exact keeps_readBlockHeader) | keeps_step)

theorem keeps_litLoop : ∀ (n : Nat) (p1 p2 : UInt8), Keeps (litLoop n p1 p2) := by
  intro n
  induction n with
  | zero => intro p1 p2; exact keeps_pure _
  | succ n ih =>
    intro p1 p2
    unfold litLoop
    repeat' (first | (with_reducible exact ih _ _) | keeps_step)

theorem keeps_dictWriteCopy : Keeps dictWriteCopy := by
  constructor; intro s; unfold dictWriteCopy; rfl

theorem keeps_dictWriteWord : Keeps dictWriteWord := by
  constructor; intro s; unfold dictWriteWord; rfl

theorem keeps_suspend (st : Sub) : Keeps (suspend st) := by
  unfold suspend
  repeat' keeps_step

theorem keeps_doLabel (sd : ByteArray) (l : Label) : Keeps (doLabel sd l) := by
  cases l <;> unfold doLabel <;>
    repeat' (first | (with_reducible exact keeps_litLoop _ _ _) | (with_reducible exact keeps_dictWriteCopy) | (with_reducible exact keeps_dictWriteWord)
                   | (with_reducible exact keeps_suspend _) | keeps_step)

theorem keeps_cmdLoop (sd : ByteArray) : ∀ (fuel : Nat) (l : Label), Keeps (cmdLoop sd fuel l) := by
  intro fuel
  induction fuel with
  | zero => intro l; exact keeps_spanic _
  | succ fuel ih =>
    intro l
    unfold cmdLoop
    repeat' (first | (with_reducible exact ih _) | (with_reducible exact keeps_doLabel sd _) | keeps_step)

theorem keeps_readCommands (sd : ByteArray) : Keeps (Impl.readCommands sd) := by
  constructor; intro s; unfold Impl.readCommands; exact (keeps_cmdLoop sd _ _).h s

theorem fin_outOff (p : Except BErr Unit × State) : (Compress.Proofs.BrImpl.fin p).outOff = p.2.outOff := by
  unfold Compress.Proofs.BrImpl.fin
  rcases p with ⟨r, s'⟩
  cases r <;> dsimp only <;> split <;> rfl

/-- **a decompression step never touches `OutputOffset`.** -/
theorem stepOnce_outOff (sd : ByteArray) (s : State) : (stepOnce sd s).outOff = s.outOff := by
  rw [Compress.Proofs.BrImpl.stepOnce_eq, fin_outOff]
  split
  · exact keeps_readStreamHeader.h s
  · exact keeps_readBlockHeader.h s
  · exact keeps_readRawData.h s
  · exact (keeps_readCommands sd).h s

/-- **`Read` moves `OutputOffset` by exactly the bytes it returns** - from every state. -/
theorem read_outOff (sd : ByteArray) : ∀ (fuel : Nat) (s : State) (n : Nat),
    (Impl.read sd fuel s n).1.outOff = s.outOff + (Impl.read sd fuel s n).2.1.length := by
  intro fuel
  induction fuel with
  | zero => intro s n; rfl
  | succ fuel ih =>
    intro s n
    rw [Compress.Proofs.BrImpl.read_succ]
    split
    · rfl
    · split
      · rfl
      · rw [ih, stepOnce_outOff]

end Compress.Proofs.BrotliApi
