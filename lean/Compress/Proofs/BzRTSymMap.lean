/-
bzip2 round trip: the 16+16×k bit symbol map.
-/
import Compress.Proofs.BzRTBits

namespace Compress.Proofs.BzRT
open Compress Compress.Bzip2 Compress.Prefix

/-- the sorted list of byte values used in a block (`encodeBlock`'s `dict`). -/
def usedDict (vals : List UInt8) : List UInt8 :=
  (List.range 256).filterMap fun c => if vals.any (·.toNat == c) then some (UInt8.ofNat c) else none

theorem mem_usedDict (vals : List UInt8) (v : UInt8) : v ∈ usedDict vals ↔ v ∈ vals := by
  unfold usedDict
  rw [List.mem_filterMap]
  constructor
  · rintro ⟨c, hc, h⟩
    split at h
    · rename_i hany
      rw [List.any_eq_true] at hany
      obtain ⟨w, hw, hwc⟩ := hany
      have : w = v := by
        have hwc : w.toNat = c := by simpa using hwc
        subst hwc
        simpa using h
      exact this ▸ hw
    · simp at h
  · intro hv
    refine ⟨v.toNat, ?_, ?_⟩
    · simpa using v.toNat_lt
    · have : vals.any (·.toNat == v.toNat) = true := by
        rw [List.any_eq_true]; exact ⟨v, hv, by simp⟩
      simp [this]

theorem filterMap_ite_eq (has : Nat → Bool) (l : List Nat) :
    l.filterMap (fun c => if has c then some (UInt8.ofNat c) else none)
      = (l.filter has).map UInt8.ofNat := by
  induction l with
  | nil => rfl
  | cons a l ih =>
    cases h : has a <;> simp [h, ih]

theorem usedDict_nodup (vals : List UInt8) : (usedDict vals).Nodup := by
  unfold usedDict
  rw [filterMap_ite_eq]
  have h : ((List.range 256).filter fun c => vals.any (·.toNat == c)).Nodup :=
    List.Pairwise.filter _ List.nodup_range
  rw [List.Nodup, List.pairwise_map]
  refine List.Pairwise.imp_of_mem ?_ h
  intro a b ha hb hab heq
  have ha := List.mem_range.1 (List.mem_filter.1 ha).1
  have hb := List.mem_range.1 (List.mem_filter.1 hb).1
  have := congrArg UInt8.toNat heq
  simp at this
  omega

theorem usedDict_length_le (vals : List UInt8) : (usedDict vals).length ≤ 256 := by
  unfold usedDict
  exact Nat.le_trans (List.length_filterMap_le _ _) (by simp)

theorem range_mul16 (k : Nat) :
    List.range (16 * k) = (List.range k).flatMap (fun i => (List.range 16).map (fun j => 16 * i + j)) := by
  induction k with
  | zero => rfl
  | succ k ih =>
    rw [Nat.mul_succ, List.range_add, ih, List.range_succ (n := k), List.flatMap_append]
    simp


section fold
variable (has : Nat → Bool)

/-- the 16 bits of group `i`. -/
def smWord (i : Nat) : Bits := (List.range 16).map fun j => has (16 * i + j)

/-- is group `i` used? -/
def smGrp (i : Nat) : Bool := (List.range 16).any fun j => has (16 * i + j)

/-- the reader's fold step. -/
def smStep (hi : Nat) (st : Option (List UInt8 × Bits)) (i : Nat) : Option (List UInt8 × Bits) :=
  match st with
  | none => none
  | some (dict, bits) =>
    if (hi / 2 ^ (15 - i)) % 2 = 1 then
      match readBE 16 bits with
      | none => none
      | some (lo, rest') =>
        some (dict ++ ((List.range 16).filter (fun j => (lo / 2 ^ (15 - j)) % 2 = 1)).map (fun j => UInt8.ofNat (16 * i + j)), rest')
    else some (dict, bits)

theorem smWord_length (i : Nat) : (smWord has i).length = 16 := by simp [smWord]

theorem bit16 (bs : Bits) (h : bs.length = 16) (j : Nat) (hj : j < 16) :
    ((Bits.toNatMSB bs / 2 ^ (15 - j)) % 2 = 1) ↔ bs.getD j false = true := by
  have := toNatMSB_bit bs j (by omega)
  rw [h] at this
  rw [show 15 - j = 16 - 1 - j by omega, this]
  cases bs.getD j false <;> simp

theorem readBE_smWord (i : Nat) (rest : Bits) :
    readBE 16 (smWord has i ++ rest) = some (Bits.toNatMSB (smWord has i), rest) := by
  have := readBE_append (smWord has i) rest
  rwa [smWord_length] at this

theorem smWord_filter (i : Nat) :
    (List.range 16).filter (fun j => (Bits.toNatMSB (smWord has i) / 2 ^ (15 - j)) % 2 = 1)
      = (List.range 16).filter (fun j => has (16 * i + j)) := by
  apply List.filter_congr
  intro j hj
  have hj := List.mem_range.1 hj
  have := bit16 (smWord has i) (smWord_length has i) j hj
  have e : (smWord has i).getD j false = has (16 * i + j) := by
    simp [smWord, List.getD_eq_getElem?_getD, hj]
  rw [e] at this
  cases hh : has (16 * i + j) <;> simp [hh] at this ⊢ <;> exact this

theorem smFold (hi : Nat) (l : List Nat)
    (hl : ∀ i ∈ l, ((hi / 2 ^ (15 - i)) % 2 = 1 ↔ smGrp has i = true))
    (d : List UInt8) (rest : Bits) :
    l.foldl (smStep hi) (some (d, (l.filter (smGrp has)).flatMap (smWord has) ++ rest))
      = some (d ++ l.flatMap (fun i =>
          ((List.range 16).filter (fun j => has (16 * i + j))).map (fun j => UInt8.ofNat (16 * i + j))), rest) := by
  induction l generalizing d with
  | nil => simp
  | cons i l ih =>
    have hi1 := hl i (by simp)
    have hl' : ∀ i ∈ l, ((hi / 2 ^ (15 - i)) % 2 = 1 ↔ smGrp has i = true) :=
      fun i h => hl i (by simp [h])
    rw [List.foldl_cons, List.flatMap_cons]
    cases hg : smGrp has i
    · have hb : ¬ ((hi / 2 ^ (15 - i)) % 2 = 1) := by rw [hi1, hg]; simp
      have hnil : (List.range 16).filter (fun j => has (16 * i + j)) = [] := by
        rw [List.filter_eq_nil_iff]
        intro j hj
        have := hg
        simp only [smGrp, List.any_eq_false] at this
        exact this j hj
      rw [List.filter_cons_of_neg (by simp [hg]), hnil]
      simp only [smStep, if_neg hb, List.map_nil, List.nil_append]
      exact ih hl' d
    · have hb : ((hi / 2 ^ (15 - i)) % 2 = 1) := by rw [hi1, hg]
      rw [List.filter_cons_of_pos (by simp [hg]), List.flatMap_cons, List.append_assoc]
      simp only [smStep, if_pos hb, readBE_smWord, smWord_filter]
      rw [ih hl', List.append_assoc]

end fold

theorem usedDict_any (vals : List UInt8) (c : Nat) :
    (usedDict vals).any (·.toNat == c) = vals.any (·.toNat == c) := by
  rw [Bool.eq_iff_iff, List.any_eq_true, List.any_eq_true]
  constructor
  · rintro ⟨v, hv, h⟩; exact ⟨v, (mem_usedDict vals v).1 hv, h⟩
  · rintro ⟨v, hv, h⟩; exact ⟨v, (mem_usedDict vals v).2 hv, h⟩

theorem symMapBits_eq (used : List UInt8) :
    symMapBits used =
      (List.range 16).map (smGrp fun c => used.any (·.toNat == c)) ++
        ((List.range 16).filter (smGrp fun c => used.any (·.toNat == c))).flatMap
          (smWord fun c => used.any (·.toNat == c)) := by
  unfold symMapBits
  simp only
  congr 2

theorem flatMap_eq_usedDict (has : Nat → Bool) :
    (List.range 16).flatMap (fun i =>
        ((List.range 16).filter (fun j => has (16 * i + j))).map (fun j => UInt8.ofNat (16 * i + j)))
      = (List.range 256).filterMap (fun c => if has c then some (UInt8.ofNat c) else none) := by
  rw [show 256 = 16 * 16 from rfl, range_mul16, List.filterMap_flatMap]
  congr 1
  funext i
  rw [List.filterMap_map]
  generalize List.range 16 = l
  induction l with
  | nil => rfl
  | cons a l ih =>
    cases h : has (16 * i + a) <;>
      simp only [List.filter_cons, List.filterMap_cons, Function.comp_apply, h, ← ih,
        Bool.false_eq_true, if_false, if_true, List.map_cons]

/-- the reader recovers the dictionary from the symbol map. -/
theorem readSymMap_symMapBits (vals : List UInt8) (rest : Bits) :
    readSymMap (symMapBits (usedDict vals) ++ rest) = some (usedDict vals, rest) := by
  rw [symMapBits_eq]
  have hfun : (fun c => (usedDict vals).any (·.toNat == c)) = fun c => vals.any (·.toNat == c) :=
    funext (usedDict_any vals)
  rw [hfun]
  generalize hhas : (fun c => vals.any (·.toNat == c)) = has
  have hlen : ((List.range 16).map (smGrp has)).length = 16 := by simp
  have hrd := readBE_append ((List.range 16).map (smGrp has))
    (((List.range 16).filter (smGrp has)).flatMap (smWord has) ++ rest)
  rw [hlen] at hrd
  unfold readSymMap
  rw [List.append_assoc, hrd]
  have := smFold has (Bits.toNatMSB ((List.range 16).map (smGrp has))) (List.range 16) ?_ [] rest
  · simp only [List.nil_append] at this
    rw [flatMap_eq_usedDict] at this
    subst hhas
    exact this
  · intro i hi
    have hi := List.mem_range.1 hi
    rw [bit16 _ hlen i hi]
    simp [List.getD_eq_getElem?_getD, hi]

end Compress.Proofs.BzRT

