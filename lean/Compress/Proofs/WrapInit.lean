/-
`Reader.Init` on a used Reader over the wrappers of wrap.go: the wrapper state afterwards is
that of a fresh wrapper on the new source, whatever the history; consequences for what can be
served afterwards.
-/
import Compress.Proofs.WrapSim

namespace Compress.Proofs.Wrap
open Compress Compress.Prefix Compress.Prefix.Wrap

/-- the wrapper after running a sequence of calls. -/
def runOps (w : CRd) (ops : List Op) : CRd := ops.foldl (fun w op => (step w op).1) w

theorem cinv_run : ∀ (ops : List Op) (w : CRd), CInv w → CInv (runOps w ops)
  | [], _, h => h
  | op :: ops, _, h => cinv_run ops _ (step_ok h op).2.2

/-- after ANY history the cache, once re-synchronised, is the next bytes of the contents at
    the embedded reader's current position. -/
theorem cache_after_history (rd : Rd) (ops : List Op) :
    let w := (runOps (CRd.fresh rd) ops).update
    w.buf = w.rd.rest.take w.bLen ∧ w.bLen ≤ w.rd.len ∧ w.pos = (w.rd.i : Int) := by
  have h := update_inv (cinv_run ops _ (cinv_fresh rd))
  refine ⟨?_, ?_, ?_⟩
  · rw [update_rd]; exact h.2.1
  · rw [update_rd]; exact h.2.2
  · rw [update_rd]; exact update_pos _

/-- **Init leaves nothing of the earlier source.**  For ANY earlier state of the Reader
    (`old`: any bit buffer, any wrapper with any cache contents, or no earlier state at all)
    and ANY source (the same object re-targeted by its own `Reset`, another object at any
    position), the state after `Init` is the state of a new Reader on that source: the
    wrapper is `bytesReader{Reader: rr}` with `pos = 0`, an empty cache and a zeroed array. -/
theorem init_fresh (old : Option WR) (src : Src) (big : Bool) :
    WR.init old src big = { bigEndian := big, w := Wrapper.fresh src } ∧
    WR.init old src big = WR.init none src big := ⟨rfl, rfl⟩

/-- hence every later call sequence on the wrapper answers from the NEW contents only: the
    contract of `wrapper_contract` with the new source as reference. -/
theorem reinit_contract (old : Option WR) (rd : Rd) (big : Bool) (ops : List Op) :
    (WR.init old (.bytes rd) big).w = .bytes (CRd.fresh rd) ∧
    (WR.init old (.strings rd) big).w = .strings (CRd.fresh rd) ∧
    ContractOK rd (trace (CRd.fresh rd) ops) :=
  ⟨rfl, rfl, wrapper_contract rd ops⟩

/-- and every later ReadBits script returns what a new Reader returns. -/
theorem reinit_script (old : Option WR) (src : Src) (big : Bool) (ns : List Nat) :
    wreadScript (WR.init old src big) ns = wreadScript (WR.init none src big) ns := rfl

/-! ### non-vacuity and the boundary of the statement -/

/-- a used wrapper: 4 bytes cached at offset 0 after a Peek. -/
def usedW : CRd := ((CRd.fresh { s := [1, 2, 3, 4] }).peek 2).1

example : usedW.bLen = 4 ∧ usedW.buf = [1, 2, 3, 4] := by decide

/-- the same object re-targeted by `Reset` and handed to `Init` again: the first Peek serves
    the new contents. -/
example :
    let r0 : WR := { w := .bytes usedW, bufBits := 5, numBits := 3, offset := 9 }
    let r1 := WR.init (some r0) (.bytes (usedW.rd.reset [9, 8, 7])) false
    (r1.w.peek 2).2.1 = [9, 8] ∧ r1.numBits = 0 ∧ r1.offset = 0 := by decide

/-- WITHOUT `Init` the statement is false, and this is why `Init` must overwrite the slot: an
    owner that re-targets the *bytes.Reader under a live wrapper (`Reset`, no `Init`) is served
    the OLD bytes - `update` sees offset 0 inside the cached window.  The theorems above assume
    the contents of a source object do not change between two `Init`s. -/
example : ({ usedW with rd := usedW.rd.reset [9, 8, 7] }.peek 2).2.1 = [1, 2] := by decide

end Compress.Proofs.Wrap
