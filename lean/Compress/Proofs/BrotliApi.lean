/-
brotli.Reader, API-level model (`Compress.Brotli.Api`): the lifecycle theorems.  They hold of EVERY
state of the model and therefore of every state any sequence of Read / Close / Reset calls, over
any input and any source fault, can reach (`sd`: the static dictionary, any byte array).
-/
import Compress.Brotli.Api
import Compress.Proofs.BrImplRead

namespace Compress.Proofs.BrotliApi
open Compress Compress.Brotli Compress.Brotli.Impl Compress.Brotli.Api

theorem latchBound_id (c : State) (e : BErr) (h1 : c.err = some e) (h2 : c.toRead = []) :
    Api.latchBound c (some e) = c := by
  cases c; simp only [Api.latchBound] at *; simp [h1, h2]

theorem reader_eta (r : Reader) : ({ r with core := r.core } : Reader) = r := by cases r; rfl

theorem core_eta_toRead (c : State) (h : c.toRead = []) : ({ c with toRead := [] } : State) = c := by
  cases c; simp only at h; simp [h]

/-! ### Read -/

/-- a closed reader (`done`): Read returns no data and the closed error, nothing changes. -/
theorem read_done (sd : ByteArray) (r : Reader) (h : r.done = true) (n : Nat) : r.read sd n = (r, [], some .closed) := by
  simp [Reader.read, h]

/-- what Read does on a reader that is not closed. -/
theorem read_open (sd : ByteArray) (r : Reader) (h : r.done = false) (n : Nat) :
    r.read sd n =
      ({ r with core := latchBound (Impl.read sd (Api.readFuel r.core) r.core n).1 (Impl.read sd (Api.readFuel r.core) r.core n).2.2 },
       (Impl.read sd (Api.readFuel r.core) r.core n).2.1,
       (Impl.read sd (Api.readFuel r.core) r.core n).2.2.map (liftErr r.tag)) := by
  simp [Reader.read, h]

/-- **the error a Read returns is latched** (`zr.err`), with nothing pending. -/
theorem read_latches (sd : ByteArray) (r : Reader) (n : Nat) (e : AErr) (h : (r.read sd n).2.2 = some e) :
    (r.read sd n).1.err = some e ∧ (r.read sd n).1.done = r.done ∧ (r.read sd n).1.tag = r.tag ∧
      (r.done = false → (r.read sd n).1.core.toRead = []) := by
  by_cases hd : r.done = true
  · rw [read_done sd r hd] at h ⊢
    simp only [Option.some.injEq] at h
    subst h
    refine ⟨?_, rfl, rfl, fun h => ?_⟩
    · simp [Reader.err, hd]
    · rw [hd] at h; cases h
  · have hd : r.done = false := by simpa using hd
    rw [read_open sd r hd] at h ⊢
    simp only at h ⊢
    cases hx : (Impl.read sd (Api.readFuel r.core) r.core n).2.2 with
    | none => rw [hx] at h; cases h
    | some x =>
      rw [hx] at h
      simp only [Option.map_some, Option.some.injEq] at h
      refine ⟨?_, ?_, ?_, fun _ => ?_⟩
      · simp [Reader.err, hd, latchBound, h]
      · first | rfl | trivial
      · first | rfl | trivial
      · simp [latchBound]

/-- **sticky**: with an error latched and nothing pending, Read returns no data and that error,
    and nothing changes. -/
theorem read_sticky (sd : ByteArray) (r : Reader) (e : AErr) (he : r.err = some e) (hd : r.done = false)
    (ht : r.core.toRead = []) (n : Nat) : r.read sd n = (r, [], some e) := by
  rw [read_open sd r hd]
  simp only [Reader.err, hd] at he
  cases hx : r.core.err with
  | none => rw [hx] at he; simp at he
  | some x =>
    rw [hx] at he
    simp only [Option.map_some, Bool.false_eq_true, if_false, Option.some.injEq] at he
    have hs : Impl.read sd (Api.readFuel r.core) r.core n = (r.core, [], some x) := by
      unfold Api.readFuel
      exact Compress.Proofs.BrImpl.read_latched sd (8 * r.core.totalBytes + 15) r.core n x ht hx
    rw [hs]
    simp only [Option.map_some, he]
    rw [latchBound_id _ _ hx ht]

/-! ### Close -/

theorem close_eq (r : Reader) :
    r.close =
      if r.err = some .eof ∨ r.done = true then
        ({ r with core := { r.core with toRead := [] }, done := true }, none)
      else (r, r.err) := rfl

/-- Close returns nil exactly when nothing is latched, `io.EOF` is latched, or the reader is closed. -/
theorem close_nil_iff (r : Reader) :
    (r.close).2 = none ↔ (r.err = none ∨ r.err = some .eof ∨ r.done = true) := by
  rw [close_eq]
  by_cases h : r.err = some .eof ∨ r.done = true
  · rw [if_pos h]
    constructor
    · intro _; exact Or.inr h
    · intro _; rfl
  · rw [if_neg h]
    constructor
    · intro h0; exact Or.inl h0
    · rintro (h0 | h0)
      · exact h0
      · exact absurd h0 h

/-- otherwise Close returns the latched error, whatever it is (a source error verbatim). -/
theorem close_returns_err (r : Reader) (h : (r.close).2 ≠ none) : (r.close).2 = r.err := by
  rw [close_eq] at h ⊢
  by_cases hc : r.err = some .eof ∨ r.done = true
  · rw [if_pos hc] at h; exact absurd rfl h
  · rw [if_neg hc]

/-- closed: `done` with nothing pending. -/
def Closed (r : Reader) : Prop := r.done = true ∧ r.core.toRead = []

/-- Close on a reader with `io.EOF` latched (or closed already) returns nil and closes. -/
theorem close_closes (r : Reader) (h : r.err = some .eof ∨ r.done = true) :
    (r.close).2 = none ∧ Closed (r.close).1 := by
  rw [close_eq, if_pos h]
  exact ⟨rfl, rfl, rfl⟩

/-- Close on a reader that is not closed and does not have `io.EOF` latched returns the latched
    error (nil if there is none) and changes nothing. -/
theorem close_keeps (r : Reader) (h : ¬ (r.err = some .eof ∨ r.done = true)) :
    r.close = (r, r.err) := by
  rw [close_eq, if_neg h]

theorem close_closed (r : Reader) (h : Closed r) : r.close = (r, none) := by
  rw [close_eq, if_pos (Or.inr h.1), core_eta_toRead _ h.2]
  obtain ⟨c, t, d⟩ := r
  have h1 : d = true := h.1
  subst h1
  rfl

/-! ### call sequences -/

/-- what a closed reader answers. -/
def closedRes : Op → Res
  | .read _ => .read [] (some .closed)
  | .close => .close none
  | .reset _ => .reset

/-- **closed means closed**: every Read returns `(0, closed)`, every Close nil, nothing changes,
    for every continuation without Reset. -/
theorem closed_forever (sd : ByteArray) (r : Reader) (h : Closed r) (ops : List Op) (hn : ∀ op ∈ ops, op.noReset = true) :
    Reader.run sd r ops = (r, ops.map closedRes) := by
  induction ops with
  | nil => rfl
  | cons op ops ih =>
    have ih' := ih (fun o ho => hn o (List.mem_cons_of_mem _ ho))
    cases op with
    | read n => simp only [Reader.run, Reader.step, read_done sd r h.1 n, ih', List.map_cons, closedRes]
    | close => simp only [Reader.run, Reader.step, close_closed r h, ih', List.map_cons, closedRes]
    | reset src => have := hn (.reset src) (List.mem_cons_self ..); simp [Op.noReset] at this

/-- what a reader with the error `e` latched answers. -/
def stuckRes (e : AErr) : Op → Res
  | .read _ => .read [] (some e)
  | .close => .close (some e)
  | .reset _ => .reset

/-- **failed stays failed**: with an error other than `io.EOF` latched and nothing pending, every
    Read returns no data and that error, every Close that error, nothing changes - for every
    continuation without Reset. -/
theorem failed_forever (sd : ByteArray) (r : Reader) (e : AErr) (he : r.err = some e) (hd : r.done = false)
    (ht : r.core.toRead = []) (hne : e ≠ .eof) (ops : List Op) (hn : ∀ op ∈ ops, op.noReset = true) :
    Reader.run sd r ops = (r, ops.map (stuckRes e)) := by
  induction ops with
  | nil => rfl
  | cons op ops ih =>
    have ih' := ih (fun o ho => hn o (List.mem_cons_of_mem _ ho))
    cases op with
    | read n => simp only [Reader.run, Reader.step, read_sticky sd r e he hd ht n, ih', List.map_cons, stuckRes]
    | close =>
      have hk : ¬ (r.err = some .eof ∨ r.done = true) := by
        rw [he, hd]; simp; exact hne
      have hc : r.close = (r, some e) := by
        rw [close_keeps r hk, he]
      simp only [Reader.run, Reader.step, hc, ih', List.map_cons, stuckRes]
    | reset src => have := hn (.reset src) (List.mem_cons_self ..); simp [Op.noReset] at this

/-- with `io.EOF` latched and nothing pending, Reads keep returning `(0, io.EOF)`. -/
theorem eof_reads (sd : ByteArray) (r : Reader) (he : r.err = some .eof) (hd : r.done = false) (ht : r.core.toRead = [])
    (ns : List Nat) : Reader.run sd r (ns.map .read) = (r, ns.map (fun _ => .read [] (some .eof))) := by
  induction ns with
  | nil => rfl
  | cons n ns ih => simp only [List.map_cons, Reader.run, Reader.step, read_sticky sd r .eof he hd ht n, ih]

end Compress.Proofs.BrotliApi
