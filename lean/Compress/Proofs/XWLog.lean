/-
The compressor log of xflate.Writer seen as reset-delimited groups: `closedOf`
(groups already closed by a reset) and `openOf` (the group being written), and
their relation to `chunksOf` / `dataOf`.
-/
import Compress.XFlate.WriterSpec

namespace Compress.Proofs.XWLog
open Compress Compress.XFlate

abbrev Grp := List UInt8 × List UInt8
abbrev ZLog := List (ZEv × List UInt8)

/-- the groups closed by a reset (empty ones included), oldest first. -/
def closedOf : ZLog → List UInt8 → List UInt8 → List Grp
  | [], _, _ => []
  | (ev, d) :: rest, bytes, data =>
    if ev.kind = .zreset then (bytes, data) :: closedOf rest [] []
    else closedOf rest (bytes ++ ev.emitted) (data ++ d)

/-- the group after the last reset. -/
def openOf : ZLog → List UInt8 → List UInt8 → Grp
  | [], bytes, data => (bytes, data)
  | (ev, d) :: rest, bytes, data =>
    if ev.kind = .zreset then openOf rest [] []
    else openOf rest (bytes ++ ev.emitted) (data ++ d)

/-- a group counts as a chunk unless it is completely empty. -/
def opt (g : Grp) : List Grp := if g.1.isEmpty ∧ g.2.isEmpty then [] else [g]

def ne (l : List Grp) : List Grp := (l.map opt).flatten

theorem ne_cons (g : Grp) (l : List Grp) : ne (g :: l) = opt g ++ ne l := rfl
theorem ne_nil : ne [] = [] := rfl
theorem ne_append (a b : List Grp) : ne (a ++ b) = ne a ++ ne b := by
  simp [ne]

theorem opt_empty : opt ([], []) = [] := rfl

theorem mem_ne {g : Grp} {l : List Grp} : g ∈ ne l ↔ g ∈ l ∧ ¬ (g.1 = [] ∧ g.2 = []) := by
  induction l with
  | nil => simp [ne]
  | cons a l ih =>
    rw [ne_cons, List.mem_append, ih, List.mem_cons]
    unfold opt
    by_cases h : a.1.isEmpty ∧ a.2.isEmpty
    · rw [if_pos h]
      simp only [List.isEmpty_iff] at h
      constructor
      · rintro (h' | h')
        · cases h'
        · exact ⟨Or.inr h'.1, h'.2⟩
      · rintro ⟨h1 | h1, h2⟩
        · subst h1; exact absurd h h2
        · exact Or.inr ⟨h1, h2⟩
    · rw [if_neg h]
      simp only [List.isEmpty_iff] at h
      constructor
      · rintro (h' | h')
        · simp only [List.mem_singleton] at h'; subst h'; exact ⟨Or.inl rfl, h⟩
        · exact ⟨Or.inr h'.1, h'.2⟩
      · rintro ⟨h1 | h1, h2⟩
        · subst h1; exact Or.inl (List.mem_singleton.2 rfl)
        · exact Or.inr ⟨h1, h2⟩

theorem chunksOf_eq : ∀ (l : ZLog) (b d : List UInt8),
    chunksOf l b d = ne (closedOf l b d) ++ opt (openOf l b d)
  | [], b, d => by simp [chunksOf, closedOf, openOf, ne, opt]
  | (ev, dd) :: rest, b, d => by
    unfold chunksOf closedOf openOf
    by_cases h : ev.kind = .zreset
    · simp only [if_pos h]
      rw [chunksOf_eq rest [] [], ne_cons, List.append_assoc]
      rfl
    · simp only [if_neg h]
      exact chunksOf_eq rest _ _

theorem closedOf_snoc : ∀ (l : ZLog) (x : ZEv × List UInt8) (b d : List UInt8),
    closedOf (l ++ [x]) b d =
      if x.1.kind = .zreset then closedOf l b d ++ [openOf l b d] else closedOf l b d
  | [], (ev, dd), b, d => by
    simp only [List.nil_append, closedOf, openOf]
  | (ev, dd) :: rest, x, b, d => by
    simp only [List.cons_append, closedOf, openOf]
    by_cases h : ev.kind = .zreset
    · simp only [if_pos h, closedOf_snoc rest x [] []]
      split <;> rfl
    · simp only [if_neg h, closedOf_snoc rest x _ _]

theorem openOf_snoc : ∀ (l : ZLog) (x : ZEv × List UInt8) (b d : List UInt8),
    openOf (l ++ [x]) b d =
      if x.1.kind = .zreset then ([], []) else ((openOf l b d).1 ++ x.1.emitted, (openOf l b d).2 ++ x.2)
  | [], (ev, dd), b, d => by
    simp only [List.nil_append, openOf]
  | (ev, dd) :: rest, x, b, d => by
    simp only [List.cons_append, openOf]
    by_cases h : ev.kind = .zreset
    · simp only [if_pos h, openOf_snoc rest x [] []]
    · simp only [if_neg h, openOf_snoc rest x _ _]

theorem dataOf_nil : dataOf [] = [] := rfl
theorem dataOf_cons (x : ZEv × List UInt8) (l : ZLog) : dataOf (x :: l) = x.2 ++ dataOf l := by
  simp [dataOf]
theorem dataOf_append (a b : ZLog) : dataOf (a ++ b) = dataOf a ++ dataOf b := by
  simp [dataOf]
theorem dataOf_single (x : ZEv × List UInt8) : dataOf [x] = x.2 := by
  simp [dataOf]

end Compress.Proofs.XWLog
