/-
The API-level model of meta.Reader against the codec (`Codec.decode`): for
every Read schedule the bytes delivered up to io.EOF are `decode`'s payload,
InputOffset / NumBlocks / FinalMode are `decode`'s consumed / blocks / final,
and the input beyond the consumed bytes is untouched (C11, C16).
-/
import Compress.Proofs.MetaRApi
import Compress.Proofs.MetaConvShape
import Compress.Proofs.MetaStream
import Compress.Proofs.Meta

namespace Compress.Proofs.MetaRApi
open Compress Compress.Meta Compress.Proofs.Meta

/-! ### the codec: block facts, fuel of `decodeAll` -/

theorem decodeBlock_ok_facts (bs : Bits) (blk : Block) (h : decodeBlock bs = .ok blk) :
    blk.consumed ≤ bs.length ∧ blk.consumed % 8 = 0 ∧ 32 ≤ blk.consumed := by
  obtain ⟨fs, hh, pads, body, st, _, _, _, _, hbs, hc, h8, _⟩ :=
    Compress.Proofs.MetaConv.accepted_shape bs blk h
  refine ⟨?_, h8, ?_⟩
  · have := congrArg List.length hbs
    rw [List.length_append, ← hc] at this
    omega
  · rw [hc, Compress.Proofs.MetaConv.accBits, List.length_append, length_ofNat]
    omega

theorem decodeAll_fuel : ∀ (n m : Nat) (bits : Bits) (acc : Decoded),
    bits.length ≤ 8 * n → bits.length ≤ 8 * m →
    decodeAll (n + 1) bits acc = decodeAll (m + 1) bits acc := by
  intro n
  induction n with
  | zero =>
    intro m bits acc h1 _
    have : bits = [] := List.eq_nil_of_length_eq_zero (by omega)
    subst this
    rw [decodeAll_nil, decodeAll_nil]
  | succ n ih =>
    intro m bits acc h1 h2
    cases m with
    | zero =>
      have : bits = [] := List.eq_nil_of_length_eq_zero (by omega)
      subst this
      rw [decodeAll_nil, decodeAll_nil]
    | succ m =>
      cases hd : decodeBlock bits with
      | error e => cases e <;> simp only [decodeAll, hd]
      | ok blk =>
        obtain ⟨f1, _, f3⟩ := decodeBlock_ok_facts bits blk hd
        simp only [decodeAll, hd]
        have hl : (bits.drop blk.consumed).length = bits.length - blk.consumed := List.length_drop ..
        split
        · rfl
        · exact ih m _ _ (by omega) (by omega)

/-- `decodeAll` with the fuel its input can use up. -/
def DA (bits : Bits) (acc : Decoded) : Except DErr Decoded := decodeAll (bits.length + 1) bits acc

theorem decode_eq_DA (bytes : List UInt8) :
    decode bytes = DA (Bits.ofBytes bytes) { payload := [], final := .fnil, blocks := 0, consumed := 0 } := by
  unfold decode DA
  exact decodeAll_fuel _ _ _ _ (by rw [length_ofBytes]; omega) (by omega)

theorem DA_err (bits : Bits) (acc : Decoded) (e : DErr) (h : decodeBlock bits = .error e) :
    DA bits acc = (match e with | .eof => .ok acc | e => .error e) := by
  unfold DA
  cases e <;> simp only [decodeAll, h]

theorem DA_ok (bits : Bits) (acc : Decoded) (blk : Block) (h : decodeBlock bits = .ok blk) :
    DA bits acc =
      if blk.final ≠ .fnil then
        .ok { payload := acc.payload ++ blk.payload, final := blk.final, blocks := acc.blocks + 1,
              consumed := acc.consumed + blk.consumed / 8 }
      else DA (bits.drop blk.consumed)
        { payload := acc.payload ++ blk.payload, final := blk.final, blocks := acc.blocks + 1,
          consumed := acc.consumed + blk.consumed / 8 } := by
  obtain ⟨f1, _, f3⟩ := decodeBlock_ok_facts bits blk h
  unfold DA
  simp only [decodeAll, h]
  have hl : (bits.drop blk.consumed).length = bits.length - blk.consumed := List.length_drop ..
  split
  · rfl
  · have hb : bits.length = (bits.length - 1) + 1 := by omega
    rw [hb]
    exact decodeAll_fuel _ _ _ _ (by omega) (by omega)

/-! ### what the codec says about the rest of the stream, seen from a reader state -/

/-- the codec's verdict on the whole stream, from the state `s` of a reader that has
    delivered `del` so far. -/
def view (s : MR) (del : List UInt8) : Except DErr Decoded :=
  if s.final ≠ .fnil then
    .ok { payload := del ++ s.buf, final := s.final, blocks := s.nblk, consumed := s.inOff }
  else DA s.rest { payload := del ++ s.buf, final := .fnil, blocks := s.nblk, consumed := s.inOff }

/-- the state after `decodeBlock` accepted `blk`. -/
def afterBlock (s : MR) (blk : Block) : MR :=
  { s with rest := s.rest.drop blk.consumed, buf := blk.payload, final := blk.final,
           inOff := s.inOff + blk.consumed / 8, nblk := s.nblk + 1 }

/-- a reader that has neither failed nor been closed. -/
structure Live (B : Bits) (s : MR) : Prop where
  err   : s.err = none
  rd    : s.rdNil = false
  fm    : s.finalMode = .fnil
  rest  : s.rest = B.drop (8 * s.inOff)

/-- what a finished Read loop says about the stream. -/
structure LoopSpec (B : Bits) (s : MR) (del : List UInt8) (r : MR × List UInt8) : Prop where
  live  : r.1.err = none → Live B r.1 ∧ view r.1 (del ++ r.2) = view s del
  eof   : r.1.err = some .eof → r.2 = [] ∧ r.1.rest = B.drop (8 * r.1.inOff) ∧
            view s del = .ok { payload := del, final := r.1.finalMode, blocks := r.1.nblk, consumed := r.1.inOff }
  ueof  : r.1.err = some .ueof → view s del = .error .unexpectedEOF
  corr  : r.1.err = some .corrupt → ∃ w, view s del = .error (.corrupted w)
  flt   : ∀ t, r.1.err = some (.fault t) → view s del = .error .unexpectedEOF ∨
            ∃ d, view s del = .ok d ∧ d.final = .fnil

theorem readLoop_spec (B : Bits) : ∀ (fuel : Nat) (s : MR) (n : Nat) (del : List UInt8),
    Live B s → s.rest.length + 2 ≤ fuel → LoopSpec B s del (MR.readLoop fuel s n) := by
  intro fuel
  induction fuel with
  | zero => intro s n del _ hf; omega
  | succ fuel ih =>
    intro s n del hl hfuel
    unfold MR.readLoop
    by_cases hb : s.buf ≠ []
    · rw [if_pos hb]
      have hv : view { s with buf := s.buf.drop n } (del ++ s.buf.take n) = view s del := by
        simp only [view, List.append_assoc, List.take_append_drop]
      constructor
      · intro _; exact ⟨⟨hl.err, hl.rd, hl.fm, hl.rest⟩, hv⟩
      · intro h; simp [hl.err] at h
      · intro h; simp [hl.err] at h
      · intro h; simp [hl.err] at h
      · intro t h; simp [hl.err] at h
    · have hb' : s.buf = [] := by simpa using hb
      rw [if_neg hb]
      by_cases hf : s.final ≠ .fnil
      · rw [if_pos hf]
        constructor
        · intro h; simp at h
        · intro _
          refine ⟨rfl, hl.rest, ?_⟩
          simp [view, hf, hb']
        · intro h; simp at h
        · intro h; simp at h
        · intro t h; simp at h
      · have hf' : s.final = .fnil := by simpa using hf
        rw [if_neg hf]
        have hvs : view s del = DA s.rest { payload := del, final := .fnil, blocks := s.nblk, consumed := s.inOff } := by
          simp [view, hf', hb']
        cases hd : decodeBlock s.rest with
        | error e =>
          cases e with
          | eof =>
            have hda := DA_err s.rest { payload := del, final := .fnil, blocks := s.nblk, consumed := s.inOff } _ hd
            simp only at hda
            cases hft : s.ftag with
            | none =>
              have hst : s.decodeStep = (s, some .eof) := by
                simp [MR.decodeStep, hl.rd, hd, hft]
              rw [hst]
              constructor
              · intro h; simp at h
              · intro _; exact ⟨rfl, hl.rest, by rw [hvs, hda]; simp [hl.fm]⟩
              · intro h; simp at h
              · intro h; simp at h
              · intro t h; simp at h
            | some t =>
              have hst : s.decodeStep = (s, some (.fault t)) := by
                simp [MR.decodeStep, hl.rd, hd, hft]
              rw [hst]
              constructor
              · intro h; simp at h
              · intro h; simp at h
              · intro h; simp at h
              · intro h; simp at h
              · intro t' _; exact Or.inr ⟨_, by rw [hvs, hda], rfl⟩
          | unexpectedEOF =>
            have hst : s.decodeStep = ({ s with inOff := s.inOff + s.rest.length / 8 }, some s.endErr) := by
              simp [MR.decodeStep, hl.rd, hd]
            rw [hst]
            have hda := DA_err s.rest { payload := del, final := .fnil, blocks := s.nblk, consumed := s.inOff } _ hd
            simp only at hda
            cases hft : s.ftag with
            | none =>
              constructor
              · intro h; simp at h
              · intro h; simp [MR.endErr, hft] at h
              · intro _; rw [hvs, hda]
              · intro h; simp [MR.endErr, hft] at h
              · intro t h; simp [MR.endErr, hft] at h
            | some t =>
              constructor
              · intro h; simp at h
              · intro h; simp [MR.endErr, hft] at h
              · intro h; simp [MR.endErr, hft] at h
              · intro h; simp [MR.endErr, hft] at h
              · intro t' _; exact Or.inl (by rw [hvs, hda])
          | corrupted w =>
            have hst : s.decodeStep = ({ s with inOff := s.inOff + errBytes s.rest (s.rest.length / 8 + 1) 1 }, some .corrupt) := by
              simp [MR.decodeStep, hl.rd, hd]
            rw [hst]
            have hda := DA_err s.rest { payload := del, final := .fnil, blocks := s.nblk, consumed := s.inOff } _ hd
            simp only at hda
            constructor
            · intro h; simp at h
            · intro h; simp at h
            · intro h; simp at h
            · intro _; exact ⟨w, by rw [hvs, hda]⟩
            · intro t h; simp at h
        | ok blk =>
          obtain ⟨c1, c2, c3⟩ := decodeBlock_ok_facts s.rest blk hd
          have hst : s.decodeStep = (afterBlock s blk, none) := by
            simp [MR.decodeStep, hl.rd, hd, afterBlock]
          rw [hst]
          simp only
          have hl' : Live B (afterBlock s blk) := by
            refine ⟨hl.err, hl.rd, hl.fm, ?_⟩
            show s.rest.drop blk.consumed = B.drop (8 * (s.inOff + blk.consumed / 8))
            rw [hl.rest, List.drop_drop]
            congr 1
            omega
          have hlen : (s.rest.drop blk.consumed).length + 2 ≤ fuel := by
            show (s.rest.drop blk.consumed).length + 2 ≤ fuel
            rw [List.length_drop]; omega
          have key := ih (afterBlock s blk) n del hl' hlen
          have hv : view (afterBlock s blk) del = view s del := by
            rw [hvs, DA_ok _ _ blk hd]
            by_cases hbf : blk.final ≠ .fnil
            · simp [view, afterBlock, hbf]
            · have hbf' : blk.final = .fnil := by simpa using hbf
              simp [view, afterBlock, hbf']
          constructor
          · intro h; rw [← hv]; exact key.live h
          · intro h; rw [← hv]; exact key.eof h
          · intro h; rw [← hv]; exact key.ueof h
          · intro h; rw [← hv]; exact key.corr h
          · intro t h; rw [← hv]; exact key.flt t h

/-! ### Read, and runs of Reads -/

/-- the bytes delivered by the Reads of a run. -/
def dataOf : List RRes → List UInt8
  | [] => []
  | .read d _ :: rs => d ++ dataOf rs
  | _ :: rs => dataOf rs

/-- what a run of Reads that started in `s` (with `del` delivered before) says about the stream. -/
structure RunSpec (B : Bits) (s : MR) (del : List UInt8) (r : MR × List UInt8) : Prop where
  live  : r.1.err = none → Live B r.1 ∧ view r.1 (del ++ r.2) = view s del
  eof   : r.1.err = some .eof → r.1.rest = B.drop (8 * r.1.inOff) ∧
            view s del = .ok { payload := del ++ r.2, final := r.1.finalMode, blocks := r.1.nblk, consumed := r.1.inOff }
  ueof  : r.1.err = some .ueof → view s del = .error .unexpectedEOF
  corr  : r.1.err = some .corrupt → ∃ w, view s del = .error (.corrupted w)
  flt   : ∀ t, r.1.err = some (.fault t) → view s del = .error .unexpectedEOF ∨
            ∃ d, view s del = .ok d ∧ d.final = .fnil

theorem RunSpec.ofLoop {B : Bits} {s : MR} {del : List UInt8} {r : MR × List UInt8} (k : Nat)
    (h : LoopSpec B s del r) : RunSpec B s del ({ r.1 with outOff := k }, r.2) := by
  constructor
  · intro he
    obtain ⟨l, v⟩ := h.live he
    exact ⟨⟨l.err, l.rd, l.fm, l.rest⟩, v⟩
  · intro he
    obtain ⟨a, b, c⟩ := h.eof he
    refine ⟨b, ?_⟩
    simp only [a, List.append_nil]
    exact c
  · exact h.ueof
  · exact h.corr
  · exact h.flt

theorem RunSpec.refl (B : Bits) (s : MR) (del : List UInt8) (hl : Live B s) : RunSpec B s del (s, []) := by
  constructor
  · intro _; exact ⟨hl, by rw [List.append_nil]⟩
  · intro h; rw [hl.err] at h; cases h
  · intro h; rw [hl.err] at h; cases h
  · intro h; rw [hl.err] at h; cases h
  · intro t h; rw [hl.err] at h; cases h

theorem read_spec (B : Bits) (s : MR) (n : Nat) (del : List UInt8) (hl : Live B s) :
    RunSpec B s del ((s.read n).1, (s.read n).2.1) := by
  by_cases hn : n = 0
  · have : s.read n = (s, [], none) := by simp [MR.read, hl.err, hn]
    rw [this]; exact RunSpec.refl B s del hl
  · have : s.read n = ({ (MR.readLoop (s.rest.length + 2) s n).1 with
        outOff := (MR.readLoop (s.rest.length + 2) s n).1.outOff + (MR.readLoop (s.rest.length + 2) s n).2.length },
        (MR.readLoop (s.rest.length + 2) s n).2, (MR.readLoop (s.rest.length + 2) s n).1.err) := by
      simp [MR.read, hl.err, hn]
    rw [this]
    exact RunSpec.ofLoop _ (readLoop_spec B _ s n del hl (Nat.le_refl _))

theorem dataOf_latched (e : RErr) (ns : List Nat) :
    dataOf (ns.map (fun _ => RRes.read [] (some e))) = [] := by
  induction ns with
  | nil => rfl
  | cons n ns ih => simp [dataOf, ih]

theorem run_reads_cons (s : MR) (n : Nat) (ns : List Nat) :
    (MR.run s ((n :: ns).map .read)).1 = (MR.run (s.read n).1 (ns.map .read)).1 ∧
    dataOf (MR.run s ((n :: ns).map .read)).2 = (s.read n).2.1 ++ dataOf (MR.run (s.read n).1 (ns.map .read)).2 := by
  simp [MR.run, MR.step, dataOf]

theorem run_reads_spec (B : Bits) : ∀ (ns : List Nat) (s : MR) (del : List UInt8), Live B s →
    RunSpec B s del ((MR.run s (ns.map .read)).1, dataOf (MR.run s (ns.map .read)).2) := by
  intro ns
  induction ns with
  | nil => intro s del hl; exact RunSpec.refl B s del hl
  | cons n ns ih =>
    intro s del hl
    obtain ⟨e1, e2⟩ := run_reads_cons s n ns
    rw [e1, e2]
    have sp := read_spec B s n del hl
    cases he : (s.read n).1.err with
    | none =>
      obtain ⟨l1, v1⟩ := sp.live he
      have k := ih (s.read n).1 (del ++ (s.read n).2.1) l1
      constructor
      · intro h
        obtain ⟨l2, v2⟩ := k.live h
        exact ⟨l2, by rw [← List.append_assoc, v2, v1]⟩
      · intro h
        obtain ⟨a, b⟩ := k.eof h
        exact ⟨a, by rw [← v1, b, List.append_assoc]⟩
      · intro h; rw [← v1]; exact k.ueof h
      · intro h; rw [← v1]; exact k.corr h
      · intro t h; rw [← v1]; exact k.flt t h
    | some e =>
      rw [reads_latched _ e he, dataOf_latched, List.append_nil]
      exact sp

theorem live_new (src : Src) : Live (Bits.ofBytes src.avail) (newMR src) :=
  ⟨rfl, rfl, rfl, by simp [newMR, MR.reset]⟩

theorem view_new (src : Src) : view (newMR src) [] = decode src.avail := by
  rw [decode_eq_DA]
  simp [view, newMR, MR.reset]

/-! ### OutputOffset -/

theorem close_outOff (s : MR) : s.close.1.outOff = s.outOff := by
  unfold MR.close
  by_cases hd : s.done = true
  · simp [hd]
  · simp only [hd, Bool.false_eq_true, if_false]
    split <;> rfl

theorem run_outOff : ∀ (ops : List ROp) (s : MR), noReset ops →
    (MR.run s ops).1.outOff = s.outOff + (dataOf (MR.run s ops).2).length := by
  intro ops
  induction ops with
  | nil => intro s _; simp [MR.run, dataOf]
  | cons op ops ih =>
    intro s h
    have h2 := ih (s.step op).1 (fun o ho => h o (List.mem_cons_of_mem _ ho))
    cases op with
    | read n =>
      simp only [MR.run, MR.step, dataOf, List.length_append] at h2 ⊢
      rw [h2, read_outOff]; omega
    | close =>
      simp only [MR.run, MR.step, dataOf] at h2 ⊢
      rw [h2, close_outOff]
    | reset src => exact absurd rfl (h _ (List.mem_cons_self ..) src)

/-! ### the property theorems (statements: Props/C11.lean, Props/C16.lean) -/

theorem delivers_decode (src : Src) (ns : List Nat) :
    let r := MR.run (newMR src) (ns.map .read)
    (r.1.err = some .eof → ∃ d, decode src.avail = .ok d ∧ dataOf r.2 = d.payload ∧ r.1.finalMode = d.final) ∧
    (r.1.err = some .ueof → decode src.avail = .error .unexpectedEOF) ∧
    (r.1.err = some .corrupt → ∃ w, decode src.avail = .error (.corrupted w)) ∧
    (∀ t, r.1.err = some (.fault t) → decode src.avail = .error .unexpectedEOF ∨
      ∃ d, decode src.avail = .ok d ∧ d.final = .fnil) := by
  intro r
  have sp := run_reads_spec (Bits.ofBytes src.avail) ns (newMR src) [] (live_new src)
  have hv := view_new src
  refine ⟨fun h => ?_, fun h => hv ▸ sp.ueof h, fun h => hv ▸ sp.corr h, fun t h => hv ▸ sp.flt t h⟩
  obtain ⟨_, b⟩ := sp.eof h
  rw [hv] at b
  exact ⟨_, b, by simp only [List.nil_append]; rfl, rfl⟩

theorem exact (src : Src) (ns : List Nat) :
    let r := MR.run (newMR src) (ns.map .read)
    r.1.outOff = (dataOf r.2).length ∧
    (r.1.err = some .eof → ∃ d, decode src.avail = .ok d ∧ r.1.inOff = d.consumed ∧ r.1.nblk = d.blocks ∧
      r.1.rest = (Bits.ofBytes src.avail).drop (8 * d.consumed) ∧ r.1.outOff = d.payload.length) := by
  intro r
  have ho : r.1.outOff = (dataOf r.2).length := by
    have := run_outOff (ns.map .read) (newMR src) (by
      intro op hop src' he
      rw [List.mem_map] at hop
      obtain ⟨n, _, hn⟩ := hop
      rw [he] at hn; cases hn)
    have z : (newMR src).outOff = 0 := rfl
    rw [z, Nat.zero_add] at this
    exact this
  refine ⟨ho, fun h => ?_⟩
  have sp := run_reads_spec (Bits.ofBytes src.avail) ns (newMR src) [] (live_new src)
  obtain ⟨a, b⟩ := sp.eof h
  rw [view_new] at b
  exact ⟨_, b, rfl, rfl, a, by rw [ho]; simp only [List.nil_append]; rfl⟩

/-! ### progress: a Read with a non-empty buffer returns data or an error -/

theorem readLoop_progress : ∀ (fuel : Nat) (s : MR) (n : Nat), s.rest.length + 2 ≤ fuel →
    (MR.readLoop fuel s (n + 1)).1.err = none → (MR.readLoop fuel s (n + 1)).2 ≠ [] := by
  intro fuel
  induction fuel with
  | zero => intro s n hf; omega
  | succ fuel ih =>
    intro s n hfuel he
    unfold MR.readLoop at he ⊢
    by_cases hb : s.buf ≠ []
    · rw [if_pos hb]
      cases hbb : s.buf with
      | nil => exact absurd hbb hb
      | cons b bs => simp
    · rw [if_neg hb] at he ⊢
      by_cases hf : s.final ≠ .fnil
      · rw [if_pos hf] at he; simp at he
      · rw [if_neg hf] at he ⊢
        cases hd : s.decodeStep.2 with
        | some e => simp only [hd] at he; simp at he
        | none =>
          simp only [hd] at he ⊢
          refine ih s.decodeStep.1 n ?_ he
          -- the step accepted a block: the input got shorter
          unfold MR.decodeStep at hd ⊢
          by_cases hr : s.rdNil = true
          · simp [hr] at hd
          · have hr' : s.rdNil = false := by simpa using hr
            simp only [hr', Bool.false_eq_true, if_false] at hd ⊢
            cases hdb : decodeBlock s.rest with
            | error e =>
              rw [hdb] at hd
              cases e <;> simp at hd
            | ok blk =>
              obtain ⟨c1, _, c3⟩ := decodeBlock_ok_facts s.rest blk hdb
              simp only [List.length_drop]
              omega

theorem read_progress (s : MR) (n : Nat) (h : (s.read (n + 1)).2.2 = none) : (s.read (n + 1)).2.1 ≠ [] := by
  have he : s.err = none := by
    cases he : s.err with
    | none => rfl
    | some e => rw [read_latched s _ e he] at h; cases h
  have : s.read (n + 1) = ({ (MR.readLoop (s.rest.length + 2) s (n + 1)).1 with
      outOff := (MR.readLoop (s.rest.length + 2) s (n + 1)).1.outOff + (MR.readLoop (s.rest.length + 2) s (n + 1)).2.length },
      (MR.readLoop (s.rest.length + 2) s (n + 1)).2, (MR.readLoop (s.rest.length + 2) s (n + 1)).1.err) := by
    simp [MR.read, he]
  rw [this] at h ⊢
  exact readLoop_progress _ s n (Nat.le_refl _) h

theorem decodeAll_payload_prefix : ∀ (fuel : Nat) (bits : Bits) (acc d : Decoded),
    decodeAll fuel bits acc = .ok d → acc.payload <+: d.payload := by
  intro fuel
  induction fuel with
  | zero => intro bits acc d h; simp only [decodeAll, Except.ok.injEq] at h; subst h; exact List.prefix_refl _
  | succ fuel ih =>
    intro bits acc d h
    cases hd : decodeBlock bits with
    | error e =>
      cases e <;> simp only [decodeAll, hd] at h
      · simp only [Except.ok.injEq] at h; subst h; exact List.prefix_refl _
      · cases h
      · cases h
    | ok blk =>
      simp only [decodeAll, hd] at h
      split at h
      · simp only [Except.ok.injEq] at h; subst h; exact List.prefix_append _ _
      · exact List.IsPrefix.trans (List.prefix_append _ _) (ih _ _ _ h)

theorem view_prefix (s : MR) (del : List UInt8) (d : Decoded) (h : view s del = .ok d) : del <+: d.payload := by
  unfold view at h
  split at h
  · simp only [Except.ok.injEq] at h; subst h; exact List.prefix_append _ _
  · exact List.IsPrefix.trans (List.prefix_append _ _) (decodeAll_payload_prefix _ _ _ _ h)

/-- while no Read of positive length has failed, every one of them delivered a byte. -/
theorem run_reads_progress : ∀ (ns : List Nat) (s : MR), (∀ n ∈ ns, 0 < n) →
    (MR.run s (ns.map .read)).1.err = none → ns.length ≤ (dataOf (MR.run s (ns.map .read)).2).length := by
  intro ns
  induction ns with
  | nil => intro s _ _; simp
  | cons n ns ih =>
    intro s hpos he
    obtain ⟨e1, e2⟩ := run_reads_cons s n ns
    rw [e1] at he
    rw [e2]
    cases h1 : (s.read n).2.2 with
    | some e =>
      have := read_err_state s n
      rw [h1] at this
      rw [reads_latched _ e this] at he
      rw [this] at he; cases he
    | none =>
      obtain ⟨m, rfl⟩ : ∃ m, n = m + 1 := ⟨n - 1, by have := hpos n (List.mem_cons_self ..); omega⟩
      have hp := read_progress s m h1
      have hl : 0 < (s.read (m + 1)).2.1.length := List.length_pos_iff.2 hp
      have := ih (s.read (m + 1)).1 (fun k hk => hpos k (List.mem_cons_of_mem _ hk)) he
      simp only [List.length_cons, List.length_append]
      omega

theorem run_reads_done : ∀ (ns : List Nat) (s : MR), (MR.run s (ns.map .read)).1.done = s.done := by
  intro ns
  induction ns with
  | nil => intro s; rfl
  | cons n ns ih =>
    intro s
    rw [(run_reads_cons s n ns).1, ih]
    unfold MR.read
    by_cases h0 : s.err ≠ none
    · simp [h0]
    · have h' : s.err = none := by simpa using h0
      by_cases hn : n = 0
      · simp [h', hn]
      · simp only [h', hn, ne_eq, not_true_eq_false, if_false]
        exact (readLoop_frame _ s n).1

/-- **totality**: over a source without a fault whose input the codec accepts, every schedule
    of more than `payload.length` Reads with non-empty buffers ends with io.EOF. -/
theorem reads_reach_eof (data : List UInt8) (d : Decoded) (hd : decode data = .ok d) (ns : List Nat)
    (hpos : ∀ n ∈ ns, 0 < n) (hlen : d.payload.length < ns.length) :
    (MR.run (newMR { data := data }) (ns.map .read)).1.err = some .eof := by
  have sp := run_reads_spec (Bits.ofBytes data) ns (newMR { data := data }) [] (live_new { data := data })
  have hv : view (newMR { data := data }) [] = .ok d := (view_new { data := data }).trans hd
  have hinv := inv_run (ns.map .read) _ (inv_new { data := data })
  have hft : (MR.run (newMR { data := data }) (ns.map .read)).1.ftag = none := by
    have := run_ftag (ns.map .read) (newMR { data := data }) { data := data } rfl
    rw [this]
    have hl : ∀ (ns : List Nat) (src : Src), lastSrc src (ns.map .read) = src := by
      intro ns; induction ns with
      | nil => intro src; rfl
      | cons n ns ih => intro src; simp [lastSrc, ih]
    rw [hl]; rfl
  cases he : (MR.run (newMR { data := data }) (ns.map .read)).1.err with
  | none =>
    obtain ⟨_, v⟩ := sp.live he
    rw [hv] at v
    have p1 := view_prefix _ _ d v
    have p2 := run_reads_progress ns _ hpos he
    have := p1.length_le
    simp only [List.nil_append] at this
    omega
  | some e =>
    cases e with
    | eof => rfl
    | ueof => have := sp.ueof he; rw [hv] at this; cases this
    | corrupt => obtain ⟨w, hw⟩ := sp.corr he; rw [hv] at hw; cases hw
    | closed =>
      have h1 := hinv.closed_done he
      rw [run_reads_done] at h1
      cases h1
    | fault t => have := hinv.fault_tag t he; rw [hft] at this; cases this
    | nilDeref => exact absurd he hinv.no_panic

theorem reads_total (data : List UInt8) (d : Decoded) (hd : decode data = .ok d) (ns : List Nat)
    (hpos : ∀ n ∈ ns, 0 < n) (hlen : d.payload.length < ns.length) :
    let r := MR.run (newMR { data := data }) (ns.map .read)
    r.1.err = some .eof ∧ dataOf r.2 = d.payload ∧ r.1.finalMode = d.final ∧ r.1.inOff = d.consumed ∧
    r.1.nblk = d.blocks ∧ r.1.rest = (Bits.ofBytes data).drop (8 * d.consumed) := by
  intro r
  have he := reads_reach_eof data d hd ns hpos hlen
  obtain ⟨d1, e1, e2, e3⟩ := (delivers_decode { data := data } ns).1 he
  obtain ⟨d2, e1', e4, e5, e6, _⟩ := (exact { data := data } ns).2 he
  have hav : ({ data := data } : Src).avail = data := rfl
  rw [hav, hd] at e1 e1'
  cases e1; cases e1'
  exact ⟨he, e2, e3, e4, e5, e6⟩

/-- reading what the encoder wrote. -/
theorem reads_encoded (payload : List UInt8) (final : FinalMode) (ns : List Nat) :
    ∃ blocks, encode payload final = some blocks ∧
      let r := MR.run (newMR { data := blocks.flatten }) (ns.map .read)
      (r.1.err ≠ some .ueof ∧ r.1.err ≠ some .corrupt) ∧
      (r.1.err = some .eof → dataOf r.2 = payload ∧ r.1.finalMode = final ∧ r.1.inOff = blocks.flatten.length ∧
        r.1.nblk = blocks.length ∧ r.1.rest = [] ∧ r.1.outOff = payload.length) := by
  obtain ⟨blocks, he, hd⟩ := decode_encode payload final
  refine ⟨blocks, he, ?_⟩
  intro r
  have h1 := delivers_decode { data := blocks.flatten } ns
  have h2 := exact { data := blocks.flatten } ns
  have hav : ({ data := blocks.flatten } : Src).avail = blocks.flatten := rfl
  rw [hav, hd] at h1 h2
  refine ⟨⟨fun h => ?_, fun h => ?_⟩, fun h => ?_⟩
  · have := h1.2.1 h; cases this
  · obtain ⟨w, hw⟩ := h1.2.2.1 h; cases hw
  · obtain ⟨d, e1, e2, e3⟩ := h1.1 h
    obtain ⟨d', e1', e4, e5, e6, e7⟩ := h2.2 h
    cases e1; cases e1'
    refine ⟨e2, e3, e4, e5, ?_, e7⟩
    rw [e6]
    apply List.drop_of_length_le
    rw [length_ofBytes]
    exact Nat.le_refl _

end Compress.Proofs.MetaRApi
