/-
bzip2 round trip: `readSyms` reads the block body (groups of 50 symbols, one
table per group) back up to the end-of-block symbol.
-/
import Compress.Proofs.BzRTBits

namespace Compress.Proofs.BzRT
open Compress Compress.Bzip2 Compress.Prefix

/-- the block body: symbol number `i` is written with the table of group `i / 50`. -/
def bodyAux (W : Nat → Nat → Bits) (numTrees : Nat) : List Nat → Nat → Bits
  | [], _ => []
  | s :: r, i => W ((i / numBlockSyms) % numTrees) s ++ bodyAux W numTrees r (i + 1)

theorem bodyAux_eq (W : Nat → Nat → Bits) (numTrees : Nat) (syms : List Nat) :
    ∀ (rem : List Nat) (i : Nat), syms.drop i = rem →
      ((List.range' i rem.length).map fun j => W ((j / numBlockSyms) % numTrees) (syms.getD j 0)).flatten
        = bodyAux W numTrees rem i
  | [], _, _ => by simp [bodyAux]
  | s :: r, i, h => by
    have hi : i < syms.length := by
      rcases Nat.lt_or_ge i syms.length with h' | h'
      · exact h'
      · rw [List.drop_eq_nil_of_le h'] at h; cases h
    have h1 : syms.getD i 0 = s := by
      rw [List.drop_eq_getElem_cons hi] at h
      simp [List.getD_eq_getElem?_getD, List.getElem?_eq_getElem hi, (List.cons.inj h).1]
    have h2 : syms.drop (i + 1) = r := by
      rw [List.drop_eq_getElem_cons hi] at h
      exact (List.cons.inj h).2
    simp only [List.length_cons, List.range'_succ, List.map_cons, List.flatten_cons, bodyAux, h1]
    rw [bodyAux_eq W numTrees syms r (i + 1) h2]

theorem body_eq (W : Nat → Nat → Bits) (numTrees : Nat) (syms : List Nat) :
    ((List.range syms.length).map fun j => W ((j / numBlockSyms) % numTrees) (syms.getD j 0)).flatten
      = bodyAux W numTrees syms 0 := by
  rw [List.range_eq_range']
  exact bodyAux_eq W numTrees syms syms 0 rfl

theorem readSyms_body (tabs : Array CTab) (sels : Array Nat) (numSyms limit numTrees numSels : Nat)
    (W : Nat → Nat → Bits)
    (hsels : sels = ((List.range numSels).map (· % numTrees)).toArray)
    (hdec : ∀ t s rest, t < numTrees → s < numSyms →
      (tabs.getD t default).decode numSyms (W t s ++ rest) = .sym s rest)
    (hnt : 0 < numTrees) (hns : 1 ≤ numSyms) (rest : Bits) :
    ∀ (rem : List Nat) (i fuel : Nat) (acc : List Nat),
      (∀ s ∈ rem, s + 1 < numSyms) → (i + rem.length) / 50 < numSels → i + rem.length ≤ limit →
      rem.length < fuel →
      readSyms tabs sels numSyms limit fuel ((50 - i % 50) % 50) ((i + 49) / 50) i acc
          (bodyAux W numTrees (rem ++ [numSyms - 1]) i ++ rest)
        = .ok (acc.reverse ++ rem, rest) := by
  have hsz : sels.size = numSels := by simp [hsels]
  have hget : ∀ k, k < numSels → sels.getD k 0 = k % numTrees := by
    intro k hk
    simp [hsels, hk]
  -- the group switch
  have hsw : ∀ i, i / 50 < numSels →
      (if (50 - i % 50) % 50 = 0 then
          if (i + 49) / 50 ≥ sels.size then (Except.error Verdict.corrupt : Except Verdict (Nat × Nat))
          else .ok (numBlockSyms, (i + 49) / 50 + 1)
        else .ok ((50 - i % 50) % 50, (i + 49) / 50)) = .ok (50 - i % 50, i / 50 + 1) := by
    intro i hi
    rw [hsz]
    by_cases h0 : i % 50 = 0
    · have e1 : (50 - i % 50) % 50 = 0 := by omega
      have e2 : (i + 49) / 50 = i / 50 := by omega
      rw [if_pos e1, e2, if_neg (by omega), h0]
      rfl
    · have e1 : (50 - i % 50) % 50 = 50 - i % 50 := by omega
      have e2 : (i + 49) / 50 = i / 50 + 1 := by omega
      rw [if_neg (by omega), e1, e2]
  intro rem
  induction rem with
  | nil =>
    intro i fuel acc _ h2 _ hf
    obtain ⟨f, rfl⟩ : ∃ f, fuel = f + 1 := ⟨fuel - 1, by simp at hf; omega⟩
    simp only [List.length_nil, Nat.add_zero] at h2
    rw [readSyms, hsw i h2]
    simp only [Nat.add_sub_cancel, hget _ h2, List.nil_append, bodyAux, List.append_nil]
    rw [show numBlockSyms = 50 from rfl, hdec _ _ rest (Nat.mod_lt _ hnt) (by omega)]
    simp
  | cons s r ih =>
    intro i fuel acc h1 h2 h3 hf
    obtain ⟨f, rfl⟩ : ∃ f, fuel = f + 1 := ⟨fuel - 1, by simp at hf; omega⟩
    simp only [List.length_cons] at h2 h3 hf
    have hi : i / 50 < numSels := by
      have : i / 50 ≤ (i + (r.length + 1)) / 50 := Nat.div_le_div_right (by omega)
      omega
    have hs := h1 s (by simp)
    rw [readSyms, hsw i hi]
    simp only [Nat.add_sub_cancel, hget _ hi, List.cons_append, bodyAux, List.append_assoc]
    rw [show numBlockSyms = 50 from rfl, hdec _ _ _ (Nat.mod_lt _ hnt) (by omega)]
    simp only []
    rw [if_neg (by omega), if_neg (by omega)]
    have e1 : 50 - i % 50 - 1 = (50 - (i + 1) % 50) % 50 := by omega
    have e2 : i / 50 + 1 = (i + 1 + 49) / 50 := by omega
    rw [e1, e2, ih (i + 1) f (s :: acc) (fun x hx => h1 x (by simp [hx])) (by rw [show i + 1 + r.length = i + (r.length + 1) by omega]; exact h2)
      (by omega) (by omega)]
    simp

end Compress.Proofs.BzRT
