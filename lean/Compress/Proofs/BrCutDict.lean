/-
Facts about the constant tables used by the fuel argument for `readCommands`: a copy is at
least two bytes long, and a static dictionary reference whose word index is below 120 (all
that can be coded without reading a bit) yields a non-empty word.
-/
import Compress.Brotli.Spec

namespace Compress.Proofs.BrCut
open Compress Compress.Brotli

theorem copyRanges_base_ge {i : Nat} {r : Range} (h : copyRanges[i]? = some r) : 2 ≤ r.base := by
  have hall : ∀ r ∈ copyRanges.toList, 2 ≤ r.base := by decide
  apply hall
  rw [Array.getElem?_eq_some_iff] at h
  obtain ⟨hi, rfl⟩ := h
  simp

theorem nwords_ge : ∀ l < 25, 4 ≤ l → 32 ≤ nwords l := by decide

theorem transform_small_nonempty {i : Nat} {t : Transform} (hi : i ≤ 3) (ht : transforms[i]? = some t)
    (w : List UInt8) (hw : 4 ≤ w.length) : 1 ≤ (t.apply w).length := by
  have h4 : i = 0 ∨ i = 1 ∨ i = 2 ∨ i = 3 := by omega
  rcases h4 with rfl | rfl | rfl | rfl
  all_goals
    have ht' := ht
    simp only [transforms] at ht'
    simp at ht'
    subst ht'
    simp [Transform.apply]
    try omega

theorem dictionaryWord_nonempty {dict : ByteArray} {copyLen wordId : Nat} {w : List UInt8}
    (h : dictionaryWord dict copyLen wordId = some w) (hid : wordId ≤ 119) : 1 ≤ w.length := by
  unfold dictionaryWord at h
  split at h
  · cases h
  · rename_i hlen
    simp only [minDictWordLen, maxDictWordLen, not_or, Nat.not_lt, Nat.not_lt] at hlen
    dsimp only at h
    split at h
    · cases h
    · rename_i t ht
      split at h
      · cases h
      · simp only [Option.some.injEq] at h
        subst h
        have hn := nwords_ge copyLen (by omega) hlen.1
        have hidx : wordId / nwords copyLen ≤ 3 := by
          have h1 : wordId / nwords copyLen ≤ wordId / 32 := Nat.div_le_div_left hn (by omega)
          omega
        exact transform_small_nonempty hidx ht _ (by simp; omega)

end Compress.Proofs.BrCut
