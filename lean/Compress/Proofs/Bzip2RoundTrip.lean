/-
C04 / C20 (last clause): what the bzip2.Writer model emits, the bzip2 format
specification decodes back to the input — for every input and every level,
including inputs whose optimal prefix code would exceed 20 bits.
Statements first; helper lemmas go in `Compress/Proofs/BzRT*.lean`.
-/
import Compress.Bzip2.Writer
import Compress.Bzip2.Spec
import Compress.Proofs.Bzip2Stages
import Compress.Proofs.Bzip2BWT
import Compress.Proofs.PrefixLengths
import Compress.Proofs.PrefixCodes
import Compress.Proofs.BzRTStream

namespace Compress.Proofs.Bzip2RoundTrip
open Compress Compress.Bzip2 Compress.Proofs.BzRT

/-- the writer never hits the panic branch (`GenerateLengths`/`GeneratePrefixes`
    failing): it produces a stream for every input and every level 1..9. -/
theorem encode_total (level : Nat) (hl : 1 ≤ level ∧ level ≤ 9) (data : List UInt8) :
    ∃ bytes, encodeStream level data = some bytes := by
  have _ := hl
  rw [encodeStream_eq]
  obtain ⟨r, hr⟩ := foldl_streamStep_total
    (splitBlocks (level * blockSize) (data.length + 1) data)
    (bitsBE hdrMagic 16 ++ bitsBE 0x68 8 ++ bitsBE (0x30 + level) 8, 0)
  rw [hr]
  exact ⟨_, rfl⟩

/-- every prefix code the writer emits respects the 20-bit limit of the format
    and is complete (so the decoder's table construction accepts it). -/
theorem tree_lens_ok (cnts : List Nat) (h2 : 2 ≤ cnts.length) (ls : List Nat)
    (h : treeLens cnts = some ls) :
    ls.length = cnts.length ∧ (∀ l ∈ ls, 1 ≤ l ∧ l ≤ maxPrefixBits) ∧
    Compress.Prefix.KraftComplete ls :=
  treeLens_ok cnts h2 ls h

/-- **Round trip.** The specification decodes the emitted stream to exactly the input. -/
theorem roundtrip (level : Nat) (hl : 1 ≤ level ∧ level ≤ 9) (data : List UInt8) (bytes : List UInt8)
    (h : encodeStream level data = some bytes) :
    decode bytes = { out := data.toArray, verdict := .ok } := by
  have h1 := decodeStreams_stream level hl data bytes h (bytes.length + 1) 0 #[] []
  rw [List.append_nil] at h1
  rw [decode, h1]
  simp [decodeStreams, Bits.ofBytesMSB]

/-- **Concatenation.** Two emitted streams back to back decode to the concatenation
    of the inputs (bzip2.Reader continues into following streams). -/
theorem roundtrip_concat (l1 l2 : Nat) (h1 : 1 ≤ l1 ∧ l1 ≤ 9) (h2 : 1 ≤ l2 ∧ l2 ≤ 9)
    (d1 d2 b1 b2 : List UInt8)
    (e1 : encodeStream l1 d1 = some b1) (e2 : encodeStream l2 d2 = some b2) :
    decode (b1 ++ b2) = { out := (d1 ++ d2).toArray, verdict := .ok } := by
  have s1 := decodeStreams_stream l1 h1 d1 b1 e1 ((b1 ++ b2).length + 1) 0 #[] b2
  have s2 := decodeStreams_stream l2 h2 d2 b2 e2 (b1 ++ b2).length 1 (#[] ++ d1.toArray) []
  rw [List.append_nil] at s2
  rw [decode, s1, s2]
  -- the first stream is not empty, so one unit of fuel is left for the final end-of-input check
  have hne : b1 ≠ [] := by
    intro h0
    subst h0
    have s3 := decodeStreams_stream l1 h1 d1 [] e1 0 0 #[] []
    simp [decodeStreams, Bits.ofBytesMSB] at s3
  obtain ⟨f, hf⟩ : ∃ f, (b1 ++ b2).length = f + 1 :=
    ⟨(b1 ++ b2).length - 1, by have := List.length_pos_iff.2 hne; simp; omega⟩
  rw [hf]
  simp [decodeStreams, Bits.ofBytesMSB]

end Compress.Proofs.Bzip2RoundTrip
