/-
C02 layer (b): the stream header (WBITS) and the meta-block header (ISLAST,
ISLASTEMPTY, MNIBBLES, MLEN, reserved bit, MSKIPBYTES, MSKIPLEN,
ISUNCOMPRESSED) of the brotli.Reader model are the specification's.

The specification reads a meta-block inside one recursive function; `specHdr`
is its header part and `readMetaBlocks_succ` splits the function into "header,
then body".  `hdr_sim` : the model's `readHdr` and `specHdr` agree.
-/
import Compress.Proofs.BrImplPrims
import Compress.Proofs.BitIONat

namespace Compress.Proofs.BrImpl
open Compress Compress.Brotli

/-! ### the monad laws of `Dec` (for re-association) -/

theorem dec_bind_assoc {α β γ : Type} (x : Dec α) (f : α → Dec β) (g : β → Dec γ) :
    (x >>= f) >>= g = x >>= fun a => f a >>= g := by
  funext s
  simp only [Dec_bind_apply]
  rcases x s with ⟨e | a, s1⟩ <;> rfl

theorem dec_pure_bind {α β : Type} (a : α) (f : α → Dec β) : (pure a >>= f) = f a := by
  funext s; rfl

theorem dec_bind_pure {α : Type} (x : Dec α) : (x >>= pure) = x := by
  funext s
  simp only [Dec_bind_apply]
  rcases x s with ⟨e | a, s1⟩ <;> rfl

theorem dec_bind_pure_unit (x : Dec Unit) : (x >>= fun _ => pure ()) = x := dec_bind_pure x

theorem dec_map_eq {α β : Type} (f : α → β) (x : Dec α) : (f <$> x) = x >>= fun a => pure (f a) := rfl

theorem dec_ite_bind {α β : Type} (c : Prop) [Decidable c] (x y : Dec α) (f : α → Dec β) :
    ((if c then x else y) >>= f) = if c then x >>= f else y >>= f := by
  split <;> rfl

theorem dec_corrupt_bind {α β : Type} (f : α → Dec β) : ((corrupt : Dec α) >>= f) = corrupt := by
  funext s; rfl

/-! ### the specification's meta-block, header and body -/

inductive MetaHdr where
  | lastEmpty
  | metadata (isLast : Bool) (skip : Nat)
  | data (isLast : Bool) (mlen : Nat) (uncompressed : Bool)
deriving DecidableEq

def specFlagIf (c : Bool) : Dec Bool := if c then readBit else pure false

def specSkipLen (mskipbytes : Nat) : Dec Nat :=
  if mskipbytes = 0 then pure 0 else (· + 1) <$> readLengthPieces 8 1 mskipbytes mskipbytes

/-- the header of a meta-block as `readMetaBlocks` reads it. -/
def specHdr : Dec MetaHdr := do
  let isLast ← readBit
  let isLastEmpty ← specFlagIf isLast
  if isLastEmpty then pure .lastEmpty
  else do
    let mnibbles ← readBits 2
    if mnibbles = 3 then do
      if (← readBit) then corrupt
      else do
        let mskipbytes ← readBits 2
        let mskiplen ← specSkipLen mskipbytes
        pure (.metadata isLast mskiplen)
    else do
      let mlen ← (· + 1) <$> readLengthPieces 4 4 (mnibbles + 4) (mnibbles + 4)
      let isUncompressed ← specFlagIf (!isLast)
      pure (.data isLast mlen isUncompressed)

/-- the compressed meta-block after its MLEN / ISUNCOMPRESSED: header and commands; the last distances. -/
def specCompressed (dict : ByteArray) (ws : Nat) (mlen : Nat) (ds : Dists) : Dec Dists := do
  let (litB, cmdB, distB, h) ← readCompressedHeader
  let c ← readCommands dict ws h (mlen + (← remainingBits) + 1)
    { mlen, litB, cmdB, distB, d1 := ds.d1, d2 := ds.d2, d3 := ds.d3, d4 := ds.d4 }
  pure { d1 := c.d1, d2 := c.d2, d3 := c.d3, d4 := c.d4 }

/-- what follows the header. -/
def specBody (dict : ByteArray) (ws : Nat) (k : Dists → Dec Unit) (ds : Dists) : MetaHdr → Dec Unit
  | .lastEmpty => alignToByte
  | .metadata isLast skip => do
    alignToByte
    skipBytes skip
    if isLast then pure () else k ds
  | .data _ mlen true => do
    alignToByte
    copyBytes mlen
    k ds
  | .data isLast mlen false => do
    let ds' ← specCompressed dict ws mlen ds
    if isLast then alignToByte else k ds'

theorem readMetaBlocks_succ (dict : ByteArray) (ws fuel : Nat) (ds : Dists) :
    readMetaBlocks dict ws (fuel+1) ds = specHdr >>= specBody dict ws (readMetaBlocks dict ws fuel) ds := by
  rw [readMetaBlocks]
  simp only [specHdr, specFlagIf, specSkipLen, dec_bind_assoc]
  congr 1; funext isLast
  cases isLast
  · -- not the last meta-block
    simp only [specCompressed, specBody, dec_bind_assoc, dec_pure_bind, dec_ite_bind, dec_corrupt_bind,
      dec_map_eq, Bool.false_eq_true, if_false, if_true, Bool.not_false, Bool.not_true]
    congr 1; funext mn
    by_cases h2 : mn = 3
    · simp only [h2, if_true]
    · simp only [h2, if_false]
      congr 1; funext pieces
      congr 1; funext unc
      cases unc <;> simp only [Bool.false_eq_true, if_false, if_true]
  · simp only [specCompressed, specBody, dec_bind_assoc, dec_pure_bind, dec_ite_bind, dec_corrupt_bind,
      dec_map_eq, Bool.false_eq_true, if_false, if_true, Bool.not_true]


/-! ### MLEN / MSKIPLEN: pieces, least significant first, the last one not zero -/

open Compress.Proofs.BitIO in
theorem toNat_take_add (l : Bits) (a b : Nat) (ha : a ≤ l.length) :
    Bits.toNat (l.take (a + b)) = Bits.toNat (l.take a) + 2 ^ a * Bits.toNat ((l.drop a).take b) := by
  rw [List.take_add, toNat_append, List.length_take, Nat.min_eq_left ha]

open Compress.Proofs.BitIO in
/-- the specification's `readLengthPieces` in closed form. -/
theorem specPieces_eq (w minP total : Nat) : ∀ (n : Nat) (st : St),
    (n * w ≤ st.bits.length →
      readLengthPieces w minP total n st =
        if 0 < n ∧ total > minP ∧ Bits.toNat ((st.bits.drop ((n - 1) * w)).take w) = 0 then
          (.error .corrupt, stAt st (n * w))
        else (.ok (Bits.toNat (st.bits.take (n * w))), stAt st (n * w))) ∧
    (st.bits.length < n * w →
      ∃ e st', readLengthPieces w minP total n st = (.error e, st') ∧ st'.out = st.out) := by
  intro n
  induction n with
  | zero =>
    intro st
    refine ⟨fun _ => ?_, fun h => by simp at h⟩
    simp only [readLengthPieces, Nat.zero_mul, List.take_zero, Bits.toNat, Nat.lt_irrefl, false_and, if_false,
      stAt_zero]
    rfl
  | succ n ih =>
    intro st
    have hdef : readLengthPieces w minP total (n+1) st =
        (match Brotli.readBits w st with
         | (.ok v, s1) =>
           if n = 0 ∧ total > minP ∧ v = 0 then (.error .corrupt, s1)
           else (match readLengthPieces w minP total n s1 with
             | (.ok rest, s2) => (.ok (v + 2 ^ w * rest), s2)
             | (.error e, s2) => (.error e, s2))
         | (.error e, s1) => (.error e, s1)) := by
      rw [readLengthPieces, Dec_bind_apply]
      rcases Brotli.readBits w st with ⟨e | v, s1⟩
      · rfl
      · dsimp only
        by_cases hc : n = 0 ∧ total > minP ∧ v = 0
        · simp only [if_pos hc]; rfl
        · simp only [if_neg hc, Dec_bind_apply]
          rcases readLengthPieces w minP total n s1 with ⟨e | r, s2⟩ <;> rfl
    constructor
    · intro h
      have hw : w ≤ st.bits.length := by
        have : w ≤ (n + 1) * w := Nat.le_mul_of_pos_left w (by omega)
        omega
      rw [hdef, (specReadBits_eq w st).1 hw]
      dsimp only
      have hn1 : (n + 1) * w = w + n * w := by rw [Nat.add_mul, Nat.one_mul, Nat.add_comm]
      by_cases hn : n = 0
      · subst hn
        simp only [Nat.zero_add, Nat.one_mul, Nat.sub_self, Nat.zero_mul, List.drop_zero, Nat.lt_one_iff, true_and,
          Nat.zero_lt_one]
        by_cases hc : total > minP ∧ Bits.toNat (st.bits.take w) = 0
        · rw [if_pos hc, if_pos hc]
        · rw [if_neg hc, if_neg hc]
          have h0 : readLengthPieces w minP total 0 (stAt st w) = (.ok 0, stAt st w) := rfl
          rw [h0]
          simp
      · rw [if_neg (by omega)]
        have hih := (ih (stAt st w)).1 (by simp only [stAt_bits, List.length_drop]; omega)
        rw [hih]
        have hdrop : (stAt st w).bits.drop ((n - 1) * w) = st.bits.drop ((n + 1 - 1) * w) := by
          simp only [stAt_bits, List.drop_drop, Nat.add_sub_cancel]
          congr 1
          have : n = (n - 1) + 1 := by omega
          conv => rhs; rw [this, Nat.add_mul, Nat.one_mul]
          omega
        rw [hdrop]
        by_cases hc : 0 < n ∧ total > minP ∧ Bits.toNat ((st.bits.drop ((n + 1 - 1) * w)).take w) = 0
        · rw [if_pos hc, if_pos ⟨by omega, hc.2⟩]
          simp only [stAt_stAt, hn1]
        · rw [if_neg hc, if_neg (fun h' => hc ⟨by omega, h'.2⟩)]
          simp only [stAt_stAt, hn1, stAt_bits]
          rw [toNat_take_add _ _ _ hw]
    · intro h
      rw [hdef]
      by_cases hw : w ≤ st.bits.length
      · rw [(specReadBits_eq w st).1 hw]
        dsimp only
        by_cases hc : n = 0 ∧ total > minP ∧ Bits.toNat (st.bits.take w) = 0
        · rw [if_pos hc]; exact ⟨_, _, rfl, rfl⟩
        · rw [if_neg hc]
          have hn1 : (n + 1) * w = w + n * w := by rw [Nat.add_mul, Nat.one_mul, Nat.add_comm]
          obtain ⟨e, st', h1, h2⟩ := (ih (stAt st w)).2 (by simp only [stAt_bits, List.length_drop]; omega)
          rw [h1]
          exact ⟨e, st', rfl, h2⟩
      · obtain ⟨st', h1, h2⟩ := (specReadBits_eq w st).2 (by omega)
        rw [h1]
        exact ⟨_, st', rfl, h2⟩


open Compress.Proofs.BitIO in
theorem top_piece (l : Bits) (n w : Nat) (hn : 0 < n) (h : n * w ≤ l.length) :
    Bits.toNat (l.take (n * w)) >>> ((n - 1) * w) = Bits.toNat ((l.drop ((n - 1) * w)).take w) := by
  have hsplit : n * w = (n - 1) * w + w := by
    have : n = (n - 1) + 1 := by omega
    conv => lhs; rw [this, Nat.add_mul, Nat.one_mul]
  have hle : (n - 1) * w ≤ (l.take (n * w)).length := by rw [List.length_take]; omega
  rw [Nat.shiftRight_eq_div_pow, ← (toNat_take_drop (l.take (n * w)) ((n - 1) * w) hle).2]
  congr 1
  rw [List.drop_take]
  congr 1; omega

/-- MLEN-1 / MSKIPLEN-1: the model reads all pieces at once and then looks at the top one. -/
theorem pieces_sim (w minP n : Nat) (hn : 0 < n) :
    Sim (do let v ← Impl.readBits (n * w)
            if n > minP ∧ v >>> ((n - 1) * w) = 0 then Impl.panic .corrupted else pure v)
      (readLengthPieces w minP n n) := by
  intro st
  by_cases h : st.bits.length < n * w
  · obtain ⟨e, st', h1, h2⟩ := (specPieces_eq w minP n n st).2 h
    have hx : (do let v ← Impl.readBits (n * w)
                  if n > minP ∧ v >>> ((n - 1) * w) = 0 then Impl.panic .corrupted else pure v : Impl.M Nat) (brOf st) =
        (.error .unexpectedEOF, brOf st) := by
      rw [M_bind_apply, implReadBits_eq, if_pos (by simpa using h)]
    simp only [SimAt, hx, h1]
    exact ⟨by decide, h2⟩
  · have hle : n * w ≤ st.bits.length := by omega
    have h1 := (specPieces_eq w minP n n st).1 hle
    have htop := top_piece st.bits n w hn hle
    by_cases hc : n > minP ∧ Bits.toNat ((st.bits.drop ((n - 1) * w)).take w) = 0
    · rw [if_pos ⟨hn, hc⟩] at h1
      have hx : (do let v ← Impl.readBits (n * w)
                    if n > minP ∧ v >>> ((n - 1) * w) = 0 then Impl.panic .corrupted else pure v : Impl.M Nat) (brOf st) =
          (.error .corrupted, brOf (stAt st (n * w))) := by
        rw [M_bind_apply, implReadBits_eq, if_neg (by simpa using h)]
        dsimp only [brOf_bits]
        rw [if_pos ⟨hc.1, by rw [htop]; exact hc.2⟩]; rfl
      simp only [SimAt, hx, h1]
      exact ⟨by decide, rfl⟩
    · rw [if_neg (fun h' => hc h'.2)] at h1
      have hx : (do let v ← Impl.readBits (n * w)
                    if n > minP ∧ v >>> ((n - 1) * w) = 0 then Impl.panic .corrupted else pure v : Impl.M Nat) (brOf st) =
          (.ok (Bits.toNat (st.bits.take (n * w))), brOf (stAt st (n * w))) := by
        rw [M_bind_apply, implReadBits_eq, if_neg (by simpa using h)]
        dsimp only [brOf_bits]
        rw [if_neg (fun h' => hc ⟨h'.1, by rw [← htop]; exact h'.2⟩)]; rfl
      simp only [SimAt, hx, h1]
      exact ⟨n * w, hle, rfl, rfl, trivial⟩

/-! ### the meta-block header -/

def HdrRel : Impl.Hdr → MetaHdr → Prop
  | .lastEmpty, .lastEmpty => True
  | .metadata l k, .metadata l' k' => l = l' ∧ k = k'
  | .data l n u, .data l' n' u' => l = l' ∧ n = n' ∧ u = u'
  | _, _ => False

theorem M_map_eq {α β : Type} (f : α → β) (x : Impl.M α) : (f <$> x) = x >>= fun a => pure (f a) := rfl

/-- a one-bit flag. -/
theorem flag_sim : Sim ((· == 1) <$> Impl.readBits 1) Brotli.readBit := by
  rw [M_map_eq, ← dec_bind_pure Brotli.readBit]
  exact SimRel.bind readBit_sim (fun a b h => SimRel.pure h)

theorem SimRel.ite' {α β : Type} {R : α → β → Prop} {c c' : Prop} [Decidable c] [Decidable c']
    {x1 x2 : Impl.M α} {y1 y2 : Dec β} (hc : c ↔ c') (h1 : c → SimRel R x1 y1) (h2 : ¬c → SimRel R x2 y2) :
    SimRel R (if c then x1 else x2) (if c' then y1 else y2) := by
  by_cases h : c
  · rw [if_pos h, if_pos (hc.mp h)]; exact h1 h
  · rw [if_neg h, if_neg (fun h' => h (hc.mpr h'))]; exact h2 h

theorem panic_corrupt_sim {α β : Type} {R : α → β → Prop} :
    SimRel R (Impl.panic .corrupted : Impl.M α) (Brotli.corrupt : Dec β) :=
  SimRel.fail (fun r => ⟨_, r, rfl, by decide⟩) (fun s => ⟨_, s, rfl, rfl⟩)

/-- **Layer (b), meta-block header.** ISLAST, ISLASTEMPTY, MNIBBLES, reserved bit, MSKIPBYTES,
    MSKIPLEN, MLEN, ISUNCOMPRESSED as the Go code reads and checks them = the specification. -/
theorem hdr_sim : SimRel HdrRel Impl.readHdr specHdr := by
  unfold Impl.readHdr specHdr
  refine SimRel.bind readBit_sim (fun a isLast hl => ?_)
  subst hl
  have hflag : ∀ c : Bool, Sim (Impl.readFlagIf c) (specFlagIf c) := by
    intro c
    unfold Impl.readFlagIf specFlagIf
    exact SimRel.ite (fun _ => flag_sim) (fun _ => SimRel.pure rfl)
  refine SimRel.bind (hflag _) (fun e e' he => ?_)
  subst he
  refine SimRel.ite (fun _ => SimRel.pure trivial) (fun _ => ?_)
  refine SimRel.bind (readBits_sim 2) (fun mn mn' hmn => ?_)
  subst hmn
  dsimp only
  refine SimRel.ite' (by omega) (fun h7 => ?_) (fun h7 => ?_)
  · -- metadata
    refine SimRel.bind readBit_sim (fun r r' hr => ?_)
    subst hr
    refine SimRel.ite (fun _ => panic_corrupt_sim) (fun _ => ?_)
    refine SimRel.bind (readBits_sim 2) (fun sb sb' hsb => ?_)
    subst hsb
    refine SimRel.bind (R := (· = ·)) ?_ (fun k k' hk => SimRel.pure ⟨rfl, hk⟩)
    unfold Impl.readSkipLen specSkipLen
    by_cases h0 : sb = 0
    · subst h0
      simp only [Nat.lt_irrefl, if_false, if_true]
      exact SimRel.pure rfl
    · rw [if_pos (by omega), if_neg h0, dec_map_eq]
      have hp := pieces_sim 8 1 sb (by omega)
      have : (do let v ← Impl.readBits (sb * 8)
                 if sb > 1 ∧ v >>> ((sb - 1) * 8) = 0 then Impl.panic .corrupted else pure (v + 1) : Impl.M Nat) =
          (do let v ← (do let v ← Impl.readBits (sb * 8)
                          if sb > 1 ∧ v >>> ((sb - 1) * 8) = 0 then Impl.panic .corrupted else pure v)
              pure (v + 1)) := by
        funext r
        simp only [M_bind_apply]
        rcases Impl.readBits (sb * 8) r with ⟨e | v, r'⟩
        · rfl
        · dsimp only
          by_cases hc : sb > 1 ∧ v >>> ((sb - 1) * 8) = 0
          · simp only [if_pos hc]; rfl
          · simp only [if_neg hc]; rfl
      rw [this]
      exact SimRel.bind hp (fun v v' hv => SimRel.pure (by rw [hv]))
  · -- MLEN
    have hp := pieces_sim 4 4 (mn + 4) (by omega)
    have : Impl.readMLen (mn + 4) =
        (do let v ← (do let v ← Impl.readBits ((mn + 4) * 4)
                        if mn + 4 > 4 ∧ v >>> ((mn + 4 - 1) * 4) = 0 then Impl.panic .corrupted else pure v)
            pure (v + 1)) := by
      unfold Impl.readMLen
      funext r
      simp only [M_bind_apply]
      rcases Impl.readBits ((mn + 4) * 4) r with ⟨e | v, r'⟩
      · rfl
      · dsimp only
        by_cases hc : mn + 4 > 4 ∧ v >>> ((mn + 4 - 1) * 4) = 0
        · simp only [if_pos hc]; rfl
        · simp only [if_neg hc]; rfl
    rw [this, dec_map_eq]
    refine SimRel.bind (R := (· = ·)) (SimRel.bind hp (fun v v' hv => SimRel.pure (by rw [hv]))) (fun v v' hv => ?_)
    subst hv
    exact SimRel.bind (hflag _) (fun u u' hu => SimRel.pure ⟨rfl, rfl, hu⟩)

end Compress.Proofs.BrImpl
