/-
`Reader.Seek` preserves the simulation invariant (C07).
-/
import Compress.XFlate.ReaderSpec
import Compress.Proofs.IndexSearch
import Compress.Proofs.XRIndex

namespace Compress.Proofs.XRSeek
open Compress.XFlate Compress.Proofs.XRIndex

/-! ### segment facts under `WellFormed` -/

section Seg
variable {L : Layout} {plain : List UInt8}

theorem seg_bounds (wf : WellFormed L plain) (j : Nat) (hj : j ≤ L.recs.length) :
    0 ≤ (getRecords L.recs j).1.raw ∧
    (getRecords L.recs j).1.raw ≤ (getRecords L.recs j).2.raw ∧
    (getRecords L.recs j).2.raw ≤ L.endRaw := by
  have hm := bnd_mono L.recs wf.sorted wf.rawNonneg
  have hn := bnd_nonneg L.recs wf.rawNonneg
  rw [gr_prev_raw _ _ hj]
  unfold Layout.endRaw
  rw [← bnd_len]
  rcases Nat.lt_or_eq_of_le hj with h | h
  · rw [gr_curr_raw_lt _ _ h]
    exact ⟨hn j hj, hm j (j+1) (by omega) (by omega), hm (j+1) _ (by omega) (Nat.le_refl _)⟩
  · subst h
    rw [gr_curr_raw_len]
    exact ⟨hn _ hj, Int.le_refl _, Int.le_refl _⟩

theorem seg_next (L : Layout) (j : Nat) (hj : j < L.recs.length) :
    (getRecords L.recs (j+1)).1.raw = (getRecords L.recs j).2.raw := by
  rw [gr_prev_raw _ _ (by omega), gr_curr_raw_lt _ _ hj]

theorem seg_tail (L : Layout) :
    (getRecords L.recs L.recs.length).1.raw = L.endRaw ∧
    (getRecords L.recs L.recs.length).2.raw = L.endRaw ∧
    (getRecords L.recs L.recs.length).2.typ = unknownType ∧
    (getRecords L.recs L.recs.length).2.comp = (getRecords L.recs L.recs.length).1.comp := by
  unfold Layout.endRaw
  rw [← bnd_len, gr_prev_raw _ _ (Nat.le_refl _), gr_curr_raw_len, gr_curr_typ_len, gr_curr_comp_len]
  simp

theorem seg_typ (wf : WellFormed L plain) (j : Nat) (hj : j < L.recs.length) :
    (getRecords L.recs j).2.typ ≠ unknownType :=
  wf.typed _ (gr_curr_mem _ _ hj)

end Seg

/-! ### `seek` in closed form -/

/-- the chunk descriptor of segment `j`. -/
def chkOf (L : Layout) (j : Nat) : Chunk :=
  ⟨(getRecords L.recs j).2.comp - (getRecords L.recs j).1.comp,
   (getRecords L.recs j).2.raw - (getRecords L.recs j).1.raw,
   (getRecords L.recs j).2.typ⟩

/-- the record index the slow path of `Seek` settles on. -/
def pickRi (L : Layout) (s : RState) (pos : Int) : Nat :=
  if ¬ ((getRecords L.recs s.ri).1.raw ≤ pos ∧
      (pos < (getRecords L.recs s.ri).2.raw ∨ pos = (getRecords L.recs s.ri).1.raw))
  then search L.recs pos else s.ri

/-- the state the slow path of `Seek` produces for index `ri`. -/
def slowState (L : Layout) (s : RState) (pos : Int) (ri : Nat) : RState :=
  { s with ri := min (ri + 1) L.recs.length, chk := chkOf L ri, offset := pos,
           discard := if pos > L.endRaw then L.endRaw - (getRecords L.recs ri).1.raw
                      else pos - (getRecords L.recs ri).1.raw,
           seg := min ri L.recs.length, zout := 0, err := none }

def fastCond (s : RState) (pos : Int) : Prop :=
  pos - s.offset > 0 ∧ s.chk.rsize - s.zout - s.discard > 0 ∧
    pos - s.offset < s.chk.rsize - s.zout - s.discard

instance (s : RState) (pos : Int) : Decidable (fastCond s pos) := by
  unfold fastCond; infer_instance

def seekTo (L : Layout) (s : RState) (pos : Int) : RState × Int × Option Err :=
  if fastCond s pos then
    ({ s with offset := pos, discard := s.discard + (pos - s.offset) }, pos, none)
  else (slowState L s pos (pickRi L s pos), pos, none)

theorem seek_eq (L : Layout) (s : RState) (off : Int) (wh : Nat)
    (herr : s.err = none ∨ s.err = some .eof) :
    seek .fixed L s off wh =
      match specSeek L.endRaw s.offset off wh with
      | none => (s, 0, some .invalid)
      | some pos => seekTo L s pos := by
  have h1 : ¬ (s.err ≠ none ∧ s.err ≠ some .eof) := by
    rcases herr with h | h <;> simp [h]
  unfold seek
  rw [if_neg h1]
  unfold specSeek seekTo slowState pickRi fastCond chkOf
  match wh with
  | 0 => by_cases hp : off < 0 <;> simp [hp]
  | 1 => by_cases hp : s.offset + off < 0 <;> simp [hp]
  | 2 => by_cases hp : L.endRaw + off < 0 <;> simp [hp]
  | _+3 => simp

/-! ### invariant preservation -/

section InvP
variable {L : Layout} {plain : List UInt8}

theorem chk_rsize_tail (L : Layout) : (chkOf L L.recs.length).rsize = 0 := by
  have := seg_tail L
  simp only [chkOf]; omega

theorem inv_fast (wf : WellFormed L plain) (s : RState) (inv : Inv L s) (pos : Int)
    (hf : fastCond s pos) :
    Inv L { s with offset := pos, discard := s.discard + (pos - s.offset) } ∧ s.err = none := by
  obtain ⟨segLe, riEq, chkEq, discNonneg, within, offNonneg, posEq, errOK, beyond⟩ := inv
  obtain ⟨f1, f2, f3⟩ := hf
  have hb := seg_bounds wf s.seg segLe
  have hrs : s.chk.rsize = (getRecords L.recs s.seg).2.raw - (getRecords L.recs s.seg).1.raw := by
    rw [chkEq]
  have htail : s.seg = L.recs.length → False := by
    intro h
    have := seg_tail L
    rw [← h] at this
    omega
  have hle : s.offset ≤ L.endRaw := by
    by_cases h : L.endRaw < s.offset
    · exact (htail (beyond h)).elim
    · omega
  have herr : s.err = none := by
    rcases errOK with h | ⟨_, h⟩
    · exact h
    · exact (htail h).elim
  refine ⟨⟨segLe, riEq, chkEq, ?_, ?_, ?_, ?_, errOK, ?_⟩, herr⟩
  · show 0 ≤ s.discard + (pos - s.offset); omega
  · show (s.zout : Int) + (s.discard + (pos - s.offset)) ≤ s.chk.rsize; omega
  · show 0 ≤ pos; omega
  · show min pos L.endRaw = (getRecords L.recs s.seg).1.raw + s.zout + (s.discard + (pos - s.offset))
    omega
  · show L.endRaw < pos → s.seg = L.recs.length
    intro h; omega

theorem inv_slow (wf : WellFormed L plain) (s : RState) (pos : Int) (idx : Nat)
    (hpos : 0 ≤ pos) (hidx : idx ≤ L.recs.length)
    (h1 : (getRecords L.recs idx).1.raw ≤ pos)
    (h2 : pos ≤ (getRecords L.recs idx).2.raw ∨ idx = L.recs.length) :
    Inv L (slowState L s pos idx) := by
  have hb := seg_bounds wf idx hidx
  have hmin : min idx L.recs.length = idx := by omega
  have ht := seg_tail L
  unfold slowState
  rw [hmin]
  refine ⟨hidx, rfl, rfl, ?_, ?_, hpos, ?_, Or.inl rfl, ?_⟩
  · show 0 ≤ (if pos > L.endRaw then L.endRaw - (getRecords L.recs idx).1.raw
              else pos - (getRecords L.recs idx).1.raw)
    split <;> omega
  · show ((0 : Nat) : Int) + (if pos > L.endRaw then L.endRaw - (getRecords L.recs idx).1.raw
              else pos - (getRecords L.recs idx).1.raw) ≤ (chkOf L idx).rsize
    simp only [chkOf]
    rcases h2 with h2 | h2
    · split <;> omega
    · subst h2; split <;> omega
  · show min pos L.endRaw = (getRecords L.recs idx).1.raw + ((0 : Nat) : Int) +
        (if pos > L.endRaw then L.endRaw - (getRecords L.recs idx).1.raw
              else pos - (getRecords L.recs idx).1.raw)
    split <;> omega
  · show L.endRaw < pos → idx = L.recs.length
    intro h
    rcases h2 with h2 | h2
    · omega
    · exact h2

theorem pickRi_ok (wf : WellFormed L plain) (s : RState) (hri : s.ri ≤ L.recs.length)
    (pos : Int) (hpos : 0 ≤ pos) :
    pickRi L s pos ≤ L.recs.length ∧
    (getRecords L.recs (pickRi L s pos)).1.raw ≤ pos ∧
    (pos ≤ (getRecords L.recs (pickRi L s pos)).2.raw ∨ pickRi L s pos = L.recs.length) := by
  unfold pickRi
  split
  · rw [Compress.Proofs.IndexSearch.search_eq_spec L.recs wf.sorted pos]
    have hle := searchSpec_le L.recs pos
    refine ⟨hle, ?_, ?_⟩
    · rw [gr_prev_raw _ _ hle]; exact searchSpec_lower L.recs wf.sorted pos hpos
    · rcases Nat.lt_or_eq_of_le hle with h | h
      · left
        rw [gr_curr_raw_lt _ _ h]
        exact Int.le_of_lt (searchSpec_upper L.recs wf.sorted pos h)
      · right; exact h
  · rename_i h
    have h : (getRecords L.recs s.ri).1.raw ≤ pos ∧
        (pos < (getRecords L.recs s.ri).2.raw ∨ pos = (getRecords L.recs s.ri).1.raw) :=
      Decidable.not_not.1 h
    have hb := seg_bounds wf s.ri hri
    exact ⟨hri, h.1, Or.inl (by omega)⟩

theorem inv_seekTo (wf : WellFormed L plain) (s : RState) (inv : Inv L s) (pos : Int)
    (hpos : 0 ≤ pos) :
    (seekTo L s pos).2.2 = none ∧ (seekTo L s pos).2.1 = pos ∧ (seekTo L s pos).1.offset = pos ∧
    Inv L (seekTo L s pos).1 ∧ (seekTo L s pos).1.err = none := by
  unfold seekTo
  split
  · rename_i hf
    have := inv_fast wf s inv pos hf
    exact ⟨rfl, rfl, rfl, this.1, this.2⟩
  · have hri : s.ri ≤ L.recs.length := by rw [inv.riEq]; omega
    obtain ⟨a, b, c⟩ := pickRi_ok wf s hri pos hpos
    exact ⟨rfl, rfl, rfl, inv_slow wf s pos _ hpos a b c, rfl⟩

end InvP

end Compress.Proofs.XRSeek
