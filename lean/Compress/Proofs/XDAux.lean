/-
Helpers for C12 (XFlateDurable): a transparent segment on its own decodes to its
data and then runs out of input; runs of operations split at an append; what a
`Flush` that returned nil leaves in the error field.
-/
import Compress.Proofs.XFlateStream

namespace Compress.Proofs.XDAux
open Compress Compress.XFlate Compress.Flate Compress.Proofs.XWLog Compress.Proofs.XWShape

/-- a run of complete non-final blocks and nothing else: the specification decodes
    all of it and then fails at the next block header with `unexpectedEOF`. -/
theorem decode_transp_eof (a d : List UInt8) (ht : Transp a d) :
    Flate.decode a = { out := d.toArray, verdict := .unexpectedEOF } := by
  obtain ⟨k, hk, t⟩ := ht
  unfold Flate.decode Flate.decodeBits
  have hl : (Bits.ofBytes a).length = 8 * a.length := Proofs.Meta.length_ofBytes a
  rw [hl]
  have e : 8 * a.length + 1 = (8 * a.length - k) + 1 + k := by omega
  have := t (8 * a.length) (8 * a.length - k + 1) #[] [] (by simp) (by simp)
  rw [List.append_nil] at this
  rw [e, this]
  simp [decodeBlocks, takeBits]

theorem runW_append (crc : List UInt8 → Nat) : ∀ (ops1 ops2 : List WOp) (s : XWState),
    runW crc s (ops1 ++ ops2) =
      ((runW crc (runW crc s ops1).1 ops2).1,
       (runW crc s ops1).2 ++ (runW crc (runW crc s ops1).1 ops2).2)
  | [], ops2, s => by simp [runW]
  | op :: ops1, ops2, s => by
    simp only [List.cons_append, runW]
    rw [runW_append crc ops1 ops2]

theorem runW_single (crc : List UInt8 → Nat) (s : XWState) (op : WOp) :
    runW crc s [op] = ((stepW crc s op).1, [(stepW crc s op).2]) := by
  simp [runW]

/-- a `Flush` that returned nil leaves no error behind. -/
theorem flush_err (crc : List UInt8 → Nat) (s : XWState) (m : Nat)
    (h : (flush crc s m).2 = none) : (flush crc s m).1.err = none := by
  unfold flush at h ⊢
  by_cases he : s.err ≠ none
  · rw [if_pos he] at h ⊢
    exact h
  · rw [if_neg he] at h ⊢
    split at h
    · exact h
    · exact h
    · exact h
    · cases h

/-- the last output of `ops ++ [flush m]` is the flush's result, the final state its state. -/
theorem run_flush_last (crc : List UInt8 → Nat) (s0 : XWState) (ops : List WOp) (m : Nat)
    (h : (runW crc s0 (ops ++ [.flush m])).2.getLast? = some (.flush none)) :
    (runW crc s0 (ops ++ [.flush m])).1.err = none := by
  rw [runW_append, runW_single] at h ⊢
  simp only [stepW, List.getLast?_append, List.getLast?_singleton, Option.some_or,
    Option.some.injEq, WOut.flush.injEq] at h
  exact flush_err crc _ m h

theorem run_flush_eq (crc : List UInt8 → Nat) (s0 : XWState) (ops : List WOp) (m : Nat) :
    runW crc s0 (ops ++ [.flush m]) =
      ((flush crc (runW crc s0 ops).1 m).1,
       (runW crc s0 ops).2 ++ [.flush (flush crc (runW crc s0 ops).1 m).2]) := by
  rw [runW_append, runW_single]
  rfl

theorem flush_of_err (crc : List UInt8 → Nat) (s : XWState) (m : Nat) (h : s.err ≠ none) :
    flush crc s m = (s, s.err) := by
  unfold flush; rw [if_pos h]

theorem bad_flush (crc : List UInt8 → Nat) (s : XWState) (m : Nat) (h : s.bad = true) :
    (flush crc s m).1.bad = true := by
  unfold flush
  split
  · exact h
  · split
    · exact bad_flushSync s h
    · exact bad_flushFull crc s h
    · exact bad_flushIndex crc s h
    · exact h

/-- decoding the sink of a state under the structural invariant, given that every
    closed group and the open group are transparent. -/
theorem inv_decode (crc : List UInt8 → Nat) (s : XWState) (rgs : List IG) (tr : List Grp)
    (hi : Inv crc s rgs tr)
    (hc : ∀ c ∈ closedOf s.zlog [] [], Transp c.1 c.2)
    (ho : Transp (openOf s.zlog [] []).1 (openOf s.zlog [] []).2) :
    Flate.decode s.sink.got = { out := (dataOf s.zlog).toArray, verdict := .unexpectedEOF } := by
  have hch : ∀ c ∈ chunksR rgs ++ tr, Transp c.1 c.2 := by
    intro c hm
    apply hc
    rw [hi.closed]
    exact List.mem_cons_of_mem _ hm
  have h1 := transp_groups crc rgs hi.wf (fun c hc => hch c (List.mem_append_left _ hc))
  have h2 := transp_chunks tr (fun c hc => hch c (List.mem_append_right _ hc))
  have h3 := transp_append (transp_append h1 h2) ho
  rw [hi.got, hi.data, cdata_append]
  exact decode_transp_eof _ _ h3

end Compress.Proofs.XDAux
