/-
C02 layer (d), code definitions, simple codes: `readSimplePrefixCode` of the Go-shaped model
(bit_reader.go) against section 3.4 of RFC 7932 in the specification.

The two programs read the same fields (NSYM-1, the symbols, the tree-select bit) but do not
check them at the same moment: the specification rejects a symbol outside the alphabet as it is
read and duplicates before tree-select, the model sorts the codes with a sorting network, compares
the largest symbol with the alphabet size and leaves duplicates to `prefixDecoder.Init`.
`simple_sim`: from every state both succeed at the same position with related codes, or both fail.
-/
import Compress.Proofs.BrImplPrims

namespace Compress.Proofs.BrImpl
open Compress Compress.Brotli Compress.Prefix

namespace Simple

/-! ### the symbols -/

theorem neededBits_eq (n : Nat) (h2 : 2 ≤ n) : Impl.neededBits n = bitWidth (n - 1) := by
  unfold Impl.neededBits bitWidth
  rw [if_neg (by omega), if_neg (by omega)]

/-- the `k` integers of `w` bits each at the head of `bits`. -/
def symsOf (w : Nat) : Nat → Bits → List Nat
  | 0, _ => []
  | k+1, bits => Bits.toNat (bits.take w) :: symsOf w k (bits.drop w)

theorem symsOf_length (w : Nat) : ∀ k bits, (symsOf w k bits).length = k
  | 0, _ => rfl
  | k+1, bits => by simp [symsOf, symsOf_length w k]

theorem implReadSyms_eq (w : Nat) : ∀ (k : Nat) (r : Impl.BR),
    (w * k ≤ r.bits.length → Impl.readSyms w k r =
      (.ok (symsOf w k r.bits), { bits := r.bits.drop (w * k), used := r.used + w * k })) ∧
    (r.bits.length < w * k → ∃ r', Impl.readSyms w k r = (.error .unexpectedEOF, r'))
  | 0, r => by
    refine ⟨fun _ => ?_, fun h => by omega⟩
    simp [Impl.readSyms, symsOf, M_pure_apply]
  | k+1, r => by
    have hdef : Impl.readSyms w (k+1) r =
        (Impl.readBits w >>= fun s => Impl.readSyms w k >>= fun rest => pure (s :: rest)) r := rfl
    rw [hdef, M_bind_apply, implReadBits_eq]
    by_cases hw : r.bits.length < w
    · rw [if_pos hw]
      refine ⟨fun h => ?_, fun _ => ⟨_, rfl⟩⟩
      rw [Nat.mul_succ] at h; have := Nat.zero_le (w * k); omega
    · rw [if_neg hw]
      dsimp only
      rw [M_bind_apply]
      have ih := implReadSyms_eq w k { bits := r.bits.drop w, used := r.used + w }
      dsimp only at ih
      rw [List.length_drop] at ih
      constructor
      · intro h
        rw [Nat.mul_succ] at h
        rw [ih.1 (by omega)]
        simp only [M_pure_apply, symsOf, List.drop_drop, Nat.mul_succ]
        congr 2
        · congr 1; omega
        · omega
      · intro h
        rw [Nat.mul_succ] at h
        obtain ⟨r', h1⟩ := ih.2 (by omega)
        rw [h1]
        exact ⟨_, rfl⟩

theorem specReadSymbols_eq (w n : Nat) : ∀ (k : Nat) (st : St),
    (w * k ≤ st.bits.length → (∀ s ∈ symsOf w k st.bits, s < n) →
      Brotli.readSymbols w n k st = (.ok (symsOf w k st.bits), stAt st (w * k))) ∧
    ((st.bits.length < w * k ∨ ∃ s ∈ symsOf w k st.bits, n ≤ s) →
      ∃ e st', Brotli.readSymbols w n k st = (.error e, st') ∧ st'.out = st.out)
  | 0, st => by
    refine ⟨fun _ _ => ?_, fun h => ?_⟩
    · simp [Brotli.readSymbols, symsOf, Dec_pure_apply, stAt_zero]
    · rcases h with h | ⟨s, hs, _⟩
      · omega
      · simp [symsOf] at hs
  | k+1, st => by
    have hdef : Brotli.readSymbols w n (k+1) st =
        (Brotli.readBits w >>= fun s => if s ≥ n then corrupt else
          Brotli.readSymbols w n k >>= fun rest => pure (s :: rest)) st := rfl
    rw [hdef, Dec_bind_apply]
    by_cases hw : st.bits.length < w
    · obtain ⟨st', h1, h2⟩ := (specReadBits_eq w st).2 hw
      rw [h1]
      refine ⟨fun h => ?_, fun _ => ⟨_, _, rfl, h2⟩⟩
      rw [Nat.mul_succ] at h; have := Nat.zero_le (w * k); omega
    · rw [(specReadBits_eq w st).1 (by omega)]
      dsimp only
      have ih := specReadSymbols_eq w n k (stAt st w)
      simp only [stAt_bits, List.length_drop, stAt_out] at ih
      by_cases hs : Bits.toNat (st.bits.take w) ≥ n
      · rw [if_pos hs]
        refine ⟨fun _ h => ?_, fun _ => ⟨_, _, rfl, rfl⟩⟩
        have := h (Bits.toNat (st.bits.take w)) (by simp [symsOf]); omega
      · rw [if_neg hs, Dec_bind_apply]
        constructor
        · intro h hall
          rw [Nat.mul_succ] at h
          rw [ih.1 (by omega) (fun s hs => hall s (by simp [symsOf, hs]))]
          simp only [Dec_pure_apply, symsOf, stAt_stAt, Nat.mul_succ]
          rw [Nat.add_comm]
        · intro h
          rw [Nat.mul_succ] at h
          have : (st.bits.length - w < w * k ∨ ∃ s ∈ symsOf w k (st.bits.drop w), n ≤ s) := by
            rcases h with h | ⟨s, hs', hn⟩
            · left; omega
            · simp only [symsOf, List.mem_cons] at hs'
              rcases hs' with rfl | hs'
              · omega
              · right; exact ⟨s, hs', hn⟩
          obtain ⟨e, st', h1, h2⟩ := ih.2 this
          rw [h1]
          exact ⟨_, _, rfl, h2⟩

/-- the symbols, then the rest: the two programs part ways after the symbols. -/
theorem syms_glue {α β : Type} {R : α → β → Prop} (w n k : Nat)
    (F : List Nat → Impl.M α) (G : List Nat → Dec β)
    (h1 : ∀ syms st1, syms.length = k → (∃ s ∈ syms, n ≤ s) →
      ∃ e r', F syms (brOf st1) = (.error e, r') ∧ e ≠ .eof)
    (h2 : ∀ syms st1, syms.length = k → (∀ s ∈ syms, s < n) → SimAt R (F syms) (G syms) st1) :
    SimRel R (Impl.readSyms w k >>= F) (Brotli.readSymbols w n k >>= G) := by
  intro st
  unfold SimAt
  rw [M_bind_apply, Dec_bind_apply]
  by_cases hlen : st.bits.length < w * k
  · obtain ⟨r', hx⟩ := (implReadSyms_eq w k (brOf st)).2 hlen
    obtain ⟨e, st', hy, ho⟩ := (specReadSymbols_eq w n k st).2 (Or.inl hlen)
    rw [hx, hy]
    exact ⟨by decide, ho⟩
  · have hx := (implReadSyms_eq w k (brOf st)).1 (by simpa using Nat.le_of_not_lt hlen)
    rw [hx]
    dsimp only [brOf_bits, brOf_used]
    have hbr : ({ bits := st.bits.drop (w * k), used := st.used + w * k } : Impl.BR) = brOf (stAt st (w * k)) := rfl
    rw [hbr]
    by_cases hall : ∀ s ∈ symsOf w k st.bits, s < n
    · rw [(specReadSymbols_eq w n k st).1 (by omega) hall]
      dsimp only
      have := h2 _ (stAt st (w * k)) (symsOf_length w k st.bits) hall
      unfold SimAt at this
      rcases hx1 : F (symsOf w k st.bits) (brOf (stAt st (w * k))) with ⟨e1 | a1, r1⟩ <;>
        rcases hy1 : G (symsOf w k st.bits) (stAt st (w * k)) with ⟨e1' | b1, st1⟩ <;>
        rw [hx1, hy1] at this <;> simp only at this ⊢
      · exact ⟨this.1, by rw [this.2]; rfl⟩
      · obtain ⟨k1, hk1, hr1, hs1, hR1⟩ := this
        refine ⟨w * k + k1, ?_, ?_, ?_, hR1⟩
        · simp only [stAt_bits, List.length_drop] at hk1; omega
        · rw [hr1, stAt_stAt]
        · rw [hs1, stAt_stAt]
    · have hex : ∃ s ∈ symsOf w k st.bits, n ≤ s := by
        apply Classical.byContradiction
        intro hc
        apply hall
        intro s hs
        apply Nat.lt_of_not_le
        intro hle
        exact hc ⟨s, hs, hle⟩
      obtain ⟨e, st', hy, ho⟩ := (specReadSymbols_eq w n k st).2 (Or.inr hex)
      obtain ⟨e1, r1, hx1, hne⟩ := h1 _ (stAt st (w * k)) (symsOf_length w k st.bits) hex
      rw [hy, hx1]
      exact ⟨hne, ho⟩

/-! ### the sorting networks -/

def cs2 (x y : Code) : Code × Code := if x.sym > y.sym then (y, x) else (x, y)

theorem cs2_fst_sym (x y : Code) : (cs2 x y).1.sym = min x.sym y.sym := by
  unfold cs2; split <;> simp <;> omega
theorem cs2_snd_sym (x y : Code) : (cs2 x y).2.sym = max x.sym y.sym := by
  unfold cs2; split <;> simp <;> omega

theorem cs2_perm_adj (x y : Code) (t : List Code) : ((cs2 x y).1 :: (cs2 x y).2 :: t).Perm (x :: y :: t) := by
  unfold cs2; split
  · exact List.Perm.swap _ _ _
  · exact List.Perm.refl _

theorem cs2_perm_gap (x y b : Code) (t : List Code) :
    ((cs2 x y).1 :: b :: (cs2 x y).2 :: t).Perm (x :: b :: y :: t) := by
  unfold cs2; split
  · exact ((List.Perm.swap _ _ _).trans ((List.Perm.swap _ _ _).cons _)).trans (List.Perm.swap _ _ _)
  · exact List.Perm.refl _

def sort2 (x0 x1 : Code) : List Code := [(cs2 x0 x1).1, (cs2 x0 x1).2]

def sort3 (x0 x1 x2 : Code) : List Code :=
  let p := cs2 x0 x1
  let r := cs2 p.1 x2
  let u := cs2 p.2 r.2
  [r.1, u.1, u.2]

def sort4 (x0 x1 x2 x3 : Code) : List Code :=
  let p := cs2 x0 x1
  let q := cs2 x2 x3
  let r := cs2 p.1 q.1
  let t := cs2 p.2 q.2
  let u := cs2 t.1 r.2
  [r.1, u.1, u.2, t.2]

theorem net2 (x0 x1 : Code) : Impl.compareSwap #[x0, x1] 0 1 = (sort2 x0 x1).toArray := by
  unfold Impl.compareSwap sort2 cs2
  simp
  split <;> simp

theorem cswap3_01 (x0 x1 x2 : Code) :
    Impl.compareSwap #[x0, x1, x2] 0 1 = #[(cs2 x0 x1).1, (cs2 x0 x1).2, x2] := by
  unfold Impl.compareSwap cs2; simp; split <;> simp
theorem cswap3_02 (x0 x1 x2 : Code) :
    Impl.compareSwap #[x0, x1, x2] 0 2 = #[(cs2 x0 x2).1, x1, (cs2 x0 x2).2] := by
  unfold Impl.compareSwap cs2; simp; split <;> simp
theorem cswap3_12 (x0 x1 x2 : Code) :
    Impl.compareSwap #[x0, x1, x2] 1 2 = #[x0, (cs2 x1 x2).1, (cs2 x1 x2).2] := by
  unfold Impl.compareSwap cs2; simp; split <;> simp

theorem net3 (x0 x1 x2 : Code) :
    Impl.compareSwap (Impl.compareSwap (Impl.compareSwap #[x0, x1, x2] 0 1) 0 2) 1 2 =
      (sort3 x0 x1 x2).toArray := by
  rw [cswap3_01, cswap3_02, cswap3_12]; rfl

theorem cswap4_01 (x0 x1 x2 x3 : Code) :
    Impl.compareSwap #[x0, x1, x2, x3] 0 1 = #[(cs2 x0 x1).1, (cs2 x0 x1).2, x2, x3] := by
  unfold Impl.compareSwap cs2; simp; split <;> simp
theorem cswap4_23 (x0 x1 x2 x3 : Code) :
    Impl.compareSwap #[x0, x1, x2, x3] 2 3 = #[x0, x1, (cs2 x2 x3).1, (cs2 x2 x3).2] := by
  unfold Impl.compareSwap cs2; simp; split <;> simp
theorem cswap4_02 (x0 x1 x2 x3 : Code) :
    Impl.compareSwap #[x0, x1, x2, x3] 0 2 = #[(cs2 x0 x2).1, x1, (cs2 x0 x2).2, x3] := by
  unfold Impl.compareSwap cs2; simp; split <;> simp
theorem cswap4_13 (x0 x1 x2 x3 : Code) :
    Impl.compareSwap #[x0, x1, x2, x3] 1 3 = #[x0, (cs2 x1 x3).1, x2, (cs2 x1 x3).2] := by
  unfold Impl.compareSwap cs2; simp; split <;> simp
theorem cswap4_12 (x0 x1 x2 x3 : Code) :
    Impl.compareSwap #[x0, x1, x2, x3] 1 2 = #[x0, (cs2 x1 x2).1, (cs2 x1 x2).2, x3] := by
  unfold Impl.compareSwap cs2; simp; split <;> simp

theorem net4 (x0 x1 x2 x3 : Code) :
    Impl.compareSwap (Impl.compareSwap (Impl.compareSwap (Impl.compareSwap
      (Impl.compareSwap #[x0, x1, x2, x3] 0 1) 2 3) 0 2) 1 3) 1 2 = (sort4 x0 x1 x2 x3).toArray := by
  rw [cswap4_01, cswap4_23, cswap4_02, cswap4_13, cswap4_12]; rfl

abbrev SymSorted (l : List Code) : Prop := l.Pairwise (fun a b => a.sym ≤ b.sym)

theorem sort2_perm (x0 x1 : Code) : (sort2 x0 x1).Perm [x0, x1] := cs2_perm_adj _ _ _
theorem sort2_sorted (x0 x1 : Code) : SymSorted (sort2 x0 x1) := by
  simp only [SymSorted, sort2, List.pairwise_cons, List.mem_cons, List.not_mem_nil, or_false, forall_eq,
    cs2_fst_sym, cs2_snd_sym, List.Pairwise.nil, and_true, false_imp_iff, implies_true]
  omega

theorem sort3_perm (x0 x1 x2 : Code) : (sort3 x0 x1 x2).Perm [x0, x1, x2] := by
  unfold sort3
  exact (((cs2_perm_adj _ _ _).cons _).trans (cs2_perm_gap _ _ _ _)).trans (cs2_perm_adj _ _ _)
theorem sort3_sorted (x0 x1 x2 : Code) : SymSorted (sort3 x0 x1 x2) := by
  simp only [SymSorted, sort3, List.pairwise_cons, List.mem_cons, List.not_mem_nil, or_false, forall_eq_or_imp,
    forall_eq, cs2_fst_sym, cs2_snd_sym, List.Pairwise.nil, and_true, false_imp_iff, implies_true]
  omega

theorem sort4_perm (x0 x1 x2 x3 : Code) : (sort4 x0 x1 x2 x3).Perm [x0, x1, x2, x3] := by
  unfold sort4
  refine (((cs2_perm_adj _ _ _).cons _)).trans ?_
  refine ((cs2_perm_gap _ _ _ _).cons _).trans ?_
  refine (cs2_perm_gap _ _ _ _).trans ?_
  refine (((cs2_perm_adj _ _ _).cons _).cons _).trans ?_
  exact cs2_perm_adj _ _ _
theorem sort4_sorted (x0 x1 x2 x3 : Code) : SymSorted (sort4 x0 x1 x2 x3) := by
  simp only [SymSorted, sort4, List.pairwise_cons, List.mem_cons, List.not_mem_nil, or_false, forall_eq_or_imp,
    forall_eq, cs2_fst_sym, cs2_snd_sym, List.Pairwise.nil, and_true, false_imp_iff, implies_true]
  omega

/-! ### lists of codes up to order -/


theorem symsIncreasing_iff : ∀ l : List Code,
    symsIncreasing l = true ↔ l.Pairwise (fun a b => a.sym < b.sym)
  | [] => by simp [symsIncreasing]
  | [_] => by simp [symsIncreasing]
  | a :: b :: rest => by
    have ih := symsIncreasing_iff (b :: rest)
    rw [symsIncreasing, Bool.and_eq_true, decide_eq_true_eq, ih, List.pairwise_cons (a := a)]
    constructor
    · rintro ⟨h1, h2⟩
      refine ⟨fun x hx => ?_, h2⟩
      rcases List.mem_cons.1 hx with rfl | hx
      · exact h1
      · exact Nat.lt_trans h1 ((List.pairwise_cons.1 h2).1 x hx)
    · rintro ⟨h1, h2⟩
      exact ⟨h1 b (by simp), h2⟩

theorem symsIncreasing_of_sorted_nodup {l : List Code} (hs : SymSorted l) (hn : (l.map (·.sym)).Nodup) :
    symsIncreasing l = true := by
  rw [symsIncreasing_iff]
  rw [List.Nodup, List.pairwise_map] at hn
  exact (hs.and hn).imp fun ⟨h1, h2⟩ => by omega

theorem nodup_of_symsIncreasing {l : List Code} (h : symsIncreasing l = true) : (l.map (·.sym)).Nodup := by
  rw [symsIncreasing_iff] at h
  rw [List.Nodup, List.pairwise_map]
  exact h.imp fun h => by omega

theorem lensArr_perm (n : Nat) {l₁ l₂ : List Code} (hp : l₁.Perm l₂) (hn : (l₁.map (·.sym)).Nodup) :
    lensArr n l₁ = lensArr n l₂ := by
  unfold lensArr
  apply hp.foldl_eq'
  intro x hx y hy z
  by_cases hxy : x = y
  · subst hxy; rfl
  · have hne : x.sym ≠ y.sym := by
      rw [List.Nodup, List.pairwise_map, List.pairwise_iff_getElem] at hn
      obtain ⟨i, hi, rfl⟩ := List.getElem_of_mem hx
      obtain ⟨j, hj, rfl⟩ := List.getElem_of_mem hy
      rcases Nat.lt_trichotomy i j with h | h | h
      · exact hn i j hi hj h
      · subst h; exact absurd rfl hxy
      · exact fun he => hn j i hj hi h he.symm
    apply Array.ext_getElem?
    intro i
    simp only [Array.getElem?_setIfInBounds, Array.size_setIfInBounds]
    by_cases h1 : x.sym = i <;> by_cases h2 : y.sym = i
    · omega
    · simp [h1, h2]
    · simp [h1, h2]
    · simp [h1, h2]

theorem kraft15_perm {l₁ l₂ : List Code} (hp : l₁.Perm l₂) : kraft15 l₁ = kraft15 l₂ := by
  unfold kraft15
  exact (hp.map _).sum_nat

theorem core (hI : InitTreeRel) (hF : InitFails) (n : Nat) (h704 : n ≤ 704)
    (input sorted : List Code) (h2 : 2 ≤ input.length)
    (hperm : sorted.Perm input) (hsorted : SymSorted sorted)
    (hl : ∀ c ∈ input, 1 ≤ c.len ∧ c.len ≤ 15) (hk : kraft15 input = 2 ^ 15) :
    ((∃ c ∈ input, n ≤ c.sym) → n ≤ (sorted.toArray.getD (input.length - 1) default).sym) ∧
    ((∀ c ∈ input, c.sym < n) → (sorted.toArray.getD (input.length - 1) default).sym < n ∧
      (¬ (input.map (·.sym)).Nodup → ∃ e, Impl.initDecoder sorted true = .error e ∧ e ≠ .eof) ∧
      ((input.map (·.sym)).Nodup → ∃ d, Impl.initDecoder sorted true = .ok d ∧
          CodeRel n d (PrefixCode.ofLengths (lensArr n input)))) := by
  have hlen : sorted.length = input.length := hperm.length_eq
  have hidx : input.length - 1 < sorted.length := by omega
  have hlast : sorted.toArray.getD (input.length - 1) default = sorted[input.length - 1] := by
    simp [Array.getD, hidx]
  rw [hlast]
  have hmax : ∀ c ∈ sorted, c.sym ≤ (sorted[input.length - 1]).sym := by
    intro c hc
    obtain ⟨i, hi, rfl⟩ := List.getElem_of_mem hc
    by_cases h : i = input.length - 1
    · subst h; exact Nat.le_refl _
    · exact (List.pairwise_iff_getElem.1 hsorted) i (input.length - 1) hi hidx (by omega)
  have hmem : sorted[input.length - 1] ∈ sorted := List.getElem_mem _
  have hnd : (sorted.map (·.sym)).Nodup ↔ (input.map (·.sym)).Nodup := (hperm.map _).nodup_iff
  have hl' : ∀ c ∈ sorted, 1 ≤ c.len ∧ c.len ≤ 15 := fun c hc => hl c (hperm.mem_iff.1 hc)
  refine ⟨?_, fun hall => ⟨?_, ?_, ?_⟩⟩
  · rintro ⟨c, hc, hn⟩
    exact Nat.le_trans hn (hmax c (hperm.mem_iff.2 hc))
  · exact hall _ (hperm.mem_iff.1 hmem)
  · intro hdup
    refine hF sorted (by omega) hl' (Or.inl ?_)
    cases hs : symsIncreasing sorted with
    | false => rfl
    | true => exact absurd (hnd.1 (nodup_of_symsIncreasing hs)) hdup
  · intro hn
    have hn' := hnd.2 hn
    obtain ⟨d, hd, hrel⟩ := hI sorted n (by omega) (by omega)
      (symsIncreasing_of_sorted_nodup hsorted hn')
      (fun c hc => ⟨hall c (hperm.mem_iff.1 hc), hl' c hc⟩) (by rw [kraft15_perm hperm]; exact hk)
    refine ⟨d, hd, ?_⟩
    rw [← lensArr_perm n hperm hn']
    exact hrel

/-! ### one symbol -/

theorem implReadSymbol_single (s : Nat) (r : Impl.BR) :
    Impl.readSymbol { chunks := #[s * 32], numSyms := 1 } r = (.ok s, r) := by
  simp [Impl.readSymbol, Decoder.lookup, Array.getD, Nat.mod_one]

theorem specReadSymbol_single (s : Nat) (st : St) :
    Brotli.readSymbol (PrefixCode.single s) st = (.ok s, st) := by
  simp [Brotli.readSymbol, PrefixCode.single, Dec_pure_apply, Array.getD]

theorem codeRel_single (n s : Nat) (hs : s < n) :
    CodeRel n { chunks := #[s * 32], numSyms := 1 } (PrefixCode.single s) := by
  constructor
  · intro st
    simp only [SimAt, implReadSymbol_single, specReadSymbol_single]
    exact ⟨0, Nat.zero_le _, by rw [stAt_zero], by rw [stAt_zero], trivial⟩
  · intro st st' s' h
    rw [specReadSymbol_single] at h
    cases h
    exact hs

/-! ### the two programs after the symbols -/

def mkCodes (syms lens : List Nat) : Array Code :=
  ((syms.zip lens).map fun (s, l) => ({ sym := s, len := l } : Code)).toArray

/-- the model after the symbols. -/
def implTail (n nsym : Nat) (syms : List Nat) : Impl.M Decoder := do
  let codes : Array Code ←
    match nsym with
    | 1 => pure (mkCodes syms [0])
    | 2 => pure (Impl.compareSwap (mkCodes syms [1, 1]) 0 1)
    | 3 => pure (Impl.compareSwap (Impl.compareSwap (Impl.compareSwap (mkCodes syms [1, 2, 2]) 0 1) 0 2) 1 2)
    | _ => do
      let tsel ← Impl.readBits 1
      let a := mkCodes syms (if tsel = 1 then [1, 2, 3, 3] else [2, 2, 2, 2])
      pure (Impl.compareSwap (Impl.compareSwap (Impl.compareSwap (Impl.compareSwap (Impl.compareSwap a 0 1) 2 3) 0 2) 1 3) 1 2)
  if (codes.getD (nsym - 1) default).sym ≥ n then Impl.panic .corrupted
  else Impl.liftE (Impl.initDecoder codes.toList true)

theorem impl_decomp (n : Nat) : Impl.readSimplePrefixCode n =
    Impl.readBits 2 >>= fun v => Impl.readSyms (Impl.neededBits n) (v + 1) >>= implTail n (v + 1) := rfl

/-- the specification after the symbols. -/
def specTail (n nsym : Nat) (syms : List Nat) : Dec PrefixCode :=
  if !syms.Nodup then corrupt
  else do
    let lens : List Nat ←
      match nsym with
      | 1 => pure [0]
      | 2 => pure [1, 1]
      | 3 => pure [1, 2, 2]
      | _ => do
        let treeSelect ← readBit
        pure (if treeSelect then [1, 2, 3, 3] else [2, 2, 2, 2])
    match syms with
    | [s] => pure (PrefixCode.single s)
    | _ =>
      pure (PrefixCode.ofLengths
        ((syms.zip lens).foldl (fun a (s, l) => a.setIfInBounds s l) (Array.replicate n 0)))

theorem spec_decomp (n : Nat) : Brotli.readSimplePrefixCode n =
    Brotli.readBits 2 >>= fun v => Brotli.readSymbols (bitWidth (n - 1)) n (v + 1) >>= specTail n (v + 1) := rfl

def implFin (n k : Nat) (codes : Array Code) : Impl.M Decoder :=
  if (codes.getD (k - 1) default).sym ≥ n then Impl.panic .corrupted
  else Impl.liftE (Impl.initDecoder codes.toList true)

theorem fin_sim (hI : InitTreeRel) (hF : InitFails) (n : Nat) (h704 : n ≤ 704)
    (input sorted : List Code) (h2 : 2 ≤ input.length)
    (hperm : sorted.Perm input) (hsorted : SymSorted sorted)
    (hl : ∀ c ∈ input, 1 ≤ c.len ∧ c.len ≤ 15) (hk : kraft15 input = 2 ^ 15) :
    ((∃ c ∈ input, n ≤ c.sym) → ∀ r, ∃ e r', implFin n input.length sorted.toArray r = (.error e, r') ∧ e ≠ .eof) ∧
    ((∀ c ∈ input, c.sym < n) →
      (¬ (input.map (·.sym)).Nodup →
        ∀ r, ∃ e r', implFin n input.length sorted.toArray r = (.error e, r') ∧ e ≠ .eof) ∧
      ((input.map (·.sym)).Nodup →
        SimRel (CodeRel n) (implFin n input.length sorted.toArray)
          (pure (PrefixCode.ofLengths (lensArr n input))))) := by
  obtain ⟨c1, c2⟩ := core hI hF n h704 input sorted h2 hperm hsorted hl hk
  refine ⟨fun hex r => ?_, fun hall => ?_⟩
  · refine ⟨.corrupted, r, ?_, by decide⟩
    unfold implFin
    rw [if_pos (c1 hex)]; rfl
  · obtain ⟨d1, d2, d3⟩ := c2 hall
    have hfin : implFin n input.length sorted.toArray = Impl.liftE (Impl.initDecoder sorted true) := by
      unfold implFin
      rw [if_neg (by omega)]
    refine ⟨fun hdup r => ?_, fun hn => ?_⟩
    · obtain ⟨e, he, hne⟩ := d2 hdup
      refine ⟨e, r, ?_, hne⟩
      rw [hfin, he]; rfl
    · obtain ⟨d, hd, hrel⟩ := d3 hn
      rw [hfin, hd]
      exact SimRel.pure hrel

/-! ### the tails -/

theorem simAt_fail {α β : Type} {R : α → β → Prop} {x : Impl.M α} {y : Dec β} {st : St}
    (hx : ∃ e r', x (brOf st) = (.error e, r') ∧ e ≠ .eof)
    (hy : ∃ e st', y st = (.error e, st') ∧ st'.out = st.out) : SimAt R x y st := by
  obtain ⟨e, r', h1, h2⟩ := hx
  obtain ⟨e', s', h3, h4⟩ := hy
  simp only [SimAt, h1, h3]
  exact ⟨h2, h4⟩

theorem corrupt_apply {α : Type} (st : St) : (corrupt : Dec α) st = (.error .corrupt, st) := rfl

/-- one symbol. -/
theorem tail1 (n s : Nat) (st1 : St) :
    (n ≤ s → ∃ e r', implTail n 1 [s] (brOf st1) = (.error e, r') ∧ e ≠ .eof) ∧
    (s < n → SimAt (CodeRel n) (implTail n 1 [s]) (specTail n 1 [s]) st1) := by
  have hx : implTail n 1 [s] = implFin n 1 #[{ sym := s, len := 0 }] := rfl
  have hy : specTail n 1 [s] = pure (PrefixCode.single s) := by
    unfold specTail; simp; rfl
  constructor
  · intro h
    refine ⟨.corrupted, brOf st1, ?_, by decide⟩
    rw [hx]; unfold implFin
    rw [if_pos (by simpa using h)]; rfl
  · intro h
    have : implFin n 1 #[{ sym := s, len := 0 }] = pure { chunks := #[s * 32], numSyms := 1 } := by
      unfold implFin
      rw [if_neg (by simpa using h)]; rfl
    rw [hx, hy, this]
    exact SimRel.pure (codeRel_single n s h) st1

/-- the end of the two programs on the codes `input` (in order of appearance) sorted into `sorted`. -/
theorem tail_fin (hI : InitTreeRel) (hF : InitFails) (n : Nat) (h704 : n ≤ 704)
    (input sorted : List Code) (h2 : 2 ≤ input.length)
    (hperm : sorted.Perm input) (hsorted : SymSorted sorted)
    (hl : ∀ c ∈ input, 1 ≤ c.len ∧ c.len ≤ 15) (hk : kraft15 input = 2 ^ 15) (st1 : St) :
    ((∃ s ∈ input.map (·.sym), n ≤ s) →
      ∃ e r', implFin n input.length sorted.toArray (brOf st1) = (.error e, r') ∧ e ≠ .eof) ∧
    ((∀ s ∈ input.map (·.sym), s < n) →
      SimAt (CodeRel n) (implFin n input.length sorted.toArray)
        (if !(input.map (·.sym)).Nodup then corrupt
         else pure (PrefixCode.ofLengths (lensArr n input))) st1) := by
  obtain ⟨f1, f2⟩ := fin_sim hI hF n h704 input sorted h2 hperm hsorted hl hk
  constructor
  · rintro ⟨s, hs, hn⟩
    obtain ⟨c, hc, rfl⟩ := List.mem_map.1 hs
    exact f1 ⟨c, hc, hn⟩ _
  · intro hall
    obtain ⟨g1, g2⟩ := f2 fun c hc => hall _ (List.mem_map.2 ⟨c, hc, rfl⟩)
    by_cases hn : (input.map (·.sym)).Nodup
    · simp only [hn, decide_true, Bool.not_true, Bool.false_eq_true, if_false]
      exact g2 hn st1
    · simp only [hn, decide_false, Bool.not_false, if_true]
      exact simAt_fail (g1 hn _) ⟨_, _, corrupt_apply st1, rfl⟩

theorem tail2 (hI : InitTreeRel) (hF : InitFails) (n : Nat) (h704 : n ≤ 704) (a b : Nat) (st1 : St) :
    ((∃ s ∈ [a, b], n ≤ s) → ∃ e r', implTail n 2 [a, b] (brOf st1) = (.error e, r') ∧ e ≠ .eof) ∧
    ((∀ s ∈ [a, b], s < n) → SimAt (CodeRel n) (implTail n 2 [a, b]) (specTail n 2 [a, b]) st1) := by
  have hx : implTail n 2 [a, b] = implFin n 2 (sort2 { sym := a, len := 1 } { sym := b, len := 1 }).toArray := by
    rw [← net2]; rfl
  have hy : specTail n 2 [a, b] = (if ![a, b].Nodup then corrupt
      else pure (PrefixCode.ofLengths (lensArr n [{ sym := a, len := 1 }, { sym := b, len := 1 }]))) := rfl
  rw [hx, hy]
  exact tail_fin hI hF n h704 [{ sym := a, len := 1 }, { sym := b, len := 1 }] _ (by simp)
    (sort2_perm _ _) (sort2_sorted _ _) (by simp) (by simp [kraft15]) st1

theorem tail3 (hI : InitTreeRel) (hF : InitFails) (n : Nat) (h704 : n ≤ 704) (a b c : Nat) (st1 : St) :
    ((∃ s ∈ [a, b, c], n ≤ s) → ∃ e r', implTail n 3 [a, b, c] (brOf st1) = (.error e, r') ∧ e ≠ .eof) ∧
    ((∀ s ∈ [a, b, c], s < n) → SimAt (CodeRel n) (implTail n 3 [a, b, c]) (specTail n 3 [a, b, c]) st1) := by
  have hx : implTail n 3 [a, b, c] =
      implFin n 3 (sort3 { sym := a, len := 1 } { sym := b, len := 2 } { sym := c, len := 2 }).toArray := by
    rw [← net3]; rfl
  have hy : specTail n 3 [a, b, c] = (if ![a, b, c].Nodup then corrupt
      else pure (PrefixCode.ofLengths
        (lensArr n [{ sym := a, len := 1 }, { sym := b, len := 2 }, { sym := c, len := 2 }]))) := rfl
  rw [hx, hy]
  exact tail_fin hI hF n h704 [{ sym := a, len := 1 }, { sym := b, len := 2 }, { sym := c, len := 2 }] _ (by simp)
    (sort3_perm _ _ _) (sort3_sorted _ _ _) (by simp) (by simp [kraft15]) st1

theorem fin_sim' (hI : InitTreeRel) (hF : InitFails) (n : Nat) (h704 : n ≤ 704)
    (input sorted : List Code) (h2 : 2 ≤ input.length)
    (hperm : sorted.Perm input) (hsorted : SymSorted sorted)
    (hl : ∀ c ∈ input, 1 ≤ c.len ∧ c.len ≤ 15) (hk : kraft15 input = 2 ^ 15) :
    ((∃ s ∈ input.map (·.sym), n ≤ s) →
      ∀ r, ∃ e r', implFin n input.length sorted.toArray r = (.error e, r') ∧ e ≠ .eof) ∧
    ((∀ s ∈ input.map (·.sym), s < n) →
      (¬ (input.map (·.sym)).Nodup →
        ∀ r, ∃ e r', implFin n input.length sorted.toArray r = (.error e, r') ∧ e ≠ .eof) ∧
      ((input.map (·.sym)).Nodup →
        SimRel (CodeRel n) (implFin n input.length sorted.toArray)
          (pure (PrefixCode.ofLengths (lensArr n input))))) := by
  obtain ⟨f1, f2⟩ := fin_sim hI hF n h704 input sorted h2 hperm hsorted hl hk
  constructor
  · rintro ⟨s, hs, hn⟩
    obtain ⟨c, hc, rfl⟩ := List.mem_map.1 hs
    exact f1 ⟨c, hc, hn⟩
  · intro hall
    exact f2 fun c hc => hall _ (List.mem_map.2 ⟨c, hc, rfl⟩)

/-- the codes of four symbols in order of appearance. -/
def in4 (a b c d : Nat) (t : Bool) : List Code :=
  if t then [{ sym := a, len := 1 }, { sym := b, len := 2 }, { sym := c, len := 3 }, { sym := d, len := 3 }]
  else [{ sym := a, len := 2 }, { sym := b, len := 2 }, { sym := c, len := 2 }, { sym := d, len := 2 }]

/-- and sorted by the network. -/
def srt4 (a b c d : Nat) (t : Bool) : List Code :=
  if t then sort4 { sym := a, len := 1 } { sym := b, len := 2 } { sym := c, len := 3 } { sym := d, len := 3 }
  else sort4 { sym := a, len := 2 } { sym := b, len := 2 } { sym := c, len := 2 } { sym := d, len := 2 }

theorem fin4 (hI : InitTreeRel) (hF : InitFails) (n : Nat) (h704 : n ≤ 704) (a b c d : Nat) (t : Bool) :
    ((∃ s ∈ [a, b, c, d], n ≤ s) →
      ∀ r, ∃ e r', implFin n 4 (srt4 a b c d t).toArray r = (.error e, r') ∧ e ≠ .eof) ∧
    ((∀ s ∈ [a, b, c, d], s < n) →
      (¬ [a, b, c, d].Nodup →
        ∀ r, ∃ e r', implFin n 4 (srt4 a b c d t).toArray r = (.error e, r') ∧ e ≠ .eof) ∧
      ([a, b, c, d].Nodup →
        SimRel (CodeRel n) (implFin n 4 (srt4 a b c d t).toArray)
          (pure (PrefixCode.ofLengths (lensArr n (in4 a b c d t)))))) := by
  cases t
  · exact fin_sim' hI hF n h704 (in4 a b c d false) (srt4 a b c d false) (by simp [in4])
      (sort4_perm _ _ _ _) (sort4_sorted _ _ _ _) (by simp [in4]) (by simp [kraft15, in4])
  · exact fin_sim' hI hF n h704 (in4 a b c d true) (srt4 a b c d true) (by simp [in4])
      (sort4_perm _ _ _ _) (sort4_sorted _ _ _ _) (by simp [in4]) (by simp [kraft15, in4])

theorem implReadBits1_fail {α : Type} (f : Nat → Impl.M α)
    (hf : ∀ v r, ∃ e r', f v r = (.error e, r') ∧ e ≠ .eof) (r : Impl.BR) :
    ∃ e r', (Impl.readBits 1 >>= f) r = (.error e, r') ∧ e ≠ .eof := by
  rw [M_bind_apply, implReadBits_eq]
  by_cases h : r.bits.length < 1
  · rw [if_pos h]
    exact ⟨_, _, rfl, by decide⟩
  · rw [if_neg h]
    exact hf _ _

theorem tail4 (hI : InitTreeRel) (hF : InitFails) (n : Nat) (h704 : n ≤ 704) (a b c d : Nat) (st1 : St) :
    ((∃ s ∈ [a, b, c, d], n ≤ s) →
      ∃ e r', implTail n 4 [a, b, c, d] (brOf st1) = (.error e, r') ∧ e ≠ .eof) ∧
    ((∀ s ∈ [a, b, c, d], s < n) →
      SimAt (CodeRel n) (implTail n 4 [a, b, c, d]) (specTail n 4 [a, b, c, d]) st1) := by
  have hnet : ∀ tsel : Nat,
      Impl.compareSwap (Impl.compareSwap (Impl.compareSwap (Impl.compareSwap (Impl.compareSwap
        (mkCodes [a, b, c, d] (if tsel = 1 then [1, 2, 3, 3] else [2, 2, 2, 2])) 0 1) 2 3) 0 2) 1 3) 1 2 =
      (srt4 a b c d (tsel == 1)).toArray := by
    intro tsel
    by_cases h : tsel = 1
    · simp only [h, if_true, beq_self_eq_true, srt4]
      rw [← net4]; rfl
    · simp only [h, if_false, beq_eq_false_iff_ne.2 h, srt4, Bool.false_eq_true]
      rw [← net4]; rfl
  have hx : implTail n 4 [a, b, c, d] =
      Impl.readBits 1 >>= fun tsel => implFin n 4 (srt4 a b c d (tsel == 1)).toArray := by
    have : implTail n 4 [a, b, c, d] = Impl.readBits 1 >>= fun tsel => implFin n 4
        (Impl.compareSwap (Impl.compareSwap (Impl.compareSwap (Impl.compareSwap (Impl.compareSwap
          (mkCodes [a, b, c, d] (if tsel = 1 then [1, 2, 3, 3] else [2, 2, 2, 2])) 0 1) 2 3) 0 2) 1 3) 1 2) := rfl
    rw [this]
    simp only [hnet]
  have hlens : ∀ t : Bool,
      (([a, b, c, d].zip (if t then [1, 2, 3, 3] else [2, 2, 2, 2])).foldl
        (fun (arr : Array Nat) (x : Nat × Nat) => arr.setIfInBounds x.1 x.2) (Array.replicate n 0)) =
      lensArr n (in4 a b c d t) := by
    intro t; cases t <;> rfl
  have hy : specTail n 4 [a, b, c, d] = (if ![a, b, c, d].Nodup then corrupt
      else readBit >>= fun t => pure (PrefixCode.ofLengths (lensArr n (in4 a b c d t)))) := by
    have : specTail n 4 [a, b, c, d] = (if ![a, b, c, d].Nodup then corrupt
      else readBit >>= fun t => pure (PrefixCode.ofLengths
        (([a, b, c, d].zip (if t then [1, 2, 3, 3] else [2, 2, 2, 2])).foldl
          (fun (arr : Array Nat) (x : Nat × Nat) => arr.setIfInBounds x.1 x.2) (Array.replicate n 0)))) := rfl
    rw [this]
    simp only [hlens]
  rw [hx, hy]
  constructor
  · intro hex
    exact implReadBits1_fail _ (fun v r => (fin4 hI hF n h704 a b c d (v == 1)).1 hex r) _
  · intro hall
    by_cases hn : [a, b, c, d].Nodup
    · simp only [hn, decide_true, Bool.not_true, Bool.false_eq_true, if_false]
      refine SimRel.bind readBit_sim (fun v t hvt => ?_) st1
      rw [hvt]
      exact ((fin4 hI hF n h704 a b c d t).2 hall).2 hn
    · simp only [hn, decide_false, Bool.not_false, if_true]
      exact simAt_fail
        (implReadBits1_fail _ (fun v r => ((fin4 hI hF n h704 a b c d (v == 1)).2 hall).1 hn r) _)
        ⟨_, _, corrupt_apply st1, rfl⟩

/-- NSYM - 1 in two bits. -/
theorem readBits2_sim : SimRel (fun (a b : Nat) => a = b ∧ a < 4) (Impl.readBits 2) (Brotli.readBits 2) := by
  intro st
  by_cases h : st.bits.length < 2
  · obtain ⟨st', h1, h2⟩ := (specReadBits_eq 2 st).2 h
    have hx : Impl.readBits 2 (brOf st) = (.error .unexpectedEOF, brOf st) := by
      rw [implReadBits_eq, if_pos (by simpa using h)]
    simp only [SimAt, hx, h1]
    exact ⟨by decide, h2⟩
  · have h1 := (specReadBits_eq 2 st).1 (by omega)
    have hx : Impl.readBits 2 (brOf st) = (.ok (Bits.toNat (st.bits.take 2)), brOf (stAt st 2)) := by
      rw [implReadBits_eq, if_neg (by simpa using h)]; rfl
    simp only [SimAt, hx, h1]
    refine ⟨2, by omega, rfl, rfl, trivial, ?_⟩
    rcases hb : st.bits with _ | ⟨x, _ | ⟨y, rest⟩⟩
    · simp [hb] at h
    · simp [hb] at h
    · cases x <;> cases y <;> simp [Bits.toNat]

end Simple
open Simple

/-- **simple prefix codes**: `readSimplePrefixCode` of the model = section 3.4 of the specification. -/
theorem simple_sim (hI : InitTreeRel) (hF : InitFails) (n : Nat) (h2 : 2 ≤ n) (h704 : n ≤ 704) :
    SimRel (CodeRel n) (Impl.readSimplePrefixCode n) (Brotli.readSimplePrefixCode n) := by
  rw [impl_decomp, spec_decomp, neededBits_eq n h2]
  refine SimRel.bind readBits2_sim ?_
  rintro v _ ⟨rfl, hv⟩
  apply syms_glue
  · intro syms st1 hlen hex
    rcases syms with _ | ⟨a, _ | ⟨b, _ | ⟨c, _ | ⟨d, _ | ⟨e, rest⟩⟩⟩⟩⟩ <;>
      simp only [List.length_nil, List.length_cons] at hlen
    · omega
    · obtain rfl : v = 0 := by omega
      exact (tail1 n a st1).1 (by simpa using hex)
    · obtain rfl : v = 1 := by omega
      exact (tail2 hI hF n h704 a b st1).1 hex
    · obtain rfl : v = 2 := by omega
      exact (tail3 hI hF n h704 a b c st1).1 hex
    · obtain rfl : v = 3 := by omega
      exact (tail4 hI hF n h704 a b c d st1).1 hex
    · omega
  · intro syms st1 hlen hall
    rcases syms with _ | ⟨a, _ | ⟨b, _ | ⟨c, _ | ⟨d, _ | ⟨e, rest⟩⟩⟩⟩⟩ <;>
      simp only [List.length_nil, List.length_cons] at hlen
    · omega
    · obtain rfl : v = 0 := by omega
      exact (tail1 n a st1).2 (by simpa using hall)
    · obtain rfl : v = 1 := by omega
      exact (tail2 hI hF n h704 a b st1).2 hall
    · obtain rfl : v = 2 := by omega
      exact (tail3 hI hF n h704 a b c st1).2 hall
    · obtain rfl : v = 3 := by omega
      exact (tail4 hI hF n h704 a b c d st1).2 hall
    · omega

end Compress.Proofs.BrImpl
