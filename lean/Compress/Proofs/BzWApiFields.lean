/-
The field-by-field encoders of `Bzip2/WriterApi.lean` produce the same bits as
the pure encoders of `Bzip2/Writer.lean`.
-/
import Compress.Bzip2.WriterApi

namespace Compress.Proofs.BzWApi
open Compress Compress.Bzip2 Compress.Prefix

/-! ### `flat` -/

theorem flat_nil : flat [] = [] := rfl

theorem flat_cons (f : Field) (fs : List Field) : flat (f :: fs) = f.1 ++ flat fs := by
  simp [flat]

theorem flat_append (a b : List Field) : flat (a ++ b) = flat a ++ flat b := by
  simp [flat]

theorem flat_flatten (L : List (List Field)) : flat L.flatten = (L.map flat).flatten := by
  induction L with
  | nil => rfl
  | cons a L ih => simp [flat_append, ih]

theorem flat_replicate (n : Nat) (b : Bits) (k : FKind) :
    flat (List.replicate n (b, k)) = (List.replicate n b).flatten := by
  simp [flat]

theorem flat_map_mk {α : Type} (l : List α) (g : α → Bits) (k : FKind) :
    flat (l.map fun i => (g i, k)) = (l.map g).flatten := by
  simp [flat, Function.comp_def]

theorem flat_pushF (b : Bits) : flat (pushF b) = b := by
  simp [flat, pushF]

theorem flat_pushF64 (b : Bits) : flat (pushF64 b) = b := by
  simp [flat, pushF64]

/-! ### the encoders -/

theorem flat_lensFields_go (lens : List Nat) (cur : Nat) :
    flat (lensFields.go lens cur) = lensBits.go lens cur := by
  induction lens generalizing cur with
  | nil => rfl
  | cons l rest ih =>
    simp only [lensFields.go, lensBits.go, flat_append, flat_replicate, ih, flat_cons, flat_nil,
      List.append_nil]

theorem flat_lensFields (lens : List Nat) : flat (lensFields lens) = lensBits lens := by
  simp only [lensFields, lensBits, flat_cons, flat_lensFields_go]

theorem flat_symMapF (used : List UInt8) : flat (symMapF used) = symMapBits used := by
  simp only [symMapF, symMapBits, flat_cons, List.flatMap_def]
  congr 1
  exact flat_map_mk _ _ _

theorem flat_encodePrefixF (syms : List Nat) (n : Nat) :
    (encodePrefixF syms n).map flat = encodePrefix syms n := by
  simp only [encodePrefixF, encodePrefix]
  generalize (List.mapM (m := Option) _ _ : Option (List (List Nat))) = lensOpt
  cases lensOpt with
  | none => rfl
  | some allLens =>
    have e : List.map (flat ∘ lensFields) allLens = List.map lensBits allLens :=
      List.map_congr_left fun l _ => flat_lensFields l
    simp only [Option.map_some, flat_append, flat_pushF, flat_flatten, List.map_map, flat_map_mk, e]

theorem flat_encodeBlockF (vals : List UInt8) (crc : Nat) :
    (encodeBlockF vals crc).map flat = encodeBlock vals crc := by
  simp only [encodeBlockF, encodeBlock]
  rw [← flat_encodePrefixF]
  cases encodePrefixF _ _ with
  | none => rfl
  | some pb =>
    simp only [Option.map_some, flat_append, flat_pushF, flat_pushF64, flat_symMapF]

theorem flat_hdrFields (level : Nat) :
    flat (hdrFields level) = bitsBE hdrMagic 16 ++ bitsBE 0x68 8 ++ bitsBE (0x30 + level) 8 := by
  simp only [hdrFields, flat_append, flat_pushF]

theorem flat_footFields (c : Nat) :
    flat (footFields c) = bitsBE endMagic 48 ++ bitsBE c 32 := by
  simp only [footFields, flat_append, flat_pushF, flat_pushF64, flat_cons, flat_nil, List.append_nil]

/-! ### no pads before the footer -/

def NoPad (fs : List Field) : Prop := ∀ f ∈ fs, f.2 ≠ FKind.pad

theorem noPad_nil : NoPad [] := by intro f h; cases h

theorem noPad_append {a b : List Field} (ha : NoPad a) (hb : NoPad b) : NoPad (a ++ b) := by
  intro f h
  rcases List.mem_append.1 h with h | h
  · exact ha f h
  · exact hb f h

theorem noPad_pushF (b : Bits) : NoPad (pushF b) := by
  intro f h
  simp [pushF] at h
  subst h
  simp

theorem noPad_pushF64 (b : Bits) : NoPad (pushF64 b) := by
  intro f h
  simp [pushF64] at h
  rcases h with h | h <;> subst h <;> simp

theorem noPad_lensFields_go (lens : List Nat) (cur : Nat) : NoPad (lensFields.go lens cur) := by
  induction lens generalizing cur with
  | nil => exact noPad_nil
  | cons l rest ih =>
    intro f h
    simp only [lensFields.go, List.mem_append, List.mem_replicate, List.mem_singleton] at h
    rcases h with ((h | h) | h) | h
    · rw [h.2]; simp
    · rw [h.2]; simp
    · rw [h]; simp
    · exact ih l f h

theorem noPad_lensFields (lens : List Nat) : NoPad (lensFields lens) := by
  intro f h
  simp only [lensFields, List.mem_cons] at h
  rcases h with h | h
  · rw [h]; simp
  · exact noPad_lensFields_go _ _ f h

theorem noPad_symMapF (used : List UInt8) : NoPad (symMapF used) := by
  intro f h
  simp only [symMapF, List.mem_cons, List.mem_map] at h
  rcases h with h | ⟨i, _, h⟩
  · rw [h]; simp
  · rw [← h]; simp

theorem noPad_encodePrefixF (syms : List Nat) (n : Nat) (fs : List Field)
    (h : encodePrefixF syms n = some fs) : NoPad fs := by
  simp only [encodePrefixF] at h
  split at h
  · cases h
  · rename_i allLens _
    simp only [Option.some.injEq] at h
    subst h
    refine noPad_append (noPad_append (noPad_append (noPad_append (noPad_pushF _) (noPad_pushF _)) ?_) ?_) ?_
    · intro f hf
      simp only [List.mem_map] at hf
      obtain ⟨i, _, hf⟩ := hf
      rw [← hf]; simp
    · intro f hf
      simp only [List.mem_flatten, List.mem_map] at hf
      obtain ⟨l, ⟨a, _, ha⟩, hf⟩ := hf
      subst ha
      exact noPad_lensFields a f hf
    · intro f hf
      simp only [List.mem_map] at hf
      obtain ⟨i, _, hf⟩ := hf
      rw [← hf]; simp

theorem noPad_encodeBlockF (vals : List UInt8) (crc : Nat) (fs : List Field)
    (h : encodeBlockF vals crc = some fs) : ∀ f ∈ fs, f.2 ≠ FKind.pad := by
  simp only [encodeBlockF] at h
  split at h
  · cases h
  · rename_i pb hpb
    simp only [Option.some.injEq] at h
    subst h
    exact noPad_append (noPad_append (noPad_append (noPad_append (noPad_append (noPad_pushF64 _)
      (noPad_pushF _)) (noPad_pushF _)) (noPad_pushF _)) (noPad_symMapF _))
      (noPad_encodePrefixF _ _ _ hpb)

theorem noPad_hdrFields (level : Nat) : ∀ f ∈ hdrFields level, f.2 ≠ FKind.pad :=
  noPad_append (noPad_append (noPad_pushF _) (noPad_pushF _)) (noPad_pushF _)

/-- the footer: pad-free fields, then the single `WritePads(0)`. -/
def footBody (c : Nat) : List Field := pushF64 (bitsBE endMagic 48) ++ pushF (bitsBE c 32)

theorem footFields_eq (c : Nat) : footFields c = footBody c ++ [([], FKind.pad)] := rfl

theorem noPad_footBody (c : Nat) : ∀ f ∈ footBody c, f.2 ≠ FKind.pad :=
  noPad_append (noPad_pushF64 _) (noPad_pushF _)

theorem flat_footBody (c : Nat) : flat (footBody c) = bitsBE endMagic 48 ++ bitsBE c 32 := by
  simp only [footBody, flat_append, flat_pushF, flat_pushF64]

end Compress.Proofs.BzWApi
