/-
ReverseSearch loop specification (C16 / M4).
-/
import Compress.Meta.Codec

namespace Compress.Proofs.MetaLoc
open Compress Compress.Meta

/-- the 4-byte little-endian window at `i`, zero-extended past the end (what the
    `ReverseSearch` loop holds in `magic` when it stands at index `i`). -/
def window (data : List UInt8) (i : Nat) : Nat :=
  (data.getD i 0).toNat + (data.getD (i + 1) 0).toNat * 2 ^ 8 +
  (data.getD (i + 2) 0).toNat * 2 ^ 16 + (data.getD (i + 3) 0).toNat * 2 ^ 24

def magicAt (data : List UInt8) (i : Nat) : Bool := window data i &&& magicMask == magicVals

theorem getD_append_add (p s : List UInt8) (j : Nat) :
    (p ++ s).getD (p.length + j) 0 = s.getD j 0 := by
  simp [List.getD_eq_getElem?_getD, List.getElem?_append_right]

theorem window_append (p s : List UInt8) (j : Nat) :
    window (p ++ s) (p.length + j) = window s j := by
  unfold window
  rw [Nat.add_assoc p.length j 1, Nat.add_assoc p.length j 2, Nat.add_assoc p.length j 3]
  simp only [getD_append_add]

theorem window_cons_step (b : UInt8) (s : List UInt8) :
    (window s 0 * 256 + b.toNat) % 2 ^ 32 = window (b :: s) 0 := by
  unfold window
  simp only [List.getD_eq_getElem?_getD, List.getElem?_cons_zero, List.getElem?_cons_succ, Nat.zero_add,
    Option.getD_some]
  have h0 := UInt8.toNat_lt b
  have h1 := UInt8.toNat_lt (s[0]?.getD 0)
  have h2 := UInt8.toNat_lt (s[1]?.getD 0)
  have h3 := UInt8.toNat_lt (s[2]?.getD 0)
  have h4 := UInt8.toNat_lt (s[3]?.getD 0)
  simp only [Nat.reducePow] at *
  omega

theorem go_cons (b : UInt8) (rest : List UInt8) (i m : Nat) :
    reverseSearch.go (b :: rest) i m =
      if ((m * 256 + b.toNat) % 2 ^ 32) &&& magicMask = magicVals then (i : Int)
      else reverseSearch.go rest (i - 1) ((m * 256 + b.toNat) % 2 ^ 32) := rfl

theorem go_spec : ∀ (rp s : List UInt8),
    (∀ i, rp.length ≤ i → i < rp.length + s.length → magicAt (rp.reverse ++ s) i = false) →
    (reverseSearch.go rp (rp.length - 1) (window s 0) = -1 ∧
      ∀ i, i < rp.length + s.length → magicAt (rp.reverse ++ s) i = false) ∨
    (∃ k : Nat, reverseSearch.go rp (rp.length - 1) (window s 0) = (k : Int) ∧ k < rp.length ∧
      magicAt (rp.reverse ++ s) k = true ∧
      ∀ i, k < i → i < rp.length + s.length → magicAt (rp.reverse ++ s) i = false)
  | [], s, hs => by
    left
    refine ⟨rfl, ?_⟩
    intro i hi
    exact hs i (by simp) hi
  | b :: rest, s, hs => by
    have hdata : (b :: rest).reverse ++ s = rest.reverse ++ (b :: s) := by simp
    have hw : window (rest.reverse ++ (b :: s)) rest.length = window (b :: s) 0 := by
      have := window_append rest.reverse (b :: s) 0
      simpa using this
    rw [hdata] at hs ⊢
    simp only [List.length_cons, Nat.add_sub_cancel]
    rw [go_cons, window_cons_step]
    by_cases hit : window (b :: s) 0 &&& magicMask = magicVals
    · rw [if_pos hit]
      right
      refine ⟨rest.length, rfl, by omega, ?_, ?_⟩
      · simp only [magicAt, hw, hit, beq_self_eq_true]
      · intro i h1 h2
        exact hs i (by simp only [List.length_cons]; omega) (by simpa using h2)
    · rw [if_neg hit]
      have ih := go_spec rest (b :: s) (by
        intro i h1 h2
        by_cases hi : i = rest.length
        · subst hi
          simp only [magicAt, hw]
          simpa using hit
        · exact hs i (by simp only [List.length_cons]; omega)
            (by simp only [List.length_cons] at h2 ⊢; omega))
      rcases ih with ⟨e, hall⟩ | ⟨k, e, hk, hm, hall⟩
      · left
        refine ⟨e, ?_⟩
        intro i hi
        exact hall i (by simp only [List.length_cons] at hi ⊢; omega)
      · right
        refine ⟨k, e, by omega, hm, ?_⟩
        intro i h1 h2
        exact hall i h1 (by simp only [List.length_cons] at h2 ⊢; omega)

theorem reverseSearch_spec (data : List UInt8) :
    (reverseSearch data = -1 ∧ ∀ i, i < data.length → magicAt data i = false) ∨
    (∃ k : Nat, reverseSearch data = (k : Int) ∧ k < data.length ∧ magicAt data k = true ∧
       ∀ i, k < i → i < data.length → magicAt data i = false) := by
  have h := go_spec data.reverse [] (by intro i h1 h2; simp at h1 h2; omega)
  have hw : window [] 0 = 0 := by simp [window]
  simp only [List.reverse_reverse, List.append_nil, List.length_reverse, List.length_nil, Nat.add_zero, hw] at h
  exact h

end Compress.Proofs.MetaLoc
