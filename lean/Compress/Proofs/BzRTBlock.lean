/-
bzip2 round trip: one block.  `readBlock` applied to what `encodeBlock` wrote
(after the block magic) returns the RLE1-encoded block bytes and the checksum.
-/
import Compress.Proofs.BzRTPrefix
import Compress.Proofs.BzRTSymMap
import Compress.Proofs.BzRTSplit
import Compress.Proofs.Bzip2Stages
import Compress.Proofs.Bzip2BWT

namespace Compress.Proofs.BzRT
open Compress Compress.Bzip2 Compress.Prefix

theorem encodeBlock_total (vals : List UInt8) (crc : Nat) : ∃ bb, encodeBlock vals crc = some bb := by
  unfold encodeBlock
  simp only []
  obtain ⟨pb, hpb⟩ := encodePrefix_total
    (mtfEncode (usedDict vals) (bwtSpec vals).1 0 []) (usedDict vals).length (usedDict_length_le vals)
  unfold usedDict at hpb
  rw [hpb]
  exact ⟨_, rfl⟩

theorem readBlock_encodeBlock (level : Nat) (hl : 1 ≤ level ∧ level ≤ 9) (vals : List UInt8)
    (hv : vals ≠ []) (hlen : vals.length ≤ level * blockSize) (crc : Nat) (hcrc : crc < 2 ^ 32)
    (bb : Bits) (h : encodeBlock vals crc = some bb) (rest : Bits) :
    ∃ tl, bb = bitsBE blkMagic 48 ++ tl ∧
      readBlock level (tl ++ rest) = .ok (vals.toArray, crc, rest) := by
  unfold encodeBlock at h
  simp only [] at h
  change (match encodePrefix (mtfEncode (usedDict vals) (bwtSpec vals).1 0 []) (usedDict vals).length with
    | none => none
    | some pb => some (bitsBE blkMagic 48 ++ bitsBE crc 32 ++ [false] ++ bitsBE (bwtSpec vals).2 24 ++
        symMapBits (usedDict vals) ++ pb)) = some bb at h
  obtain ⟨hlast, hptr, hperm⟩ := Bzip2BWT.bwtSpec_shape vals hv
  generalize hL : (bwtSpec vals).1 = last at h hlast hperm
  generalize hP : (bwtSpec vals).2 = ptr at h hptr
  have hblk : level * blockSize ≤ 900000 := by
    show level * 100000 ≤ 900000
    omega
  have hvl : 0 < vals.length := List.length_pos_iff.2 hv
  -- dictionary facts
  have hdmem : ∀ v ∈ last, v ∈ usedDict vals := fun v hv' =>
    (mem_usedDict vals v).2 (hperm.mem_iff.1 hv')
  have hdpos : 1 ≤ (usedDict vals).length := by
    obtain ⟨v, hv'⟩ := List.exists_mem_of_ne_nil vals hv
    exact List.length_pos_of_mem ((mem_usedDict vals v).2 hv')
  have hdle := usedDict_length_le vals
  cases hp : encodePrefix (mtfEncode (usedDict vals) last 0 []) (usedDict vals).length with
  | none => rw [hp] at h; cases h
  | some pb =>
    rw [hp] at h
    simp only [Option.some.injEq] at h
    have hslen : (mtfEncode (usedDict vals) last 0 []).length ≤ vals.length := by
      rw [← hlast]; exact mtfEncode_length_le _ _
    obtain ⟨numTrees, numSels, selsM, tabs, b5, b6, b7, b8, hT2, hT6, r1, r2, r3, r4, r5⟩ :=
      prefix_read (mtfEncode (usedDict vals) last 0 []) (usedDict vals).length (level * blockSize)
        ⟨hdpos, hdle⟩ (Bzip2Stages.mtf_syms_in_range _ _ hdmem) (by omega) (by omega) pb hp rest
    have hmtf := Bzip2Stages.mtf_roundtrip (usedDict vals) last (level * blockSize)
      (usedDict_nodup vals) hdmem (by omega) (by omega)
    have hbwt : bwtDecode last.toArray ptr = vals.toArray := by
      rw [← hL, ← hP]; exact Bzip2BWT.bwt_inverse vals hv
    refine ⟨bitsBE crc 32 ++ [false] ++ bitsBE ptr 24 ++ symMapBits (usedDict vals) ++ pb, ?_, ?_⟩
    · rw [← h]; simp only [List.append_assoc]
    · unfold readBlock
      simp only [List.append_assoc]
      rw [readBE_bitsBE crc 32 hcrc]
      simp only [Option.elim, bind, Except.bind]
      have hrnd : readBE 1 ([false] ++ (bitsBE ptr 24 ++ (symMapBits (usedDict vals) ++ (pb ++ rest))))
          = some (0, bitsBE ptr 24 ++ (symMapBits (usedDict vals) ++ (pb ++ rest))) :=
        readBE_append [false] _
      rw [hrnd]
      simp only [ne_eq, not_true_eq_false, if_false]
      rw [readBE_bitsBE ptr 24 (by omega)]
      simp only []
      rw [readSymMap_symMapBits]
      simp only []
      rw [if_neg (by omega), r1]
      simp only []
      rw [if_neg (by omega), r2]
      simp only []
      rw [r3]
      simp only []
      rw [r4]
      simp only []
      rw [r5]
      simp only []
      rw [hmtf]
      simp only [List.size_toArray]
      rw [if_neg (by omega), hbwt]
      rfl

end Compress.Proofs.BzRT
