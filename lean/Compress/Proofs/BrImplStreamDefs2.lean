/-
C02 stream level: the relation at meta-block boundaries with the two facts the
command loop needs in addition (`RelZ`), and the interface of compressed
meta-blocks stated with it.
* `zeros`: while the window has not wrapped, the buffer is zero from the write
  cursor on (`LastBytes()` reads there at the start of the stream);
* `dinv`: the last distances exceed the largest distance allowed so far by at
  most 16 (a command then cannot be free of input and output at once);
* `ws2`: the window has at least two bytes (`LastBytes()` indexes `len-2`).
-/
import Compress.Proofs.BrImplCmdBase

namespace Compress.Proofs.BrImpl
open Compress Compress.Brotli Compress.Brotli.Impl Compress.Window Compress.Proofs.Window

structure RelZ (ws : Nat) (s : State) (st : St) (ds : Dists) (del : List UInt8) : Prop
    extends Rel ws s st ds del where
  zeros : Zeros s.dict
  dinv : ds.d1 ≤ min st.out.size ws + 16 ∧ ds.d2 ≤ min st.out.size ws + 16 ∧
    ds.d3 ≤ min st.out.size ws + 16 ∧ ds.d4 ≤ min st.out.size ws + 16
  ws2 : 2 ≤ ws

/-- `CompressedSimOn` with the stronger relation on both sides. -/
def CompressedSimOnZ (sd : ByteArray) (G : St → Prop) : Prop :=
  ∀ (ws : Nat) (s1 : State) (st1 : St) (ds : Dists) (del : List UInt8) (mlen : Nat), G st1 →
    RelZ ws s1 st1 ds del → s1.blkLen = (mlen : Int) → 1 ≤ mlen → mlen ≤ 2 ^ 24 →
    ((fin (readPrefixCodes s1)).err = none →
      (fin (readPrefixCodes s1)).rd.bits.length ≤ s1.rd.bits.length) ∧
    match specCompressed sd ws mlen ds st1 with
    | (.ok ds', st') =>
      ∃ X s', Run sd (fin (readPrefixCodes s1)) X s' ∧ RelZ ws s' st' ds' (del ++ X) ∧
        s'.step = .blockHeader ∧ s'.last = s1.last ∧ st'.bits.length ≤ st1.bits.length
    | (.error _, st') =>
      ∃ X e, Trace sd (fin (readPrefixCodes s1)) X e ∧ e ≠ .eof ∧ Agree (del ++ X) st'.out.toList

/-- compressed meta-blocks simulated wherever they occur. -/
def CompressedSimZ (sd : ByteArray) : Prop := CompressedSimOnZ sd (fun _ => True)

end Compress.Proofs.BrImpl
