/-
Stage lemmas (b)/(c) of the bzip2 refinement: the bit-reader primitives, the symbol map and the
delta-coded code lengths of the model parse exactly as the specification's.
-/
import Compress.Proofs.BzImplDefs
import Compress.Proofs.BzRTSymMap
import Compress.Proofs.BzCutSymMap

namespace Compress.Proofs.BzImpl
open Compress Compress.Bzip2 Compress.Prefix
open Compress.Bzip2.Impl (Err M State)
open Compress.Proofs.BzRT (toNatMSB_append bit16)
open Compress.Proofs.BzCut (smStep readSymMap_eq foldl_smStep_none)

/-! ### `ReadBitsBE64` -/

theorem readBitsBE_eq (n : Nat) (bits : Bits) :
    Impl.readBitsBE n bits =
      match readBE n bits with
      | none => .error (.unexpectedEOF, bits)
      | some r => .ok r := by
  unfold Impl.readBitsBE readBE
  by_cases h : (bits.take n).length < n
  · simp only [h, if_true]
  · simp only [h, if_false]

theorem take_split (bits : Bits) (n : Nat) (h32 : 32 < n) :
    bits.take n = bits.take 32 ++ (bits.drop 32).take (n - 32) := by
  have e : n = 32 + (n - 32) := by omega
  conv => lhs; rw [e]
  exact List.take_add

/-- the two halves of the characterisation of `readBitsBE64` by `readBE`. -/
theorem readBitsBE64_char (n : Nat) (bits : Bits) :
    (readBE n bits = none → ∃ r, Impl.readBitsBE64 n bits = .error (.unexpectedEOF, r)) ∧
    (∀ p, readBE n bits = some p → Impl.readBitsBE64 n bits = .ok p) := by
  unfold Impl.readBitsBE64
  by_cases hn : n ≤ 32
  · rw [if_pos hn, readBitsBE_eq]
    constructor
    · intro h; rw [h]; exact ⟨bits, rfl⟩
    · intro p h; rw [h]
  · rw [if_neg hn]
    have h32 : 32 < n := by omega
    by_cases h1 : bits.length < 32
    · have e1 : Impl.readBitsBE 32 bits = .error (.unexpectedEOF, bits) := by
        unfold Impl.readBitsBE; simp [List.length_take]; omega
      have e2 : readBE n bits = none := by
        unfold readBE; simp [List.length_take]; omega
      rw [e1, e2]
      exact ⟨fun _ => ⟨bits, rfl⟩, fun p h => by cases h⟩
    · have e1 : Impl.readBitsBE 32 bits = .ok (Bits.toNatMSB (bits.take 32), bits.drop 32) := by
        unfold Impl.readBitsBE
        have : ¬ (bits.take 32).length < 32 := by simp [List.length_take]; omega
        simp only [this, if_false]
      rw [e1]
      by_cases h2 : bits.length < n
      · have e2 : Impl.readBitsBE (n - 32) (bits.drop 32) = .error (.unexpectedEOF, bits.drop 32) := by
          unfold Impl.readBitsBE
          have : ((bits.drop 32).take (n - 32)).length < n - 32 := by
            simp [List.length_take, List.length_drop]; omega
          simp only [this, if_true]
        have e3 : readBE n bits = none := by
          unfold readBE; simp [List.length_take]; omega
        rw [e3]
        constructor
        · intro _; exact ⟨bits.drop 32, by simp [bind, Except.bind, e2]⟩
        · intro p h; cases h
      · have e2 : Impl.readBitsBE (n - 32) (bits.drop 32) =
            .ok (Bits.toNatMSB ((bits.drop 32).take (n - 32)), (bits.drop 32).drop (n - 32)) := by
          unfold Impl.readBitsBE
          have : ¬ ((bits.drop 32).take (n - 32)).length < n - 32 := by
            simp [List.length_take, List.length_drop]; omega
          simp only [this, if_false]
        have e3 : readBE n bits = some (Bits.toNatMSB (bits.take n), bits.drop n) := by
          unfold readBE
          have : ¬ (bits.take n).length < n := by simp [List.length_take]; omega
          simp only [this, if_false]
        rw [e3]
        constructor
        · intro h; cases h
        · intro p h
          cases h
          have hv : Bits.toNatMSB (bits.take n) =
              Bits.toNatMSB (bits.take 32) * 2 ^ (n - 32) + Bits.toNatMSB ((bits.drop 32).take (n - 32)) := by
            have hl : ((bits.drop 32).take (n - 32)).length = n - 32 := by
              simp [List.length_take, List.length_drop]; omega
            rw [take_split bits n h32, toNatMSB_append, hl]
          have hd : (bits.drop 32).drop (n - 32) = bits.drop n := by
            rw [List.drop_drop]; congr 1; omega
          simp [bind, Except.bind, e2, hv, hd, pure, Except.pure]

/-- `ReadBitsBE64(n)` (two reads above 32 bits) = the specification's big-endian field. -/
theorem readBitsBE64_simx (n : Nat) (hn : n ≤ 64) (bits : Bits) :
    SimX (Impl.readBitsBE64 n bits) (optE (readBE n bits)) := by
  obtain ⟨h1, h2⟩ := readBitsBE64_char n bits
  cases h : readBE n bits with
  | none =>
    obtain ⟨r, hr⟩ := h1 h
    rw [hr]; exact ErrEq.ueof
  | some p =>
    rw [h2 p h]; rfl

theorem readBitsBE64_ok (n : Nat) (hn : n ≤ 64) (bits : Bits) (v : Nat) (rest : Bits) :
    Impl.readBitsBE64 n bits = .ok (v, rest) ↔ readBE n bits = some (v, rest) := by
  obtain ⟨h1, h2⟩ := readBitsBE64_char n bits
  cases h : readBE n bits with
  | none =>
    obtain ⟨r, hr⟩ := h1 h
    rw [hr]; simp
  | some p =>
    rw [h2 p h]; simp

theorem readBitsBE64_error (n : Nat) (hn : n ≤ 64) (bits : Bits) (e : Err) (r : Bits) :
    Impl.readBitsBE64 n bits = .error (e, r) → e = .unexpectedEOF ∧ readBE n bits = none := by
  obtain ⟨h1, h2⟩ := readBitsBE64_char n bits
  cases h : readBE n bits with
  | none =>
    obtain ⟨r', hr⟩ := h1 h
    rw [hr]; intro he; cases he; exact ⟨rfl, rfl⟩
  | some p =>
    rw [h2 p h]; intro he; cases he

/-- a successful field read leaves a suffix: `n` bits shorter. -/
theorem readBitsBE64_length (n : Nat) (bits : Bits) (v : Nat) (rest : Bits) :
    Impl.readBitsBE64 n bits = .ok (v, rest) → rest.length + n = bits.length := by
  obtain ⟨h1, h2⟩ := readBitsBE64_char n bits
  cases h : readBE n bits with
  | none =>
    obtain ⟨r', hr⟩ := h1 h
    rw [hr]; intro he; cases he
  | some p =>
    rw [h2 p h]; intro he; cases he
    unfold readBE at h
    by_cases hl : (bits.take n).length < n
    · simp only [hl, if_true] at h; cases h
    · simp only [hl, if_false] at h
      cases h
      rw [List.length_take] at hl
      rw [List.length_drop]; omega

/-! ### the symbol map -/

/-- LSB-first bit `i` of a bit list. -/
theorem toNat_bit (bs : Bits) (i : Nat) :
    (Bits.toNat bs / 2 ^ i) % 2 = if bs.getD i false then 1 else 0 := by
  induction bs generalizing i with
  | nil => simp [Bits.toNat]
  | cons b bs ih =>
    cases i with
    | zero =>
      simp only [Bits.toNat, Nat.pow_zero, Nat.div_one, List.getD_cons_zero]
      cases b <;> simp <;> omega
    | succ i =>
      have e : ((if b then 1 else 0) + 2 * Bits.toNat bs) / 2 = Bits.toNat bs := by
        cases b <;> simp <;> omega
      rw [Bits.toNat, Nat.pow_succ', ← Nat.div_div_eq_div_mul, e, List.getD_cons_succ]
      exact ih i

theorem bit16LSB (bs : Bits) (j : Nat) :
    ((Bits.toNat bs / 2 ^ j) % 2 = 1) ↔ bs.getD j false = true := by
  rw [toNat_bit]
  cases bs.getD j false <;> simp

/-- the model's test of bit `j` of a 16-bit word = the specification's. -/
theorem bit16_iff (bs : Bits) (h : bs.length = 16) (j : Nat) (hj : j < 16) :
    ((Bits.toNat bs / 2 ^ j) % 2 = 1) ↔ ((Bits.toNatMSB bs / 2 ^ (15 - j)) % 2 = 1) := by
  rw [bit16LSB, bit16 bs h j hj]

theorem symMapLo_eq (i : Nat) (bs : Bits) (h : bs.length = 16) :
    Impl.symMapLo i (Bits.toNat bs) =
      ((List.range 16).filter (fun j => (Bits.toNatMSB bs / 2 ^ (15 - j)) % 2 = 1)).map
        (fun j => UInt8.ofNat (16 * i + j)) := by
  unfold Impl.symMapLo
  congr 1
  apply List.filter_congr
  intro j hj
  have hj' : j < 16 := List.mem_range.mp hj
  have := bit16_iff bs h j hj'
  simp only [this]

theorem readBits16_eq (bits : Bits) :
    (bits.length < 16 → Impl.readBits 16 bits = .error (.unexpectedEOF, bits) ∧ readBE 16 bits = none) ∧
    (16 ≤ bits.length → (bits.take 16).length = 16 ∧
        Impl.readBits 16 bits = .ok (Bits.toNat (bits.take 16), bits.drop 16) ∧
        readBE 16 bits = some (Bits.toNatMSB (bits.take 16), bits.drop 16)) := by
  unfold Impl.readBits readBE
  constructor
  · intro h
    have : (bits.take 16).length < 16 := by rw [List.length_take]; omega
    simp only [this, if_true, and_self]
  · intro h
    have e : (bits.take 16).length = 16 := by rw [List.length_take]; omega
    have : ¬ (bits.take 16).length < 16 := by omega
    exact ⟨e, by rw [if_neg this], by rw [if_neg this]⟩

theorem symMapLoop_simx (hw : Bits) (hhw : hw.length = 16) (is : List Nat) (his : ∀ i ∈ is, i < 16)
    (dict : List UInt8) (bits : Bits) :
    SimX (Impl.symMapLoop (Bits.toNat hw) is dict bits)
      (optE (is.foldl (smStep (Bits.toNatMSB hw)) (some (dict, bits)))) := by
  induction is generalizing dict bits with
  | nil => simp only [Impl.symMapLoop, List.foldl_nil]; rfl
  | cons i is ih =>
    have hi : i < 16 := his i (List.mem_cons_self ..)
    have his' : ∀ k ∈ is, k < 16 := fun k hk => his k (List.mem_cons_of_mem _ hk)
    rw [List.foldl_cons]
    simp only [Impl.symMapLoop, smStep]
    by_cases hb : (Bits.toNat hw / 2 ^ i) % 2 = 1
    · have hb' := (bit16_iff hw hhw i hi).mp hb
      simp only [hb, hb', if_true]
      obtain ⟨hlt, hge⟩ := readBits16_eq bits
      by_cases hl : bits.length < 16
      · obtain ⟨e1, e2⟩ := hlt hl
        rw [e1, e2]
        simp only [foldl_smStep_none]
        exact ErrEq.ueof
      · obtain ⟨e0, e1, e2⟩ := hge (by omega)
        rw [e1, e2]
        simp only []
        rw [symMapLo_eq i _ e0]
        exact ih his' _ _
    · have hb' : ¬ (Bits.toNatMSB hw / 2 ^ (15 - i)) % 2 = 1 := fun h => hb ((bit16_iff hw hhw i hi).mpr h)
      simp only [hb, hb', if_false]
      exact ih his' _ _

/-- the 16x16 symbol map read with `ReadBits(16)` and shifts = the specification's map. -/
theorem readSymMap_simx (bits : Bits) :
    SimX (Impl.readSymMap bits) (optE (Bzip2.readSymMap bits)) := by
  rw [readSymMap_eq]
  unfold Impl.readSymMap
  obtain ⟨hlt, hge⟩ := readBits16_eq bits
  by_cases hl : bits.length < 16
  · obtain ⟨e1, e2⟩ := hlt hl
    rw [e1, e2]
    exact ErrEq.ueof
  · obtain ⟨e0, e1, e2⟩ := hge (by omega)
    rw [e1, e2]
    exact symMapLoop_simx _ e0 _ (fun i hi => List.mem_range.mp hi) _ _

theorem symMapLo_length (i lo : Nat) : (Impl.symMapLo i lo).length ≤ 16 := by
  unfold Impl.symMapLo
  rw [List.length_map]
  exact Nat.le_trans (List.length_filter_le _ _) (by simp)

theorem readBits_length (n : Nat) (bits : Bits) (v : Nat) (rest : Bits) :
    Impl.readBits n bits = .ok (v, rest) → rest.length ≤ bits.length := by
  unfold Impl.readBits
  by_cases h : (bits.take n).length < n
  · simp only [h, if_true]; intro e; cases e
  · simp only [h, if_false]; intro e; cases e
    rw [List.length_drop]; omega

theorem symMapLoop_length (hi : Nat) (is : List Nat) (dict : List UInt8) (bits : Bits)
    (d' : List UInt8) (rest : Bits) :
    Impl.symMapLoop hi is dict bits = .ok (d', rest) →
      d'.length ≤ dict.length + 16 * is.length ∧ rest.length ≤ bits.length := by
  induction is generalizing dict bits with
  | nil =>
    simp only [Impl.symMapLoop]
    intro e; cases e
    exact ⟨by simp, Nat.le_refl _⟩
  | cons i is ih =>
    simp only [Impl.symMapLoop]
    by_cases hb : (hi / 2 ^ i) % 2 = 1
    · simp only [hb, if_true]
      cases hr : Impl.readBits 16 bits with
      | error e => simp only []; intro e; cases e
      | ok p =>
        obtain ⟨lo, r1⟩ := p
        simp only []
        intro e
        obtain ⟨a, b⟩ := ih _ _ e
        have := symMapLo_length i lo
        have := readBits_length _ _ _ _ hr
        rw [List.length_append] at a
        rw [List.length_cons]
        exact ⟨by omega, by omega⟩
    · simp only [hb, if_false]
      intro e
      obtain ⟨a, b⟩ := ih _ _ e
      rw [List.length_cons]
      exact ⟨by omega, b⟩

theorem readSymMap_length (bits : Bits) (dict : List UInt8) (rest : Bits) :
    Impl.readSymMap bits = .ok (dict, rest) → dict.length ≤ 256 ∧ rest.length ≤ bits.length := by
  unfold Impl.readSymMap
  cases hr : Impl.readBits 16 bits with
  | error e => simp only []; intro e; cases e
  | ok p =>
    obtain ⟨hi, r1⟩ := p
    simp only []
    intro e
    obtain ⟨a, b⟩ := symMapLoop_length _ _ _ _ _ _ e
    have := readBits_length _ _ _ _ hr
    simp only [List.length_range, List.length_nil] at a
    exact ⟨by omega, by omega⟩

/-! ### the delta-coded lengths -/

theorem readBits_one_nil : Impl.readBits 1 [] = .error (.unexpectedEOF, []) := rfl

theorem readBits_one_cons (b : Bool) (rest : Bits) :
    Impl.readBits 1 (b :: rest) = .ok ((if b then 1 else 0), rest) := by
  cases b <;> rfl

/-- the delta-coded lengths. -/
theorem readLens_simx (fuel n clen : Nat) (acc : List Nat) (bits : Bits) :
    SimX (Impl.readLens fuel n clen acc bits) (Bzip2.readLens fuel n clen acc bits) := by
  induction fuel generalizing n clen acc bits with
  | zero =>
    simp only [Impl.readLens, Bzip2.readLens]
    exact ErrEq.corrupt
  | succ fuel ih =>
    cases n with
    | zero =>
      simp only [Impl.readLens, Bzip2.readLens]
      rfl
    | succ n =>
      simp only [Impl.readLens, Bzip2.readLens]
      by_cases hc : clen < 1 ∨ clen > maxPrefixBits
      · simp only [hc, if_true]; exact ErrEq.corrupt
      · simp only [hc, if_false]
        cases bits with
        | nil => simp only [readBits_one_nil]; exact ErrEq.ueof
        | cons b rest =>
          cases b with
          | false =>
            simp only [readBits_one_cons]
            exact ih n clen (clen :: acc) rest
          | true =>
            simp only [readBits_one_cons]
            cases rest with
            | nil => simp only [readBits_one_nil]; exact ErrEq.ueof
            | cons b' rest' =>
              cases b' with
              | false =>
                simp only [readBits_one_cons]
                exact ih (n + 1) (clen + 1) acc rest'
              | true =>
                simp only [readBits_one_cons]
                exact ih (n + 1) (clen - 1) acc rest'

theorem readLens_ok (fuel n clen : Nat) (acc : List Nat) (bits : Bits) (lens : List Nat) (rest : Bits) :
    Impl.readLens fuel n clen acc bits = .ok (lens, rest) →
    (∀ l ∈ acc, 1 ≤ l ∧ l ≤ maxPrefixBits) →
    lens.length = acc.length + n ∧ (∀ l ∈ lens, 1 ≤ l ∧ l ≤ maxPrefixBits) ∧ rest.length ≤ bits.length := by
  induction fuel generalizing n clen acc bits with
  | zero =>
    simp only [Impl.readLens]
    intro h; cases h
  | succ fuel ih =>
    cases n with
    | zero =>
      simp only [Impl.readLens]
      intro h hacc
      cases h
      refine ⟨by simp, ?_, Nat.le_refl _⟩
      intro l hl
      exact hacc l (List.mem_reverse.mp hl)
    | succ n =>
      simp only [Impl.readLens]
      by_cases hc : clen < 1 ∨ clen > maxPrefixBits
      · simp only [hc, if_true]; intro h; cases h
      · simp only [hc, if_false]
        cases bits with
        | nil => simp only [readBits_one_nil]; intro h; cases h
        | cons b rest0 =>
          cases b with
          | false =>
            simp only [readBits_one_cons]
            intro h hacc
            have := ih n clen (clen :: acc) rest0 h (by
              intro l hl
              rcases List.mem_cons.mp hl with rfl | hl
              · omega
              · exact hacc l hl)
            obtain ⟨a, b, c⟩ := this
            refine ⟨by rw [a, List.length_cons]; omega, b, by rw [List.length_cons]; omega⟩
          | true =>
            simp only [readBits_one_cons]
            cases rest0 with
            | nil => simp only [readBits_one_nil]; intro h; cases h
            | cons b' rest' =>
              cases b' with
              | false =>
                simp only [readBits_one_cons]
                intro h hacc
                obtain ⟨a, b, c⟩ := ih (n + 1) _ acc rest' h hacc
                exact ⟨a, b, by simp only [List.length_cons]; omega⟩
              | true =>
                simp only [readBits_one_cons]
                intro h hacc
                obtain ⟨a, b, c⟩ := ih (n + 1) _ acc rest' h hacc
                exact ⟨a, b, by simp only [List.length_cons]; omega⟩

end Compress.Proofs.BzImpl
