/-
The decoder's symbol loop consumes the run-length encoded symbol bits (C16).
-/
import Compress.Proofs.MetaRun

namespace Compress.Proofs.Meta
open Compress Compress.Meta

def expand : List (Bool × Nat) → Bits
  | [] => []
  | (b, n) :: rs => List.replicate n b ++ expand rs

def Alt : List (Bool × Nat) → Prop
  | [] => True
  | (b, n) :: rs => 0 < n ∧ (∀ b' n' rs', rs = (b', n') :: rs' → b ≠ b') ∧ Alt rs

theorem Alt_cons (b : Bool) (n : Nat) (rs : List (Bool × Nat)) :
    Alt ((b, n) :: rs) ↔ (0 < n ∧ (∀ b' n' rs', rs = (b', n') :: rs' → b ≠ b') ∧ Alt rs) := Iff.rfl

theorem runs_cons (b : Bool) (bs : Bits) :
    runs (b :: bs) = match runs bs with
      | (b', n) :: rs => if b = b' then (b, n + 1) :: rs else (b, 1) :: (b', n) :: rs
      | [] => [(b, 1)] := rfl

theorem expand_runs : ∀ (l : Bits), expand (runs l) = l
  | [] => rfl
  | b :: bs => by
    have ih := expand_runs bs
    rw [runs_cons]
    cases h : runs bs with
    | nil =>
      rw [h] at ih
      simp only [expand] at ih ⊢
      simp [← ih]
    | cons p rs =>
      obtain ⟨b', n⟩ := p
      rw [h] at ih
      simp only [expand] at ih
      by_cases hb : b = b'
      · simp only [hb, if_true, expand, List.replicate_succ, List.cons_append, ih]
      · simp only [hb, if_false, expand, List.replicate_succ, List.replicate_zero, List.cons_append, List.nil_append, ih]

theorem alt_runs : ∀ (l : Bits), Alt (runs l)
  | [] => trivial
  | b :: bs => by
    have ih := alt_runs bs
    rw [runs_cons]
    cases h : runs bs with
    | nil =>
      refine (Alt_cons _ _ _).2 ⟨by omega, ?_, trivial⟩
      intro _ _ _ hh; cases hh
    | cons p rs =>
      obtain ⟨b', n⟩ := p
      rw [h] at ih
      obtain ⟨h1, h2, h3⟩ := (Alt_cons _ _ _).1 ih
      by_cases hb : b = b'
      · simp only [hb, if_true]
        exact (Alt_cons _ _ _).2 ⟨by omega, h2, h3⟩
      · simp only [hb, if_false]
        refine (Alt_cons _ _ _).2 ⟨by omega, ?_, (Alt_cons _ _ _).2 ⟨h1, h2, h3⟩⟩
        intro b'' n'' rs'' hh
        cases hh
        exact hb

def HeadOK (pre : Bool) (f : Nat) (rs : List (Bool × Nat)) : Prop :=
  ∀ cnt rs', rs = (false, cnt) :: rs' → ZPre pre cnt f

theorem runs_loop : ∀ (rs : List (Bool × Nat)) (pre : Bool) (fuel : Nat) (st : SymState) (rest : Bits),
    Alt rs → st.bit = pre → st.idx + (expand rs).length ≤ 256 → 256 ≤ fuel + st.idx → st.fifo < 256 →
    HeadOK pre st.fifo rs →
    ∃ fuel' st', symLoop fuel st (encodeRuns rs pre ++ rest) = symLoop fuel' st' rest ∧
      st'.idx = st.idx + (expand rs).length ∧ st'.ones = st.ones + Bits.countOnes (expand rs) ∧
      st'.out = st.out ++ expand rs ∧ 256 ≤ fuel' + st'.idx := by
  intro rs
  induction rs with
  | nil =>
    intro pre fuel st rest _ _ _ hf _ _
    exact ⟨fuel, st, rfl, by simp [expand], by simp [expand, Bits.countOnes], by simp [expand], hf⟩
  | cons p rs ih =>
    obtain ⟨bit, cnt⟩ := p
    intro pre fuel st rest halt hb hi hf hff hh
    obtain ⟨hpos, hne, halt'⟩ := (Alt_cons _ _ _).1 halt
    have hlen : (expand ((bit, cnt) :: rs)).length = cnt + (expand rs).length := by
      simp [expand]
    rw [hlen] at hi
    have hc0 : ¬ cnt = 0 := by omega
    simp only [encodeRuns, hc0, if_false, List.append_assoc]
    -- the first run
    have hrun : ∃ fuel1 st1, symLoop fuel st (encodeRun bit cnt pre cnt ++ (encodeRuns rs bit ++ rest)) =
        symLoop fuel1 st1 (encodeRuns rs bit ++ rest) ∧ RunPost st st1 cnt bit ∧ 256 ≤ fuel1 + st1.idx ∧
        (bit = true → 24 ≤ st1.fifo) := by
      cases bit with
      | false =>
        obtain ⟨f1, s1, e1, p1, u1⟩ := run_zero cnt pre cnt fuel st _ (Nat.le_refl _) hb (by omega) hf hff (hh cnt rs rfl)
        exact ⟨f1, s1, e1, p1, u1, by intro h; cases h⟩
      | true =>
        obtain ⟨f1, s1, e1, p1, u1, g1⟩ := run_one cnt pre cnt fuel st _ (Nat.le_refl _) hb (by omega) hf hff
        exact ⟨f1, s1, e1, p1, u1, fun _ => g1 (Or.inl hpos)⟩
    obtain ⟨fuel1, st1, e1, ⟨p1, p2, p3, p4, p5⟩, u1, g1⟩ := hrun
    rw [if_neg hc0] at p2
    have hh1 : HeadOK bit st1.fifo rs := by
      intro c' rs' hrs
      have hbt : bit = true := by
        have := hne false c' rs' hrs
        cases bit
        · exact absurd rfl this
        · rfl
      have := g1 hbt
      unfold ZPre
      exact Or.inr (Or.inr (Or.inr (Or.inl ⟨hbt, by omega⟩)))
    obtain ⟨fuel', st', e2, q1, q2, q3, q4⟩ := ih bit fuel1 st1 rest halt' p2 (by omega) u1 p5 hh1
    refine ⟨fuel', st', by rw [e1, e2], by omega, ?_, ?_, q4⟩
    · rw [q2, p3]
      simp only [expand, countOnes_append, countOnes_replicate]
      omega
    · rw [q3, p4]
      simp [expand]

end Compress.Proofs.Meta
