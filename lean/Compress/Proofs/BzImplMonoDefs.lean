/-
Prefix-monotonicity of the bzip2.Reader model (S1 for `Bzip2/Impl.lean`): vocabulary.
A parser of the model is `Mono` when a success, and every failure other than "unexpected EOF",
survives an extension of the input unchanged.  Used to show that on a cut of an accepted stream
the model can only report "unexpected EOF" (never "corrupted" or "deprecated").
-/
import Compress.Proofs.BzImplDefs

namespace Compress.Proofs.BzImpl
open Compress Compress.Bzip2 Compress.Prefix
open Compress.Bzip2.Impl (Err M State)

/-- success and every failure other than unexpected EOF survive an extension of the input. -/
def Mono {α : Type} (R : Bits → M (α × Bits)) : Prop :=
  ∀ xs ys,
    (∀ v rest, R xs = .ok (v, rest) → R (xs ++ ys) = .ok (v, rest ++ ys)) ∧
    (∀ e r, R xs = .error (e, r) → e ≠ .unexpectedEOF → ∃ r', R (xs ++ ys) = .error (e, r'))

/-- a decode table whose `ReadSymbol` is monotone and always consumes input. -/
def TreeOK (d : Decoder) : Prop :=
  Mono (Impl.readSymbol d) ∧
  ∀ bits s rest, Impl.readSymbol d bits = .ok (s, rest) → rest.length < bits.length

/-- the same reader state over an extended input (`total`, `inOff` do not influence behaviour). -/
def extState (s : State) (ys : Bits) (total inOff : Nat) : State :=
  { s with bits := s.bits ++ ys, total := total, inOff := inOff }

end Compress.Proofs.BzImpl
