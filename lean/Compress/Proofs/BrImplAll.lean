/-
C02: the layers of the refinement of the brotli.Reader model put together.

* `prefixSim`, `prefixCodesSim`: layers (d), (e) closed (no hypotheses left).
* `compressedSimZ`: a compressed meta-block = header (`prefixCodesSim`) + commands (`commands_sim`).
* `refines_spec`: the refinement theorem for every byte string and every schedule of Read sizes;
  `refines_uncompressed`: the same for streams of metadata/uncompressed meta-blocks, any dictionary.
-/
import Compress.Proofs.BrImplStream
import Compress.Proofs.BrImplSimple
import Compress.Proofs.BrImplComplex
import Compress.Proofs.BrImplTable
import Compress.Proofs.BrImplWalk
import Compress.Proofs.BrImplFixed
import Compress.Proofs.BrImplPC
import Compress.Proofs.BrImplCmd

namespace Compress.Proofs.BrImpl
open Compress Compress.Brotli Compress.Brotli.Impl Compress.Window Compress.Proofs.Window

attribute [local irreducible] Impl.decWinBits Impl.decCounts Impl.decMaxRLE

/-- **(d), tables**: closed. -/
theorem initTreeRel : InitTreeRel := initTreeRel_of_walk walkSpec

/-- **(d)**: `ReadPrefixCode` = sections 3.4 / 3.5, for every alphabet of 2..704 symbols. -/
theorem prefixSim : PrefixSim := by
  intro n h2 h704
  unfold Impl.readPrefixCode Brotli.readPrefixCode
  refine SimRel.bind (Blk.SimRel.strengthen (P := fun b => b < 4) (readBits_sim 2)
    (fun st st' b h => Blk.specReadBits_lt 2 st st' b h)) (fun a b hab => ?_)
  obtain ⟨rfl, hlt⟩ := hab
  by_cases h1 : a = 1
  · simp only [h1, if_true]
    exact simple_sim initTreeRel initFails n h2 h704
  · simp only [h1, if_false]
    exact complex_sim initTreeRel initFails n h2 h704 a (by omega)

/-- **(e)/(f1)**: `readPrefixCodes` = `readCompressedHeader`: closed. -/
theorem prefixCodesSim : PrefixCodesSim := @prefixCodes_sim prefixSim (@countsSim) (@maxRLESim)

theorem winBitsSim : WinBitsSim := @winBits_sim

theorem CmdRel.congr {s s' : State} {h : Header} {c : Cmd} (hc : CmdRel s h c)
    (e1 : s'.npostfix = s.npostfix) (e2 : s'.ndirect = s.ndirect) (e3 : s'.cmodes = s.cmodes)
    (e4 : s'.litMap = s.litMap) (e5 : s'.distMap = s.distMap) (e6 : s'.litBlk = s.litBlk)
    (e7 : s'.iacBlk = s.iacBlk) (e8 : s'.distBlk = s.distBlk) (e9 : s'.litMapOff = s.litMapOff)
    (e10 : s'.cmode = s.cmode) (e11 : s'.distMapOff = s.distMapOff)
    (e12 : s'.dists0 = s.dists0 ∧ s'.dists1 = s.dists1 ∧ s'.dists2 = s.dists2 ∧ s'.dists3 = s.dists3) :
    CmdRel s' h c := by
  obtain ⟨⟨a1, a2, a3, a4, a5, a6, a7, a8⟩, b1, b2, b3, b4, b5, b6, b7⟩ := hc
  refine ⟨⟨?_, ?_, ?_, ?_, ?_, ?_, ?_, ?_⟩, ?_, ?_, ?_, ?_, ?_, ?_, ?_⟩
  · rw [e1]; exact a1
  · rw [e2]; exact a2
  · rw [e3]; exact a3
  · rw [e4]; exact a4
  · rw [e5]; exact a5
  · rw [e6]; exact a6
  · rw [e7]; exact a7
  · rw [e8]; exact a8
  · rw [e6]; exact b1
  · rw [e7]; exact b2
  · rw [e8]; exact b3
  · rw [e9]; exact b4
  · rw [e10]; exact b5
  · rw [e11]; exact b6
  · rw [e12.1, e12.2.1, e12.2.2.1, e12.2.2.2]; exact b7

/-- a compressed meta-block: the header layer and the commands layer in sequence. -/
theorem compressedSimZ_of (sd : ByteArray) (hCmd : CommandsSimZ sd) : CompressedSimZ sd := by
  intro ws s1 st1 ds del mlen _ hRZ hbl hm1 hm2
  have hR := hRZ.toRel
  have hpc := prefixCodesSim ws s1 st1 ds del hR (by rw [hbl]; exact Int.natCast_nonneg _)
  unfold specCompressed
  rw [Dec_bind_apply]
  rcases hh : readCompressedHeader st1 with ⟨e | ⟨litB, cmdB, distB, h⟩, st2⟩
  · -- the header fails
    rw [hh] at hpc
    obtain ⟨e1, s2, hrun, hne, hd, hout⟩ := hpc
    rw [hrun]
    refine ⟨fun he => (by rw [fin_err] at he; cases he), ?_⟩
    obtain ⟨X, T, hX⟩ := trace_error sd e1 s2 ws st2.out.toList del (by rw [hd, hout]; exact hR.win)
    exact ⟨X, e1, T, hne, by rw [hX]; exact Agree.refl _⟩
  · rw [hh] at hpc
    obtain ⟨s2, k, hrun, hk, hst2, hstep, hR2, hbl2, hlast2, hdict2, hcr, hc1, hc2, hc3⟩ := hpc
    rw [hrun, fin_ok _ hR2.err]
    have hbits2 : st2.bits.length ≤ st1.bits.length := by
      rw [hst2]; simp only [stAt_bits, List.length_drop]; omega
    refine ⟨fun _ => (by
      show s2.rd.bits.length ≤ s1.rd.bits.length
      rw [hR2.rd, hR.rd]; exact hbits2), ?_⟩
    have hmlen : s1.blkLen.toNat = mlen := by rw [hbl]; exact Int.toNat_natCast mlen
    rw [hmlen] at hcr
    have hR2' : Rel ws { s2 with inOff := (s2.rd.used + 7) / 8 } st2 ds del :=
      hR2.congr rfl rfl rfl rfl hR2.rd rfl rfl ⟨rfl, rfl, rfl, rfl⟩ hR2.aligned rfl
    have hcr' : CmdRel { s2 with inOff := (s2.rd.used + 7) / 8 } h
        { mlen := mlen, litB := litB, cmdB := cmdB, distB := distB,
          d1 := ds.d1, d2 := ds.d2, d3 := ds.d3, d4 := ds.d4 } :=
      hcr.congr rfl rfl rfl rfl rfl rfl rfl rfl rfl rfl rfl ⟨rfl, rfl, rfl, rfl⟩
    have hout2 : st2.out = st1.out := by rw [hst2]; rfl
    have hdinv : Compress.Proofs.BrCut.DistInv ws
        { mlen := mlen, litB := litB, cmdB := cmdB, distB := distB,
          d1 := ds.d1, d2 := ds.d2, d3 := ds.d3, d4 := ds.d4 } st2 := by
      unfold Compress.Proofs.BrCut.DistInv
      rw [hout2]; exact hRZ.dinv
    have hcmd := hCmd ws _ st2 ds del h _ hR2' hstep hcr' (by show s2.blkLen = _; rw [hbl2, hbl]) hm1
      hRZ.ws2 (by show Zeros s2.dict; rw [hdict2]; exact hRZ.zeros) hdinv
    simp only [Dec_bind_apply]
    have hrem : remainingBits st2 = (.ok st2.bits.length, st2) := rfl
    rw [hrem]
    simp only
    rcases hrc : readCommands sd ws h (mlen + st2.bits.length + 1)
        { mlen := mlen, litB := litB, cmdB := cmdB, distB := distB,
          d1 := ds.d1, d2 := ds.d2, d3 := ds.d3, d4 := ds.d4 } st2 with ⟨e | c', st'⟩
    · rw [hrc] at hcmd
      simp only at hcmd ⊢
      exact hcmd
    · rw [hrc] at hcmd
      simp only at hcmd ⊢
      obtain ⟨X, s', hrun', hR', hs', hl', hb', hz', hd'⟩ := hcmd
      exact ⟨X, s', hrun', ⟨hR', hz', hd', hRZ.ws2⟩, hs', by rw [hl']; exact hlast2, by omega⟩

/-- **(d)-(f)**: compressed meta-blocks, closed (for the 122,784-byte dictionary). -/
theorem compressedSimZ (sd : ByteArray) (hsd : sd.size = 122784) : CompressedSimZ sd :=
  compressedSimZ_of sd (commands_sim sd hsd)

/-- the schedule-free form of the refinement: the trace of the reader model on `bytes`. -/
theorem trace_of_compressed (sd : ByteArray) (hC : CompressedSimZ sd) (bytes : List UInt8) :
    (∀ n, (decode sd bytes).verdict = .ok n → Trace sd (init bytes) (decode sd bytes).out.toList .eof) ∧
    ((∀ n, (decode sd bytes).verdict ≠ .ok n) →
      ∃ X e, Trace sd (init bytes) X e ∧ e ≠ .eof ∧ Agree X (decode sd bytes).out.toList) := by
  have hs := stream_sim sd winBitsSim hC bytes
  unfold decode decodeBits
  rcases hr : readStream sd { bits := Bits.ofBytes bytes, used := 0, out := #[] } with ⟨e | u, st'⟩
  · rw [hr] at hs
    cases e with
    | corrupt =>
      refine ⟨fun n h => (by cases h), fun _ => ?_⟩
      obtain ⟨X, e, T, he, ha⟩ := hs
      exact ⟨X, e, T, he, by simpa using ha⟩
    | unexpectedEOF =>
      refine ⟨fun n h => (by cases h), fun _ => ?_⟩
      obtain ⟨X, e, T, he, ha⟩ := hs
      exact ⟨X, e, T, he, by simpa using ha⟩
  · rw [hr] at hs
    obtain ⟨X, T, hX⟩ := hs
    refine ⟨fun n _ => ?_, fun h => absurd rfl (h st'.used)⟩
    have : X = st'.out.toList := by simpa using hX
    rw [← this]; exact T

/-- a trace of the initial state, for every schedule of Read sizes. -/
theorem refines_of_trace (sd : ByteArray) (bytes : List UInt8) (sched : List Nat)
    (hs : ∀ n, sched.getLast? = some n → 0 < n)
    (h1 : ∀ n, (decode sd bytes).verdict = .ok n → Trace sd (init bytes) (decode sd bytes).out.toList .eof)
    (h2 : (∀ n, (decode sd bytes).verdict ≠ .ok n) →
      ∃ X e, Trace sd (init bytes) X e ∧ e ≠ .eof ∧ Agree X (decode sd bytes).out.toList) :
    (∀ n, (decode sd bytes).verdict = .ok n →
      (∀ fuel, (decode sd bytes).out.size + sched.length + 2 ≤ fuel →
        (run sd fuel bytes sched).1 = (decode sd bytes).out.toList ∧ (run sd fuel bytes sched).2.1 = some .eof) ∧
      (∀ fuel, (run sd fuel bytes sched).1 <+: (decode sd bytes).out.toList)) ∧
    ((∀ n, (decode sd bytes).verdict ≠ .ok n) →
      ∃ X e, e ≠ .eof ∧ Agree X (decode sd bytes).out.toList ∧
        (∀ fuel, X.length + sched.length + 2 ≤ fuel →
          (run sd fuel bytes sched).1 = X ∧ (run sd fuel bytes sched).2.1 = some e) ∧
        (∀ fuel, (run sd fuel bytes sched).1 <+: X)) := by
  constructor
  · intro n hn
    have T := h1 n hn
    refine ⟨fun fuel hf => ?_, fun fuel => run_prefix sd bytes _ _ T sched fuel⟩
    obtain ⟨s', hr, _, _⟩ := run_of_trace sd bytes _ _ T sched hs fuel (by simpa using hf)
    rw [hr]; exact ⟨rfl, rfl⟩
  · intro hno
    obtain ⟨X, e, T, he, ha⟩ := h2 hno
    refine ⟨X, e, he, ha, fun fuel hf => ?_, fun fuel => run_prefix sd bytes _ _ T sched fuel⟩
    obtain ⟨s', hr, _, _⟩ := run_of_trace sd bytes _ _ T sched hs fuel hf
    rw [hr]; exact ⟨rfl, rfl⟩

/-- **C02, the refinement theorem.** For the 122,784-byte dictionary, every byte string and every
    schedule of Read sizes: accepted by the specification ⇒ the model delivers exactly the
    specification's output and ends with `io.EOF`; rejected
    ⇒ the model ends with another error and what it delivered agrees with the specification's output
    position by position; unfinished runs have delivered a prefix. -/
theorem refines_spec (sd : ByteArray) (hsd : sd.size = 122784) (bytes : List UInt8) (sched : List Nat)
    (hs : ∀ n, sched.getLast? = some n → 0 < n) :
    (∀ n, (decode sd bytes).verdict = .ok n →
      (∀ fuel, (decode sd bytes).out.size + sched.length + 2 ≤ fuel →
        (run sd fuel bytes sched).1 = (decode sd bytes).out.toList ∧ (run sd fuel bytes sched).2.1 = some .eof) ∧
      (∀ fuel, (run sd fuel bytes sched).1 <+: (decode sd bytes).out.toList)) ∧
    ((∀ n, (decode sd bytes).verdict ≠ .ok n) →
      ∃ X e, e ≠ .eof ∧ Agree X (decode sd bytes).out.toList ∧
        (∀ fuel, X.length + sched.length + 2 ≤ fuel →
          (run sd fuel bytes sched).1 = X ∧ (run sd fuel bytes sched).2.1 = some e) ∧
        (∀ fuel, (run sd fuel bytes sched).1 <+: X)) := by
  obtain ⟨h1, h2⟩ := trace_of_compressed sd (compressedSimZ sd hsd) bytes
  exact refines_of_trace sd bytes sched hs h1 h2

/-- the stream meets only metadata and uncompressed meta-blocks. -/
def UncompressedOnly (bytes : List UInt8) : Prop :=
  ∀ w st1, readWindowBits { bits := Bits.ofBytes bytes, used := 0, out := #[] } = (.ok w, st1) → RawOnly st1

theorem trace_uncompressed (sd : ByteArray) (bytes : List UInt8) (hU : UncompressedOnly bytes) :
    (∀ n, (decode sd bytes).verdict = .ok n → Trace sd (init bytes) (decode sd bytes).out.toList .eof) ∧
    ((∀ n, (decode sd bytes).verdict ≠ .ok n) →
      ∃ X e, Trace sd (init bytes) X e ∧ e ≠ .eof ∧ Agree X (decode sd bytes).out.toList) := by
  have hs := stream_sim_uncompressed sd winBitsSim bytes hU
  unfold decode decodeBits
  rcases hr : readStream sd { bits := Bits.ofBytes bytes, used := 0, out := #[] } with ⟨e | u, st'⟩
  · rw [hr] at hs
    cases e with
    | corrupt =>
      refine ⟨fun n h => (by cases h), fun _ => ?_⟩
      obtain ⟨X, e, T, he, ha⟩ := hs
      exact ⟨X, e, T, he, by simpa using ha⟩
    | unexpectedEOF =>
      refine ⟨fun n h => (by cases h), fun _ => ?_⟩
      obtain ⟨X, e, T, he, ha⟩ := hs
      exact ⟨X, e, T, he, by simpa using ha⟩
  · rw [hr] at hs
    obtain ⟨X, T, hX⟩ := hs
    refine ⟨fun n _ => ?_, fun h => absurd rfl (h st'.used)⟩
    have : X = st'.out.toList := by simpa using hX
    rw [← this]; exact T

/-- **Layer (c), the refinement theorem restricted to streams of metadata and uncompressed
    meta-blocks** — for any dictionary. -/
theorem refines_uncompressed (sd : ByteArray) (bytes : List UInt8) (hU : UncompressedOnly bytes) (sched : List Nat)
    (hs : ∀ n, sched.getLast? = some n → 0 < n) :
    (∀ n, (decode sd bytes).verdict = .ok n →
      (∀ fuel, (decode sd bytes).out.size + sched.length + 2 ≤ fuel →
        (run sd fuel bytes sched).1 = (decode sd bytes).out.toList ∧ (run sd fuel bytes sched).2.1 = some .eof) ∧
      (∀ fuel, (run sd fuel bytes sched).1 <+: (decode sd bytes).out.toList)) ∧
    ((∀ n, (decode sd bytes).verdict ≠ .ok n) →
      ∃ X e, e ≠ .eof ∧ Agree X (decode sd bytes).out.toList ∧
        (∀ fuel, X.length + sched.length + 2 ≤ fuel →
          (run sd fuel bytes sched).1 = X ∧ (run sd fuel bytes sched).2.1 = some e) ∧
        (∀ fuel, (run sd fuel bytes sched).1 <+: X)) := by
  obtain ⟨h1, h2⟩ := trace_uncompressed sd bytes hU
  exact refines_of_trace sd bytes sched hs h1 h2

/-- the statement of C02 on the model in one piece: for enough fuel, the run ends with an error; it is
    `io.EOF` exactly when the specification accepts; then the outputs are equal; in any case they agree
    position by position. -/
def RefinesSpec (sd : ByteArray) (bytes : List UInt8) (sched : List Nat) : Prop :=
  ∃ N, ∀ fuel, N ≤ fuel →
    Agree (run sd fuel bytes sched).1 (decode sd bytes).out.toList ∧
    ((run sd fuel bytes sched).2.1 = some .eof ↔ ∃ n, (decode sd bytes).verdict = .ok n) ∧
    ((run sd fuel bytes sched).2.1 = some .eof → (run sd fuel bytes sched).1 = (decode sd bytes).out.toList) ∧
    (∃ e, (run sd fuel bytes sched).2.1 = some e)

theorem refinesSpec_of (sd : ByteArray) (bytes : List UInt8) (sched : List Nat)
    (h : (∀ n, (decode sd bytes).verdict = .ok n →
      (∀ fuel, (decode sd bytes).out.size + sched.length + 2 ≤ fuel →
        (run sd fuel bytes sched).1 = (decode sd bytes).out.toList ∧ (run sd fuel bytes sched).2.1 = some .eof) ∧
      (∀ fuel, (run sd fuel bytes sched).1 <+: (decode sd bytes).out.toList)) ∧
    ((∀ n, (decode sd bytes).verdict ≠ .ok n) →
      ∃ X e, e ≠ .eof ∧ Agree X (decode sd bytes).out.toList ∧
        (∀ fuel, X.length + sched.length + 2 ≤ fuel →
          (run sd fuel bytes sched).1 = X ∧ (run sd fuel bytes sched).2.1 = some e) ∧
        (∀ fuel, (run sd fuel bytes sched).1 <+: X))) :
    RefinesSpec sd bytes sched := by
  obtain ⟨h1, h2⟩ := h
  by_cases hok : ∃ n, (decode sd bytes).verdict = .ok n
  · obtain ⟨n, hn⟩ := hok
    obtain ⟨ha, _⟩ := h1 n hn
    refine ⟨(decode sd bytes).out.size + sched.length + 2, fun fuel hf => ?_⟩
    obtain ⟨e1, e2⟩ := ha fuel hf
    exact ⟨by rw [e1]; exact Agree.refl _, ⟨fun _ => ⟨n, hn⟩, fun _ => e2⟩, fun _ => e1, ⟨_, e2⟩⟩
  · have hno : ∀ n, (decode sd bytes).verdict ≠ .ok n := fun n hn => hok ⟨n, hn⟩
    obtain ⟨X, e, he, hag, hrun, _⟩ := h2 hno
    refine ⟨X.length + sched.length + 2, fun fuel hf => ?_⟩
    obtain ⟨e1, e2⟩ := hrun fuel hf
    refine ⟨by rw [e1]; exact hag, ⟨fun h => ?_, fun h => absurd h hok⟩, fun h => ?_, ⟨_, e2⟩⟩
    · rw [e2] at h; exact absurd (Option.some.inj h) he
    · rw [e2] at h; exact absurd (Option.some.inj h) he

end Compress.Proofs.BrImpl
