/-
Layer S of `tables_agree_degenerate`: the interface `StOK` for the tables of `mkCTab`, from the
walk lemmas (layer B1) and the table lemmas (layer B2).
-/
import Compress.Proofs.BzImplTabDWalk
import Compress.Proofs.BzImplTabDTables

namespace Compress.Proofs.BzImpl.TabD
open Compress Compress.Bzip2 Compress.Prefix
open Compress.Bzip2.Impl (GStatus Explored)

/-! ### general tables -/

theorem sk_take_of_prefix {q w : Bits} {j : Nat} (hp : q <+: w) (hj : j ≤ q.length) :
    q.take j = w.take j := by
  obtain ⟨r, rfl⟩ := hp
  exact (List.take_append_of_le_length hj).symm

theorem sk_acc_unique (t : CTab) {w : Bits} {zn zn' : Nat} (h : Acc t w zn) (h' : Acc t w zn') :
    zn = zn' := by
  obtain ⟨h1, _, _, h4, h5⟩ := h
  obtain ⟨h1', _, _, h4', h5'⟩ := h'
  rcases Nat.lt_trichotomy zn zn' with hlt | heq | hgt
  · exact absurd h4 (Int.not_le.mpr (h5' zn h1 hlt))
  · exact heq
  · exact absurd h4' (Int.not_le.mpr (h5 zn' h1' hgt))

theorem sk_noAcc_congr (t : CTab) {w w' : Bits} {zn : Nat}
    (ht : ∀ j, j < zn → w'.take j = w.take j) (h : NoAcc t w zn) : NoAcc t w' zn := by
  intro j h1 h2
  rw [ht j h2]
  exact h j h1 h2

theorem sk_acc_congr (t : CTab) {w w' : Bits} {zn : Nat} (hl : zn ≤ w'.length)
    (ht : ∀ j, j ≤ zn → w'.take j = w.take j) (h : Acc t w zn) : Acc t w' zn := by
  obtain ⟨h1, h2, _, h4, h5⟩ := h
  refine ⟨h1, h2, hl, ?_, sk_noAcc_congr t (fun j hj => ht j (Nat.le_of_lt hj)) h5⟩
  rw [ht zn (Nat.le_refl _)]
  exact h4

/-- `wk_spec` as a disjunction. -/
theorem sk_wk_cases (t : CTab) (hmm : t.minLen ≤ t.maxLen) (hM : t.maxLen ≤ 20) (w : Bits) :
    (∃ zn, Acc t w zn ∧ wk t w = .acc zn ((Bits.toNatMSB (w.take zn) : Nat) : Int)) ∨
    (wk t w = .need ∧ w.length ≤ t.maxLen ∧ NoAcc t w (w.length + 1)) ∨
    (wk t w = .max ∧ t.maxLen < w.length ∧ NoAcc t w (t.maxLen + 1)) := by
  have hs := wk_spec t hmm hM w
  cases hw : wk t w with
  | acc zn zvec =>
    rw [hw] at hs
    simp only at hs
    obtain ⟨ha, hv⟩ := hs
    exact Or.inl ⟨zn, ha, by rw [hv]⟩
  | need =>
    rw [hw] at hs
    simp only at hs
    exact Or.inr (Or.inl ⟨rfl, hs⟩)
  | max =>
    rw [hw] at hs
    simp only at hs
    exact Or.inr (Or.inr ⟨rfl, hs⟩)

theorem sk_acc_noAcc_false (t : CTab) {w : Bits} {zn m : Nat} (h : Acc t w zn) (hlt : zn < m)
    (hn : NoAcc t w m) : False :=
  absurd h.2.2.2.1 (Int.not_le.mpr (hn zn h.1 hlt))

theorem sk_wk_acc (t : CTab) (hmm : t.minLen ≤ t.maxLen) (hM : t.maxLen ≤ 20) {w : Bits} {zn : Nat}
    (h : Acc t w zn) : wk t w = .acc zn ((Bits.toNatMSB (w.take zn) : Nat) : Int) := by
  rcases sk_wk_cases t hmm hM w with ⟨zn', ha, hw⟩ | ⟨_, _, hn⟩ | ⟨_, _, hn⟩
  · have := sk_acc_unique t h ha
    subst this
    exact hw
  · exact (sk_acc_noAcc_false t h (Nat.lt_succ_of_le h.2.2.1) hn).elim
  · exact (sk_acc_noAcc_false t h (Nat.lt_succ_of_le h.2.1) hn).elim

theorem sk_wk_need (t : CTab) (hmm : t.minLen ≤ t.maxLen) (hM : t.maxLen ≤ 20) {w : Bits}
    (hl : w.length ≤ t.maxLen) (hn : NoAcc t w (w.length + 1)) : wk t w = .need := by
  rcases sk_wk_cases t hmm hM w with ⟨zn', ha, _⟩ | ⟨hw, _, _⟩ | ⟨_, hl', _⟩
  · exact (sk_acc_noAcc_false t ha (Nat.lt_succ_of_le ha.2.2.1) hn).elim
  · exact hw
  · omega

theorem sk_wk_max (t : CTab) (hmm : t.minLen ≤ t.maxLen) (hM : t.maxLen ≤ 20) {w : Bits}
    (hl : t.maxLen < w.length) (hn : NoAcc t w (t.maxLen + 1)) : wk t w = .max := by
  rcases sk_wk_cases t hmm hM w with ⟨zn', ha, _⟩ | ⟨_, hl', _⟩ | ⟨hw, _, _⟩
  · exact (sk_acc_noAcc_false t ha (Nat.lt_succ_of_le ha.2.1) hn).elim
  · omega
  · exact hw

theorem sk_st_acc (t : CTab) (hmm : t.minLen ≤ t.maxLen) (hM : t.maxLen ≤ 20) {w : Bits} {zn : Nat}
    (h : Acc t w zn) : St t w = fin t (.acc zn ((Bits.toNatMSB (w.take zn) : Nat) : Int)) := by
  unfold St
  rw [sk_wk_acc t hmm hM h]

theorem sk_st_need (t : CTab) (hmm : t.minLen ≤ t.maxLen) (hM : t.maxLen ≤ 20) {w : Bits}
    (hl : w.length ≤ t.maxLen) (hn : NoAcc t w (w.length + 1)) : St t w = .needBits := by
  unfold St
  rw [sk_wk_need t hmm hM hl hn]
  rfl

theorem sk_st_max (t : CTab) (hmm : t.minLen ≤ t.maxLen) (hM : t.maxLen ≤ 20) {w : Bits}
    (hl : t.maxLen < w.length) (hn : NoAcc t w (t.maxLen + 1)) : St t w = .maxBits := by
  unfold St
  rw [sk_wk_max t hmm hM hl hn]
  rfl

/-- an accepted prefix decides `St`. -/
theorem sk_st_transfer (t : CTab) (hmm : t.minLen ≤ t.maxLen) (hM : t.maxLen ≤ 20) {w w' : Bits}
    {zn : Nat} (ha : Acc t w zn) (hl : zn ≤ w'.length)
    (ht : ∀ j, j ≤ zn → w'.take j = w.take j) : Acc t w' zn ∧ St t w' = St t w := by
  have ha' := sk_acc_congr t hl ht ha
  refine ⟨ha', ?_⟩
  rw [sk_st_acc t hmm hM ha, sk_st_acc t hmm hM ha', ht zn (Nat.le_refl _)]

theorem sk_fin_of_goodK {t : CTab} {n zn : Nat} {zvec : Int} (g : GoodK t n zn zvec) :
    ∃ s, fin t (.acc zn zvec) = .okay s ∧ s < n := by
  obtain ⟨g1, g2, s, hs, hn⟩ := g
  refine ⟨s, ?_, hn⟩
  generalize hk : zvec - t.base.getD zn 0 = k at g1 g2 hs
  unfold fin
  simp only [hk]
  rw [if_neg (by omega)]
  congr 1
  rw [Array.getD_eq_getD_getElem?, hs]
  rfl

/-! ### the tables of `mkCTab` -/

theorem stOK (lens : List Nat) (n : Nat) (h : LensOK lens n) : StOK (mkCTab lens) n := by
  obtain ⟨hmin, hmm, hM⟩ := tab_bounds lens n h
  generalize ht : mkCTab lens = t at hmin hmm hM
  -- accepted words give symbols
  have accOK : ∀ w zn, Acc t w zn → ∃ s, St t w = .okay s ∧ s < n ∧
      fin t (.acc zn ((Bits.toNatMSB (w.take zn) : Nat) : Int)) = .okay s := by
    intro w zn ha
    have g : GoodK t n zn ((Bits.toNatMSB (w.take zn) : Nat) : Int) := by
      subst ht
      exact acc_goodK lens n h w zn ha
    obtain ⟨s, hs, hn⟩ := sk_fin_of_goodK g
    exact ⟨s, by rw [sk_st_acc t hmm hM ha, hs], hn, hs⟩
  -- the three cases in terms of `St`
  have stCases : ∀ w, (∃ zn s, Acc t w zn ∧ St t w = .okay s ∧ s < n) ∨
      (St t w = .needBits ∧ w.length ≤ t.maxLen ∧ NoAcc t w (w.length + 1)) ∨
      (St t w = .maxBits ∧ t.maxLen < w.length ∧ NoAcc t w (t.maxLen + 1)) := by
    intro w
    rcases sk_wk_cases t hmm hM w with ⟨zn, ha, _⟩ | ⟨hw, hl, hn⟩ | ⟨hw, hl, hn⟩
    · obtain ⟨s, hs, hn, _⟩ := accOK w zn ha
      exact Or.inl ⟨zn, s, ha, hs, hn⟩
    · exact Or.inr (Or.inl ⟨sk_st_need t hmm hM hl hn, hl, hn⟩)
    · exact Or.inr (Or.inr ⟨sk_st_max t hmm hM hl hn, hl, hn⟩)
  refine
    { n_le := h.2.2.1
      min_pos := hmin
      max_le := hM
      stable := ?stable
      need_len := ?need_len
      no_invalid := ?no_invalid
      sym_lt := ?sym_lt
      okay_len := ?okay_len
      inj := ?inj
      root := ?root
      spec := ?spec }
  case stable =>
    intro w x hne
    rcases stCases w with ⟨zn, s, ha, _, _⟩ | ⟨hw, _, _⟩ | ⟨hw, hl, hn⟩
    · refine (sk_st_transfer t hmm hM ha ?_ ?_).2
      · have := ha.2.2.1
        simp only [List.length_append]
        omega
      · intro j hj
        exact List.take_append_of_le_length (Nat.le_trans hj ha.2.2.1)
    · exact absurd hw hne
    · rw [hw]
      refine sk_st_max t hmm hM ?_ ?_
      · simp only [List.length_append]
        omega
      · refine sk_noAcc_congr t ?_ hn
        intro j hj
        exact List.take_append_of_le_length (by omega)
  case need_len =>
    intro w hw
    rcases stCases w with ⟨zn, s, _, hs, _⟩ | ⟨_, hl, _⟩ | ⟨hs, _, _⟩
    · rw [hs] at hw; cases hw
    · exact hl
    · rw [hs] at hw; cases hw
  case no_invalid =>
    intro w hw
    rcases stCases w with ⟨zn, s, _, hs, _⟩ | ⟨hs, _, _⟩ | ⟨hs, _, _⟩ <;>
      (rw [hs] at hw; cases hw)
  case sym_lt =>
    intro w s hw
    rcases stCases w with ⟨zn, s', _, hs, hn⟩ | ⟨hs, _, _⟩ | ⟨hs, _, _⟩
    · rw [hs] at hw
      cases hw
      exact hn
    · rw [hs] at hw; cases hw
    · rw [hs] at hw; cases hw
  case okay_len =>
    intro w s hw
    rcases stCases w with ⟨zn, s', ha, _, _⟩ | ⟨hs, _, _⟩ | ⟨hs, _, _⟩
    · rw [← hw]
      refine (sk_st_transfer t hmm hM ha ?_ ?_).2
      · have h1 := ha.2.1
        have h2 := ha.2.2.1
        simp only [List.length_take]
        omega
      · intro j hj
        have h1 := ha.2.1
        rw [List.take_take, Nat.min_eq_left (by omega)]
    · rw [hs] at hw; cases hw
    · rw [hs] at hw; cases hw
  case inj =>
    intro w w' s hw hw'
    rcases stCases w with ⟨zn, s1, ha, _, _⟩ | ⟨hs, _, _⟩ | ⟨hs, _, _⟩
    · rcases stCases w' with ⟨zn', s2, ha', _, _⟩ | ⟨hs, _, _⟩ | ⟨hs, _, _⟩
      · have he : fin t (.acc zn ((Bits.toNatMSB (w.take zn) : Nat) : Int)) =
            fin t (.acc zn' ((Bits.toNatMSB (w'.take zn') : Nat) : Int)) := by
          rw [← sk_st_acc t hmm hM ha, ← sk_st_acc t hmm hM ha', hw, hw']
        have hi : zn = zn' ∧ w.take zn = w'.take zn' := by
          subst ht
          exact acc_inj lens n h w w' zn zn' ha ha' he
        refine ⟨w.take zn, List.take_prefix _ _, ?_, ?_⟩
        · rw [hi.2]
          exact List.take_prefix _ _
        · rw [← hw]
          refine (sk_st_transfer t hmm hM ha ?_ ?_).2
          · have h2 := ha.2.2.1
            simp only [List.length_take]
            omega
          · intro j hj
            rw [List.take_take, Nat.min_eq_left hj]
      · rw [hs] at hw'; cases hw'
      · rw [hs] at hw'; cases hw'
    · rw [hs] at hw; cases hw
    · rw [hs] at hw; cases hw
  case root =>
    have ha : Acc t (List.replicate t.minLen false) t.minLen := by
      subst ht
      exact root_acc lens n h
    obtain ⟨s, hs, _, _⟩ := accOK _ _ ha
    exact ⟨_, s, hs⟩
  case spec =>
    intro bits
    have hd := decode_spec t hmm hM n bits
    cases hdec : t.decode n bits with
    | sym s rest =>
      rw [hdec] at hd
      simp only at hd ⊢
      obtain ⟨zn, ha, hr, hs, hf⟩ := hd
      have hbits : bits = bits.take zn ++ rest := by
        rw [hr, List.take_append_drop]
      have htr := sk_st_transfer t hmm hM (w' := bits.take zn) ha
        (by have h2 := ha.2.2.1; simp only [List.length_take]; omega)
        (by intro j hj; rw [List.take_take, Nat.min_eq_left hj])
      refine ⟨bits.take zn, hbits, ?_, ?_⟩
      · rw [htr.2, sk_st_acc t hmm hM ha, hf]
      · intro q x hp hx
        have hxl : 0 < x.length := List.length_pos_iff.mpr hx
        have hlen : q.length + x.length = min zn bits.length := by
          have := congrArg List.length hp
          simpa [List.length_take] using this.symm
        have hq : q <+: bits := by
          refine ⟨x ++ rest, ?_⟩
          rw [← List.append_assoc, ← hp]
          exact hbits.symm
        have h1 := ha.2.1
        refine sk_st_need t hmm hM (by omega) ?_
        refine sk_noAcc_congr t (w := bits) ?_ ?_
        · intro j hj
          exact sk_take_of_prefix hq (by omega)
        · intro j hj1 hj2
          exact ha.2.2.2.2 j hj1 (by omega)
    | eof =>
      rw [hdec] at hd
      simp only at hd ⊢
      exact ⟨sk_st_need t hmm hM (by omega) hd.2, hd.1⟩
    | bad =>
      rw [hdec] at hd
      simp only at hd ⊢
      rcases hd with ⟨hl, hn⟩ | ⟨zn, ha, hg⟩
      · rcases Nat.lt_or_ge t.maxLen bits.length with hlt | hge
        · exact Or.inl (sk_st_max t hmm hM hlt hn)
        · have he : bits.length = t.maxLen := by omega
          refine Or.inr ⟨sk_st_need t hmm hM hge ?_, he⟩
          rw [he]
          exact hn
      · exfalso
        apply hg
        subst ht
        exact acc_goodK lens n h bits zn ha

end Compress.Proofs.BzImpl.TabD
