/-
C15: the defect witness (D10), checked by the kernel on the models.  A chunk whose only block
is a *final* stored block of length 9 swallows the five bytes of the end block that
`chunkReader` appends; `Reader.Read`'s checks (sync marker, input offset, raw size) all pass.
-/
import Compress.XFlate.SeqRead
import Compress.XFlate.Open
import Compress.XFlate.WriterSpec
import Compress.Proofs.XFlateGlue

namespace Compress.Proofs.XFlateAccept
open Compress Compress.XFlate Compress.Proofs.XFlateGlue

/-- chunk `01 09 00 f6 ff 00 00 ff ff` ++ index (one record: 9 compressed, 9 raw bytes) ++ footer. -/
def witness : List UInt8 :=
  [1,9,0,246,255,0,0,255,255,
   36,128,134,5,128,68,178,201,142,140,200,136,140,200,40,237,157,40,74,250,127,180,247,222,11,252,
   5,192,134,5,0,32,33,171,68,33,123,164,254,191,172,189,119,249]

def witnessRecs : List Record := [⟨9, 9, deflateType⟩, ⟨35, 9, indexType⟩, ⟨53, 9, footerType⟩]

set_option maxRecDepth 100000 in
theorem witness_open :
    (openIndex .fixed crc32IEEE witness).toOption.map (·.recs) = some witnessRecs := by
  decide +kernel

set_option maxRecDepth 100000 in
theorem witness_read :
    seqRead (layoutOf witness witnessRecs) 4096 100 (opened .fixed (layoutOf witness witnessRecs)) [] [] =
      ([0,0,255,255,1,0,0,255,255], some .eof) := by
  decide +kernel

set_option maxRecDepth 100000 in
theorem witness_decode :
    (Flate.decode witness).out = #[0,0,255,255,36,128,134,5,128] ∧
    (Flate.decode witness).verdict = .ok 112 := by
  decide +kernel

end Compress.Proofs.XFlateAccept
