/-
C09: once an error is latched, later calls return no data and the same error;
Close reports it.  Small direct lemmas on the Reader models.
-/
import Compress.XFlate.Reader
import Compress.Flate.Impl

namespace Compress.Proofs.Sticky
open Compress Compress.XFlate

/-- xflate.Reader: with an error latched (any error, `io.EOF` included) every Read returns
    no data, the same error, and leaves the state alone. -/
theorem xr_read_sticky (L : Layout) (s : RState) (e : Err) (h : s.err = some e) (n : Nat) (adv : Adv) (fuel : Nat) :
    read .fixed L s n adv fuel = some (s, [], some e) := by
  unfold Compress.XFlate.read
  simp [h]

/-- … for every number of further Reads. -/
theorem xr_read_sticky_forever (L : Layout) (s : RState) (e : Err) (h : s.err = some e) :
    ∀ (calls : List (Nat × Adv)) (fuel : Nat),
      calls.foldl (fun acc c => match acc with
          | some (st, ok) => (match read .fixed L st c.1 c.2 fuel with
              | some (st', d, e') => some (st', ok && d.isEmpty && (e' == some e) && (st'.err == st.err))
              | none => none)
          | none => none) (some (s, true)) = some (s, true) := by
  intro calls fuel
  induction calls with
  | nil => rfl
  | cons c cs ih =>
    simp only [List.foldl_cons, xr_read_sticky L s e h]
    simpa [h] using ih

/-- xflate.Reader.Close then returns nil only if the latched error was `io.EOF` (or the
    reader was already closed). -/
theorem xr_close_reports (s : RState) (e : Err) (h : s.err = some e) :
    (close s).2 = none ↔ (e = .eof ∨ e = .closed) := by
  unfold close
  by_cases h1 : e = .closed
  · subst h1; simp [h]
  · by_cases h2 : e = .eof
    · subst h2; simp [h]
    · simp [h, h1, h2]

/-- a Seek does not clear a latched error other than `io.EOF`. -/
theorem xr_seek_keeps_error (L : Layout) (s : RState) (e : Err) (h : s.err = some e) (he : e ≠ .eof)
    (off : Int) (wh : Nat) : seek .fixed L s off wh = (s, 0, some e) := by
  unfold seek
  simp [h, he]

open Compress.Flate.Impl in
/-- flate.Reader: once the error is latched and the pending output is drained, every Read
    returns no data and the same error. -/
theorem flate_read_sticky (s : FState) (e : FErr) (h : s.err = some e) (hd : s.toRead = []) (fuel n : Nat) :
    Compress.Flate.Impl.read (fuel + 1) s n = (s, [], some e) := by
  unfold Compress.Flate.Impl.read
  simp [h, hd]

end Compress.Proofs.Sticky
