/-
C16 (converse of M2), stream form: the bytes a meta `Reader` accepts are, to
RFC 1951, that many empty dynamic blocks.
-/
import Compress.Proofs.MetaConvSilent

namespace Compress.Proofs.MetaConv
open Compress Compress.Meta Compress.Flate Compress.Proofs.Meta

theorem take_ofBytes : ∀ (bytes : List UInt8) (c : Nat),
    (Bits.ofBytes bytes).take (8 * c) = Bits.ofBytes (bytes.take c)
  | [], c => by simp [Bits.ofBytes]
  | b :: bs, 0 => by simp [Bits.ofBytes]
  | b :: bs, c+1 => by
    have ih := take_ofBytes bs c
    have hl := length_ofByte b
    simp only [Bits.ofBytes, List.take_succ_cons]
    rw [List.take_append, List.take_of_length_le (by omega), hl,
      show 8 * (c + 1) - 8 = 8 * c by omega, ih]

/-- the block loop of the reader, against the block loop of RFC 1951. -/
theorem decodeAll_silent : ∀ (fuelD : Nat) (bits : Bits) (acc d : Decoded),
    decodeAll fuelD bits acc = .ok d → acc.final = .fnil →
    ∃ nb nbytes, d.blocks = acc.blocks + nb ∧ d.consumed = acc.consumed + nbytes ∧
      8 * nbytes ≤ bits.length ∧ (d.final = .fstream → 1 ≤ nb) ∧
      ∀ (total fuel : Nat) (out : Array UInt8) (rest : Bits),
        decodeBlocks total (fuel + nb) out (bits.take (8 * nbytes) ++ rest) =
          if d.final = .fstream then
            { out := out, verdict := .ok (total - rest.length + padTo8 (total - rest.length)) }
          else decodeBlocks total fuel out rest := by
  intro fuelD
  induction fuelD with
  | zero =>
    intro bits acc d h hacc
    simp only [decodeAll, Except.ok.injEq] at h
    subst h
    exact ⟨0, 0, rfl, rfl, by omega, (by rw [hacc]; intro hh; cases hh), fun total fuel out rest => by
      simp [hacc]⟩
  | succ f ih =>
    intro bits acc d h hacc
    rw [decodeAll] at h
    cases hb : decodeBlock bits with
    | error e =>
      rw [hb] at h
      cases e with
      | eof =>
        simp only [Except.ok.injEq] at h
        subst h
        exact ⟨0, 0, rfl, rfl, by omega, (by rw [hacc]; intro hh; cases hh), fun total fuel out rest => by
          simp [hacc]⟩
      | unexpectedEOF => cases h
      | corrupted w => cases h
    | ok blk =>
      rw [hb] at h
      simp only at h
      obtain ⟨hle, hal, _⟩ := accepted_block_silent bits blk hb 0 0 #[] []
      have h8 : 8 * (blk.consumed / 8) = blk.consumed := by omega
      by_cases hfin : blk.final ≠ .fnil
      · rw [if_pos hfin] at h
        simp only [Except.ok.injEq] at h
        subst h
        refine ⟨1, blk.consumed / 8, rfl, rfl, by omega, fun _ => Nat.le_refl _, fun total fuel out rest => ?_⟩
        rw [h8]
        exact (accepted_block_silent bits blk hb total fuel out rest).2.2
      · rw [if_neg hfin] at h
        have hnil : blk.final = .fnil := Decidable.not_not.mp hfin
        obtain ⟨nb, nbytes, e1, e2, e3, e4, e5⟩ := ih _ _ _ h hnil
        simp only at e1 e2
        rw [List.length_drop] at e3
        refine ⟨nb + 1, blk.consumed / 8 + nbytes, by omega, by omega, by omega, fun _ => by omega,
          fun total fuel out rest => ?_⟩
        have ht : bits.take (8 * (blk.consumed / 8 + nbytes)) =
            bits.take blk.consumed ++ (bits.drop blk.consumed).take (8 * nbytes) := by
          rw [Nat.mul_add, h8, List.take_add]
        rw [ht, List.append_assoc, ← Nat.add_assoc,
          (accepted_block_silent bits blk hb total (fuel + nb) out _).2.2, hnil]
        simp only [reduceCtorEq, if_false]
        exact e5 total fuel out rest

/-- **Converse of M2 (stream).** If the meta reader accepts `bytes` (reading
    `d.consumed` of them as `d.blocks` blocks), the RFC 1951 specification reads
    those `d.consumed` bytes, followed by anything, as `d.blocks` complete blocks
    without output, and sees the end of the stream iff the reader's final mode
    is `FinalStream`. -/
theorem accepted_stream_silent (bytes : List UInt8) (d : Decoded) (h : Meta.decode bytes = .ok d)
    (total fuel : Nat) (out : Array UInt8) (rest : Bits) :
    d.consumed ≤ bytes.length ∧ (d.final = .fstream → 1 ≤ d.blocks) ∧
    decodeBlocks total (fuel + d.blocks) out (Bits.ofBytes (bytes.take d.consumed) ++ rest) =
      if d.final = .fstream then
        { out := out, verdict := .ok (total - rest.length + padTo8 (total - rest.length)) }
      else decodeBlocks total fuel out rest := by
  obtain ⟨nb, nbytes, e1, e2, e3, e4, e5⟩ := decodeAll_silent _ _ _ _ h rfl
  simp only [Nat.zero_add] at e1 e2
  rw [length_ofBytes] at e3
  rw [e1, e2, ← take_ofBytes]
  exact ⟨by omega, e4, e5 total fuel out rest⟩

end Compress.Proofs.MetaConv
