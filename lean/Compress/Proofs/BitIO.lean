/-
S4/S5 and C20-H4: the 64-bit buffered bit reader and writer of internal/prefix
refine reading and writing a plain bit list, for every source shape.
-/
import Compress.Prefix.BitSpec
import Compress.Proofs.BitIOReaderBuf

namespace Compress.Proofs.BitIO
open Compress Compress.Prefix

/-- **S4 (reader).** For every byte string, both bit orders, a ReadByte-only
    source or a Peek-capable source with any (contract-conforming) sequence of
    `Buffered()` answers, and every script of field widths up to 56 bits, the
    values `ReadBits` returns are exactly the successive fields of the bit
    stream; the first field that does not fit fails with
    `io.ErrUnexpectedEOF`. -/
theorem reader_refines (data : List UInt8) (big buffered : Bool) (adv : List Nat) (ns : List Nat)
    (hn : ∀ n ∈ ns, n ≤ 56) :
    readScript (BR.init { data := data, bufAdv := adv, buffered? := buffered } big) ns =
      specReadScript (streamBits big data) ns := by
  cases buffered
  · exact reader_refines_byte data big adv ns hn
  · exact reader_refines_buffered data big adv ns hn

/-- **S5 (writer).** With a sink that never fails, writing fields (each value
    below `2^n`, `n ≤ 56`), padding to a byte and flushing hands the sink exactly
    the packed bit list. -/
theorem writer_refines (big : Bool) (fs : List (Nat × Nat))
    (hf : ∀ f ∈ fs, f.2 ≤ 56 ∧ f.1 < 2 ^ f.2) :
    let r := writeScript { bigEndian := big } fs
    r.2 = none ∧ r.1.sink.got = packBits big (fieldBits fs) ∧ r.1.buf = [] ∧ r.1.numBits = 0 :=
  writer_refines' big fs hf

/-- reading the fields back from the number they spell. -/
theorem numSpec_fieldBits : ∀ (fs : List (Nat × Nat)) (L : Nat), (fieldBits fs).length ≤ L →
    (∀ f ∈ fs, f.2 ≤ 56 ∧ f.1 < 2 ^ f.2) →
    numSpec (Bits.toNat (fieldBits fs)) L (fs.map (·.2)) = fs.map (fun f => .ok f.1)
  | [], _, _, _ => rfl
  | (v, n) :: fs, L, hL, hf => by
    obtain ⟨_, hv⟩ := hf (v, n) (by simp)
    simp only at hv
    obtain ⟨t1, t2⟩ := toNat_fieldBits_cons v n fs hv
    rw [t2] at hL
    simp only [List.map_cons, numSpec]
    rw [if_neg (by omega), t1, Nat.add_mul_mod_self_left, Nat.mod_eq_of_lt hv,
      Nat.add_mul_div_left _ _ (Nat.two_pow_pos n), Nat.div_eq_of_lt hv, Nat.zero_add,
      numSpec_fieldBits fs (L - n) (by omega) (fun f hm => hf f (by simp [hm]))]

/-- **H4 (round trip).** Whatever is written comes back, in both bit orders and
    for every source shape. -/
theorem roundtrip (big buffered : Bool) (adv : List Nat) (fs : List (Nat × Nat))
    (hf : ∀ f ∈ fs, f.2 ≤ 56 ∧ f.1 < 2 ^ f.2) :
    readScript (BR.init { data := (writeScript { bigEndian := big } fs).1.sink.got, bufAdv := adv,
                          buffered? := buffered } big) (fs.map (·.2)) =
      fs.map (fun f => .ok f.1) := by
  rw [reader_refines _ big buffered adv _ (by
    intro n hn
    obtain ⟨f, hf1, rfl⟩ := List.mem_map.mp hn
    exact (hf f hf1).1)]
  rw [(writer_refines big fs hf).2.1, specReadScript_eq, toNat_streamBits, length_streamBits]
  obtain ⟨q1, q2⟩ := le64_packBits' big (fieldBits fs)
  rw [q1, q2]
  exact numSpec_fieldBits fs _ (by omega) hf

end Compress.Proofs.BitIO
