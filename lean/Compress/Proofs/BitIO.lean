/-
S4/S5 and C20-H4: the 64-bit buffered bit reader and writer of internal/prefix
refine reading and writing a plain bit list, for every source shape.
-/
import Compress.Prefix.BitSpec

namespace Compress.Proofs.BitIO
open Compress Compress.Prefix

/-- **S4 (reader).** For every byte string, both bit orders, a ReadByte-only
    source or a Peek-capable source with any (contract-conforming) sequence of
    `Buffered()` answers, and every script of field widths up to 56 bits, the
    values `ReadBits` returns are exactly the successive fields of the bit
    stream; the first field that does not fit fails with
    `io.ErrUnexpectedEOF`. -/
theorem reader_refines (data : List UInt8) (big buffered : Bool) (adv : List Nat) (ns : List Nat)
    (hn : ∀ n ∈ ns, n ≤ 56) :
    readScript (BR.init { data := data, bufAdv := adv, buffered? := buffered } big) ns =
      specReadScript (streamBits big data) ns := by
  sorry

/-- **S5 (writer).** With a sink that never fails, writing fields (each value
    below `2^n`, `n ≤ 56`), padding to a byte and flushing hands the sink exactly
    the packed bit list. -/
theorem writer_refines (big : Bool) (fs : List (Nat × Nat))
    (hf : ∀ f ∈ fs, f.2 ≤ 56 ∧ f.1 < 2 ^ f.2) :
    let r := writeScript { bigEndian := big } fs
    r.2 = none ∧ r.1.sink.got = packBits big (fieldBits fs) ∧ r.1.buf = [] ∧ r.1.numBits = 0 := by
  sorry

/-- **H4 (round trip).** Whatever is written comes back, in both bit orders and
    for every source shape. -/
theorem roundtrip (big buffered : Bool) (adv : List Nat) (fs : List (Nat × Nat))
    (hf : ∀ f ∈ fs, f.2 ≤ 56 ∧ f.1 < 2 ^ f.2) :
    readScript (BR.init { data := (writeScript { bigEndian := big } fs).1.sink.got, bufAdv := adv,
                          buffered? := buffered } big) (fs.map (·.2)) =
      fs.map (fun f => .ok f.1) := by
  sorry

end Compress.Proofs.BitIO
