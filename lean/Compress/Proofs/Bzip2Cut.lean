/-
C12 / C03: prefix-monotonicity of the bzip2 specification decoder.  Cutting a
valid input at any byte never produces "corrupt"/"deprecated" and never delivers
a byte that is not in the original output: the verdict is "unexpected EOF", or
"ok" exactly when the cut is the end of one of the concatenated streams.
Helper lemmas are in `Compress/Proofs/BzCut*.lean`.
-/
import Compress.Proofs.BzCutStream
import Compress.Proofs.BzRTStream
import Compress.Proofs.Bzip2RoundTrip

namespace Compress.Proofs.Bzip2Cut
open Compress Compress.Bzip2 Compress.Proofs.BzCut Compress.Proofs.BzRT

theorem ofBytesMSB_split (bytes : List UInt8) (k : Nat) (hk : k ≤ bytes.length) :
    Bits.ofBytesMSB bytes = Bits.ofBytesMSB (bytes.take k) ++ Bits.ofBytesMSB (bytes.drop k) ∧
    (Bits.ofBytesMSB (bytes.take k)).length = 8 * k := by
  constructor
  · rw [← ofBytesMSB_append, List.take_append_drop]
  · rw [ofBytesMSB_length, List.length_take, Nat.min_eq_left hk]

theorem ofBytesMSB_take (bytes : List UInt8) (k : Nat) :
    Bits.ofBytesMSB (bytes.take k) = (Bits.ofBytesMSB bytes).take (8 * k) := by
  by_cases hk : k ≤ bytes.length
  · obtain ⟨e, l⟩ := ofBytesMSB_split bytes k hk
    generalize Bits.ofBytesMSB (bytes.take k) = A at e l
    rw [e, List.take_left' l]
  · rw [List.take_of_length_le (by omega), List.take_of_length_le (by rw [ofBytesMSB_length]; omega)]

theorem ofBytesMSB_drop (bytes : List UInt8) (k : Nat) :
    Bits.ofBytesMSB (bytes.drop k) = (Bits.ofBytesMSB bytes).drop (8 * k) := by
  by_cases hk : k ≤ bytes.length
  · obtain ⟨e, l⟩ := ofBytesMSB_split bytes k hk
    generalize Bits.ofBytesMSB (bytes.drop k) = B at e
    rw [e, List.drop_left' l]
  · rw [List.drop_eq_nil_of_le (by omega), List.drop_eq_nil_of_le (by rw [ofBytesMSB_length]; omega)]
    rfl

/-- **(1) Cutting a valid input.** For every input the specification accepts and
    every cut `k` inside it, the decoder delivers a prefix of the original output
    and reports "unexpected EOF" — or "ok", which happens only when `k > 0` and
    the remaining bytes `bytes.drop k` are themselves accepted (i.e. `k` is the
    end of one of the concatenated streams).  It never reports "corrupt" or
    "deprecated". -/
theorem decode_cut (bytes : List UInt8) (out : Array UInt8)
    (h : decode bytes = { out := out, verdict := .ok }) (k : Nat) (hk : k < bytes.length) :
    (decode (bytes.take k)).out.toList <+: out.toList ∧
    ((decode (bytes.take k)).verdict = .unexpectedEOF ∨
      ((decode (bytes.take k)).verdict = .ok ∧ 0 < k ∧
        ∃ out2, decode (bytes.drop k) = { out := out2, verdict := .ok })) := by
  unfold decode at h ⊢
  have hlen := ofBytesMSB_length bytes
  have hc := decodeStreams_cut (bytes.length + 2) 0 #[] (Bits.ofBytesMSB bytes) out
    (by omega) (by omega) h (8 * k) (by omega) (by omega) ((bytes.take k).length + 2)
    (by rw [List.length_take]; omega)
  rw [← ofBytesMSB_take] at hc
  refine ⟨hc.1, ?_⟩
  rcases hc.2 with h1 | ⟨h1, h2, h3⟩
  · exact Or.inl h1
  · refine Or.inr ⟨h1, by omega, ?_⟩
    have := h3 ((bytes.drop k).length + 2) (by
      rw [← ofBytesMSB_drop, ofBytesMSB_length]; omega)
    rw [← ofBytesMSB_drop] at this
    refine ⟨(decodeStreams ((bytes.drop k).length + 2) 0 #[] (Bits.ofBytesMSB (bytes.drop k))).out, ?_⟩
    generalize decodeStreams ((bytes.drop k).length + 2) 0 #[] (Bits.ofBytesMSB (bytes.drop k)) = r at this
    cases r
    simp only at this
    rw [this]

/-- the bits of an emitted stream: header, then a block sequence ending exactly at
    the end of the input. -/
theorem writer_stream (level : Nat) (hl : 1 ≤ level ∧ level ≤ 9) (data bytes : List UInt8)
    (h : encodeStream level data = some bytes) :
    ∃ b3, hdrP (Bits.ofBytesMSB bytes) = .ok (48 + level, b3) ∧
      readBlocks level (b3.length + 2) 0 #[] b3 = ({ out := data.toArray, verdict := .ok }, some []) := by
  rw [encodeStream_eq] at h
  cases hf : (splitBlocks (level * blockSize) (data.length + 1) data).foldl streamStep
      (some (bitsBE hdrMagic 16 ++ bitsBE 0x68 8 ++ bitsBE (0x30 + level) 8, 0)) with
  | none => rw [hf] at h; cases h
  | some r =>
    obtain ⟨bits, endCRC⟩ := r
    rw [hf] at h
    simp only [Option.some.injEq] at h
    have hcap : 1 ≤ level * blockSize := by
      show 1 ≤ level * 100000
      omega
    obtain ⟨s1, s2⟩ := splitBlocks_spec (level * blockSize) hcap (data.length + 1) data (by omega)
    obtain ⟨bb, e1, e2, e3, e4⟩ := readBlocks_blocks level hl _ _ 0 bits endCRC s2 (by decide) hf
    obtain ⟨pad, p1, _, p3⟩ := ofBytesMSB_toBytesMSB (bits ++ bitsBE endMagic 48 ++ bitsBE endCRC 32)
    rw [← h, p3, e1]
    simp only [List.append_assoc]
    refine ⟨bb ++ (bitsBE endMagic 48 ++ (bitsBE endCRC 32 ++ List.replicate pad false)), ?_, ?_⟩
    · unfold hdrP
      simp only [bindP, beP, liftE, bind, Except.bind, Except.map]
      rw [readBE_bitsBE hdrMagic 16 (by decide)]
      simp only [Option.elim, ne_eq, not_true_eq_false, if_false]
      rw [readBE_bitsBE 104 8 (by decide)]
      simp only [not_true_eq_false, if_false]
      rw [readBE_bitsBE (48 + level) 8 (by omega)]
      simp only []
      rw [if_neg (by omega)]
    · rw [e4 _ #[] _ (by simp only [List.length_append]; omega), s1]
      have : (List.replicate pad false).length % 8 = pad := by
        rw [List.length_replicate]; omega
      rw [this]
      simp

/-- **(2) Cutting a written stream** (corollary for C12): every proper prefix of
    what the writer emitted decodes to a prefix of the input with the verdict
    "unexpected EOF". -/
theorem writer_cut (level : Nat) (hl : 1 ≤ level ∧ level ≤ 9) (data bytes : List UInt8)
    (h : encodeStream level data = some bytes) (k : Nat) (hk : k < bytes.length) :
    (decode (bytes.take k)).verdict = .unexpectedEOF ∧
    (decode (bytes.take k)).out.toList <+: data := by
  unfold decode
  rw [ofBytesMSB_take]
  have hlen := ofBytesMSB_length bytes
  by_cases hk0 : k = 0
  · subst hk0
    simp [decodeStreams]
  · obtain ⟨b3, hh, hr⟩ := writer_stream level hl data bytes h
    have hlv : 48 + level - 0x30 = level := by omega
    obtain ⟨cl, c1, _, _, c4, _⟩ := stream_cut ((bytes.take k).length + 1) 0 #[] (Bits.ofBytesMSB bytes)
      (48 + level) b3 _ [] hh (by rw [hlv]; exact hr) (by omega) (8 * k) (by omega) (by omega) (by omega)
    simp only [List.length_nil, Nat.add_zero] at c1
    obtain ⟨e1, e2⟩ := c4 (by omega)
    exact ⟨e1, by simpa using e2⟩

end Compress.Proofs.Bzip2Cut

#print axioms Compress.Proofs.Bzip2Cut.decode_cut
#print axioms Compress.Proofs.Bzip2Cut.writer_cut
