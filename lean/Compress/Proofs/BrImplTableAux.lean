/-
C02 refinement, layer (d), tables, auxiliary part (the theorems are in
`BrImplTable`): the link reservation of brotli's `prefixDecoder.Init` with
`assignCodes`, and the fill pass on top of it.

brotli allocates link tables by the MSB-first value of the 9-bit prefix
(`linkIdx = prefix - baseCode`) where the shared decoder numbers them in the
order of first use; the fill loop and the look-up are the same, so the fill
invariant of `PrefixTablesDecoder` is replayed with the reservation facts that
this allocation provides (`Res'`).
-/
import Compress.Proofs.BrImplDefs
import Compress.Proofs.BitIOExCanon

namespace Compress.Proofs.BrImpl
open Compress Compress.Brotli Compress.Prefix
open Compress.Proofs.PrefixCodes Compress.Proofs.PrefixTables Compress.Proofs.FlateRefine

/-! ### bit reversal -/

theorem rev_div (v a n : Nat) (h : a ≤ n) : reverseBits v n / 2 ^ (n - a) = reverseBits v a := by
  obtain ⟨m, rfl⟩ : ∃ m, n = a + m := ⟨n - a, by omega⟩
  rw [BitIOExact.reverseBits_split, Nat.add_sub_cancel_left, Nat.mul_comm,
    Nat.mul_add_div (Nat.two_pow_pos m), Nat.div_eq_of_lt (reverseBits_lt _ _), Nat.add_zero]

theorem rev_rev (v n : Nat) (h : v < 2 ^ n) : reverseBits (reverseBits v n) n = v := by
  rw [reverseBits_reverseBits, Nat.mod_eq_of_lt h]

/-- the low `a` bits of a value are the top `a` bits of its reversal. -/
theorem rev_mod (v a n : Nat) (h : a ≤ n) :
    reverseBits (v % 2 ^ a) a = reverseBits v n / 2 ^ (n - a) := by
  rw [rev_div v a n h, BitIOExact.reverseBits_mod]

/-! ### the link reservation of `Init` with `assignCodes` -/

/-- `chunks` after the loop `for linkIdx := range pd.links`. -/
def linkChunks (base CB : Nat) : Array Nat :=
  (List.range (2 ^ CB - base)).foldl (fun (ch : Array Nat) li =>
    ch.setIfInBounds (Impl.reverseBitsN (base + li) CB) (li * 32 + (CB + 1)))
    (Array.replicate (2 ^ CB) 0)

theorem getD_setIfInBounds (a : Array Nat) (i j v : Nat) :
    (a.setIfInBounds i v).getD j 0 = if i = j ∧ j < a.size then v else a.getD j 0 := by
  rw [← Array.set!_eq_setIfInBounds, getD_set!]

theorem range_fold_getD (f g : Nat → Nat) (init : Array Nat) (n : Nat)
    (hinj : ∀ i j, i < n → j < n → f i = f j → i = j) (hlt : ∀ i, i < n → f i < init.size) :
    ((List.range n).foldl (fun (ch : Array Nat) li => ch.setIfInBounds (f li) (g li)) init).size = init.size ∧
    (∀ i, i < n →
      ((List.range n).foldl (fun (ch : Array Nat) li => ch.setIfInBounds (f li) (g li)) init).getD (f i) 0 = g i) ∧
    (∀ idx, (∀ i, i < n → f i ≠ idx) →
      ((List.range n).foldl (fun (ch : Array Nat) li => ch.setIfInBounds (f li) (g li)) init).getD idx 0 =
        init.getD idx 0) := by
  induction n with
  | zero =>
    refine ⟨rfl, fun i hi => by omega, fun idx _ => rfl⟩
  | succ n ih =>
    obtain ⟨h1, h2, h3⟩ := ih (fun i j hi hj => hinj i j (by omega) (by omega)) (fun i hi => hlt i (by omega))
    rw [List.range_succ, List.foldl_append, List.foldl_cons, List.foldl_nil]
    refine ⟨by rw [Array.size_setIfInBounds, h1], ?_, ?_⟩
    · intro i hi
      rw [getD_setIfInBounds]
      by_cases e : i = n
      · subst e
        rw [if_pos ⟨rfl, by rw [h1]; exact hlt i (by omega)⟩]
      · have hne : f n ≠ f i := fun e' => e (hinj n i (by omega) hi e').symm
        rw [if_neg (fun hh => hne hh.1)]
        exact h2 i (by omega)
    · intro idx hidx
      rw [getD_setIfInBounds, if_neg (fun hh => hidx n (by omega) hh.1)]
      exact h3 idx (fun i hi => hidx i (by omega))

theorem linkChunks_size (base CB : Nat) : (linkChunks base CB).size = 2 ^ CB := by
  unfold linkChunks
  have hsz : (Array.replicate (2 ^ CB) 0 : Array Nat).size = 2 ^ CB := Array.size_replicate
  have := (range_fold_getD (fun li => Impl.reverseBitsN (base + li) CB) (fun li => li * 32 + (CB + 1))
    (Array.replicate (2 ^ CB) 0) (2 ^ CB - base) ?_ ?_).1
  · rw [this, hsz]
  · intro i j hi hj e
    have e' := congrArg (fun x => reverseBits x CB) e
    simp only [Impl.reverseBitsN] at e'
    rw [rev_rev _ _ (by omega), rev_rev _ _ (by omega)] at e'
    omega
  · intro i _
    rw [hsz]; exact reverseBits_lt _ _

/-- entry `idx` of the first level points at link table `prefix - base` when the MSB-first value
    of `idx` is at least `base`, and is empty otherwise. -/
theorem linkChunks_getD (base CB idx : Nat) (hidx : idx < 2 ^ CB) :
    (linkChunks base CB).getD idx 0 =
      if base ≤ reverseBits idx CB then (reverseBits idx CB - base) * 32 + (CB + 1) else 0 := by
  unfold linkChunks
  have hsz : (Array.replicate (2 ^ CB) 0 : Array Nat).size = 2 ^ CB := Array.size_replicate
  obtain ⟨_, h2, h3⟩ := range_fold_getD (fun li => Impl.reverseBitsN (base + li) CB)
    (fun li => li * 32 + (CB + 1)) (Array.replicate (2 ^ CB) 0) (2 ^ CB - base)
    (by
      intro i j hi hj e
      have e' := congrArg (fun x => reverseBits x CB) e
      simp only [Impl.reverseBitsN] at e'
      rw [rev_rev _ _ (by omega), rev_rev _ _ (by omega)] at e'
      omega)
    (by intro i _; rw [hsz]; exact reverseBits_lt _ _)
  have hr := reverseBits_lt idx CB
  by_cases hb : base ≤ reverseBits idx CB
  · rw [if_pos hb]
    have := h2 (reverseBits idx CB - base) (by omega)
    simp only [Impl.reverseBitsN] at this
    rw [show base + (reverseBits idx CB - base) = reverseBits idx CB by omega, rev_rev _ _ hidx] at this
    exact this
  · rw [if_neg hb]
    rw [h3 idx, getD_replicate, if_pos hidx]
    intro i hi e
    simp only [Impl.reverseBitsN] at e
    apply hb
    rw [← e, rev_rev _ _ (by omega)]
    omega

/-! ### the fill pass, replayed with the reservation facts this allocation gives -/

/-- what the fill pass needs from the reservation pass (cf. `Res`): instead of "every reserved
    entry belongs to a long code", "no short code claims a reserved entry". -/
structure Res' (cs : List Code) (CB n : Nat) (ch1 : Array Nat) : Prop where
  size : ch1.size = 2 ^ CB
  long : ∀ c ∈ cs, CB < c.len → ∃ li, li < n ∧ ch1.getD (c.val % 2 ^ CB) 0 = li * 32 + (CB + 1)
  noclash : ∀ c ∈ cs, c.len ≤ CB → ∀ idx, idx < 2 ^ CB → idx % 2 ^ c.len = c.val → ch1.getD idx 0 = 0
  inj : ∀ a ∈ cs, ∀ b ∈ cs, CB < a.len → CB < b.len →
    ch1.getD (a.val % 2 ^ CB) 0 / 32 = ch1.getD (b.val % 2 ^ CB) 0 / 32 → a.val % 2 ^ CB = b.val % 2 ^ CB

theorem fill_inv' (cs : List Code) (pf : PrefixFree cs) (vals : ∀ c ∈ cs, c.val < 2 ^ c.len)
    (CB n L : Nat) (ch1 : Array Nat) (res : Res' cs CB n ch1) (hCB : CB + 1 < 32) :
    Inv2 CB n L ch1 (cs.foldl (mainStep CB) (ch1, Array.replicate n (Array.replicate L 0))) cs := by
  have hpos : 0 < 2 ^ CB := Nat.two_pow_pos CB
  apply foldl_inv
  · refine ⟨res.size, by simp, ?_, ?_, ?_, ?_⟩
    · intro i hi; rw [getD_replicate, if_pos hi]; simp
    · intro idx _ _; rfl
    · intro b hb; simp at hb
    · intro b hb; simp at hb
  · intro st done c hc hdone inv
    unfold mainStep
    have hv := vals c hc
    split
    · rename_i hshort
      refine ⟨by simp only [fillStride_size]; exact inv.size1, inv.size2, inv.sizeL, ?_, ?_, ?_⟩
      · intro idx hidx h0
        show (fillStride st.1 c.val (2 ^ c.len) (c.sym * 32 + c.len)).getD idx 0 = _
        rw [fillStride_getD _ _ _ _ hv, if_neg]
        · exact inv.keep idx hidx h0
        · intro ⟨_, hcl⟩
          exact h0 (res.noclash c hc hshort idx hidx hcl)
      · intro b hb hbl j hj hjb
        show (fillStride st.1 c.val (2 ^ c.len) (c.sym * 32 + c.len)).getD j 0 = _
        rw [fillStride_getD _ _ _ _ hv]
        have hbcs : b ∈ cs := by
          rcases List.mem_append.1 hb with hb | hb
          · exact hdone b hb
          · simp at hb; subst hb; exact hc
        split
        · rename_i hcl
          have : c = b := claim_unique cs pf c b hc hbcs j hcl.2 hjb
          subst this; rfl
        · rename_i hcl
          rcases List.mem_append.1 hb with hb | hb
          · exact inv.short b hb hbl j hj hjb
          · simp at hb; subst hb; exfalso; exact hcl ⟨by rw [inv.size1]; exact hj, hjb⟩
      · intro b hb hbl j hj hjb
        rcases List.mem_append.1 hb with hb | hb
        · exact inv.long b hb hbl j hj hjb
        · simp at hb; subst hb; omega
    · rename_i hlong
      have hlong : CB < c.len := by omega
      obtain ⟨li, hli, hlie⟩ := res.long c hc hlong
      have hci : c.val % 2 ^ CB < 2 ^ CB := Nat.mod_lt _ hpos
      have hkeep : st.1.getD (c.val % 2 ^ CB) 0 = ch1.getD (c.val % 2 ^ CB) 0 :=
        inv.keep _ hci (by omega)
      have hli2 : ch1.getD (c.val % 2 ^ CB) 0 / 32 = li := by omega
      have hdv : c.val / 2 ^ CB < 2 ^ (c.len - CB) := div_lt_pow CB c.len c.val hlong hv
      rw [hkeep, hli2]
      refine ⟨inv.size1, by simp only [size_set!]; exact inv.size2, ?_, inv.keep, ?_, ?_⟩
      · intro i hi
        show ((st.2.set! li _).getD i #[]).size = L
        rw [getD_set!]
        split
        · rw [fillStride_size]; rename_i h; rw [h.1]; exact inv.sizeL i hi
        · exact inv.sizeL i hi
      · intro b hb hbl j hj hjb
        rcases List.mem_append.1 hb with hb | hb
        · exact inv.short b hb hbl j hj hjb
        · simp at hb; subst hb; omega
      · intro b hb hbl j hj hjb
        have hbcs : b ∈ cs := by
          rcases List.mem_append.1 hb with hb | hb
          · exact hdone b hb
          · simp at hb; subst hb; exact hc
        show ((st.2.set! li _).getD (ch1.getD (b.val % 2 ^ CB) 0 / 32) #[]).getD j 0 = _
        rw [getD_set!]
        split
        · rename_i hl
          rw [fillStride_getD _ _ _ _ hdv]
          split
          · rename_i hcl
            have e1 : b.val % 2 ^ CB = c.val % 2 ^ CB := by
              apply res.inj b hbcs c hc hbl hlong
              rw [hli2]; exact hl.1.symm
            have : c = b := by
              apply claim_unique cs pf c b hc hbcs (b.val % 2 ^ CB + 2 ^ CB * j)
              · exact combine_mod CB c.len _ j c.val hlong e1 hcl.2
              · exact combine_mod CB b.len _ j b.val hbl rfl hjb
            subst this; rfl
          · rename_i hcl
            rcases List.mem_append.1 hb with hb | hb
            · rw [hl.1]; exact inv.long b hb hbl j hj hjb
            · simp at hb; subst hb; exfalso; apply hcl
              refine ⟨?_, hjb⟩
              rw [inv.sizeL li hli]; exact hj
        · rename_i hl
          rcases List.mem_append.1 hb with hb | hb
          · exact inv.long b hb hbl j hj hjb
          · simp at hb; subst hb; exfalso; apply hl
            exact ⟨hli2.symm, by rw [hli2, inv.size2]; exact hli⟩

/-- the fields of a decoder built by a reservation (`Res'`) and the fill pass. -/
structure Built (cs : List Code) (M : Nat) (d : Decoder) : Prop where
  res : ∃ n ch1, Res' cs (min M 9) n ch1 ∧
    (d.chunks, d.links) = cs.foldl (mainStep (min M 9))
      (ch1, Array.replicate n (Array.replicate (d.linkMask + 1) 0))
  chunkMask : d.chunkMask = 2 ^ (min M 9) - 1
  linkMask : d.linkMask + 1 = 2 ^ (M - min M 9)
  chunkBits : d.chunkBits = min M 9

/-- table look-up on any bit-buffer value whose low `c.len` bits are `c.val` (cf. `decoder_lookup_val`). -/
theorem built_lookup (cs : List Code) (M : Nat) (d : Decoder) (hb : Built cs M d)
    (lens : ∀ c ∈ cs, c.len ≤ M) (hM : M < 32) (vals : ∀ c ∈ cs, c.val < 2 ^ c.len) (pf : PrefixFree cs)
    (c : Code) (hc : c ∈ cs) (v : Nat) (hv : v % 2 ^ c.len = c.val) :
    d.lookup v = (c.sym, c.len) ∧ d.chunks.size = 2 ^ (min M 9) := by
  obtain ⟨⟨n, ch1, res, hfold⟩, hcm, hlm, hcb⟩ := hb
  have hMc := lens c hc
  have hlen : c.len < 32 := by omega
  generalize hCB : min M 9 = CB at *
  have hCB9 : CB ≤ 9 := by omega
  have hCBM : CB ≤ M := by omega
  have inv := fill_inv' cs pf vals CB n (d.linkMask + 1) ch1 res (by omega)
  rw [← hfold] at inv
  refine ⟨?_, inv.size1⟩
  have hpos : 0 < 2 ^ CB := Nat.two_pow_pos CB
  have hN : 2 ^ CB - 1 + 1 = 2 ^ CB := Nat.sub_add_cancel Nat.one_le_two_pow
  have hidx : v % 2 ^ CB < 2 ^ CB := Nat.mod_lt _ hpos
  unfold Decoder.lookup
  simp only [hcm, hN, hcb]
  by_cases hs : c.len ≤ CB
  · have e : d.chunks.getD (v % 2 ^ CB) 0 = c.sym * 32 + c.len := by
      apply inv.short c hc hs _ hidx
      rw [Nat.mod_mod_of_dvd _ (Nat.pow_dvd_pow 2 hs)]; exact hv
    rw [e]
    have e1 : (c.sym * 32 + c.len) % 32 = c.len := by omega
    have e2 : (c.sym * 32 + c.len) / 32 = c.sym := by omega
    rw [e1, e2, if_neg (by omega)]
  · have hl : CB < c.len := by omega
    have hvi : v % 2 ^ CB = c.val % 2 ^ CB := by
      rw [← hv, Nat.mod_mod_of_dvd _ (Nat.pow_dvd_pow 2 (Nat.le_of_lt hl))]
    obtain ⟨li, hli, hlie⟩ := res.long c hc hl
    have e : d.chunks.getD (v % 2 ^ CB) 0 = li * 32 + (CB + 1) := by
      rw [hvi, ← hlie]
      apply inv.keep _ (Nat.mod_lt _ hpos)
      omega
    rw [e]
    have e1 : (li * 32 + (CB + 1)) % 32 = CB + 1 := by omega
    have e2 : (li * 32 + (CB + 1)) / 32 = li := by omega
    rw [e1, e2, if_pos (by omega)]
    have hLpos : 0 < d.linkMask + 1 := by omega
    have e3 : (d.links.getD li #[]).getD (v / 2 ^ CB % (d.linkMask + 1)) 0 = c.sym * 32 + c.len := by
      have h3 := inv.long c hc hl (v / 2 ^ CB % (d.linkMask + 1)) (Nat.mod_lt _ hLpos)
      rw [hlie, e2] at h3
      apply h3
      rw [hlm, Nat.mod_mod_of_dvd _ (Nat.pow_dvd_pow 2 (by omega : c.len - CB ≤ M - CB))]
      rw [← hv]
      have e4 : 2 ^ c.len = 2 ^ CB * 2 ^ (c.len - CB) := by
        rw [← Nat.pow_add]; congr 1; omega
      rw [e4, Nat.mod_mul_right_div_self]
    rw [e3]
    have e1 : (c.sym * 32 + c.len) % 32 = c.len := by omega
    have e2 : (c.sym * 32 + c.len) / 32 = c.sym := by omega
    rw [e1, e2]

end Compress.Proofs.BrImpl
