/-
Size bounds of one encoded meta block (C16 / M3).
-/
import Compress.Proofs.MetaBlockRT

namespace Compress.Proofs.MetaLoc
open Compress Compress.Meta Compress.Proofs.Meta

/-- cost of a zero run: at most 1.5 bits per zero (+1/2 when it starts with `pre = false`),
    at least 10/138 bits per zero. -/
theorem encodeRun_false_len : ∀ (fuelE : Nat) (pre : Bool) (cnt : Nat), cnt ≤ fuelE →
    2 * (encodeRun false fuelE pre cnt).length ≤ 3 * cnt + (if pre = false then 1 else 0) ∧
    10 * cnt ≤ 138 * (encodeRun false fuelE pre cnt).length := by
  intro fuelE
  induction fuelE with
  | zero =>
    intro pre cnt hc
    have : cnt = 0 := by omega
    subst this
    rw [encodeRun_nil]; simp
  | succ n ih =>
    intro pre cnt hc
    by_cases hc0 : cnt = 0
    · subst hc0; rw [encodeRun_nil]; simp
    · rw [encodeRun_false_succ n pre cnt hc0]
      by_cases h11 : cnt ≥ 11
      · rw [if_pos h11]
        obtain ⟨i1, i2⟩ := ih false (cnt - min 138 cnt) (by omega)
        simp only [List.length_cons, List.length_append, length_ofNat]
        simp only [if_true] at i1
        split <;> omega
      · rw [if_neg h11]
        by_cases h3 : pre = false ∧ cnt ≥ 3
        · rw [if_pos h3]
          obtain ⟨i1, i2⟩ := ih false (cnt - min 6 cnt) (by omega)
          simp only [List.length_cons, List.length_append, length_ofNat]
          simp only [if_true] at i1
          rw [if_pos h3.1]
          omega
        · rw [if_neg h3]
          obtain ⟨i1, i2⟩ := ih false (cnt - 1) (by omega)
          simp only [List.length_cons]
          simp only [if_true] at i1
          split <;> omega

theorem encodeRun_true_len : ∀ (fuelE : Nat) (pre : Bool) (cnt : Nat), cnt ≤ fuelE →
    (encodeRun true fuelE pre cnt).length ≤ 2 * cnt ∧
    5 * cnt ≤ 6 * (encodeRun true fuelE pre cnt).length := by
  intro fuelE
  induction fuelE with
  | zero =>
    intro pre cnt hc
    have : cnt = 0 := by omega
    subst this
    rw [encodeRun_nil]; simp
  | succ n ih =>
    intro pre cnt hc
    by_cases hc0 : cnt = 0
    · subst hc0; rw [encodeRun_nil]; simp
    · rw [encodeRun_true_succ n pre cnt hc0]
      by_cases h3 : pre = true ∧ cnt ≥ 3
      · rw [if_pos h3]
        obtain ⟨i1, i2⟩ := ih true (cnt - min 6 cnt) (by omega)
        simp only [List.length_cons, List.length_append, length_ofNat]
        omega
      · rw [if_neg h3]
        obtain ⟨i1, i2⟩ := ih true (cnt - 1) (by omega)
        simp only [List.length_cons]
        omega

def extra (pre : Bool) : List (Bool × Nat) → Nat
  | (false, _) :: _ => if pre = false then 1 else 0
  | _ => 0

theorem countOnes_expand_cons (b : Bool) (n : Nat) (rs : List (Bool × Nat)) :
    Bits.countOnes (expand ((b, n) :: rs)) = (if b then n else 0) + Bits.countOnes (expand rs) := by
  simp only [expand, countOnes_append, countOnes_replicate]

theorem countZeros_expand_cons (b : Bool) (n : Nat) (rs : List (Bool × Nat)) :
    Bits.countZeros (expand ((b, n) :: rs)) = (if b then 0 else n) + Bits.countZeros (expand rs) := by
  simp only [expand, countZeros_append, countZeros_replicate]

theorem encodeRuns_len : ∀ (rs : List (Bool × Nat)) (pre : Bool), Alt rs →
    2 * (encodeRuns rs pre).length ≤
      4 * Bits.countOnes (expand rs) + 3 * Bits.countZeros (expand rs) + extra pre rs ∧
    345 * Bits.countOnes (expand rs) + 30 * Bits.countZeros (expand rs) ≤ 414 * (encodeRuns rs pre).length := by
  intro rs
  induction rs with
  | nil => intro pre _; simp [encodeRuns, expand, Bits.countOnes, Bits.countZeros, extra]
  | cons p rs ih =>
    obtain ⟨bit, cnt⟩ := p
    intro pre halt
    obtain ⟨hpos, hne, halt'⟩ := (Alt_cons _ _ _).1 halt
    have hc0 : ¬ cnt = 0 := by omega
    simp only [encodeRuns, hc0, if_false, List.length_append]
    rw [countOnes_expand_cons, countZeros_expand_cons]
    obtain ⟨j1, j2⟩ := ih bit halt'
    cases bit with
    | false =>
      obtain ⟨i1, i2⟩ := encodeRun_false_len cnt pre cnt (Nat.le_refl _)
      have hex : extra false rs = 0 := by
        cases rs with
        | nil => rfl
        | cons q rs' =>
          obtain ⟨b', n'⟩ := q
          have := hne b' n' rs' rfl
          cases b'
          · exact absurd rfl this
          · rfl
      rw [hex] at j1
      have hex2 : extra pre ((false, cnt) :: rs) = if pre = false then 1 else 0 := rfl
      rw [hex2]
      simp only [Bool.false_eq_true, if_false]
      omega
    | true =>
      obtain ⟨i1, i2⟩ := encodeRun_true_len cnt pre cnt (Nat.le_refl _)
      have hex : extra true rs = 0 := by
        cases rs with
        | nil => rfl
        | cons q rs' =>
          obtain ⟨b', n'⟩ := q
          cases b' <;> rfl
      rw [hex] at j1
      have hex2 : extra pre ((true, cnt) :: rs) = 0 := rfl
      rw [hex2]
      simp only [if_true]
      omega

theorem zeroFields_length : ∀ (k : Nat), (List.replicate k (Bits.ofNat 0 3)).flatten.length = 3 * k
  | 0 => rfl
  | k+1 => by
    rw [List.replicate_succ, List.flatten_cons, List.length_append, zeroFields_length k, length_ofNat]; omega

theorem hclensBits_length (h : Nat) : (hclensBits h).length = 3 * (4 + (8 - h) * 2 - 1 - 5) + 4 := by
  simp only [hclensBits, List.length_append, zeroFields_length, length_ofNat, List.length_cons, List.length_nil]

/-- length of the body in terms of the code length. -/
theorem bodyBits_len (buf : List UInt8) (final : FinalMode) (h : Nat) (inv : Bool)
    (hlen : buf.length ≤ 31)
    (hz : 2 ^ h + (Bits.countZeros (Bits.ofBytes (if inv then buf.map (fun b => ~~~ b) else buf)) + 8) ≤ 257)
    (ho : Bits.countOnes (Bits.ofBytes (if inv then buf.map (fun b => ~~~ b) else buf)) + 8 ≤ 2 ^ h) :
    2 * (bodyBits buf final h inv).length ≤ 4 * 2 ^ h + 3 * (256 - 2 ^ h) + 1 ∧
    345 * 2 ^ h + 30 * (256 - 2 ^ h) ≤ 414 * (bodyBits buf final h inv).length := by
  obtain ⟨hl, hhead, _, hc⟩ := symbolBits_shape_aux buf h (final ≠ .fnil) inv hlen hz ho
  unfold bodyBits
  generalize symbolBits buf h (final ≠ .fnil) inv = syms at hl hhead hc
  obtain ⟨t, rfl⟩ : ∃ t, syms = false :: t := by
    cases syms with
    | nil => simp at hl
    | cons b t => simp at hhead; exact ⟨t, by rw [hhead]⟩
  simp only [List.tail_cons]
  have hlt : t.length = 256 := by simpa using hl
  have hct : Bits.countOnes t = 2 ^ h := by rw [countOnes_cons] at hc; simpa using hc
  have hadd := count_add t
  obtain ⟨b1, b2⟩ := encodeRuns_len (runs t) false (alt_runs t)
  rw [expand_runs] at b1 b2
  have hex : extra false (runs t) ≤ 1 := by
    unfold extra; split <;> simp
  omega

theorem blockBits_size (buf : List UInt8) (final : FinalMode) (h : Nat) (inv : Bool)
    (h1 : 1 ≤ h) (h7 : h ≤ 7) (hlen : buf.length ≤ 31)
    (hz : 2 ^ h + (Bits.countZeros (Bits.ofBytes (if inv then buf.map (fun b => ~~~ b) else buf)) + 8) ≤ 257)
    (ho : Bits.countOnes (Bits.ofBytes (if inv then buf.map (fun b => ~~~ b) else buf)) + 8 ≤ 2 ^ h) :
    12 * 8 ≤ (blockBits buf final h inv).length ∧ (blockBits buf final h inv).length ≤ 64 * 8 := by
  obtain ⟨b1, b2⟩ := bodyBits_len buf final h inv hlen hz ho
  have hal := blockBits_aligned buf final h inv
  have hp := padsOf_lt buf final h inv
  rw [blockBits_length] at hal ⊢
  rw [hclensBits_length] at hal ⊢
  have hcases : h = 1 ∨ h = 2 ∨ h = 3 ∨ h = 4 ∨ h = 5 ∨ h = 6 ∨ h = 7 := by omega
  rcases hcases with rfl | rfl | rfl | rfl | rfl | rfl | rfl <;> simp only [Nat.reducePow] at ho b1 b2 <;> omega

theorem encodeBlock_size_aux (buf : List UInt8) (final : FinalMode) (bits : Bits)
    (h : encodeBlock buf final = some bits) : 12 * 8 ≤ bits.length ∧ bits.length ≤ 64 * 8 := by
  obtain ⟨hl, inv, a1, a2, a3, a4, a5, rfl⟩ := encodeBlock_some buf final bits h
  exact blockBits_size buf final hl inv a1 a2 (by omega) a4 a5

end Compress.Proofs.MetaLoc
