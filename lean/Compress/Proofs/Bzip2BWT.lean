/-
The inverse Burrows-Wheeler transform of bwt.go inverts the rotation-sort BWT.
-/
import Compress.Bzip2.Stages
import Compress.Proofs.Bzip2BWTSort
import Compress.Proofs.Bzip2BWTPerm
import Compress.Proofs.Bzip2BWTLF

namespace Compress.Proofs.Bzip2BWT
open Compress Compress.Bzip2

/-- the forward transform is a permutation of the input with a valid origin row. -/
theorem bwtSpec_shape (xs : List UInt8) (h : xs ≠ []) :
    (bwtSpec xs).1.length = xs.length ∧ (bwtSpec xs).2 < xs.length ∧ (bwtSpec xs).1.Perm xs :=
  bwtSpec_shape' xs h

/-- row `t` of the sorted rotation matrix (as keys). -/
def row (xs : List UInt8) (t : Nat) : List Nat := rotN xs ((order xs).getD t 0)

/-- the buffer handed to the decoder. -/
def lastCol (xs : List UInt8) : Array UInt8 := (bwtSpec xs).1.toArray

theorem lastCol_size (xs : List UInt8) : (lastCol xs).size = xs.length := by
  simp [lastCol, bwtSpec_eq, order_length]

theorem map_range_getD {β : Type} (l : List Nat) (f : Nat → β) :
    (List.range l.length).map (fun t => f (l.getD t 0)) = l.map f := by
  apply List.ext_getElem
  · simp
  · intro k h1 h2
    have hk : k < l.length := by simpa using h1
    simp [List.getD_eq_getElem?_getD, List.getElem?_eq_getElem hk]

theorem lastD_rotN (xs : List UInt8) (hne : xs ≠ []) (k : Nat) :
    lastD (rotN xs k) = (xs.getD ((k + xs.length - 1) % xs.length) 0).toNat := by
  have hn : 0 < xs.length := List.length_pos_iff.2 hne
  have hl : (rotN xs k).length = xs.length := rotN_length xs k
  have h1 : xs.length - 1 < (rotN xs k).length := by omega
  have hm : (k + xs.length - 1) % xs.length < xs.length := Nat.mod_lt _ hn
  have e : xs.length - 1 + k = k + xs.length - 1 := by omega
  unfold lastD
  rw [hl, List.getD_eq_getElem?_getD, List.getElem?_eq_getElem h1, Option.getD_some]
  simp only [rotN, List.getElem_rotate, List.getElem_map, List.length_map,
    List.getD_eq_getElem?_getD, List.getElem?_eq_getElem hm, Option.getD_some, e]

theorem lastCol_getD (xs : List UInt8) (p : Nat) (hp : p < xs.length) :
    (lastCol xs).getD p 0
      = xs.getD (((order xs).getD p 0 + xs.length - 1) % xs.length) 0 := by
  have hp' : p < (order xs).length := by rw [order_length]; exact hp
  have hm : ((order xs)[p] + xs.length - 1) % xs.length < xs.length := Nat.mod_lt _ (by omega)
  simp [lastCol, bwtSpec_eq, Array.getD_eq_getD_getElem?, List.getD_eq_getElem?_getD,
    List.getElem?_eq_getElem hp', List.getElem?_eq_getElem hm]

theorem keys_lastCol (xs : List UInt8) (hne : xs ≠ []) (p : Nat) (hp : p < xs.length) :
    (keys (lastCol xs)).getD p 0 = lastD (row xs p) := by
  rw [keys_getD, lastCol_getD xs p hp, row, lastD_rotN xs hne]

theorem rotN_mod (xs : List UInt8) (k : Nat) : rotN xs (k % xs.length) = rotN xs k := by
  have := List.rotate_mod (xs.map UInt8.toNat) k
  simpa [rotN] using this

theorem rotN_rotate (xs : List UInt8) (k m : Nat) : (rotN xs k).rotate m = rotN xs (k + m) := by
  simp [rotN, List.rotate_rotate]

/-- the rows are closed under rotation. -/
theorem rows_closed (xs : List UInt8) (hne : xs ≠ []) :
    ((List.range xs.length).map (fun t => (row xs t).rotate (xs.length - 1))).Perm
      ((List.range xs.length).map (row xs)) := by
  have hn : 0 < xs.length := List.length_pos_iff.2 hne
  have e1 : (List.range xs.length).map (fun t => (row xs t).rotate (xs.length - 1))
      = (order xs).map (fun k => (rotN xs k).rotate (xs.length - 1)) := by
    rw [← map_range_getD (order xs), order_length]; rfl
  have e2 : (List.range xs.length).map (row xs) = (order xs).map (rotN xs) := by
    rw [← map_range_getD (order xs), order_length]; rfl
  rw [e1, e2]
  refine ((order_perm xs).map _).trans (List.Perm.trans ?_ ((order_perm xs).map _).symm)
  have e3 : (List.range xs.length).map (fun k => (rotN xs k).rotate (xs.length - 1))
      = ((List.range xs.length).rotate (xs.length - 1)).map (rotN xs) := by
    apply List.ext_getElem
    · simp
    · intro k h1 h2
      have hk : k < xs.length := by simpa using h1
      simp only [List.getElem_map, List.getElem_range, List.getElem_rotate, List.length_range,
        rotN_rotate, rotN_mod]
  rw [e3]
  exact (List.rotate_perm _ _).map _

theorem rows_sorted (xs : List UInt8) (t t' : Nat) (h : t < t') (h' : t' < xs.length) :
    row xs t ≤ row xs t' := by
  have hs := List.pairwise_iff_getElem.1 (order_sorted xs)
  have h1 : t' < (order xs).length := by rw [order_length]; exact h'
  have h2 : t < (order xs).length := by omega
  have := hs t t' h2 h1 h
  simpa [row, List.getD_eq_getElem?_getD, List.getElem?_eq_getElem h1,
    List.getElem?_eq_getElem h2] using this

/-- the successor map of the decoder. -/
def pm (xs : List UInt8) (t : Nat) : Nat := (permOf (lastCol xs)).getD t 0

theorem keys_lastCol_length (xs : List UInt8) : (keys (lastCol xs)).length = xs.length := by
  rw [keys_length, lastCol_size]

theorem pm_rank (xs : List UInt8) (p : Nat) (hp : p < xs.length) :
    pm xs (rank (keys (lastCol xs)) p) = p :=
  permOf_rank _ p (by rw [lastCol_size]; exact hp)

theorem pm_perm (xs : List UInt8) :
    ((List.range xs.length).map (pm xs)).Perm (List.range xs.length) := by
  have h1 := rank_perm (keys (lastCol xs))
  rw [keys_lastCol_length] at h1
  refine (h1.map (pm xs)).symm.trans ?_
  rw [List.map_map]
  have : (List.range xs.length).map (pm xs ∘ rank (keys (lastCol xs)))
      = (List.range xs.length).map id := by
    apply List.map_congr_left
    intro p hp
    exact pm_rank xs p (List.mem_range.1 hp)
  rw [this, List.map_id]

theorem pm_stable (xs : List UInt8) (hne : xs ≠ []) (t t' : Nat) (h : t < t')
    (h' : t' < xs.length) :
    lastD (row xs (pm xs t)) < lastD (row xs (pm xs t')) ∨
      (lastD (row xs (pm xs t)) = lastD (row xs (pm xs t')) ∧ pm xs t < pm xs t') := by
  have hK := keys_lastCol_length xs
  obtain ⟨p, hp, rfl⟩ := rank_surj (keys (lastCol xs)) (t := t) (by omega)
  obtain ⟨p', hp', rfl⟩ := rank_surj (keys (lastCol xs)) (t := t') (by omega)
  rw [hK] at hp hp'
  rw [pm_rank xs p hp, pm_rank xs p' hp', ← keys_lastCol xs hne p hp,
    ← keys_lastCol xs hne p' hp']
  exact lt_of_rank_lt _ (by omega) (by omega) h

/-- **LF mapping**: the decoder's successor of a row is the row rotated by one. -/
theorem row_pm (xs : List UInt8) (hne : xs ≠ []) (t : Nat) (ht : t < xs.length) :
    row xs (pm xs t) = (row xs t).rotate 1 :=
  lf_abstract xs.length (List.length_pos_iff.2 hne) (row xs) (pm xs)
    (fun _ _ => rotN_length xs _) (rows_sorted xs) (rows_closed xs hne) (pm_perm xs)
    (pm_stable xs hne) t ht

theorem pm_lt (xs : List UInt8) (t : Nat) (ht : t < xs.length) : pm xs t < xs.length := by
  have : pm xs t ∈ (List.range xs.length).map (pm xs) :=
    List.mem_map.2 ⟨t, List.mem_range.2 ht, rfl⟩
  exact List.mem_range.1 ((pm_perm xs).mem_iff.1 this)

/-- following the successor map from a row that is rotation `m + 1` emits the
    input from position `m`. -/
theorem chase_spec (xs : List UInt8) (hne : xs ≠ []) : ∀ (k m i : Nat) (acc : Array UInt8),
    i < xs.length → row xs i = rotN xs (m + 1) →
    bwtDecode.chase (lastCol xs) (permOf (lastCol xs)) k i acc
      = acc ++ ((List.range k).map (fun d => xs.getD ((m + d) % xs.length) 0)).toArray := by
  have hn : 0 < xs.length := List.length_pos_iff.2 hne
  intro k
  induction k with
  | zero => intro m i acc _ _; simp [bwtDecode.chase]
  | succ k ih =>
    intro m i acc hi hrow
    have hb : (lastCol xs).getD i 0 = xs.getD (m % xs.length) 0 := by
      apply UInt8.toNat_inj.1
      have h1 := keys_lastCol xs hne i hi
      rw [keys_getD, hrow, lastD_rotN xs hne] at h1
      rw [h1]
      congr 2
      rw [show m + 1 + xs.length - 1 = m + xs.length by omega, Nat.add_mod_right]
    have hnext : row xs (pm xs i) = rotN xs (m + 1 + 1) := by
      rw [row_pm xs hne i hi, hrow, rotN_rotate]
    rw [bwtDecode.chase]
    have := ih (m + 1) (pm xs i) (acc.push ((lastCol xs).getD i 0)) (pm_lt xs i hi) hnext
    rw [pm] at this
    rw [this, hb, List.range_succ_eq_map]
    apply Array.ext'
    simp [Function.comp_def, Nat.add_assoc, Nat.add_comm 1]

/-- **Inverse BWT.** `bwt.Decode` applied to the last column of the sorted
    rotations and the row of the original string returns the original string. -/
theorem bwt_inverse (xs : List UInt8) (h : xs ≠ []) :
    bwtDecode (bwtSpec xs).1.toArray (bwtSpec xs).2 = xs.toArray := by
  have hn : 0 < xs.length := List.length_pos_iff.2 h
  obtain ⟨hptr, hzero⟩ := ptr_spec xs h
  change bwtDecode (lastCol xs) (bwtSpec xs).2 = xs.toArray
  rw [bwtDecode_eq, if_neg (by rw [lastCol_size]; omega), lastCol_size]
  have hrow0 : row xs (bwtSpec xs).2 = rotN xs 0 := by rw [row, hzero]
  have hrow1 : row xs (pm xs (bwtSpec xs).2) = rotN xs (0 + 1) := by
    rw [row_pm xs h _ hptr, hrow0, rotN_rotate]
  have := chase_spec xs h xs.length 0 (pm xs (bwtSpec xs).2) #[] (pm_lt xs _ hptr) hrow1
  rw [pm] at this
  rw [this]
  apply Array.ext'
  simp only [Nat.zero_add, Array.empty_append]
  apply List.ext_getElem
  · simp
  · intro k h1 h2
    have hk : k < xs.length := by simpa using h1
    simp [Nat.mod_eq_of_lt hk, List.getD_eq_getElem?_getD, List.getElem?_eq_getElem hk]

end Compress.Proofs.Bzip2BWT
