/-
The inverse Burrows-Wheeler transform of bwt.go inverts the rotation-sort BWT.
-/
import Compress.Bzip2.Stages

namespace Compress.Proofs.Bzip2BWT
open Compress Compress.Bzip2

/-- the forward transform is a permutation of the input with a valid origin row. -/
theorem bwtSpec_shape (xs : List UInt8) (h : xs ≠ []) :
    (bwtSpec xs).1.length = xs.length ∧ (bwtSpec xs).2 < xs.length ∧ (bwtSpec xs).1.Perm xs := by
  sorry

/-- **Inverse BWT.** `bwt.Decode` applied to the last column of the sorted
    rotations and the row of the original string returns the original string. -/
theorem bwt_inverse (xs : List UInt8) (h : xs ≠ []) :
    bwtDecode (bwtSpec xs).1.toArray (bwtSpec xs).2 = xs.toArray := by
  sorry

end Compress.Proofs.Bzip2BWT
