/-
bzip2 cut: properties of the block loop `readBlocks`: output only grows, a
failing loop never says "ok", the output accumulator is a parameter, enough fuel
is as good as more fuel, and the behaviour under a cut of the input.
-/
import Compress.Proofs.BzCutBlocks

namespace Compress.Proofs.BzCut
open Compress Compress.Bzip2

theorem prefix_append_toList (a b : Array UInt8) : a.toList <+: (a ++ b).toList := by
  rw [Array.toList_append]; exact List.prefix_append _ _

theorem readBlocks_mono (level : Nat) : ∀ (f e : Nat) (out : Array UInt8) (bits : Bits),
    out.toList <+: (readBlocks level f e out bits).1.out.toList := by
  intro f
  induction f with
  | zero => intro e out bits; rw [readBlocks]; exact List.prefix_refl _
  | succ f ih =>
    intro e out bits
    rw [readBlocks_succ]
    unfold blocksStep
    split
    · exact List.prefix_refl _
    · split <;> exact List.prefix_refl _
    · split
      · exact prefix_append_toList _ _
      · split
        · exact prefix_append_toList _ _
        · exact (prefix_append_toList _ _).trans (ih _ _ _)

theorem readBlocks_none (level : Nat) : ∀ (f e : Nat) (out : Array UInt8) (bits : Bits) (r : Result),
    readBlocks level f e out bits = (r, none) → r.verdict ≠ .ok := by
  intro f
  induction f with
  | zero =>
    intro e out bits r h
    rw [readBlocks] at h
    cases h; simp
  | succ f ih =>
    intro e out bits r h
    rw [readBlocks_succ] at h
    unfold blocksStep at h
    split at h
    · rename_i v hv
      cases h
      intro h0
      simp only at h0
      rw [h0] at hv
      exact itemP_noOk level bits hv
    · split at h
      · cases h; simp
      · cases h
    · split at h
      · cases h; simp
      · split at h
        · cases h; simp
        · exact ih _ _ _ _ h

theorem readBlocks_param (level : Nat) : ∀ (f e : Nat) (out : Array UInt8) (bits : Bits),
    readBlocks level f e out bits =
      ({ out := out ++ (readBlocks level f e #[] bits).1.out,
         verdict := (readBlocks level f e #[] bits).1.verdict }, (readBlocks level f e #[] bits).2) := by
  intro f
  induction f with
  | zero => intro e out bits; simp [readBlocks]
  | succ f ih =>
    intro e out bits
    rw [readBlocks_succ, readBlocks_succ]
    unfold blocksStep
    split
    · simp
    · split <;> simp
    · split
      · simp
      · split
        · simp
        · rw [ih _ (out ++ _), ih _ (#[] ++ _)]
          simp

theorem readBlocks_fuel (level : Nat) : ∀ (f d e : Nat) (out : Array UInt8) (bits : Bits),
    bits.length < f → readBlocks level f e out bits = readBlocks level (f + d) e out bits := by
  intro f
  induction f with
  | zero => intro d e out bits h; omega
  | succ f ih =>
    intro d e out bits h
    rw [show f + 1 + d = (f + d) + 1 by omega, readBlocks_succ, readBlocks_succ]
    unfold blocksStep
    cases hi : itemP level bits with
    | error v => rfl
    | ok x =>
      obtain ⟨⟨o, crc⟩, rest⟩ := x
      have hc := itemP_consumes level bits _ rest hi
      cases o with
      | none => rfl
      | some blk =>
        simp only []
        cases unrle1 blk with
        | none => rfl
        | some data =>
          simp only []
          split
          · rfl
          · exact ih d _ _ rest (by omega)

theorem readBlocks_cut (level : Nat) : ∀ (fuel e : Nat) (out : Array UInt8) (full : Bits) (r : Result)
    (rest : Bits), readBlocks level fuel e out full = (r, some rest) →
    ∃ c, full = c ++ rest ∧ 48 ≤ c.length ∧ rest.length % 8 = 0 ∧ r.verdict = .ok ∧
      ∀ m, m % 8 = full.length % 8 →
        (m < c.length → ∃ r', readBlocks level fuel e out (full.take m) = (r', none) ∧
          r'.verdict = .unexpectedEOF ∧ r'.out.toList <+: r.out.toList) ∧
        (c.length ≤ m →
          readBlocks level fuel e out (full.take m) = (r, some (rest.take (m - c.length)))) := by
  intro fuel
  induction fuel with
  | zero =>
    intro e out full r rest h
    rw [readBlocks] at h
    cases h
  | succ f ih =>
    intro e out full r rest h
    rw [readBlocks_succ] at h
    unfold blocksStep at h
    cases hi : itemP level full with
    | error v => rw [hi] at h; cases h
    | ok x =>
      obtain ⟨⟨o, crc⟩, b2⟩ := x
      rw [hi] at h
      obtain ⟨c0, hc0, p0⟩ := itemP_prefixOK level full _ b2 hi
      have hcons := itemP_consumes level full _ b2 hi
      have hfl : full.length = c0.length + b2.length := by rw [hc0, List.length_append]
      cases o with
      | none =>
        simp only [] at h
        split at h
        · cases h
        · rename_i hcrc
          simp only [Prod.mk.injEq, Option.some.injEq] at h
          obtain ⟨rfl, rfl⟩ := h
          have hpad : b2.length % 8 ≤ b2.length := Nat.mod_le _ _
          refine ⟨c0 ++ b2.take (b2.length % 8), ?_, ?_, ?_, rfl, ?_⟩
          · rw [List.append_assoc, List.take_append_drop]; exact hc0
          · rw [List.length_append]; omega
          · rw [List.length_drop]; omega
          · intro m hm
            have hcl : (c0 ++ b2.take (b2.length % 8)).length = c0.length + b2.length % 8 := by
              rw [List.length_append, List.length_take, Nat.min_eq_left hpad]
            rw [hcl]
            constructor
            · intro hlt
              have hm0 : m < c0.length := by omega
              refine ⟨{ out := out, verdict := .unexpectedEOF }, ?_, rfl, List.prefix_refl _⟩
              rw [readBlocks_succ]
              unfold blocksStep
              rw [(p0 m).1 hm0]
            · intro hge
              rw [readBlocks_succ]
              unfold blocksStep
              rw [(p0 m).2 (by omega)]
              simp only []
              rw [if_neg hcrc]
              have hlen : (b2.take (m - c0.length)).length % 8 = b2.length % 8 := by
                rw [List.length_take]; omega
              rw [hlen, List.drop_take]
              rw [show m - c0.length - b2.length % 8 = m - (c0.length + b2.length % 8) by omega]
      | some blk =>
        simp only [] at h
        cases hu : unrle1 blk with
        | none => rw [hu] at h; cases h
        | some data =>
          rw [hu] at h
          simp only [] at h
          split at h
          · cases h
          · rename_i hcrc
            obtain ⟨c1, hc1, l1, l2, l3, p1⟩ := ih _ _ _ _ _ h
            have hmono := readBlocks_mono level f (combineCRC e crc) (out ++ data.toArray) b2
            rw [h] at hmono
            have hb2 : b2.length = c1.length + rest.length := by
              rw [hc1, List.length_append]
            -- the cut run once the item is complete
            have hstep : ∀ m, c0.length ≤ m →
                readBlocks level (f + 1) e out (full.take m) =
                  readBlocks level f (combineCRC e crc) (out ++ data.toArray) (b2.take (m - c0.length)) := by
              intro m hm
              rw [readBlocks_succ]
              unfold blocksStep
              rw [(p0 m).2 hm]
              simp only [hu]
              rw [if_neg hcrc]
            refine ⟨c0 ++ c1, ?_, ?_, l2, l3, ?_⟩
            · rw [List.append_assoc, ← hc1]; exact hc0
            · rw [List.length_append]; omega
            · intro m hm
              rw [List.length_append]
              constructor
              · intro hlt
                by_cases hm0 : m < c0.length
                · refine ⟨{ out := out, verdict := .unexpectedEOF }, ?_, rfl,
                    (prefix_append_toList _ _).trans hmono⟩
                  rw [readBlocks_succ]
                  unfold blocksStep
                  rw [(p0 m).1 hm0]
                · rw [hstep m (by omega)]
                  exact (p1 (m - c0.length) (by omega)).1 (by omega)
              · intro hge
                rw [hstep m (by omega), (p1 (m - c0.length) (by omega)).2 (by omega)]
                congr 3
                omega

end Compress.Proofs.BzCut
