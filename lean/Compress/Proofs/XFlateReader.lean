/-
Lemmas behind C07 (and reused by C17): `index.Search` correctness, the
simulation between `Compress.XFlate.Reader` and the abstract ReadSeeker.
-/
import Compress.XFlate.ReaderSpec
import Compress.Proofs.IndexSearch
import Compress.Proofs.XRIndex
import Compress.Proofs.XRSeek
import Compress.Proofs.XRRead

namespace Compress.Proofs.XFlateReader
open Compress.XFlate Compress.Proofs.XRIndex Compress.Proofs.XRSeek Compress.Proofs.XRRead

theorem search_eq_spec (recs : List Record) (h : rawSorted recs = true) (p : Int) :
    search recs p = searchSpec recs p :=
  Compress.Proofs.IndexSearch.search_eq_spec recs h p

theorem specSeek_nonneg {len pos off : Int} {wh : Nat} {p : Int}
    (h : specSeek len pos off wh = some p) : 0 ≤ p := by
  unfold specSeek at h
  match wh with
  | 0 => by_cases hp : off < 0 <;> simp [hp] at h <;> omega
  | 1 => by_cases hp : pos + off < 0 <;> simp [hp] at h <;> omega
  | 2 => by_cases hp : len + off < 0 <;> simp [hp] at h <;> omega
  | _+3 => simp at h

theorem open_inv (L : Layout) (plain : List UInt8) (wf : WellFormed L plain) :
    Inv L (opened .fixed L) ∧ (opened .fixed L).offset = 0 ∧ (opened .fixed L).err = none := by
  have h : opened .fixed L = slowState L preOpen 0 (pickRi L preOpen 0) := by
    unfold opened
    rw [seek_eq L preOpen 0 0 (Or.inl rfl)]
    simp [specSeek, seekTo, fastCond, preOpen]
  rw [h]
  obtain ⟨a, b, c⟩ := pickRi_ok wf preOpen (Nat.zero_le _) 0 (Int.le_refl _)
  exact ⟨inv_slow wf preOpen 0 _ (Int.le_refl _) a b c, rfl, rfl⟩

theorem seek_refines (L : Layout) (plain : List UInt8) (wf : WellFormed L plain)
    (s : RState) (inv : Inv L s) (off : Int) (wh : Nat) :
    match specSeek plain.length s.offset off wh with
    | some p => (seek .fixed L s off wh).2.2 = none ∧ (seek .fixed L s off wh).2.1 = p ∧
                (seek .fixed L s off wh).1.offset = p ∧ Inv L (seek .fixed L s off wh).1 ∧
                (seek .fixed L s off wh).1.err = none
    | none => (seek .fixed L s off wh).2.2 = some .invalid ∧ (seek .fixed L s off wh).1 = s := by
  have herr : s.err = none ∨ s.err = some .eof := by
    rcases inv.errOK with h | h
    · exact Or.inl h
    · exact Or.inr h.1
  rw [seek_eq L s off wh herr, ← wf.endEq]
  cases hsp : specSeek L.endRaw s.offset off wh with
  | none => exact ⟨rfl, rfl⟩
  | some p => exact inv_seekTo wf s inv p (specSeek_nonneg hsp)

theorem read_refines (L : Layout) (plain : List UInt8) (wf : WellFormed L plain)
    (s : RState) (inv : Inv L s) (herr : s.err = none) (n : Nat) (adv : Adv) :
    ∃ s' data e, read .fixed L s n adv (readFuel L) = some (s', data, e) ∧
      ReadOK plain s.offset n data e ∧ Inv L s' ∧ s'.offset = s.offset + data.length ∧ s'.err = e := by
  unfold Compress.XFlate.read
  rw [if_neg (by rw [herr]; simp)]
  by_cases hn : n = 0
  · rw [if_pos ⟨rfl, hn⟩]
    refine ⟨s, [], none, rfl, ?_, inv, by simp, herr⟩
    subst hn
    refine ⟨by simp [slice], by simp, Or.inl rfl, fun _ => ⟨rfl, rfl⟩, ?_, ?_⟩
    · intro h; omega
    · intro h; omega
  · rw [if_neg (by intro h; exact hn h.2)]
    obtain ⟨inv1, herr1, hd1, hoff1⟩ := discard_ok wf s inv
    rw [herr] at herr1
    simp only []
    rw [if_neg (by rw [herr1]; simp)]
    obtain ⟨s', data, h1, h2, h3, h4⟩ :=
      readLoop_ok wf n (by omega) (readFuel L) (discardStep L s) adv inv1 herr1 hd1
        (by unfold readFuel; omega)
    rw [h1]
    rw [hoff1] at h2 h4
    exact ⟨s', data, s'.err, rfl, h2, h3, h4, rfl⟩

theorem eof_sticky (L : Layout) (s : RState) (h : s.err = some .eof) (n : Nat) (adv : Adv) (fuel : Nat) :
    read .fixed L s n adv fuel = some (s, [], some .eof) := by
  unfold Compress.XFlate.read
  simp [h]

theorem trace_ok (L : Layout) (plain : List UInt8) (wf : WellFormed L plain) :
    ∀ (ops : List ROp) (s : RState), Inv L s →
      TraceOK plain s.offset ops (runOps .fixed L s ops) := by
  intro ops
  induction ops with
  | nil => intro s _; simp [runOps, TraceOK]
  | cons op ops ih =>
    intro s inv
    cases op with
    | seek off wh =>
      have hs := seek_refines L plain wf s inv off wh
      simp only [runOps, TraceOK]
      cases hsp : specSeek plain.length s.offset off wh with
      | none =>
        rw [hsp] at hs
        simp only []
        refine ⟨hs.1, ?_⟩
        rw [hs.2]
        exact ih s inv
      | some p =>
        rw [hsp] at hs
        simp only []
        obtain ⟨h1, h2, h3, h4, _⟩ := hs
        refine ⟨h1, h2, ?_⟩
        have := ih _ h4
        rw [h3] at this
        exact this
    | read n adv =>
      rcases inv.errOK with herr | ⟨herr, hseg⟩
      · obtain ⟨s', data, e, h1, h2, h3, h4, _⟩ := read_refines L plain wf s inv herr n adv
        simp only [runOps, h1, TraceOK]
        refine ⟨Or.inl h2, ?_⟩
        have := ih _ h3
        rw [h4] at this
        exact this
      · have h1 := eof_sticky L s herr n adv (readFuel L)
        simp only [runOps, h1, TraceOK]
        have hge := (inv_tail_off s inv hseg).1
        rw [wf.endEq] at hge
        refine ⟨Or.inr ⟨hge, by simp, by simp⟩, ?_⟩
        have := ih s inv
        simpa using this

theorem readseeker (L : Layout) (plain : List UInt8) (wf : WellFormed L plain) (ops : List ROp) :
    TraceOK plain 0 ops (runOps .fixed L (opened .fixed L) ops) := by
  obtain ⟨inv, hoff, _⟩ := open_inv L plain wf
  have := trace_ok L plain wf ops _ inv
  rw [hoff] at this
  exact this

end Compress.Proofs.XFlateReader
