/-
Lemmas behind C07 (and reused by C17): `index.Search` correctness, the
simulation between `Compress.XFlate.Reader` and the abstract ReadSeeker.
-/
import Compress.XFlate.ReaderSpec
import Compress.Proofs.IndexSearch

namespace Compress.Proofs.XFlateReader
open Compress.XFlate

theorem search_eq_spec (recs : List Record) (h : rawSorted recs = true) (p : Int) :
    search recs p = searchSpec recs p :=
  Compress.Proofs.IndexSearch.search_eq_spec recs h p

theorem open_inv (L : Layout) (plain : List UInt8) (wf : WellFormed L plain) :
    Inv L (opened .fixed L) ∧ (opened .fixed L).offset = 0 ∧ (opened .fixed L).err = none := by
  sorry

theorem seek_refines (L : Layout) (plain : List UInt8) (wf : WellFormed L plain)
    (s : RState) (inv : Inv L s) (off : Int) (wh : Nat) :
    match specSeek plain.length s.offset off wh with
    | some p => (seek .fixed L s off wh).2.2 = none ∧ (seek .fixed L s off wh).2.1 = p ∧
                (seek .fixed L s off wh).1.offset = p ∧ Inv L (seek .fixed L s off wh).1 ∧
                (seek .fixed L s off wh).1.err = none
    | none => (seek .fixed L s off wh).2.2 = some .invalid ∧ (seek .fixed L s off wh).1 = s := by
  sorry

theorem read_refines (L : Layout) (plain : List UInt8) (wf : WellFormed L plain)
    (s : RState) (inv : Inv L s) (herr : s.err = none) (n : Nat) (adv : Adv) :
    ∃ s' data e, read .fixed L s n adv (readFuel L) = some (s', data, e) ∧
      ReadOK plain s.offset n data e ∧ Inv L s' ∧ s'.offset = s.offset + data.length ∧ s'.err = e := by
  sorry

theorem eof_sticky (L : Layout) (s : RState) (h : s.err = some .eof) (n : Nat) (adv : Adv) (fuel : Nat) :
    read .fixed L s n adv fuel = some (s, [], some .eof) := by
  sorry

theorem readseeker (L : Layout) (plain : List UInt8) (wf : WellFormed L plain) (ops : List ROp) :
    TraceOK plain 0 ops (runOps .fixed L (opened .fixed L) ops) := by
  sorry

end Compress.Proofs.XFlateReader
