/-
C15 helpers: putting the walk of the reader (XARead), the records of `Reset` (XARecs) and the
specification on the segments (XASeg) together.
-/
import Compress.Proofs.XFlateGlue
import Compress.Proofs.XARead
import Compress.Proofs.XARecs
import Compress.Proofs.XASeg

namespace Compress.Proofs.XFlateAccept
open Compress Compress.XFlate Compress.Flate Compress.Proofs.XFlateGlue Compress.Proofs.XRIndex
  Compress.Proofs.XRSeek Compress.Proofs.XWShape Compress.Proofs.FlatePrefix

/-! ### byte ranges -/

theorem take_bytesBetween (stream : List UInt8) (a b : Int) (h0 : 0 ≤ a) (hab : a ≤ b) :
    stream.take a.toNat ++ bytesBetween stream a b = stream.take b.toNat := by
  unfold bytesBetween
  have e : b.toNat = a.toNat + (b - a).toNat := by omega
  rw [e, List.take_add]

theorem bytesBetween_length (stream : List UInt8) (a b : Int) (h0 : 0 ≤ a) (hab : a ≤ b)
    (hb : b ≤ (stream.length : Int)) : ((bytesBetween stream a b).length : Int) = b - a := by
  unfold bytesBetween
  rw [List.length_take, List.length_drop]
  omega

/-! ### the layout of `layoutOf` -/

theorem layoutOf_seg (stream : List UInt8) (recs : List Record) (j : Nat) (hj : j ≤ recs.length) :
    (layoutOf stream recs).seg j =
      specSegInfo (bytesBetween stream (getRecords recs j).1.comp (getRecords recs j).2.comp) := by
  unfold Layout.seg layoutOf
  simp only [List.getElem?_map]
  rw [List.getElem?_range (by omega)]
  rfl

theorem specSegInfo_fin (seg : List UInt8) : (specSegInfo seg).fin ≠ some .eof := by
  unfold specSegInfo
  simp only
  split <;> simp

theorem layoutOf_fin (stream : List UInt8) (recs : List Record) (j : Nat) :
    ((layoutOf stream recs).seg j).fin ≠ some .eof := by
  by_cases hj : j ≤ recs.length
  · rw [layoutOf_seg _ _ _ hj]; exact specSegInfo_fin _
  · unfold Layout.seg layoutOf
    simp only [List.getElem?_map]
    rw [List.getElem?_eq_none (by simp; omega)]
    simp

/-- what a clean end of the inflater on a segment means for the specification. -/
theorem spec_ok (seg : List UInt8) (hfin : (specSegInfo seg).fin = none) :
    ∃ o n, Flate.decode (seg ++ endBlockBytes) = { out := o, verdict := .ok n } ∧ n % 8 = 0 ∧
      (specSegInfo seg).out = o.toList ∧ (specSegInfo seg).inOff = ((n / 8 : Nat) : Int) := by
  unfold specSegInfo at hfin ⊢
  simp only at hfin ⊢
  cases hd : Flate.decode (seg ++ endBlockBytes) with
  | mk o v =>
    rw [hd] at hfin
    cases v with
    | ok n =>
      refine ⟨o, n, rfl, ?_, rfl, rfl⟩
      unfold Flate.decode at hd
      rw [decodeBits_eq] at hd
      obtain ⟨c, rest, _, hn, _, _⟩ := decodeBlocks_good _ _ _ _ _ _ hd
      unfold padTo8 at hn
      omega
    | corrupt => simp at hfin
    | unexpectedEOF => simp at hfin

/-! ### the records -/

section
variable {crc : List UInt8 → Nat} {stream : List UInt8} {r : OpenResult}

theorem open_recsOK (h : openIndex .fixed crc stream = .ok r) : RecsOK (layoutOf stream r.recs) := by
  obtain ⟨recs0, foot, hr, hft, hty, hg, _⟩ := open_recs crc stream r h
  refine ⟨?_, fun j hj => (hg j hj).1, ?_, layoutOf_fin _ _⟩
  · show 0 < r.recs.length
    rw [hr]; simp
  · intro j hj
    have hj' : j < r.recs.length := hj
    show (getRecords r.recs j).2.typ ≠ unknownType
    rw [gr_curr_lt _ _ hj']
    have hm : r.recs[j] ∈ recs0 ++ [foot] := by rw [← hr]; exact List.getElem_mem hj'
    rcases List.mem_append.1 hm with hm | hm
    · rcases hty _ hm with e | e <;> rw [e] <;> decide
    · rw [List.mem_singleton.1 hm, hft]; decide

theorem cbnd_mono (hg : Grow r.recs) : ∀ d j, j + d ≤ r.recs.length → cbnd r.recs j ≤ cbnd r.recs (j + d) := by
  intro d
  induction d with
  | zero => intro j _; exact Int.le_refl _
  | succ d ih =>
    intro j h
    have h1 := ih j (by omega)
    have h2 := (hg (j + d) (by omega)).2
    have e : j + (d + 1) = j + d + 1 := by omega
    rw [e]; omega

theorem cbnd_facts (h : openIndex .fixed crc stream = .ok r) (j : Nat) (hj : j < r.recs.length) :
    0 ≤ cbnd r.recs j ∧ cbnd r.recs j ≤ cbnd r.recs (j + 1) ∧
      cbnd r.recs (j + 1) ≤ (stream.length : Int) := by
  obtain ⟨_, _, _, _, _, hg, hl⟩ := open_recs crc stream r h
  have h1 := cbnd_mono hg j 0 (by omega)
  have h2 := cbnd_mono hg (r.recs.length - (j + 1)) (j + 1) (by omega)
  have e : j + 1 + (r.recs.length - (j + 1)) = r.recs.length := by omega
  rw [e, cbnd_len, hl] at h2
  rw [Nat.zero_add, cbnd_zero] at h1
  exact ⟨h1, (hg j hj).2, h2⟩

/-- the bytes of segment `j`. -/
def segB (stream : List UInt8) (recs : List Record) (j : Nat) : List UInt8 :=
  bytesBetween stream (getRecords recs j).1.comp (getRecords recs j).2.comp

theorem segB_eq (j : Nat) (hj : j < r.recs.length) :
    segB stream r.recs j = bytesBetween stream (cbnd r.recs j) (cbnd r.recs (j + 1)) := by
  unfold segB
  rw [gr_prev_comp _ _ (Nat.le_of_lt hj), gr_curr_comp_lt _ _ hj]

theorem seg_eq (j : Nat) (hj : j < r.recs.length) :
    (layoutOf stream r.recs).seg j = specSegInfo (segB stream r.recs j) :=
  layoutOf_seg _ _ _ (Nat.le_of_lt hj)

/-- the outputs of the first `m` segments. -/
def prefOut (L : Layout) (m : Nat) : List UInt8 := ((outs L).take m).flatten

theorem prefOut_succ (L : Layout) (m : Nat) (hm : m < L.recs.length) :
    prefOut L (m + 1) = prefOut L m ++ (L.seg m).out := by
  unfold prefOut
  have hl : m < (outs L).length := by simp [outs]; exact hm
  rw [List.take_add_one, List.getElem?_eq_getElem hl]
  simp [outs]

theorem prefOut_all (L : Layout) : prefOut L L.recs.length = tailOut L 0 := by
  unfold prefOut tailOut
  rw [List.take_of_length_le (by simp [outs]), List.drop_zero]

/-- all segments before the footer together are transparent. -/
theorem transp_prefix (h : openIndex .fixed crc stream = .ok r)
    (hT : ∀ j, j + 1 < r.recs.length → ∃ data, Transp (segB stream r.recs j) data) :
    ∀ m, m + 1 ≤ r.recs.length →
      Transp (stream.take (cbnd r.recs m).toNat) (prefOut (layoutOf stream r.recs) m) := by
  intro m
  induction m with
  | zero =>
    intro _
    rw [cbnd_zero]
    simpa [prefOut] using transp_nil
  | succ m ih =>
    intro hm
    have hm' : m < r.recs.length := by omega
    obtain ⟨data, ht⟩ := hT m (by omega)
    obtain ⟨c1, c2, c3⟩ := cbnd_facts h m hm'
    have hout : ((layoutOf stream r.recs).seg m).out = data := by
      rw [seg_eq m hm', XGDecode.spec_transp _ _ ht]
    have := transp_append (ih (by omega)) ht
    rw [segB_eq m hm', take_bytesBetween _ _ _ c1 c2] at this
    rw [prefOut_succ _ _ hm', hout]
    exact this

/-- the length of what the segments deliver is the end position the index reports. -/
theorem tailOut_length {L : Layout} (hck : ∀ i, i < L.recs.length → Checked L i) :
    ∀ d j, j + d = L.recs.length → ((tailOut L j).length : Int) = L.endRaw - bnd L.recs j := by
  intro d
  induction d with
  | zero =>
    intro j h
    have : j = L.recs.length := by omega
    subst this
    rw [tailOut_len]
    unfold Layout.endRaw
    rw [bnd_len]; simp
  | succ d ih =>
    intro j h
    have hj : j < L.recs.length := by omega
    rw [tailOut_lt L j hj, List.length_append]
    have h1 := ih (j + 1) (by omega)
    have h2 := (hck j hj).2.2.2
    have h3 : (chkOf L j).rsize = bnd L.recs (j + 1) - bnd L.recs j := by
      unfold chkOf
      simp only
      rw [gr_prev_raw _ _ (Nat.le_of_lt hj), gr_curr_raw_lt _ _ hj]
    push_cast
    omega

/-- **C15, core.** -/
theorem accepted_core (h : openIndex .fixed crc stream = .ok r)
    (hT : ∀ j, j + 1 < r.recs.length → ∃ data, Transp (segB stream r.recs j) data)
    (n fuel : Nat) (hn : 0 < n) (advs : List Adv) (d : List UInt8)
    (hs : seqRead (layoutOf stream r.recs) n fuel (opened .fixed (layoutOf stream r.recs)) advs [] =
      (d, some .eof)) :
    Flate.decode stream = { out := d.toArray, verdict := .ok (8 * stream.length) } ∧
    (layoutOf stream r.recs).endRaw = (d.length : Int) := by
  have ok := open_recsOK h
  obtain ⟨hd, hck⟩ := seq_accept ok n fuel hn advs d hs
  obtain ⟨recs0, foot, hr, hft, _, hg, hl⟩ := open_recs crc stream r h
  have hN : r.recs.length = recs0.length + 1 := by rw [hr]; simp
  have hLN : (layoutOf stream r.recs).recs.length = r.recs.length := rfl
  constructor
  · -- the footer segment
    have hlast : recs0.length < r.recs.length := by omega
    have hckf := hck recs0.length hlast
    have htyp : (chkOf (layoutOf stream r.recs) recs0.length).typ = footerType := by
      unfold chkOf
      simp only
      show (getRecords r.recs recs0.length).2.typ = footerType
      rw [gr_curr_lt _ _ hlast]
      have : r.recs[recs0.length] = foot := by
        simp [hr]
      rw [this, hft]
    obtain ⟨c1, c2, c3⟩ := cbnd_facts h recs0.length hlast
    have hcend : cbnd r.recs (recs0.length + 1) = (stream.length : Int) := by
      rw [← hN, cbnd_len, hl]
    have hcs : (chkOf (layoutOf stream r.recs) recs0.length).csize =
        ((segB stream r.recs recs0.length).length : Int) := by
      unfold chkOf
      simp only
      show (getRecords r.recs recs0.length).2.comp - (getRecords r.recs recs0.length).1.comp = _
      rw [segB_eq _ hlast, bytesBetween_length _ _ _ c1 c2 c3,
        gr_prev_comp _ _ (Nat.le_of_lt hlast), gr_curr_comp_lt _ _ hlast]
    obtain ⟨f1, _, f3, _⟩ := hckf
    rw [seg_eq _ hlast] at f1 f3
    obtain ⟨o, nn, hdec, h8, hout, hin⟩ := spec_ok _ f1
    rw [hin, hcs, htyp] at f3
    simp only [ne_eq, not_true_eq_false, if_false, Int.add_zero] at f3
    have hnn : nn = 8 * (segB stream r.recs recs0.length).length := by omega
    rw [hnn] at hdec
    have ht := transp_prefix h hT recs0.length (by omega)
    have hcat := decode_transp_footer _ _ _ _ ht hdec
    have hstream : stream.take (cbnd r.recs recs0.length).toNat ++ segB stream r.recs recs0.length = stream := by
      rw [segB_eq _ hlast, take_bytesBetween _ _ _ c1 c2, hcend]
      simp
    rw [hstream] at hcat
    rw [hcat]
    have hdd : d = prefOut (layoutOf stream r.recs) recs0.length ++ o.toList := by
      rw [hd, ← prefOut_all, hLN, hN, prefOut_succ _ _ (by rw [hLN]; omega), seg_eq _ hlast, hout]
    rw [hdd]
  · have := tailOut_length hck (layoutOf stream r.recs).recs.length 0 (by omega)
    rw [bnd_zero] at this
    rw [hd]
    omega

end

end Compress.Proofs.XFlateAccept
