/-
C02 layer (f2): the copy labels `copyDynamicDict` and `copyStaticDict` (from the point where the
word is known) with their suspensions, down to the end of the command.
-/
import Compress.Proofs.BrImplCmdFin
namespace Compress.Proofs.BrImpl
open Compress Compress.Brotli Compress.Brotli.Impl Compress.Window Compress.Proofs.Window
open Compress.Proofs.BrCut (cmdStep DistInv readCommandsAuto cmdContAuto)

theorem writeCopy_rdPos (d : Dict) (dist len : Nat) : (d.writeCopy dist len).1.rdPos = d.rdPos := by
  unfold Dict.writeCopy
  simp only
  split <;> rfl

theorem writeCopy_cap (d : Dict) (dist len : Nat) : (d.writeCopy dist len).1.cap = d.cap := by
  unfold Dict.writeCopy
  simp only
  split <;> rfl

theorem six_succ (a : Nat) : ∃ F, 6 * (a + 4) = F + 1 ∧ 6 * a + 23 ≤ F := ⟨6 * (a + 4) - 1, by omega, by omega⟩

section
variable {sd : ByteArray} {ws : Nat} {h : Header} {lst : Bool} {B0 : Nat} {c0 : Cmd} {st0 : St}

/-- `copyDynamicDict`: copy what fits, suspend while something is left. -/
theorem phase_dyn (cx : Cx sd ws h lst B0 c0 st0) : ∀ (n : Nat) {s : State} {st : St} {c : Cmd} {del : List UInt8}
    {M : Int} {f B : Nat},
    2 * s.cpyLen + (if s.dict.wrPos = s.dict.hist.size then 1 else 0) ≤ n →
    Mid ws h lst s st c del → s.blkLen = M → s.word = [] → Track c0 st0 c st M →
    0 < s.dist → s.dist ≤ min ws st.out.size →
    cmdStep sd ws h c0 st0 = KEnd c (M - s.cpyLen) (stOut st (specCopy st.out.toList s.dist s.cpyLen)) →
    ((s.dict.rdPos < s.dict.wrPos ∨ 1 ≤ M) ∨ (0 < s.cpyLen ∧ s.dict.wrPos < s.dict.hist.size)) →
    1 + 5 * min (c0.mlen + st0.bits.length) (st.bits.length + M.toNat + 1) ≤ f → st.bits.length ≤ B →
    After sd ws (readCommandsAuto sd ws h c0 st0) lst B0 B del (cont sd (doLabel sd .copyDynamicDict s) f) := by
  intro n
  induction n using Nat.strongRecOn with
  | _ n ih =>
    intro s st c del M f B hn m hb hw tr hd0 hd1 chain hq hf hB
    obtain ⟨hcnt, hI⟩ := m.win.writeCopy s.dist s.cpyLen hd0 (by rw [Array.length_toList]; exact hd1)
    have hav : s.dict.availSize = s.dict.hist.size - s.dict.wrPos := rfl
    have hwl := m.win.wr_le
    have hlen : (specCopy st.out.toList s.dist (min s.cpyLen s.dict.availSize)).length =
        st.out.toList.length + min s.cpyLen s.dict.availSize := specCopy_length _ _ _
    have hwr : (s.dict.writeCopy s.dist s.cpyLen).1.wrPos = s.dict.wrPos + min s.cpyLen s.dict.availSize :=
      Inv.wr_of_acc m.win hI (writeCopy_rdPos _ _ _) hlen
    have hsz : (s.dict.writeCopy s.dist s.cpyLen).1.hist.size = s.dict.hist.size :=
      Inv.hist_size_eq m.win hI (writeCopy_cap _ _ _)
    have hb1 : (dynUpd s).blkLen = M - (min s.cpyLen s.dict.availSize : Nat) := by
      show s.blkLen - ((s.dict.writeCopy s.dist s.cpyLen).2 : Nat) = _
      rw [hb, hcnt]
    have hc1 : (dynUpd s).cpyLen = s.cpyLen - min s.cpyLen s.dict.availSize := by
      show s.cpyLen - (s.dict.writeCopy s.dist s.cpyLen).2 = _
      rw [hcnt]
    have m1 : Mid ws h lst (dynUpd s) (stOut st (specCopy st.out.toList s.dist (min s.cpyLen s.dict.availSize)))
        c del :=
      ⟨m.toRead, m.err, m.rd, by rw [stOut_out]; exact hI,
        m.zeros.writeCopy m.win _ _ hd0 (by rw [Array.length_toList]; exact hd1),
        avail_after m.avail m.win.rd_le (writeCopy_rdPos _ _ _) hwr hsz,
        m.cr.transfer rfl rfl rfl rfl rfl rfl rfl rfl rfl rfl rfl rfl rfl rfl rfl, m.dpos, m.aligned, m.mtf, m.last⟩
    have tr1 : Track c0 st0 c (stOut st (specCopy st.out.toList s.dist (min s.cpyLen s.dict.availSize)))
        (M - (min s.cpyLen s.dict.availSize : Nat)) := by
      obtain ⟨t1, t2, t3, t4, t5, t6⟩ := tr
      refine ⟨t1, ?_, t3, t4, ⟨t5.1, fun hh => ?_⟩, ?_⟩
      · rw [stOut_size, hlen, Array.length_toList]; omega
      · have := t5.2 hh
        rw [stOut_size, hlen, Array.length_toList]; omega
      · rw [stOut_size, hlen, Array.length_toList]
        push_cast
        omega
    have chain1 : cmdStep sd ws h c0 st0 =
        KEnd c (M - (min s.cpyLen s.dict.availSize : Nat) - (dynUpd s).cpyLen)
          (stOut (stOut st (specCopy st.out.toList s.dist (min s.cpyLen s.dict.availSize)))
            (specCopy (stOut st (specCopy st.out.toList s.dist (min s.cpyLen s.dict.availSize))).out.toList
              (dynUpd s).dist (dynUpd s).cpyLen)) := by
      rw [chain, stOut_stOut, stOut_out, hc1]
      show _ = KEnd c _ (stOut st (specCopy (specCopy st.out.toList s.dist _) s.dist _))
      rw [← specCopy_add]
      have e : min s.cpyLen s.dict.availSize + (s.cpyLen - min s.cpyLen s.dict.availSize) = s.cpyLen := by omega
      rw [e]
      congr 1
      omega
    have hd1' : (dynUpd s).dist ≤ min ws (stOut st (specCopy st.out.toList s.dist (min s.cpyLen s.dict.availSize))).out.size := by
      show s.dist ≤ _
      rw [stOut_size, hlen, Array.length_toList]; omega
    have hq1 : (dynUpd s).dict.rdPos < (dynUpd s).dict.wrPos ∨
        1 ≤ M - (min s.cpyLen s.dict.availSize : Nat) := by
      show (s.dict.writeCopy s.dist s.cpyLen).1.rdPos < (s.dict.writeCopy s.dist s.cpyLen).1.wrPos ∨ _
      rw [hwr, writeCopy_rdPos]
      have := m.win.rd_le
      rcases hq with (hq | hq) | ⟨hq1, hq2⟩
      · left; omega
      · by_cases hk : min s.cpyLen s.dict.availSize = 0
        · right; rw [hk]; simpa using hq
        · left; omega
      · left; omega
    rw [doLabel_dyn]
    by_cases hpos : (dynUpd s).cpyLen > 0
    · -- the window is full: suspend
      rw [if_pos hpos]
      have hlt : min s.cpyLen s.dict.availSize < s.cpyLen := by rw [hc1] at hpos; omega
      have hfull : (dynUpd s).dict.wrPos = (dynUpd s).dict.hist.size := by
        show (s.dict.writeCopy s.dist s.cpyLen).1.wrPos = (s.dict.writeCopy s.dist s.cpyLen).1.hist.size
        rw [hwr, hsz]; omega
      have hfr := m1.avail hfull
      obtain ⟨i1, i2, i3⟩ := m1.win.readFlush
      show After sd ws _ lst B0 B del (.ok (), susp .dynamicDict (dynUpd s))
      refine After.susp (s1 := susp .dynamicDict (dynUpd s)) m.err (readFlush_ne_nil m1.win hfr) rfl
        (by show s.rd.bits.length ≤ B; rw [m.rd]; exact hB) ?_
      rw [readCommands_dynamic sd _ rfl]
      obtain ⟨F, hF, hF2⟩ := six_succ ((resume (susp .dynamicDict (dynUpd s))).rd.bits.length +
          (resume (susp .dynamicDict (dynUpd s))).blkLen.toNat +
          (resume (susp .dynamicDict (dynUpd s))).insLen)
      rw [hF, cmdLoop_cont]
      have hbits : (resume (susp .dynamicDict (dynUpd s))).rd.bits.length = st.bits.length := by
        show s.rd.bits.length = _
        rw [m.rd]; rfl
      have hblk : (resume (susp .dynamicDict (dynUpd s))).blkLen = M - (min s.cpyLen s.dict.availSize : Nat) := hb1
      rw [hbits, hblk] at hF2
      refine ih (2 * (dynUpd s).cpyLen) ?_ (Nat.le_of_eq ?_) (m1.resume .dynamicDict) hb1 hw tr1 hd0 hd1' chain1
        (Or.inr ⟨hpos, i2⟩) ?_ (by show st.bits.length ≤ s.rd.bits.length; rw [m.rd]; exact Nat.le_refl _)
      · rw [hc1]
        by_cases hk : min s.cpyLen s.dict.availSize = 0
        · have : s.dict.wrPos = s.dict.hist.size := by omega
          rw [if_pos this] at hn
          omega
        · omega
      · show 2 * (dynUpd s).cpyLen + (if (dynUpd s).dict.readFlush.1.wrPos = (dynUpd s).dict.readFlush.1.hist.size
          then 1 else 0) = _
        rw [if_neg (Nat.ne_of_lt i2)]
        omega
      · show 1 + 5 * min (c0.mlen + st0.bits.length) (st.bits.length + _ + 1) ≤ F
        omega
    · -- the copy is complete
      rw [if_neg hpos]
      have hc0 : (dynUpd s).cpyLen = 0 := by omega
      rw [hc0] at chain1
      simp only [specCopy, stOut_self, Int.natCast_zero, Int.sub_zero] at chain1
      refine phase_fin cx m1 hb1 hw tr1 chain1 hq1 ?_ hB
      have : (M - (min s.cpyLen s.dict.availSize : Nat)).toNat ≤ M.toNat := by omega
      show 1 + 5 * min (c0.mlen + st0.bits.length) (st.bits.length + _ + 1) ≤ f
      omega
/-- `copyStaticDict` from the point where the word is known: write what fits, suspend while something is left. -/
theorem phase_word (cx : Cx sd ws h lst B0 c0 st0) : ∀ (n : Nat) {s : State} {st : St} {c : Cmd} {del : List UInt8}
    {M : Int} {f B : Nat},
    2 * s.word.length + (if s.dict.wrPos = s.dict.hist.size then 1 else 0) ≤ n →
    Mid ws h lst s st c del → s.blkLen = M → Track c0 st0 c st M →
    cmdStep sd ws h c0 st0 = KEnd c (M - s.word.length) (stOut st (st.out.toList ++ s.word)) →
    ((s.dict.rdPos < s.dict.wrPos ∨ 1 ≤ M) ∨ (s.word ≠ [] ∧ s.dict.wrPos < s.dict.hist.size)) →
    1 + 5 * min (c0.mlen + st0.bits.length) (st.bits.length + M.toNat + 1) ≤ f → st.bits.length ≤ B →
    After sd ws (readCommandsAuto sd ws h c0 st0) lst B0 B del (cont sd (wordTail s) f) := by
  intro n
  induction n using Nat.strongRecOn with
  | _ n ih =>
    intro s st c del M f B hn m hb tr chain hq hf hB
    obtain ⟨hcnt, hI⟩ := m.win.writeBytes s.word
    have hav : s.dict.availSize = s.dict.hist.size - s.dict.wrPos := rfl
    have hwl := m.win.wr_le
    have hlen : (st.out.toList ++ s.word.take (min s.word.length s.dict.availSize)).length =
        st.out.toList.length + min s.word.length s.dict.availSize := by
      rw [List.length_append, List.length_take]; omega
    have hwr : (s.dict.writeBytes s.word).1.wrPos = s.dict.wrPos + min s.word.length s.dict.availSize :=
      Inv.wr_of_acc m.win hI rfl hlen
    have hsz : (s.dict.writeBytes s.word).1.hist.size = s.dict.hist.size := Inv.hist_size_eq m.win hI rfl
    have hb1 : (wordUpd s).blkLen = M - (min s.word.length s.dict.availSize : Nat) := by
      show s.blkLen - ((s.dict.writeBytes s.word).2 : Nat) = _
      rw [hb, hcnt]
    have hw1 : (wordUpd s).word = s.word.drop (min s.word.length s.dict.availSize) := by
      show s.word.drop (s.dict.writeBytes s.word).2 = _
      rw [hcnt]
    have m1 : Mid ws h lst (wordUpd s) (stOut st (st.out.toList ++ s.word.take (min s.word.length s.dict.availSize)))
        c del :=
      ⟨m.toRead, m.err, m.rd, by rw [stOut_out]; exact hI, m.zeros.writeBytes hwl _,
        avail_after m.avail m.win.rd_le rfl hwr hsz,
        m.cr.transfer rfl rfl rfl rfl rfl rfl rfl rfl rfl rfl rfl rfl rfl rfl rfl, m.dpos, m.aligned, m.mtf, m.last⟩
    have tr1 : Track c0 st0 c (stOut st (st.out.toList ++ s.word.take (min s.word.length s.dict.availSize)))
        (M - (min s.word.length s.dict.availSize : Nat)) := by
      obtain ⟨t1, t2, t3, t4, t5, t6⟩ := tr
      refine ⟨t1, ?_, t3, t4, ⟨t5.1, fun hh => ?_⟩, ?_⟩
      · rw [stOut_size, hlen, Array.length_toList]; omega
      · have := t5.2 hh
        rw [stOut_size, hlen, Array.length_toList]; omega
      · rw [stOut_size, hlen, Array.length_toList]
        push_cast
        omega
    have chain1 : cmdStep sd ws h c0 st0 =
        KEnd c (M - (min s.word.length s.dict.availSize : Nat) - (wordUpd s).word.length)
          (stOut (stOut st (st.out.toList ++ s.word.take (min s.word.length s.dict.availSize)))
            ((stOut st (st.out.toList ++ s.word.take (min s.word.length s.dict.availSize))).out.toList ++
              (wordUpd s).word)) := by
      rw [chain, stOut_stOut, stOut_out, hw1, List.append_assoc, List.take_append_drop, List.length_drop]
      congr 1
      omega
    have hq1 : (wordUpd s).dict.rdPos < (wordUpd s).dict.wrPos ∨
        1 ≤ M - (min s.word.length s.dict.availSize : Nat) := by
      show s.dict.rdPos < (s.dict.writeBytes s.word).1.wrPos ∨ _
      rw [hwr]
      have := m.win.rd_le
      rcases hq with (hq | hq) | ⟨hq1, hq2⟩
      · left; omega
      · by_cases hk : min s.word.length s.dict.availSize = 0
        · right; rw [hk]; simpa using hq
        · left; omega
      · have : 0 < s.word.length := List.length_pos_iff.mpr hq1
        left; omega
    unfold wordTail
    by_cases hemp : (wordUpd s).word.isEmpty
    · -- the whole word has been written
      rw [if_neg (by simp [hemp])]
      have hw0 : (wordUpd s).word = [] := List.isEmpty_iff.mp hemp
      rw [hw0, List.length_nil, List.append_nil, stOut_self] at chain1
      refine phase_fin cx m1 hb1 hw0 tr1 (by simpa using chain1) hq1 ?_ hB
      have : (M - (min s.word.length s.dict.availSize : Nat)).toNat ≤ M.toNat := by omega
      show 1 + 5 * min (c0.mlen + st0.bits.length) (st.bits.length + _ + 1) ≤ f
      omega
    · -- the window is full: suspend
      rw [if_pos (by simp [hemp])]
      have hne : (wordUpd s).word ≠ [] := fun h0 => hemp (by rw [h0]; rfl)
      have hlt : min s.word.length s.dict.availSize < s.word.length := by
        rw [hw1] at hne
        have : 0 < (s.word.drop (min s.word.length s.dict.availSize)).length := List.length_pos_iff.mpr hne
        rw [List.length_drop] at this
        omega
      have hfull : (wordUpd s).dict.wrPos = (wordUpd s).dict.hist.size := by
        show (s.dict.writeBytes s.word).1.wrPos = (s.dict.writeBytes s.word).1.hist.size
        rw [hwr, hsz]; omega
      have hfr := m1.avail hfull
      obtain ⟨i1, i2, i3⟩ := m1.win.readFlush
      show After sd ws _ lst B0 B del (.ok (), susp .staticDict (wordUpd s))
      refine After.susp (s1 := susp .staticDict (wordUpd s)) m.err (readFlush_ne_nil m1.win hfr) rfl
        (by show s.rd.bits.length ≤ B; rw [m.rd]; exact hB) ?_
      rw [readCommands_static sd _ rfl]
      obtain ⟨F, hF, hF2⟩ := six_succ ((resume (susp .staticDict (wordUpd s))).rd.bits.length +
          (resume (susp .staticDict (wordUpd s))).blkLen.toNat +
          (resume (susp .staticDict (wordUpd s))).insLen)
      rw [hF, cmdLoop_cont, doLabel_static, if_neg (by
        show ¬ (wordUpd s).word.isEmpty = true
        simp [hemp])]
      have hbits : (resume (susp .staticDict (wordUpd s))).rd.bits.length = st.bits.length := by
        show s.rd.bits.length = _
        rw [m.rd]; rfl
      have hblk : (resume (susp .staticDict (wordUpd s))).blkLen = M - (min s.word.length s.dict.availSize : Nat) := hb1
      rw [hbits, hblk] at hF2
      refine ih (2 * (wordUpd s).word.length) ?_ (Nat.le_of_eq ?_) (m1.resume .staticDict) hb1 tr1 chain1
        (Or.inr ⟨hne, i2⟩) ?_ (by show st.bits.length ≤ s.rd.bits.length; rw [m.rd]; exact Nat.le_refl _)
      · rw [hw1, List.length_drop]
        by_cases hk : min s.word.length s.dict.availSize = 0
        · have : s.dict.wrPos = s.dict.hist.size := by omega
          rw [if_pos this] at hn
          omega
        · omega
      · show 2 * (wordUpd s).word.length + (if (wordUpd s).dict.readFlush.1.wrPos = (wordUpd s).dict.readFlush.1.hist.size
          then 1 else 0) = _
        rw [if_neg (Nat.ne_of_lt i2)]
        omega
      · show 1 + 5 * min (c0.mlen + st0.bits.length) (st.bits.length + _ + 1) ≤ F
        omega
end
end Compress.Proofs.BrImpl
