/-
C08 helpers: the segment-independent invariant of the Reader and its preservation by `Seek`.
-/
import Compress.XFlate.ReaderSpec
import Compress.Proofs.XRIndex
import Compress.Proofs.XRSeek
import Compress.Proofs.XTIndex

namespace Compress.Proofs.XTSeek
open Compress Compress.XFlate Compress.Proofs.XRIndex Compress.Proofs.XRSeek Compress.Proofs.XTIndex

/-- the invariant (mirrors `XFlateTotal.SInv`): the index-related fields describe segment
    `s.seg`; and, while no error is latched, the position is the start of the segment plus what
    the inflater has delivered plus what is still to be discarded — or it lies beyond the end,
    on the tail segment. -/
structure TInv (L : Layout) (s : RState) : Prop where
  segLe : s.seg ≤ L.recs.length
  riEq  : s.ri = min (s.seg + 1) L.recs.length
  chkEq : s.chk.rsize = (getRecords L.recs s.seg).2.raw - (getRecords L.recs s.seg).1.raw ∧
          s.chk.typ = (getRecords L.recs s.seg).2.typ
  discNonneg : 0 ≤ s.discard
  rel : s.err = none →
    s.offset = (getRecords L.recs s.seg).1.raw + s.zout + s.discard ∨
    (s.seg = L.recs.length ∧ L.endRaw < s.offset)

section
variable {L : Layout}

/-- latching an error keeps the invariant. -/
theorem tinv_err (s : RState) (inv : TInv L s) (e : Err) : TInv L { s with err := some e } :=
  ⟨inv.segLe, inv.riEq, inv.chkEq, inv.discNonneg, fun h => by cases h⟩

theorem tinv_slow (rk : Rk L.recs) (s : RState) (pos : Int) (idx : Nat)
    (hidx : idx ≤ L.recs.length)
    (h1 : (getRecords L.recs idx).1.raw ≤ pos)
    (h2 : L.endRaw < pos → idx = L.recs.length) :
    TInv L (slowState L s pos idx) := by
  have hb := seg_bounds' rk idx hidx
  have hmin : min idx L.recs.length = idx := by omega
  unfold slowState
  rw [hmin]
  refine ⟨hidx, rfl, ⟨rfl, rfl⟩, ?_, ?_⟩
  · show 0 ≤ (if pos > L.endRaw then L.endRaw - (getRecords L.recs idx).1.raw
              else pos - (getRecords L.recs idx).1.raw)
    split <;> omega
  · intro _
    show pos = (getRecords L.recs idx).1.raw + ((0 : Nat) : Int) +
        (if pos > L.endRaw then L.endRaw - (getRecords L.recs idx).1.raw
              else pos - (getRecords L.recs idx).1.raw) ∨ (idx = L.recs.length ∧ L.endRaw < pos)
    split
    · rename_i h; right; exact ⟨h2 h, h⟩
    · left; omega

theorem tinv_seekTo (rk : Rk L.recs) (s : RState) (inv : TInv L s) (pos : Int) (hpos : 0 ≤ pos) :
    TInv L (seekTo L s pos).1 := by
  unfold seekTo
  split
  · rename_i hf
    obtain ⟨f1, f2, f3⟩ := hf
    obtain ⟨segLe, riEq, chkEq, discNonneg, rel⟩ := inv
    refine ⟨segLe, riEq, chkEq, ?_, ?_⟩
    · show 0 ≤ s.discard + (pos - s.offset); omega
    · intro he
      show pos = (getRecords L.recs s.seg).1.raw + s.zout + (s.discard + (pos - s.offset)) ∨
        (s.seg = L.recs.length ∧ L.endRaw < pos)
      rcases rel he with h | h
      · left; omega
      · right; exact ⟨h.1, by omega⟩
  · have hri : s.ri ≤ L.recs.length := by rw [inv.riEq]; omega
    obtain ⟨a, b, c⟩ := pickRi_ok' rk s hri pos hpos
    exact tinv_slow rk s pos _ a b c

theorem specSeek_nonneg {len pos off : Int} {wh : Nat} {p : Int}
    (h : specSeek len pos off wh = some p) : 0 ≤ p := by
  unfold specSeek at h
  match wh with
  | 0 => by_cases hp : off < 0 <;> simp [hp] at h <;> omega
  | 1 => by_cases hp : pos + off < 0 <;> simp [hp] at h <;> omega
  | 2 => by_cases hp : len + off < 0 <;> simp [hp] at h <;> omega
  | _+3 => simp at h

/-- **`Seek` keeps the invariant**, whatever it is asked and whatever state it is in. -/
theorem tinv_seek (rk : Rk L.recs) (s : RState) (inv : TInv L s) (off : Int) (wh : Nat) :
    TInv L (seek .fixed L s off wh).1 := by
  by_cases herr : s.err ≠ none ∧ s.err ≠ some .eof
  · unfold seek
    rw [if_pos herr]
    exact inv
  · have herr' : s.err = none ∨ s.err = some .eof := by
      by_cases h : s.err = none
      · exact Or.inl h
      · right
        exact Decidable.not_not.1 (fun h' => herr ⟨h, h'⟩)
    rw [seek_eq L s off wh herr']
    cases hsp : specSeek L.endRaw s.offset off wh with
    | none => exact inv
    | some p => exact tinv_seekTo rk s inv p (specSeek_nonneg hsp)

theorem tinv_opened (rk : Rk L.recs) : TInv L (opened .fixed L) := by
  unfold opened
  rw [seek_eq L preOpen 0 0 (Or.inl rfl)]
  have hsp : specSeek L.endRaw preOpen.offset 0 0 = some 0 := by simp [specSeek]
  rw [hsp]
  show TInv L (seekTo L preOpen 0).1
  unfold seekTo
  have hnf : ¬ fastCond preOpen 0 := by unfold fastCond preOpen; simp
  rw [if_neg hnf]
  obtain ⟨a, b, c⟩ := pickRi_ok' rk preOpen (Nat.zero_le _) 0 (Int.le_refl _)
  exact tinv_slow rk preOpen 0 _ a b c

end

end Compress.Proofs.XTSeek
